(* Proofs/FramingDuplex.v — whatever the interleaving of ReadPacket calls and transport writes on one processor,
   the reader returns the parse of the incoming bytes and the wire is the concatenation of the writer's chunks. *)
From TX Require Import Model.FramingDuplex Proofs.Framing.
From Coq Require Import Lia.

Section Duplex.
  Variable MaxBody : N.
  Variable inflate : list byte -> option (list byte).
  Variable json_norm : list byte -> option (list byte).
  Let V := current_variant.
  Notation dr_step := (dr_step V MaxBody inflate json_norm).
  Notation drun := (drun V MaxBody inflate json_norm).
  Notation read_packet := (read_packet V MaxBody inflate json_norm).
  Notation read_all := (read_all V MaxBody inflate json_norm).

  Fixpoint iterl {A} (n : nat) (f : A -> A) (x : A) : A :=
    match n with O => x | S k => iterl k f (f x) end.

  Lemma drun_independent sched : forall s,
    drun sched s = (iterl (count_b true sched) dr_step (fst s), iterl (count_b false sched) dw_step (snd s)).
  Proof.
    induction sched as [|b t IH]; intros [r w]; [reflexivity|].
    destruct b; cbn [FramingDuplex.drun count_b Bool.eqb Nat.add iterl fst snd]; rewrite IH; reflexivity.
  Qed.

  Fixpoint take_packets (n : nat) (r : rd) : list pres :=
    match n with
    | O => []
    | S k => match read_packet r with
             | (POk ty b c, r') => POk ty b c :: take_packets k r'
             | (PErr e c, _) => [PErr e c]
             end
    end.

  Lemma iterl_stopped n : forall s, dr_stop s = true -> iterl n dr_step s = s.
  Proof.
    induction n as [|k IH]; intros s Hs; [reflexivity|]. cbn [iterl].
    assert (E : dr_step s = s) by (unfold FramingDuplex.dr_step; rewrite Hs; reflexivity).
    rewrite E. apply IH, Hs.
  Qed.

  Lemma iterl_reader n : forall s, dr_stop s = false ->
    dr_res (iterl n dr_step s) = dr_res s ++ take_packets n (dr_rd s).
  Proof.
    induction n as [|k IH]; intros s Hs; cbn [iterl take_packets]; [now rewrite app_nil_r|].
    unfold FramingDuplex.dr_step at 2. rewrite Hs.
    destruct (read_packet (dr_rd s)) as [[ty b c|e c] r'].
    - rewrite IH by reflexivity. cbn [dr_res dr_rd]. now rewrite <- app_assoc.
    - rewrite iterl_stopped by reflexivity. reflexivity.
  Qed.

  Lemma take_packets_firstn n : forall m r, (n <= m)%nat -> take_packets n r = firstn n (read_all m r).
  Proof.
    induction n as [|k IH]; intros m r Hm; [reflexivity|].
    destruct m as [|m']; [lia|]. cbn [take_packets Framing.read_all].
    destruct (read_packet r) as [[ty b c|e c] r']; cbn [firstn]; [|now destruct k].
    f_equal. apply IH. lia.
  Qed.

  Lemma iterl_writer n : forall w, dw_wire (iterl n dw_step w) = dw_wire w ++ concat (firstn n (dw_todo w)).
  Proof.
    induction n as [|k IH]; intros w; cbn [iterl firstn concat]; [now rewrite app_nil_r|].
    unfold dw_step at 2. destruct (dw_todo w) as [|c cs] eqn:E.
    - rewrite IH, E. now destruct k.
    - rewrite IH. cbn [dw_wire dw_todo firstn concat]. now rewrite <- app_assoc.
  Qed.

  Theorem duplex_any_schedule (incoming : list byte) (cuts : list nat) (chunks : list (list byte)) (sched : list bool) :
    let s := drun sched (dr_init (mkrd incoming cuts), dw_init chunks) in
    (count_b true sched <= S (length incoming))%nat ->
    dr_res (fst s) = firstn (count_b true sched) (parse_stream V MaxBody inflate json_norm incoming)
    /\ dw_wire (snd s) = concat (firstn (count_b false sched) chunks).
  Proof.
    intros s Hn. subst s. rewrite drun_independent. cbn [fst snd]. split.
    - rewrite iterl_reader by reflexivity. cbn [dr_res dr_init dr_rd app].
      rewrite (take_packets_firstn _ (S (length incoming))) by exact Hn.
      fold V. change (read_all (S (length incoming)) (mkrd incoming cuts)) with (read_stream V MaxBody inflate json_norm incoming cuts).
      unfold V. now rewrite (read_stream_is_parse_stream MaxBody id_deflate).
    - rewrite iterl_writer. reflexivity.
  Qed.
End Duplex.

(* with scratch state shared between the directions the wire is no longer the writer's bytes: concrete schedule *)
Lemma shared_scratch_refuted :
  exists sched chunks,
    dw_wire (snd (drun_shared current_variant 16%N (fun _ => None) (fun b => Some b) sched (dr_init (mkrd [3%N] []), dw_init chunks)))
    <> concat chunks
    /\ count_b false sched = length chunks.
Proof. exists [false; true; false], [[32%N]; [7%N; 7%N]]. split; [vm_compute; discriminate|reflexivity]. Qed.

(* Proofs/SideC02.v — side conditions tying Model/Pipe.v to the values regenerated from /repo (Gen/C02.v):
   re-proved for the current values on every run. *)
From TX Require Import Model.Pipe Proofs.Pipe Proofs.PipeTop Gen.C02.
From Coq Require Import ZArith ZifyN ZifyNat ZifyBool Lia.
Open Scope N_scope.

Lemma buffer_positive : 0 < CopyBufferSize.
Proof. vm_compute. reflexivity. Qed.
Lemma threshold_positive : 0 < BatchUpdateThreshold.
Proof. vm_compute. reflexivity. Qed.
Lemma interval_positive : 0 < ContextCheckInterval.
Proof. vm_compute. reflexivity. Qed.

(* NewBridge installs no limiter for limit 0 and rate.NewLimiter(limit, 2*limit) otherwise (burst > 0) *)
Definition row_ok (row : N * bool * N) : bool :=
  let '(l, present, burst) := row in
  if l =? 0 then negb present else present && (burst =? 2 * l) && (0 <? burst).
Lemma limiter_table_rule : forallb row_ok limiter_table = true /\ (8 <= length limiter_table)%nat.
Proof. split; [vm_compute; reflexivity|vm_compute; lia]. Qed.

(* hence every limiter of the table satisfies the premise of the completeness theorems ... *)
Lemma table_limiters_wf : forall l p b, In (l, p, b) limiter_table -> lim_wf (if p then Some b else None).
Proof.
  intros l p b Hin. destruct limiter_table_rule as [H _]. rewrite forallb_forall in H. specialize (H _ Hin).
  unfold row_ok in H. destruct p; cbn; [|exact I]. destruct (l =? 0); [discriminate|]. lia.
Qed.

(* ... while the pinned rule refuses a full buffer for every tabled limit below half the buffer size *)
Lemma pinned_refuses_full_buffer : forall l p b, In (l, p, b) limiter_table -> p = true -> b < CopyBufferSize ->
  limiter_ok Pinned (Some b) false CopyBufferSize = false.
Proof. intros l p b _ _ H. apply pinned_limiter_fails. exact H. Qed.
Close Scope N_scope.

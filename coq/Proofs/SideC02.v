(* Proofs/SideC02.v — side conditions tying Model/Pipe.v to the values regenerated from /repo (Gen/C02.v):
   re-proved for the current values on every run. *)
From TX Require Import Model.Pipe Model.PipeLocks Proofs.Pipe Proofs.PipeTop Proofs.PipeLocks Gen.C02.
From Coq Require Import ZArith ZifyN ZifyNat ZifyBool Lia.
Open Scope N_scope.

Lemma buffer_positive : 0 < CopyBufferSize.
Proof. vm_compute. reflexivity. Qed.
Lemma threshold_positive : 0 < BatchUpdateThreshold.
Proof. vm_compute. reflexivity. Qed.
Lemma interval_positive : 0 < ContextCheckInterval.
Proof. vm_compute. reflexivity. Qed.

(* NewBridge installs no limiter for limit 0 and rate.NewLimiter(limit, 2*limit) otherwise (burst > 0) *)
Definition row_ok (row : N * bool * N) : bool :=
  let '(l, present, burst) := row in
  if l =? 0 then negb present else present && (burst =? 2 * l) && (0 <? burst).
Lemma limiter_table_rule : forallb row_ok limiter_table = true /\ (8 <= length limiter_table)%nat.
Proof. split; [vm_compute; reflexivity|vm_compute; lia]. Qed.

(* hence every limiter of the table satisfies the premise of the completeness theorems ... *)
Lemma table_limiters_wf : forall l p b, In (l, p, b) limiter_table -> lim_wf (if p then Some b else None).
Proof.
  intros l p b Hin. destruct limiter_table_rule as [H _]. rewrite forallb_forall in H. specialize (H _ Hin).
  unfold row_ok in H. destruct p; cbn; [|exact I]. destruct (l =? 0); [discriminate|]. lia.
Qed.

(* ... while the pinned rule refuses a full buffer for every tabled limit below half the buffer size *)
Lemma pinned_refuses_full_buffer : forall l p b, In (l, p, b) limiter_table -> p = true -> b < CopyBufferSize ->
  limiter_ok Pinned (Some b) false CopyBufferSize = false.
Proof. intros l p b _ _ H. apply pinned_limiter_fails. exact H. Qed.

(* the retry decision probed on the real CopyWithControl: only errors that are temporary are retried, and the decision is the
   model's rkind_of_error (retried exactly when the error is both a timeout and temporary) for all four combinations *)
Lemma retry_table_only_temporary :
  forallb (fun row => let '(tmo, tmp, retried) := row in implb retried tmp) retry_table = true.
Proof. vm_compute. reflexivity. Qed.
Lemma retry_table_is_model :
  length retry_table = 4%nat /\
  forallb (fun row => let '(tmo, tmp, retried) := row in
                      Bool.eqb retried (match rkind_of_error tmo tmp with RTimeout => true | _ => false end)) retry_table = true /\
  map (fun row => fst row) retry_table = [(false, false); (false, true); (true, false); (true, true)].
Proof. vm_compute. repeat split; reflexivity. Qed.

(* the lock paths read from the syntax tree: no method of the bridge acquires a mutex while it holds one ... *)
Definition bridge_lock_paths : list (list lock_op) :=
  [lock_path_Bridge_Close; lock_path_Bridge_SetSourceConnection; lock_path_Bridge_SetTargetConnection; lock_path_dynamicSourceWriter_Write].
Lemma lock_paths_single_hold :
  forallb single_hold bridge_lock_paths = true /\ forallb (fun p => negb (Nat.eqb (length p) 0)) bridge_lock_paths = true.
Proof. vm_compute. split; reflexivity. Qed.

(* ... hence no interleaving of any number of Close / SetSourceConnection / SetTargetConnection / dynamicSourceWriter.Write
   calls can deadlock on these mutexes *)
Lemma bridge_lock_paths_never_deadlock : forall (mix : list (list lock_op)) sched,
  (forall p, In p mix -> In p bridge_lock_paths) -> ~ deadlock (lk_run mix sched).
Proof.
  intros mix sched Hsub. apply no_deadlock_single_hold. apply forallb_forall. intros p Hp.
  destruct lock_paths_single_hold as [H _]. rewrite forallb_forall in H. apply H, Hsub, Hp.
Qed.
Close Scope N_scope.

(* Proofs/SideC16.v — side conditions over values regenerated from the repository (Gen/C16.v).
   They hold for the pinned AND for the repaired tree; a change that moves the code outside the two shapes the model
   knows (state numbering, notification table, latch shape) breaks one of them. *)
From TX Require Import Model.Shutdown Gen.C16.
From Coq Require Import Lia.

(* the model's state numbers are the code's TunnelState values *)
Lemma state_numbering : (StConnecting, StConnected, StClosing, StClosed) = (0, 1, 2, 3).
Proof. reflexivity. Qed.

(* shouldNotifyPeer: everything notifies except peer_closed and context_canceled *)
Lemma notify_table_shape :
  length NotifyTable = 6 /\ nth ReasonPeerClosed NotifyTable true = false /\ nth ReasonContextCanceled NotifyTable true = false /\
  length (filter (fun b => b) NotifyTable) = 4.
Proof. vm_compute. auto. Qed.

(* Tunnel.Close has one of the two latch shapes the model transcribes: CAS retried in a loop (repaired, tstep true)
   or CAS(Connected->Closing) with a Store(Closing) fallback (pinned, tstep false) *)
Lemma tunnel_latch_shape_known : TunnelCloseLatchFound = true /\ TunnelCloseCasRetried = negb TunnelCloseBlindStore.
Proof. vm_compute. auto. Qed.

(* the copy loops add whole batches: the threshold is positive, so every counter.Add argument is >= 0 *)
Lemma batch_threshold_positive : (0 < BatchUpdateThreshold)%N.
Proof. vm_compute. reflexivity. Qed.

(* StreamProcessor.onClose has one of the two shapes the model transcribes: it keeps ps.reader / ps.writer (repaired,
   pstep true) or sets both to nil (pinned, pstep false); what the syntax tree says and what a real processor does agree *)
Lemma stream_onclose_shape_known :
  StreamOnCloseFound = true /\ StreamOnCloseAssignsNilReader = StreamCloseNilsReader /\
  StreamOnCloseAssignsNilWriter = StreamCloseNilsWriter /\ StreamCloseNilsReader = StreamCloseNilsWriter.
Proof. vm_compute. auto. Qed.

(* Tunnel.Start has the statements the lifecycle model transcribes (one SetCtx, one Connecting->Connected CAS, at least
   one go statement); their ORDER is the regenerated flag TunnelStartSetCtxBeforeCas, which selects the model variant *)
Lemma tunnel_start_shape_known : TunnelStartShapeFound = true /\ 1 <= TunnelStartSpawns.
Proof. vm_compute. split; [reflexivity|]. repeat constructor. Qed.

(* dynamicSourceWriter.Write was found and classified (lock released before / held across the forwarder Write) *)
Lemma source_writer_shape_known : SourceWriterShapeFound = true.
Proof. reflexivity. Qed.

(* round 3: the three shapes were found and classified (which variant holds is the regenerated flag that selects the model
   variant the harness run is compared with) *)
Lemma stream_acquire_shape_known : StreamAcquireShapeFound = true.
Proof. reflexivity. Qed.
Lemma mapping_cleanup_shape_known : MappingCleanupFound = true.
Proof. reflexivity. Qed.
Lemma bridge_close_shape_known : BridgeCloseFound = true.
Proof. reflexivity. Qed.

(* round 4: DisposeWithTimeout's result channel and CloseConnection's delete/close order were found and classified *)
Lemma dispose_timeout_shape_known : DisposeTimeoutShapeFound = true.
Proof. reflexivity. Qed.
Lemma close_connection_shape_known : CloseConnectionShapeFound = true.
Proof. reflexivity. Qed.

(* round 5: DisposeAll's order handling and waitForTokens were found and classified *)
Lemma dispose_all_shape_known : DisposeAllShapeFound = true.
Proof. reflexivity. Qed.
Lemma throttle_wait_shape_known : ThrottleWaitShapeFound = true.
Proof. reflexivity. Qed.

(* round 6: reportStats and Bridge.cleanup were found and classified *)
Lemma mapping_stats_shape_known : MappingStatsShapeFound = true.
Proof. reflexivity. Qed.
Lemma bridge_cleanup_shape_known : BridgeCleanupShapeFound = true.
Proof. reflexivity. Qed.

(* round 7: Dispose.Close was found and its latch classified *)
Lemma dispose_latch_shape_known : DisposeLatchShapeFound = true.
Proof. reflexivity. Qed.

(* round 8: RegisterTunnel and the OnClosed closure of handleConnection were found and classified *)
Lemma register_tunnel_shape_known : RegisterTunnelShapeFound = true.
Proof. reflexivity. Qed.
Lemma mapping_onclosed_shape_known : MappingOnClosedFound = true.
Proof. reflexivity. Qed.

(* round 9: the flush sites of CopyWithControl and handleConnection's releaseSlot were found and classified *)
Lemma copy_flush_shape_known : CopyFlushShapeFound = true.
Proof. reflexivity. Qed.
Lemma release_slot_shape_known : ReleaseSlotShapeFound = true.
Proof. reflexivity. Qed.

(* round 10: the read loops of ReadExact / ReadExactZeroCopy were found and classified *)
Lemma read_loop_shape_known : ReadLoopShapeFound = true.
Proof. reflexivity. Qed.

(* Proofs/ConnCode.v — C06: invariants of the ConnCode model over ALL schedules (Base/Threads.v), any number of
   concurrent activators / revokers / expiry ticks, any per-caller forward-write fault, any initial code record. *)
From Coq Require Import List Arith NArith Bool Lia.
From TX Require Import Base.Threads Model.ConnCode.
Import ListNotations.

(* ---------- thread classes ---------- *)

(* holds the claim and may still write (or has won) *)
Definition crit (t : lo) : bool :=
  match l_kind t, l_pc t with
  | KAct _ _ _, (PMain | PGlob | PCleanup | PIdxL | PIdxT | PUpdCode | PUpdId | PRbL | PRbT | PRbGlob | PRbMain
                | PRelease _ | PDone (ROk _)) => true
  | KRev, (PUpdCode | PUpdId | PRelease _) => true
  | _, _ => false
  end.

(* past connCode.Activate: the only threads that can (or did) return success *)
Definition can_win (t : lo) : bool :=
  match l_kind t, l_pc t with
  | KAct _ _ _, (PUpdCode | PUpdId | PDone (ROk _)) => true
  | _, _ => false
  end.

(* the main record of this caller's mapping is in the store *)
Definition has_rec (t : lo) : bool :=
  match l_kind t, l_pc t with
  | KAct _ _ _, (PGlob | PCleanup | PIdxL | PIdxT | PUpdCode | PUpdId | PRbL | PRbT | PRbGlob | PRbMain | PDone (ROk _)) => true
  | _, _ => false
  end.

Definition mk_rec (P : params) (t : lo) : mrec :=
  match l_kind t with
  | KAct l la _ => {| m_id := l_me t; m_listen := l; m_laddr := la; m_target := p_tgt P; m_taddr := p_taddr P |}
  | _ => {| m_id := l_me t; m_listen := 0; m_laddr := 0; m_target := p_tgt P; m_taddr := p_taddr P |}
  end.

Definition not_me (i : nat) (m : mrec) : bool := negb (Nat.eqb (m_id m) i).

Lemma can_win_crit t : can_win t = true -> crit t = true.
Proof. unfold can_win, crit. destruct (l_kind t); destruct (l_pc t) as [| | | | | | | | | | | | | | e | | r]; try discriminate; auto. Qed.

(* ---------- what one step of the repaired code can do (brute-force case analysis, done once) ---------- *)

Ltac break_step :=
  repeat match goal with
         | |- context [tick_fault ?f] => destruct f as [[|?]|]; cbn [tick_fault]
         | |- context [match by_code ?s with _ => _ end] => destruct (by_code s) as [?|] eqn:?
         | |- context [match by_id ?s with _ => _ end] => destruct (by_id s) as [?|] eqn:?
         | |- context [if ?b then _ else _] => destruct b eqn:?
         end.

Lemma step_facts (P : params) (t : lo) (s : sh) (t' : lo) (s' : sh) :
  tstep Current P t s = (t', s') ->
  l_me t' = l_me t /\ l_kind t' = l_kind t
  /\ (expired s = true -> expired s' = true)
  /\ (crit t = false -> crit t' = true -> claim s = false /\ claim s' = true)
  /\ (claim s = true -> claim s' = false -> expired s' = false -> crit t = true /\ crit t' = false)
  /\ (crit t = true -> crit t' = true -> claim s' = claim s)
  /\ (can_win t = false -> can_win t' = true -> expired s = false /\ crit t = true)
  /\ ((mains s' = mains s /\ has_rec t' = has_rec t)
      \/ (mains s' = mk_rec P t :: mains s /\ has_rec t = false /\ has_rec t' = true /\ exists l la ok, l_kind t = KAct l la ok)
      \/ (mains s' = filter (not_me (l_me t)) (mains s) /\ has_rec t' = false))
  /\ (forall m, l_pc t' = PDone (ROk m) -> l_pc t = PDone (ROk m) \/ (m = l_me t /\ can_win t' = true)).
Proof.
  destruct t as [me k p snap f e]. unfold tstep. cbn [l_kind].
  destruct k as [l la ok | | ].
  - (* activator *)
    unfold act_step; cbn [l_pc l_me l_fault l_snap l_err].
    destruct p as [| | | | | | | | | | | | | | e0 | | r]; cbn [use_claim create_cleanup Current leave];
      break_step; intros H; inversion H; subst; clear H;
      cbn [crit can_win has_rec mk_rec l_kind l_pc l_me set_pc set_snap set_fault set_err finish
           expired claim mains set_claim set_mains set_glob set_cidx set_by_code set_by_id del_main];
      (split; [reflexivity|]); (split; [reflexivity|]);
      repeat match goal with |- _ /\ _ => split end;
      try (intros; try discriminate; try congruence; auto; fail);
      try (left; split; reflexivity);
      try (right; left; repeat split; try reflexivity; eauto; fail);
      try (right; right; split; reflexivity);
      try (intros m Hm; inversion Hm; subst; auto; fail).
  - (* revoker *)
    unfold rev_step; cbn [l_pc l_me l_fault l_snap l_err].
    destruct p as [| | | | | | | | | | | | | | e0 | | r]; cbn [use_claim create_cleanup Current leave];
      break_step; intros H; inversion H; subst; clear H;
      cbn [crit can_win has_rec mk_rec l_kind l_pc l_me set_pc set_snap set_fault set_err finish
           expired claim mains set_claim set_mains set_glob set_cidx set_by_code set_by_id del_main];
      (split; [reflexivity|]); (split; [reflexivity|]);
      repeat match goal with |- _ /\ _ => split end;
      try (intros; try discriminate; try congruence; auto; fail);
      try (left; split; reflexivity);
      try (intros m Hm; inversion Hm; subst; auto; fail).
  - (* tick *)
    cbn [l_pc].
    destruct p as [| | | | | | | | | | | | | | e0 | | r]; intros H; inversion H; subst; clear H;
      cbn [crit can_win has_rec mk_rec l_kind l_pc l_me set_pc finish expired claim mains set_expired];
      (split; [reflexivity|]); (split; [reflexivity|]);
      repeat match goal with |- _ /\ _ => split end;
      try (intros; try discriminate; try congruence; auto; fail);
      try (left; split; reflexivity);
      try (intros m Hm; inversion Hm; subst; auto; fail).
Qed.

(* Proofs/ConnCode.v — C06: invariants of the ConnCode model over ALL schedules (Base/Threads.v), any number of
   concurrent activators / revokers / expiry ticks, any per-caller forward-write fault, any initial code record. *)
From Coq Require Import List Arith NArith Bool Lia.
From TX Require Import Base.Threads Model.ConnCode.
Import ListNotations.

(* ---------- thread classes ---------- *)

(* holds the claim and may still write (or has won) *)
Definition crit (t : lo) : bool :=
  match l_kind t, l_pc t with
  | KAct _ _ _, (PMain | PGlob | PCleanup | PIdxL | PIdxT | PUpdCode | PUpdId | PRbL | PRbT | PRbGlob | PRbMain
                | PRelease _ | PDone (ROk _) | PRelAdm (ROk _)) => true
  | KRev, (PUpdCode | PUpdId | PRelease _ | PDone RRevoked) => true
  | _, _ => false
  end.

(* the only threads that can still write (or have written) the code record: an activator past connCode.Activate,
   a revoker past its claim.  At most one of them ever exists, across expiry as well. *)
Definition can_win (t : lo) : bool :=
  match l_kind t, l_pc t with
  | KAct _ _ _, (PUpdCode | PUpdId | PDone (ROk _) | PRelAdm (ROk _)) => true
  | KRev, (PUpdCode | PUpdId | PDone RRevoked) => true
  | _, _ => false
  end.

(* the main record of this caller's mapping is in the store *)
Definition has_rec (t : lo) : bool :=
  match l_kind t, l_pc t with
  | KAct _ _ _, (PGlob | PCleanup | PIdxL | PIdxT | PUpdCode | PUpdId | PRbL | PRbT | PRbGlob | PRbMain | PDone (ROk _)
                | PRelAdm (ROk _)) => true
  | _, _ => false
  end.

(* the asynchronous clean-up of a listing is running *)
Definition in_purge (t : lo) : bool :=
  match l_kind t, l_pc t with
  | KList, (PPGet | PPDelCode | PPDelId | PPDelClaim | PPRmIdx) => true
  | _, _ => false
  end.

Definition mk_rec (P : params) (t : lo) : mrec :=
  match l_kind t with
  | KAct l la _ => {| m_id := l_me t; m_listen := l; m_laddr := la; m_target := p_tgt P; m_taddr := p_taddr P |}
  | _ => {| m_id := l_me t; m_listen := 0; m_laddr := 0; m_target := p_tgt P; m_taddr := p_taddr P |}
  end.

Definition not_me (i : nat) (m : mrec) : bool := negb (Nat.eqb (m_id m) i).

(* the mapping id a (finishing) successful activation returns *)
Definition okres (t : lo) : option nat :=
  match l_pc t with PDone (ROk m) | PRelAdm (ROk m) => Some m | _ => None end.

Lemma okres_done t m : l_pc t = PDone (ROk m) -> okres t = Some m.
Proof. intros H. unfold okres. rewrite H. reflexivity. Qed.

Lemma can_win_crit t : can_win t = true -> crit t = true.
Proof.
  unfold can_win, crit. destruct (l_kind t); destruct (l_pc t) as [| | | | | | | | | | | | | | e | | r | | r | | | | | | |]; try discriminate; auto;
    destruct r; try discriminate; auto.
Qed.

(* ---------- what one step of the repaired code can do (brute-force case analysis, done once) ---------- *)

Ltac break_step :=
  repeat match goal with
         | |- context [tick_fault ?f] => destruct f as [[|?]|]; cbn [tick_fault]
         | |- context [match by_code ?s with _ => _ end] => destruct (by_code s) as [?|] eqn:?
         | |- context [match by_id ?s with _ => _ end] => destruct (by_id s) as [?|] eqn:?
         | |- context [if ?b then _ else _] => destruct b eqn:?
         end.

Lemma step_facts (P : params) (t : lo) (s : sh) (t' : lo) (s' : sh) :
  tstep Current P t s = (t', s') ->
  l_me t' = l_me t /\ l_kind t' = l_kind t
  /\ (expired s = true -> expired s' = true)
  /\ (crit t = false -> crit t' = true -> claim s = false /\ claim s' = true)
  /\ (claim s = true -> claim s' = false -> expired s' = false ->
      (crit t = true /\ crit t' = false) \/ in_purge t = true \/ (claim_dl s < p_win P)%N)
  /\ (in_purge t' = true -> in_purge t = true \/ expired s = true)
  /\ (l_kind t = KList -> expired s = false -> in_purge t = false ->
      by_code s' = by_code s /\ by_id s' = by_id s /\ claim s' = claim s /\ mains s' = mains s)
  /\ (crit t = true -> crit t' = true -> claim s' = claim s)
  /\ (can_win t = false -> can_win t' = true -> expired s = false /\ (crit t = true \/ claim s = false))
  /\ ((mains s' = mains s /\ has_rec t' = has_rec t)
      \/ (mains s' = mk_rec P t :: mains s /\ has_rec t = false /\ has_rec t' = true /\ exists l la ok, l_kind t = KAct l la ok)
      \/ (mains s' = filter (not_me (l_me t)) (mains s) /\ has_rec t' = false))
  /\ (forall m, okres t' = Some m -> (okres t = Some m /\ can_win t' = can_win t) \/ (m = l_me t /\ can_win t' = true)).
Proof.
  destruct t as [me k p snap f e]. unfold tstep. cbn [l_kind].
  destruct k as [l la ok | | | | d].
  - (* activator *)
    unfold act_step; cbn [l_pc l_me l_fault l_snap l_err].
    destruct p as [| | | | | | | | | | | | | | e0 | | r | | r | | | | | | |]; try (destruct r as [m0| | | |e1| |]);
      cbn [use_claim create_cleanup use_adm Current leave fin];
      break_step; intros H; inversion H; subst; clear H;
      cbn [crit can_win has_rec okres in_purge mk_rec l_kind l_pc l_me set_pc set_snap set_fault set_err finish
           expired claim mains by_code by_id set_claim set_claim_dl set_clock set_adm set_tidx set_mains set_glob set_cidx set_by_code set_by_id del_main];
      (split; [reflexivity|]); (split; [reflexivity|]);
      repeat match goal with |- _ /\ _ => split end;
      try (intros; try discriminate; try congruence; auto; fail);
      try (left; split; reflexivity);
      try (right; left; repeat split; try reflexivity; eauto; fail);
      try (right; right; split; reflexivity);
      try (intros m Hm; inversion Hm; subst; auto; fail).
  - (* revoker *)
    unfold rev_step; cbn [l_pc l_me l_fault l_snap l_err].
    destruct p as [| | | | | | | | | | | | | | e0 | | r | | r | | | | | | |]; try (destruct r as [m0| | | |e1| |]);
      cbn [use_claim create_cleanup use_adm Current rleave];
      break_step; intros H; inversion H; subst; clear H;
      cbn [crit can_win has_rec okres in_purge mk_rec l_kind l_pc l_me set_pc set_snap set_fault set_err finish
           expired claim mains by_code by_id set_claim set_claim_dl set_clock set_adm set_tidx set_mains set_glob set_cidx set_by_code set_by_id del_main];
      (split; [reflexivity|]); (split; [reflexivity|]);
      repeat match goal with |- _ /\ _ => split end;
      try (intros; try discriminate; try congruence; auto; fail);
      try (left; split; reflexivity);
      try (intros m Hm; inversion Hm; subst; auto; fail).
  - (* tick *)
    cbn [l_pc].
    destruct p as [| | | | | | | | | | | | | | e0 | | r | | r | | | | | | |]; try (destruct r as [m0| | | |e1| |]); intros H; inversion H; subst; clear H;
      cbn [crit can_win has_rec okres in_purge mk_rec l_kind l_pc l_me set_pc finish expired claim mains by_code by_id set_expired];
      (split; [reflexivity|]); (split; [reflexivity|]);
      repeat match goal with |- _ /\ _ => split end;
      try (intros; try discriminate; try congruence; auto; fail);
      try (left; split; reflexivity);
      try (intros m Hm; inversion Hm; subst; auto; fail).
  - (* listing + clean-up *)
    unfold list_step; cbn [l_pc l_me l_fault l_snap l_err].
    destruct p as [| | | | | | | | | | | | | | e0 | | r | | r | | | | | | |]; try (destruct r as [m0| | | |e1| |]);
      cbn [use_claim create_cleanup use_adm purge_revoked Current andb];
      break_step; intros H; inversion H; subst; clear H;
      cbn [crit can_win has_rec okres in_purge mk_rec l_kind l_pc l_me set_pc set_snap set_fault set_err finish
           expired claim mains by_code by_id set_claim set_claim_dl set_clock set_adm set_tidx set_mains set_glob set_cidx set_by_code set_by_id del_main];
      (split; [reflexivity|]); (split; [reflexivity|]);
      repeat match goal with |- _ /\ _ => split end;
      try (intros; try discriminate; try congruence; auto; fail);
      try (left; split; reflexivity);
      try (intros m Hm; inversion Hm; subst; auto; fail).
  - (* stall: the clock advances *)
    cbn [l_pc].
    destruct p as [| | | | | | | | | | | | | | e0 | | r | | r | | | | | | |]; try (destruct r as [m0| | | |e1| |]);
      cbn beta iota; try (destruct (p_win P <=? now s + d)%N eqn:E);
      intros H; inversion H; subst; clear H;
      cbn [crit can_win has_rec okres in_purge mk_rec l_kind l_pc l_me set_pc finish expired claim mains by_code by_id
           set_expired set_clock claim_dl now];
      (split; [reflexivity|]); (split; [reflexivity|]);
      repeat match goal with |- _ /\ _ => split end;
      try (intros; try discriminate; try congruence; auto; fail);
      try (left; split; reflexivity);
      try (intros m Hm; inversion Hm; subst; auto; fail);
      try (intros Hc Hc' _; right; right; rewrite Hc in Hc'; cbn in Hc'; apply N.ltb_ge in Hc'; apply N.leb_gt in E; lia).
Qed.

(* the deadline of a claim marker that is set: either it was set before and is unchanged, or it has just been taken and
   reaches (at least) the end of the activation window *)
Lemma step_dl (P : params) (t : lo) (s : sh) (t' : lo) (s' : sh) :
  tstep Current P t s = (t', s') ->
  claim s' = true -> (claim s = true /\ claim_dl s' = claim_dl s) \/ (p_win P <= claim_dl s')%N.
Proof.
  destruct t as [me k p snap f e]. unfold tstep. cbn [l_kind].
  destruct k as [l la ok | | | | d].
  - unfold act_step; cbn [l_pc l_me l_fault l_snap l_err].
    destruct p as [| | | | | | | | | | | | | | e0 | | r | | r | | | | | | |];
      cbn [use_claim create_cleanup use_adm Current leave fin];
      break_step; intros H; inversion H; subst; clear H;
      cbn [claim claim_dl now set_claim set_claim_dl set_clock set_adm set_tidx set_mains set_glob set_cidx set_by_code set_by_id del_main];
      intros Hc; first [discriminate Hc | left; split; [first [exact Hc|reflexivity|assumption]|reflexivity] | right; unfold claim_ttl; cbn [claim_lease Current]; lia].
  - unfold rev_step; cbn [l_pc l_me l_fault l_snap l_err].
    destruct p as [| | | | | | | | | | | | | | e0 | | r | | r | | | | | | |];
      cbn [use_claim create_cleanup use_adm Current rleave];
      break_step; intros H; inversion H; subst; clear H;
      cbn [claim claim_dl now set_claim set_claim_dl set_clock set_adm set_tidx set_mains set_glob set_cidx set_by_code set_by_id del_main];
      intros Hc; first [discriminate Hc | left; split; [first [exact Hc|reflexivity|assumption]|reflexivity] | right; unfold claim_ttl; cbn [claim_lease Current]; lia].
  - cbn [l_pc].
    destruct p as [| | | | | | | | | | | | | | e0 | | r | | r | | | | | | |]; intros H; inversion H; subst; clear H;
      cbn [claim claim_dl set_expired]; intros Hc; first [discriminate Hc | left; split; [first [exact Hc|reflexivity|assumption]|reflexivity] | right; unfold claim_ttl; cbn [claim_lease Current]; lia].
  - unfold list_step; cbn [l_pc l_me l_fault l_snap l_err].
    destruct p as [| | | | | | | | | | | | | | e0 | | r | | r | | | | | | |];
      cbn [use_claim create_cleanup use_adm purge_revoked Current andb];
      break_step; intros H; inversion H; subst; clear H;
      cbn [claim claim_dl set_claim set_tidx set_by_code set_by_id];
      intros Hc; first [discriminate Hc | left; split; [first [exact Hc|reflexivity|assumption]|reflexivity] | right; unfold claim_ttl; cbn [claim_lease Current]; lia].
  - cbn [l_pc].
    destruct p as [| | | | | | | | | | | | | | e0 | | r | | r | | | | | | |];
      cbn beta iota; try (destruct (p_win P <=? now s + d)%N eqn:E);
      intros H; inversion H; subst; clear H;
      cbn [claim claim_dl set_expired set_clock]; intros Hc;
      first [discriminate Hc | left; split; [first [exact Hc|reflexivity|assumption]|reflexivity]
            | apply andb_prop in Hc; destruct Hc as [Hc _]; left; split; [exact Hc|reflexivity]].
Qed.

(* the entry of this caller's mapping may be in the global mapping list *)
Definition has_glob (t : lo) : bool :=
  match l_kind t, l_pc t with
  | KAct _ _ _, (PIdxL | PIdxT | PUpdCode | PUpdId | PRbL | PRbT | PRbGlob | PDone (ROk _) | PRelAdm (ROk _)) => true
  | _, _ => false
  end.

Definition not_i (i : nat) (j : nat) : bool := negb (Nat.eqb j i).

Lemma step_glob (P : params) (t : lo) (s : sh) (t' : lo) (s' : sh) :
  tstep Current P t s = (t', s') ->
  (glob s' = glob s /\ has_glob t' = has_glob t)
  \/ (glob s' = glob s ++ [l_me t] /\ has_glob t' = true)
  \/ (glob s' = filter (not_i (l_me t)) (glob s) /\ has_glob t' = false).
Proof.
  destruct t as [me k p snap f e]. unfold tstep. cbn [l_kind].
  destruct k as [l la ok | | | | d].
  - unfold act_step; cbn [l_pc l_me l_fault l_snap l_err].
    destruct p as [| | | | | | | | | | | | | | e0 | | r | | r | | | | | | |]; try (destruct r as [m0| | | |e1| |]);
      cbn [use_claim create_cleanup use_adm Current leave fin];
      break_step; intros H; inversion H; subst; clear H;
      cbn [has_glob l_kind l_pc l_me set_pc set_snap set_fault set_err finish
           glob set_claim set_claim_dl set_clock set_adm set_tidx set_mains set_glob set_cidx set_by_code set_by_id del_main];
      try (left; split; reflexivity); try (right; left; split; reflexivity); try (right; right; split; reflexivity).
  - unfold rev_step; cbn [l_pc l_me l_fault l_snap l_err].
    destruct p as [| | | | | | | | | | | | | | e0 | | r | | r | | | | | | |]; try (destruct r as [m0| | | |e1| |]);
      cbn [use_claim create_cleanup use_adm Current rleave];
      break_step; intros H; inversion H; subst; clear H;
      cbn [has_glob l_kind l_pc l_me set_pc set_snap set_fault set_err finish
           glob set_claim set_claim_dl set_clock set_adm set_tidx set_mains set_glob set_cidx set_by_code set_by_id del_main];
      left; split; reflexivity.
  - cbn [l_pc].
    destruct p as [| | | | | | | | | | | | | | e0 | | r | | r | | | | | | |]; intros H; inversion H; subst; clear H;
      cbn [has_glob l_kind l_pc set_pc finish glob set_expired]; left; split; reflexivity.
  - unfold list_step; cbn [l_pc l_me l_fault l_snap l_err].
    destruct p as [| | | | | | | | | | | | | | e0 | | r | | r | | | | | | |];
      cbn [use_claim create_cleanup use_adm purge_revoked Current andb];
      break_step; intros H; inversion H; subst; clear H;
      cbn [has_glob l_kind l_pc l_me set_pc finish glob set_claim set_tidx set_by_code set_by_id];
      left; split; reflexivity.
  - cbn [l_pc].
    destruct p as [| | | | | | | | | | | | | | e0 | | r | | r | | | | | | |];
      cbn beta iota; try (destruct (p_win P <=? now s + d)%N eqn:E);
      intros H; inversion H; subst; clear H;
      cbn [has_glob l_kind l_pc set_pc finish glob set_expired set_clock]; left; split; reflexivity.
Qed.

(* ---------- the invariant ---------- *)

Section Inv.
  Variable P : params.
  Notation step := (tstep Current P).
  Notation sstep := (sys_step sh lo (tstep Current P)).
  Notation srun := (run sh lo (tstep Current P)).

  Definition at_most_one (f : lo -> bool) (ts : list lo) : Prop :=
    forall i j ti tj, nth_error ts i = Some ti -> nth_error ts j = Some tj -> f ti = true -> f tj = true -> i = j.

  Definition owned (ts : list lo) (m : mrec) : Prop :=
    exists i t, nth_error ts i = Some t /\ l_me t = m_id m /\ has_rec t = true
                /\ (exists ok, l_kind t = KAct (m_listen m) (m_laddr m) ok)
                /\ m_target m = p_tgt P /\ m_taddr m = p_taddr P.

  Record Inv (s : st sh lo) : Prop := {
    inv_ids : forall i j ti tj, nth_error (snd s) i = Some ti -> nth_error (snd s) j = Some tj -> l_me ti = l_me tj -> i = j;
    inv_free : expired (fst s) = false -> claim (fst s) = false -> forall i t, nth_error (snd s) i = Some t -> crit t = false;
    inv_crit : expired (fst s) = false -> at_most_one crit (snd s);
    inv_win : at_most_one can_win (snd s);
    inv_own : forall m, In m (mains (fst s)) -> owned (snd s) m;
    inv_nodup : NoDup (map m_id (mains (fst s)));
    inv_ok : forall i t m, nth_error (snd s) i = Some t -> okres t = Some m -> m = l_me t /\ can_win t = true;
    inv_has : forall i t, nth_error (snd s) i = Some t -> has_rec t = true -> In (mk_rec P t) (mains (fst s));
    inv_purge : forall i t, nth_error (snd s) i = Some t -> in_purge t = true -> expired (fst s) = true;
    inv_dl : claim (fst s) = true -> (p_win P <= claim_dl (fst s))%N
  }.

  Lemma nth_upd_cases {A} (l : list A) i j x y :
    nth_error (upd_nth i x l) j = Some y -> (i = j /\ y = x /\ i < length l) \/ (i <> j /\ nth_error l j = Some y).
  Proof.
    intros H. destruct (Nat.eq_dec i j) as [->|Hne].
    - left. assert (Hlt : j < length l).
      { apply nth_error_Some. intros Hn. apply nth_error_None in Hn.
        assert (Hn' : nth_error (upd_nth j x l) j = None) by (apply nth_error_None; rewrite upd_nth_length; exact Hn).
        congruence. }
      rewrite (nth_error_upd_nth_same j x l Hlt) in H. inversion H; auto.
    - right. split; [exact Hne|]. rewrite (nth_error_upd_nth_other i j x l Hne) in H. exact H.
  Qed.

  Lemma NoDup_map_filter {A B} (f : A -> B) (p : A -> bool) (l : list A) : NoDup (map f l) -> NoDup (map f (filter p l)).
  Proof.
    induction l as [|a l IH]; cbn; intros H; [constructor|].
    inversion H as [|x xs Hnin Hnd]; subst. destruct (p a); cbn; [|apply IH; exact Hnd].
    constructor; [|apply IH; exact Hnd].
    intros Hin. apply Hnin. apply in_map_iff in Hin. destruct Hin as [b [Hb Hinb]].
    apply filter_In in Hinb. apply in_map_iff. exists b. tauto.
  Qed.

  Lemma inv_step s i : Inv s -> Inv (sstep s i).
  Proof.
    intros HI. unfold sys_step. destruct (nth_error (snd s) i) as [t|] eqn:Hi; [|exact HI].
    destruct (step t (fst s)) as [t' s'] eqn:Hst.
    destruct (step_facts P t (fst s) t' s' Hst)
      as (Fme & Fkind & Fexp & Fenter & Frel & Fpur & _ & Fstay & Fwin & Fmains & Fok).
    destruct HI as [Iids Ifree Icrit Iwin Iown Indup Iok Ihas Ipurge Idl].
    assert (Hexp0 : expired s' = false -> expired (fst s) = false).
    { intros H. destruct (expired (fst s)) eqn:E; [rewrite (Fexp eq_refl) in H; discriminate | reflexivity]. }
    constructor; cbn [fst snd].
    - (* ids *)
      intros a b ta tb Ha Hb Heq.
      destruct (nth_upd_cases _ _ _ _ _ Ha) as [(-> & -> & _)|(Hna & Ha')];
        destruct (nth_upd_cases _ _ _ _ _ Hb) as [(E & -> & _)|(Hnb & Hb')]; try congruence.
      + rewrite Fme in Heq. exact (Iids _ _ _ _ Hi Hb' Heq).
      + subst b. rewrite Fme in Heq. symmetry. apply (Iids _ _ _ _ Hi Ha'). congruence.
      + exact (Iids _ _ _ _ Ha' Hb' Heq).
    - (* free *)
      intros Hexp Hcl a ta Ha. specialize (Hexp0 Hexp).
      destruct (nth_upd_cases _ _ _ _ _ Ha) as [(<- & -> & _)|(Hna & Ha')].
      + destruct (crit t') eqn:Ec'; [|reflexivity]. destruct (crit t) eqn:Ec.
        * rewrite (Fstay eq_refl eq_refl) in Hcl. rewrite (Ifree Hexp0 Hcl _ _ Hi) in Ec. discriminate.
        * destruct (Fenter eq_refl eq_refl) as [_ Hc]. congruence.
      + destruct (claim (fst s)) eqn:Ecl.
        * destruct (Frel eq_refl Hcl Hexp) as [[Hct _]|[Hp|Hlapse]].
          { destruct (crit ta) eqn:Eca; [|reflexivity]. exfalso. apply Hna.
            exact (Icrit Hexp0 _ _ _ _ Hi Ha' Hct Eca). }
          { rewrite (Ipurge _ _ Hi Hp) in Hexp0. discriminate. }
          { exfalso. specialize (Idl eq_refl). lia. }   (* within the window a claim marker cannot lapse *)
        * exact (Ifree Hexp0 eq_refl _ _ Ha').
    - (* crit unique *)
      intros Hexp a b ta tb Ha Hb Hca Hcb. specialize (Hexp0 Hexp).
      destruct (nth_upd_cases _ _ _ _ _ Ha) as [(<- & -> & _)|(Hna & Ha')];
        destruct (nth_upd_cases _ _ _ _ _ Hb) as [(E & -> & _)|(Hnb & Hb')]; try congruence.
      + exfalso. destruct (crit t) eqn:Ec.
        * apply Hnb. exact (Icrit Hexp0 _ _ _ _ Hi Hb' Ec Hcb).
        * destruct (Fenter eq_refl Hca) as [Hc _]. rewrite (Ifree Hexp0 Hc _ _ Hb') in Hcb. discriminate.
      + exfalso. subst b. destruct (crit t) eqn:Ec.
        * apply Hna. exact (Icrit Hexp0 _ _ _ _ Hi Ha' Ec Hca).
        * destruct (Fenter eq_refl Hcb) as [Hc _]. rewrite (Ifree Hexp0 Hc _ _ Ha') in Hca. discriminate.
      + exact (Icrit Hexp0 _ _ _ _ Ha' Hb' Hca Hcb).
    - (* can_win unique *)
      intros a b ta tb Ha Hb Hca Hcb.
      destruct (nth_upd_cases _ _ _ _ _ Ha) as [(<- & -> & _)|(Hna & Ha')];
        destruct (nth_upd_cases _ _ _ _ _ Hb) as [(E & -> & _)|(Hnb & Hb')]; try congruence.
      + exfalso. destruct (can_win t) eqn:Ec.
        * apply Hnb. exact (Iwin _ _ _ _ Hi Hb' Ec Hcb).
        * destruct (Fwin eq_refl Hca) as [He [Hct|Hcl]].
          { apply Hnb. exact (Icrit He _ _ _ _ Hi Hb' Hct (can_win_crit _ Hcb)). }
          { pose proof (can_win_crit _ Hcb) as Hx. rewrite (Ifree He Hcl _ _ Hb') in Hx. discriminate. }
      + exfalso. subst b. destruct (can_win t) eqn:Ec.
        * apply Hna. exact (Iwin _ _ _ _ Hi Ha' Ec Hca).
        * destruct (Fwin eq_refl Hcb) as [He [Hct|Hcl]].
          { apply Hna. exact (Icrit He _ _ _ _ Hi Ha' Hct (can_win_crit _ Hca)). }
          { pose proof (can_win_crit _ Hca) as Hx. rewrite (Ifree He Hcl _ _ Ha') in Hx. discriminate. }
      + exact (Iwin _ _ _ _ Ha' Hb' Hca Hcb).
    - (* ownership *)
      assert (Hlen : i < length (snd s)) by (apply nth_error_Some; congruence).
      assert (Keep : forall m, In m (mains (fst s)) -> (has_rec t = true -> l_me t = m_id m -> has_rec t' = true) ->
                               owned (upd_nth i t' (snd s)) m).
      { intros m Hm Hkeep. destruct (Iown m Hm) as (k & tk & Hk & Hid & Hrec & Hkind & Hshape).
        destruct (Nat.eq_dec k i) as [->|Hne].
        - assert (tk = t) by congruence. subst tk.
          exists i, t'. split; [apply nth_error_upd_nth_same; exact Hlen|].
          split; [congruence|]. split; [apply Hkeep; assumption|]. split; [rewrite Fkind; exact Hkind|exact Hshape].
        - exists k, tk. split; [rewrite nth_error_upd_nth_other by congruence; exact Hk|]. tauto. }
      intros m Hm.
      destruct Fmains as [(Em & Er)|[(Em & Er0 & Er1 & l & la & ok & Ek)|(Em & Er)]]; rewrite Em in Hm.
      + apply Keep; [exact Hm|]. intros H _. congruence.
      + destruct Hm as [<-|Hm].
        * exists i, t'. split; [apply nth_error_upd_nth_same; exact Hlen|].
          unfold mk_rec. rewrite Ek. cbn. split; [exact Fme|]. split; [exact Er1|].
          split; [exists ok; congruence|split; reflexivity].
        * apply Keep; [exact Hm|]. intros H _. congruence.
      + apply filter_In in Hm. destruct Hm as [Hm Hnot]. apply Keep; [exact Hm|].
        intros _ Heq. unfold not_me in Hnot. rewrite <- Heq, Nat.eqb_refl in Hnot. discriminate.
    - (* NoDup ids *)
      destruct Fmains as [(Em & Er)|[(Em & Er0 & Er1 & l & la & ok & Ek)|(Em & Er)]]; rewrite Em.
      + exact Indup.
      + cbn [map]. constructor; [|exact Indup].
        intros Hin. apply in_map_iff in Hin. destruct Hin as (m & Hid & Hm).
        destruct (Iown m Hm) as (k & tk & Hk & Hidk & Hrec & _).
        assert (Hmk : m_id (mk_rec P t) = l_me t) by (unfold mk_rec; destruct (l_kind t); reflexivity).
        assert (k = i) by (apply (Iids _ _ _ _ Hk Hi); congruence). subst k.
        assert (tk = t) by congruence. subst tk. congruence.
      + apply NoDup_map_filter. exact Indup.
    - (* ROk reports the caller's own mapping *)
      intros a ta m Ha Hpc.
      destruct (nth_upd_cases _ _ _ _ _ Ha) as [(<- & -> & _)|(Hna & Ha')].
      + destruct (Fok m Hpc) as [(Hold & Hsame)|(-> & Hw)].
        * destruct (Iok _ _ _ Hi Hold) as [-> Hw]. split; [congruence|]. rewrite Hsame. exact Hw.
        * split; [congruence|exact Hw].
      + exact (Iok _ _ _ Ha' Hpc).
    - (* a caller whose record is supposed to be in the store has it there *)
      assert (Hmk : mk_rec P t' = mk_rec P t) by (unfold mk_rec; rewrite Fkind, Fme; reflexivity).
      intros a ta Ha Hrec.
      destruct (nth_upd_cases _ _ _ _ _ Ha) as [(<- & -> & _)|(Hna & Ha')].
      + rewrite Hmk.
        destruct Fmains as [(Em & Er)|[(Em & Er0 & Er1 & l & la & ok & Ek)|(Em & Er)]]; rewrite Em.
        * apply (Ihas _ _ Hi). congruence.
        * left. reflexivity.
        * congruence.
      + assert (Hold := Ihas _ _ Ha' Hrec).
        destruct Fmains as [(Em & Er)|[(Em & Er0 & Er1 & l & la & ok & Ek)|(Em & Er)]]; rewrite Em.
        * exact Hold.
        * right. exact Hold.
        * apply filter_In. split; [exact Hold|]. unfold not_me.
          assert (Hid : m_id (mk_rec P ta) = l_me ta) by (unfold mk_rec; destruct (l_kind ta); reflexivity).
          rewrite Hid. destruct (Nat.eqb (l_me ta) (l_me t)) eqn:E; [|reflexivity].
          apply Nat.eqb_eq in E. exfalso. apply Hna. exact (Iids _ _ _ _ Hi Ha' (eq_sym E)).
    - (* a clean-up runs only once the activation period is over *)
      intros a ta Ha Hp.
      destruct (nth_upd_cases _ _ _ _ _ Ha) as [(<- & -> & _)|(Hna & Ha')].
      + destruct (Fpur Hp) as [Hold|He]; [apply Fexp; exact (Ipurge _ _ Hi Hold)|apply Fexp; exact He].
      + apply Fexp. exact (Ipurge _ _ Ha' Hp).
    - (* a claim marker that is set reaches the end of the window *)
      intros Hc. destruct (step_dl P t (fst s) t' s' Hst Hc) as [[Hold Hsame]|Hnew]; [rewrite Hsame; exact (Idl Hold)|exact Hnew].
  Qed.

  (* callers that have not started (or were rejected on their parameters) *)
  Definition fresh (t : lo) : Prop := l_pc t = PGet \/ exists e, l_pc t = PDone (RErr e).

  Definition start_ok (s : st sh lo) : Prop :=
    mains (fst s) = [] /\ (forall t, In t (snd s) -> fresh t) /\
    (forall i j ti tj, nth_error (snd s) i = Some ti -> nth_error (snd s) j = Some tj -> l_me ti = l_me tj -> i = j) /\
    (* a claim marker present at the start (a code used / revoked earlier) lasts to the end of the window as well *)
    (claim (fst s) = true -> (p_win P <= claim_dl (fst s))%N).

  Lemma fresh_classes t : fresh t -> crit t = false /\ can_win t = false /\ (forall m, okres t <> Some m).
  Proof.
    intros [H|[e H]]; unfold crit, can_win, okres; rewrite H; destruct (l_kind t); repeat split; try reflexivity; intros m; discriminate.
  Qed.

  Lemma inv_init s : start_ok s -> Inv s.
  Proof.
    intros (Hm & Hf & Hids & Hdl).
    assert (F : forall i t, nth_error (snd s) i = Some t -> fresh t) by (intros i t H; apply Hf; eapply nth_error_In; exact H).
    constructor.
    - exact Hids.
    - intros _ _ i t H. apply (fresh_classes t (F _ _ H)).
    - intros _ i j ti tj Hi _ Hc _. destruct (fresh_classes ti (F _ _ Hi)) as [E _]. congruence.
    - intros i j ti tj Hi _ Hc _. destruct (fresh_classes ti (F _ _ Hi)) as (_ & E & _). congruence.
    - rewrite Hm. intros m [].
    - rewrite Hm. constructor.
    - intros i t m Hi Hpc. destruct (fresh_classes t (F _ _ Hi)) as (_ & _ & E). exfalso. exact (E m Hpc).
    - intros i t Hi Hrec. exfalso. destruct (F _ _ Hi) as [H|[e H]]; unfold has_rec in Hrec; rewrite H in Hrec;
        destruct (l_kind t); discriminate.
    - intros i t Hi Hp. exfalso. destruct (F _ _ Hi) as [H|[e H]]; unfold in_purge in Hp; rewrite H in Hp;
        destruct (l_kind t); discriminate.
    - exact Hdl.
  Qed.

  Theorem inv_all s sched : start_ok s -> Inv (srun s sched).
  Proof.
    intros H. apply (inv_all_schedules sh lo (tstep Current P) Inv); [intros s0 i; apply inv_step | apply inv_init; exact H].
  Qed.

  (* ---------- the property theorems (repaired code) ---------- *)

  (* at most one activation of the code ever succeeds *)
  Theorem at_most_one_success s sched : start_ok s ->
    forall i j ti tj mi mj,
      nth_error (snd (srun s sched)) i = Some ti -> nth_error (snd (srun s sched)) j = Some tj ->
      l_pc ti = PDone (ROk mi) -> l_pc tj = PDone (ROk mj) -> i = j.
  Proof.
    intros H i j ti tj mi mj Hi Hj Hpi Hpj. destruct (inv_all s sched H) as [_ _ _ Iwin _ _ Iok _ _ _].
    apply (Iwin i j ti tj Hi Hj); [apply (Iok _ _ _ Hi (okres_done _ _ Hpi)) | apply (Iok _ _ _ Hj (okres_done _ _ Hpj))].
  Qed.

  Lemma length_le_1 {A B} (f : A -> B) (l : list A) :
    NoDup (map f l) -> (forall a b, In a l -> In b l -> f a = f b) -> length l <= 1.
  Proof.
    destruct l as [|a [|b l]]; cbn; intros Hnd Hall; try lia.
    exfalso. inversion Hnd as [|x xs Hnin _]; subst. apply Hnin. left. symmetry. apply Hall; auto.
  Qed.

  Definition all_done (ts : list lo) : Prop := forall t, In t ts -> exists r, l_pc t = PDone r.

  (* once every call has returned: at most one mapping made from the code exists, and it is the successful caller's *)
  Theorem at_most_one_mapping s sched : start_ok s ->
    let s' := srun s sched in
    all_done (snd s') ->
    length (mains (fst s')) <= 1 /\
    (forall m, In m (mains (fst s')) -> exists t, In t (snd s') /\ l_pc t = PDone (ROk (m_id m))).
  Proof.
    intros H s' Hdone. destruct (inv_all s sched H) as [_ _ _ Iwin Iown Indup Iok _ _ _]. fold s' in Iwin, Iown, Indup, Iok.
    assert (W : forall m, In m (mains (fst s')) -> exists i t, nth_error (snd s') i = Some t /\ l_me t = m_id m /\ can_win t = true
                                                   /\ l_pc t = PDone (ROk (m_id m))).
    { intros m Hm. destruct (Iown m Hm) as (k & t & Hk & Hid & Hrec & _).
      destruct (Hdone t (nth_error_In _ _ Hk)) as [r Hr]. exists k, t.
      unfold has_rec in Hrec. rewrite Hr in Hrec.
      destruct (l_kind t) eqn:Ek; try discriminate. destruct r as [m0| | | |e| |]; try discriminate.
      destruct (Iok _ _ _ Hk (okres_done _ _ Hr)) as [-> Hw]. rewrite Hid in *. tauto. }
    split.
    - apply (length_le_1 m_id); [exact Indup|]. intros a b Ha Hb.
      destruct (W a Ha) as (i & ti & Hi & Hida & Hwa & _). destruct (W b Hb) as (j & tj & Hj & Hidb & Hwb & _).
      assert (i = j) by exact (Iwin _ _ _ _ Hi Hj Hwa Hwb). subst j. congruence.
    - intros m Hm. destruct (W m Hm) as (i & t & Hi & _ & _ & Hpc). exists t. split; [eapply nth_error_In; exact Hi|exact Hpc].
  Qed.

  (* in EVERY reachable state: a call that returned an error has no mapping record left (single-fault hypothesis is
     built into the model: rollback / cleanup calls do not fail) *)
  Theorem failed_leaves_nothing s sched : start_ok s ->
    forall t e, In t (snd (srun s sched)) -> l_pc t = PDone (RErr e) ->
    forall m, In m (mains (fst (srun s sched))) -> m_id m <> l_me t.
  Proof.
    intros H t e Ht Hpc m Hm Heq. destruct (inv_all s sched H) as [Iids _ _ _ Iown _ _ _ _ _].
    destruct (Iown m Hm) as (k & tk & Hk & Hid & Hrec & _).
    apply In_nth_error in Ht. destruct Ht as [j Hj].
    assert (k = j) by (apply (Iids _ _ _ _ Hk Hj); congruence). subst k.
    assert (tk = t) by congruence. subst tk. unfold has_rec in Hrec. rewrite Hpc in Hrec. destruct (l_kind t); discriminate.
  Qed.

  (* every mapping record made from the code targets the code's client/address and listens for its activator *)
  Theorem mapping_shape s sched : start_ok s ->
    forall m, In m (mains (fst (srun s sched))) ->
    m_target m = p_tgt P /\ m_taddr m = p_taddr P /\
    exists t ok, In t (snd (srun s sched)) /\ l_me t = m_id m /\ l_kind t = KAct (m_listen m) (m_laddr m) ok.
  Proof.
    intros H m Hm. destruct (inv_all s sched H) as [_ _ _ _ Iown _ _ _ _ _].
    destruct (Iown m Hm) as (k & t & Hk & Hid & _ & (ok & Hkind) & Ht & Ha).
    split; [exact Ht|]. split; [exact Ha|]. exists t, ok. split; [eapply nth_error_In; exact Hk|tauto].
  Qed.

  (* what a successful activation hands back: the id of the CALLER's own mapping, whose record is in the store, listens
     for the caller's client and address and targets the code's client and address.  The result of a call is a function
     of its own request and the store only — it can never be another caller's mapping. *)
  Theorem returned_mapping_is_callers s sched : start_ok s ->
    forall t m l la ok, In t (snd (srun s sched)) -> l_kind t = KAct l la ok -> l_pc t = PDone (ROk m) ->
      m = l_me t /\
      In {| m_id := m; m_listen := l; m_laddr := la; m_target := p_tgt P; m_taddr := p_taddr P |} (mains (fst (srun s sched))).
  Proof.
    intros H t m l la ok Ht Hk Hpc. destruct (inv_all s sched H) as [_ _ _ _ _ _ Iok Ihas _ _].
    apply In_nth_error in Ht. destruct Ht as [i Hi].
    destruct (Iok _ _ _ Hi (okres_done _ _ Hpc)) as [-> _]. split; [reflexivity|].
    assert (Hrec : has_rec t = true) by (unfold has_rec; rewrite Hk, Hpc; reflexivity).
    assert (X := Ihas _ _ Hi Hrec). unfold mk_rec in X. rewrite Hk in X. exact X.
  Qed.

  (* read paths with side effects (listing + its asynchronous clean-up): while the activation period lasts — the only time
     a code can still be activated and a claim can guard a decision in flight — no step of a listing, at whatever point
     of its call or clean-up, touches the code records, the claim marker or the mappings.  (Its clean-up only ever runs
     once the period is over: invariant inv_purge.) *)
  Theorem listing_harmless_while_valid s sched : start_ok s ->
    expired (fst (srun s sched)) = false ->
    forall t, In t (snd (srun s sched)) -> l_kind t = KList ->
      by_code (snd (step t (fst (srun s sched)))) = by_code (fst (srun s sched)) /\
      by_id (snd (step t (fst (srun s sched)))) = by_id (fst (srun s sched)) /\
      claim (snd (step t (fst (srun s sched)))) = claim (fst (srun s sched)) /\
      mains (snd (step t (fst (srun s sched)))) = mains (fst (srun s sched)).
  Proof.
    intros H Hexp t Ht Hk. destruct (inv_all s sched H) as [_ _ _ _ _ _ _ _ Ipurge _].
    apply In_nth_error in Ht. destruct Ht as [i Hi].
    assert (Hp : in_purge t = false).
    { destruct (in_purge t) eqn:E; [|reflexivity]. rewrite (Ipurge _ _ Hi E) in Hexp. discriminate. }
    destruct (step t (fst (srun s sched))) as [t' s'] eqn:Hst.
    destruct (step_facts P t _ t' s' Hst) as (_ & _ & _ & _ & _ & _ & Fl & _). cbn [snd].
    exact (Fl Hk Hexp Hp).
  Qed.

  (* ---------- revocation against activation ---------- *)

  (* the call returned success after writing the code record: a successful activation, or a revocation that wrote
     the revoked record (RGone — nil returned because the code had already expired and vanished — writes nothing) *)
  Definition won (t : lo) : Prop :=
    (l_kind t = KRev /\ l_pc t = PDone RRevoked) \/ exists m, l_pc t = PDone (ROk m).

  (* at most one call on a code ever wins: activations and revocations exclude each other (and themselves),
     for every schedule, faults and expiry included *)
  Theorem one_winner s sched : start_ok s ->
    forall i j ti tj,
      nth_error (snd (srun s sched)) i = Some ti -> nth_error (snd (srun s sched)) j = Some tj ->
      won ti -> won tj -> i = j.
  Proof.
    intros H i j ti tj Hi Hj Wi Wj. destruct (inv_all s sched H) as [_ _ _ Iwin _ _ Iok _ _ _].
    assert (W : forall k t, nth_error (snd (srun s sched)) k = Some t -> won t -> can_win t = true).
    { intros k t Hk [[Hkind Hpc]|[m Hpc]].
      - unfold can_win. rewrite Hkind, Hpc. reflexivity.
      - apply (Iok _ _ _ Hk (okres_done _ _ Hpc)). }
    exact (Iwin _ _ _ _ Hi Hj (W _ _ Hi Wi) (W _ _ Hj Wj)).
  Qed.

  Theorem revoke_activation_exclusive s sched : start_ok s ->
    forall tr ta m, In tr (snd (srun s sched)) -> In ta (snd (srun s sched)) ->
      l_kind tr = KRev -> l_pc tr = PDone RRevoked -> l_pc ta = PDone (ROk m) -> False.
  Proof.
    intros H tr ta m Hr Ha Hk Hpr Hpa.
    apply In_nth_error in Hr. destruct Hr as [i Hi]. apply In_nth_error in Ha. destruct Ha as [j Hj].
    assert (i = j) by (apply (one_winner s sched H i j tr ta Hi Hj); [left; tauto | right; eauto]). subst j.
    assert (tr = ta) by congruence. subst ta. congruence.
  Qed.

  Lemma claim_held_turns_away t s0 l la ok :
    l_kind t = KAct l la ok -> l_pc t = PClaim -> claim s0 = true ->
    snd (step t s0) = s0 /\ exists e, l_pc (fst (step t s0)) = PRelAdm (RErr e).
  Proof.
    intros Hkt Hpt Hc. unfold tstep, act_step. rewrite Hkt, Hpt.
    destruct (l_fault t) as [[|k]|]; cbn [tick_fault]; try rewrite Hc;
      (split; [reflexivity|eexists; reflexivity]).
  Qed.

  (* the only thing left for such a caller: give back its admission marker and return the error *)
  Lemma release_admission_only t s0 l la ok r :
    l_kind t = KAct l la ok -> l_pc t = PRelAdm r ->
    l_pc (fst (step t s0)) = PDone r /\
    by_code (snd (step t s0)) = by_code s0 /\ by_id (snd (step t s0)) = by_id s0 /\ claim (snd (step t s0)) = claim s0 /\
    mains (snd (step t s0)) = mains s0 /\ glob (snd (step t s0)) = glob s0 /\ cidx (snd (step t s0)) = cidx s0.
  Proof. intros Hk Hp. unfold tstep, act_step. rewrite Hk, Hp. cbn. repeat split. Qed.

  (* an activation refused at the admission marker (another request of the same listen client is in admission, or
     the SetNX failed) returns an error and changes nothing *)
  Theorem refused_at_admission_changes_nothing t s0 l la ok :
    l_kind t = KAct l la ok -> l_pc t = PAdm ->
    (adm_held s0 l = true \/ l_fault t = Some 0) ->
    snd (step t s0) = s0 /\ exists e, l_pc (fst (step t s0)) = PDone (RErr e).
  Proof.
    intros Hk Hp Hr. unfold tstep, act_step. rewrite Hk, Hp.
    destruct Hr as [Ha|Hf].
    - destruct (l_fault t) as [[|k]|]; cbn [tick_fault]; try rewrite Ha; (split; [reflexivity|eexists; reflexivity]).
    - rewrite Hf. cbn [tick_fault]. split; [reflexivity|eexists; reflexivity].
  Qed.

  (* and one that is let in takes exactly its own client's marker; other clients' markers are untouched *)
  Theorem admission_is_per_client t s0 l la ok :
    l_kind t = KAct l la ok -> l_pc t = PAdm -> adm_held s0 l = false -> l_fault t <> Some 0 ->
    l_pc (fst (step t s0)) = PQuota /\ admk (snd (step t s0)) = (l, (now s0 + adm_ttl)%N) :: admk s0.
  Proof.
    intros Hk Hp Ha Hf. unfold tstep, act_step. rewrite Hk, Hp.
    destruct (l_fault t) as [[|k]|]; cbn [tick_fault]; try congruence; rewrite Ha; split; reflexivity.
  Qed.

  (* while the activation period lasts, a completed revocation keeps the claim: an activator that read the code
     BEFORE the revocation and reaches its Claim step AFTER it is turned away without touching the store *)
  Theorem revoked_at_claim_never_creates s sched : start_ok s ->
    expired (fst (srun s sched)) = false ->
    (exists tr, In tr (snd (srun s sched)) /\ l_kind tr = KRev /\ l_pc tr = PDone RRevoked) ->
    claim (fst (srun s sched)) = true /\
    forall t l la ok, l_kind t = KAct l la ok -> l_pc t = PClaim ->
      snd (step t (fst (srun s sched))) = fst (srun s sched) /\
      exists e, l_pc (fst (step t (fst (srun s sched)))) = PRelAdm (RErr e).
  Proof.
    intros H Hexp (tr & Hin & Hk & Hp). destruct (inv_all s sched H) as [_ Ifree _ _ _ _ _ _ _ _].
    assert (Hc : claim (fst (srun s sched)) = true).
    { apply not_false_iff_true. intros E.
      apply In_nth_error in Hin. destruct Hin as [i Hi].
      assert (X := Ifree Hexp E _ _ Hi). unfold crit in X. rewrite Hk, Hp in X. discriminate. }
    split; [exact Hc|].
    intros t l la ok Hkt Hpt. exact (claim_held_turns_away t _ l la ok Hkt Hpt Hc).
  Qed.

  (* ---------- the global mapping list ---------- *)

  Definition GInv (s : st sh lo) : Prop :=
    Inv s /\ forall i, In i (glob (fst s)) -> exists k t, nth_error (snd s) k = Some t /\ l_me t = i /\ has_glob t = true.

  Lemma ginv_step s i : GInv s -> GInv (sstep s i).
  Proof.
    intros [HI HG]. split; [apply inv_step; exact HI|].
    unfold sys_step. destruct (nth_error (snd s) i) as [t|] eqn:Hi; [|exact HG].
    destruct (step t (fst s)) as [t' s'] eqn:Hst. cbn [fst snd].
    destruct (step_facts P t (fst s) t' s' Hst) as (Fme & Fkind & _).
    assert (Hlen : i < length (snd s)) by (apply nth_error_Some; congruence).
    assert (Keep : forall j, In j (glob (fst s)) -> (has_glob t = true -> l_me t = j -> has_glob t' = true) ->
                   exists k u, nth_error (upd_nth i t' (snd s)) k = Some u /\ l_me u = j /\ has_glob u = true).
    { intros j Hj Hkeep. destruct (HG j Hj) as (k & u & Hk & Hid & Hg).
      destruct (Nat.eq_dec k i) as [->|Hne].
      - assert (u = t) by congruence. subst u. exists i, t'.
        split; [apply nth_error_upd_nth_same; exact Hlen|]. split; [congruence|apply Hkeep; assumption].
      - exists k, u. split; [rewrite nth_error_upd_nth_other by congruence; exact Hk|tauto]. }
    intros j Hj.
    destruct (step_glob P t (fst s) t' s' Hst) as [(Eg & Eh)|[(Eg & Eh)|(Eg & Eh)]]; rewrite Eg in Hj.
    - apply Keep; [exact Hj|]. intros H _. congruence.
    - apply in_app_or in Hj. destruct Hj as [Hj|[<-|[]]].
      + apply Keep; [exact Hj|]. intros _ _. exact Eh.
      + exists i, t'. split; [apply nth_error_upd_nth_same; exact Hlen|]. split; [exact Fme|exact Eh].
    - apply filter_In in Hj. destruct Hj as [Hj Hn]. apply Keep; [exact Hj|].
      intros _ Heq. unfold not_i in Hn. rewrite Heq, Nat.eqb_refl in Hn. discriminate.
  Qed.

  Theorem ginv_all s sched : start_ok s -> glob (fst s) = [] -> GInv (srun s sched).
  Proof.
    intros H Hg. apply (inv_all_schedules sh lo (tstep Current P) GInv); [intros s1 i; apply ginv_step|].
    split; [apply inv_init; exact H|]. rewrite Hg. intros i [].
  Qed.

  (* in every reachable state a call that returned an error has no entry in the global mapping list either *)
  Theorem failed_leaves_no_global_entry s sched : start_ok s -> glob (fst s) = [] ->
    forall t e, In t (snd (srun s sched)) -> l_pc t = PDone (RErr e) -> ~ In (l_me t) (glob (fst (srun s sched))).
  Proof.
    intros H Hg t e Ht Hpc Hin. destruct (ginv_all s sched H Hg) as [[Iids _ _ _ _ _ _ _ _ _] HG].
    destruct (HG _ Hin) as (k & u & Hk & Hid & Hgl).
    apply In_nth_error in Ht. destruct Ht as [j Hj].
    assert (k = j) by (apply (Iids _ _ _ _ Hk Hj); exact Hid). subst k.
    assert (u = t) by congruence. subst u. unfold has_glob in Hgl. rewrite Hpc in Hgl. destruct (l_kind t); discriminate.
  Qed.

  (* whoever claims first: within the activation period, while some caller is past its claim (holds it, or has won),
     the claim marker is set and every activator that reaches its Claim step is turned away without touching the store;
     and at most one caller is past its claim at any time *)
  Theorem claim_holder_excludes_others s sched : start_ok s ->
    expired (fst (srun s sched)) = false ->
    (forall i j ti tj, nth_error (snd (srun s sched)) i = Some ti -> nth_error (snd (srun s sched)) j = Some tj ->
                       crit ti = true -> crit tj = true -> i = j) /\
    ((exists th, In th (snd (srun s sched)) /\ crit th = true) ->
     claim (fst (srun s sched)) = true /\
     forall t l la ok, l_kind t = KAct l la ok -> l_pc t = PClaim ->
       snd (step t (fst (srun s sched))) = fst (srun s sched) /\
       exists e, l_pc (fst (step t (fst (srun s sched)))) = PRelAdm (RErr e)).
  Proof.
    intros H Hexp. destruct (inv_all s sched H) as [_ Ifree Icrit _ _ _ _ _ _ _].
    split; [exact (Icrit Hexp)|].
    intros (th & Hin & Hc).
    assert (Hcl : claim (fst (srun s sched)) = true).
    { apply not_false_iff_true. intros E. apply In_nth_error in Hin. destruct Hin as [i Hi].
      rewrite (Ifree Hexp E _ _ Hi) in Hc. discriminate. }
    split; [exact Hcl|]. intros t l la ok Hkt Hpt. exact (claim_held_turns_away t _ l la ok Hkt Hpt Hcl).
  Qed.

  (* TIME: d seconds pass at any point (a holder stalls, the clock goes on; markers and records whose lifetime has run
     out vanish).  As long as the stall does not end the activation window, a claim marker that is set stays set —
     whatever d and wherever the holder is parked.  So every theorem above, in particular claim_holder_excludes_others,
     holds for schedules WITH stalls (KStall threads are ordinary threads of the schedule). *)
  Theorem claim_cannot_lapse_within_window s sched : start_ok s ->
    claim (fst (srun s sched)) = true ->
    forall t d, l_kind t = KStall d -> expired (snd (step t (fst (srun s sched)))) = false ->
      claim (snd (step t (fst (srun s sched)))) = true.
  Proof.
    intros H Hc t d Hk. destruct (inv_all s sched H) as [_ _ _ _ _ _ _ _ _ Idl]. specialize (Idl Hc).
    remember (fst (srun s sched)) as sh0 eqn:Es. clear Es.
    unfold tstep. rewrite Hk.
    destruct (l_pc t) as [| | | | | | | | | | | | | | e0 | | r | | r | | | | | | |]; cbn beta iota zeta;
      try (intros _; exact Hc);
      (destruct (p_win P <=? now sh0 + d)%N eqn:E; cbn [snd expired set_expired set_clock claim];
       [intros X; discriminate X|intros _; rewrite Hc; cbn; apply N.ltb_lt; apply N.leb_gt in E; lia]).
  Qed.

  (* connCode.Activate: an activation that has created its mapping but finds the activation period over at its commit
     point does not write the code record: it goes into the rollback (and, by failed_leaves_nothing, returns with nothing left) *)
  Theorem expired_at_commit_rolls_back t s0 l la ok :
    l_kind t = KAct l la ok -> l_pc t = PIdxT -> expired s0 = true ->
    l_pc (fst (step t s0)) = PRbL /\ by_code (snd (step t s0)) = by_code s0 /\ by_id (snd (step t s0)) = by_id s0.
  Proof.
    intros Hk Hp He. unfold tstep, act_step. rewrite Hk, Hp.
    destruct (l_fault t) as [[|k]|]; cbn [tick_fault]; rewrite He; cbn; repeat split.
  Qed.

  (* ---------- dead codes ---------- *)

  Definition dead (r : option crec) (exp : bool) : bool :=
    match r with None => true | Some r => c_rev r || c_act r || exp end.

  (* one GetByCode on a dead code: the activation returns an error without touching the store *)
  Theorem dead_at_get_returns_error t s l la ok :
    l_kind t = KAct l la ok -> l_pc t = PGet -> dead (by_code s) (expired s) = true ->
    snd (step t s) = s /\ exists e, l_pc (fst (step t s)) = PDone (RErr e).
  Proof.
    intros Hk Hp Hd. unfold tstep, act_step. rewrite Hk, Hp. unfold dead in Hd.
    destruct (by_code s) as [r|]; [|split; [reflexivity|eexists; reflexivity]].
    destruct (c_rev r); [split; [reflexivity|eexists; reflexivity]|].
    destruct (c_act r); [split; [reflexivity|eexists; reflexivity]|].
    cbn in Hd. rewrite Hd. split; [reflexivity|eexists; reflexivity].
  Qed.

  (* a code that is dead when the callers start never yields a mapping, whatever the schedule *)
  Definition quiet (t : lo) : Prop :=
    fresh t \/ ((l_kind t = KTick \/ l_kind t = KList \/ exists d, l_kind t = KStall d) /\ forall m, l_pc t <> PDone (ROk m)).

  Definition DeadInv (s : st sh lo) : Prop :=
    dead (by_code (fst s)) (expired (fst s)) = true /\ mains (fst s) = [] /\ forall t, In t (snd s) -> quiet t.

  Lemma in_upd_nth {A} i (x : A) l y : In y (upd_nth i x l) -> y = x \/ In y l.
  Proof.
    revert i; induction l as [|h r IH]; intros [|i]; cbn; auto.
    - intros [<-|H]; auto.
    - intros [<-|H]; auto. destruct (IH _ H); auto.
  Qed.

  Lemma dead_step s i : DeadInv s -> DeadInv (sstep s i).
  Proof.
    intros (Hd & Hm & Hf). unfold sys_step. destruct (nth_error (snd s) i) as [t|] eqn:Hi; [|repeat split; assumption].
    destruct (step t (fst s)) as [t' s'] eqn:Hst. cbn [fst snd].
    assert (Ht := Hf t (nth_error_In _ _ Hi)).
    assert (Goal : dead (by_code s') (expired s') = true /\ mains s' = [] /\ quiet t').
    { unfold tstep in Hst. destruct (l_kind t) as [l la ok| | | |d] eqn:Hk.
      - destruct Ht as [[Hp|[e Hp]]|[Ht _]]; [| |destruct Ht as [Ht|[Ht|[d0 Ht]]]; congruence].
        + destruct (dead_at_get_returns_error t (fst s) l la ok Hk Hp Hd) as [Es [e He]].
          unfold tstep in Es, He. rewrite Hk, Hst in Es, He. cbn [fst snd] in Es, He. subst s'.
          split; [exact Hd|]. split; [exact Hm|]. left. right. exists e. exact He.
        + unfold act_step in Hst. rewrite Hp in Hst. inversion Hst; subst.
          split; [exact Hd|]. split; [exact Hm|]. left. right. exists e. exact Hp.
      - destruct Ht as [[Hp|[e Hp]]|[Ht _]]; [| |destruct Ht as [Ht|[Ht|[d0 Ht]]]; congruence].
        + unfold rev_step in Hst. rewrite Hp in Hst. unfold dead in Hd.
          destruct (by_code (fst s)) as [r|] eqn:Eb.
          * destruct (c_act r) eqn:Ea.
            { inversion Hst; subst. rewrite Eb. cbn [dead]. rewrite Ea, orb_true_r. cbn.
              split; [reflexivity|]. split; [exact Hm|]. left. right. eexists. reflexivity. }
            destruct (c_rev r) eqn:Er.
            { inversion Hst; subst. rewrite Eb. cbn [dead]. rewrite Er. cbn.
              split; [reflexivity|]. split; [exact Hm|]. left. right. eexists. reflexivity. }
            cbn in Hd. rewrite Hd in Hst. cbn in Hst. inversion Hst; subst. rewrite Eb. cbn [dead]. rewrite Ea, Er, Hd. cbn.
            split; [reflexivity|]. split; [exact Hm|]. left. right. eexists. reflexivity.
          * inversion Hst; subst. rewrite Eb. cbn [dead].
            split; [reflexivity|]. split; [exact Hm|]. left. right. eexists. reflexivity.
        + unfold rev_step in Hst. rewrite Hp in Hst. inversion Hst; subst.
          split; [exact Hd|]. split; [exact Hm|]. left. right. exists e. exact Hp.
      - assert (Q : forall m, l_pc t <> PDone (ROk m)).
        { destruct Ht as [[Hp|[e Hp]]|[_ Hq]]; [| |exact Hq]; intros m; rewrite Hp; discriminate. }
        destruct (l_pc t) as [| | | | | | | | | | | | | | e0 | | r | | r | | | | | | |] eqn:Hp; inversion Hst; subst; cbn [dead by_code expired mains set_expired];
          (split; [try reflexivity; exact Hd|]); (split; [exact Hm|]); right;
          try (split; [left; cbn; exact Hk|cbn; intros m; discriminate]).
        split; [left; exact Hk|]. rewrite Hp. exact Q.
      - (* listing: deletes at most the (dead) code record, never creates *)
        assert (Q : forall m, l_pc t <> PDone (ROk m)).
        { destruct Ht as [[Hp|[e Hp]]|[_ Hq]]; [| |exact Hq]; intros m; rewrite Hp; discriminate. }
        assert (K : l_kind t' = KList /\ (forall m, l_pc t' <> PDone (ROk m)) /\ mains s' = mains (fst s) /\
                    (by_code s' = by_code (fst s) \/ by_code s' = None) /\ expired s' = expired (fst s)).
        { unfold list_step in Hst.
          destruct (l_pc t) as [| | | | | | | | | | | | | | e0 | | r | | r | | | | | | |] eqn:Hp;
            cbn [purge_revoked use_claim Current andb] in Hst;
            repeat match type of Hst with
                   | context [match by_id ?x with _ => _ end] => destruct (by_id x)
                   | context [if ?b then _ else _] => destruct b eqn:?
                   end;
            inversion Hst; subst; cbn; rewrite ?Hk;
            (split; [reflexivity|]); (split; [try (intros m; discriminate); try (rewrite Hp; exact Q)|]);
            (split; [reflexivity|]); (split; [auto|auto]). }
        destruct K as (K1 & K2 & K3 & K4 & K5).
        split; [|split; [congruence|right; split; [right; left; exact K1|exact K2]]].
        rewrite K5. destruct K4 as [->| ->]; [exact Hd|reflexivity].
      - (* stall *)
        assert (Q : forall m, l_pc t <> PDone (ROk m)).
        { destruct Ht as [[Hp|[e Hp]]|[_ Hq]]; [| |exact Hq]; intros m; rewrite Hp; discriminate. }
        destruct (l_pc t) as [| | | | | | | | | | | | | | e0 | | r | | r | | | | | | |] eqn:Hp;
          cbn beta iota in Hst; try (destruct (p_win P <=? now (fst s) + d)%N eqn:E);
          inversion Hst; subst; cbn [dead by_code expired mains set_expired set_clock];
          (split; [try reflexivity; exact Hd|]); (split; [exact Hm|]); right;
          try (split; [right; right; exists d; cbn; exact Hk|cbn; intros m; discriminate]).
        all: (split; [right; right; exists d; exact Hk|]; rewrite Hp; exact Q). }
    destruct Goal as (G1 & G2 & G3). split; [exact G1|]. split; [exact G2|].
    intros x Hx. destruct (in_upd_nth _ _ _ _ Hx) as [->|Hx']; [exact G3|exact (Hf x Hx')].
  Qed.

  Theorem dead_code_never_creates s sched :
    dead (by_code (fst s)) (expired (fst s)) = true -> mains (fst s) = [] -> (forall t, In t (snd s) -> quiet t) ->
    mains (fst (srun s sched)) = [] /\
    forall t m, In t (snd (srun s sched)) -> l_pc t <> PDone (ROk m).
  Proof.
    intros Hd Hm Hf.
    assert (HI : DeadInv (srun s sched)).
    { apply (inv_all_schedules sh lo (tstep Current P) DeadInv); [intros s0 i; apply dead_step | split; [exact Hd|split; [exact Hm|exact Hf]]]. }
    destruct HI as (_ & Hm' & Hf'). split; [exact Hm'|].
    intros t m Ht Hpc. destruct (Hf' t Ht) as [[Hp|[e Hp]]|[_ Hq]]; [congruence|congruence|exact (Hq m Hpc)].
  Qed.
End Inv.

(* ---------- concrete runs: witnesses against the pinned code, non-vacuity for the repaired code ---------- *)

Definition P0 : params := {| p_tgt := 77; p_taddr := 0; p_qmax := 50; p_pre := fun _ => 0; p_win := 600 |}.
Definition two_activators : list lo :=
  [init_lo 0 (KAct 101 0 true) false None; init_lo 1 (KAct 102 1 true) false None].
Definition s0 (ts : list lo) : st sh lo := (init_sh (Some fresh_code), ts).
Definition oks (ts : list lo) : nat :=
  length (filter (fun t => match l_pc t with PDone (ROk _) => true | _ => false end) ts).
Definition errs (ts : list lo) : nat :=
  length (filter (fun t => match l_pc t with PDone (RErr _) => true | _ => false end) ts).
Definition finished (ts : list lo) : bool :=
  forallb (fun t => match l_pc t with PDone _ => true | _ => false end) ts.
Definition drain (k : nat) : list nat := repeat 0 k ++ repeat 1 k.

(* the tree as found: both callers read the code before either writes it -> two successes, two mappings *)
Lemma pinned_overlapping_activations_refuted :
  exists sched,
    let s := run sh lo (tstep Pinned P0) (s0 two_activators) sched in
    finished (snd s) = true /\ oks (snd s) = 2 /\ length (mains (fst s)) = 2.
Proof. exists ([0; 1] ++ drain 12). vm_compute. repeat split. Qed.

(* the tree as found: the global-list append of a lone caller fails -> error returned, main record left behind *)
Lemma pinned_failed_append_leaves_record_refuted :
  exists f,
    let s := run sh lo (tstep Pinned P0) (s0 [init_lo 0 (KAct 101 0 true) false (Some f)]) (repeat 0 12) in
    finished (snd s) = true /\ errs (snd s) = 1 /\ length (mains (fst s)) = 1.
Proof. exists 1. vm_compute. repeat split. Qed.

(* same schedule / same fault on the repaired code *)
Lemma current_same_schedule_one_success :
  let s := run sh lo (tstep Current P0) (s0 two_activators) ([0; 1] ++ drain 12) in
  finished (snd s) = true /\ oks (snd s) = 1 /\ errs (snd s) = 1 /\ length (mains (fst s)) = 1.
Proof. vm_compute. repeat split. Qed.

Lemma current_failed_append_leaves_nothing :
  let s := run sh lo (tstep Current P0) (s0 [init_lo 0 (KAct 101 0 true) false (Some 3)]) (repeat 0 14) in
  finished (snd s) = true /\ errs (snd s) = 1 /\ mains (fst s) = [] /\ claim (fst s) = false /\ admk (fst s) = [].
Proof. vm_compute. repeat split. Qed.

Lemma premises_satisfiable : start_ok P0 (s0 two_activators).
Proof.
  split; [reflexivity|]. split; [|split].
  - intros t [<-|[<-|[]]]; left; reflexivity.
  - intros [|[|i]] [|[|j]] ti tj Hi Hj He; cbn in Hi, Hj; try reflexivity;
      try (destruct i; discriminate); try (destruct j; discriminate);
      inversion Hi; inversion Hj; subst; cbn in He; discriminate.
  - cbn. discriminate.
Qed.

(* the schedule of the revoke race: the activator reads the code, the revocation runs to completion, the activator
   goes on — on the repaired code the activator is turned away at its claim and the record stays revoked *)
Definition act_and_rev : list lo := [init_lo 0 (KAct 101 0 true) false None; init_lo 1 KRev false None].
Lemma current_revoke_race_activation_refused :
  let s := run sh lo (tstep Current P0) (s0 act_and_rev) ([0] ++ repeat 1 4 ++ repeat 0 12) in
  finished (snd s) = true /\ oks (snd s) = 0 /\ errs (snd s) = 1 /\ mains (fst s) = [] /\
  by_code (fst s) = Some {| c_act := false; c_rev := true; c_by := 0; c_map := 0 |}.
Proof. vm_compute. repeat split. Qed.

(* the tree as found: same schedule, the revoked code is activated and the revoked flag is overwritten *)
Lemma pinned_revoke_race_refuted :
  let s := run sh lo (tstep Pinned P0) (s0 act_and_rev) ([0] ++ repeat 1 4 ++ repeat 0 12) in
  finished (snd s) = true /\ oks (snd s) = 1 /\ length (mains (fst s)) = 1 /\
  (exists t, In t (snd s) /\ l_pc t = PDone RRevoked) /\
  by_code (fst s) = Some {| c_act := true; c_rev := false; c_by := 101; c_map := 1 |}.
Proof.
  vm_compute. split; [reflexivity|]. split; [reflexivity|]. split; [reflexivity|]. split; [|reflexivity].
  eexists. split; [right; left; reflexivity|reflexivity].
Qed.

(* read paths with side effects.  Schedule: the activator reads the code (valid) and pauses; the owner revokes it (4 steps)
   and then lists its codes (2 steps of the call, + the clean-up if one is spawned); the activator goes on. *)
Definition act_rev_list : list lo :=
  [init_lo 0 (KAct 101 0 true) false None; init_lo 1 KRev false None; init_lo 2 KList false None].
Definition purge_schedule : list nat := [0] ++ repeat 1 4 ++ repeat 2 8 ++ repeat 0 14.

(* repaired code: a revoked code is listed, not purged; the claim stays; the activator is turned away *)
Lemma current_list_after_revoke_keeps_claim :
  let s := run sh lo (tstep Current P0) (s0 act_rev_list) purge_schedule in
  finished (snd s) = true /\ oks (snd s) = 0 /\ mains (fst s) = [] /\ claim (fst s) = true /\
  by_code (fst s) = Some {| c_act := false; c_rev := true; c_by := 0; c_map := 0 |}.
Proof. vm_compute. repeat split. Qed.

(* a listing whose clean-up also purges REVOKED codes (connCodeRepo.Delete releases the claim marker): the revoked code
   creates a mapping — revocation and activation both succeed *)
Lemma purge_revoked_refuted :
  let s := run sh lo (tstep PurgeRevoked P0) (s0 act_rev_list) purge_schedule in
  finished (snd s) = true /\ oks (snd s) = 1 /\ length (mains (fst s)) = 1 /\
  (exists t, In t (snd s) /\ l_kind t = KRev /\ l_pc t = PDone RRevoked).
Proof.
  vm_compute. split; [reflexivity|]. split; [reflexivity|]. split; [reflexivity|].
  eexists. split; [right; left; reflexivity|split; reflexivity].
Qed.

(* TIME.  Caller 0 takes the claim and stalls; 31 s pass; caller 1 (another client) activates the same code; caller 0 goes on. *)
Definition two_activators_and_stall : list lo :=
  [init_lo 0 (KAct 101 0 true) false None; init_lo 1 (KAct 102 1 true) false None; init_lo 2 (KStall 31) false None].
Definition stall_schedule : list nat := repeat 0 4 ++ [2] ++ repeat 1 12 ++ repeat 0 12.

(* repaired code (claim lives for the remaining window): the second caller is turned away *)
Lemma current_stalled_holder_keeps_claim :
  let s := run sh lo (tstep Current P0) (s0 two_activators_and_stall) stall_schedule in
  finished (snd s) = true /\ oks (snd s) = 1 /\ errs (snd s) = 1 /\ length (mains (fst s)) = 1.
Proof. vm_compute. repeat split. Qed.

(* a claim marker that is only a 30 s lease lapses under the stalled holder: both activations succeed, two mappings *)
Lemma lease30_refuted :
  let s := run sh lo (tstep Lease30 P0) (s0 two_activators_and_stall) stall_schedule in
  finished (snd s) = true /\ oks (snd s) = 2 /\ length (mains (fst s)) = 2.
Proof. vm_compute. repeat split. Qed.

(* Proofs/DomainRegistry.v — C19: the legacy registry's claim is exclusive for every schedule, any number of claimants *)
From TX Require Import Model.Domain Model.DomainRegistry Proofs.Domain.
Local Open Scope N_scope.

(* one-section Register: nobody is ever between check and insert, and a claimant that was told it owns its name is the
   mapping the name routes to *)
Definition RInv (s : regmap * list claimant) : Prop :=
  forall c, In c (snd s) -> c_pc c <> RChecked /\ (c_pc c = RDone true -> fst s (c_name c) = Some (c_map c)).

Lemma in_upd_nth {A} (l : list A) k x y : In y (upd_nth k x l) -> y = x \/ In y l.
Proof.
  revert k; induction l as [|h t IH]; intros [|k]; cbn; auto.
  - intros [E|E]; auto.
  - intros [E|E]; [auto|]. destruct (IH k E); auto.
Qed.

Lemma rinv_step s k : RInv s -> RInv (sys_step _ _ (rstep true) s k).
Proof.
  destruct s as [m cs]. unfold RInv, sys_step; cbn [fst snd]. intros H.
  destruct (nth_error cs k) as [c|] eqn:Ek; [|exact H].
  assert (Hc : In c cs) by (eapply nth_error_In; eauto).
  destruct (H c Hc) as [Hnc _].
  unfold rstep. destruct (c_pc c) eqn:Epc; [|contradiction|].
  - (* the one critical section *)
    unfold free_or_mine. destruct (m (c_name c)) as [j|] eqn:Em.
    + destruct (N.eqb j (c_map c)) eqn:Ej; cbn [fst snd].
      * apply N.eqb_eq in Ej. subst j.
        intros x Hx. destruct (in_upd_nth _ _ _ _ Hx) as [->|Hin]; cbn.
        -- split; [discriminate|intros _; apply upd_name_same].
        -- destruct (H x Hin) as [H1 H2]. split; [exact H1|]. intros Hd. specialize (H2 Hd).
           unfold upd_name. destruct (name_eqb (c_name x) (c_name c)) eqn:En; [|exact H2].
           apply name_eqb_eq in En. rewrite En, Em in H2. exact H2.
      * intros x Hx. destruct (in_upd_nth _ _ _ _ Hx) as [->|Hin]; [cbn; split; discriminate|now apply H].
    + cbn [fst snd]. intros x Hx. destruct (in_upd_nth _ _ _ _ Hx) as [->|Hin]; cbn.
      * split; [discriminate|intros _; apply upd_name_same].
      * destruct (H x Hin) as [H1 H2]. split; [exact H1|]. intros Hd. specialize (H2 Hd).
        unfold upd_name. destruct (name_eqb (c_name x) (c_name c)) eqn:En; [|exact H2].
        apply name_eqb_eq in En. rewrite En, Em in H2. discriminate.
  - cbn [fst snd]. intros x Hx. destruct (in_upd_nth _ _ _ _ Hx) as [->|Hin]; now apply H.
Qed.

Definition idle_claimants (cs : list claimant) : Prop := forall c, In c cs -> c_pc c = RIdle.

Lemma rinv_init m cs : idle_claimants cs -> RInv (m, cs).
Proof. intros Hi c Hc. cbn in Hc. rewrite (Hi c Hc). split; discriminate. Qed.

(* for ANY number of claimants, ANY registry contents beforehand and ANY schedule: two claimants of one name that were
   both told they own it are the same mapping (at most one mapping id wins a name), and the name routes to the winner —
   for every Host spelling that resolves to the name *)
Theorem registry_claim_exclusive m0 cs sched :
  idle_claimants cs ->
  let s := rrun true m0 cs sched in
  (forall a b, In a (snd s) -> In b (snd s) -> c_pc a = RDone true -> c_pc b = RDone true ->
               c_name a = c_name b -> c_map a = c_map b) /\
  (forall a host, In a (snd s) -> c_pc a = RDone true -> extractDomain host = c_name a ->
               reg_lookup (fst s) host = Some (c_map a)).
Proof.
  intros Hi s.
  assert (Hinv : RInv s).
  { unfold s, rrun. apply inv_all_schedules; [intros x k; apply rinv_step|now apply rinv_init]. }
  split.
  - intros a b Ha Hb Hda Hdb En. destruct (Hinv a Ha) as [_ H1]. destruct (Hinv b Hb) as [_ H2].
    specialize (H1 Hda). specialize (H2 Hdb). rewrite En in H1. rewrite H1 in H2. now inversion H2.
  - intros a host Ha Hda Eh. destruct (Hinv a Ha) as [_ H1]. unfold reg_lookup. rewrite Eh. now apply H1.
Qed.

(* a name that already belongs to another mapping cannot be taken (it keeps routing to that mapping) *)
Lemma registered_name_refused m c :
  c_pc c = RIdle -> (exists j, m (c_name c) = Some j /\ j <> c_map c) -> rstep true c m = (set_pc c (RDone false), m).
Proof.
  intros Hp (j & Hm & Hj). unfold rstep, free_or_mine. rewrite Hp, Hm. apply N.eqb_neq in Hj. now rewrite Hj.
Qed.

(* check and insert in two critical sections: two claimants of one new name, different mappings; both pass the check
   before either inserts; both are told they own the name, the last writer routes *)
Definition two_claimants : list claimant := [claim [115] 1; claim [115] 2].
Lemma two_section_register_refuted :
  let s := rrun false (fun _ => None) two_claimants [0; 1; 0; 1]%nat in
  map c_pc (snd s) = [RDone true; RDone true] /\ reg_lookup (fst s) [115; 58; 52; 52; 51] = Some 2.
Proof. vm_compute. split; reflexivity. Qed.

(* the same claimants and schedule on the one-section Register: one winner, and it is the one the name routes to *)
Lemma one_section_register_run :
  let s := rrun true (fun _ => None) two_claimants [0; 1; 0; 1]%nat in
  map c_pc (snd s) = [RDone true; RDone false] /\ reg_lookup (fst s) [115; 58; 52; 52; 51] = Some 1.
Proof. vm_compute. split; reflexivity. Qed.

Lemma two_claimants_idle : idle_claimants two_claimants.
Proof. intros c [<-|[<-|[]]]; reflexivity. Qed.

(* Proofs/PipeKinds.v — C02: closure for EVERY non-retryable kind of read failure, and "one direction's end never truncates
   the other" for the relay over a transport without half-close. *)
From TX Require Import Model.Pipe Model.PipeClose Proofs.Pipe Proofs.PipeBridge.
From Coq Require Import ZArith ZifyN ZifyNat ZifyBool Lia.
Open Scope N_scope.

Lemma rkind_fatal tmo tmp : tmo && tmp = false -> rkind_of_error tmo tmp = RFatal.
Proof. unfold rkind_of_error. intros ->. reflexivity. Qed.
Lemma rkind_retry : rkind_of_error true true = RTimeout.
Proof. reflexivity. Qed.

(* nothing after the first fatal read result is ever read *)
Lemma readable_cut : forall pre e post, r_end e = RFatal -> readable (pre ++ e :: post) = readable (pre ++ [e]).
Proof.
  induction pre as [|p pre IH]; intros e post He; cbn [app readable].
  - rewrite He. reflexivity.
  - destruct (r_end p); [rewrite (IH e post He)|rewrite (IH e post He)|]; reflexivity.
Qed.

(* a retryable failure does not end the stream: the bytes after it still count as sent *)
Lemma readable_retry d rs : readable ({| r_data := d; r_end := rkind_of_error true true |} :: rs) = d ++ readable rs.
Proof. reflexivity. Qed.

Lemma fabricated_eof_loses_bytes : exists d rs, readable ({| r_data := d; r_end := RFatal |} :: rs) <> d ++ readable rs.
Proof. exists [1%N], [{| r_data := [2%N]; r_end := RNone |}]. cbn. discriminate. Qed.

Section K.
  Variable v : variant.
  Variable threshold : N.
  Variable lim : option N.

  (* whatever kind of error an end's Read fails with — permanent timeout, temporary non-timeout, EOF, unexpected EOF, closed,
     anything that is not BOTH a timeout and temporary — once that direction has been scheduled often enough the bridge is
     closed (both ends closed), for every schedule, and nothing scripted after the failure is ever delivered *)
  Theorem failure_kind_closes_0 : forall tmo tmp, tmo && tmp = false ->
    forall pre data post ws0 rs1 ws1 sched,
    let rs0 := pre ++ {| r_data := data; r_end := rkind_of_error tmo tmp |} :: post in
    (2 * length rs0 + 3 <= count_occ Nat.eq_dec sched 0)%nat ->
    let s := bridge_run v threshold lim rs0 ws0 rs1 ws1 sched in
    s_closed (fst s) = true /\
    prefix (s_out0 (fst s)) (readable (pre ++ [{| r_data := data; r_end := RFatal |}])).
  Proof.
    intros tmo tmp Hk pre data post ws0 rs1 ws1 sched rs0 Hn s.
    subst s rs0. rewrite (rkind_fatal tmo tmp Hk) in *.
    set (rs0 := pre ++ {| r_data := data; r_end := RFatal |} :: post) in *.
    destruct (bridge_terminates v threshold lim rs0 ws0 rs1 ws1 sched 0%nat) as (t & x & Ht & Hx); [lia|exact Hn|].
    destruct (bridge_close_once v threshold lim rs0 ws0 rs1 ws1 sched) as (_ & _ & Hdone & _).
    split.
    - apply (Hdone t x); [eapply nth_error_In; exact Ht|exact Hx].
    - destruct (bridge_delivered_is_prefix v threshold lim rs0 ws0 rs1 ws1 sched) as [H0 _].
      unfold rs0 in H0 at 2. rewrite readable_cut in H0 by reflexivity. exact H0.
  Qed.

  Theorem failure_kind_closes_1 : forall tmo tmp, tmo && tmp = false ->
    forall pre data post rs0 ws0 ws1 sched,
    let rs1 := pre ++ {| r_data := data; r_end := rkind_of_error tmo tmp |} :: post in
    (2 * length rs1 + 3 <= count_occ Nat.eq_dec sched 1)%nat ->
    let s := bridge_run v threshold lim rs0 ws0 rs1 ws1 sched in
    s_closed (fst s) = true /\
    prefix (s_out1 (fst s)) (readable (pre ++ [{| r_data := data; r_end := RFatal |}])).
  Proof.
    intros tmo tmp Hk pre data post rs0 ws0 ws1 sched rs1 Hn s.
    subst s rs1. rewrite (rkind_fatal tmo tmp Hk) in *.
    set (rs1 := pre ++ {| r_data := data; r_end := RFatal |} :: post) in *.
    destruct (bridge_terminates v threshold lim rs0 ws0 rs1 ws1 sched 1%nat) as (t & x & Ht & Hx); [lia|exact Hn|].
    destruct (bridge_close_once v threshold lim rs0 ws0 rs1 ws1 sched) as (_ & _ & Hdone & _).
    split.
    - apply (Hdone t x); [eapply nth_error_In; exact Ht|exact Hx].
    - destruct (bridge_delivered_is_prefix v threshold lim rs0 ws0 rs1 ws1 sched) as [_ H1].
      unfold rs1 in H1 at 2. rewrite readable_cut in H1 by reflexivity. exact H1.
  Qed.
End K.
Close Scope N_scope.

(* ---- request/response over a transport without half-close ---- *)
Definition resp_left (t : tthread) : nat := match t with TResp m => m | _ => 0 end.
Definition TInv (m0 : nat) (s : tshared * list tthread) : Prop :=
  t_stream_closed (fst s) = false /\
  exists a b, snd s = [a; b] /\
    match a with TReq _ | TReqHalfClose | TReqDone => True | _ => False end /\
    match b with
    | TResp m => t_delivered (fst s) + m = m0
    | TRespDone tr => tr = false /\ t_delivered (fst s) = m0
    | _ => False
    end.

Lemma tinv_step m0 s i : TInv m0 s -> TInv m0 (sys_step _ _ (tstep NoopOnNoCap) s i).
Proof.
  destruct s as [sh ls]. intros (Hc & a & b & Hls & Ha & Hb). cbn [fst snd] in *. subst ls. unfold TInv, sys_step. cbn [fst snd].
  destruct i as [|[|i]]; cbn [nth_error].
  - destruct a as [[|n]| | | |]; try contradiction; cbn; (split; [exact Hc|]); eexists _, _; (split; [reflexivity|]); (split; [exact I|exact Hb]).
  - destruct b as [| | |[|m]|tr]; try contradiction; cbn [tstep].
    + cbn. split; [exact Hc|]. eexists _, _. split; [reflexivity|]. split; [exact Ha|]. split; [reflexivity|lia].
    + rewrite Hc. cbn. split; [reflexivity|]. eexists _, _. split; [reflexivity|]. split; [exact Ha|]. cbn. lia.
    + cbn. split; [exact Hc|]. eexists _, _. split; [reflexivity|]. split; [exact Ha|exact Hb].
  - assert (En : nth_error (@nil tthread) i = None) by (destruct i; reflexivity). rewrite En. cbn.
    split; [exact Hc|]. exists a, b. auto.
Qed.

Lemma tmeas_run m0 : forall sched s, TInv m0 s ->
  TInv m0 (run _ _ (tstep NoopOnNoCap) s sched) /\
  (match nth_error (snd (run _ _ (tstep NoopOnNoCap) s sched)) 1 with Some (TResp m) => S m | _ => 0 end
   <= match nth_error (snd s) 1 with Some (TResp m) => S m | _ => 0 end - count_occ Nat.eq_dec sched 1).
Proof.
  induction sched as [|i r IH]; intros s Hs; cbn [run fold_left count_occ]; [split; [exact Hs|lia]|].
  pose proof (tinv_step m0 s i Hs) as Hs'. destruct (IH _ Hs') as [IH1 IH2]. unfold run in IH1, IH2. split; [exact IH1|].
  assert (Hstep : match nth_error (snd (sys_step _ _ (tstep NoopOnNoCap) s i)) 1 with Some (TResp m) => S m | _ => 0 end
                  <= match nth_error (snd s) 1 with Some (TResp m) => S m | _ => 0 end - (if Nat.eq_dec i 1 then 1 else 0)).
  { destruct s as [sh ls]. destruct Hs as (Hc & a & b & Hls & Ha & Hb). cbn [fst snd] in *. subst ls. unfold sys_step. cbn [fst snd].
    destruct i as [|[|i]]; cbn [nth_error].
    - destruct (tstep NoopOnNoCap a sh). cbn. destruct b; lia.
    - destruct b as [| | |[|m]|tr]; try contradiction; cbn [tstep]; try rewrite Hc; cbn; lia.
    - assert (En : nth_error (@nil tthread) i = None) by (destruct i; reflexivity). rewrite En. cbn. destruct b; lia. }
  destruct (Nat.eq_dec i 1); lia.
Qed.

(* the early end of the request direction never truncates the response: for EVERY schedule in which the response direction
   gets its m+1 steps, all m chunks are delivered and it ends un-truncated — wherever the request direction's EOF and its
   (no-op) half-close fall in the schedule *)
Theorem response_never_truncated : forall n m sched,
  m + 1 <= count_occ Nat.eq_dec sched 1 ->
  t_delivered (fst (reqresp_run NoopOnNoCap n m sched)) = m /\
  nth_error (snd (reqresp_run NoopOnNoCap n m sched)) 1 = Some (TRespDone false) /\
  t_stream_closed (fst (reqresp_run NoopOnNoCap n m sched)) = false.
Proof.
  intros n m sched Hn. unfold reqresp_run.
  assert (H0 : TInv m ({| t_stream_closed := false; t_delivered := 0 |}, [TReq n; TResp m])).
  { split; [reflexivity|]. eexists _, _. split; [reflexivity|]. split; [exact I|reflexivity]. }
  destruct (tmeas_run m sched _ H0) as [(Hc & a & b & Hls & Ha & Hb) Hm].
  cbn [snd nth_error] in Hm. rewrite Hls in *. cbn [nth_error] in *.
  destruct b as [| | |k|tr]; try contradiction; [lia|]. destruct Hb as [-> Hd]. auto.
Qed.

(* refuted: if the half-close of a transport without half-close closes the stream, the response is cut short *)
Theorem close_on_half_close_truncates_refuted :
  exists sched, t_delivered (fst (reqresp_run CloseOnNoCap 1 3 sched)) < 3 /\
                nth_error (snd (reqresp_run CloseOnNoCap 1 3 sched)) 1 = Some (TRespDone true).
Proof. exists [0; 0; 1; 0; 1; 1; 1]. vm_compute. split; [lia|reflexivity]. Qed.

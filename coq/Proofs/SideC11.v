(* Proofs/SideC11.v — side conditions tying Model/Commands.v to the dispatch classification regenerated from the
   real command stack (Gen/C11.v): re-proved for the current values on every run. *)
From TX Require Import Model.Commands Gen.C11.
From Coq Require Import NArith List Bool.
Import ListNotations.
Open Scope N_scope.

(* completeness: for all 256 command bytes x {JsonCommand, CommandResp} the route measured on the real stack
   (unhandled / registry handler / pre-executor special case) is the route of the model's table.  A handler added to
   the server without a model row (or a new special case in handleCommandPacket) breaks this. *)
Definition entry_ok (e : N * bool * N) : bool :=
  let '(t, resp, ro) := e in route_of current_table t resp =? ro.

Lemma dispatch_table_complete : length dispatch_table = 512%nat /\ forallb entry_ok dispatch_table = true.
Proof. split; vm_compute; reflexivity. Qed.

(* the pinned table has the same routes (the repairs do not add or remove handlers) *)
Lemma dispatch_table_complete_pinned :
  forallb (fun e => let '(t, resp, ro) := e in route_of pinned_table t resp =? ro) dispatch_table = true.
Proof. vm_compute; reflexivity. Qed.

(* every (byte, packet type) pair is listed exactly once, in order *)
Lemma dispatch_table_keys :
  map (fun e => let '(t, resp, _) := e in (t, resp)) dispatch_table
  = flat_map (fun t => [(N.of_nat t, false); (N.of_nat t, true)]) (seq 0 256).
Proof. vm_compute; reflexivity. Qed.

(* every handler the server registers is a duplex handler (its success flag is what HandlePacket returns) and has a
   registry row in the model; the command bytes the model names are the constants of packet/packet.go *)
Lemma registered_handlers_modelled :
  forallb (fun h => (snd h =? 1) && (route_of current_table (fst h) false =? 1)) registered_handlers = true
  /\ (C_Disconnect, C_ConfigGet, C_CodeGenerate, C_CodeList, C_CodeActivate, C_MappingList, C_MappingGet, C_MappingDelete)
     = (11, 50, 70, 71, 72, 74, 75, 76)
  /\ (C_HTTPProxyResponse, C_DomBaseDomains, C_DomCheck, C_DomGen, C_DomCreate, C_DomDelete, C_DomList)
     = (81, 82, 83, 84, 85, 86, 87)
  /\ (C_Socks5Tunnel, C_TrafficReport, C_SendNotify, C_DNSResolve, C_DNSQuery) = (90, 110, 102, 120, 121)
  /\ Gen.C11.C_TunnelOpenRequest = Model.Commands.C_TunnelOpenRequest
  /\ Gen.C11.C_NotifyClient = Model.Commands.C_NotifyClient.
Proof. repeat split; vm_compute; reflexivity. Qed.

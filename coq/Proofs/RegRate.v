(* Proofs/RegRate.v — registrations of one address are bounded by the token bucket whatever token form the
   ClientID = 0 handshakes use, provided every form that registers is charged (Model/Lockout.v reg_run). *)
From TX Require Import Model.Lockout Proofs.Lockout.
From Coq Require Import ZArith Lia.
Open Scope Z_scope.

Fixpoint rmono (t0 : Z) (h : list (Z * nat)) : Prop :=
  match h with [] => True | tf :: r => t0 <= fst tf /\ rmono (fst tf) r end.
Fixpoint rlast (t0 : Z) (h : list (Z * nat)) : Z :=
  match h with [] => t0 | tf :: r => rlast (fst tf) r end.

Lemma level_grow C b t t' : bucket_cfg_ok C -> wf_bucket C b t -> t <= t' ->
  level C b t' <= level C b t + rate C * (t' - t) /\ wf_bucket C b t'.
Proof.
  intros HC Hw Hle. destruct HC.
  assert (Hrt : 0 <= rate C * (t' - t)) by (apply Z.mul_nonneg_nonneg; lia).
  destruct b as [[tok last]|]; cbn [level wf_bucket fst snd] in *; [|split; [lia|exact I]].
  unfold refill. cbn [fst snd]. destruct Hw as [Htok Hlast].
  assert (Heq : (t' - last) * rate C = (t - last) * rate C + rate C * (t' - t)) by ring.
  assert (0 <= (t - last) * rate C) by (apply Z.mul_nonneg_nonneg; lia).
  rewrite Heq. split; lia.
Qed.

Section Reg.
  Variable C : cfg.
  Variables registers charged : nat -> bool.
  Hypothesis HC : bucket_cfg_ok C.
  (* the side condition: every token form that step 4 accepts as a first connection is charged by gate 3 *)
  Hypothesis Hcharged : forall f, registers f = true -> charged f = true.

  Lemma reg_step_bound b regs t t' f :
    wf_bucket C b t -> t <= t' ->
    let st' := reg_step C registers charged (b, regs) (t', f) in
    wf_bucket C (fst st') t' /\
    snd st' * tps C + level C (fst st') t' <= regs * tps C + level C b t + rate C * (t' - t).
  Proof.
    intros Hw Hle. unfold reg_step. cbn [fst snd].
    destruct (charged f) eqn:Ech.
    - pose proof (bucket_step_bound C b regs t t' (BTake 1) HC Hw Hle ltac:(lia)) as Hb.
      cbn [bucket_step snd fst] in Hb. destruct (take C t' 1 b) as [b' ok]. cbn [fst snd] in *.
      destruct Hb as [Hw' Hb]. split; [exact Hw'|].
      assert (0 < tps C) by (destruct HC; assumption).
      destruct ok; cbn [andb]; [destruct (registers f)|]; nia.
    - assert (Hr : registers f = false).
      { destruct (registers f) eqn:Er; [|reflexivity]. rewrite (Hcharged _ Er) in Ech. discriminate. }
      rewrite Hr. cbn [fst snd]. destruct (level_grow C b t t' HC Hw Hle) as [Hg Hw']. split; [exact Hw'|lia].
  Qed.

  Theorem registration_bound : forall h b t0, wf_bucket C b t0 -> rmono t0 h ->
    snd (reg_run C registers charged b h) * tps C <= level C b t0 + rate C * (rlast t0 h - t0)
    /\ level C b t0 <= burst C * tps C.
  Proof.
    intros h b t0 Hw Hm. split; [|apply (level_bounds C b t0 HC Hw)].
    unfold reg_run.
    assert (Hgen : forall h b regs t0, wf_bucket C b t0 -> rmono t0 h ->
              let st := fold_left (reg_step C registers charged) h (b, regs) in
              wf_bucket C (fst st) (rlast t0 h) /\
              snd st * tps C + level C (fst st) (rlast t0 h)
              <= regs * tps C + level C b t0 + rate C * (rlast t0 h - t0)).
    { clear h b t0 Hw Hm. induction h as [|[t' f] h IH]; intros b regs t0 Hw Hm; cbn [fold_left rlast].
      - cbn. split; [exact Hw|]. rewrite Z.sub_diag, Z.mul_0_r. lia.
      - cbn in Hm. destruct Hm as (Hle & Hm).
        destruct (reg_step_bound b regs t0 t' f Hw Hle) as [Hw1 Hb1].
        destruct (reg_step C registers charged (b, regs) (t', f)) as [b1 regs1] eqn:Es. cbn [fst snd] in *.
        destruct (IH b1 regs1 t' Hw1 Hm) as [Hw2 Hb2]. split; [exact Hw2|].
        replace (rate C * (rlast t' h - t0)) with (rate C * (rlast t' h - t') + rate C * (t' - t0)) by ring.
        lia. }
    destruct (Hgen h b 0 t0 Hw Hm) as [Hw' Hb'].
    pose proof (level_bounds C _ _ HC Hw') as Hl. lia.
  Qed.
End Reg.

(* a token form that registers without being charged makes the registrations of an address unbounded: 12 of them at
   one instant against burst 3 (the shape of a handler whose gate 3 looks at the token) *)
Definition reg_cfg : cfg := {| maxf := 5; window := 1000; band := 1000; perm := 20; rate := 1; burst := 3; ttl := 300000; tps := 1000 |}.
Lemma uncharged_form_refuted :
  exists registers charged h,
    bucket_cfg_ok reg_cfg /\ rmono 0 h /\ rlast 0 h = 0 /\
    snd (reg_run reg_cfg registers charged None h) = 12 /\ burst reg_cfg = 3.
Proof.
  exists (fun _ => true), (fun f => Nat.eqb f 0), (repeat (0, 1%nat) 12).
  split; [split; vm_compute; congruence|].
  split; [vm_compute; repeat split; try exact I; intro H; discriminate H|].
  vm_compute. repeat split; reflexivity.
Qed.

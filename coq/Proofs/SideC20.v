(* Proofs/SideC20.v — side conditions tying Model/Socks.v to the values regenerated from the repository
   (Gen/C20.v: protocol constants of both Go packages, and single-field sweeps — every CMD, ATYP, VER and FRAG
   byte value — evaluated by the REAL parsers).  Re-proved for the current values on every run. *)
From TX Require Import Model.Socks Gen.C20.
From Coq Require Import ZArith ZifyN ZifyNat ZifyBool.
Open Scope N_scope.

Lemma listener_constants_are_rfc :
  L_Version = VER /\ L_AuthNone = AUTH_NONE /\ L_AuthNoMatch = AUTH_NOMATCH /\
  L_CmdConnect = CMD_CONNECT /\ L_CmdBind = CMD_BIND /\ L_CmdUDPAssoc = CMD_UDP /\
  L_AddrIPv4 = ATYP_V4 /\ L_AddrDomain = ATYP_DOMAIN /\ L_AddrIPv6 = ATYP_V6 /\
  L_RepSuccess = 0 /\ L_RepFailure = REP_FAILURE /\ L_RepCmdNotSupp = REP_CMD /\ L_RepAddrNotSupp = REP_ATYP.
Proof. repeat split; reflexivity. Qed.

Lemma adapter_constants_are_rfc :
  A_Version = VER /\ A_AuthNone = AUTH_NONE /\ A_AuthPassword = AUTH_USERPASS /\ A_AuthNoMatch = AUTH_NOMATCH /\
  A_CmdConnect = CMD_CONNECT /\ A_CmdBind = CMD_BIND /\ A_CmdUDPAssociate = CMD_UDP /\
  A_AddrIPv4 = ATYP_V4 /\ A_AddrDomain = ATYP_DOMAIN /\ A_AddrIPv6 = ATYP_V6 /\
  A_RepSuccess = 0 /\ A_RepServerFailure = REP_FAILURE /\ A_RepCommandNotSupported = REP_CMD /\
  A_RepAddrTypeNotSupported = REP_ATYP.
Proof. repeat split; reflexivity. Qed.

(* the probes of harness/cmd/c20/main.go gen(), run through the model *)
Definition greet : list byte := [5; 1; 0].
Definition probe_tail : list byte :=
  [3; 97; 98; 99; 0; 80; 1; 2; 3; 4; 5; 6; 7; 8; 9; 10; 11; 12; 13; 14; 15; 16; 17; 18; 19; 20].
Definition all_bytes : list N := map N.of_nat (seq 0 256).

Definition sess_code (res : option request) (out : list byte) : N :=
  match res with
  | Some _ => 0
  | None => if 4 <=? lenN out then nth 3 out 0 else 255
  end.

Definition listener_probe (req : list byte) : N * N :=
  let s := greet ++ req in
  let '(res, lft, out) := run_list listener_handshake s [] in
  (sess_code res out, lenN s - lenN lft - 3).

Definition adapter_probe (req : list byte) : N * N :=
  let s := greet ++ req in
  let '(ok, s1, out1) := run_list (adapter_greeting None) s [] in
  if ok then
    let '(res, lft, out) := run_list adapter_request s1 out1 in
    (sess_code res out, lenN s - lenN lft - 3)
  else (255, lenN s - lenN s1 - 3).

Definition udp_probe (d : list byte) : N * N :=
  match udp_parse udp_min_current d with
  | Some (_, _, _, pl) => (1, lenN pl)
  | None => (0, 0)
  end.

Lemma listener_cmd_sweep :
  listener_cmd_table = map (fun c => listener_probe ([5; c; 0; 1] ++ probe_tail)) all_bytes.
Proof. vm_compute. reflexivity. Qed.
Lemma adapter_cmd_sweep :
  adapter_cmd_table = map (fun c => adapter_probe ([5; c; 0; 1] ++ probe_tail)) all_bytes.
Proof. vm_compute. reflexivity. Qed.
Lemma listener_atyp_sweep :
  listener_atyp_table = map (fun a => listener_probe ([5; 1; 0; a] ++ probe_tail)) all_bytes.
Proof. vm_compute. reflexivity. Qed.
Lemma adapter_atyp_sweep :
  adapter_atyp_table = map (fun a => adapter_probe ([5; 1; 0; a] ++ probe_tail)) all_bytes.
Proof. vm_compute. reflexivity. Qed.
Lemma listener_ver_sweep :
  listener_ver_table = map (fun v => listener_probe ([v; 1; 0; 1] ++ probe_tail)) all_bytes.
Proof. vm_compute. reflexivity. Qed.
Lemma adapter_ver_sweep :
  adapter_ver_table = map (fun v => adapter_probe ([v; 1; 0; 1] ++ probe_tail)) all_bytes.
Proof. vm_compute. reflexivity. Qed.
Lemma udp_atyp_sweep :
  udp_atyp_table = map (fun a => udp_probe ([0; 0; 0; a] ++ probe_tail)) all_bytes.
Proof. vm_compute. reflexivity. Qed.
Lemma udp_frag_sweep :
  udp_frag_table = map (fun f => udp_probe ([0; 0; f; 1] ++ probe_tail)) all_bytes.
Proof. vm_compute. reflexivity. Qed.

(* the command predicates of the model are the ones the sweeps show *)
Lemma cmd_predicates_match_code :
  map (fun c => fst c =? 0) listener_cmd_table = map listener_cmd_ok all_bytes /\
  map (fun c => fst c =? 0) adapter_cmd_table = map adapter_cmd_ok all_bytes.
Proof. split; vm_compute; reflexivity. Qed.
Close Scope N_scope.

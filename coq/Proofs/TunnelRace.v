(* Proofs/TunnelRace.v — every interleaving of any number of concurrent TunnelOpen requests (Model/TunnelRace.v). *)
From TX Require Import Base.Threads Model.TunnelOpen Proofs.TunnelOpen Model.TunnelRace.
From Coq Require Import List NArith Bool Lia ZArith ZifyN ZifyNat ZifyBool.
Import ListNotations.
Open Scope N_scope.

Definition sh_inv (sh : shared) : Prop :=
  (forall cr t, rholds sh cr t -> In (cr, t) (map fst (sh_log sh))) /\
  (forall e, In e (sh_log sh) -> snd e = true) /\
  (forall t, sh_tun sh t <> None -> sh_id sh t < sh_next sh).       (* identities of registered bridge objects are below the counter *)

(* what a request that passed the agreement test on bridge object g (registered under t) may rely on later: IF that very
   object is still registered under t, it belongs to mapping m *)
Definition claim (g : N) (t : tid) (m : mid) (sh : shared) : Prop :=
  g < sh_next sh /\ forall b, sh_tun sh t = Some b -> sh_id sh t = g -> b_mid b = m.

Definition lo_inv (d : db) (sh : shared) (lo : rlocal) : Prop :=
  match l_pc lo with
  | PcAttach => c_registered (l_conn lo) = true /\ validate current d (c_client (l_conn lo)) (l_req lo) = true
  | PcAttachExisting =>
      c_registered (l_conn lo) = true /\ validate current d (c_client (l_conn lo)) (l_req lo) = true /\
      claim (l_gen lo) (r_tid (l_req lo)) (r_mid (l_req lo)) sh
  | _ => True
  end.

Definition rinv (d : db) (s : rstate) : Prop := sh_inv (fst s) /\ Forall (lo_inv d (fst s)) (snd s).

Lemma Forall_upd_nth : forall {A} (P : A -> Prop) i x l, Forall P l -> P x -> Forall P (upd_nth i x l).
Proof.
  intros A P i x l. revert i. induction l as [|h t IH]; intros i Hl Hx; destruct i; cbn; try exact Hl.
  - inversion Hl; subst. constructor; assumption.
  - inversion Hl; subst. constructor; [assumption | apply IH; assumption].
Qed.

(* wiring connection cr into the bridge object registered under t (identity unchanged), logged as entitled *)
Lemma sh_inv_put :
  forall sh t b0 b' cr,
    sh_inv sh -> sh_tun sh t = Some b0 ->
    (forall x, b_src b' = Some x \/ b_tgt b' = Some x -> x = cr \/ rholds sh x t) ->
    sh_inv (put sh t b' (cr, t, true)).
Proof.
  intros sh t b0 b' cr [Hh [Hl Hid]] Hb0 Hb. split; [|split].
  - intros x t' [b1 [Hb1 Hor]]. cbn [put sh_tun sh_log map fst] in *. unfold upd in Hb1.
    destruct (N.eqb t' t) eqn:Ht.
    + apply N.eqb_eq in Ht. subst t'. injection Hb1 as <-.
      destruct (Hb x Hor) as [-> | Hold]; [left; reflexivity | right; apply Hh; exact Hold].
    + right. apply Hh. exists b1. split; assumption.
  - intros e [<- | Hin]; [reflexivity | apply Hl; exact Hin].
  - intros t' Hne. cbn [put sh_tun sh_id sh_next] in *. unfold upd in Hne.
    destruct (N.eqb t' t) eqn:Ht.
    + apply N.eqb_eq in Ht. subst t'. apply Hid. rewrite Hb0. discriminate.
    + apply Hid. exact Hne.
Qed.

(* registering a NEW bridge object under a free tunnel id *)
Lemma sh_inv_register :
  forall sh t b' cr,
    sh_inv sh -> sh_tun sh t = None ->
    (forall x, b_src b' = Some x \/ b_tgt b' = Some x -> x = cr) ->
    sh_inv (register sh t b' (cr, t, true)).
Proof.
  intros sh t b' cr [Hh [Hl Hid]] Hn Hb. split; [|split].
  - intros x t' [b1 [Hb1 Hor]]. cbn [register sh_tun sh_log map fst] in *. unfold upd in Hb1.
    destruct (N.eqb t' t) eqn:Ht.
    + apply N.eqb_eq in Ht. subst t'. injection Hb1 as <-. rewrite (Hb x Hor). left. reflexivity.
    + right. apply Hh. exists b1. split; assumption.
  - intros e [<- | Hin]; [reflexivity | apply Hl; exact Hin].
  - intros t' Hne. cbn [register sh_tun sh_id sh_next] in *. unfold upd in Hne.
    destruct (N.eqb t' t) eqn:Ht.
    + lia.
    + specialize (Hid t' Hne). lia.
Qed.

Lemma sh_inv_end :
  forall sh t, sh_inv sh ->
    sh_inv {| sh_tun := upd (sh_tun sh) t None; sh_id := sh_id sh; sh_next := sh_next sh; sh_log := sh_log sh |}.
Proof.
  intros sh t [Hh [Hl Hid]]. split; [|split].
  - intros x t' [b1 [Hb1 Hor]]. cbn [sh_tun sh_log] in *. unfold upd in Hb1.
    destruct (N.eqb t' t); [discriminate|]. apply Hh. exists b1. split; assumption.
  - exact Hl.
  - intros t' Hne. cbn [sh_tun sh_id sh_next] in *. unfold upd in Hne.
    destruct (N.eqb t' t); [contradiction Hne; reflexivity | apply Hid; exact Hne].
Qed.

(* a claim survives every atomic action of every thread, in every variant: an object keeps its mapping while it is registered,
   and an object registered later has a fresh identity *)
Lemma rstep_keeps_claim :
  forall rv d lo sh g t m,
    (forall t', sh_tun sh t' <> None -> sh_id sh t' < sh_next sh) ->
    claim g t m sh -> claim g t m (snd (rstep rv d lo sh)).
Proof.
  intros rv d lo sh g t m Hid [Hg Hc].
  assert (Hsame : claim g t m sh) by (split; assumption).
  assert (Hput : forall b0 bn e, sh_tun sh (r_tid (l_req lo)) = Some b0 -> b_mid bn = b_mid b0 ->
            claim g t m (put sh (r_tid (l_req lo)) bn e)).
  { intros b0 bn e Hb0 Hmid. split; [exact Hg|]. intros b Hb Hi. cbn [put sh_tun sh_id] in *. unfold upd in Hb.
    destruct (N.eqb t (r_tid (l_req lo))) eqn:Ht.
    - apply N.eqb_eq in Ht. subst t. injection Hb as <-. rewrite Hmid. apply Hc; assumption.
    - apply Hc; assumption. }
  assert (Hreg : forall bn e, sh_tun sh (r_tid (l_req lo)) = None -> claim g t m (register sh (r_tid (l_req lo)) bn e)).
  { intros bn e Hn. split; [cbn [register sh_next]; lia|]. intros b Hb Hi. cbn [register sh_tun sh_id] in *. unfold upd in Hb.
    destruct (N.eqb t (r_tid (l_req lo))) eqn:Ht.
    - lia.
    - apply Hc; assumption. }
  unfold rstep. destruct (l_pc lo); cbn [snd]; try exact Hsame.
  - (* PcLookup *)
    destruct (negb (c_registered (l_conn lo))); [exact Hsame|].
    destruct (negb (validate current d (c_client (l_conn lo)) (l_req lo))); [exact Hsame|].
    destruct (sh_tun sh (r_tid (l_req lo))) as [b0|]; [|exact Hsame].
    destruct (N.eqb (b_mid b0) (r_mid (l_req lo))); exact Hsame.
  - (* PcAttachExisting *)
    destruct (sh_tun sh (r_tid (l_req lo))) as [b0|] eqn:Hb0; [|exact Hsame].
    destruct (refetch_existing rv || N.eqb (sh_id sh (r_tid (l_req lo))) (l_gen lo)); cbn [snd]; [|exact Hsame].
    apply (Hput b0); [reflexivity|]. unfold wire. destruct (existing d (l_req lo)); reflexivity.
  - (* PcAttach *)
    destruct (is_listen d (l_conn lo) (l_req lo)).
    + destruct (sh_tun sh (r_tid (l_req lo))) as [b0|] eqn:Hb0.
      * destruct (source_reattach rv); cbn [snd]; [|exact Hsame]. apply (Hput b0); reflexivity.
      * cbn [snd]. apply Hreg. reflexivity.
    + destruct (sh_tun sh (r_tid (l_req lo))) as [b0|] eqn:Hb0; [|exact Hsame].
      destruct (late_agree rv && negb (N.eqb (b_mid b0) (r_mid (l_req lo)))); cbn [snd]; [exact Hsame|].
      apply (Hput b0); reflexivity.
  - (* PcEnd *)
    split; [exact Hg|]. intros b Hb Hi. cbn [sh_tun sh_id] in *. unfold upd in Hb.
    destruct (N.eqb t (r_tid (l_req lo))); [discriminate | apply Hc; assumption].
Qed.

Lemma lo_inv_mono :
  forall d sh sh' lo,
    (forall g t m, claim g t m sh -> claim g t m sh') -> lo_inv d sh lo -> lo_inv d sh' lo.
Proof.
  intros d sh sh' lo Hm H. unfold lo_inv in *. destruct (l_pc lo); try exact H.
  destruct H as [Hr [Hv Hc]]. split; [exact Hr|]. split; [exact Hv | apply Hm; exact Hc].
Qed.

Lemma rstep_inv :
  forall d lo sh, sh_inv sh -> lo_inv d sh lo ->
    sh_inv (snd (rstep fixed_variant d lo sh)) /\ lo_inv d (snd (rstep fixed_variant d lo sh)) (fst (rstep fixed_variant d lo sh)).
Proof.
  intros d lo sh Hsh Hlo. pose proof Hsh as [Hh [Hl Hid]]. unfold rstep.
  destruct (l_pc lo) eqn:Hpc.
  - (* PcLookup *)
    destruct (c_registered (l_conn lo)) eqn:Hreg; cbn [negb]; [|split; [exact Hsh | exact I]].
    destruct (validate current d (c_client (l_conn lo)) (l_req lo)) eqn:Hv; cbn [negb]; [|split; [exact Hsh | exact I]].
    destruct (sh_tun sh (r_tid (l_req lo))) as [b|] eqn:Hb.
    + destruct (N.eqb (b_mid b) (r_mid (l_req lo))) eqn:Hm; cbn [fst snd]; [|split; [exact Hsh | exact I]].
      split; [exact Hsh|]. unfold lo_inv. cbn [set_pc_gen l_pc l_conn l_req l_gen].
      split; [exact Hreg|]. split; [exact Hv|]. split.
      * apply Hid. rewrite Hb. discriminate.
      * intros b1 Hb1 _. rewrite Hb in Hb1. injection Hb1 as <-. apply N.eqb_eq. exact Hm.
    + cbn [fst snd]. split; [exact Hsh|]. unfold lo_inv. cbn [set_pc l_pc l_conn l_req]. split; assumption.
  - (* PcAttachExisting *)
    unfold lo_inv in Hlo. rewrite Hpc in Hlo. destruct Hlo as [Hreg [Hv [Hg Hc]]].
    pose proof (validate_current_entitled d (l_conn lo) (l_req lo) Hreg Hv) as Hok.
    destruct (sh_tun sh (r_tid (l_req lo))) as [b|] eqn:Hb; [|split; [exact Hsh | exact I]].
    cbn [fixed_variant refetch_existing orb].
    destruct (N.eqb (sh_id sh (r_tid (l_req lo))) (l_gen lo)) eqn:Hi; cbn [fst snd]; [|split; [exact Hsh | exact I]].
    apply N.eqb_eq in Hi. rewrite (Hc b eq_refl Hi), N.eqb_refl, Hok. cbn [andb].
    split; [|exact I].
    apply (sh_inv_put sh _ b); [exact Hsh | exact Hb |].
    intros x Hx. unfold wire in Hx. destruct (existing d (l_req lo)); cbn [b_src b_tgt] in Hx;
      destruct Hx as [Hx | Hx];
      first [ injection Hx as <-; left; reflexivity
            | right; exists b; split; [exact Hb | (left; exact Hx) || (right; exact Hx)] ].
  - (* PcAttach *)
    unfold lo_inv in Hlo. rewrite Hpc in Hlo. destruct Hlo as [Hreg Hv].
    pose proof (validate_current_entitled d (l_conn lo) (l_req lo) Hreg Hv) as Hok.
    destruct (is_listen d (l_conn lo) (l_req lo)).
    + destruct (sh_tun sh (r_tid (l_req lo))) as [b|] eqn:Hb; cbn [fixed_variant source_reattach fst snd].
      * split; [exact Hsh | exact I].
      * rewrite Hok. split; [|exact I].
        apply sh_inv_register; [exact Hsh | exact Hb |].
        intros x [Hx | Hx]; cbn [b_src b_tgt] in Hx; [injection Hx as <-; reflexivity | discriminate].
    + destruct (sh_tun sh (r_tid (l_req lo))) as [b|] eqn:Hb; cbn [fst snd]; [|split; [exact Hsh | exact I]].
      cbn [fixed_variant late_agree andb].
      destruct (N.eqb (b_mid b) (r_mid (l_req lo))) eqn:Hm; cbn [negb fst snd]; [|split; [exact Hsh | exact I]].
      rewrite Hok. cbn [andb]. split; [|exact I].
      apply (sh_inv_put sh _ b); [exact Hsh | exact Hb |].
      intros x [Hx | Hx]; cbn [b_src b_tgt] in Hx.
      * right. exists b. split; [exact Hb | left; exact Hx].
      * injection Hx as <-. left. reflexivity.
  - (* PcEnd *) cbn [fst snd]. split; [apply sh_inv_end; exact Hsh | exact I].
  - (* PcDone *) cbn [fst snd]. split; assumption.
Qed.

Lemma sys_step_inv : forall d s i, rinv d s -> rinv d (sys_step shared rlocal (rstep fixed_variant d) s i).
Proof.
  intros d [sh ths] i [Hsh Hths]. unfold sys_step. cbn [fst snd] in *.
  destruct (nth_error ths i) as [lo|] eqn:Hn; [|split; assumption].
  assert (Hlo : lo_inv d sh lo).
  { rewrite Forall_forall in Hths. apply Hths. eapply nth_error_In. exact Hn. }
  pose proof (rstep_inv d lo sh Hsh Hlo) as [H1 H2].
  destruct Hsh as [_ [_ Hid]].
  pose proof (fun g t m => rstep_keeps_claim fixed_variant d lo sh g t m Hid) as Hmono.
  destruct (rstep fixed_variant d lo sh) as [lo' sh']. cbn [fst snd] in *.
  split; [exact H1|]. apply Forall_upd_nth; [|exact H2].
  rewrite Forall_forall in *. intros l Hin. apply (lo_inv_mono d sh sh'); [exact Hmono | apply Hths; exact Hin].
Qed.

(* initial threads: requests at their lookup, and "bridge ends" actions *)
Definition starts (lo : rlocal) : Prop := l_pc lo = PcLookup \/ l_pc lo = PcEnd.

Lemma rinit_inv : forall d ths, Forall starts ths -> rinv d (rinit ths).
Proof.
  intros d ths H. split.
  - split; [|split].
    + intros cr t [b [Hb _]]. cbn in Hb. discriminate.
    + intros e He. cbn in He. contradiction.
    + intros t Hne. cbn in Hne. contradiction Hne. reflexivity.
  - cbn [rinit snd fst]. rewrite Forall_forall in *. intros lo Hin. unfold lo_inv.
    destruct (H lo Hin) as [-> | ->]; exact I.
Qed.

(* ALL schedules of ANY number of concurrent requests and bridge endings: whoever is wired into a REGISTERED bridge got there
   through an attachment that was entitled to THAT bridge's mapping — an attach uses the bridge object that passed the
   agreement test at lookup, or re-tests *)
Lemma race_attach_implies_entitled :
  forall d ths sched cr t,
    Forall starts ths ->
    rholds (fst (rrun fixed_variant d (rinit ths) sched)) cr t ->
    In (cr, t, true) (sh_log (fst (rrun fixed_variant d (rinit ths) sched))).
Proof.
  intros d ths sched cr t Hths H.
  pose proof (inv_all_schedules shared rlocal (rstep fixed_variant d) (rinv d) (sys_step_inv d) sched (rinit ths) (rinit_inv d ths Hths))
    as [[Hh [Hl _]] _].
  unfold rrun in H. specialize (Hh cr t H).
  apply in_map_iff in Hh. destruct Hh as [[k ok] [Hk Hin]]. cbn [fst] in Hk. subst k.
  specialize (Hl _ Hin). cbn [snd] in Hl. subst ok. exact Hin.
Qed.

Lemma race_log_all_entitled :
  forall d ths sched, Forall starts ths ->
    forall e, In e (sh_log (fst (rrun fixed_variant d (rinit ths) sched))) -> snd e = true.
Proof.
  intros d ths sched Hths.
  pose proof (inv_all_schedules shared rlocal (rstep fixed_variant d) (rinv d) (sys_step_inv d) sched (rinit ths) (rinit_inv d ths Hths))
    as [[_ [Hl _]] _].
  exact Hl.
Qed.

(* a bridge OBJECT never changes its mapping, whatever the variant and the schedule: while object g is registered under t it
   belongs to the mapping it was created for *)
Definition fresh_ids (sh : shared) : Prop := forall t, sh_tun sh t <> None -> sh_id sh t < sh_next sh.

Lemma rstep_fresh : forall rv d lo sh, fresh_ids sh -> fresh_ids (snd (rstep rv d lo sh)).
Proof.
  intros rv d lo sh Hid.
  assert (Hput : forall b0 bn e, sh_tun sh (r_tid (l_req lo)) = Some b0 -> fresh_ids (put sh (r_tid (l_req lo)) bn e)).
  { intros b0 bn e Hb0 t Hne. cbn [put sh_tun sh_id sh_next] in *. unfold upd in Hne.
    destruct (N.eqb t (r_tid (l_req lo))) eqn:Ht; [apply N.eqb_eq in Ht; subst t; apply Hid; rewrite Hb0; discriminate | apply Hid; exact Hne]. }
  unfold rstep. destruct (l_pc lo); cbn [snd]; try exact Hid.
  - destruct (negb (c_registered (l_conn lo))); [exact Hid|].
    destruct (negb (validate current d (c_client (l_conn lo)) (l_req lo))); [exact Hid|].
    destruct (sh_tun sh (r_tid (l_req lo))) as [b0|]; [|exact Hid].
    destruct (N.eqb (b_mid b0) (r_mid (l_req lo))); exact Hid.
  - destruct (sh_tun sh (r_tid (l_req lo))) as [b0|] eqn:Hb0; [|exact Hid].
    destruct (refetch_existing rv || N.eqb (sh_id sh (r_tid (l_req lo))) (l_gen lo)); cbn [snd]; [apply (Hput b0); reflexivity | exact Hid].
  - destruct (is_listen d (l_conn lo) (l_req lo)).
    + destruct (sh_tun sh (r_tid (l_req lo))) as [b0|] eqn:Hb0.
      * destruct (source_reattach rv); cbn [snd]; [apply (Hput b0); reflexivity | exact Hid].
      * cbn [snd]. intros t Hne. cbn [register sh_tun sh_id sh_next] in *. unfold upd in Hne.
        destruct (N.eqb t (r_tid (l_req lo))); [lia | specialize (Hid t Hne); lia].
    + destruct (sh_tun sh (r_tid (l_req lo))) as [b0|] eqn:Hb0; [|exact Hid].
      destruct (late_agree rv && negb (N.eqb (b_mid b0) (r_mid (l_req lo)))); cbn [snd]; [exact Hid | apply (Hput b0); reflexivity].
  - intros t Hne. cbn [sh_tun sh_id sh_next] in *. unfold upd in Hne.
    destruct (N.eqb t (r_tid (l_req lo))); [contradiction Hne; reflexivity | apply Hid; exact Hne].
Qed.

Lemma race_bridge_mapping_stable :
  forall rv d sched s g t m,
    fresh_ids (fst s) -> claim g t m (fst s) ->
    claim g t m (fst (rrun rv d s sched)).
Proof.
  intros rv d sched s g t m Hf Hc.
  assert (H : fresh_ids (fst (rrun rv d s sched)) /\ claim g t m (fst (rrun rv d s sched))).
  { apply (inv_all_schedules shared rlocal (rstep rv d) (fun s => fresh_ids (fst s) /\ claim g t m (fst s))); [|split; assumption].
    intros [sh ths] i [Hf' Hc']. unfold sys_step. cbn [fst snd] in *.
    destruct (nth_error ths i) as [lo|]; [|split; assumption].
    pose proof (rstep_fresh rv d lo sh Hf') as H1.
    pose proof (rstep_keeps_claim rv d lo sh g t m Hf' Hc') as H2.
    destruct (rstep rv d lo sh) as [lo' sh']. cbn [fst snd] in *. split; assumption. }
  exact (proj2 H).
Qed.

(* ---- witnesses -------------------------------------------------------------------------------------------- *)
Definition race_A : rlocal := request_thread 1 ex_src (ex_req9 1 101).                                   (* listening client of mapping 1 *)
Definition race_B_target : rlocal := request_thread 2 ex_x (ex_req9 2 102).                              (* target client of mapping 2 *)
Definition race_B_listen : rlocal := request_thread 2 {| c_registered := true; c_client := 13 |} (ex_req9 2 102). (* listening client of mapping 2 *)
(* B looks up (no bridge), A looks up and creates bridge(9, mapping 1), B attaches *)
Definition race_sched : list nat := [1; 0; 0; 1]%nat.

(* the tree with only the first C04 repairs: mapping 2's target client ends up as target of mapping 1's tunnel *)
Lemma head_race_refuted :
  let s := rrun head_variant ex_db2 (rinit [race_A; race_B_target]) race_sched in
  sh_tun (fst s) 9 = Some {| b_mid := 1; b_src := Some 1; b_tgt := Some 2 |} /\ In (2, 9, false) (sh_log (fst s)).
Proof. cbv zeta. split; vm_compute; [reflexivity | left; reflexivity]. Qed.

(* with the late agreement test the same schedule leaves B out, and in the other order A is told "already exists" *)
Lemma fixed_race_witness :
  sh_tun (fst (rrun fixed_variant ex_db2 (rinit [race_A; race_B_target]) race_sched)) 9 = Some {| b_mid := 1; b_src := Some 1; b_tgt := None |} /\
  sh_log (fst (rrun fixed_variant ex_db2 (rinit [race_A; race_B_target]) race_sched)) = [(1, 9, true)] /\
  sh_tun (fst (rrun fixed_variant ex_db2 (rinit [race_A; race_B_listen]) [1; 1; 0; 0]%nat)) 9 = Some {| b_mid := 2; b_src := Some 2; b_tgt := None |} /\
  (* same mapping: the early target of mapping 1 is attached once the listening client has created the tunnel *)
  sh_tun (fst (rrun fixed_variant ex_db2 (rinit [race_A; request_thread 2 ex_tgt (ex_req9 1 101)]) race_sched)) 9
    = Some {| b_mid := 1; b_src := Some 1; b_tgt := Some 2 |}.
Proof. repeat split; vm_compute; reflexivity. Qed.

(* a startSourceBridge that re-attaches to an already registered bridge hands mapping 1's tunnel to mapping 2's listener *)
Lemma source_reattach_refuted :
  let s := rrun {| late_agree := true; source_reattach := true; refetch_existing := false |} ex_db2 (rinit [race_A; race_B_listen]) race_sched in
  sh_tun (fst s) 9 = Some {| b_mid := 1; b_src := Some 2; b_tgt := None |} /\ In (2, 9, false) (sh_log (fst s)).
Proof. cbv zeta. split; vm_compute; [reflexivity | left; reflexivity]. Qed.

(* bridge replacement: mapping 2's listener owns tunnel 9; its target client's request passes the agreement test on THAT bridge
   and is about to attach (ack write); the bridge ends; mapping 1's listener registers a NEW bridge under the same id; the attach
   happens.  Threads: 0 owner (S, mapping 2), 1 B (X, mapping 2), 2 "bridge 9 ends", 3 A (L, mapping 1). *)
Definition repl_threads : list rlocal := [race_B_listen; request_thread 4 ex_x (ex_req9 2 102); end_thread 9; race_A].
Definition repl_sched : list nat := [0; 0; 1; 2; 3; 3; 1]%nat.

(* re-fetching tunnelBridges[T] after the ack write WITHOUT re-testing hands mapping 1's tunnel to mapping 2's client *)
Lemma refetch_existing_refuted :
  let s := rrun {| late_agree := true; source_reattach := false; refetch_existing := true |} ex_db2 (rinit repl_threads) repl_sched in
  sh_tun (fst s) 9 = Some {| b_mid := 1; b_src := Some 1; b_tgt := Some 4 |} /\ In (4, 9, false) (sh_log (fst s)).
Proof. cbv zeta. split; vm_compute; [reflexivity | left; reflexivity]. Qed.

(* attaching to the bridge OBJECT that was tested: the new bridge is left alone (the old object is an orphan) *)
Lemma replacement_witness :
  let s := rrun fixed_variant ex_db2 (rinit repl_threads) repl_sched in
  sh_tun (fst s) 9 = Some {| b_mid := 1; b_src := Some 1; b_tgt := None |} /\
  sh_log (fst s) = [(1, 9, true); (2, 9, true)] /\
  (* without the ending the same request IS attached to its own mapping's bridge *)
  sh_tun (fst (rrun fixed_variant ex_db2 (rinit repl_threads) [0; 0; 1; 1]%nat)) 9 = Some {| b_mid := 2; b_src := Some 2; b_tgt := Some 4 |}.
Proof. cbv zeta. repeat split; vm_compute; reflexivity. Qed.
Close Scope N_scope.

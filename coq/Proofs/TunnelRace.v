(* Proofs/TunnelRace.v — every interleaving of any number of concurrent TunnelOpen requests (Model/TunnelRace.v). *)
From TX Require Import Base.Threads Model.TunnelOpen Proofs.TunnelOpen Model.TunnelRace.
From Coq Require Import List NArith Bool.
Import ListNotations.
Open Scope N_scope.

Definition sh_inv (sh : shared) : Prop :=
  (forall cr t, rholds sh cr t -> In (cr, t) (map fst (sh_log sh))) /\
  (forall e, In e (sh_log sh) -> snd e = true).

Definition lo_inv (d : db) (lo : rlocal) : Prop :=
  l_pc lo = PcAttach -> c_registered (l_conn lo) = true /\ validate current d (c_client (l_conn lo)) (l_req lo) = true.

Definition rinv (d : db) (s : rstate) : Prop := sh_inv (fst s) /\ Forall (lo_inv d) (snd s).

Lemma Forall_upd_nth : forall {A} (P : A -> Prop) i x l, Forall P l -> P x -> Forall P (upd_nth i x l).
Proof.
  intros A P i x l. revert i. induction l as [|h t IH]; intros i Hl Hx; destruct i; cbn; try exact Hl.
  - inversion Hl; subst. constructor; assumption.
  - inversion Hl; subst. constructor; [assumption | apply IH; assumption].
Qed.

(* wiring connection cr into the bridge registered under t, with a log entry that says "entitled" *)
Lemma sh_inv_attach :
  forall sh t b' cr,
    sh_inv sh ->
    (forall x, b_src b' = Some x \/ b_tgt b' = Some x -> x = cr \/ rholds sh x t) ->
    sh_inv {| sh_tun := upd (sh_tun sh) t (Some b'); sh_log := (cr, t, true) :: sh_log sh |}.
Proof.
  intros sh t b' cr [Hh Hl] Hb. split.
  - intros x t' [b0 [Hb0 Hor]]. cbn [sh_tun sh_log map fst] in *. unfold upd in Hb0.
    destruct (N.eqb t' t) eqn:Ht.
    + apply N.eqb_eq in Ht. subst t'. injection Hb0 as <-.
      destruct (Hb x Hor) as [-> | Hold]; [left; reflexivity | right; apply Hh; exact Hold].
    + right. apply Hh. exists b0. split; assumption.
  - intros e [<- | Hin]; [reflexivity | apply Hl; exact Hin].
Qed.

Lemma rstep_inv :
  forall d lo sh, sh_inv sh -> lo_inv d lo ->
    sh_inv (snd (rstep fixed_variant d lo sh)) /\ lo_inv d (fst (rstep fixed_variant d lo sh)).
Proof.
  intros d lo sh Hsh Hlo. unfold rstep.
  destruct (l_pc lo) eqn:Hpc.
  - (* PcLookup *)
    destruct (c_registered (l_conn lo)) eqn:Hreg; cbn [negb]; [|split; [exact Hsh | intro H; discriminate H]].
    destruct (validate current d (c_client (l_conn lo)) (l_req lo)) eqn:Hv; cbn [negb]; [|split; [exact Hsh | intro H; discriminate H]].
    pose proof (validate_current_entitled d (l_conn lo) (l_req lo) Hreg Hv) as Hok.
    destruct (sh_tun sh (r_tid (l_req lo))) as [b|] eqn:Hb.
    + destruct (N.eqb (b_mid b) (r_mid (l_req lo))) eqn:Hm; cbn [fst snd]; [|split; [exact Hsh | intro H; discriminate H]].
      rewrite Hok. cbn [andb]. split; [|intro H; discriminate H].
      apply sh_inv_attach; [exact Hsh|].
      intros x Hx. destruct (existing d (l_req lo)); cbn [b_src b_tgt] in Hx;
        destruct Hx as [Hx | Hx];
        first [ injection Hx as <-; left; reflexivity
              | right; exists b; split; [exact Hb | (left; exact Hx) || (right; exact Hx)] ].
    + cbn [fst snd]. split; [exact Hsh|]. intros _. cbn [set_pc l_conn l_req]. split; assumption.
  - (* PcAttach *)
    destruct (Hlo Hpc) as [Hreg Hv].
    pose proof (validate_current_entitled d (l_conn lo) (l_req lo) Hreg Hv) as Hok.
    destruct (is_listen d (l_conn lo) (l_req lo)).
    + destruct (sh_tun sh (r_tid (l_req lo))) as [b|] eqn:Hb; cbn [fixed_variant source_reattach fst snd].
      * split; [exact Hsh | intro H; discriminate H].
      * rewrite Hok. split; [|intro H; discriminate H].
        apply sh_inv_attach; [exact Hsh|].
        intros x [Hx | Hx]; cbn [b_src b_tgt] in Hx; [injection Hx as <-; left; reflexivity | discriminate].
    + destruct (sh_tun sh (r_tid (l_req lo))) as [b|] eqn:Hb; cbn [fst snd]; [|split; [exact Hsh | intro H; discriminate H]].
      cbn [fixed_variant late_agree andb].
      destruct (N.eqb (b_mid b) (r_mid (l_req lo))) eqn:Hm; cbn [negb fst snd]; [|split; [exact Hsh | intro H; discriminate H]].
      rewrite Hok. cbn [andb]. split; [|intro H; discriminate H].
      apply sh_inv_attach; [exact Hsh|].
      intros x [Hx | Hx]; cbn [b_src b_tgt] in Hx.
      * right. exists b. split; [exact Hb | left; exact Hx].
      * injection Hx as <-. left. reflexivity.
  - (* PcDone *) cbn [fst snd]. split; assumption.
Qed.

Lemma sys_step_inv : forall d s i, rinv d s -> rinv d (sys_step shared rlocal (rstep fixed_variant d) s i).
Proof.
  intros d [sh ths] i [Hsh Hths]. unfold sys_step. cbn [fst snd] in *.
  destruct (nth_error ths i) as [lo|] eqn:Hn; [|split; assumption].
  assert (Hlo : lo_inv d lo).
  { rewrite Forall_forall in Hths. apply Hths. eapply nth_error_In. exact Hn. }
  pose proof (rstep_inv d lo sh Hsh Hlo) as [H1 H2].
  destruct (rstep fixed_variant d lo sh) as [lo' sh']. cbn [fst snd] in *.
  split; [exact H1 | apply Forall_upd_nth; assumption].
Qed.

Lemma rinit_inv : forall d ths, Forall (fun lo => l_pc lo = PcLookup) ths -> rinv d (rinit ths).
Proof.
  intros d ths H. split.
  - split.
    + intros cr t [b [Hb _]]. cbn in Hb. discriminate.
    + intros e He. cbn in He. contradiction.
  - cbn [rinit snd]. rewrite Forall_forall in *. intros lo Hin Hpc. rewrite (H lo Hin) in Hpc. discriminate.
Qed.

(* ALL schedules of ANY number of concurrent requests: whoever is wired into a bridge got there through an attachment
   that was entitled to THAT bridge's mapping *)
Lemma race_attach_implies_entitled :
  forall d ths sched cr t,
    Forall (fun lo => l_pc lo = PcLookup) ths ->
    rholds (fst (rrun fixed_variant d (rinit ths) sched)) cr t ->
    In (cr, t, true) (sh_log (fst (rrun fixed_variant d (rinit ths) sched))).
Proof.
  intros d ths sched cr t Hths H.
  pose proof (inv_all_schedules shared rlocal (rstep fixed_variant d) (rinv d) (sys_step_inv d) sched (rinit ths) (rinit_inv d ths Hths))
    as [[Hh Hl] _].
  unfold rrun in H. specialize (Hh cr t H).
  apply in_map_iff in Hh. destruct Hh as [[k ok] [Hk Hin]]. cbn [fst] in Hk. subst k.
  specialize (Hl _ Hin). cbn [snd] in Hl. subst ok. exact Hin.
Qed.

(* a bridge's mapping never changes, whatever the variant and the schedule *)
Lemma rstep_mid_stable :
  forall rv d lo sh t b, sh_tun sh t = Some b ->
    exists b', sh_tun (snd (rstep rv d lo sh)) t = Some b' /\ b_mid b' = b_mid b.
Proof.
  intros rv d lo sh t b Hb.
  assert (Hsame : exists b', sh_tun sh t = Some b' /\ b_mid b' = b_mid b) by (exists b; split; [exact Hb | reflexivity]).
  assert (Hupd : forall b0 bn, sh_tun sh (r_tid (l_req lo)) = Some b0 -> b_mid bn = b_mid b0 ->
            exists b', upd (sh_tun sh) (r_tid (l_req lo)) (Some bn) t = Some b' /\ b_mid b' = b_mid b).
  { intros b0 bn Hb0 Hmid. unfold upd. destruct (N.eqb t (r_tid (l_req lo))) eqn:Ht.
    - apply N.eqb_eq in Ht. subst t. rewrite Hb in Hb0. injection Hb0 as <-. exists bn. split; [reflexivity | exact Hmid].
    - exact Hsame. }
  unfold rstep. destruct (l_pc lo); cbn [snd]; try exact Hsame.
  - destruct (negb (c_registered (l_conn lo))); [exact Hsame|].
    destruct (negb (validate current d (c_client (l_conn lo)) (l_req lo))); [exact Hsame|].
    destruct (sh_tun sh (r_tid (l_req lo))) as [b0|] eqn:Hb0; [|exact Hsame].
    destruct (N.eqb (b_mid b0) (r_mid (l_req lo))); cbn [snd sh_tun]; [|exact Hsame].
    apply (Hupd b0); [reflexivity|]. destruct (existing d (l_req lo)); reflexivity.
  - destruct (is_listen d (l_conn lo) (l_req lo)).
    + destruct (sh_tun sh (r_tid (l_req lo))) as [b0|] eqn:Hb0.
      * destruct (source_reattach rv); cbn [snd sh_tun]; [|exact Hsame]. apply (Hupd b0); reflexivity.
      * cbn [snd sh_tun]. unfold upd. destruct (N.eqb t (r_tid (l_req lo))) eqn:Ht; [|exact Hsame].
        apply N.eqb_eq in Ht. subst t. rewrite Hb in Hb0. discriminate.
    + destruct (sh_tun sh (r_tid (l_req lo))) as [b0|] eqn:Hb0; [|exact Hsame].
      destruct (late_agree rv && negb (N.eqb (b_mid b0) (r_mid (l_req lo)))); cbn [snd sh_tun]; [exact Hsame|].
      apply (Hupd b0); reflexivity.
Qed.

Lemma race_bridge_mapping_stable :
  forall rv d sched s t m,
    (exists b, sh_tun (fst s) t = Some b /\ b_mid b = m) ->
    exists b, sh_tun (fst (rrun rv d s sched)) t = Some b /\ b_mid b = m.
Proof.
  intros rv d sched s t m H.
  apply (inv_all_schedules shared rlocal (rstep rv d) (fun s => exists b, sh_tun (fst s) t = Some b /\ b_mid b = m)); [|exact H].
  intros [sh ths] i [b [Hb Hm]]. unfold sys_step. cbn [fst snd] in *.
  destruct (nth_error ths i) as [lo|]; [|exists b; split; assumption].
  destruct (rstep_mid_stable rv d lo sh t b Hb) as [b' [Hb' Hm']].
  destruct (rstep rv d lo sh) as [lo' sh']. cbn [fst snd] in *. exists b'. split; [exact Hb' | congruence].
Qed.

(* ---- witnesses -------------------------------------------------------------------------------------------- *)
Definition race_A : rlocal := request_thread 1 ex_src (ex_req9 1 101).                                   (* listening client of mapping 1 *)
Definition race_B_target : rlocal := request_thread 2 ex_x (ex_req9 2 102).                              (* target client of mapping 2 *)
Definition race_B_listen : rlocal := request_thread 2 {| c_registered := true; c_client := 13 |} (ex_req9 2 102). (* listening client of mapping 2 *)
(* B looks up (no bridge), A looks up and creates bridge(9, mapping 1), B attaches *)
Definition race_sched : list nat := [1; 0; 0; 1]%nat.

(* the tree with only the first C04 repairs: mapping 2's target client ends up as target of mapping 1's tunnel *)
Lemma head_race_refuted :
  let s := rrun head_variant ex_db2 (rinit [race_A; race_B_target]) race_sched in
  sh_tun (fst s) 9 = Some {| b_mid := 1; b_src := Some 1; b_tgt := Some 2 |} /\ In (2, 9, false) (sh_log (fst s)).
Proof. cbv zeta. split; vm_compute; [reflexivity | left; reflexivity]. Qed.

(* with the late agreement test the same schedule leaves B out, and in the other order A is told "already exists" *)
Lemma fixed_race_witness :
  sh_tun (fst (rrun fixed_variant ex_db2 (rinit [race_A; race_B_target]) race_sched)) 9 = Some {| b_mid := 1; b_src := Some 1; b_tgt := None |} /\
  sh_log (fst (rrun fixed_variant ex_db2 (rinit [race_A; race_B_target]) race_sched)) = [(1, 9, true)] /\
  sh_tun (fst (rrun fixed_variant ex_db2 (rinit [race_A; race_B_listen]) [1; 1; 0; 0]%nat)) 9 = Some {| b_mid := 2; b_src := Some 2; b_tgt := None |} /\
  (* same mapping: the early target of mapping 1 is attached once the listening client has created the tunnel *)
  sh_tun (fst (rrun fixed_variant ex_db2 (rinit [race_A; request_thread 2 ex_tgt (ex_req9 1 101)]) race_sched)) 9
    = Some {| b_mid := 1; b_src := Some 1; b_tgt := Some 2 |}.
Proof. repeat split; vm_compute; reflexivity. Qed.

(* a startSourceBridge that re-attaches to an already registered bridge hands mapping 1's tunnel to mapping 2's listener *)
Lemma source_reattach_refuted :
  let s := rrun {| late_agree := true; source_reattach := true |} ex_db2 (rinit [race_A; race_B_listen]) race_sched in
  sh_tun (fst s) 9 = Some {| b_mid := 1; b_src := Some 2; b_tgt := None |} /\ In (2, 9, false) (sh_log (fst s)).
Proof. cbv zeta. split; vm_compute; [reflexivity | left; reflexivity]. Qed.
Close Scope N_scope.

(* Proofs/ConnState.v — lemmas about Model/ConnState.v (C08). *)
From TX Require Import Model.ConnState.
From Coq Require Import Lia ZArith ZifyN ZifyNat ZifyBool.
Open Scope N_scope.

(* ---------------------------------------------------------------------------------------------
   maps
   --------------------------------------------------------------------------------------------- *)
Lemma upd_same {A} (f : N -> option A) k v : upd f k v k = v.
Proof. unfold upd. rewrite N.eqb_refl. reflexivity. Qed.

Lemma upd_other {A} (f : N -> option A) k k' v : k' <> k -> upd f k v k' = f k'.
Proof. intro H. unfold upd. apply N.eqb_neq in H. rewrite H. reflexivity. Qed.

Lemma upd2_same {A} (f : N -> N -> A) n k v : upd2 f n k v n k = v.
Proof. unfold upd2. rewrite !N.eqb_refl. reflexivity. Qed.

Lemma upd2_other {A} (f : N -> N -> A) n k n' k' v : (n' <> n \/ k' <> k) -> upd2 f n k v n' k' = f n' k'.
Proof.
  intro H. unfold upd2.
  destruct (N.eqb_spec n' n) as [En|En]; destruct (N.eqb_spec k' k) as [Ek|Ek]; cbn; try reflexivity.
  exfalso. destruct H as [H|H]; contradiction.
Qed.

Lemma upd2_cases {A} (f : N -> N -> A) n k n' k' v :
  (n' = n /\ k' = k /\ upd2 f n k v n' k' = v) \/ ((n' <> n \/ k' <> k) /\ upd2 f n k v n' k' = f n' k').
Proof.
  destruct (N.eq_dec n' n) as [En|En]; destruct (N.eq_dec k' k) as [Ek|Ek].
  - left. subst. split; [reflexivity|split; [reflexivity|apply upd2_same]].
  - right. split; [right; exact Ek|apply upd2_other; right; exact Ek].
  - right. split; [left; exact En|apply upd2_other; left; exact En].
  - right. split; [left; exact En|apply upd2_other; left; exact En].
Qed.

Lemma opt_is_true o c : opt_is o c = true <-> o = Some c.
Proof.
  unfold opt_is. destruct o as [c'|]; split; intro H; try discriminate.
  - apply N.eqb_eq in H. subst. reflexivity.
  - injection H as ->. apply N.eqb_refl.
Qed.

(* ---------------------------------------------------------------------------------------------
   the store operations of the repaired code, pointwise
   --------------------------------------------------------------------------------------------- *)
Section Store.
  Variable b : backend.
  Variable ttl : N.
  Notation cur := current_variant.

  Lemma get_state_cur now st c :
    get_state cur b now st c =
    match cs st c with
    | Some i => if alive b now (i_exp i) then GOk i else GAbsent
    | None => GAbsent
    end.
  Proof.
    unfold get_state. destruct (cs st c) as [i|]; [|reflexivity].
    destruct (alive b now (i_exp i)); [|reflexivity].
    cbn. rewrite andb_false_r. reflexivity.
  Qed.

  Lemma idx_get_some now st x c : idx_get b now st x = Some c -> exists e, ci st x = Some (c, e) /\ alive b now e = true.
  Proof.
    unfold idx_get. destruct (ci st x) as [[c' e]|]; [|discriminate].
    destruct (alive b now e) eqn:Ea; [|discriminate].
    intro H. injection H as ->. exists e. split; [reflexivity|exact Ea].
  Qed.

  Lemma unreg_cs v now st c k : cs (store_unregister v b now st c) k = if k =? c then None else cs st k.
  Proof. unfold store_unregister. cbn [cs]. unfold upd. reflexivity. Qed.

  (* the repaired UnregisterConnection touches the client index only where it still names the removed connection *)
  Lemma unreg_ci_cur now st c x :
    ci (store_unregister cur b now st c) x = ci st x \/
    (ci (store_unregister cur b now st c) x = None /\ exists e, ci st x = Some (c, e)).
  Proof.
    unfold store_unregister. cbn [ci v_guard current_variant].
    destruct (get_state cur b now st c) as [i| |]; try (left; reflexivity).
    destruct (i_ctl i && (0 <? i_client i)); [|left; reflexivity].
    destruct (idx_get b now st (i_client i)) as [c'|] eqn:Eg; [|left; reflexivity].
    destruct (N.eqb_spec c' c) as [Ec|Ec]; [|left; reflexivity].
    subst c'. destruct (N.eq_dec x (i_client i)) as [Ex|Ex].
    - subst x. right. split; [apply upd_same|].
      destruct (idx_get_some _ _ _ _ Eg) as [e [He _]]. exists e. exact He.
    - left. apply upd_other. exact Ex.
  Qed.

  Lemma reg_cs n now st c x ctl k :
    cs (store_register ttl n now st c x ctl) k =
    if k =? c then Some {| i_client := x; i_node := n; i_ctl := ctl; i_exp := now + ttl |} else cs st k.
  Proof. unfold store_register. cbn [cs]. unfold upd. reflexivity. Qed.

  Lemma reg_ci n now st c x y :
    ci (store_register ttl n now st c x true) y =
    if (0 <? x) && (y =? x) then Some (c, now + ttl) else ci st y.
  Proof.
    unfold store_register. cbn [ci andb].
    destruct (0 <? x); cbn [andb]; [|reflexivity].
    unfold upd. reflexivity.
  Qed.

  Lemma refresh_cs v now st c k :
    cs (store_refresh v b ttl now st c) k = cs st k \/
    (k = c /\ exists i, cs st c = Some i /\ alive b now (i_exp i) = true /\
       cs (store_refresh v b ttl now st c) k =
       Some {| i_client := i_client i; i_node := i_node i; i_ctl := i_ctl i; i_exp := now + ttl |}).
  Proof.
    unfold store_refresh, get_state.
    destruct (cs st c) as [i|] eqn:Ec; [|left; reflexivity].
    destruct (alive b now (i_exp i)) eqn:Ea; [|left; reflexivity].
    destruct (b_ptr b && negb (v_ptr v)); [left; reflexivity|].
    cbn [cs]. destruct (N.eq_dec k c) as [Ek|Ek].
    - subst k. right. split; [reflexivity|]. exists i. split; [reflexivity|]. split; [exact Ea|]. apply upd_same.
    - left. apply upd_other. exact Ek.
  Qed.

  Lemma refresh_ci v now st c x :
    ci (store_refresh v b ttl now st c) x = ci st x \/
    (exists e, ci st x = Some (c, e) /\ alive b now e = true /\
       ci (store_refresh v b ttl now st c) x = Some (c, now + ttl)).
  Proof.
    unfold store_refresh.
    destruct (get_state v b now st c) as [i| |]; try (left; reflexivity).
    cbn [ci].
    destruct (v_refresh_idx v && i_ctl i && (0 <? i_client i)); [|left; reflexivity].
    destruct (idx_get b now st (i_client i)) as [c'|] eqn:Eg; [|left; reflexivity].
    destruct (N.eqb_spec c' c) as [Ec|Ec]; [|left; reflexivity].
    subst c'. destruct (N.eq_dec x (i_client i)) as [Ex|Ex].
    - subst x. right. destruct (idx_get_some _ _ _ _ Eg) as [e [He Ha]].
      exists e. split; [exact He|]. split; [exact Ha|]. apply upd_same.
    - left. apply upd_other. exact Ex.
  Qed.

  Lemma alive_of_bound now e since : now + ttl <= e + since -> since < ttl -> alive b now e = true.
  Proof. intros H1 H2. unfold alive. destruct (b_incl b); lia. Qed.

  (* ---- "X's record and index name (n, c) and were renewed no longer than `since` ago" ---- *)
  Definition SI (X n c since now : N) (st : store) : Prop :=
    (exists e1, cs st c = Some {| i_client := X; i_node := n; i_ctl := true; i_exp := e1 |} /\ now + ttl <= e1 + since) /\
    (exists e2, ci st X = Some (c, e2) /\ now + ttl <= e2 + since).

  Lemma SI_unregister X n c since now st o :
    o <> c -> SI X n c since now st -> SI X n c since now (store_unregister cur b now st o).
  Proof.
    intros Ho [[e1 [H1 B1]] [e2 [H2 B2]]]. split.
    - exists e1. split; [|exact B1]. rewrite unreg_cs.
      destruct (N.eqb_spec c o) as [E|E]; [congruence|exact H1].
    - exists e2. split; [|exact B2].
      destruct (unreg_ci_cur now st o X) as [E|[_ [e E]]]; [rewrite E; exact H2|].
      rewrite H2 in E. injection E as E _. congruence.
  Qed.

  Lemma SI_register X n c since now st n' c' Y :
    c' <> c -> Y <> X -> SI X n c since now st -> SI X n c since now (store_register ttl n' now st c' Y true).
  Proof.
    intros Hc HY [[e1 [H1 B1]] [e2 [H2 B2]]]. split.
    - exists e1. split; [|exact B1]. rewrite reg_cs.
      destruct (N.eqb_spec c c') as [E|E]; [congruence|exact H1].
    - exists e2. split; [|exact B2]. rewrite reg_ci.
      destruct (N.eqb_spec X Y) as [E|E]; [congruence|]. rewrite andb_false_r. exact H2.
  Qed.

  Lemma SI_refresh_other X n c since now st c' :
    c' <> c -> SI X n c since now st -> SI X n c since now (store_refresh cur b ttl now st c').
  Proof.
    intros Hc [[e1 [H1 B1]] [e2 [H2 B2]]]. split.
    - exists e1. split; [|exact B1].
      destruct (refresh_cs cur now st c' c) as [E|[E _]]; [rewrite E; exact H1|congruence].
    - exists e2. split; [|exact B2].
      destruct (refresh_ci cur now st c' X) as [E|[e [E _]]]; [rewrite E; exact H2|].
      rewrite H2 in E. injection E as E _. congruence.
  Qed.

  Lemma SI_refresh_self X n c since now st :
    X <> 0 -> since < ttl -> SI X n c since now st -> SI X n c 0 now (store_refresh cur b ttl now st c).
  Proof.
    intros HX Hs [[e1 [H1 B1]] [e2 [H2 B2]]].
    assert (A1 : alive b now e1 = true) by (apply (alive_of_bound now e1 since); assumption).
    assert (A2 : alive b now e2 = true) by (apply (alive_of_bound now e2 since); assumption).
    unfold store_refresh. rewrite get_state_cur, H1. cbn [i_exp]. rewrite A1.
    cbn [i_client i_node i_ctl v_refresh_idx current_variant andb].
    assert (HX' : (0 <? X) = true) by lia. rewrite HX'.
    unfold idx_get. rewrite H2, A2, N.eqb_refl.
    split.
    - exists (now + ttl). cbn [cs]. rewrite upd_same. split; [reflexivity|lia].
    - exists (now + ttl). cbn [ci]. rewrite upd_same. split; [reflexivity|lia].
  Qed.

  Lemma SI_tick X n c since now st d : SI X n c since now st -> SI X n c (since + d) (now + d) st.
  Proof.
    intros [[e1 [H1 B1]] [e2 [H2 B2]]]. split.
    - exists e1. split; [exact H1|lia].
    - exists e2. split; [exact H2|lia].
  Qed.

  Lemma SI_find X n c since now st :
    X <> 0 -> since < ttl -> SI X n c since now st -> store_find cur b now st X = Found n c.
  Proof.
    intros HX Hs [[e1 [H1 B1]] [e2 [H2 B2]]].
    assert (A1 : alive b now e1 = true) by (apply (alive_of_bound now e1 since); assumption).
    assert (A2 : alive b now e2 = true) by (apply (alive_of_bound now e2 since); assumption).
    unfold store_find. apply N.eqb_neq in HX. rewrite HX.
    unfold idx_get. rewrite H2, A2. rewrite get_state_cur, H1. cbn [i_exp]. rewrite A1. reflexivity.
  Qed.

  Lemma SI_after_register X n c now st :
    X <> 0 -> SI X n c 0 now (store_register ttl n now st c X true).
  Proof.
    intro HX. split.
    - exists (now + ttl). rewrite reg_cs, N.eqb_refl. split; [reflexivity|lia].
    - exists (now + ttl). rewrite reg_ci, N.eqb_refl.
      assert (HX' : (0 <? X) = true) by lia. rewrite HX'. split; [reflexivity|lia].
  Qed.
End Store.

(* ---------------------------------------------------------------------------------------------
   the cluster
   --------------------------------------------------------------------------------------------- *)
Section World.
  Variable b : backend.
  Variable ttl : N.
  Notation cur := current_variant.

  (* registry consistency: an index entry names a registered connection of that client *)
  Definition LpR (ctl idx : N -> N -> option N) : Prop := forall n y o, idx n y = Some o -> ctl n o = Some y.
  Definition Lp (w : world) : Prop := LpR (w_ctl w) (w_idx w).

  Lemma reg_remove_ctl n o ctl idx n' k :
    fst (reg_remove n o ctl idx) n' k = if (n' =? n) && (k =? o) then None else ctl n' k.
  Proof.
    unfold reg_remove. destruct (ctl n o) as [y|] eqn:E; cbn [fst].
    - unfold upd2. reflexivity.
    - destruct (N.eqb_spec n' n) as [En|En]; destruct (N.eqb_spec k o) as [Ek|Ek]; cbn; try reflexivity.
      subst. exact E.
  Qed.

  Lemma reg_remove_idx_sub n o ctl idx n' y o' :
    snd (reg_remove n o ctl idx) n' y = Some o' -> idx n' y = Some o'.
  Proof.
    unfold reg_remove. destruct (ctl n o) as [y0|]; cbn [snd]; [|auto].
    destruct (opt_is (idx n y0) o); [|auto].
    destruct (upd2_cases idx n y0 n' y None) as [[_ [_ E]]|[_ E]]; rewrite E; [discriminate|auto].
  Qed.

  Lemma LpR_remove n o ctl idx : LpR ctl idx -> LpR (fst (reg_remove n o ctl idx)) (snd (reg_remove n o ctl idx)).
  Proof.
    intros H n' y o' Hi.
    pose proof (reg_remove_idx_sub _ _ _ _ _ _ _ Hi) as Hi0.
    pose proof (H _ _ _ Hi0) as Hc.
    rewrite reg_remove_ctl.
    destruct (N.eqb_spec n' n) as [En|En]; destruct (N.eqb_spec o' o) as [Eo|Eo]; cbn [andb]; try exact Hc.
    subst n' o'. exfalso.
    unfold reg_remove in Hi. rewrite Hc in Hi. cbn [snd] in Hi.
    assert (Ht : opt_is (idx n y) o = true) by (apply opt_is_true; exact Hi0).
    rewrite Ht, upd2_same in Hi. discriminate.
  Qed.

  (* ReconcileIndex *)
  Definition recon (w : world) (n c x : N) : N -> N -> option N :=
    match w_ctl w n c with
    | Some y => if (negb (y =? x)) && opt_is (w_idx w n y) c then upd2 (w_idx w) n y None else w_idx w
    | None => w_idx w
    end.

  Lemma recon_sub w n c x n' y o : recon w n c x n' y = Some o -> w_idx w n' y = Some o.
  Proof.
    unfold recon. destruct (w_ctl w n c) as [y0|]; [|auto].
    destruct (negb (y0 =? x) && opt_is (w_idx w n y0) c); [|auto].
    destruct (upd2_cases (w_idx w) n y0 n' y None) as [[_ [_ E]]|[_ E]]; rewrite E; [discriminate|auto].
  Qed.

  (* after ReconcileIndex no entry under another id names c *)
  Lemma recon_clean w n c x y : Lp w -> y <> x -> recon w n c x n y <> Some c.
  Proof.
    intros HL Hy Hr. pose proof (recon_sub _ _ _ _ _ _ _ Hr) as Hi. pose proof (HL _ _ _ Hi) as Hc.
    unfold recon in Hr. rewrite Hc in Hr.
    apply N.eqb_neq in Hy. rewrite Hy in Hr. cbn [negb andb] in Hr.
    assert (Ht : opt_is (w_idx w n y) c = true) by (apply opt_is_true; exact Hi).
    rewrite Ht, upd2_same in Hr. discriminate.
  Qed.

  Definition fin (v : variant) (w : world) (n c x : N) (st1 : store) (ctl1 idx2 : N -> N -> option N)
             (cn1 : N -> N -> bool) : world :=
    {| w_now := w_now w; w_st := store_register ttl n (w_now w) st1 c x true; w_conns := cn1;
       w_ctl := upd2 ctl1 n c (Some x); w_idx := upd2 idx2 n x (Some c) |}.

  Lemma authok_shape v w n c x :
    w_conns w n c = true -> x <> 0 ->
    exists st1 ctl1 idx2 cn1,
      step v b ttl w (AuthOK n c x) = fin v w n c x st1 ctl1 idx2 cn1 /\
      ((st1 = w_st w /\ ctl1 = w_ctl w /\ idx2 = recon w n c x /\
        (recon w n c x n x = None \/ recon w n c x n x = Some c))
       \/ exists o, recon w n c x n x = Some o /\ o <> c /\
                    st1 = store_unregister v b (w_now w) (w_st w) o /\
                    ctl1 = fst (reg_remove n o (w_ctl w) (recon w n c x)) /\
                    idx2 = snd (reg_remove n o (w_ctl w) (recon w n c x))).
  Proof.
    intros Hc Hx. unfold step. rewrite Hc. apply N.eqb_neq in Hx. rewrite Hx. cbn [negb orb].
    fold (recon w n c x).
    destruct (recon w n c x n x) as [o|] eqn:Er.
    - destruct (N.eqb_spec o c) as [Eo|Eo].
      + exists (w_st w), (w_ctl w), (recon w n c x), (w_conns w). split; [reflexivity|]. left.
        split; [reflexivity|]. split; [reflexivity|]. split; [reflexivity|]. right. subst. reflexivity.
      + destruct (reg_remove n o (w_ctl w) (recon w n c x)) as [ctl' idx'] eqn:Err.
        exists (store_unregister v b (w_now w) (w_st w) o), ctl', idx', (reg_close n o (w_ctl w) (w_conns w)). split; [reflexivity|]. right.
        exists o. split; [reflexivity|]. split; [exact Eo|]. split; [reflexivity|]. rewrite Err. split; reflexivity.
    - exists (w_st w), (w_ctl w), (recon w n c x), (w_conns w). split; [reflexivity|]. left.
      split; [reflexivity|]. split; [reflexivity|]. split; [reflexivity|]. left. reflexivity.
  Qed.

  Lemma authok_noop v w n c x : (w_conns w n c = false \/ x = 0) -> step v b ttl w (AuthOK n c x) = w.
  Proof.
    intros [H|H]; unfold step.
    - rewrite H. reflexivity.
    - subst x. rewrite N.eqb_refl, orb_true_r. reflexivity.
  Qed.

  Lemma Lp_step v w e : Lp w -> Lp (step v b ttl w e).
  Proof.
    intro HL. destruct e as [n c|n c x|n c|n x c|n c|n c|d]; try exact HL.
    - (* AuthOK *)
      destruct (w_conns w n c) eqn:Hc; [|rewrite authok_noop; [exact HL|left; exact Hc]].
      destruct (N.eq_dec x 0) as [Hx|Hx]; [rewrite authok_noop; [exact HL|right; exact Hx]|].
      destruct (authok_shape v w n c x Hc Hx) as [st1 [ctl1 [idx2 [cn1 [Es Hsh]]]]]. rewrite Es.
      assert (H1 : LpR ctl1 idx2 /\ ctl1 n c = w_ctl w n c /\
                   (forall n' y o, idx2 n' y = Some o -> recon w n c x n' y = Some o)).
      { destruct Hsh as [[_ [E2 [E3 _]]]|[o [Ho [Hoc [_ [E2 E3]]]]]]; subst ctl1 idx2.
        - split; [|split; [reflexivity|auto]].
          intros n' y o Hi. apply HL. apply (recon_sub _ _ _ _ _ _ _ Hi).
        - split; [|split].
          + apply LpR_remove. intros n' y o' Hi. apply HL. apply (recon_sub _ _ _ _ _ _ _ Hi).
          + rewrite reg_remove_ctl. destruct (N.eqb_spec c o) as [E|E]; [congruence|]. rewrite andb_false_r. reflexivity.
          + intros n' y o'. apply reg_remove_idx_sub. }
      destruct H1 as [HL1 [Hcc Hsub]].
      intros n' y o Hi. unfold fin in *. cbn [w_ctl w_idx] in *.
      destruct (upd2_cases idx2 n x n' y (Some c)) as [[En [Ey E]]|[Hne E]]; rewrite E in Hi.
      + injection Hi as <-. subst n' y. apply upd2_same.
      + pose proof (HL1 _ _ _ Hi) as Hc1.
        destruct (upd2_cases ctl1 n c n' o (Some x)) as [[En [Eo E']]|[_ E']]; rewrite E'; [|exact Hc1].
        subst n' o. exfalso.
        assert (Hy : y <> x) by (destruct Hne as [Hne|Hne]; [congruence|exact Hne]).
        apply (recon_clean w n c x y HL Hy). apply Hsub. exact Hi.
    - (* Kick *)
      unfold step. destruct (w_idx w n x) as [o|]; [|exact HL].
      destruct (o =? c); [exact HL|].
      destruct (reg_remove n o (w_ctl w) (w_idx w)) as [ctl' idx'] eqn:Err.
      unfold Lp. cbn [w_ctl w_idx].
      pose proof (LpR_remove n o (w_ctl w) (w_idx w) HL) as HR. rewrite Err in HR. cbn [fst snd] in HR. exact HR.
    - (* Heartbeat *)
      unfold step. destruct (w_ctl w n c); [|exact HL]. destruct (v_hb v); exact HL.
    - (* Close *)
      unfold step.
      destruct (reg_remove n c (w_ctl w) (w_idx w)) as [ctl' idx'] eqn:Err.
      unfold Lp. cbn [w_ctl w_idx].
      pose proof (LpR_remove n c (w_ctl w) (w_idx w) HL) as HR. rewrite Err in HR. cbn [fst snd] in HR. exact HR.
  Qed.

  Lemma Lp_init : Lp init.
  Proof. intros n y o H. discriminate. Qed.

  Lemma run_snoc v w h e : run v b ttl w (h ++ [e]) = step v b ttl (run v b ttl w h) e.
  Proof. unfold run. rewrite fold_left_app. reflexivity. Qed.

  Lemma Lp_run v h w : Lp w -> Lp (run v b ttl w h).
  Proof.
    revert w. induction h as [|e h IH]; intros w HL; [exact HL|].
    cbn. apply IH. apply Lp_step. exact HL.
  Qed.

  (* connection c is known to node n only (connection ids are unique across the cluster) *)
  Definition Q (n c : N) (w : world) : Prop := forall n', n' <> n -> w_ctl w n' c = None.

  Lemma ctl_step_other v w e n' c :
    (forall m x, e = AuthOK m c x -> m <> n') ->
    w_ctl w n' c = None -> w_ctl (step v b ttl w e) n' c = None.
  Proof.
    intros Hown H0. destruct e as [n1 c1|n1 c1 x|n1 c1|n1 x c1|n1 c1|n1 c1|d]; try exact H0.
    - destruct (w_conns w n1 c1) eqn:Hc; [|rewrite authok_noop; [exact H0|left; exact Hc]].
      destruct (N.eq_dec x 0) as [Hx|Hx]; [rewrite authok_noop; [exact H0|right; exact Hx]|].
      destruct (authok_shape v w n1 c1 x Hc Hx) as [st1 [ctl1 [idx2 [cn1 [Es Hsh]]]]]. rewrite Es.
      unfold fin. cbn [w_ctl].
      destruct (upd2_cases ctl1 n1 c1 n' c (Some x)) as [[En [Ec _]]|[_ E]].
      + exfalso. subst. apply (Hown n1 x); reflexivity.
      + rewrite E. destruct Hsh as [[_ [E2 _]]|[o [_ [_ [_ [E2 _]]]]]]; subst ctl1; [exact H0|].
        rewrite reg_remove_ctl. destruct ((n' =? n1) && (c =? o)); [reflexivity|exact H0].
    - unfold step. destruct (w_idx w n1 x) as [o|]; [|exact H0]. destruct (o =? c1); [exact H0|].
      destruct (reg_remove n1 o (w_ctl w) (w_idx w)) as [ctl' idx'] eqn:Err. cbn [w_ctl].
      pose proof (reg_remove_ctl n1 o (w_ctl w) (w_idx w) n' c) as HR. rewrite Err in HR. cbn [fst] in HR. rewrite HR.
      destruct ((n' =? n1) && (c =? o)); [reflexivity|exact H0].
    - unfold step. destruct (w_ctl w n1 c1); [|exact H0]. destruct (v_hb v); exact H0.
    - unfold step. destruct (reg_remove n1 c1 (w_ctl w) (w_idx w)) as [ctl' idx'] eqn:Err. cbn [w_ctl].
      pose proof (reg_remove_ctl n1 c1 (w_ctl w) (w_idx w) n' c) as HR. rewrite Err in HR. cbn [fst] in HR. rewrite HR.
      destruct ((n' =? n1) && (c =? c1)); [reflexivity|exact H0].
  Qed.

  Lemma Q_run v n c h w :
    (forall m x, In (AuthOK m c x) h -> m = n) -> Q n c w -> Q n c (run v b ttl w h).
  Proof.
    revert w. induction h as [|e h IH]; intros w Hown HQ; [exact HQ|].
    cbn. apply IH.
    - intros m x Hin. apply (Hown m x). right. exact Hin.
    - intros n' Hn'. apply ctl_step_other; [|apply HQ; exact Hn'].
      intros m x He Hm. subst. apply Hn'. apply (Hown n' x). left. reflexivity.
  Qed.

  Lemma Q_init n c : Q n c init.
  Proof. intros n' _. reflexivity. Qed.
End World.

(* ---------------------------------------------------------------------------------------------
   lookup_current
   --------------------------------------------------------------------------------------------- *)
Section Current.
  Variable b : backend.
  Variable ttl : N.
  Notation cur := current_variant.
  Variables X n c : N.
  Hypothesis HX : X <> 0.

  Definition holds (since : N) (w : world) : Prop :=
    SI ttl X n c since (w_now w) (w_st w) /\ w_ctl w n c = Some X /\ Lp w /\ Q n c w.

  (* a registered connection other than c on any node *)
  Lemma other_conn w n' y o : holds 0 w \/ (exists s, holds s w) -> w_idx w n' y = Some o -> y <> X -> o <> c.
  Proof.
    intros Hh Hi Hy Eo. subst o.
    assert (H : exists s, holds s w) by (destruct Hh as [H|H]; [exists 0; exact H|exact H]).
    destruct H as [s [_ [Hc [HL HQ]]]].
    pose proof (HL _ _ _ Hi) as Hc'.
    destruct (N.eq_dec n' n) as [En|En].
    - subst n'. rewrite Hc in Hc'. injection Hc' as E. congruence.
    - rewrite (HQ n' En) in Hc'. discriminate.
  Qed.

  Definition since_after (e : event) (since : N) : N :=
    match e with
    | Tick d => since + d
    | Heartbeat n' c' => if (n' =? n) && (c' =? c) then 0 else since
    | _ => since
    end.

  Lemma holds_step w e since :
    holds since w -> disturbs X c e = false ->
    (forall n' c', e = Heartbeat n' c' -> (n' =? n) && (c' =? c) = true -> since < ttl) ->
    holds (since_after e since) (step cur b ttl w e).
  Proof.
    intros Hh Hd Hhb.
    assert (Hh' : holds 0 w \/ (exists s, holds s w)) by (right; exists since; exact Hh).
    destruct Hh as [HS [Hc [HL HQ]]].
    assert (HL' : Lp (step cur b ttl w e)) by (apply Lp_step; exact HL).
    assert (HQ' : Q n c (step cur b ttl w e)).
    { intros n' Hn'. apply ctl_step_other; [|apply HQ; exact Hn'].
      intros m x He _. subst e. cbn [disturbs] in Hd. rewrite N.eqb_refl, orb_true_r in Hd. discriminate. }
    split; [|split; [|split; [exact HL'|exact HQ']]].
    - (* the store part *)
      destruct e as [n1 c1|n1 c1 x|n1 c1|n1 x c1|n1 c1|n1 c1|d]; cbn [since_after]; try exact HS.
      + (* AuthOK *)
        cbn [disturbs] in Hd. apply orb_false_iff in Hd. destruct Hd as [Hdx Hdc].
        apply N.eqb_neq in Hdx. apply N.eqb_neq in Hdc.
        destruct (w_conns w n1 c1) eqn:Hcn; [|rewrite authok_noop; [exact HS|left; exact Hcn]].
        destruct (N.eq_dec x 0) as [Hx|Hx]; [rewrite authok_noop; [exact HS|right; exact Hx]|].
        destruct (authok_shape b ttl cur w n1 c1 x Hcn Hx) as [st1 [ctl1 [idx2 [cn1 [Es Hsh]]]]]. rewrite Es.
        unfold fin. cbn [w_now w_st].
        apply SI_register; [exact Hdc|exact Hdx|].
        destruct Hsh as [[E1 _]|[o [Ho [_ [E1 _]]]]]; subst st1; [exact HS|].
        apply SI_unregister; [|exact HS].
        apply (other_conn w n1 x o Hh'); [|exact Hdx].
        apply (recon_sub w n1 c1 x _ _ _ Ho).
      + (* Kick *)
        unfold step. destruct (w_idx w n1 x) as [o|]; [|exact HS]. destruct (o =? c1); [exact HS|].
        destruct (reg_remove n1 o (w_ctl w) (w_idx w)) as [ctl' idx']. exact HS.
      + (* Heartbeat *)
        unfold step. destruct (w_ctl w n1 c1) as [y|] eqn:Ey.
        * cbn [v_hb current_variant w_now w_st].
          destruct (N.eqb_spec c1 c) as [Ec|Ec].
          -- subst c1. destruct (N.eqb_spec n1 n) as [En|En].
             ++ subst n1. cbn [andb]. apply SI_refresh_self with (since := since); [exact HX| |exact HS].
                apply (Hhb n c); [reflexivity|]. rewrite !N.eqb_refl. reflexivity.
             ++ rewrite (HQ n1 En) in Ey. discriminate.
          -- rewrite andb_false_r. apply SI_refresh_other; [exact Ec|exact HS].
        * destruct ((n1 =? n) && (c1 =? c)) eqn:Eb; [|exact HS].
          apply andb_true_iff in Eb. destruct Eb as [En Ec]. apply N.eqb_eq in En. apply N.eqb_eq in Ec.
          subst. rewrite Hc in Ey. discriminate.
      + (* Close *)
        cbn [disturbs] in Hd. apply N.eqb_neq in Hd.
        unfold step. destruct (reg_remove n1 c1 (w_ctl w) (w_idx w)) as [ctl' idx']. cbn [w_now w_st].
        apply SI_unregister; [exact Hd|exact HS].
      + (* Tick *)
        unfold step. cbn [w_now w_st]. apply SI_tick. exact HS.
    - (* c stays registered at n as X's connection *)
      destruct e as [n1 c1|n1 c1 x|n1 c1|n1 x c1|n1 c1|n1 c1|d]; try exact Hc.
      + cbn [disturbs] in Hd. apply orb_false_iff in Hd. destruct Hd as [Hdx Hdc].
        apply N.eqb_neq in Hdx. apply N.eqb_neq in Hdc.
        destruct (w_conns w n1 c1) eqn:Hcn; [|rewrite authok_noop; [exact Hc|left; exact Hcn]].
        destruct (N.eq_dec x 0) as [Hx|Hx]; [rewrite authok_noop; [exact Hc|right; exact Hx]|].
        destruct (authok_shape b ttl cur w n1 c1 x Hcn Hx) as [st1 [ctl1 [idx2 [cn1 [Es Hsh]]]]]. rewrite Es.
        unfold fin. cbn [w_ctl]. rewrite upd2_other; [|right; congruence].
        destruct Hsh as [[_ [E2 _]]|[o [Ho [_ [_ [E2 _]]]]]]; subst ctl1; [exact Hc|].
        rewrite reg_remove_ctl.
        assert (Hoc : o <> c).
        { apply (other_conn w n1 x o Hh'); [|exact Hdx]. apply (recon_sub w n1 c1 x _ _ _ Ho). }
        destruct (N.eqb_spec c o) as [E|E]; [congruence|]. rewrite andb_false_r. exact Hc.
      + cbn [disturbs] in Hd. apply N.eqb_neq in Hd.
        unfold step. destruct (w_idx w n1 x) as [o|] eqn:Ei; [|exact Hc]. destruct (o =? c1); [exact Hc|].
        destruct (reg_remove n1 o (w_ctl w) (w_idx w)) as [ctl' idx'] eqn:Err. cbn [w_ctl].
        pose proof (reg_remove_ctl n1 o (w_ctl w) (w_idx w) n c) as HR. rewrite Err in HR. cbn [fst] in HR. rewrite HR.
        assert (Hoc : o <> c) by (apply (other_conn w n1 x o Hh'); [exact Ei|exact Hd]).
        destruct (N.eqb_spec c o) as [E|E]; [congruence|]. rewrite andb_false_r. exact Hc.
      + unfold step. destruct (w_ctl w n1 c1); [|exact Hc]. cbn [v_hb current_variant w_ctl]. exact Hc.
      + cbn [disturbs] in Hd. apply N.eqb_neq in Hd.
        unfold step. destruct (reg_remove n1 c1 (w_ctl w) (w_idx w)) as [ctl' idx'] eqn:Err. cbn [w_ctl].
        pose proof (reg_remove_ctl n1 c1 (w_ctl w) (w_idx w) n c) as HR. rewrite Err in HR. cbn [fst] in HR. rewrite HR.
        destruct (N.eqb_spec c c1) as [E|E]; [congruence|]. rewrite andb_false_r. exact Hc.
  Qed.

  Lemma holds_run post : forall w since,
    holds since w -> quiet X c post = true -> kept ttl n c post since = true ->
    forall m, find cur b (run cur b ttl w post) m X = Found n c.
  Proof.
    induction post as [|e post IH]; intros w since Hh Hq Hk m.
    - cbn [run fold_left]. unfold find. destruct Hh as [HS _].
      cbn [kept] in Hk. unfold run. cbn [fold_left]. apply SI_find with (ttl := ttl) (since := since); [exact HX|lia|exact HS].
    - cbn [quiet forallb] in Hq. apply andb_true_iff in Hq. destruct Hq as [Hd Hq].
      apply negb_true_iff in Hd.
      change (run cur b ttl w (e :: post)) with (run cur b ttl (step cur b ttl w e) post).
      apply (IH (step cur b ttl w e) (since_after e since)); [|exact Hq|].
      + apply holds_step; [exact Hh|exact Hd|].
        intros n' c' He Hb. subst e. cbn [kept] in Hk. rewrite Hb in Hk.
        apply andb_true_iff in Hk. destruct Hk as [Hk _]. lia.
      + destruct e as [n1 c1|n1 c1 x|n1 c1|n1 x c1|n1 c1|n1 c1|d]; cbn [kept since_after] in *; try exact Hk.
        destruct ((n1 =? n) && (c1 =? c)); [|exact Hk].
        apply andb_true_iff in Hk. destruct Hk as [_ Hk]. exact Hk.
  Qed.

  Lemma lookup_current pre post :
    w_conns (run cur b ttl init pre) n c = true ->
    (forall n' x, In (AuthOK n' c x) pre -> n' = n) ->
    quiet X c post = true ->
    kept ttl n c post 0 = true ->
    forall m, find cur b (run cur b ttl init (pre ++ AuthOK n c X :: post)) m X = Found n c.
  Proof.
    intros Hcn Hown Hq Hk m.
    unfold run. rewrite fold_left_app. cbn [fold_left]. fold (run cur b ttl init pre).
    set (w0 := run cur b ttl init pre) in *.
    fold (run cur b ttl (step cur b ttl w0 (AuthOK n c X)) post).
    apply (holds_run post _ 0); [|exact Hq|exact Hk].
    assert (HL0 : Lp w0) by (apply Lp_run; apply Lp_init).
    assert (HQ0 : Q n c w0) by (apply Q_run; [exact Hown|apply Q_init]).
    split; [|split; [|split]].
    - destruct (authok_shape b ttl cur w0 n c X Hcn HX) as [st1 [ctl1 [idx2 [cn1 [Es _]]]]]. rewrite Es.
      unfold fin. cbn [w_now w_st]. apply SI_after_register. exact HX.
    - destruct (authok_shape b ttl cur w0 n c X Hcn HX) as [st1 [ctl1 [idx2 [cn1 [Es _]]]]]. rewrite Es.
      unfold fin. cbn [w_ctl]. apply upd2_same.
    - apply Lp_step. exact HL0.
    - intros n' Hn'. apply ctl_step_other; [|apply HQ0; exact Hn'].
      intros m' x He Hm. injection He as E1 _. congruence.
  Qed.
End Current.

(* ---------------------------------------------------------------------------------------------
   lookup soundness and lookup_after_close
   --------------------------------------------------------------------------------------------- *)
Section Sound.
  Variable b : backend.
  Variable ttl : N.
  Notation cur := current_variant.

  (* how one event can make conn_state:k hold a record *)
  Lemma step_cs w e k i' :
    cs (w_st (step cur b ttl w e)) k = Some i' ->
    (exists i, cs (w_st w) k = Some i /\ i_node i = i_node i' /\ i_client i = i_client i' /\ forall m, e <> Close m k)
    \/ (exists n, e = AuthOK n k (i_client i') /\ i_node i' = n).
  Proof.
    intro H.
    assert (Same : cs (w_st w) k = Some i' -> (forall m, e <> Close m k) ->
                   exists i, cs (w_st w) k = Some i /\ i_node i = i_node i' /\ i_client i = i_client i' /\ forall m, e <> Close m k).
    { intros H0 Hn. exists i'. split; [exact H0|]. split; [reflexivity|]. split; [reflexivity|exact Hn]. }
    destruct e as [n1 c1|n1 c1 x|n1 c1|n1 x c1|n1 c1|n1 c1|d].
    - left. apply Same; [exact H|]. intros m E. discriminate.
    - destruct (w_conns w n1 c1) eqn:Hcn;
        [|rewrite authok_noop in H; [|left; exact Hcn]; left; apply Same; [exact H|intros m E; discriminate]].
      destruct (N.eq_dec x 0) as [Hx|Hx];
        [rewrite authok_noop in H; [|right; exact Hx]; left; apply Same; [exact H|intros m E; discriminate]|].
      destruct (authok_shape b ttl cur w n1 c1 x Hcn Hx) as [st1 [ctl1 [idx2 [cn1 [Es Hsh]]]]]. rewrite Es in H.
      unfold fin in H. cbn [w_st] in H. rewrite reg_cs in H.
      destruct (N.eqb_spec k c1) as [Ek|Ek].
      + right. injection H as <-. subst k. cbn [i_client i_node]. exists n1. split; reflexivity.
      + left. apply Same; [|intros m E; discriminate].
        destruct Hsh as [[E1 _]|[o [_ [_ [E1 _]]]]]; subst st1; [exact H|].
        rewrite unreg_cs in H. destruct (k =? o); [discriminate|exact H].
    - left. apply Same; [exact H|]. intros m E. discriminate.
    - left. apply Same; [|intros m E; discriminate].
      unfold step in H. destruct (w_idx w n1 x) as [o|]; [|exact H]. destruct (o =? c1); [exact H|].
      destruct (reg_remove n1 o (w_ctl w) (w_idx w)) as [ctl' idx']. exact H.
    - left. unfold step in H. destruct (w_ctl w n1 c1); [|apply Same; [exact H|intros m E; discriminate]].
      cbn [v_hb current_variant w_st] in H.
      destruct (refresh_cs b ttl cur (w_now w) (w_st w) c1 k) as [E|[Ek [i [Hi [_ E]]]]].
      + rewrite E in H. apply Same; [exact H|intros m E'; discriminate].
      + rewrite E in H. injection H as <-. subst k. exists i. split; [exact Hi|].
        cbn [i_node i_client]. split; [reflexivity|]. split; [reflexivity|]. intros m E'. discriminate.
    - left. unfold step in H. destruct (reg_remove n1 c1 (w_ctl w) (w_idx w)) as [ctl' idx']. cbn [w_st] in H.
      rewrite unreg_cs in H. destruct (N.eqb_spec k c1) as [Ek|Ek]; [discriminate|].
      apply Same; [exact H|]. intros m E. injection E as _ E. congruence.
    - left. apply Same; [exact H|]. intros m E. discriminate.
  Qed.

  (* how one event can make client_conn:x name connection c *)
  Lemma step_ci w e x c e' :
    ci (w_st (step cur b ttl w e)) x = Some (c, e') ->
    (exists e0, ci (w_st w) x = Some (c, e0)) \/ (exists n, e = AuthOK n c x).
  Proof.
    intro H.
    destruct e as [n1 c1|n1 c1 y|n1 c1|n1 y c1|n1 c1|n1 c1|d].
    - left. exists e'. exact H.
    - destruct (w_conns w n1 c1) eqn:Hcn; [|rewrite authok_noop in H; [|left; exact Hcn]; left; exists e'; exact H].
      destruct (N.eq_dec y 0) as [Hy|Hy]; [rewrite authok_noop in H; [|right; exact Hy]; left; exists e'; exact H|].
      destruct (authok_shape b ttl cur w n1 c1 y Hcn Hy) as [st1 [ctl1 [idx2 [cn1 [Es Hsh]]]]]. rewrite Es in H.
      unfold fin in H. cbn [w_st] in H. rewrite reg_ci in H.
      destruct ((0 <? y) && (x =? y)) eqn:Eb.
      + right. apply andb_true_iff in Eb. destruct Eb as [_ Exy]. apply N.eqb_eq in Exy. subst y.
        injection H as <- _. exists n1. reflexivity.
      + left. destruct Hsh as [[E1 _]|[o [_ [_ [E1 _]]]]]; subst st1; [exists e'; exact H|].
        destruct (unreg_ci_cur b (w_now w) (w_st w) o x) as [E|[E _]]; rewrite E in H; [exists e'; exact H|discriminate].
    - left. exists e'. exact H.
    - left. exists e'. unfold step in H. destruct (w_idx w n1 y) as [o|]; [|exact H]. destruct (o =? c1); [exact H|].
      destruct (reg_remove n1 o (w_ctl w) (w_idx w)) as [ctl' idx']. exact H.
    - left. unfold step in H. destruct (w_ctl w n1 c1); [|exists e'; exact H].
      cbn [v_hb current_variant w_st] in H.
      destruct (refresh_ci b ttl cur (w_now w) (w_st w) c1 x) as [E|[e0 [H0 [_ E]]]]; rewrite E in H.
      + exists e'. exact H.
      + injection H as <- _. exists e0. exact H0.
    - left. unfold step in H. destruct (reg_remove n1 c1 (w_ctl w) (w_idx w)) as [ctl' idx']. cbn [w_st] in H.
      destruct (unreg_ci_cur b (w_now w) (w_st w) c1 x) as [E|[E _]]; rewrite E in H; [exists e'; exact H|discriminate].
    - left. exists e'. exact H.
  Qed.

  (* every conn_state record was written by a handshake of that client on that node, and the connection
     has not been closed since *)
  Lemma cs_history h : forall k i,
    cs (w_st (run cur b ttl init h)) k = Some i ->
    exists pre post, h = pre ++ AuthOK (i_node i) k (i_client i) :: post /\ forall m, ~ In (Close m k) post.
  Proof.
    induction h as [|e h IH] using rev_ind; intros k i H.
    - discriminate.
    - rewrite run_snoc in H. destruct (step_cs _ _ _ _ H) as [[i0 [H0 [En [Ec Hne]]]]|[n [He En]]].
      + destruct (IH k i0 H0) as [pre [post [Eh Hp]]]. rewrite En, Ec in Eh.
        exists pre, (post ++ [e]). split; [rewrite Eh, <- app_assoc; reflexivity|].
        intros m Hin. apply in_app_or in Hin. destruct Hin as [Hin|[Hin|[]]]; [exact (Hp m Hin)|].
        exact (Hne m Hin).
      + subst e. exists h, []. rewrite En. split; [reflexivity|]. intros m [].
  Qed.

  Lemma ci_history h : forall x c e,
    ci (w_st (run cur b ttl init h)) x = Some (c, e) -> exists n, In (AuthOK n c x) h.
  Proof.
    induction h as [|ev h IH] using rev_ind; intros x c e H.
    - discriminate.
    - rewrite run_snoc in H. destruct (step_ci _ _ _ _ _ H) as [[e0 H0]|[n He]].
      + destruct (IH x c e0 H0) as [n Hin]. exists n. apply in_or_app. left. exact Hin.
      + exists n. apply in_or_app. right. left. exact He.
  Qed.

  Lemma lookup_sound h X m n c :
    single_client h ->
    find cur b (run cur b ttl init h) m X = Found n c ->
    exists pre post, h = pre ++ AuthOK n c X :: post /\ forall m', ~ In (Close m' c) post.
  Proof.
    intros Hsc H. unfold find, store_find in H.
    destruct (X =? 0); [discriminate|].
    destruct (idx_get b (w_now (run cur b ttl init h)) (w_st (run cur b ttl init h)) X) as [c0|] eqn:Eg; [|discriminate].
    rewrite get_state_cur in H.
    destruct (cs (w_st (run cur b ttl init h)) c0) as [i|] eqn:Ec; [|discriminate].
    destruct (alive b (w_now (run cur b ttl init h)) (i_exp i)); [|discriminate].
    injection H as <- <-.
    destruct (idx_get_some _ _ _ _ _ Eg) as [e [Hci _]].
    destruct (cs_history h c0 i Ec) as [pre [post [Eh Hp]]].
    destruct (ci_history h X c0 e Hci) as [n2 Hin].
    assert (EX : i_client i = X).
    { apply (Hsc (i_node i) n2 c0); [|exact Hin]. rewrite Eh. apply in_or_app. right. left. reflexivity. }
    rewrite EX in Eh. exists pre, post. split; [exact Eh|exact Hp].
  Qed.

  Lemma find_cur_no_err w m X : X <> 0 -> find cur b w m X <> FErr.
  Proof.
    intro HX. unfold find, store_find. apply N.eqb_neq in HX. rewrite HX.
    destruct (idx_get b (w_now w) (w_st w) X) as [c0|]; [|discriminate].
    rewrite get_state_cur. destruct (cs (w_st w) c0) as [i|]; [|discriminate].
    destruct (alive b (w_now w) (i_exp i)); discriminate.
  Qed.

  Lemma lookup_after_close h X m :
    single_client h -> X <> 0 ->
    (forall pre post n c, h = pre ++ AuthOK n c X :: post -> In (Close n c) post) ->
    find cur b (run cur b ttl init h) m X = Absent.
  Proof.
    intros Hsc HX Hcl.
    destruct (find cur b (run cur b ttl init h) m X) as [n c| |] eqn:Ef; [|reflexivity|].
    - exfalso. destruct (lookup_sound h X m n c Hsc Ef) as [pre [post [Eh Hp]]].
      apply (Hp n). apply (Hcl pre post n c Eh).
    - exfalso. apply (find_cur_no_err _ m X HX Ef).
  Qed.
End Sound.

(* ---------------------------------------------------------------------------------------------
   statements in the form used by Properties/C08.v, witnesses for the pinned behaviours, non-vacuity
   --------------------------------------------------------------------------------------------- *)
Lemma lookup_current_all b ttl X n c pre post : lookup_current_at current_variant b ttl X n c pre post.
Proof. intros HX Hcn Hown Hq Hk m. apply lookup_current; assumption. Qed.

Lemma kept_beats ttl n c d k : d < ttl -> 0 < ttl -> kept ttl n c (beats n c d k) 0 = true.
Proof.
  intros Hd Ht. induction k as [|k IH]; cbn [beats kept].
  - lia.
  - rewrite !N.eqb_refl. cbn [andb]. rewrite IH. rewrite N.add_0_l. rewrite andb_true_r. lia.
Qed.

(* the reconnect-to-another-node history of Appendix A *)
Definition wit_pre : list event := [Connect 1 10; AuthOK 1 10 7; Tick 1000; Connect 2 20].
Definition wit_post_late_cleanup : list event := [Close 1 10].
Definition wit_post_beats : list event := [Tick 200000; Heartbeat 2 20; Tick 200000].

Lemma wit_own : forall n' x, In (AuthOK n' 20 x) wit_pre -> n' = 2.
Proof.
  intros n' x H. unfold wit_pre in H. cbn [In] in H.
  destruct H as [H|[H|[H|[H|[]]]]]; discriminate.
Qed.

Lemma pinned_late_unregister_refuted :
  exists X n c pre post, ~ lookup_current_at without_guard redis_backend 300000 X n c pre post.
Proof.
  exists 7, 2, 20, wit_pre, wit_post_late_cleanup. intro H.
  assert (HX : 7 <> 0) by discriminate.
  specialize (H HX eq_refl wit_own eq_refl eq_refl 1). vm_compute in H. discriminate.
Qed.

Lemma pinned_refresh_without_index_refuted :
  exists X n c pre post, ~ lookup_current_at without_refresh_idx redis_backend 300000 X n c pre post.
Proof.
  exists 7, 2, 20, wit_pre, wit_post_beats. intro H.
  assert (HX : 7 <> 0) by discriminate.
  specialize (H HX eq_refl wit_own eq_refl eq_refl 1). vm_compute in H. discriminate.
Qed.

Lemma pinned_heartbeat_without_refresh_refuted :
  exists X n c pre post, ~ lookup_current_at without_hb redis_backend 300000 X n c pre post.
Proof.
  exists 7, 2, 20, wit_pre, wit_post_beats. intro H.
  assert (HX : 7 <> 0) by discriminate.
  specialize (H HX eq_refl wit_own eq_refl eq_refl 1). vm_compute in H. discriminate.
Qed.

Lemma pinned_memory_shape_refuted :
  exists X n c pre post, ~ lookup_current_at without_ptr memory_backend 300000 X n c pre post.
Proof.
  exists 7, 2, 20, wit_pre, []. intro H.
  assert (HX : 7 <> 0) by discriminate.
  specialize (H HX eq_refl wit_own eq_refl eq_refl 1). vm_compute in H. discriminate.
Qed.

(* non-vacuity: a history with a reconnect to another node, a late cleanup by the old node, another client,
   heartbeats and time satisfies every hypothesis, and the lookup answers (2, 20) *)
Definition nv_post : list event :=
  [Tick 100000; Close 1 10; Connect 1 11; AuthOK 1 11 8; Heartbeat 2 20; Tick 250000; Heartbeat 1 11; Heartbeat 2 20;
   Tick 299999; Close 1 11].

Lemma premises_satisfiable :
  7 <> 0 /\ w_conns (run current_variant redis_backend 300000 init wit_pre) 2 20 = true /\
  (forall n' x, In (AuthOK n' 20 x) wit_pre -> n' = 2) /\
  quiet 7 20 nv_post = true /\ kept 300000 2 20 nv_post 0 = true /\
  find current_variant redis_backend (run current_variant redis_backend 300000 init (wit_pre ++ AuthOK 2 20 7 :: nv_post)) 1 7
    = Found 2 20 /\
  find current_variant redis_backend (run current_variant redis_backend 300000 init (wit_pre ++ AuthOK 2 20 7 :: nv_post)) 2 8
    = Absent.
Proof.
  split; [discriminate|]. split; [reflexivity|]. split; [exact wit_own|].
  split; [reflexivity|]. split; [reflexivity|]. split; vm_compute; reflexivity.
Qed.

Lemma single_client_example : single_client (wit_pre ++ AuthOK 2 20 7 :: nv_post).
Proof.
  intros n1 n2 c x1 x2 H1 H2. unfold wit_pre, nv_post in *. cbn [app In] in *.
  repeat (destruct H1 as [H1|H1]; [try discriminate H1; injection H1 as <- <- <-|]); try contradiction;
  (repeat (destruct H2 as [H2|H2]; [try discriminate H2; inversion H2; reflexivity|]); contradiction).
Qed.

(* after the last connection of client 7 is closed the lookup answers Absent (computed instance) *)
Lemma after_close_example :
  find current_variant redis_backend
       (run current_variant redis_backend 300000 init (wit_pre ++ [AuthOK 2 20 7; Close 1 10; Tick 5; Close 2 20])) 1 7 = Absent.
Proof. vm_compute. reflexivity. Qed.

(* a handshake that authenticates but whose response cannot be written is NOT a successful handshake: handleHandshake returns
   before any registration (the event AuthFail).  Registering before answering (seeded C08-17) = the event AuthOK in its
   place: the dead connection takes the index and its close removes it, although the client's most recent successful
   handshake (1, 10) is alive and heart-beating *)
Definition lost_response_history (registered_before_answer : bool) : list event :=
  [Connect 1 10; AuthOK 1 10 7; Heartbeat 1 10; Connect 2 20;
   (if registered_before_answer then AuthOK 2 20 7 else AuthFail 2 20);
   Close 2 20; Heartbeat 1 10; Tick 1000; Heartbeat 1 10].

Lemma register_before_response_refuted :
  find current_variant redis_backend (run current_variant redis_backend 300000 init (lost_response_history false)) 2 7 = Found 1 10 /\
  find current_variant redis_backend (run current_variant redis_backend 300000 init (lost_response_history true)) 2 7 = Absent.
Proof. split; vm_compute; reflexivity. Qed.

(* graceful node shutdown: SessionManager.Close() empties the registry (= Kick n x 0 for every client: no store call), then the
   adapters' deferred CloseConnection runs for every connection: its UnregisterConnection does not depend on the registry /
   connMap any more holding the connection.  A CloseConnection that skips the un-registration then (seeded C08-23) leaves the
   record of the stopped node's client in place: the history without the Close's effect *)
Definition shutdown_history (close_unregisters : bool) : list event :=
  [Connect 1 10; AuthOK 1 10 7; Heartbeat 1 10; Kick 1 7 0] ++ (if close_unregisters then [Close 1 10] else []) ++ [Tick 1000].

Lemma shutdown_close_must_unregister :
  find current_variant redis_backend (run current_variant redis_backend 300000 init (shutdown_history true)) 2 7 = Absent /\
  find current_variant redis_backend (run current_variant redis_backend 300000 init (shutdown_history false)) 2 7 = Found 1 10.
Proof. split; vm_compute; reflexivity. Qed.

(* a lifetime with a fractional-second part: heartbeats every 2.2 s keep a 2.5 s registration alive, for any number of periods
   (the renewal must carry the WHOLE ttl; a renewal that keeps only its whole seconds — seeded C08-25 — is kept 2000, which fails) *)
Lemma fractional_lifetime_kept n c k :
  kept 2500 n c (beats n c 2200 k) 0 = true /\ kept 2000 n c (beats n c 2200 1) 0 = false.
Proof.
  split; [apply kept_beats; lia|].
  cbn [beats kept]. rewrite !N.eqb_refl. cbn [andb].
  assert (H : (0 + 2200 <? 2000) = false) by (vm_compute; reflexivity). rewrite H. reflexivity.
Qed.

(* a handshake MESSAGE that proves nothing (phase 1: answered with a challenge) on a connection authenticated earlier is the event
   AuthFail; treating it as a (re-)registration (seeded C08-29 = the event AuthOK again on the old connection) moves the lookup
   back to the connection the client has left *)
Definition phase1_history (reregisters : bool) : list event :=
  [Connect 1 10; AuthOK 1 10 7; Connect 2 20; AuthOK 2 20 7;
   (if reregisters then AuthOK 1 10 7 else AuthFail 1 10); Heartbeat 2 20; Tick 1000; Heartbeat 2 20].

Lemma phase1_message_must_not_register :
  find current_variant redis_backend (run current_variant redis_backend 300000 init (phase1_history false)) 1 7 = Found 2 20 /\
  find current_variant redis_backend (run current_variant redis_backend 300000 init (phase1_history true)) 1 7 = Found 1 10.
Proof. split; vm_compute; reflexivity. Qed.

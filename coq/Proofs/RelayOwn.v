(* Proofs/RelayOwn.v — who owns batchBuf (Model/Relay.v, Section Own): for the code as it is (the tunnel Write
   happens under batchMu) the tunnel byte stream is, under EVERY schedule of the main loop and the ticker
   goroutine, the concatenation of the framed datagrams in arrival order. *)
From TX Require Import Model.Relay Proofs.Relay.
From Coq Require Import ZArith ZifyN ZifyNat ZifyBool.

Section OwnProofs.
  Variable BatchBuf : nat.
  Variable all : list dgram.      (* everything the local side will ever deliver, in arrival order *)

  Definition encq (ds : list dgram) : list byte := flat_map enc_ne ds.

  Lemma encq_app a b : encq (a ++ b) = encq a ++ encq b.
  Proof. unfold encq. apply flat_map_app. Qed.

  Lemma encq_is_encode_all ds : encq ds = encode_all (ev_dgrams (map EvD ds)).
  Proof.
    induction ds as [|d ds IH]; [reflexivity|].
    change (d :: ds) with ([d] ++ ds) at 1. rewrite encq_app, IH.
    cbn [map]. rewrite (ev_dgrams_cons (EvD d) (map EvD ds)), encode_all_app. f_equal.
    destruct d as [|x d]; [reflexivity|]. unfold encq. cbn [flat_map enc_ne ev_dgrams encode_all app].
    now rewrite !app_nil_r.
  Qed.

  Lemma store_length pos e buf : (pos <= length buf)%nat -> (pos + length e <= length (store pos e buf))%nat.
  Proof. intros H. unfold store. rewrite !app_length, firstn_length. lia. Qed.

  Lemma store_firstn pos e buf : (pos <= length buf)%nat ->
    firstn (pos + length e) (store pos e buf) = firstn pos buf ++ e.
  Proof.
    intros H. unfold store. rewrite app_assoc.
    assert (Hl : length (firstn pos buf ++ e) = (pos + length e)%nat) by (rewrite app_length, firstn_length; lia).
    rewrite <- Hl. rewrite firstn_app, Nat.sub_diag, firstn_all. cbn [firstn]. now rewrite app_nil_r.
  Qed.

  Definition incs0 (p : bpc) : Prop := p = BHave \/ p = BUnlock \/ p = BFinal.
  Definition incs1 (p : bpc) : Prop := p = BHave \/ (exists n, p = BTaken n) \/ p = BUnlock.

  Definition OInv (s : st bsh (nat * bpc)) : Prop :=
    exists p0 p1, snd s = [(0%nat, p0); (1%nat, p1)] /\
      (b_pos (fst s) <= length (b_buf (fst s)))%nat /\
      b_out (fst s) ++ firstn (b_pos (fst s)) (b_buf (fst s)) = encq (b_seen (fst s)) /\
      all = b_seen (fst s) ++ b_inq (fst s) /\
      (incs0 p0 -> b_lock (fst s) = Some 0%nat) /\ (incs1 p1 -> b_lock (fst s) = Some 1%nat) /\
      (forall n, p1 = BTaken n -> n = b_pos (fst s)) /\
      (p0 = BFinal \/ p0 = BDone -> b_inq (fst s) = [] /\ b_pos (fst s) = 0%nat).

  Lemma OInv_intro sh p0 p1 :
    (b_pos sh <= length (b_buf sh))%nat ->
    b_out sh ++ firstn (b_pos sh) (b_buf sh) = encq (b_seen sh) ->
    all = b_seen sh ++ b_inq sh ->
    (incs0 p0 -> b_lock sh = Some 0%nat) -> (incs1 p1 -> b_lock sh = Some 1%nat) ->
    (forall n, p1 = BTaken n -> n = b_pos sh) ->
    (p0 = BFinal \/ p0 = BDone -> b_inq sh = [] /\ b_pos sh = 0%nat) ->
    OInv (sh, [(0%nat, p0); (1%nat, p1)]).
  Proof.
    intros H1 H2 H3 H4 H5 H6 H7. exists p0, p1. cbn [fst snd]. split; [reflexivity|].
    split; [exact H1|]. split; [exact H2|]. split; [exact H3|]. split; [exact H4|]. split; [exact H5|].
    split; [exact H6|exact H7].
  Qed.

  (* framing one datagram under the lock *)
  Lemma frame_one_inv d sh :
    (b_pos sh <= length (b_buf sh))%nat ->
    b_out sh ++ firstn (b_pos sh) (b_buf sh) = encq (b_seen sh) ->
    let sh' := frame_one BatchBuf d sh in
    (b_pos sh' <= length (b_buf sh'))%nat /\
    b_out sh' ++ firstn (b_pos sh') (b_buf sh') = encq (b_seen sh ++ [d]) /\
    b_seen sh' = b_seen sh ++ [d] /\ b_inq sh' = tl (b_inq sh) /\ b_lock sh' = b_lock sh.
  Proof.
    intros Hp Ho. rewrite encq_app. unfold encq at 2. cbn [flat_map]. rewrite app_nil_r.
    unfold frame_one. destruct d as [|x d].
    - cbn [bset b_pos b_buf b_out b_seen b_inq b_lock enc_ne]. rewrite app_nil_r. auto.
    - set (dd := x :: d). cbn [enc_ne]. fold dd.
      assert (Hel : length (enc_dgram dd) = (2 + length dd)%nat) by reflexivity.
      destruct (BatchBuf <? b_pos sh + (2 + length dd))%nat.
      + (* flush first: the buffer restarts at 0 *)
        assert (H0 : (0 <= length (b_buf sh))%nat) by lia.
        pose proof (store_firstn 0 (enc_dgram dd) (b_buf sh) H0) as Hs. cbn [firstn app plus] in Hs.
        pose proof (store_length 0 (enc_dgram dd) (b_buf sh) H0) as Hsl. cbn [plus] in Hsl.
        rewrite Hel in Hs, Hsl.
        destruct (BatchBuf / 2 <? 0 + (2 + length dd))%nat;
          cbn [bset b_pos b_buf b_out b_seen b_inq b_lock].
        * cbn [plus] in *. rewrite Hs. cbn [firstn]. rewrite app_nil_r, <- Ho. split; [lia|]. auto.
        * cbn [plus] in *. rewrite Hs, <- Ho. split; [lia|]. auto.
      + pose proof (store_firstn (b_pos sh) (enc_dgram dd) (b_buf sh) Hp) as Hs.
        pose proof (store_length (b_pos sh) (enc_dgram dd) (b_buf sh) Hp) as Hsl.
        rewrite Hel in Hs, Hsl.
        destruct (BatchBuf / 2 <? b_pos sh + (2 + length dd))%nat;
          cbn [bset b_pos b_buf b_out b_seen b_inq b_lock].
        * rewrite Hs. cbn [firstn]. rewrite app_nil_r. rewrite <- Ho. rewrite <- app_assoc. split; [lia|]. auto.
        * rewrite Hs. rewrite <- Ho. rewrite <- app_assoc. split; [lia|]. auto.
  Qed.

  Ltac no0 := let Hx := fresh in intros [Hx|[Hx|Hx]]; discriminate Hx.
  Ltac no1 := let Hx := fresh in let n := fresh in intros [Hx|[[n Hx]|Hx]]; discriminate Hx.
  Ltac noT := let Hx := fresh in let n := fresh in intros n Hx; discriminate Hx.
  Ltac noF := let Hx := fresh in intros [Hx|Hx]; discriminate Hx.
  Ltac proj_all := cbn [bset b_pos b_buf b_out b_seen b_inq b_lock].

  Theorem OInv_step : forall s i, OInv s -> OInv (sys_step bsh (nat * bpc) (own_step false BatchBuf) s i).
  Proof.
    intros [sh ls] i (p0 & p1 & Hls & H1 & H2 & H3 & H4 & H5 & H6 & H7). cbn [fst snd] in *. subst ls.
    unfold sys_step. cbn [snd fst].
    destruct i as [|[|i]]; cbn [nth_error].
    - (* main loop *)
      unfold own_step. cbn [fst snd]. unfold main_own.
      destruct p0; cbn [upd_nth].
      + (* BIdle: batchMu.Lock() *)
        destruct (b_lock sh) eqn:El; cbn [fst snd].
        * apply OInv_intro; try assumption; rewrite El; assumption.
        * apply OInv_intro; proj_all;
            [exact H1 | exact H2 | exact H3 | intros _; reflexivity
            | intros Hc; specialize (H5 Hc); congruence | exact H6 | noF].
      + (* BHave: inside the critical section *)
        assert (Hl : b_lock sh = Some 0%nat) by (apply H4; left; reflexivity).
        assert (Hn1 : ~ incs1 p1) by (intros Hc; specialize (H5 Hc); congruence).
        destruct (b_inq sh) as [|d q] eqn:Eq; cbn [fst snd].
        * apply OInv_intro; proj_all;
            [ lia | cbn [firstn]; rewrite app_nil_r; exact H2 | rewrite H3; reflexivity
            | intros _; exact Hl | intros Hc; contradiction
            | intros n Hc; exfalso; apply Hn1; right; left; now exists n
            | intros _; split; reflexivity ].
        * destruct (frame_one_inv d sh H1 H2) as (F1 & F2 & F3 & F4 & F5).
          apply OInv_intro;
            [ exact F1 | rewrite F3; exact F2
            | rewrite F3, F4, Eq; cbn [tl]; rewrite H3, <- app_assoc; reflexivity
            | intros _; rewrite F5; exact Hl | intros Hc; contradiction
            | intros n Hc; exfalso; apply Hn1; right; left; now exists n | noF ].
      + cbn [fst snd]. apply OInv_intro; assumption.
      + (* BUnlock *)
        assert (Hl : b_lock sh = Some 0%nat) by (apply H4; right; left; reflexivity).
        assert (Hn1 : ~ incs1 p1) by (intros Hc; specialize (H5 Hc); congruence).
        cbn [fst snd]. apply OInv_intro; proj_all;
          [exact H1 | exact H2 | exact H3 | no0 | intros Hc; contradiction | exact H6 | noF].
      + (* BFinal *)
        assert (Hl : b_lock sh = Some 0%nat) by (apply H4; right; right; reflexivity).
        assert (Hn1 : ~ incs1 p1) by (intros Hc; specialize (H5 Hc); congruence).
        cbn [fst snd]. apply OInv_intro; proj_all;
          [exact H1 | exact H2 | exact H3 | no0 | intros Hc; contradiction | exact H6
          | intros _; apply H7; left; reflexivity].
      + cbn [fst snd]. apply OInv_intro; assumption.
    - (* ticker *)
      unfold own_step. cbn [fst snd]. unfold tick_own.
      destruct p1; cbn [upd_nth].
      + destruct (b_lock sh) eqn:El; cbn [fst snd].
        * apply OInv_intro; try assumption; rewrite El; assumption.
        * apply OInv_intro; proj_all;
            [exact H1 | exact H2 | exact H3 | intros Hc; specialize (H4 Hc); congruence
            | intros _; reflexivity | noT | exact H7].
      + (* BHave: take the slice, keep the lock *)
        cbn [fst snd]. apply OInv_intro;
          [exact H1 | exact H2 | exact H3 | exact H4 | intros _; apply H5; left; reflexivity
          | intros n Hx; injection Hx as <-; reflexivity | exact H7].
      + (* BTaken n: the Write returns, still under the lock *)
        assert (Hl : b_lock sh = Some 1%nat) by (apply H5; right; left; now exists n).
        assert (Hn0 : ~ incs0 p0) by (intros Hc; specialize (H4 Hc); congruence).
        rewrite (H6 n eq_refl). cbn [fst snd].
        apply OInv_intro; proj_all;
          [ lia | cbn [firstn]; rewrite app_nil_r; exact H2 | exact H3 | intros Hc; contradiction
          | intros _; exact Hl | noT
          | intros Hc; destruct (H7 Hc) as [Hi _]; split; [exact Hi|reflexivity] ].
      + (* BUnlock *)
        assert (Hl : b_lock sh = Some 1%nat) by (apply H5; right; right; reflexivity).
        assert (Hn0 : ~ incs0 p0) by (intros Hc; specialize (H4 Hc); congruence).
        cbn [fst snd]. apply OInv_intro; proj_all;
          [exact H1 | exact H2 | exact H3 | intros Hc; contradiction | no1 | noT | exact H7].
      + cbn [fst snd]. apply OInv_intro; assumption.
      + cbn [fst snd]. apply OInv_intro; assumption.
    - destruct i; cbn [nth_error]; apply OInv_intro; assumption.
  Qed.

  Lemma OInv_init : OInv (own_init all).
  Proof.
    unfold own_init. apply OInv_intro; cbn [b_pos b_buf b_out b_seen b_inq b_lock length firstn app];
      [lia | reflexivity | reflexivity | no0 | no1 | noT | noF].
  Qed.

  Theorem own_all_schedules (sched : list nat) :
    OInv (run bsh (nat * bpc) (own_step false BatchBuf) (own_init all) sched).
  Proof. apply (inv_all_schedules bsh (nat * bpc) (own_step false BatchBuf) OInv OInv_step). apply OInv_init. Qed.

  (* consequences *)
  Lemma OInv_stream s : OInv s ->
    (exists rest_, encode_all (ev_dgrams (map EvD all)) = b_out (fst s) ++ rest_) /\
    (forall p1, snd s = [(0%nat, BDone); (1%nat, p1)] -> b_out (fst s) = encode_all (ev_dgrams (map EvD all))).
  Proof.
    intros (p0 & p1 & Hls & H1 & H2 & H3 & H4 & H5 & H6 & H7). rewrite <- encq_is_encode_all. split.
    - exists (firstn (b_pos (fst s)) (b_buf (fst s)) ++ encq (b_inq (fst s))).
      rewrite H3, encq_app, <- H2. now rewrite app_assoc.
    - intros q Hs. rewrite Hls in Hs. injection Hs as -> _.
      destruct (H7 (or_intror eq_refl)) as [Hi Hp]. rewrite Hp in H2. cbn [firstn] in H2.
      rewrite app_nil_r in H2. rewrite H2, H3, Hi. now rewrite app_nil_r.
  Qed.
End OwnProofs.

(* Proofs/RelayOwn.v — who owns batchBuf (Model/Relay.v, Section Own): for the code as it is (the tunnel Write
   happens under batchMu) the tunnel byte stream is, under EVERY schedule of the main loop and the ticker
   goroutine, the concatenation of the framed datagrams in arrival order. *)
From TX Require Import Model.Relay Proofs.Relay.
From Coq Require Import ZArith ZifyN ZifyNat ZifyBool.

Section OwnProofs.
  Variable BatchBuf : nat.
  Variable all : list dgram.      (* everything the local side will ever deliver, in arrival order *)

  Definition encq (ds : list dgram) : list byte := flat_map enc_ne ds.

  Lemma encq_app a b : encq (a ++ b) = encq a ++ encq b.
  Proof. unfold encq. apply flat_map_app. Qed.

  Lemma encq_is_encode_all ds : encq ds = encode_all (ev_dgrams (map EvD ds)).
  Proof.
    induction ds as [|d ds IH]; [reflexivity|].
    change (d :: ds) with ([d] ++ ds) at 1. rewrite encq_app, IH.
    cbn [map]. rewrite (ev_dgrams_cons (EvD d) (map EvD ds)), encode_all_app. f_equal.
    destruct d as [|x d]; [reflexivity|]. unfold encq. cbn [flat_map enc_ne ev_dgrams encode_all app].
    now rewrite !app_nil_r.
  Qed.

  Lemma store_length pos e buf : (pos <= length buf)%nat -> (pos + length e <= length (store pos e buf))%nat.
  Proof. intros H. unfold store. rewrite !app_length, firstn_length. lia. Qed.

  Lemma store_firstn pos e buf : (pos <= length buf)%nat ->
    firstn (pos + length e) (store pos e buf) = firstn pos buf ++ e.
  Proof.
    intros H. unfold store. rewrite app_assoc.
    assert (Hl : length (firstn pos buf ++ e) = (pos + length e)%nat) by (rewrite app_length, firstn_length; lia).
    rewrite <- Hl. rewrite firstn_app, Nat.sub_diag, firstn_all. cbn [firstn]. now rewrite app_nil_r.
  Qed.

  Definition incs0 (p : bpc) : Prop := p = BHave \/ p = BUnlock \/ p = BFinal.
  Definition incs1 (p : bpc) : Prop := p = BHave \/ (exists n, p = BTaken n) \/ p = BUnlock.
  Definition after_input (p : bpc) : Prop := p = BFinal \/ p = BClose \/ p = BDone.

  (* the batched bytes are consistent with the expected stream E *)
  Definition okbuf (sh : bsh) (E : list byte) : Prop :=
    (b_pos sh <= length (b_buf sh))%nat /\ b_out sh ++ firstn (b_pos sh) (b_buf sh) = E.
  Definition same_rest (sh' sh : bsh) : Prop :=
    b_seen sh' = b_seen sh /\ b_inq sh' = b_inq sh /\ b_lock sh' = b_lock sh /\ b_cw sh' = b_cw sh /\ b_werr sh' = b_werr sh.

  Lemma flush_locked_ok sh E : b_cw sh = false -> okbuf sh E ->
    okbuf (flush_locked sh) E /\ b_pos (flush_locked sh) = 0%nat /\ same_rest (flush_locked sh) sh.
  Proof.
    intros Hc [Hp Ho]. unfold flush_locked. rewrite Hc, andb_false_r. unfold okbuf, same_rest.
    cbn [bset b_pos b_buf b_out b_seen b_inq b_lock b_cw b_werr firstn]. rewrite app_nil_r.
    repeat split; try reflexivity; [lia|exact Ho].
  Qed.

  Lemma write_n_ok n sh : b_cw sh = false \/ n = 0%nat ->
    write_n n sh = bset sh (b_buf sh) (b_pos sh) (b_lock sh) (b_out sh ++ firstn n (b_buf sh)) (b_inq sh) (b_seen sh).
  Proof.
    intros [Hc| ->]; unfold write_n; [rewrite Hc, andb_false_r; reflexivity|reflexivity].
  Qed.

  Definition OInv (s : st bsh (nat * bpc)) : Prop :=
    exists p0 p1, snd s = [(0%nat, p0); (1%nat, p1)] /\
      okbuf (fst s) (encq (b_seen (fst s))) /\
      all = b_seen (fst s) ++ b_inq (fst s) /\
      (incs0 p0 -> b_lock (fst s) = Some 0%nat) /\ (incs1 p1 -> b_lock (fst s) = Some 1%nat) /\
      (forall n, p1 = BTaken n -> n = b_pos (fst s)) /\
      (after_input p0 -> b_inq (fst s) = [] /\ b_pos (fst s) = 0%nat) /\
      (* the tunnel is half-closed only once the main loop is completely done, and no Write was ever refused *)
      (b_cw (fst s) = true -> p0 = BDone) /\ b_werr (fst s) = false.

  Lemma OInv_intro sh p0 p1 :
    okbuf sh (encq (b_seen sh)) ->
    all = b_seen sh ++ b_inq sh ->
    (incs0 p0 -> b_lock sh = Some 0%nat) -> (incs1 p1 -> b_lock sh = Some 1%nat) ->
    (forall n, p1 = BTaken n -> n = b_pos sh) ->
    (after_input p0 -> b_inq sh = [] /\ b_pos sh = 0%nat) ->
    (b_cw sh = true -> p0 = BDone) -> b_werr sh = false ->
    OInv (sh, [(0%nat, p0); (1%nat, p1)]).
  Proof.
    intros H2 H3 H4 H5 H6 H7 H8 H9. exists p0, p1. cbn [fst snd]. split; [reflexivity|].
    split; [exact H2|]. split; [exact H3|]. split; [exact H4|]. split; [exact H5|].
    split; [exact H6|]. split; [exact H7|]. split; [exact H8|exact H9].
  Qed.

  (* framing one datagram under the lock *)
  Lemma same_rest_refl sh : same_rest sh sh.
  Proof. unfold same_rest. auto. Qed.

  Lemma pre_flush_ok d sh E : b_cw sh = false -> okbuf sh E ->
    okbuf (pre_flush BatchBuf d sh) E /\ same_rest (pre_flush BatchBuf d sh) sh.
  Proof.
    intros Hc Hok. unfold pre_flush. destruct (BatchBuf <? b_pos sh + (2 + length d))%nat.
    - destruct (flush_locked_ok sh E Hc Hok) as (Ha & _ & Hb). auto.
    - split; [exact Hok|apply same_rest_refl].
  Qed.

  Lemma post_flush_ok sh E : b_cw sh = false -> okbuf sh E ->
    okbuf (post_flush BatchBuf sh) E /\ same_rest (post_flush BatchBuf sh) sh.
  Proof.
    intros Hc Hok. unfold post_flush. destruct (BatchBuf / 2 <? b_pos sh)%nat.
    - destruct (flush_locked_ok sh E Hc Hok) as (Ha & _ & Hb). auto.
    - split; [exact Hok|apply same_rest_refl].
  Qed.

  Lemma put_dgram_ok d sh E : okbuf sh E ->
    okbuf (put_dgram d sh) (E ++ enc_dgram d) /\
    b_seen (put_dgram d sh) = b_seen sh ++ [d] /\ b_inq (put_dgram d sh) = tl (b_inq sh) /\
    b_lock (put_dgram d sh) = b_lock sh /\ b_cw (put_dgram d sh) = b_cw sh /\ b_werr (put_dgram d sh) = b_werr sh.
  Proof.
    intros [Hp Ho]. unfold put_dgram, okbuf. cbn [bset b_pos b_buf b_out b_seen b_inq b_lock b_cw b_werr].
    assert (Hel : length (enc_dgram d) = (2 + length d)%nat) by reflexivity.
    pose proof (store_firstn (b_pos sh) (enc_dgram d) (b_buf sh) Hp) as Hs.
    pose proof (store_length (b_pos sh) (enc_dgram d) (b_buf sh) Hp) as Hsl.
    rewrite Hel in Hs, Hsl. split; [split; [exact Hsl|]|].
    - rewrite Hs, app_assoc, Ho. reflexivity.
    - repeat split; reflexivity.
  Qed.

  Lemma frame_one_inv d sh : b_cw sh = false ->
    okbuf sh (encq (b_seen sh)) ->
    okbuf (frame_one BatchBuf d sh) (encq (b_seen sh ++ [d])) /\
    b_seen (frame_one BatchBuf d sh) = b_seen sh ++ [d] /\ b_inq (frame_one BatchBuf d sh) = tl (b_inq sh) /\
    b_lock (frame_one BatchBuf d sh) = b_lock sh /\
    b_cw (frame_one BatchBuf d sh) = false /\ b_werr (frame_one BatchBuf d sh) = b_werr sh.
  Proof.
    intros Hc Hok. rewrite encq_app. unfold encq at 2. cbn [flat_map]. rewrite app_nil_r.
    unfold frame_one. destruct d as [|x d].
    - destruct Hok as [Hp Ho]. unfold okbuf.
      cbn [bset b_pos b_buf b_out b_seen b_inq b_lock b_cw b_werr enc_ne]. rewrite app_nil_r.
      split; [split; [exact Hp|exact Ho]|]. split; [reflexivity|]. split; [reflexivity|]. split; [reflexivity|].
      split; [exact Hc|reflexivity].
    - set (dd := x :: d). change (enc_ne dd) with (enc_dgram dd).
      destruct (pre_flush_ok dd sh _ Hc Hok) as (A1 & (S1 & I1 & L1 & C1 & E1)).
      destruct (put_dgram_ok dd (pre_flush BatchBuf dd sh) _ A1) as (A2 & S2 & I2 & L2 & C2 & E2).
      assert (Hc2 : b_cw (put_dgram dd (pre_flush BatchBuf dd sh)) = false) by congruence.
      destruct (post_flush_ok (put_dgram dd (pre_flush BatchBuf dd sh)) _ Hc2 A2) as (A3 & (S3 & I3 & L3 & C3 & E3)).
      split; [exact A3|]. rewrite S3, I3, L3, C3, E3, S2, I2, L2, E2, S1, I1, L1, E1.
      repeat split; try reflexivity. exact Hc2.
  Qed.

  Ltac no0 := let Hx := fresh in intros [Hx|[Hx|Hx]]; discriminate Hx.
  Ltac no1 := let Hx := fresh in let n := fresh in intros [Hx|[[n Hx]|Hx]]; discriminate Hx.
  Ltac noT := let Hx := fresh in let n := fresh in intros n Hx; discriminate Hx.
  Ltac noA := let Hx := fresh in intros [Hx|[Hx|Hx]]; discriminate Hx.
  Ltac proj_all := cbn [bset bflags b_pos b_buf b_out b_seen b_inq b_lock b_cw b_werr].

  Theorem OInv_step : forall s i,
    OInv s -> OInv (sys_step bsh (nat * bpc) (own_step false false BatchBuf) s i).
  Proof.
    intros [sh ls] i (p0 & p1 & Hls & H2 & H3 & H4 & H5 & H6 & H7 & H8 & H9). cbn [fst snd] in *. subst ls.
    unfold sys_step. cbn [snd fst].
    destruct i as [|[|i]]; cbn [nth_error].
    - (* main loop *)
      unfold own_step. cbn [fst snd]. unfold main_own. cbn [andb].
      destruct p0; cbn [upd_nth].
      + (* BIdle: batchMu.Lock() *)
        destruct (b_lock sh) eqn:El; cbn [fst snd].
        * apply OInv_intro; try assumption; rewrite El; assumption.
        * apply OInv_intro; unfold okbuf in *; proj_all;
            [exact H2 | exact H3 | intros _; reflexivity
            | intros Hc; specialize (H5 Hc); congruence | exact H6 | noA
            | intros Hc; specialize (H8 Hc); discriminate H8 | exact H9].
      + (* BHave: inside the critical section *)
        assert (Hl : b_lock sh = Some 0%nat) by (apply H4; left; reflexivity).
        assert (Hn1 : ~ incs1 p1) by (intros Hc; specialize (H5 Hc); congruence).
        assert (Hcw : b_cw sh = false) by (destruct (b_cw sh); [specialize (H8 eq_refl); discriminate H8|reflexivity]).
        destruct (b_inq sh) as [|d q] eqn:Eq; cbn [fst snd].
        * destruct (flush_locked_ok sh _ Hcw H2) as (F1 & F2 & (F3 & F4 & F5 & F6 & F7)).
          apply OInv_intro;
            [ rewrite F3; exact F1 | rewrite F3, F4, Eq; exact H3
            | intros _; rewrite F5; exact Hl | intros Hc; contradiction
            | intros n Hc; exfalso; apply Hn1; right; left; now exists n
            | intros _; rewrite F4; split; [exact Eq|exact F2]
            | intros Hc; rewrite F6 in Hc; congruence | rewrite F7; exact H9 ].
        * destruct (frame_one_inv d sh Hcw H2) as (F1 & F3 & F4 & F5 & F6 & F7).
          apply OInv_intro;
            [ rewrite F3; exact F1
            | rewrite F3, F4, Eq; cbn [tl]; rewrite H3, <- app_assoc; reflexivity
            | intros _; rewrite F5; exact Hl | intros Hc; contradiction
            | intros n Hc; exfalso; apply Hn1; right; left; now exists n | noA
            | intros Hc; congruence | rewrite F7; exact H9 ].
      + cbn [fst snd]. apply OInv_intro; assumption.
      + (* BUnlock *)
        assert (Hl : b_lock sh = Some 0%nat) by (apply H4; right; left; reflexivity).
        assert (Hn1 : ~ incs1 p1) by (intros Hc; specialize (H5 Hc); congruence).
        assert (Hcw : b_cw sh = false) by (destruct (b_cw sh); [specialize (H8 eq_refl); discriminate H8|reflexivity]).
        cbn [fst snd]. apply OInv_intro; unfold okbuf in *; proj_all;
          [exact H2 | exact H3 | no0 | intros Hc; contradiction | exact H6 | noA
          | intros Hc; congruence | exact H9].
      + (* BFinal: Unlock() *)
        assert (Hl : b_lock sh = Some 0%nat) by (apply H4; right; right; reflexivity).
        assert (Hn1 : ~ incs1 p1) by (intros Hc; specialize (H5 Hc); congruence).
        assert (Hcw : b_cw sh = false) by (destruct (b_cw sh); [specialize (H8 eq_refl); discriminate H8|reflexivity]).
        cbn [fst snd]. apply OInv_intro; unfold okbuf in *; proj_all;
          [exact H2 | exact H3 | no0 | intros Hc; contradiction | exact H6
          | intros _; apply H7; left; reflexivity | intros Hc; congruence | exact H9].
      + (* BClose: close(done); tryCloseWrite(tunnelConn) — only now *)
        cbn [fst snd]. apply OInv_intro; unfold okbuf in *; proj_all;
          [exact H2 | exact H3 | no0 | exact H5 | exact H6
          | intros _; apply H7; right; left; reflexivity | intros _; reflexivity | exact H9].
      + cbn [fst snd]. apply OInv_intro; assumption.
    - (* ticker *)
      unfold own_step. cbn [fst snd]. unfold tick_own.
      destruct p1; cbn [upd_nth].
      + destruct (b_lock sh) eqn:El; cbn [fst snd].
        * apply OInv_intro; try assumption; rewrite El; assumption.
        * apply OInv_intro; unfold okbuf in *; proj_all;
            [exact H2 | exact H3 | intros Hc; specialize (H4 Hc); congruence
            | intros _; reflexivity | noT | exact H7 | exact H8 | exact H9].
      + (* BHave: take the slice, keep the lock *)
        cbn [fst snd]. apply OInv_intro;
          [exact H2 | exact H3 | exact H4 | intros _; apply H5; left; reflexivity
          | intros n Hx; injection Hx as <-; reflexivity | exact H7 | exact H8 | exact H9].
      + (* BTaken n: the Write returns, still under the lock *)
        assert (Hl : b_lock sh = Some 1%nat) by (apply H5; right; left; now exists n).
        assert (Hn0 : ~ incs0 p0) by (intros Hc; specialize (H4 Hc); congruence).
        rewrite (H6 n eq_refl).
        assert (Hw : b_cw sh = false \/ b_pos sh = 0%nat).
        { destruct (b_cw sh) eqn:Ec; [right|left; reflexivity].
          specialize (H8 eq_refl). apply H7. right; right. exact H8. }
        rewrite (write_n_ok (b_pos sh) sh Hw). cbn [bset b_werr]. rewrite H9. cbn [fst snd].
        destruct H2 as [Hp Ho].
        apply OInv_intro; unfold okbuf; proj_all;
          [ split; [lia|cbn [firstn]; rewrite app_nil_r; exact Ho] | exact H3 | intros Hc; contradiction
          | intros _; exact Hl | noT
          | intros Hc; destruct (H7 Hc) as [Hi _]; split; [exact Hi|reflexivity] | exact H8 | exact H9 ].
      + (* BUnlock *)
        assert (Hl : b_lock sh = Some 1%nat) by (apply H5; right; right; reflexivity).
        assert (Hn0 : ~ incs0 p0) by (intros Hc; specialize (H4 Hc); congruence).
        cbn [fst snd]. apply OInv_intro; unfold okbuf in *; proj_all;
          [exact H2 | exact H3 | intros Hc; contradiction | no1 | noT | exact H7 | exact H8 | exact H9].
      + cbn [fst snd]. apply OInv_intro; assumption.
      + cbn [fst snd]. apply OInv_intro; assumption.
      + cbn [fst snd]. apply OInv_intro; assumption.
    - destruct i; cbn [nth_error]; apply OInv_intro; assumption.
  Qed.

  Lemma OInv_init : OInv (own_init all).
  Proof.
    unfold own_init. apply OInv_intro; unfold okbuf; cbn [b_pos b_buf b_out b_seen b_inq b_lock b_cw b_werr length firstn app];
      [split; [lia|reflexivity] | reflexivity | no0 | no1 | noT | noA | intros Hx; discriminate Hx | reflexivity].
  Qed.

  Theorem own_all_schedules (sched : list nat) :
    OInv (run bsh (nat * bpc) (own_step false false BatchBuf) (own_init all) sched).
  Proof. apply (inv_all_schedules bsh (nat * bpc) (own_step false false BatchBuf) OInv OInv_step). apply OInv_init. Qed.

  (* consequences *)
  Lemma OInv_stream s : OInv s ->
    (exists rest_, encode_all (ev_dgrams (map EvD all)) = b_out (fst s) ++ rest_) /\
    (forall p1, snd s = [(0%nat, BDone); (1%nat, p1)] -> b_out (fst s) = encode_all (ev_dgrams (map EvD all))) /\
    (* the final flush precedes the half-close: no tunnel Write is ever refused, and when the tunnel is half-closed
       everything has already been consumed by it *)
    b_werr (fst s) = false /\
    (b_cw (fst s) = true -> b_out (fst s) = encode_all (ev_dgrams (map EvD all))).
  Proof.
    intros (p0 & p1 & Hls & [H1 H2] & H3 & H4 & H5 & H6 & H7 & H8 & H9). rewrite <- encq_is_encode_all.
    assert (Hdone : p0 = BDone -> b_out (fst s) = encq all).
    { intros ->. destruct (H7 (or_intror (or_intror eq_refl))) as [Hi Hp]. rewrite Hp in H2. cbn [firstn] in H2.
      rewrite app_nil_r in H2. rewrite H2, H3, Hi. now rewrite app_nil_r. }
    split; [|split; [|split; [exact H9|]]].
    - exists (firstn (b_pos (fst s)) (b_buf (fst s)) ++ encq (b_inq (fst s))).
      rewrite H3, encq_app, <- H2. now rewrite app_assoc.
    - intros q Hs. rewrite Hls in Hs. injection Hs as -> _. apply Hdone. reflexivity.
    - intros Hc. apply Hdone. apply H8. exact Hc.
  Qed.
End OwnProofs.

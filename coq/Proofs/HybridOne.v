(* Proofs/HybridOne.v — C14: keys with a single tier (runtime keys, shared keys, every key when persistence is
   disabled): every Set/Get/Delete/Exists/Incr/SetNX is ONE atomic tier call, so for every schedule and any
   number of callers the completed operations, in completion order, are a legal sequential history of one
   register — no stale read, no duplicate counter value. *)
From TX Require Import Model.Hybrid Proofs.Hybrid.
From Coq Require Import Lia.

Lemma tget_wr_same w t k o : tget (wr w t k o) t k = o.
Proof. destruct t; cbn; unfold supd; now rewrite keq_refl. Qed.
Lemma tget_acc w t k t' k' : tget (acc w t k) t' k' = tget w t' k'.
Proof. destruct t'; reflexivity. Qed.
Lemma tget_add_hist w e t k : tget (add_hist w e) t k = tget w t k.
Proof. destruct t; reflexivity. Qed.
Lemma spawned_wr w t k o : w_spawned (wr w t k o) = w_spawned w.
Proof. destruct t; reflexivity. Qed.
Lemma hist_wr w t k o : w_hist (wr w t k o) = w_hist w.
Proof. destruct t; reflexivity. Qed.
Lemma spawned_tset w t k o : w_spawned (tset w t k o) = w_spawned w.
Proof. destruct t; reflexivity. Qed.
Lemma hist_tset w t k o : w_hist (tset w t k o) = w_hist w.
Proof. destruct t; reflexivity. Qed.

(* completed operations (newest first) replayed on the sequential specification *)
Inductive linearized (init : option value) : list (nat * op * res) -> option value -> Prop :=
| lin_nil : linearized init [] init
| lin_cons i o h st : linearized init h st ->
    linearized init ((i, o, snd (spec_op st o)) :: h) (fst (spec_op st o))
(* SetExpiration never changes the register; it answers nil only if the register holds a value (and the cache has it), else "not found" *)
| lin_exp i k r h st : linearized init h st -> exp_res_ok st r ->
    linearized init ((i, OSetExp k, r) :: h) st.

Section One.
  Variable T : tables.
  Variable c : cfg.
  Hypothesis Hfi : fix_incr c = true.
  Hypothesis Hfn : fix_setnx c = true.
  Hypothesis Hwb : fix_wb c = false.          (* the code without the key-lock repair; Proofs/HybridLock.v covers the repaired code *)
  Variable k : kbytes.
  Hypothesis H1 : two_tier T c k = false.
  Let ct := cache_tier_for_key T c k.

  Definition one_call (o : op) : bool := match o with OAppend _ _ | ORemove _ _ | OSetExp _ => false | _ => true end.
  Definition op_ok (o : op) : Prop := op_key o = k /\ one_call o = true.

  Lemma pers_off : is_pers_cat (category T k) && en_pers c = false.
  Proof. exact H1. Qed.

  Lemma one_step cl w o r :
    cpc cl = PIdle -> ops cl = o :: r -> faults cl = [] -> held cl = false -> op_ok o ->
    cpc (fst (caller_step T c cl w)) = PIdle /\ ops (fst (caller_step T c cl w)) = r /\
    faults (fst (caller_step T c cl w)) = [] /\ held (fst (caller_step T c cl w)) = false /\
    w_spawned (snd (caller_step T c cl w)) = w_spawned w /\
    w_hist (snd (caller_step T c cl w)) = (me cl, o, snd (spec_op (tget w ct k) o)) :: w_hist w /\
    tget (snd (caller_step T c cl w)) ct k = fst (spec_op (tget w ct k) o).
  Proof.
    intros Hpc Hops Hf Hh [Hk Hl]. unfold caller_step. rewrite Hpc, Hops.
    assert (Hlo : locks_op c o = false) by (unfold locks_op; rewrite Hwb; destruct o; reflexivity). rewrite Hlo.
    unfold pop_fault. rewrite Hf.
    pose proof (ctk_cases T c k) as Hct. pose proof pers_off as Hp. fold ct in Hct.
    destruct o as [k0 v|k0|k0|k0|k0 x|k0 x|k0|k0 v|k0]; cbn in Hk, Hl; try discriminate; subst k0; cbn [op_start].
    - (* Set *)
      unfold set_start. destruct (category T k) eqn:Hc; cbn [is_pers_cat andb] in Hp; try rewrite Hp; rewrite <- ?Hct;
        unfold finish; cbn [cur cpc ops faults me held fst snd spec_op]; rewrite ?Hh;
        rewrite ?tget_add_hist, ?tget_wr_same, ?spawned_wr, ?hist_wr; cbn; rewrite ?spawned_wr, ?hist_wr, ?spawned_tset, ?hist_tset; repeat split; first [reflexivity | exact Hf].
    - (* Get *)
      unfold get_start. destruct (category T k) eqn:Hc; cbn [is_pers_cat andb] in Hp; try rewrite Hp; rewrite <- ?Hct;
        destruct (tget w ct k) eqn:Ev; unfold get_done, val_res, finish; cbn [cur cpc ops faults me held fst snd spec_op]; rewrite ?Hh;
        rewrite ?tget_add_hist, ?tget_acc, ?Ev; cbn; rewrite ?tget_add_hist, ?tget_acc, ?Ev; repeat split; first [reflexivity | exact Hf].
    - (* Delete *)
      unfold del_start. destruct (category T k) eqn:Hc; cbn [is_pers_cat andb] in Hp; try rewrite Hp; rewrite <- ?Hct;
        unfold finish; cbn [cur cpc ops faults me held fst snd spec_op]; rewrite ?Hh;
        rewrite ?tget_add_hist, ?tget_wr_same; cbn; rewrite ?spawned_wr, ?hist_wr, ?spawned_tset, ?hist_tset, ?tget_add_hist, ?tget_wr_same; repeat split; first [reflexivity | exact Hf].
    - (* Exists *)
      unfold exists_start. destruct (category T k) eqn:Hc; cbn [is_pers_cat andb negb] in Hp |- *; try rewrite Hp; rewrite <- ?Hct;
        destruct (tget w ct k) eqn:Ev; cbn [is_some]; unfold finish; cbn [cur cpc ops faults me held fst snd spec_op]; rewrite ?Hh;
        rewrite ?tget_add_hist, ?tget_acc, ?Ev; cbn; rewrite ?tget_add_hist, ?tget_acc, ?Ev; repeat split; first [reflexivity | exact Hf].
    - (* Incr *)
      unfold incr_start. rewrite Hfi. fold ct.
      destruct (tget w ct k) as [[n|l|n]|] eqn:Ev; unfold finish; cbn [cur cpc ops faults me held fst snd spec_op]; rewrite ?Hh;
        rewrite ?tget_add_hist, ?tget_wr_same, ?tget_acc, ?Ev; cbn; rewrite ?spawned_wr, ?hist_wr, ?spawned_tset, ?hist_tset, ?tget_add_hist, ?tget_wr_same, ?tget_acc, ?Ev; repeat split; first [reflexivity | exact Hf].
    - (* SetNX *)
      unfold setnx_start. rewrite Hfn, H1. cbn [andb]. fold ct.
      destruct (tget w ct k) eqn:Ev; unfold finish; cbn [cur cpc ops faults me held fst snd spec_op]; rewrite ?Hh;
        rewrite ?tget_add_hist, ?tget_wr_same, ?tget_acc, ?Ev; cbn; rewrite ?spawned_wr, ?hist_wr, ?spawned_tset, ?hist_tset, ?tget_add_hist, ?tget_wr_same, ?tget_acc, ?Ev; repeat split; first [reflexivity | exact Hf].
  Qed.

  Definition thread1_ok (t : thread) : Prop :=
    match t with
    | TCaller cl => cpc cl = PIdle /\ faults cl = [] /\ held cl = false /\ Forall op_ok (ops cl)
    | TWb _ _ => True
    end.
  Definition LInv (init : option value) (s : world * list thread) : Prop :=
    w_spawned (fst s) = [] /\ linearized init (w_hist (fst s)) (tget (fst s) ct k) /\ Forall thread1_ok (snd s).

  Lemma linv_step init s i : LInv init s -> LInv init (sys_step _ _ (tstep T c) s i).
  Proof.
    destruct s as [w ts]. unfold LInv, sys_step. cbn [fst snd]. intros (Hs & Hl & Hts).
    destruct (nth_error ts i) as [t|] eqn:E; [|auto].
    pose proof (Forall_nth_error _ _ _ _ Hts E) as Ht.
    destruct t as [cl|j [|]]; cbn [tstep].
    - destruct Ht as (Hpc & Hf & Hh & Hops).
      destruct (ops cl) as [|o r] eqn:Eo.
      + unfold caller_step. rewrite Hpc, Eo. cbn [fst snd]. split; [exact Hs|split; [exact Hl|]].
        apply Forall_upd_nth; [exact Hts|]. cbn. rewrite Eo. auto.
      + inversion Hops as [|? ? Ho Hr]; subst.
        pose proof (one_step cl w o r Hpc Eo Hf Hh Ho) as (P1 & P2 & P3 & P3h & P4 & P5 & P6).
        destruct (caller_step T c cl w) as [cl' w']. cbn [fst snd] in *.
        split; [rewrite P4; exact Hs|split].
        * rewrite P5, P6. constructor. exact Hl.
        * apply Forall_upd_nth; [exact Hts|]. cbn. rewrite P2. auto.
    - cbn [fst snd]. split; [exact Hs|split; [exact Hl|]]. apply Forall_upd_nth; [exact Hts|exact I].
    - rewrite Hs. assert (E0 : nth_error (@nil (kbytes * tier * value)) j = None) by (destruct j; reflexivity).
      rewrite E0. cbn [fst snd]. split; [exact Hs|split; [exact Hl|]]. apply Forall_upd_nth; [exact Hts|exact I].
  Qed.

  Theorem single_tier_linearizable init w ts sched :
    w_spawned w = [] -> w_hist w = [] -> tget w ct k = init -> Forall thread1_ok ts ->
    LInv init (hrun T c w ts sched).
  Proof.
    intros Hs Hh Hi Hts. unfold hrun. apply inv_all_schedules; [intros s i; apply linv_step|].
    unfold LInv. cbn [fst snd]. rewrite Hh, Hi. split; [exact Hs|split; [constructor|exact Hts]].
  Qed.

  (* consequences of a legal history: a Get returns the value of the latest completed mutation; counter values
     handed out by Incr are strictly increasing in completion order, hence pairwise distinct *)
  Definition incr_vals (h : list (nat * op * res)) : list N :=
    flat_map (fun e => match e with (_, OIncr _, RInt n) => [n] | _ => [] end) h.

  Definition only_incr (h : list (nat * op * res)) : Prop := Forall (fun e => exists kk, snd (fst e) = OIncr kk) h.

  Lemma incr_sorted init h st :
    linearized init h st -> only_incr h ->
    (forall n, In n (incr_vals h) -> exists m, st = Some (VInt m) /\ (n <= m)%N) /\ NoDup (incr_vals h).
  Proof.
    induction 1 as [|i o h st Hl IH|i k0 r h st Hl IH Hr]; intros Ho; cbn [incr_vals flat_map].
    - split; [intros n []|constructor].
    - inversion Ho as [|? ? (kk & Ek) Hr]; subst. cbn in Ek. subst o.
      destruct (IH Hr) as [IH1 IH2]. fold (incr_vals h).
      destruct st as [[n|l|n]|]; cbn [spec_op fst snd].
      + split; [intros m Hm; destruct (IH1 m Hm) as (m' & Hx & _); discriminate|exact IH2].
      + split; [intros m Hm; destruct (IH1 m Hm) as (m' & Hx & _); discriminate|exact IH2].
      + split.
        * intros m [<-|Hm]; [exists (n + 1)%N; split; [reflexivity|lia]|].
          destruct (IH1 m Hm) as (m' & Hx & Hle). inversion Hx; subst. exists (m' + 1)%N. split; [reflexivity|lia].
        * cbn. constructor; [|exact IH2]. intros Hin. destruct (IH1 _ Hin) as (m' & Hx & Hle). inversion Hx; subst. lia.
      + split.
        * intros m [<-|Hm]; [exists 1%N; split; [reflexivity|lia]|].
          destruct (IH1 m Hm) as (m' & Hx & _). discriminate.
        * cbn. constructor; [|exact IH2]. intros Hin. destruct (IH1 _ Hin) as (m' & Hx & _). discriminate.
    - inversion Ho as [|? ? (kk & Ek) Hrest]; subst. cbn in Ek. discriminate.
  Qed.
End One.

(* Proofs/CmdContext.v — C11, overlapping commands: the context of a handler is immutable after dispatch, over ALL
   interleavings of dispatch / handler-look / Execute-return steps of any number of commands. *)
From TX Require Import Model.CmdContext.
From Coq Require Import NArith List Lia.
Import ListNotations.

(* a thread is fine w.r.t. a heap: the context object it holds carries its own command, and so does everything it saw *)
Definition good (h : list ctxval) (l : cthread) : Prop :=
  match t_cell l with Some c => nth_error h c = Some (t_own l) | None => True end /\ Forall (eq (t_own l)) (t_obs l).

Lemma good_grow h v l : good h l -> good (h ++ [v]) l.
Proof.
  intros [Hc Ho]. split; [|exact Ho]. destruct (t_cell l) as [c|]; [|exact I].
  rewrite nth_error_app1; [exact Hc|]. apply nth_error_Some. rewrite Hc. discriminate.
Qed.

Lemma Forall_upd_nth {A} (P : A -> Prop) i x l : Forall P l -> P x -> Forall P (upd_nth i x l).
Proof.
  revert i. induction l as [|y l IH]; intros [|i] Hl Hx; cbn [upd_nth]; auto; inversion Hl; subst; constructor; auto.
Qed.

Definition ctx_inv (s : st cshared cthread) : Prop := Forall (good (c_heap (fst s))) (snd s).

Lemma ctx_inv_step s i : ctx_inv s -> ctx_inv (sys_step cshared cthread (ctx_step false) s i).
Proof.
  unfold ctx_inv, sys_step. destruct s as [sh ths]. cbn [fst snd]. intro H.
  destruct (nth_error ths i) as [l|] eqn:E; [|exact H].
  assert (Hl : good (c_heap sh) l). { rewrite Forall_forall in H. apply H. eapply nth_error_In; eauto. }
  unfold ctx_step. destruct (t_cell l) as [c|] eqn:C.
  - destruct (t_script l) as [|[|] rest]; cbn [fst snd].
    + apply Forall_upd_nth; assumption.
    + (* the handler looks at its context *)
      apply Forall_upd_nth; [exact H|].
      destruct Hl as [Hc Ho]. rewrite C in Hc. split; cbn [t_cell t_own t_obs]; [exact Hc|].
      apply Forall_app. split; [exact Ho|]. constructor; [|constructor].
      rewrite (nth_error_nth _ _ ctx_default Hc). reflexivity.
    + (* Execute returns: nothing happens to the context *)
      apply Forall_upd_nth; [exact H|].
      destruct Hl as [Hc Ho]. rewrite C in Hc. split; cbn [t_cell t_own t_obs]; assumption.
  - (* dispatch: a new object, nobody else's is touched *)
    cbn [fst snd c_heap]. apply Forall_upd_nth.
    + rewrite Forall_forall in *. intros x Hx. apply good_grow. now apply H.
    + destruct Hl as [_ Ho]. split; cbn [set_cell t_cell t_own t_obs]; [|exact Ho].
      rewrite nth_error_app2 by lia. rewrite Nat.sub_diag. reflexivity.
Qed.

Lemma ctx_inv_init ths : ctx_inv (ctx_init ths).
Proof.
  unfold ctx_inv, ctx_init. cbn [fst snd]. rewrite Forall_forall. intros l Hl. apply in_map_iff in Hl.
  destruct Hl as [p [<- _]]. split; cbn; [exact I|constructor].
Qed.

(* threads keep their command: t_own never changes *)
Lemma owns_step pooled s i : map t_own (snd (sys_step cshared cthread (ctx_step pooled) s i)) = map t_own (snd s).
Proof.
  unfold sys_step. destruct s as [sh ths]. cbn [fst snd]. destruct (nth_error ths i) as [l|] eqn:E; [|reflexivity].
  assert (Ho : t_own (fst (ctx_step pooled l sh)) = t_own l).
  { unfold ctx_step. destruct (t_cell l); [destruct (t_script l) as [|[|] ?]; reflexivity|].
    destruct (if pooled then c_pool sh else []); reflexivity. }
  destruct (ctx_step pooled l sh) as [l' sh']. cbn [fst snd] in *.
  revert i E. induction ths as [|x ths IH]; intros [|i] E; cbn in *; try discriminate; try reflexivity.
  - injection E as ->. now rewrite Ho.
  - f_equal. now apply IH.
Qed.

Lemma owns_run pooled ths sched : map t_own (snd (ctx_run pooled ths sched)) = map fst ths.
Proof.
  unfold ctx_run. assert (H0 : map t_own (snd (ctx_init ths)) = map fst ths).
  { unfold ctx_init. cbn [snd]. rewrite map_map. reflexivity. }
  revert H0. generalize (ctx_init ths). induction sched as [|i rest IH]; intros s H0; cbn [run fold_left]; [exact H0|].
  apply IH. now rewrite owns_step.
Qed.

(* MAIN: for any set of commands, any scripts, any interleaving, every observation a handler makes of its context is the
   command it was dispatched for: the connection it arrived on, the identity resolved for that connection at dispatch, its body *)
Theorem context_immutable_all_schedules :
  forall (ths : list (ctxval * list action)) (sched : list nat),
  Forall2 (fun p obs => Forall (eq (fst p)) obs) ths (observations (ctx_run false ths sched)).
Proof.
  intros ths sched.
  assert (Hinv : ctx_inv (ctx_run false ths sched)).
  { unfold ctx_run. apply (inv_all_schedules cshared cthread (ctx_step false) ctx_inv); [intros; now apply ctx_inv_step|apply ctx_inv_init]. }
  pose proof (owns_run false ths sched) as Hown. unfold observations, ctx_inv in *.
  destruct (ctx_run false ths sched) as [sh ls]. cbn [fst snd] in *.
  clear -Hinv Hown. revert ths Hown. induction ls as [|l ls IH]; intros [|p ths] Hown; cbn in *; try discriminate; constructor.
  - inversion Hinv as [|? ? [_ Ho] ?]; subst. injection Hown as <- _. exact Ho.
  - inversion Hinv; subst. injection Hown as _ Hrest. now apply IH.
Qed.

(* the refuted variant: contexts recycled through a pool when Execute returns (a seeded breaking change).
   Command 0 from connection 1 (client 1) is a one-way command whose handler is still running when command 1 from
   connection 2 (client 2) is dispatched: the second look of handler 0 shows connection 2 / client 2 / the other body *)
Definition ths_demo : list (ctxval * list action) :=
  [((1, 1, 0)%N, [AReturn; ALook; ALook]); ((2, 2, 1)%N, [AReturn; ALook])].
Definition sched_demo : list nat := [0; 0; 0; 1; 0].

Lemma pooled_context_refuted :
  observations (ctx_run true ths_demo sched_demo) = [[(1, 1, 0)%N; (2, 2, 1)%N]; []]
  /\ observations (ctx_run false ths_demo sched_demo) = [[(1, 1, 0)%N; (1, 1, 0)%N]; []].
Proof. split; vm_compute; reflexivity. Qed.

(* per-command state on the shared handler object is refuted: the stranger's command (connection 3) captures its identity, the
   party's command (connection 1) is dispatched, the stranger's handler then reads identity 1 for its party check *)
Definition ths_shared_demo : list (ctxval * list action) :=
  [((3, 3, 0)%N, [ALook; ALook]); ((1, 1, 1)%N, [ALook])].
Lemma shared_handler_field_refuted :
  observations (ctx_run_shared ths_shared_demo [0; 0; 1; 0]) = [[(3, 3, 0)%N; (1, 1, 1)%N]; []]
  /\ observations (ctx_run false ths_shared_demo [0; 0; 1; 0]) = [[(3, 3, 0)%N; (3, 3, 0)%N]; []].
Proof. split; vm_compute; reflexivity. Qed.

(* two ConfigGet commands (client 1 and client 2, two mappings each) interleaved on the shared buffer: client 1's answer
   contains client 2's items *)
Lemma shared_answer_buffer_refuted :
  map b_answer (snd (buf_run true [(1%N, 2); (2%N, 2)] [0; 0; 1; 1; 0; 1; 0; 1])) = [Some [2; 1; 2]%N; Some [2; 1; 2]%N].
Proof. vm_compute. reflexivity. Qed.

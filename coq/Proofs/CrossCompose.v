(* Proofs/CrossCompose.v — the forwarder's upload loop composed with the cross-node stream: what the local connection
   hands out (Base/Chunks.v oracle, Model/Forward.v oracle_chunks), written chunk by chunk to a FrameStream and followed
   by the half-close, is what the peer's FrameStream reads. *)
From TX Require Import Model.CrossFrame Proofs.CrossFrame Model.Forward Proofs.Forward.
Open Scope N_scope.

Lemma accepted_writes_then_close (l : list (list byte)) (cl : wop) :
  match cl with WWrite _ => False | _ => True end -> accepted (map WWrite l ++ [cl]) = concat l.
Proof.
  intros Hc. induction l as [|c t IH]; cbn [map app accepted concat].
  - destruct cl; [contradiction|reflexivity|reflexivity].
  - now rewrite IH.
Qed.

Theorem end_to_end_upload M (HM : M < 4294967296) (HP : 1 <= M) (cap : N) (r : rd) tid weof caps dcap c :
  (0 < cap) -> length tid = 16%nat -> Forall (fun k => (1 <= k)%nat) caps -> (1 <= dcap)%nat ->
  let upc := oracle_chunks (length (rest r)) cap r in
  data_of (fst (fst (read_stream M tid weof caps dcap (encode_all M (script_frames M tid false (map WWrite upc ++ [WCloseWrite]))) c))) = rest r /\
  last (fst (fst (read_stream M tid weof caps dcap (encode_all M (script_frames M tid false (map WWrite upc ++ [WCloseWrite]))) c))) RFuel = REof.
Proof.
  intros Hc Ht Hcaps Hd upc.
  destruct (stream_transparent M HM tid HP (map WWrite upc ++ [WCloseWrite]) weof caps dcap c Ht Hcaps Hd) as [A B].
  rewrite A, B. rewrite accepted_writes_then_close by exact I.
  split; [|reflexivity]. apply (oracle_chunks_concat cap Hc). lia.
Qed.

Lemma end_to_end_example :
  let r := {| rest := [1;2;3;4;5;6;7]; cuts := [2;1;9]%nat; endk := 0; carry := false |} in
  oracle_chunks 7 3 r = [[1;2]; [3]; [4;5;6]; [7]] /\
  fst (fst (read_stream 4 (wire_id [97]) false [2]%nat 5%nat
              (encode_all 4 (script_frames 4 (wire_id [97]) false (map WWrite (oracle_chunks 7 3 r) ++ [WCloseWrite]))) [1;30]%nat))
  = [RData [1;2]; RData [3]; RData [4;5;6]; RData [7]; REof].
Proof. vm_compute. auto. Qed.
Close Scope N_scope.

(* Proofs/Pipe.v — C02: the copy loop and the two-direction bridge deliver a prefix, everything if nothing
   closed early, count exactly, and close once.  All statements are for every read script, write oracle,
   limiter setting and (for the bridge) every schedule. *)
From TX Require Import Model.Pipe.
From Coq Require Import ZArith ZifyN ZifyNat ZifyBool Lia.
Open Scope N_scope.

(* ---------- limiter ---------- *)

Lemma forallb_repeat {A} (f : A -> bool) x n : f x = true -> forallb f (repeat x n) = true.
Proof. intros H. induction n as [|n IH]; cbn; [reflexivity|now rewrite H, IH]. Qed.

Lemma sum_repeat x n : fold_right N.add 0 (repeat x n) = N.of_nat n * x.
Proof. induction n as [|n IH]; [reflexivity|]. cbn [repeat fold_right]. rewrite IH. lia. Qed.

(* waitForTokens: the WaitN arguments are all <= burst and add up to the read size *)
Lemma sliced_slices_spec burst n : 0 < burst ->
  Forall (fun k => 0 < k <= burst) (wait_slices Sliced burst n) /\
  fold_right N.add 0 (wait_slices Sliced burst n) = n.
Proof.
  intros Hb. unfold wait_slices. destruct (N.eqb_spec burst 0) as [E|_]; [lia|].
  assert (Hm : n mod burst < burst) by (apply N.mod_lt; lia).
  assert (Hd : n = burst * (n / burst) + n mod burst) by (apply N.div_mod; lia).
  split.
  - apply Forall_app. split.
    + apply Forall_forall. intros k Hk. apply repeat_spec in Hk. subst k. lia.
    + destruct (N.eqb_spec (n mod burst) 0); constructor; [lia|constructor].
  - rewrite fold_right_app.
    assert (Hgen : forall l a, fold_right N.add a l = fold_right N.add 0 l + a).
    { induction l as [|x l IH]; intros a; cbn [fold_right]; [lia|]. rewrite IH. lia. }
    rewrite Hgen, sum_repeat.
    destruct (N.eqb_spec (n mod burst) 0) as [E|E]; cbn [fold_right]; lia.
Qed.

Lemma sliced_limiter_never_fails burst n : 0 < burst -> limiter_ok Sliced (Some burst) false n = true.
Proof.
  intros Hb. unfold limiter_ok. destruct (sliced_slices_spec burst n Hb) as [HF _].
  apply forallb_forall. intros k Hk. rewrite Forall_forall in HF. specialize (HF k Hk).
  unfold waitn_ok. lia.
Qed.

Lemma pinned_limiter_fails burst n : burst < n -> limiter_ok Pinned (Some burst) false n = false.
Proof. intros H. unfold limiter_ok, wait_slices, waitn_ok. cbn [forallb]. lia. Qed.

Lemma no_limiter_ok v c n : limiter_ok v None c n = true.
Proof. reflexivity. Qed.

(* ---------- accounting ---------- *)

Definition acct_ok (a : acct) : Prop := a_counter a + a_batch a = a_total a.

Lemma acct_add_total th a nw : a_total (acct_add th a nw) = a_total a + nw.
Proof.
  unfold acct_add. destruct (N.eqb_spec nw 0) as [->|_]; [lia|].
  destruct (th <=? a_batch a + nw); cbn; reflexivity.
Qed.
Lemma acct_add_ok th a nw : acct_ok a -> acct_ok (acct_add th a nw).
Proof.
  unfold acct_ok, acct_add. intros H. destruct (N.eqb_spec nw 0) as [->|_]; [exact H|].
  destruct (th <=? a_batch a + nw); cbn; lia.
Qed.
Lemma acct_flush_spec a : acct_ok a ->
  a_total (acct_flush a) = a_total a /\ a_counter (acct_flush a) = a_total a /\ a_batch (acct_flush a) = 0
  /\ acct_ok (acct_flush a).
Proof. unfold acct_ok, acct_flush. cbn. lia. Qed.
(* the counter never runs ahead, and lags by less than the threshold (nothing is ever lost in a batch) *)
Definition acct_lag_ok (th : N) (a : acct) : Prop := acct_ok a /\ (0 < th -> a_batch a < th).
Lemma acct_add_lag th a nw : acct_lag_ok th a -> acct_lag_ok th (acct_add th a nw).
Proof.
  unfold acct_lag_ok. intros [H1 H2]. split; [apply acct_add_ok; exact H1|].
  intros Hth. specialize (H2 Hth). unfold acct_add. destruct (N.eqb_spec nw 0) as [->|_]; [exact H2|].
  destruct (N.leb_spec th (a_batch a + nw)); cbn; lia.
Qed.

Lemma do_write_le ws data nw err ws' : do_write ws data = (nw, err, ws') -> nw <= lenN data.
Proof. unfold do_write. destruct ws as [|w r]; intros H; inversion H; subst; lia. Qed.

Lemma firstn_split_len (data : list byte) nw : nw <= lenN data ->
  lenN (firstn (N.to_nat nw) data) = nw /\ data = firstn (N.to_nat nw) data ++ skipn (N.to_nat nw) data.
Proof. intros H. unfold lenN in *. rewrite firstn_length. split; [lia|now rewrite firstn_skipn]. Qed.

Lemma firstn_full (data : list byte) nw : nw = lenN data -> firstn (N.to_nat nw) data = data.
Proof. intros ->. unfold lenN. rewrite Nat2N.id. apply firstn_all. Qed.

(* a write that cannot fail or fall short on chunks of at most B bytes *)
Definition wr_full (B : N) (w : wr) : Prop := w_err w = false /\ B <= w_max w.
Lemma do_write_full B ws data : Forall (wr_full B) ws -> lenN data <= B ->
  exists ws', do_write ws data = (lenN data, false, ws') /\ Forall (wr_full B) ws'.
Proof.
  intros HF Hl. destruct ws as [|w r]; cbn.
  - exists []. auto.
  - inversion HF as [|? ? [He Hm] HF']; subst. exists r. rewrite He. split; [|exact HF'].
    f_equal. f_equal. lia.
Qed.

Section P.
  Variable v : variant.
  Variable threshold interval : N.
  Variable lim : option N.

  Notation copy_iter := (copy_iter v threshold lim).
  Notation copy_loop := (copy_loop v threshold interval lim).
  Notation bstep := (bstep v threshold lim).

  (* ================= sequential copy loop ================= *)

  (* s' extends s by the bytes d *)
  Definition ext (s s' : cst) (d : list byte) : Prop :=
    c_out s' = c_out s ++ d /\
    a_total (c_acct s') = a_total (c_acct s) + lenN d /\
    (acct_lag_ok threshold (c_acct s) -> acct_lag_ok threshold (c_acct s')).

  Lemma ext_refl s : ext s s [].
  Proof. unfold ext. split; [now rewrite app_nil_r|]. split; [unfold lenN; cbn; lia|auto]. Qed.

  Lemma ext_same s s' : c_out s' = c_out s -> c_acct s' = c_acct s -> ext s s' [].
  Proof.
    intros H1 H2. unfold ext. rewrite H1, H2. split; [now rewrite app_nil_r|].
    split; [unfold lenN; cbn; lia|auto].
  Qed.

  Lemma copy_iter_spec cancelled r ws s :
    match copy_iter cancelled r ws s with
    | ICont s' ws' => ext s s' (r_data r) /\ r_end r <> RFatal
    | IStop x s' => exists d rest, ext s s' d /\ r_data r = d ++ rest /\
                                   (x = XReadEnd -> rest = [] /\ r_end r = RFatal)
    end.
  Proof.
    unfold Pipe.copy_iter. destruct (r_data r) as [|b bs] eqn:Ed.
    - destruct (r_end r) eqn:Ee.
      + split; [apply ext_refl|discriminate].
      + split; [apply ext_refl|discriminate].
      + exists [], []. split; [apply ext_refl|]. auto.
    - rewrite <- Ed. set (data := r_data r).
      destruct (limiter_ok v lim cancelled (lenN data)); cbn [negb].
      2:{ exists [], data. split; [apply ext_refl|]. split; [reflexivity|discriminate]. }
      destruct (do_write ws data) as [[nw err] ws'] eqn:Ew.
      pose proof (do_write_le _ _ _ _ _ Ew) as Hle.
      destruct (firstn_split_len data nw Hle) as [Hlen Hsplit].
      set (s' := {| c_out := c_out s ++ firstn (N.to_nat nw) data; c_acct := acct_add threshold (c_acct s) nw;
                    c_ck := c_ck s; c_nrd := c_nrd s; c_nwr := c_nwr s + 1 |}).
      assert (Hext : ext s s' (firstn (N.to_nat nw) data)).
      { unfold ext, s'; cbn [c_out c_acct]. split; [reflexivity|].
        split; [rewrite acct_add_total, Hlen; reflexivity|apply acct_add_lag]. }
      destruct err.
      { exists (firstn (N.to_nat nw) data), (skipn (N.to_nat nw) data). split; [exact Hext|]. split; [exact Hsplit|discriminate]. }
      destruct (N.eqb_spec nw (lenN data)) as [Heq|Hne]; cbn [negb].
      2:{ exists (firstn (N.to_nat nw) data), (skipn (N.to_nat nw) data). split; [exact Hext|]. split; [exact Hsplit|discriminate]. }
      rewrite (firstn_full data nw Heq) in Hext.
      destruct (r_end r) eqn:Ee.
      + split; [exact Hext|discriminate].
      + split; [exact Hext|discriminate].
      + exists data, []. split; [exact Hext|]. rewrite app_nil_r. auto.
  Qed.

  Lemma flush_ext s s' d : ext s s' d -> ext s (cst_flush s') d.
  Proof.
    unfold ext, cst_flush; cbn [c_out c_acct]. intros (H1 & H2 & H3).
    split; [exact H1|]. split; [cbn; exact H2|].
    intros H. destruct (H3 H) as [Hok _]. destruct (acct_flush_spec _ Hok) as (F1 & F2 & F3 & F4).
    split; [exact F4|]. intros Hth. rewrite F3. exact Hth.
  Qed.

  Lemma ext_trans s1 s2 s3 d1 d2 : ext s1 s2 d1 -> ext s2 s3 d2 -> ext s1 s3 (d1 ++ d2).
  Proof.
    unfold ext. intros (A1 & A2 & A3) (B1 & B2 & B3).
    split; [rewrite B1, A1, app_assoc; reflexivity|].
    split; [rewrite B2, A2, lenN_app; lia|]. intros H. apply B3, A3, H.
  Qed.

  (* (1) delivered_is_prefix, sequential form, with exact accounting *)
  Lemma copy_loop_prefix : forall cancelled rs ws s x s',
    copy_loop cancelled rs ws s = (x, s') ->
    exists d rest, ext s s' d /\ readable rs = d ++ rest /\ a_batch (c_acct s') = 0 /\
                   (x = XReadEnd -> rest = []).
  Proof.
    intros cancelled rs. induction rs as [|r rs IH]; intros ws s x s' H; cbn [Pipe.copy_loop] in H.
    - destruct ((interval <=? c_ck s + 1) && cancelled).
      + inversion H; subst. exists [], []. split; [apply flush_ext, ext_refl|]. cbn. auto.
      + inversion H; subst. exists [], []. split; [|cbn; auto].
        apply flush_ext. apply ext_same; reflexivity.
    - destruct ((interval <=? c_ck s + 1) && cancelled).
      { inversion H; subst. exists [], (readable (r :: rs)). split; [apply flush_ext, ext_refl|]. cbn. split; [reflexivity|]. split; [reflexivity|discriminate]. }
      set (s1 := {| c_out := c_out s; c_acct := c_acct s; c_ck := if interval <=? c_ck s + 1 then 0 else c_ck s + 1;
                    c_nrd := c_nrd s + 1; c_nwr := c_nwr s |}) in *.
      assert (H01 : ext s s1 []) by (apply ext_same; reflexivity).
      pose proof (copy_iter_spec cancelled r ws s1) as Hit.
      destruct (copy_iter cancelled r ws s1) as [s2 ws2|x2 s2].
      + destruct Hit as [Hext Hne].
        destruct (IH _ _ _ _ H) as (d & rest & Hd & Hr & Hb & Hx).
        exists (r_data r ++ d), rest. split.
        * apply (ext_trans s s1 s' [] (r_data r ++ d) H01). apply (ext_trans s1 s2 s' _ _ Hext Hd).
        * cbn [readable]. split; [|auto]. destruct (r_end r); try congruence; now rewrite Hr, app_assoc.
      + inversion H; subst x2 s'. clear H.
        destruct Hit as (d & rest & Hext & Hr & Hx).
        exists d, (rest ++ match r_end r with RFatal => [] | _ => readable rs end). split.
        * apply flush_ext. apply (ext_trans s s1 s2 [] d H01 Hext).
        * cbn [readable]. rewrite Hr, app_assoc. split; [reflexivity|]. split; [reflexivity|].
          intros E. destruct (Hx E) as [-> ->]. reflexivity.
  Qed.

  (* (2) complete_if_no_early_close, sequential form *)
  Lemma copy_loop_complete B : forall rs ws s x s',
    (forall n, limiter_ok v lim false n = true) ->
    Forall (wr_full B) ws -> Forall (fun r => lenN (r_data r) <= B) rs ->
    copy_loop false rs ws s = (x, s') ->
    x = XReadEnd /\ c_out s' = c_out s ++ readable rs.
  Proof.
    intros rs. induction rs as [|r rs IH]; intros ws s x s' Hlim Hws Hrs H; cbn [Pipe.copy_loop] in H.
    - rewrite andb_false_r in H. inversion H; subst. cbn. rewrite app_nil_r. auto.
    - rewrite andb_false_r in H. inversion Hrs as [|? ? Hr Hrs']; subst.
      unfold Pipe.copy_iter in H. cbn [c_out c_acct c_ck c_nrd c_nwr] in H.
      destruct (r_data r) as [|b bs] eqn:Ed.
      + destruct (r_end r) eqn:Ee.
        * destruct (IH _ _ _ _ Hlim Hws Hrs' H) as [-> Ho]. split; [reflexivity|]. rewrite Ho. cbn [readable c_out]. now rewrite Ed, Ee.
        * destruct (IH _ _ _ _ Hlim Hws Hrs' H) as [-> Ho]. split; [reflexivity|]. rewrite Ho. cbn [readable c_out]. now rewrite Ed, Ee.
        * inversion H; subst. split; [reflexivity|]. cbn [readable cst_flush c_out]. rewrite Ed, Ee. cbn [app]. now rewrite app_nil_r.
      + rewrite <- Ed in *. rewrite Hlim in H. cbn [negb] in H.
        destruct (do_write_full B ws (r_data r) Hws Hr) as (ws' & Ew & Hws').
        rewrite Ew in H. rewrite N.eqb_refl in H. cbn [negb] in H.
        rewrite (firstn_full (r_data r) _ eq_refl) in H.
        destruct (r_end r) eqn:Ee.
        * destruct (IH _ _ _ _ Hlim Hws' Hrs' H) as [-> Ho]. split; [reflexivity|]. rewrite Ho. cbn [readable c_out]. now rewrite Ee, app_assoc.
        * destruct (IH _ _ _ _ Hlim Hws' Hrs' H) as [-> Ho]. split; [reflexivity|]. rewrite Ho. cbn [readable c_out]. now rewrite Ee, app_assoc.
        * inversion H; subst. split; [reflexivity|]. cbn [readable cst_flush c_out]. now rewrite Ee, app_nil_r.
  Qed.

  (* ================= the bridge: two directions + closeOnce, every schedule ================= *)

  (* what one direction's thread guarantees about the bytes o it has delivered so far; all = what its end sends *)
  Definition TI (all : list byte) (t : bthread) (o : list byte) : Prop :=
    acct_lag_ok threshold (b_acct t) /\ a_total (b_acct t) = lenN o /\
    match b_pc t with
    | BRead => all = o ++ readable (b_rs t)
    | BWrite data e => all = o ++ data ++ match e with RFatal => [] | _ => readable (b_rs t) end
    | BFinish x | BDone x =>
        (exists rest, all = o ++ rest) /\ (x = XReadEnd -> all = o) /\
        a_counter (b_acct t) = lenN o /\ a_batch (b_acct t) = 0
    end.

  (* closure bookkeeping seen from one thread *)
  Definition P1 (t : bthread) (sh : bshared) : Prop :=
    (forall x, (b_pc t = BFinish x \/ b_pc t = BDone x) -> closed_kind x = true -> s_closed sh = true) /\
    (forall x, b_pc t = BDone x -> s_closed sh = true).
  Definition CL (sh : bshared) : Prop :=
    (s_closed sh = true /\ s_closes sh = 1%nat) \/ (s_closed sh = false /\ s_closes sh = 0%nat).

  Lemma sh_out_deliver_same d bs sh : sh_out d (sh_deliver d bs sh) = sh_out d sh ++ bs.
  Proof. destruct d; reflexivity. Qed.
  Lemma sh_out_deliver_other d bs sh : sh_out (negb d) (sh_deliver d bs sh) = sh_out (negb d) sh.
  Proof. destruct d; reflexivity. Qed.
  Lemma sh_closed_deliver d bs sh : s_closed (sh_deliver d bs sh) = s_closed sh /\ s_closes (sh_deliver d bs sh) = s_closes sh.
  Proof. destruct d; split; reflexivity. Qed.

  Lemma finish_TI all t x rs ws a o :
    acct_lag_ok threshold a -> a_total a = lenN o -> (exists rest, all = o ++ rest) -> (x = XReadEnd -> all = o) ->
    TI all (b_finish t x rs ws a) o.
  Proof.
    intros [Hok Hlag] Htot Hpre Hx. destruct (acct_flush_spec a Hok) as (F1 & F2 & F3 & F4).
    unfold TI, b_finish, b_set. cbn [b_acct b_pc].
    split; [split; [exact F4|intros; lia]|]. split; [congruence|].
    split; [exact Hpre|]. split; [exact Hx|]. split; [congruence|exact F3].
  Qed.

  (* one step of a direction preserves its guarantee and leaves the other direction's bytes alone *)
  Lemma bstep_TI all t sh t' sh' :
    bstep t sh = (t', sh') -> TI all t (sh_out (b_dir t) sh) ->
    b_dir t' = b_dir t /\ TI all t' (sh_out (b_dir t) sh') /\
    sh_out (negb (b_dir t)) sh' = sh_out (negb (b_dir t)) sh.
  Proof.
    unfold Pipe.bstep. intros H (Hacc & Htot & Hpc).
    set (o := sh_out (b_dir t) sh) in *.
    destruct (b_pc t) as [|data e|x|x] eqn:Epc.
    - (* BRead *)
      destruct (s_closed sh).
      { inversion H; subst t' sh'. split; [reflexivity|]. split; [|reflexivity].
        apply finish_TI; auto; [eexists; exact Hpc|discriminate]. }
      destruct (b_rs t) as [|r rs'] eqn:Ers.
      { inversion H; subst t' sh'. split; [reflexivity|]. split; [|reflexivity].
        cbn [readable] in Hpc. rewrite app_nil_r in Hpc.
        apply finish_TI; auto. exists []. now rewrite app_nil_r. }
      cbn [readable] in Hpc.
      destruct (r_data r) as [|b bs] eqn:Ed.
      + destruct (r_end r) eqn:Ee; inversion H; subst t' sh'; (split; [reflexivity|]); (split; [|reflexivity]).
        * unfold TI, b_set. cbn [b_acct b_pc b_rs]. auto.
        * unfold TI, b_set. cbn [b_acct b_pc b_rs]. auto.
        * cbn [app] in Hpc. rewrite app_nil_r in Hpc. apply finish_TI; auto. exists []. now rewrite app_nil_r.
      + destruct (limiter_ok v lim false (lenN (b :: bs))); cbn [negb] in H; inversion H; subst t' sh';
          (split; [reflexivity|]); (split; [|reflexivity]).
        * unfold TI, b_set. cbn [b_acct b_pc b_rs]. auto.
        * apply finish_TI; auto; [eexists; exact Hpc|discriminate].
    - (* BWrite *)
      destruct (s_closed sh).
      { inversion H; subst t' sh'. split; [reflexivity|]. split; [|reflexivity].
        apply finish_TI; auto; [eexists; exact Hpc|discriminate]. }
      destruct (do_write (b_ws t) data) as [[nw err] ws'] eqn:Ew.
      pose proof (do_write_le _ _ _ _ _ Ew) as Hle.
      destruct (firstn_split_len data nw Hle) as [Hlen Hsplit].
      set (d := firstn (N.to_nat nw) data) in *. set (rest := skipn (N.to_nat nw) data) in *.
      assert (Hacc' : acct_lag_ok threshold (acct_add threshold (b_acct t) nw)) by (apply acct_add_lag; exact Hacc).
      assert (Htot' : a_total (acct_add threshold (b_acct t) nw) = lenN (o ++ d)).
      { rewrite acct_add_total, lenN_app, Htot, Hlen. reflexivity. }
      assert (Hpre : exists r0, all = (o ++ d) ++ r0).
      { eexists. rewrite Hpc, Hsplit, <- !app_assoc. reflexivity. }
      destruct err.
      { inversion H; subst t' sh'. split; [reflexivity|]. rewrite sh_out_deliver_same, sh_out_deliver_other. split; [|reflexivity].
        apply finish_TI; auto. discriminate. }
      destruct (N.eqb_spec nw (lenN data)) as [Heq|Hne]; cbn [negb] in H.
      2:{ inversion H; subst t' sh'. split; [reflexivity|]. rewrite sh_out_deliver_same, sh_out_deliver_other. split; [|reflexivity].
          apply finish_TI; auto. discriminate. }
      assert (Hd : d = data) by (apply firstn_full; exact Heq).
      destruct e; inversion H; subst t' sh'; (split; [reflexivity|]);
        rewrite sh_out_deliver_same, sh_out_deliver_other; (split; [|reflexivity]); fold d.
      + unfold TI, b_set. cbn [b_acct b_pc b_rs]. split; [exact Hacc'|]. split; [exact Htot'|].
        rewrite Hpc, Hd, app_assoc. reflexivity.
      + unfold TI, b_set. cbn [b_acct b_pc b_rs]. split; [exact Hacc'|]. split; [exact Htot'|].
        rewrite Hpc, Hd, app_assoc. reflexivity.
      + apply finish_TI; auto. intros _. rewrite Hpc, Hd, app_nil_r. reflexivity.
    - (* BFinish *)
      inversion H; subst t' sh'. split; [reflexivity|].
      split; [|destruct (s_closed sh), (b_dir t); reflexivity].
      replace (sh_out (b_dir t) (if s_closed sh then sh else _)) with o by (destruct (s_closed sh), (b_dir t); reflexivity).
      unfold TI, b_set. cbn [b_acct b_pc]. auto.
    - (* BDone *)
      inversion H; subst t' sh'. split; [reflexivity|]. split; [|reflexivity].
      unfold TI. rewrite Epc. auto.
  Qed.

  (* closure: monotone, once, and only by a direction whose own loop ended *)
  Lemma bstep_close t sh t' sh' :
    bstep t sh = (t', sh') -> P1 t sh -> CL sh ->
    P1 t' sh' /\ CL sh' /\
    (s_closed sh = true -> s_closed sh' = true) /\
    (s_closed sh = false -> s_closed sh' = true -> exists x, b_pc t' = BDone x /\ closed_kind x = false) /\
    (forall x, b_pc t = BDone x -> b_pc t' = BDone x).
  Proof.
    unfold Pipe.bstep. intros H [Hk Hd] Hcl.
    destruct (b_pc t) as [|data e|x|x] eqn:Epc.
    - destruct (s_closed sh) eqn:Ec.
      { inversion H; subst. split; [split; cbn; [intros x [E|E] _; [exact Ec|discriminate]|discriminate]|].
        split; [exact Hcl|]. split; [intros; congruence|]. split; [intros; congruence|discriminate]. }
      assert (Hgen : forall x rs ws a, closed_kind x = false -> P1 (b_finish t x rs ws a) sh).
      { intros x rs ws a Hx. split; cbn; [intros y [E|E]; inversion E; subst; congruence|discriminate]. }
      assert (Hrd : forall rs ws a, P1 (b_set t BRead rs ws a) sh) by (intros; split; cbn; [intros y [E|E]; discriminate|discriminate]).
      assert (Hwr : forall dd ee rs ws a, P1 (b_set t (BWrite dd ee) rs ws a) sh) by (intros; split; cbn; [intros y [E|E]; discriminate|discriminate]).
      destruct (b_rs t) as [|r rs'].
      { inversion H; subst. split; [apply Hgen; reflexivity|]. split; [exact Hcl|]. split; [intros; congruence|]. split; [intros; congruence|discriminate]. }
      destruct (r_data r) as [|b bs].
      + destruct (r_end r); inversion H; subst; (split; [auto|]); (split; [exact Hcl|]); (split; [intros; congruence|]); (split; [intros; congruence|discriminate]).
      + destruct (limiter_ok v lim false (lenN (b :: bs))); cbn [negb] in H; inversion H; subst;
          (split; [auto|]); (split; [exact Hcl|]); (split; [intros; congruence|]); (split; [intros; congruence|discriminate]).
    - destruct (s_closed sh) eqn:Ec.
      { inversion H; subst. split; [split; cbn; [intros x [E|E] _; [exact Ec|discriminate]|discriminate]|].
        split; [exact Hcl|]. split; [intros; congruence|]. split; [intros; congruence|discriminate]. }
      destruct (do_write (b_ws t) data) as [[nw err] ws'].
      destruct (sh_closed_deliver (b_dir t) (firstn (N.to_nat nw) data) sh) as [Hc1 Hc2].
      assert (Hcl' : CL (sh_deliver (b_dir t) (firstn (N.to_nat nw) data) sh)) by (unfold CL; rewrite Hc1, Hc2; exact Hcl).
      assert (Hgen : forall x rs ws a, closed_kind x = false ->
                 P1 (b_finish t x rs ws a) (sh_deliver (b_dir t) (firstn (N.to_nat nw) data) sh)).
      { intros x rs ws a Hx. split; cbn; [intros y [E|E]; inversion E; subst; congruence|discriminate]. }
      assert (Hrd : forall rs ws a, P1 (b_set t BRead rs ws a) (sh_deliver (b_dir t) (firstn (N.to_nat nw) data) sh))
        by (intros; split; cbn; [intros y [E|E]; discriminate|discriminate]).
      destruct err; [|destruct (negb (nw =? lenN data)); [|destruct e]]; inversion H; subst;
        (split; [auto|]); (split; [exact Hcl'|]); (split; [intros; congruence|]); (split; [intros; congruence|discriminate]).
    - inversion H; subst. destruct (s_closed sh) eqn:Ec.
      + split; [split; cbn; [intros y _ _; exact Ec|intros y _; exact Ec]|].
        split; [exact Hcl|]. split; [intros; congruence|]. split; [intros; congruence|discriminate].
      + split; [split; cbn; auto|]. split; [left; cbn; destruct Hcl as [[Hc _]|[_ Hn]]; [congruence|rewrite Hn; auto]|].
        split; [auto|]. split; [|discriminate]. intros _ _. exists x. cbn. split; [reflexivity|].
        destruct (closed_kind x) eqn:Ek; [|reflexivity]. pose proof (Hk x (or_introl eq_refl) Ek) as Hff. discriminate Hff.
    - inversion H; subst. split; [unfold P1; rewrite Epc; split; assumption|]. split; [exact Hcl|]. split; [auto|]. split; [intros; congruence|].
      intros y E. rewrite Epc. exact E.
  Qed.

  Lemma P1_mono t sh sh' : P1 t sh -> (s_closed sh = true -> s_closed sh' = true) -> P1 t sh'.
  Proof. intros [A B] H. split; intros; apply H; eauto. Qed.

  (* ---- the global invariant over both threads ---- *)
  Section G.
    Variables all0 all1 : list byte.

    Definition GI (s : bshared * list bthread) : Prop :=
      exists t0 t1, snd s = [t0; t1] /\ b_dir t0 = false /\ b_dir t1 = true /\
        TI all0 t0 (s_out0 (fst s)) /\ TI all1 t1 (s_out1 (fst s)) /\
        P1 t0 (fst s) /\ P1 t1 (fst s) /\ CL (fst s) /\
        (s_closed (fst s) = true -> exists x, (b_pc t0 = BDone x \/ b_pc t1 = BDone x) /\ closed_kind x = false).

    Lemma GI_step s i : GI s -> GI (sys_step _ _ bstep s i).
    Proof.
      destruct s as [sh ls]. intros (t0 & t1 & Hls & Hd0 & Hd1 & HT0 & HT1 & HP0 & HP1 & Hcl & Hex).
      cbn [fst snd] in *. subst ls. unfold sys_step. cbn [fst snd].
      destruct i as [|[|i]]; cbn [nth_error].
      - destruct (bstep t0 sh) as [t0' sh'] eqn:Es. cbn [upd_nth fst snd].
        pose proof (bstep_TI all0 t0 sh t0' sh' Es) as HTI. rewrite Hd0 in HTI. cbn [sh_out negb] in HTI.
        destruct (HTI HT0) as (Hd & HT & Hother).
        destruct (bstep_close t0 sh t0' sh' Es HP0 Hcl) as (HP & Hcl' & Hmono & Hnew & Hdone).
        exists t0', t1. cbn [fst snd]. split; [reflexivity|]. split; [congruence|]. split; [exact Hd1|].
        split; [exact HT|]. split; [rewrite Hother; exact HT1|]. split; [exact HP|].
        split; [apply (P1_mono t1 sh sh' HP1 Hmono)|]. split; [exact Hcl'|].
        intros Hc'. destruct (s_closed sh) eqn:Ec.
        + destruct (Hex eq_refl) as (x & [E|E] & Hx); exists x; (split; [|exact Hx]); [left; apply Hdone; exact E|right; exact E].
        + destruct (Hnew eq_refl Hc') as (x & E & Hx). exists x. split; [left; exact E|exact Hx].
      - destruct (bstep t1 sh) as [t1' sh'] eqn:Es. cbn [upd_nth fst snd].
        pose proof (bstep_TI all1 t1 sh t1' sh' Es) as HTI. rewrite Hd1 in HTI. cbn [sh_out negb] in HTI.
        destruct (HTI HT1) as (Hd & HT & Hother).
        destruct (bstep_close t1 sh t1' sh' Es HP1 Hcl) as (HP & Hcl' & Hmono & Hnew & Hdone).
        exists t0, t1'. cbn [fst snd]. split; [reflexivity|]. split; [exact Hd0|]. split; [congruence|].
        split; [rewrite Hother; exact HT0|]. split; [exact HT|].
        split; [apply (P1_mono t0 sh sh' HP0 Hmono)|]. split; [exact HP|]. split; [exact Hcl'|].
        intros Hc'. destruct (s_closed sh) eqn:Ec.
        + destruct (Hex eq_refl) as (x & [E|E] & Hx); exists x; (split; [|exact Hx]); [left; exact E|right; apply Hdone; exact E].
        + destruct (Hnew eq_refl Hc') as (x & E & Hx). exists x. split; [right; exact E|exact Hx].
      - assert (En : nth_error (@nil bthread) i = None) by (destruct i; reflexivity). rewrite En.
        exists t0, t1. cbn [fst snd]. split; [reflexivity|]. repeat (split; [assumption|]). assumption.
    Qed.
  End G.

  Lemma GI_init rs0 ws0 rs1 ws1 :
    GI (readable rs0) (readable rs1) (bridge_init rs0 ws0 rs1 ws1).
  Proof.
    unfold GI, bridge_init. cbn [fst snd]. eexists _, _. split; [reflexivity|]. cbn.
    assert (Ha : acct_lag_ok threshold acct0) by (unfold acct_lag_ok, acct_ok, acct0; cbn; split; [reflexivity|auto]).
    split; [reflexivity|]. split; [reflexivity|].
    split; [unfold TI; cbn; auto|]. split; [unfold TI; cbn; auto|].
    split; [split; cbn; [intros x [E|E]; discriminate|discriminate]|].
    split; [split; cbn; [intros x [E|E]; discriminate|discriminate]|].
    split; [right; auto|discriminate].
  Qed.

  Lemma GI_all rs0 ws0 rs1 ws1 sched :
    GI (readable rs0) (readable rs1) (bridge_run v threshold lim rs0 ws0 rs1 ws1 sched).
  Proof.
    unfold bridge_run. apply (inv_all_schedules _ _ bstep (GI (readable rs0) (readable rs1))).
    - intros s i. apply GI_step.
    - apply GI_init.
  Qed.

  (* ---- fault-free runs: the only ways a loop ends are its own end of stream or the other side's closure ---- *)
  Definition benign (x : xreason) : bool :=
    match x with XReadEnd | XClosedRead | XClosedWrite => true | _ => false end.

  Definition NF (B : N) (t : bthread) : Prop :=
    Forall (wr_full B) (b_ws t) /\ Forall (fun r => lenN (r_data r) <= B) (b_rs t) /\
    match b_pc t with
    | BRead => True
    | BWrite data _ => lenN data <= B
    | BFinish x | BDone x => benign x = true
    end.

  Lemma bstep_NF B t sh t' sh' :
    (forall n, limiter_ok v lim false n = true) ->
    bstep t sh = (t', sh') -> NF B t -> NF B t'.
  Proof.
    unfold Pipe.bstep. intros Hlim H (Hws & Hrs & Hpc).
    destruct (b_pc t) as [|data e|x|x] eqn:Epc.
    - destruct (s_closed sh); [inversion H; subst; unfold NF; cbn; auto|].
      destruct (b_rs t) as [|r rs'] eqn:Ers; [inversion H; subst; unfold NF; cbn; auto|].
      inversion Hrs as [|? ? Hr Hrs']; subst.
      destruct (r_data r) as [|b bs] eqn:Ed.
      + destruct (r_end r); inversion H; subst; unfold NF; cbn; auto.
      + rewrite Hlim in H. cbn [negb] in H. inversion H; subst. unfold NF; cbn [b_set b_ws b_rs b_pc]. auto.
    - destruct (s_closed sh); [inversion H; subst; unfold NF; cbn; auto|].
      destruct (do_write_full B (b_ws t) data Hws Hpc) as (ws' & Ew & Hws').
      rewrite Ew in H. rewrite N.eqb_refl in H. cbn [negb] in H.
      destruct e; inversion H; subst; unfold NF; cbn; auto.
    - inversion H; subst. unfold NF; cbn. auto.
    - inversion H; subst. unfold NF. rewrite Epc. auto.
  Qed.

  Definition NF2 (B : N) (s : bshared * list bthread) : Prop := Forall (NF B) (snd s).

  Lemma NF2_step B s i : (forall n, limiter_ok v lim false n = true) ->
    NF2 B s -> NF2 B (sys_step _ _ bstep s i).
  Proof.
    intros Hlim. destruct s as [sh ls]. unfold NF2, sys_step. cbn [fst snd]. intros HF.
    destruct (nth_error ls i) as [t|] eqn:Ei; [|exact HF].
    destruct (bstep t sh) as [t' sh'] eqn:Es. cbn [snd].
    assert (Ht : NF B t) by (rewrite Forall_forall in HF; apply HF; eapply nth_error_In; exact Ei).
    pose proof (bstep_NF B t sh t' sh' Hlim Es Ht) as Ht'.
    clear Es Ei Ht. revert i. induction HF as [|h l Hh Hl IH]; intros [|i]; cbn; auto.
  Qed.

  Lemma NF2_all B rs0 ws0 rs1 ws1 sched :
    (forall n, limiter_ok v lim false n = true) ->
    Forall (wr_full B) ws0 -> Forall (wr_full B) ws1 ->
    Forall (fun r => lenN (r_data r) <= B) rs0 -> Forall (fun r => lenN (r_data r) <= B) rs1 ->
    NF2 B (bridge_run v threshold lim rs0 ws0 rs1 ws1 sched).
  Proof.
    intros Hlim Hw0 Hw1 Hr0 Hr1. unfold bridge_run.
    apply (inv_all_schedules _ _ bstep (NF2 B)).
    - intros s i. apply NF2_step. exact Hlim.
    - unfold NF2, bridge_init. cbn [snd]. repeat constructor; cbn; auto.
  Qed.

  (* ---- progress: a direction that is scheduled often enough ends ---- *)
  Definition tmeasure (t : bthread) : nat :=
    match b_pc t with
    | BRead => 2 * length (b_rs t) + 3
    | BWrite _ _ => 2 * length (b_rs t) + 4
    | BFinish _ => 1
    | BDone _ => 0
    end.

  Lemma bstep_measure t sh t' sh' : bstep t sh = (t', sh') ->
    (tmeasure t = 0%nat /\ tmeasure t' = 0%nat) \/ (tmeasure t' < tmeasure t)%nat.
  Proof.
    unfold Pipe.bstep, tmeasure. intros H.
    destruct (b_pc t) as [|data e|x|x] eqn:Epc.
    - destruct (s_closed sh); [inversion H; subst; cbn; lia|].
      destruct (b_rs t) as [|r rs']; [inversion H; subst; cbn; lia|].
      destruct (r_data r) as [|b bs].
      + destruct (r_end r); inversion H; subst; cbn; lia.
      + destruct (limiter_ok v lim false (lenN (b :: bs))); cbn [negb] in H; inversion H; subst; cbn; lia.
    - destruct (s_closed sh); [inversion H; subst; cbn; lia|].
      destruct (do_write (b_ws t) data) as [[nw err] ws'].
      destruct err; [|destruct (negb (nw =? lenN data)); [|destruct e]]; inversion H; subst; cbn; lia.
    - inversion H; subst; cbn; lia.
    - inversion H; subst. rewrite Epc. left. auto.
  Qed.
End P.

(* the probed defect, as a witness in the model of the pinned code: BandwidthLimit = 4096 (burst 8192),
   one 20000-byte read, nothing closes and no write fails, yet nothing is delivered and the loop ends *)
Lemma pinned_limiter_drops_refuted :
  exists rs, Forall (fun r => lenN (r_data r) <= 32768) rs /\
    readable rs <> [] /\
    c_out (snd (copy_loop Pinned 1048576 10000 (Some 8192) false rs [] (cst0))) = [] /\
    fst (copy_loop Pinned 1048576 10000 (Some 8192) false rs [] (cst0)) = XLimiter.
Proof.
  exists [{| r_data := repeat 7 (N.to_nat 20000); r_end := RNone |}].
  split; [repeat constructor; vm_compute; discriminate|].
  split; [vm_compute; discriminate|].
  split; vm_compute; reflexivity.
Qed.

(* the same input through the repaired loop is delivered completely *)
Lemma sliced_limiter_delivers_witness :
  let rs := [{| r_data := repeat 7 (N.to_nat 20000); r_end := RNone |}] in
  copy_loop Sliced 1048576 10000 (Some 8192) false rs [] cst0
  = (XReadEnd, {| c_out := repeat 7 (N.to_nat 20000); c_acct := {| a_total := 20000; a_batch := 0; a_counter := 20000 |};
                  c_ck := 2; c_nrd := 2; c_nwr := 1 |}).
Proof. vm_compute. reflexivity. Qed.

(* the bridge closes although neither end closed: pinned model, any schedule that runs direction 0 three times *)
Lemma pinned_bridge_closes_without_cause :
  let s := bridge_run Pinned 1048576 (Some 8192) [{| r_data := repeat 7 (N.to_nat 20000); r_end := RNone |}] [] [] [] [0; 0; 0]%nat in
  s_closed (fst s) = true /\ s_out0 (fst s) = [] /\ map (fun t => b_done t) (snd s) = [Some XLimiter; None].
Proof. vm_compute. repeat split; reflexivity. Qed.
Close Scope N_scope.

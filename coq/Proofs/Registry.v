(* Proofs/Registry.v — invariants of Model/Registry.v over all operation lists (C07). *)
From Coq Require Import List NArith Bool Lia ZArith ZifyN ZifyNat ZifyBool.
From TX Require Import Base.Threads Model.Registry.
Import ListNotations.
Open Scope N_scope.

(* ------------------------------------------------------------------------------------------ *)
(* association maps                                                                            *)
(* ------------------------------------------------------------------------------------------ *)
Section Maps.
  Context {V : Type}.
  Implicit Types (m : amap V) (k : N).

  Lemma get_del_same k m : get k (del k m) = None.
  Proof.
    induction m as [|[k' v] t IH]; cbn; [reflexivity|].
    destruct (k =? k') eqn:E; [exact IH|]. cbn. rewrite E. exact IH.
  Qed.

  Lemma get_del_other k k' m : k <> k' -> get k (del k' m) = get k m.
  Proof.
    intros Hne. induction m as [|[k2 v] t IH]; cbn; [reflexivity|].
    destruct (k' =? k2) eqn:E.
    - apply N.eqb_eq in E. subst k2. destruct (k =? k') eqn:E2; [apply N.eqb_eq in E2; contradiction|exact IH].
    - cbn. destruct (k =? k2); [reflexivity|exact IH].
  Qed.

  Lemma get_set_same k v m : get k (set k v m) = Some v.
  Proof. unfold set. cbn. rewrite N.eqb_refl. reflexivity. Qed.

  Lemma get_set_other k k' v m : k <> k' -> get k (set k' v m) = get k m.
  Proof.
    intros Hne. unfold set. cbn. destruct (k =? k') eqn:E; [apply N.eqb_eq in E; contradiction|].
    apply get_del_other; exact Hne.
  Qed.

  Lemma get_none_notin k m : get k m = None -> ~ In k (keys m).
  Proof.
    induction m as [|[k' v] t IH]; cbn; [tauto|].
    destruct (k =? k') eqn:E; [discriminate|]. intros H [H1|H1].
    - subst k'. rewrite N.eqb_refl in E. discriminate.
    - exact (IH H H1).
  Qed.

  Lemma notin_get_none k m : ~ In k (keys m) -> get k m = None.
  Proof.
    induction m as [|[k' v] t IH]; cbn; [reflexivity|]. intros H.
    destruct (k =? k') eqn:E; [apply N.eqb_eq in E; subst; tauto|]. apply IH. tauto.
  Qed.

  Lemma get_some_in k v m : get k m = Some v -> In (k, v) m.
  Proof.
    induction m as [|[k' v'] t IH]; cbn; [discriminate|].
    destruct (k =? k') eqn:E.
    - apply N.eqb_eq in E. subst. intros H. injection H as ->. left. reflexivity.
    - intros H. right. exact (IH H).
  Qed.

  Lemma in_get_some k v m : NoDup (keys m) -> In (k, v) m -> get k m = Some v.
  Proof.
    induction m as [|[k' v'] t IH]; cbn; [tauto|]. intros Hnd [H|H].
    - injection H as -> ->. rewrite N.eqb_refl. reflexivity.
    - inversion Hnd as [|? ? Hni Hnd']; subst. destruct (k =? k') eqn:E.
      + apply N.eqb_eq in E. subst k'. exfalso. apply Hni. change (In (fst (k, v)) (map fst t)). apply in_map. exact H.
      + exact (IH Hnd' H).
  Qed.

  Lemma keys_del_incl k k' m : In k (keys (del k' m)) -> In k (keys m) /\ k <> k'.
  Proof.
    induction m as [|[k2 v] t IH]; cbn; [tauto|].
    destruct (k' =? k2) eqn:E.
    - intros H. destruct (IH H) as [H1 H2]. split; [right; exact H1|exact H2].
    - cbn. intros [H|H].
      + subst k2. split; [left; reflexivity|]. intros ->. rewrite N.eqb_refl in E. discriminate.
      + destruct (IH H) as [H1 H2]. split; [right; exact H1|exact H2].
  Qed.

  Lemma nodup_del k m : NoDup (keys m) -> NoDup (keys (del k m)).
  Proof.
    induction m as [|[k2 v] t IH]; cbn; [intros; constructor|]. intros Hnd.
    inversion Hnd as [|? ? Hni Hnd']; subst.
    destruct (k =? k2); [exact (IH Hnd')|]. cbn. constructor; [|exact (IH Hnd')].
    intros H. apply keys_del_incl in H. tauto.
  Qed.

  Lemma nodup_set k v m : NoDup (keys m) -> NoDup (keys (set k v m)).
  Proof.
    intros Hnd. unfold set. cbn. constructor; [|apply nodup_del; exact Hnd].
    intros H. apply keys_del_incl in H. tauto.
  Qed.

  Lemma nodup_filter (f : N * V -> bool) m : NoDup (keys m) -> NoDup (keys (filter f m)).
  Proof.
    induction m as [|[k2 v] t IH]; cbn; [intros; constructor|]. intros Hnd.
    inversion Hnd as [|? ? Hni Hnd']; subst.
    destruct (f (k2, v)); [|exact (IH Hnd')]. cbn. constructor; [|exact (IH Hnd')].
    intros H. apply Hni. unfold keys in *. rewrite in_map_iff in *. destruct H as [e [He1 He2]].
    exists e. split; [exact He1|]. apply filter_In in He2. tauto.
  Qed.

  Lemma get_filter (f : N * V -> bool) k m : NoDup (keys m) ->
    get k (filter f m) = match get k m with Some v => if f (k, v) then Some v else None | None => None end.
  Proof.
    induction m as [|[k2 v] t IH]; cbn; [reflexivity|]. intros Hnd.
    inversion Hnd as [|? ? Hni Hnd']; subst. specialize (IH Hnd').
    destruct (k =? k2) eqn:E.
    - apply N.eqb_eq in E. subst k2. destruct (f (k, v)) eqn:Ef.
      + cbn. rewrite N.eqb_refl. reflexivity.
      + rewrite IH. rewrite (notin_get_none k t Hni). reflexivity.
    - destruct (f (k2, v)); [cbn; rewrite E|]; exact IH.
  Qed.

  Lemma size_del_some k v m : NoDup (keys m) -> get k m = Some v -> size (del k m) + 1 = size m.
  Proof.
    unfold size. induction m as [|[k2 v2] t IH]; cbn [get del length]; [discriminate|]. intros Hnd.
    inversion Hnd as [|? ? Hni Hnd']; subst.
    destruct (k =? k2) eqn:E.
    - apply N.eqb_eq in E. subst k2. intros _.
      assert (Hd : del k t = t).
      { clear -Hni. induction t as [|[k3 v3] t IH]; cbn; [reflexivity|].
        destruct (k =? k3) eqn:E; [apply N.eqb_eq in E; subst; cbn in Hni; tauto|].
        f_equal. apply IH. cbn in Hni. tauto. }
      rewrite Hd. lia.
    - intros H. cbn [length]. specialize (IH Hnd' H). lia.
  Qed.

  Lemma del_none k m : get k m = None -> del k m = m.
  Proof.
    induction m as [|[k3 v3] t IH]; cbn; [reflexivity|].
    destruct (k =? k3) eqn:E; [discriminate|]. intros H. f_equal. exact (IH H).
  Qed.
End Maps.

(* finite sets *)
Lemma mem_add_same x s : mem x (add x s) = true.
Proof. unfold add. destruct (mem x s) eqn:E; [exact E|]. cbn. rewrite N.eqb_refl. reflexivity. Qed.

Lemma mem_add_other x y s : x <> y -> mem x (add y s) = mem x s.
Proof.
  intros Hne. unfold add. destruct (mem y s); [reflexivity|]. cbn.
  destruct (x =? y) eqn:E; [apply N.eqb_eq in E; contradiction|reflexivity].
Qed.

Lemma mem_add_mono x y s : mem x s = true -> mem x (add y s) = true.
Proof. intros H. unfold add. destruct (mem y s); [exact H|]. cbn. rewrite H. apply orb_true_r. Qed.

Lemma mem_rem_same x s : mem x (rem x s) = false.
Proof.
  induction s as [|y t IH]; cbn; [reflexivity|].
  destruct (x =? y) eqn:E; [exact IH|]. cbn. rewrite E. exact IH.
Qed.

Lemma mem_rem_other x y s : x <> y -> mem x (rem y s) = mem x s.
Proof.
  intros Hne. induction s as [|z t IH]; cbn; [reflexivity|].
  destruct (y =? z) eqn:E.
  - apply N.eqb_eq in E. subst z. destruct (x =? y) eqn:E2; [apply N.eqb_eq in E2; contradiction|exact IH].
  - cbn. rewrite IH. reflexivity.
Qed.

Lemma mem_In x s : mem x s = true <-> In x s.
Proof.
  induction s as [|y t IH]; cbn; [split; [discriminate|tauto]|].
  rewrite orb_true_iff, N.eqb_eq, IH. split; intros [H|H]; auto.
Qed.

(* ------------------------------------------------------------------------------------------ *)
(* the index invariant (a)                                                                     *)
(* ------------------------------------------------------------------------------------------ *)
(* every index entry points at a registered, authenticated, open connection of exactly that (positive) client id *)
Definition OK1 (rg : amap ctl) (ix : amap N) (cl : list N) : Prop :=
  forall x c, get x ix = Some c ->
    exists r, get c rg = Some r /\ c_auth r = true /\ c_cid r = x /\ 0 < x /\ mem c cl = false.

Lemma unindex_sub c r i x c' : get x (unindex c r i) = Some c' -> get x i = Some c'.
Proof.
  unfold unindex. destruct (c_auth r && (0 <? c_cid r)); [|auto].
  destruct (get (c_cid r) i) as [c2|] eqn:E; [|auto]. destruct (c2 =? c); [|auto].
  intros H. destruct (N.eq_dec x (c_cid r)) as [Heq|Hne].
  - subst x. rewrite get_del_same in H. discriminate.
  - rewrite get_del_other in H by exact Hne. exact H.
Qed.

Lemma nodup_unindex c r i : NoDup (keys i) -> NoDup (keys (unindex c r i)).
Proof.
  intros Hnd. unfold unindex. destruct (c_auth r && (0 <? c_cid r)); [|exact Hnd].
  destruct (get (c_cid r) i) as [c2|]; [|exact Hnd]. destruct (c2 =? c); [|exact Hnd].
  apply nodup_del. exact Hnd.
Qed.

Lemma unindex_gone rg i cl c r : OK1 rg i cl -> get c rg = Some r -> forall x, get x (unindex c r i) <> Some c.
Proof.
  intros Hok Hr x H. pose proof (unindex_sub _ _ _ _ _ H) as H0.
  destruct (Hok x c H0) as [r' [Hr' [Ha [Hc [Hx _]]]]].
  rewrite Hr in Hr'. injection Hr' as Hrr. subst r'.
  unfold unindex in H. rewrite Ha, Hc in H.
  assert (Hlt : (0 <? x) = true) by (apply N.ltb_lt; exact Hx).
  rewrite Hlt in H. cbn [andb] in H. rewrite H0 in H. rewrite N.eqb_refl in H.
  rewrite get_del_same in H. discriminate.
Qed.

Lemma OK1_remove rg i cl cl' c r :
  OK1 rg i cl -> get c rg = Some r -> (forall c', c' <> c -> mem c' cl' = mem c' cl) ->
  OK1 (del c rg) (unindex c r i) cl'.
Proof.
  intros Hok Hr Hcl x c' H.
  assert (Hne : c' <> c) by (intros ->; exact (unindex_gone _ _ _ _ _ Hok Hr x H)).
  apply unindex_sub in H. destruct (Hok x c' H) as [r' [H1 [H2 [H3 [H4 H5]]]]].
  exists r'. rewrite get_del_other by exact Hne. rewrite (Hcl c' Hne). auto.
Qed.

Lemma OK1_closed_add rg i cl c : OK1 rg i cl -> (forall x, get x i <> Some c) -> OK1 rg i (add c cl).
Proof.
  intros Hok Hno x c' H. destruct (Hok x c' H) as [r' [H1 [H2 [H3 [H4 H5]]]]].
  exists r'. assert (Hne : c' <> c) by (intros ->; exact (Hno x H)).
  rewrite mem_add_other by exact Hne. auto.
Qed.

Lemma OK1_not_registered rg i cl c : OK1 rg i cl -> get c rg = None -> forall x, get x i <> Some c.
Proof. intros Hok Hn x H. destruct (Hok x c H) as [r' [H1 _]]. rewrite Hn in H1. discriminate. Qed.

Lemma OK1_mutate_reconcile rg i cl c r' :
  OK1 rg i cl -> NoDup (keys i) -> OK1 (set c r' rg) (drop_stale c r' i) cl.
Proof.
  intros Hok Hnd x c2 H. unfold drop_stale in H. rewrite (get_filter _ x i Hnd) in H.
  destruct (get x i) as [c3|] eqn:E; [|discriminate]. cbn [fst snd] in H.
  destruct (negb (c3 =? c) || (c_auth r' && (x =? c_cid r'))) eqn:Ef; [|discriminate].
  injection H as Hc. subst c3. destruct (Hok x c2 E) as [r2 [H1 [H2 [H3 [H4 H5]]]]].
  destruct (N.eq_dec c2 c) as [Heq|Hne].
  - subst c2. rewrite N.eqb_refl in Ef. cbn [negb orb] in Ef. apply andb_true_iff in Ef. destruct Ef as [Ea Ex].
    apply N.eqb_eq in Ex. exists r'. rewrite get_set_same. auto.
  - exists r2. rewrite get_set_other by exact Hne. auto.
Qed.

Lemma OK1_index_set rg i cl c r x :
  OK1 rg i cl -> get c rg = Some r -> c_auth r = true -> c_cid r = x -> 0 < x -> mem c cl = false ->
  OK1 rg (set x c i) cl.
Proof.
  intros Hok Hr Ha Hc Hx Hm y c2 H. destruct (N.eq_dec y x) as [Heq|Hne].
  - subst y. rewrite get_set_same in H. injection H as <-. exists r. auto.
  - rewrite get_set_other in H by exact Hne. exact (Hok y c2 H).
Qed.

Lemma OK1_set_unindexed rg i cl c r : OK1 rg i cl -> (forall x, get x i <> Some c) -> OK1 (set c r rg) i cl.
Proof.
  intros Hok Hno x c2 H. destruct (Hok x c2 H) as [r2 [H1 H2]]. exists r2.
  assert (Hne : c2 <> c) by (intros ->; exact (Hno x H)). rewrite get_set_other by exact Hne. auto.
Qed.

(* heartbeat: LastActiveAt changes, identity does not *)
Lemma OK1_touch rg i cl c r r' :
  OK1 rg i cl -> get c rg = Some r -> c_auth r' = c_auth r -> c_cid r' = c_cid r -> OK1 (set c r' rg) i cl.
Proof.
  intros Hok Hr Ha Hc x c2 H. destruct (Hok x c2 H) as [r2 [H1 [H2 [H3 [H4 H5]]]]].
  destruct (N.eq_dec c2 c) as [Heq|Hne].
  - subst c2. rewrite Hr in H1. injection H1 as <-. exists r'. rewrite get_set_same, Ha, Hc. auto.
  - exists r2. rewrite get_set_other by exact Hne. auto.
Qed.

Ltac proj := cbn [reg idx closed sess streams tun tmap wfail now nseq].

Record Inv (s : st) : Prop := {
  inv_nd_reg : NoDup (keys (reg s));
  inv_nd_idx : NoDup (keys (idx s));
  inv_ok : OK1 (reg s) (idx s) (closed s) }.

Lemma inv_init : Inv init.
Proof. split; cbn; try constructor. intros x c H. discriminate. Qed.

Lemma inv_remove_locked c r s : Inv s -> get c (reg s) = Some r -> Inv (remove_locked c r s).
Proof.
  intros [H1 H2 H3] Hr. unfold remove_locked, with_reg, with_idx, with_closed. split; proj.
  - apply nodup_del. exact H1.
  - apply nodup_unindex. exact H2.
  - apply (OK1_remove _ _ (closed s)); [exact H3|exact Hr|]. intros c' Hne. apply mem_add_other. exact Hne.
Qed.

Lemma inv_registry_remove c s : Inv s -> Inv (registry_remove c s).
Proof. intros H. unfold registry_remove. destruct (get c (reg s)) as [r|] eqn:E; [apply inv_remove_locked; assumption|exact H]. Qed.

Lemma inv_unregister c s : Inv s -> Inv (registry_unregister c s).
Proof.
  intros [H1 H2 H3]. unfold registry_unregister. destruct (get c (reg s)) as [r|] eqn:E; [|split; assumption].
  unfold with_reg, with_idx. split; proj.
  - apply nodup_del. exact H1.
  - apply nodup_unindex. exact H2.
  - apply (OK1_remove _ _ (closed s)); [exact H3|exact E|]. reflexivity.
Qed.

Lemma find_oldest_in m o ro : find_oldest m = Some (o, ro) -> In (o, ro) m.
Proof.
  revert o ro. induction m as [|[c r] t IH]; cbn; [discriminate|]. intros o ro.
  destruct (find_oldest t) as [[c' r']|] eqn:E.
  - destruct (c_seq r' <? c_seq r); intros H; injection H as <- <-; [right; apply IH; reflexivity|left; reflexivity].
  - intros H. injection H as <- <-. left. reflexivity.
Qed.

Lemma reg_remove_locked c r s : reg (remove_locked c r s) = del c (reg s).
Proof. reflexivity. Qed.
Lemma closed_remove_locked c r s : closed (remove_locked c r s) = add c (closed s).
Proof. reflexivity. Qed.

(* Register of a connection id that has no control record yet *)
Lemma inv_register k c r s :
  Inv s -> get c (reg s) = None -> (c_auth r && (0 <? c_cid r) = true -> mem c (closed s) = false) ->
  Inv (registry_register k c r s).
Proof.
  intros Hinv Hnone Hopen. unfold registry_register.
  set (lim := (0 <? maxCtl k) && (maxCtl k <=? size (reg s))).
  assert (Hs1 : forall s1, Inv s1 -> get c (reg s1) = None ->
                  (c_auth r && (0 <? c_cid r) = true -> mem c (closed s1) = false) ->
                  Inv (let s2 := match get c (reg s1) with Some r' => remove_locked c r' s1 | None => s1 end in
                       let s3 := with_reg s2 (set c r (reg s2)) in
                       if c_auth r && (0 <? c_cid r) then with_idx s3 (set (c_cid r) c (idx s3)) else s3)).
  { intros s1 [H1 H2 H3] Hn Ho. rewrite Hn. cbn zeta.
    assert (Hno : forall x, get x (idx s1) <> Some c) by (apply (OK1_not_registered _ _ _ _ H3 Hn)).
    assert (H3' : OK1 (set c r (reg s1)) (idx s1) (closed s1)) by (apply OK1_set_unindexed; assumption).
    destruct (c_auth r && (0 <? c_cid r)) eqn:Ea; unfold with_reg, with_idx; split; proj.
    - apply nodup_set. exact H1.
    - apply nodup_set. exact H2.
    - pose proof (Ho eq_refl) as Hm. apply andb_true_iff in Ea. destruct Ea as [Ea1 Ea2]. apply N.ltb_lt in Ea2.
      apply (OK1_index_set _ _ _ c r); [exact H3'|apply get_set_same|exact Ea1|reflexivity|exact Ea2|exact Hm].
    - apply nodup_set. exact H1.
    - exact H2.
    - exact H3'. }
  destruct lim.
  - destruct (find_oldest (reg s)) as [[o ro]|] eqn:Eo; [|exact Hinv].
    assert (Hget : get o (reg s) = Some ro).
    { apply in_get_some; [apply (inv_nd_reg _ Hinv)|apply find_oldest_in; exact Eo]. }
    assert (Hne : c <> o) by (intros ->; rewrite Hnone in Hget; discriminate).
    apply Hs1.
    + apply inv_remove_locked; assumption.
    + rewrite reg_remove_locked. rewrite get_del_other by exact Hne. exact Hnone.
    + intros Ha. rewrite closed_remove_locked. rewrite mem_add_other by exact Hne. exact (Hopen Ha).
  - apply Hs1; assumption.
Qed.

Lemma inv_update_auth_core c x s : Inv s -> 0 < x -> mem c (closed s) = false -> Inv (update_auth_core Current c x s).
Proof.
  intros [H1 H2 H3] Hx Hm. unfold update_auth_core. destruct (get c (reg s)) as [r|] eqn:E; [|split; assumption].
  cbn [reconciles]. unfold with_reg, with_idx. split; proj.
  - apply nodup_set. exact H1.
  - apply nodup_set. unfold drop_stale. apply nodup_filter. exact H2.
  - eapply OK1_index_set; [apply OK1_mutate_reconcile; eassumption|apply get_set_same|reflexivity|reflexivity|exact Hx|exact Hm].
Qed.

Lemma inv_evict_holder x c s : Inv s -> Inv (evict_holder x c s).
Proof.
  intros H. unfold evict_holder. destruct (get x (idx s)) as [o|]; [|exact H].
  destruct (o =? c); [exact H|]. apply inv_registry_remove. exact H.
Qed.

Lemma closed_evict_holder x c s : mem c (closed (evict_holder x c s)) = mem c (closed s).
Proof.
  unfold evict_holder. destruct (get x (idx s)) as [o|]; [|reflexivity].
  destruct (o =? c) eqn:E; [reflexivity|]. apply N.eqb_neq in E.
  unfold registry_remove. destruct (get o (reg s)); [|reflexivity].
  rewrite closed_remove_locked. apply mem_add_other. intros Heq. apply E. symmetry. exact Heq.
Qed.

Lemma inv_update_auth c x s : Inv s -> 0 < x -> mem c (closed s) = false -> Inv (update_auth Current c x s).
Proof.
  intros Hinv Hx Hm. unfold update_auth. destruct (get c (reg s)); [|exact Hinv]. cbn [evicts].
  apply inv_update_auth_core; [apply inv_evict_holder; exact Hinv|exact Hx|rewrite closed_evict_holder; exact Hm].
Qed.

Lemma inv_tunnel_remove c s : Inv s -> Inv (tunnel_remove c s).
Proof. intros [H1 H2 H3]. unfold tunnel_remove. destruct (get c (tun s)); split; assumption. Qed.

Lemma inv_close_conn c s : Inv s -> Inv (close_conn c s).
Proof.
  intros Hinv. unfold close_conn. apply inv_tunnel_remove.
  destruct (mem c (sess s)) eqn:Es; [|apply inv_registry_remove; exact Hinv].
  destruct Hinv as [H1 H2 H3].
  unfold registry_remove, with_closed, with_sess. cbn [reg].
  destruct (get c (reg s)) as [r|] eqn:E.
  - unfold remove_locked, with_reg, with_idx, with_closed. split; proj.
    + apply nodup_del. exact H1.
    + apply nodup_unindex. exact H2.
    + apply (OK1_remove _ _ (closed s)); [exact H3|exact E|]. intros c' Hne.
      rewrite mem_add_other by exact Hne. apply mem_add_other. exact Hne.
  - split; proj; [exact H1|exact H2|]. apply OK1_closed_add; [exact H3|]. apply (OK1_not_registered _ _ _ _ H3 E).
Qed.

Lemma inv_kick x newc s : Inv s -> Inv (kick x newc s).
Proof.
  intros Hinv. unfold kick. destruct (get x (idx s)) as [o|] eqn:E; [|exact Hinv].
  destruct (o =? newc); [exact Hinv|].
  destruct Hinv as [H1 H2 H3]. destruct (H3 x o E) as [r [Hr _]]. rewrite Hr.
  unfold with_closed, with_reg, with_idx. split; proj.
  - apply nodup_del. exact H1.
  - apply nodup_unindex. exact H2.
  - apply (OK1_remove _ _ (closed s)); [exact H3|exact Hr|]. intros c' Hne. apply mem_add_other. exact Hne.
Qed.

Lemma reg_tunnel_remove c s : reg (tunnel_remove c s) = reg s.
Proof. unfold tunnel_remove. destruct (get c (tun s)); reflexivity. Qed.
Lemma idx_tunnel_remove c s : idx (tunnel_remove c s) = idx s.
Proof. unfold tunnel_remove. destruct (get c (tun s)); reflexivity. Qed.
Lemma closed_tunnel_remove c s : closed (tunnel_remove c s) = closed s.
Proof. unfold tunnel_remove. destruct (get c (tun s)); reflexivity. Qed.
Lemma sess_tunnel_remove c s : sess (tunnel_remove c s) = sess s.
Proof. unfold tunnel_remove. destruct (get c (tun s)); reflexivity. Qed.
Lemma streams_tunnel_remove c s : streams (tunnel_remove c s) = streams s.
Proof. unfold tunnel_remove. destruct (get c (tun s)); reflexivity. Qed.

Lemma reg_registry_remove c s : reg (registry_remove c s) = del c (reg s).
Proof.
  unfold registry_remove. destruct (get c (reg s)) as [r|] eqn:E; [reflexivity|].
  symmetry. apply del_none. exact E.
Qed.

Lemma reg_close_conn c s : reg (close_conn c s) = del c (reg s).
Proof.
  unfold close_conn. rewrite reg_tunnel_remove, reg_registry_remove.
  destruct (mem c (sess s)); reflexivity.
Qed.

Lemma inv_sweep_one s c r : Inv s -> get c (reg s) = Some r -> Inv (sweep_one s (c, r)).
Proof.
  intros [H1 H2 H3] Hr. unfold sweep_one.
  set (s1 := with_reg (with_idx s (unindex c r (idx s))) (del c (reg s))).
  assert (Hs1 : Inv s1).
  { unfold s1, with_reg, with_idx. split; proj.
    - apply nodup_del. exact H1.
    - apply nodup_unindex. exact H2.
    - apply (OK1_remove _ _ (closed s)); [exact H3|exact Hr|]. reflexivity. }
  pose proof (inv_close_conn c s1 Hs1) as [G1 G2 G3].
  unfold with_closed. split; proj; [exact G1|exact G2|].
  apply OK1_closed_add; [exact G3|]. apply (OK1_not_registered _ _ _ _ G3).
  rewrite reg_close_conn. apply get_del_same.
Qed.

Lemma reg_sweep_one s c r : reg (sweep_one s (c, r)) = del c (del c (reg s)).
Proof. unfold sweep_one, with_closed. proj. rewrite reg_close_conn. reflexivity. Qed.

Lemma inv_sweep_fold l : forall s, Inv s -> NoDup (map fst l) ->
  (forall e, In e l -> get (fst e) (reg s) = Some (snd e)) -> Inv (fold_left sweep_one l s).
Proof.
  induction l as [|[c r] t IH]; cbn [fold_left]; intros s Hinv Hnd Hin; [exact Hinv|].
  inversion Hnd as [|? ? Hni Hnd']; subst.
  apply IH.
  - apply inv_sweep_one; [exact Hinv|]. apply (Hin (c, r)). left. reflexivity.
  - exact Hnd'.
  - intros e He. rewrite reg_sweep_one.
    assert (Hne : fst e <> c).
    { intros Heq. apply Hni. cbn [fst]. rewrite <- Heq. apply in_map. exact He. }
    rewrite !get_del_other by exact Hne. apply Hin. right. exact He.
Qed.

Lemma inv_sweep k s : Inv s -> Inv (fst (sweep k s)).
Proof.
  intros Hinv. unfold sweep. cbn [fst]. apply inv_sweep_fold; [exact Hinv| |].
  - unfold stale_entries. apply (nodup_filter _ (reg s)). apply (inv_nd_reg _ Hinv).
  - intros [c r] He. unfold stale_entries in He. apply filter_In in He. destruct He as [He _].
    cbn [fst snd]. apply in_get_some; [apply (inv_nd_reg _ Hinv)|exact He].
Qed.

Lemma inv_bump s : Inv s -> Inv (bump s).
Proof. intros [H1 H2 H3]. split; assumption. Qed.

Lemma inv_handshake k c kind x isCtl s : Inv s -> Inv (fst (handshake Current k c kind x isCtl s)).
Proof.
  intros Hinv. unfold handshake.
  set (found := match get c (reg s) with
                | Some _ => Some s
                | None => if mem c (sess s) then Some (bump (registry_register k c (new_ctl s 0) s)) else None
                end).
  assert (Hf : match found with Some s1 => Inv s1 | None => True end).
  { unfold found. destruct (get c (reg s)) eqn:E; [exact Hinv|]. destruct (mem c (sess s)); [|exact I].
    apply inv_bump. apply inv_register; [exact Hinv|exact E|]. cbn. intros H. discriminate. }
  destruct found as [s1|]; [|exact Hinv].
  destruct (get c (reg s1)) as [r|] eqn:Er; [|exact Hf].
  set (okk := (kind =? 0) && (0 <? x)).
  set (r' := if okk then {| c_cid := x; c_auth := true; c_seq := c_seq r; c_last := c_last r |} else r).
  set (s2 := reconcile Current c (with_reg s1 (set c r' (reg s1)))).
  assert (Hs2 : Inv s2).
  { destruct Hf as [H1 H2 H3]. unfold s2, reconcile. cbn [reconciles]. unfold with_reg at 1. proj.
    rewrite get_set_same. unfold with_idx, with_reg. split; proj.
    - apply nodup_set. exact H1.
    - unfold drop_stale. apply nodup_filter. exact H2.
    - apply OK1_mutate_reconcile; assumption. }
  destruct (negb okk && negb (kind =? 1)); [exact Hs2|].
  destruct (mem c (closed s2) || mem c (wfail s2)) eqn:Ew; [exact Hs2|].
  apply orb_false_iff in Ew. destruct Ew as [Ew1 Ew2].
  destruct (okk && isCtl && c_auth r' && (0 <? c_cid r')) eqn:Eb; [|exact Hs2].
  cbn [fst]. apply andb_true_iff in Eb. destruct Eb as [_ Ex]. apply N.ltb_lt in Ex.
  destruct (get (c_cid r') (idx s2)) as [o|] eqn:Eo.
  - destruct (o =? c) eqn:Eoc.
    + apply inv_update_auth; assumption.
    + apply N.eqb_neq in Eoc. apply inv_update_auth; [apply inv_registry_remove; exact Hs2|exact Ex|].
      unfold registry_remove. destruct (get o (reg s2)); [|exact Ew1].
      rewrite closed_remove_locked. rewrite mem_add_other; [exact Ew1|]. intros Heq. apply Eoc. symmetry. exact Heq.
  - apply inv_update_auth; assumption.
Qed.

Lemma reg_unregister c s : reg (registry_unregister c s) = del c (reg s).
Proof.
  unfold registry_unregister. destruct (get c (reg s)) as [r|] eqn:E; [reflexivity|]. symmetry. apply del_none. exact E.
Qed.
Lemma closed_unregister c s : closed (registry_unregister c s) = closed s.
Proof. unfold registry_unregister. destruct (get c (reg s)); reflexivity. Qed.
Lemma sess_unregister c s : sess (registry_unregister c s) = sess s.
Proof. unfold registry_unregister. destruct (get c (reg s)); reflexivity. Qed.

(* Register of a ConnID that already has a record, the replacement wrapping the same (open) stream *)
Lemma inv_rereg k c r s : Inv s -> mem c (closed s) = false -> Inv (registry_rereg Current k c r s).
Proof.
  intros Hinv Hopen. unfold registry_rereg. cbn [keeps_shared].
  destruct (get c (reg s)) eqn:E.
  - apply inv_register; [apply inv_unregister; exact Hinv|rewrite reg_unregister; apply get_del_same|].
    intros _. rewrite closed_unregister. exact Hopen.
  - apply inv_register; [exact Hinv|exact E|intros _; exact Hopen].
Qed.

Theorem inv_step k s o : Inv s -> Inv (fst (step Current k s o)).
Proof.
  intros Hinv. destruct o as [c|c kind x isCtl|c|c|c|c|x newc| |d|c pre|c x|c t|c|c pre|c x0]; cbn [step].
  - destruct ((0 <? maxConn k) && (maxConn k <=? N.of_nat (length (sess s)))); [exact Hinv|].
    destruct (mem c (streams s)); [exact Hinv|]. destruct Hinv as [H1 H2 H3]. split; assumption.
  - apply inv_handshake. exact Hinv.
  - destruct (get c (reg s)) as [r|] eqn:E; [|exact Hinv]. cbn [fst].
    destruct Hinv as [H1 H2 H3]. unfold with_reg. split; proj.
    + apply nodup_set. exact H1.
    + exact H2.
    + apply (OK1_touch _ _ _ c r); [exact H3|exact E|reflexivity|reflexivity].
  - apply inv_close_conn. exact Hinv.
  - apply inv_registry_remove. exact Hinv.
  - apply inv_unregister. exact Hinv.
  - apply inv_kick. exact Hinv.
  - apply inv_sweep. exact Hinv.
  - destruct Hinv as [H1 H2 H3]. split; assumption.
  - destruct (mem c (sess s) && negb (mem c (closed s)) && match get c (reg s) with None => true | Some _ => false end) eqn:Eg; [|exact Hinv].
    cbn [fst]. apply andb_true_iff in Eg. destruct Eg as [Eg Eg3]. apply andb_true_iff in Eg. destruct Eg as [_ Eg2].
    apply negb_true_iff in Eg2. apply inv_bump. apply inv_register; [exact Hinv| |intros _; exact Eg2].
    destruct (get c (reg s)); [discriminate|reflexivity].
  - destruct ((0 <? x) && negb (mem c (closed s))) eqn:Eg; [|exact Hinv].
    cbn [fst]. apply andb_true_iff in Eg. destruct Eg as [Eg1 Eg2]. apply N.ltb_lt in Eg1. apply negb_true_iff in Eg2.
    apply inv_update_auth; assumption.
  - destruct (mem c (sess s)); [|exact Hinv]. cbn [fst].
    pose proof (inv_unregister c s Hinv) as [H1 H2 H3]. split; assumption.
  - destruct (mem c (streams s)); [|exact Hinv]. destruct Hinv as [H1 H2 H3]. split; assumption.
  - destruct (mem c (sess s) && negb (mem c (closed s))) eqn:Eg; [|exact Hinv].
    cbn [fst]. apply andb_true_iff in Eg. destruct Eg as [_ Eg2]. apply negb_true_iff in Eg2.
    apply inv_bump. apply inv_rereg; assumption.
  - destruct (mem c (sess s) && negb (mem c (closed s))) eqn:Eg; [|exact Hinv].
    cbn [fst]. apply andb_true_iff in Eg. destruct Eg as [_ Eg2]. apply negb_true_iff in Eg2.
    apply inv_bump. apply inv_rereg; assumption.
Qed.

Theorem inv_run k ops : forall s, Inv s -> Inv (run Current k s ops).
Proof.
  induction ops as [|o t IH]; intros s Hinv; [exact Hinv|]. cbn [run fold_left]. apply IH. apply inv_step. exact Hinv.
Qed.

(* ------------------------------------------------------------------------------------------ *)
(* (a) (b): what a lookup by client id can return, in every reachable state                    *)
(* ------------------------------------------------------------------------------------------ *)
Definition lookup_sound (s : st) : Prop :=
  forall x c, by_client s x = Some c ->
    exists r, by_conn s c = Some r /\ c_auth r = true /\ c_cid r = x /\ 0 < x /\ mem c (closed s) = false.

Theorem lookup_sound_all k ops : lookup_sound (run Current k init ops).
Proof. exact (inv_ok _ (inv_run k ops init inv_init)). Qed.

Theorem one_client_per_connection k ops x y c :
  by_client (run Current k init ops) x = Some c -> by_client (run Current k init ops) y = Some c -> x = y.
Proof.
  intros Hx Hy. destruct (lookup_sound_all k ops x c Hx) as [r [Hr [_ [Hc _]]]].
  destruct (lookup_sound_all k ops y c Hy) as [r2 [Hr2 [_ [Hc2 _]]]].
  rewrite Hr in Hr2. injection Hr2 as <-. congruence.
Qed.

(* ------------------------------------------------------------------------------------------ *)
(* (c) what is removed is gone and closed                                                      *)
(* ------------------------------------------------------------------------------------------ *)
Lemma sess_registry_remove c s : sess (registry_remove c s) = sess s.
Proof. unfold registry_remove. destruct (get c (reg s)); reflexivity. Qed.

Lemma rem_notin c l : mem c l = false -> rem c l = l.
Proof.
  induction l as [|y t IH]; cbn; [reflexivity|]. destruct (c =? y); cbn; [discriminate|]. intros H. f_equal. exact (IH H).
Qed.

Lemma sess_close_conn c s : sess (close_conn c s) = rem c (sess s).
Proof.
  unfold close_conn. rewrite sess_tunnel_remove, sess_registry_remove.
  destruct (mem c (sess s)) eqn:E; [reflexivity|]. symmetry. apply rem_notin. exact E.
Qed.

Lemma closed_close_conn_in c s :
  mem c (sess s) = true \/ get c (reg s) <> None -> mem c (closed (close_conn c s)) = true.
Proof.
  intros H. unfold close_conn. rewrite closed_tunnel_remove. unfold registry_remove.
  destruct (mem c (sess s)) eqn:Es.
  - unfold with_closed, with_sess. proj. destruct (get c (reg s)).
    + rewrite closed_remove_locked. apply mem_add_same.
    + proj. apply mem_add_same.
  - destruct (get c (reg s)) as [r|].
    + rewrite closed_remove_locked. apply mem_add_same.
    + destruct H as [H|H]; [discriminate|congruence].
Qed.

Theorem close_conn_post c s : Inv s ->
  by_conn (close_conn c s) c = None /\ (forall x, by_client (close_conn c s) x <> Some c) /\
  mem c (sess (close_conn c s)) = false /\
  (mem c (sess s) = true \/ by_conn s c <> None -> mem c (closed (close_conn c s)) = true).
Proof.
  intros Hinv. pose proof (inv_close_conn c s Hinv) as [_ _ G3].
  assert (Hn : by_conn (close_conn c s) c = None) by (unfold by_conn; rewrite reg_close_conn; apply get_del_same).
  split; [exact Hn|]. split; [exact (OK1_not_registered _ _ _ _ G3 Hn)|].
  split; [rewrite sess_close_conn; apply mem_rem_same|apply closed_close_conn_in].
Qed.

Theorem remove_post c s : Inv s ->
  by_conn (registry_remove c s) c = None /\ (forall x, by_client (registry_remove c s) x <> Some c) /\
  (by_conn s c <> None -> mem c (closed (registry_remove c s)) = true).
Proof.
  intros Hinv. pose proof (inv_registry_remove c s Hinv) as [_ _ G3].
  assert (Hn : by_conn (registry_remove c s) c = None) by (unfold by_conn; rewrite reg_registry_remove; apply get_del_same).
  split; [exact Hn|]. split; [exact (OK1_not_registered _ _ _ _ G3 Hn)|].
  unfold by_conn, registry_remove. destruct (get c (reg s)); [intros _; rewrite closed_remove_locked; apply mem_add_same|congruence].
Qed.

Theorem kick_post x newc o s : Inv s -> by_client s x = Some o -> o <> newc ->
  by_conn (kick x newc s) o = None /\ (forall y, by_client (kick x newc s) y <> Some o) /\
  mem o (closed (kick x newc s)) = true.
Proof.
  intros Hinv Ho Hne. pose proof (inv_kick x newc s Hinv) as [_ _ G3].
  assert (Hk : by_conn (kick x newc s) o = None /\ mem o (closed (kick x newc s)) = true).
  { unfold by_conn, by_client, kick in *. rewrite Ho. apply N.eqb_neq in Hne. rewrite Hne.
    destruct (inv_ok _ Hinv x o Ho) as [r [Hr _]]. rewrite Hr. unfold with_closed, with_reg, with_idx. proj.
    split; [apply get_del_same|apply mem_add_same]. }
  destruct Hk as [Hk1 Hk2]. split; [exact Hk1|]. split; [exact (OK1_not_registered _ _ _ _ G3 Hk1)|exact Hk2].
Qed.

(* ------------------------------------------------------------------------------------------ *)
(* schedules: every registry / session method is one atomic step (one mutex)                   *)
(* ------------------------------------------------------------------------------------------ *)
Definition tstep (k : cfg) (lo : list op) (sh : st) : list op * st :=
  match lo with
  | [] => ([], sh)
  | o :: t => (t, fst (step Current k sh o))
  end.

Theorem inv_all_interleavings k (progs : list (list op)) (sched : list nat) :
  Inv (fst (Threads.run st (list op) (tstep k) (init, progs) sched)).
Proof.
  apply (inv_all_schedules st (list op) (tstep k) (fun s => Inv (fst s))); [|exact inv_init].
  intros s i Hs. unfold sys_step. destruct (nth_error (snd s) i) as [lo|]; [|exact Hs].
  destruct lo as [|o t]; cbn; [exact Hs|]. apply inv_step. exact Hs.
Qed.

(* ------------------------------------------------------------------------------------------ *)
(* the pinned tree, and non-vacuity                                                            *)
(* ------------------------------------------------------------------------------------------ *)

Definition k0 : cfg := {| maxConn := 0; maxCtl := 0; hbTimeout := 2 |}.

Lemma pinned_reauth_refuted :
  exists ops x c, by_client (run Pinned k0 init ops) x = Some c /\ by_conn (run Pinned k0 init ops) c = None
                  /\ mem c (closed (run Pinned k0 init ops)) = true.
Proof.
  exists [Accept 1; RegRaw 1 0; AuthRaw 1 100; AuthRaw 1 200; RemoveCtl 1], 100, 1. vm_compute. repeat split.
Qed.

Lemma pinned_handshake_refuted :
  exists ops x c r, by_client (run Pinned k0 init ops) x = Some c /\ by_conn (run Pinned k0 init ops) c = Some r /\ c_cid r <> x.
Proof.
  exists [Accept 1; Handshake 1 0 100 true; Handshake 1 0 200 false], 100, 1. eexists. vm_compute. repeat split. discriminate.
Qed.

(* a concrete non-trivial reachable state: two clients logged in, one re-login evicted an older connection *)
Definition demo_ops : list op :=
  [Accept 1; Accept 2; Accept 3; Handshake 1 0 7 true; Handshake 2 0 8 true; Handshake 3 0 7 true; Heartbeat 3; Tick 1].
Lemma demo_state :
  by_client (run Current k0 init demo_ops) 7 = Some 3 /\ by_client (run Current k0 init demo_ops) 8 = Some 2 /\
  by_conn (run Current k0 init demo_ops) 1 = None /\ mem 1 (closed (run Current k0 init demo_ops)) = true /\
  counts (run Current k0 init demo_ops) = (3, 2, 0).
Proof. vm_compute. repeat split. Qed.

(* the tree as it is (Head): Register of an existing ConnID closes the stream the replacement shares with the old record *)
Lemma head_rereg_refuted :
  exists ops x c, by_client (run Head k0 init ops) x = Some c /\ mem c (closed (run Head k0 init ops)) = true.
Proof. exists [Accept 1; Handshake 1 0 7 true; ReReg 1 9], 9, 1. vm_compute. split; reflexivity. Qed.

(* ... and with the repair: the authenticated record is replaced, the old id no longer resolves, the transport stays open *)
Lemma rereg_demo :
  let s := run Current k0 init [Accept 1; Handshake 1 0 7 true; ReReg 1 9] in
  by_client s 9 = Some 1 /\ by_client s 7 = None /\ mem 1 (closed s) = false /\ counts s = (1, 1, 0).
Proof. vm_compute. repeat split. Qed.

(* an unauthenticated record that claims client id 7 neither displaces the authenticated connection of 7 nor survives its own close in the index *)
Lemma claim_demo :
  let s := run Current k0 init [Accept 1; Accept 2; Handshake 1 0 7 true; RegClaim 2 7] in
  by_client s 7 = Some 1 /\ (exists r, by_conn s 2 = Some r /\ c_auth r = false /\ c_cid r = 7) /\
  by_client (close_conn 2 s) 7 = Some 1 /\ by_conn (close_conn 2 s) 2 = None /\ counts (close_conn 2 s) = (1, 1, 0).
Proof. vm_compute. repeat split. eexists. repeat split. Qed.

(* Register of a ConnID that already has a record is a replacement: nobody is evicted (also at the connection limit), every other
   record is untouched, the control count does not move and no transport is closed *)
Lemma rereg_is_replacement k c r r0 s : Inv s -> get c (reg s) = Some r0 ->
  let s' := registry_rereg Current k c r s in
  (forall c', c' <> c -> by_conn s' c' = by_conn s c') /\ by_conn s' c = Some r /\
  size (reg s') = size (reg s) /\ closed s' = closed s /\ sess s' = sess s.
Proof.
  intros Hinv Hc s'. unfold s', registry_rereg. cbn [keeps_shared]. rewrite Hc.
  unfold registry_register. cbn [no_limit maxCtl]. cbn [N.ltb N.compare andb].
  assert (Hn : get c (reg (registry_unregister c s)) = None) by (rewrite reg_unregister; apply get_del_same).
  rewrite Hn. cbn zeta.
  assert (Hreg : forall X, reg (if c_auth r && (0 <? c_cid r)
                                then with_idx (with_reg (registry_unregister c s) X) (set (c_cid r) c (idx (with_reg (registry_unregister c s) X)))
                                else with_reg (registry_unregister c s) X) = X)
    by (intros X; destruct (c_auth r && (0 <? c_cid r)); reflexivity).
  unfold by_conn. rewrite Hreg, reg_unregister.
  repeat split.
  - intros c' Hne. rewrite get_set_other by exact Hne. apply get_del_other. exact Hne.
  - apply get_set_same.
  - unfold set. rewrite (del_none c (del c (reg s))) by apply get_del_same.
    pose proof (size_del_some c r0 (reg s) (inv_nd_reg _ Hinv) Hc) as Hs. unfold size in *. cbn [length]. lia.
  - destruct (c_auth r && (0 <? c_cid r)); unfold with_idx, with_reg; proj; apply closed_unregister.
  - destruct (c_auth r && (0 <? c_cid r)); unfold with_idx, with_reg; proj; apply sess_unregister.
Qed.

(* ---- the stale sweep never un-indexes a fresh connection ---- *)
Lemma unindex_keeps c' r' i x c : get x i = Some c -> c <> c' -> get x (unindex c' r' i) = Some c.
Proof.
  intros Hx Hne. unfold unindex. destruct (c_auth r' && (0 <? c_cid r')); [|exact Hx].
  destruct (get (c_cid r') i) as [c2|] eqn:E; [|exact Hx]. destruct (c2 =? c') eqn:E2; [|exact Hx].
  apply N.eqb_eq in E2. subst c2.
  assert (Hk : x <> c_cid r') by (intros ->; rewrite E in Hx; injection Hx as Hx; congruence).
  rewrite get_del_other by exact Hk. exact Hx.
Qed.

Lemma idx_registry_remove_none c s : get c (reg s) = None -> idx (registry_remove c s) = idx s.
Proof. intros H. unfold registry_remove. rewrite H. reflexivity. Qed.

Lemma idx_sweep_one s c r : idx (sweep_one s (c, r)) = unindex c r (idx s).
Proof.
  unfold sweep_one, with_closed. proj. unfold close_conn. rewrite idx_tunnel_remove.
  set (s1 := with_reg (with_idx s (unindex c r (idx s))) (del c (reg s))).
  assert (Hn : get c (reg (if mem c (sess s1) then with_closed (with_sess s1 (rem c (sess s1))) (add c (closed s1)) else s1)) = None).
  { destruct (mem c (sess s1)); unfold s1, with_closed, with_sess, with_reg, with_idx; proj; apply get_del_same. }
  rewrite (idx_registry_remove_none _ _ Hn). destruct (mem c (sess s1)); reflexivity.
Qed.

Lemma sweep_fold_keeps x c l : forall s, get x (idx s) = Some c -> (forall e, In e l -> fst e <> c) ->
  get x (idx (fold_left sweep_one l s)) = Some c.
Proof.
  induction l as [|[c' r'] t IH]; cbn [fold_left]; intros s Hx Hne; [exact Hx|].
  apply IH.
  - rewrite idx_sweep_one. apply unindex_keeps; [exact Hx|]. intros Heq. apply (Hne (c', r')); [left; reflexivity|]. cbn [fst]. congruence.
  - intros e He. apply Hne. right. exact He.
Qed.

Lemma sweep_fold_keeps_reg c l : forall s r2, (forall e, In e l -> fst e <> c) -> get c (reg s) = Some r2 ->
  get c (reg (fold_left sweep_one l s)) = Some r2.
Proof.
  induction l as [|[c3 r3] t IH]; cbn [fold_left]; intros s r2 Hne E2; [exact E2|].
  assert (H3 : c <> c3) by (intros ->; apply (Hne (c3, r3)); [left; reflexivity|reflexivity]).
  apply IH; [intros e He; apply Hne; right; exact He|].
  rewrite reg_sweep_one, !get_del_other by exact H3. exact E2.
Qed.

(* a registered connection whose last activity is within the heartbeat timeout and which is the indexed connection of its client
   is still registered and still the answer for that client after the sweep — whatever else the sweep removes (e.g. a stale record
   authenticated as the same client that was never indexed) *)
Theorem sweep_keeps_fresh k s x c r : Inv s ->
  by_client s x = Some c -> by_conn s c = Some r -> is_stale k s r = false ->
  by_client (fst (sweep k s)) x = Some c /\ by_conn (fst (sweep k s)) c = Some r.
Proof.
  intros Hinv Hx Hc Hfresh. unfold by_client, by_conn, sweep in *. cbn [fst].
  assert (Hne : forall e, In e (stale_entries k s) -> fst e <> c).
  { intros [c' r'] He Heq. cbn [fst] in Heq. subst c'. unfold stale_entries in He. apply filter_In in He. destruct He as [He Hs].
    cbn [snd] in Hs. apply (in_get_some c r' (reg s) (inv_nd_reg _ Hinv)) in He. rewrite Hc in He. injection He as <-. congruence. }
  split; [apply sweep_fold_keeps; assumption|apply sweep_fold_keeps_reg; assumption].
Qed.

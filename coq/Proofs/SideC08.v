(* Proofs/SideC08.v — side conditions tying Model/ConnState.v to the values regenerated from /repo
   (Gen/C08.v): re-proved for the current values on every run. *)
From TX Require Import Base.Val Model.ConnState Proofs.ConnState Gen.C08.
From Coq Require Import Lia ZArith ZifyN ZifyNat ZifyBool.
Open Scope N_scope.

(* the ttl wired in components_session.go is the store's default, and is positive *)
Lemma ttl_positive : 0 < ConnStateTTLms.
Proof. vm_compute. reflexivity. Qed.

Lemma store_default_is_wired_ttl : StoreDefaultTTLms = ConnStateTTLms.
Proof. vm_compute. reflexivity. Qed.

(* "heartbeats arrive at intervals < ttl" holds for the configured client keep-alive and the interval the server
   hands to clients *)
Lemma keepalive_within_ttl : ClientKeepaliveMs < ConnStateTTLms /\ CloudHeartbeatIntervalMs < ConnStateTTLms.
Proof. split; vm_compute; reflexivity. Qed.

(* a connection that stops sending heartbeats is closed by its node before its record could lapse *)
Lemma silent_connection_dropped_before_record_lapses : SessionHeartbeatTimeoutMs < ConnStateTTLms.
Proof. vm_compute. reflexivity. Qed.

(* the two key families cannot collide: neither prefix is a prefix of the other
   (so the model's two maps cs / ci are really disjoint parts of the one storage) *)
Fixpoint prefixb (p s : list N) : bool :=
  match p, s with
  | [], _ => true
  | x :: p', y :: s' => (x =? y) && prefixb p' s'
  | _ :: _, [] => false
  end.

Lemma key_families_disjoint :
  prefixb conn_key_prefix client_key_prefix = false /\ prefixb client_key_prefix conn_key_prefix = false.
Proof. split; vm_compute; reflexivity. Qed.

(* the tiered storage sends both families to the shared cache (and only there), so the nodes of a cluster see ONE store *)
Lemma hybrid_routes_both_families_to_shared_cache :
  hybrid_shares_conn_state = true /\ hybrid_shares_client_conn = true.
Proof. split; reflexivity. Qed.

(* with the configured values a client that just keeps sending its keep-alive satisfies the `kept` hypothesis *)
Lemma configured_heartbeats_keep_alive n c k :
  kept ConnStateTTLms n c (beats n c ClientKeepaliveMs k) 0 = true.
Proof. apply kept_beats; [exact (proj1 keepalive_within_ttl)|exact ttl_positive]. Qed.

(* ---- handshake request shapes: the server's own classification (probed on the real handleHandshake for all 32 shapes)
        agrees with the model's, and is tied to what the store indexes ---- *)
Definition shape_row_ok (it : nat * (bool * bool * list N * bool)) : bool :=
  let '(k, (is_ctl, has_rec, ct, indexed)) := it in
  Bool.eqb is_ctl (shape_is_control (N.of_nat k))            (* the model classifies the shape as the code does *)
  && Bool.eqb has_rec is_ctl                                  (* a record is written exactly for control handshakes *)
  && Bool.eqb indexed is_ctl                                  (* ... and exactly those clients can be looked up *)
  && (negb has_rec || match lookup store_indexes_conntype ct with Some true => true | _ => false end).
                                                              (* the ConnType it registers is one the store indexes *)

Lemma handshake_classification_matches_store_index :
  length handshake_shapes = 32%nat /\
  forallb shape_row_ok (combine (seq 0 32) handshake_shapes) = true.
Proof. split; vm_compute; reflexivity. Qed.

(* the store builds the client index for "control" only: anything handleHandshake registers for a control connection
   must therefore carry exactly that ConnType *)
Lemma store_indexes_control_only :
  map snd store_indexes_conntype = [true; false; false; false].
Proof. vm_compute. reflexivity. Qed.
Close Scope N_scope.

(* Proofs/TunnelOpen.v — lemmas about Model/TunnelOpen.v (property C04). *)
From TX Require Import Model.TunnelOpen.
From Coq Require Import List NArith Bool Lia ZArith ZifyN ZifyNat ZifyBool.
Import ListNotations.
Open Scope N_scope.

(* ------------------------------------------------------------------------------------------------
   1. the credential validator of the repaired code implies the specification's entitlement
   ------------------------------------------------------------------------------------------------ *)
Lemma validate_current_entitled :
  forall (d : db) (c : conn_id) (r : request),
    c_registered c = true ->
    validate current d (c_client c) r = true ->
    entitledb d c r (r_mid r) = true.
Proof.
  intros d c r Hreg Hv.
  unfold validate in Hv. unfold entitledb. rewrite Hreg.
  destruct (r_resume r); [discriminate|].
  destruct (N.eqb (c_client c) 0) eqn:Hc0; [discriminate|].
  rewrite N.eqb_refl.
  unfold get_mapping in Hv.
  destruct (N.eqb (r_mid r) 0) eqn:Hm0; cbn [negb andb] in Hv |- *.
  - (* no mapping id: only the secret path could run, and it finds no mapping *)
    destruct (N.eqb (r_secret r) 0); cbn [negb] in Hv; discriminate.
  - destruct (N.eqb (r_secret r) 0) eqn:Hs0; cbn [negb andb] in Hv.
    + (* ValidateMapping *)
      destruct (d (r_mid r)) as [m|]; [|discriminate].
      unfold can_be_accessed_by in Hv.
      destruct (is_valid m); cbn [negb] in Hv; [|discriminate].
      rewrite Hv. reflexivity.
    + (* secret path *)
      destruct (d (r_mid r)) as [m|]; [|discriminate].
      destruct (N.eqb (m_secret m) (r_secret r)) eqn:Hk; cbn [negb] in Hv; [|discriminate].
      cbn [current v_secret_isvalid andb] in Hv.
      destruct (is_valid m); cbn [negb] in Hv; [|discriminate].
      destruct (N.eqb (m_listen m) (c_client c)); destruct (N.eqb (m_target m) (c_client c));
        cbn [negb andb orb] in Hv |- *; try discriminate; reflexivity.
Qed.

Lemma existing_not_refused : forall d r, refused (existing d r) = false.
Proof. intros d r. unfold existing. destruct (if N.eqb (r_mid r) 0 then false else _); reflexivity. Qed.

Lemma fresh_not_refused : forall cfg d c r, refused (fresh cfg d c r) = false.
Proof.
  intros cfg d c r. unfold fresh.
  destruct (if N.eqb (r_mid r) 0 then false else _).
  - destruct (get_mapping d (r_mid r)); reflexivity.
  - destruct (cfg_routing cfg && cfg_crossnode cfg); reflexivity.
Qed.

(* every outcome other than a refusal (attachments AND bare success acknowledgements) needs entitlement to the
   tunnel's mapping *)
Lemma success_implies_entitled :
  forall cfg d tun rt c r,
    refused (open current cfg d tun rt c r) = false ->
    entitledb d c r (tunnel_mid tun rt r) = true.
Proof.
  intros cfg d tun rt c r H.
  unfold open in H. cbn [current v_validate_first] in H.
  destruct (c_registered c) eqn:Hreg; cbn [negb] in H; [|discriminate].
  destruct (validate current d (c_client c) r) eqn:Hv; cbn [negb] in H; [|discriminate].
  fold current in Hv.
  pose proof (validate_current_entitled d c r Hreg Hv) as He.
  unfold tunnel_mid.
  destruct (tun (r_tid r)) as [b|].
  - destruct (N.eqb (b_mid b) (r_mid r)) eqn:Hb; [|discriminate].
    apply N.eqb_eq in Hb. rewrite Hb. exact He.
  - destruct (rt (r_tid r)) as [ro|].
    + destruct (N.eqb (ro_mid ro) (r_mid r)) eqn:Hb; [|discriminate].
      apply N.eqb_eq in Hb. rewrite Hb. exact He.
    + exact He.
Qed.

Lemma attaches_not_refused : forall o, attaches o = true -> refused o = false.
Proof. intros o; destruct o; cbn; congruence. Qed.

Lemma attach_implies_entitled :
  forall cfg d tun rt c r,
    attaches (open current cfg d tun rt c r) = true ->
    entitledb d c r (tunnel_mid tun rt r) = true.
Proof.
  intros cfg d tun rt c r H. apply (success_implies_entitled cfg). apply attaches_not_refused. exact H.
Qed.

(* the propositional reading of entitledb *)
Lemma entitledb_spec :
  forall d c r tm, entitledb d c r tm = true ->
    c_registered c = true /\ c_client c <> 0 /\ r_mid r = tm /\ tm <> 0 /\
    exists m, d tm = Some m /\ m_revoked m = false /\ m_expired m = false /\ m_active m = true /\
      ((m_listen m = c_client c /\ r_secret r = 0) \/
       ((m_listen m = c_client c \/ m_target m = c_client c) /\ r_secret r = m_secret m /\ r_secret r <> 0)).
Proof.
  intros d c r tm H. unfold entitledb in H.
  destruct (c_registered c); cbn [andb] in H; [|discriminate].
  destruct (N.eqb (c_client c) 0) eqn:Hc; cbn [negb andb] in H; [discriminate|].
  destruct (N.eqb (r_mid r) tm) eqn:Hm; cbn [andb] in H; [|discriminate].
  destruct (N.eqb tm 0) eqn:Ht; cbn [negb andb] in H; [discriminate|].
  destruct (d tm) as [m|]; [|discriminate].
  apply N.eqb_neq in Hc. apply N.eqb_eq in Hm. apply N.eqb_neq in Ht.
  split; [reflexivity|]. split; [exact Hc|]. split; [exact Hm|]. split; [exact Ht|].
  exists m. split; [reflexivity|].
  unfold is_valid in H.
  destruct (m_revoked m); [discriminate|].
  destruct (m_expired m); [discriminate|].
  destruct (m_active m); cbn [negb andb] in H; [|discriminate].
  split; [reflexivity|]. split; [reflexivity|]. split; [reflexivity|].
  destruct (N.eqb (m_listen m) (c_client c)) eqn:Hl;
  destruct (N.eqb (m_target m) (c_client c)) eqn:Htg;
  destruct (N.eqb (r_secret r) 0) eqn:Hs;
  destruct (N.eqb (m_secret m) (r_secret r)) eqn:Hk; cbn [negb andb orb] in H; try discriminate;
  repeat match goal with
         | Hx : N.eqb _ _ = true |- _ => apply N.eqb_eq in Hx
         | Hx : N.eqb _ _ = false |- _ => apply N.eqb_neq in Hx
         end.
  all: first [ left; split; [exact Hl | exact Hs]
             | right; split; [left; exact Hl | split; [symmetry; exact Hk | exact Hs]]
             | right; split; [right; exact Htg | split; [symmetry; exact Hk | exact Hs]] ].
Qed.

(* ------------------------------------------------------------------------------------------------
   2. a refusal is always announced (when the cross-node transport is configured, as the server wires it)
   ------------------------------------------------------------------------------------------------ *)
Lemma refused_gets_failure_ack :
  forall cfg d tun rt c r a,
    cfg_crossnode cfg = true ->
    open current cfg d tun rt c r = Refuse a -> a = true.
Proof.
  intros cfg d tun rt c r a Hcfg H.
  unfold open in H. cbn [current v_validate_first] in H.
  destruct (c_registered c); cbn [negb] in H; [|injection H as <-; reflexivity].
  destruct (validate _ d (c_client c) r); cbn [negb] in H; [|injection H as <-; reflexivity].
  destruct (tun (r_tid r)) as [b|].
  - destruct (N.eqb (b_mid b) (r_mid r)); [|injection H as <-; reflexivity].
    pose proof (existing_not_refused d r) as Hn. rewrite H in Hn. discriminate.
  - destruct (rt (r_tid r)) as [ro|].
    + destruct (N.eqb (ro_mid ro) (r_mid r)) eqn:Hb; [|injection H as <-; reflexivity].
      unfold cross in H. rewrite Hcfg in H. cbn [negb] in H. rewrite Hb in H.
      cbn [negb andb] in H. rewrite Bool.andb_false_r in H.
      destruct (N.eqb (ro_node ro) (cfg_self cfg)); discriminate.
    + pose proof (fresh_not_refused cfg d c r) as Hn. rewrite H in Hn. discriminate.
Qed.

(* ------------------------------------------------------------------------------------------------
   3. histories: tunnel traffic reaches a connection only through an accepted TunnelOpen of that very connection
   ------------------------------------------------------------------------------------------------ *)
Definition log_keys (s : sys) : list (connref * tid) := map fst (s_log s).

Ltac fin_open Ho :=
  split; [reflexivity | split; [reflexivity | split; [rewrite Ho; reflexivity | reflexivity]]].

Lemma find_parked_some :
  forall cr l p, find (parked_of cr) l = Some p -> In p l /\ fst (fst p) = cr.
Proof.
  intros cr l p H. apply find_some in H. destruct H as [Hin Hp]. split; [exact Hin|].
  unfold parked_of in Hp. apply N.eqb_eq in Hp. exact Hp.
Qed.

(* the mapping-agreement test of processCrossNodeForward in the repaired code *)
Lemma cross_current_agrees :
  forall cfg ro r, attaches (cross current cfg ro r) = true -> N.eqb (ro_mid ro) (r_mid r) = true.
Proof.
  intros cfg ro r H. unfold cross in H.
  destruct (cfg_crossnode cfg); cbn [negb] in H; [|discriminate].
  cbn [current v_validate_first andb] in H.
  destruct (N.eqb (ro_mid ro) (r_mid r)); [reflexivity | cbn [negb] in H; discriminate].
Qed.

(* one step: either the connection already held the tunnel, or this very event is an accepted open by it (logged), or the routing
   poll of its own parked request fired and it was forwarded (logged), or its own wait inside handleLocalBridgeWait found a bridge
   and it was attached (logged) *)
Lemma step_holds :
  forall v cfg s e cr t,
    holds (step v cfg s e) cr t ->
    holds s cr t \/
    (exists c r, e = EOpen cr c r /\ r_tid r = t /\
                attaches (open v cfg (s_db s) (s_tun s) (s_rt s) c r) = true /\
                s_log (step v cfg s e) =
                  (cr, t, entitledb (s_db s) c r (tunnel_mid (s_tun s) (s_rt s) r)) :: s_log s) \/
    (e = EResolve cr /\ exists r ok ro, In (cr, r, ok) (s_park s) /\ r_tid r = t /\ s_rt s t = Some ro /\
                attaches (cross v cfg ro r) = true /\
                s_log (step v cfg s e) = (cr, t, ok && N.eqb (ro_mid ro) (r_mid r)) :: s_log s) \/
    (e = EWaitResolve cr /\ exists r ok b, In (cr, r, ok) (s_wait s) /\ r_tid r = t /\ s_tun s t = Some b /\
                (v_wait_agree v && negb (N.eqb (b_mid b) (r_mid r))) = false /\
                s_log (step v cfg s e) = (cr, t, ok && N.eqb (b_mid b) (r_mid r)) :: s_log s).
Proof.
  intros v cfg s e cr t.
  destruct e as [cr0 c r | m x | t0 x | t0 | cr0 t0 | cr0 | cr0 | cr0]; cbn [step].
  - (* EOpen *)
    destruct (open v cfg (s_db s) (s_tun s) (s_rt s) c r) eqn:Ho; intro H.
    + left; exact H.
    + (* AttachSource *)
      destruct (s_tun s (r_tid r)) as [b|] eqn:Hb; [|left; exact H].
      destruct H as [[b' [Hb' Hor]] | Hin]; cbn [s_tun s_fwd] in *.
      * unfold upd in Hb'. destruct (N.eqb t (r_tid r)) eqn:Ht.
        -- apply N.eqb_eq in Ht. injection Hb' as <-. cbn [b_src b_tgt] in Hor.
           destruct Hor as [Hs | Htg].
           ++ injection Hs as <-. right. left. exists c, r. subst t. fin_open Ho.
           ++ left. left. exists b. subst t. split; [exact Hb | right; exact Htg].
        -- left. left. exists b'. split; assumption.
      * left. right. exact Hin.
    + (* AttachTarget *)
      destruct (s_tun s (r_tid r)) as [b|] eqn:Hb; [|left; exact H].
      destruct H as [[b' [Hb' Hor]] | Hin]; cbn [s_tun s_fwd] in *.
      * unfold upd in Hb'. destruct (N.eqb t (r_tid r)) eqn:Ht.
        -- apply N.eqb_eq in Ht. injection Hb' as <-. cbn [b_src b_tgt] in Hor.
           destruct Hor as [Hs | Htg].
           ++ left. left. exists b. subst t. split; [exact Hb | left; exact Hs].
           ++ injection Htg as <-. right. left. exists c, r. subst t. fin_open Ho.
        -- left. left. exists b'. split; assumption.
      * left. right. exact Hin.
    + (* NewBridge *)
      destruct H as [[b' [Hb' Hor]] | Hin]; cbn [s_tun s_fwd] in *.
      * unfold upd in Hb'. destruct (N.eqb t (r_tid r)) eqn:Ht.
        -- apply N.eqb_eq in Ht. injection Hb' as <-. cbn [b_src b_tgt] in Hor.
           destruct Hor as [Hs | Htg]; [|discriminate].
           injection Hs as <-. right. left. exists c, r. subst t. fin_open Ho.
        -- left. left. exists b'. split; assumption.
      * left. right. exact Hin.
    + (* Forward *)
      destruct H as [[b' [Hb' Hor]] | Hin]; cbn [s_tun s_fwd] in *.
      * left. left. exists b'. split; assumption.
      * destruct Hin as [Heq | Hin].
        -- injection Heq as <- <-. right. left. exists c, r. fin_open Ho.
        -- left. right. exact Hin.
    + (* WaitLocal: only enters the wait *) left. exact H.
    + left; exact H.
    + (* Parked *) left. exact H.
  - (* ESetMapping *) intro H. left. exact H.
  - (* ESetRoute *) intro H. left. exact H.
  - (* ECloseBridge *)
    destruct (s_tun s t0) as [b0|] eqn:Hb0; [|intro H; left; exact H].
    intro H. left.
    destruct H as [[b' [Hb' Hor]] | Hin]; cbn [s_tun s_fwd] in *.
    + unfold upd in Hb'. destruct (N.eqb t t0); [discriminate|].
      left. exists b'. split; assumption.
    + right. exact Hin.
  - (* EEndForward *)
    intro H. left.
    destruct H as [[b' [Hb' Hor]] | Hin]; cbn [s_tun s_fwd] in *.
    + left. exists b'. split; assumption.
    + right. apply filter_In in Hin. destruct Hin as [Hin _]. exact Hin.
  - (* EResolve *)
    destruct (find (parked_of cr0) (s_park s)) as [[[crp r] ok]|] eqn:Hf; [|intro H; left; exact H].
    apply find_parked_some in Hf. destruct Hf as [Hinp Hcr]. cbn [fst] in Hcr. subst crp.
    destruct (s_rt s (r_tid r)) as [ro|] eqn:Hrt; [|intro H; left; exact H].
    destruct (cross v cfg ro r) eqn:Hc; intro H;
      try (left; destruct H as [[b' [Hb' Hor]] | Hin]; cbn [s_tun s_fwd] in *;
           [left; exists b'; split; assumption | right; exact Hin]).
    (* Forward *)
    destruct H as [[b' [Hb' Hor]] | Hin]; cbn [s_tun s_fwd] in *.
    + left. left. exists b'. split; assumption.
    + destruct Hin as [Heq | Hin].
      * injection Heq as <- <-. right. right. left. split; [reflexivity|].
        exists r, ok, ro. rewrite Hc. repeat split; try reflexivity; assumption.
      * left. right. exact Hin.
  - (* ETimeout *) intro H. left. exact H.
  - (* EWaitResolve *)
    destruct (find (parked_of cr0) (s_wait s)) as [[[crp r] ok]|] eqn:Hf; [|intro H; left; exact H].
    apply find_parked_some in Hf. destruct Hf as [Hinp Hcr]. cbn [fst] in Hcr. subst crp.
    destruct (s_tun s (r_tid r)) as [b|] eqn:Hb; [|intro H; left; exact H].
    destruct (v_wait_agree v && negb (N.eqb (b_mid b) (r_mid r))) eqn:Hag; intro H.
    + left. destruct H as [[b' [Hb' Hor]] | Hin]; cbn [s_tun s_fwd] in *;
        [left; exists b'; split; assumption | right; exact Hin].
    + destruct H as [[b' [Hb' Hor]] | Hin]; cbn [s_tun s_fwd] in *.
      * unfold upd in Hb'. destruct (N.eqb t (r_tid r)) eqn:Ht.
        -- apply N.eqb_eq in Ht. injection Hb' as <-. cbn [b_src b_tgt] in Hor.
           destruct Hor as [Hs | Htg].
           ++ left. left. exists b. subst t. split; [exact Hb | left; exact Hs].
           ++ injection Htg as <-. right. right. right. split; [reflexivity|].
              exists r, ok, b. subst t. repeat split; try reflexivity; assumption.
        -- left. left. exists b'. split; assumption.
      * left. right. exact Hin.
Qed.

(* the ghost log only grows, and only by the entry of the current accepted open / forwarded parked request / attached waiter *)
Lemma step_log :
  forall v cfg s e,
    s_log (step v cfg s e) = s_log s \/
    (exists cr c r, e = EOpen cr c r /\
      attaches (open v cfg (s_db s) (s_tun s) (s_rt s) c r) = true /\
      s_log (step v cfg s e) =
        (cr, r_tid r, entitledb (s_db s) c r (tunnel_mid (s_tun s) (s_rt s) r)) :: s_log s) \/
    (exists cr r ok ro, e = EResolve cr /\ In (cr, r, ok) (s_park s) /\ s_rt s (r_tid r) = Some ro /\
      attaches (cross v cfg ro r) = true /\
      s_log (step v cfg s e) = (cr, r_tid r, ok && N.eqb (ro_mid ro) (r_mid r)) :: s_log s) \/
    (exists cr r ok b, e = EWaitResolve cr /\ In (cr, r, ok) (s_wait s) /\ s_tun s (r_tid r) = Some b /\
      (v_wait_agree v && negb (N.eqb (b_mid b) (r_mid r))) = false /\
      s_log (step v cfg s e) = (cr, r_tid r, ok && N.eqb (b_mid b) (r_mid r)) :: s_log s).
Proof.
  intros v cfg s e.
  destruct e as [cr0 c r | m x | t0 x | t0 | cr0 t0 | cr0 | cr0 | cr0]; cbn [step]; try (left; reflexivity).
  2: { destruct (s_tun s t0); left; reflexivity. }
  - destruct (open v cfg (s_db s) (s_tun s) (s_rt s) c r) eqn:Ho; try (left; reflexivity).
    + destruct (s_tun s (r_tid r)); [|left; reflexivity].
      right. left. exists cr0, c, r. rewrite Ho. repeat split; reflexivity.
    + destruct (s_tun s (r_tid r)); [|left; reflexivity].
      right. left. exists cr0, c, r. rewrite Ho. repeat split; reflexivity.
    + right. left. exists cr0, c, r. rewrite Ho. repeat split; reflexivity.
    + right. left. exists cr0, c, r. rewrite Ho. repeat split; reflexivity.
  - destruct (find (parked_of cr0) (s_park s)) as [[[crp r] ok]|] eqn:Hf; [|left; reflexivity].
    apply find_parked_some in Hf. destruct Hf as [Hinp Hcr]. cbn [fst] in Hcr. subst crp.
    destruct (s_rt s (r_tid r)) as [ro|] eqn:Hrt; [|left; reflexivity].
    destruct (cross v cfg ro r) eqn:Hc; try (left; reflexivity).
    right. right. left. exists cr0, r, ok, ro. rewrite Hc. repeat split; try reflexivity; assumption.
  - destruct (find (parked_of cr0) (s_wait s)) as [[[crp r] ok]|] eqn:Hf; [|left; reflexivity].
    apply find_parked_some in Hf. destruct Hf as [Hinp Hcr]. cbn [fst] in Hcr. subst crp.
    destruct (s_tun s (r_tid r)) as [b|] eqn:Hb; [|left; reflexivity].
    destruct (v_wait_agree v && negb (N.eqb (b_mid b) (r_mid r))) eqn:Hag; [left; reflexivity|].
    right. right. right. exists cr0, r, ok, b. repeat split; try reflexivity; assumption.
Qed.

(* who polls the routing table after a step: already did, or this event is an accepted open of that connection *)
Lemma step_park :
  forall v cfg s e p,
    In p (s_park (step v cfg s e)) ->
    In p (s_park s) \/
    exists c r, e = EOpen (fst (fst p)) c r /\
      attaches (open v cfg (s_db s) (s_tun s) (s_rt s) c r) = true /\
      snd p = entitledb (s_db s) c r (tunnel_mid (s_tun s) (s_rt s) r).
Proof.
  intros v cfg s e p.
  destruct e as [cr0 c r | m x | t0 x | t0 | cr0 t0 | cr0 | cr0 | cr0]; cbn [step]; try (intro H; left; exact H).
  2: { destruct (s_tun s t0); intro H; left; exact H. }
  - destruct (open v cfg (s_db s) (s_tun s) (s_rt s) c r) eqn:Ho; try (intro H; left; exact H).
    + destruct (s_tun s (r_tid r)); intro H; left; exact H.
    + destruct (s_tun s (r_tid r)); intro H; left; exact H.
    + cbn [s_park]. intro H. apply in_app_or in H. destruct H as [H | [H | []]]; [left; exact H|].
      subst p. right. exists c, r. cbn [fst snd]. rewrite Ho. repeat split; reflexivity.
  - destruct (find (parked_of cr0) (s_park s)) as [[[crp r] ok]|]; [|intro H; left; exact H].
    destruct (s_rt s (r_tid r)) as [ro|]; [|intro H; left; exact H].
    assert (Hsub : In p (unpark cr0 (s_park s)) -> In p (s_park s)).
    { intro H. apply filter_In in H. destruct H as [H _]. exact H. }
    destruct (cross v cfg ro r); cbn [s_park]; intro H; left; apply Hsub; exact H.
  - cbn [s_park]. intro H. left. apply filter_In in H. destruct H as [H _]. exact H.
  - destruct (find (parked_of cr0) (s_wait s)) as [[[crp r] ok]|]; [|intro H; left; exact H].
    destruct (s_tun s (r_tid r)) as [b|]; [|intro H; left; exact H].
    destruct (v_wait_agree v && negb (N.eqb (b_mid b) (r_mid r))); cbn [s_park]; intro H; left; exact H.
Qed.

(* who waits inside handleLocalBridgeWait after a step: already did, or this event is an accepted open of that connection that the
   record sent there, or its routing poll fired on a record that says "this node" *)
Lemma step_wait :
  forall v cfg s e p,
    In p (s_wait (step v cfg s e)) ->
    In p (s_wait s) \/
    (exists c r, e = EOpen (fst (fst p)) c r /\
      attaches (open v cfg (s_db s) (s_tun s) (s_rt s) c r) = true /\
      snd p = entitledb (s_db s) c r (tunnel_mid (s_tun s) (s_rt s) r)) \/
    (exists r ok ro, e = EResolve (fst (fst p)) /\ In (fst (fst p), r, ok) (s_park s) /\ s_rt s (r_tid r) = Some ro /\
      attaches (cross v cfg ro r) = true /\ snd p = ok && N.eqb (ro_mid ro) (r_mid r)).
Proof.
  intros v cfg s e p.
  destruct e as [cr0 c r | m x | t0 x | t0 | cr0 t0 | cr0 | cr0 | cr0]; cbn [step]; try (intro H; left; exact H).
  2: { destruct (s_tun s t0); intro H; left; exact H. }
  - destruct (open v cfg (s_db s) (s_tun s) (s_rt s) c r) eqn:Ho; try (intro H; left; exact H).
    + destruct (s_tun s (r_tid r)); intro H; left; exact H.
    + destruct (s_tun s (r_tid r)); intro H; left; exact H.
    + cbn [s_wait]. intro H. apply in_app_or in H. destruct H as [H | [H | []]]; [left; exact H|].
      subst p. right. left. exists c, r. cbn [fst snd]. rewrite Ho. repeat split; reflexivity.
  - destruct (find (parked_of cr0) (s_park s)) as [[[crp r] ok]|] eqn:Hf; [|intro H; left; exact H].
    apply find_parked_some in Hf. destruct Hf as [Hinp Hcr]. cbn [fst] in Hcr. subst crp.
    destruct (s_rt s (r_tid r)) as [ro|] eqn:Hrt; [|intro H; left; exact H].
    destruct (cross v cfg ro r) eqn:Hc; cbn [s_wait]; try (intro H; left; exact H).
    intro H. apply in_app_or in H. destruct H as [H | [H | []]]; [left; exact H|].
    subst p. right. right. cbn [fst snd]. exists r, ok, ro. rewrite Hc. repeat split; try reflexivity; assumption.
  - cbn [s_wait]. intro H. left. apply filter_In in H. destruct H as [H _]. exact H.
  - destruct (find (parked_of cr0) (s_wait s)) as [[[crp r] ok]|]; [|intro H; left; exact H].
    destruct (s_tun s (r_tid r)) as [b|]; [|intro H; left; exact H].
    destruct (v_wait_agree v && negb (N.eqb (b_mid b) (r_mid r))); cbn [s_wait]; intro H; left;
      apply filter_In in H; destruct H as [H _]; exact H.
Qed.

Definition inv (s : sys) : Prop :=
  (forall cr t, holds s cr t -> In (cr, t) (log_keys s)) /\
  (forall e, In e (s_log s) -> snd e = true) /\
  (forall p, In p (s_park s) -> snd p = true) /\
  (forall p, In p (s_wait s) -> snd p = true).

Lemma inv_init : forall d rt, inv (init d rt).
Proof.
  intros d rt. split; [|split; [|split]].
  - intros cr t [[b [Hb _]] | Hin]; cbn in *; [discriminate | contradiction].
  - intros e H. cbn in H. contradiction.
  - intros p H. cbn in H. contradiction.
  - intros p H. cbn in H. contradiction.
Qed.

Lemma inv_step : forall cfg s e, inv s -> inv (step current cfg s e).
Proof.
  intros cfg s e [Hheld [Hlog [Hpark Hwait]]]. split; [|split; [|split]].
  - intros cr t H.
    assert (Hgrow : forall k, In k (log_keys s) -> In k (log_keys (step current cfg s e))).
    { intros k Hk. unfold log_keys in *.
      destruct (step_log current cfg s e) as [Hsame | [[cr' [c' [r' [_ [_ Hl]]]]] | [[cr' [r' [ok' [ro' [_ [_ [_ [_ Hl]]]]]]]] | [cr' [r' [ok' [b' [_ [_ [_ [_ Hl]]]]]]]]]]];
        [rewrite Hsame; exact Hk | rewrite Hl; cbn [map]; right; exact Hk | rewrite Hl; cbn [map]; right; exact Hk | rewrite Hl; cbn [map]; right; exact Hk]. }
    destruct (step_holds current cfg s e cr t H) as [Hold | [[c [r [He [Ht [Hatt Hl]]]]] | [[He [r [ok [ro [Hin [Ht [Hrt [Hatt Hl]]]]]]]] | [He [r [ok [b [Hin [Ht [Hb [Hag Hl]]]]]]]]]]].
    + apply Hgrow. apply Hheld. exact Hold.
    + unfold log_keys. rewrite Hl. cbn [map fst]. left. reflexivity.
    + unfold log_keys. rewrite Hl. cbn [map fst]. left. reflexivity.
    + unfold log_keys. rewrite Hl. cbn [map fst]. left. reflexivity.
  - intros en Hin.
    destruct (step_log current cfg s e) as [Hsame | [[cr' [c' [r' [_ [Hatt Hl]]]]] | [[cr' [r' [ok' [ro' [_ [Hinp [_ [Hatt Hl]]]]]]]] | [cr' [r' [ok' [b' [_ [Hinw [_ [Hag Hl]]]]]]]]]]].
    + rewrite Hsame in Hin. apply Hlog. exact Hin.
    + rewrite Hl in Hin. destruct Hin as [Heq | Hin].
      * subst en. cbn [snd]. apply (attach_implies_entitled cfg). exact Hatt.
      * apply Hlog. exact Hin.
    + rewrite Hl in Hin. destruct Hin as [Heq | Hin].
      * subst en. cbn [snd]. specialize (Hpark _ Hinp). cbn [snd] in Hpark. rewrite Hpark.
        rewrite (cross_current_agrees cfg ro' r' Hatt). reflexivity.
      * apply Hlog. exact Hin.
    + rewrite Hl in Hin. destruct Hin as [Heq | Hin].
      * subst en. cbn [snd]. specialize (Hwait _ Hinw). cbn [snd] in Hwait. rewrite Hwait.
        cbn [current v_wait_agree andb] in Hag. destruct (N.eqb (b_mid b') (r_mid r')); [reflexivity | discriminate].
      * apply Hlog. exact Hin.
  - intros p Hin.
    destruct (step_park current cfg s e p Hin) as [Hold | [c [r [_ [Hatt Hp]]]]].
    + apply Hpark. exact Hold.
    + rewrite Hp. apply (attach_implies_entitled cfg). exact Hatt.
  - intros p Hin.
    destruct (step_wait current cfg s e p Hin) as [Hold | [[c [r [_ [Hatt Hp]]]] | [r [ok [ro [_ [Hinp [_ [Hatt Hp]]]]]]]]].
    + apply Hwait. exact Hold.
    + rewrite Hp. apply (attach_implies_entitled cfg). exact Hatt.
    + rewrite Hp. specialize (Hpark _ Hinp). cbn [snd] in Hpark. rewrite Hpark.
      rewrite (cross_current_agrees cfg ro r Hatt). reflexivity.
Qed.

Lemma inv_run : forall cfg es s, inv s -> inv (run current cfg s es).
Proof.
  intros cfg es. induction es as [|e es IH]; intros s Hs; cbn [run fold_left].
  - exact Hs.
  - apply IH. apply inv_step. exact Hs.
Qed.

(* over ALL histories from a fresh session manager: whoever receives tunnel traffic got there through a TunnelOpen
   that was entitled (to the mapping of the bridge it is wired into / of the record it was forwarded on, as validated on arrival
   and re-compared when a parked or waiting request finally proceeds) *)
Lemma held_only_via_entitled_open :
  forall cfg d rt es cr t,
    holds (run current cfg (init d rt) es) cr t ->
    In (cr, t, true) (s_log (run current cfg (init d rt) es)).
Proof.
  intros cfg d rt es cr t H.
  destruct (inv_run cfg es (init d rt) (inv_init d rt)) as [Hheld [Hlog _]].
  specialize (Hheld cr t H). unfold log_keys in Hheld.
  apply in_map_iff in Hheld. destruct Hheld as [[k ok] [Hk Hin]]. cbn [fst] in Hk. subst k.
  specialize (Hlog _ Hin). cbn [snd] in Hlog. subst ok. exact Hin.
Qed.

(* a connection all of whose opens were refused never holds any tunnel, never polls and never waits — for EVERY variant of the
   dispatcher: the attachment points are reachable only through open *)
Lemma refused_never_holds :
  forall v cfg es s cr,
    (forall t, ~ holds s cr t) -> ~ parked s cr ->
    all_refused v cfg s es cr ->
    forall t, ~ holds (run v cfg s es) cr t.
Proof.
  intros v cfg es. induction es as [|e es IH]; intros s cr Hno Hnp Hall t; cbn [run fold_left].
  - apply Hno.
  - cbn [all_refused] in Hall. destruct Hall as [Hhead Htail].
    apply (IH (step v cfg s e) cr); [| |exact Htail].
    + intros t' Hh.
      destruct (step_holds v cfg s e cr t' Hh) as [Hold | [[c [r [He [Ht [Hatt _]]]]] | [[He [r [ok [ro [Hin _]]]]] | [He [r [ok [b [Hin _]]]]]]]].
      * exact (Hno t' Hold).
      * subst e. specialize (Hhead eq_refl). rewrite Hhead in Hatt. discriminate.
      * apply Hnp. exists r, ok. left. exact Hin.
      * apply Hnp. exists r, ok. right. exact Hin.
    + intros [r [ok [Hin | Hin]]].
      * destruct (step_park v cfg s e _ Hin) as [Hold | [c [r' [He [Hatt _]]]]].
        -- apply Hnp. exists r, ok. left. exact Hold.
        -- cbn [fst] in He. subst e. specialize (Hhead eq_refl). rewrite Hhead in Hatt. discriminate.
      * destruct (step_wait v cfg s e _ Hin) as [Hold | [[c [r' [He [Hatt _]]]] | [r' [ok' [ro [He [Hinp _]]]]]]].
        -- apply Hnp. exists r, ok. right. exact Hold.
        -- cbn [fst] in He. subst e. specialize (Hhead eq_refl). rewrite Hhead in Hatt. discriminate.
        -- cbn [fst] in Hinp. apply Hnp. exists r', ok'. left. exact Hinp.
Qed.

Lemma init_holds_nothing : forall d rt cr t, ~ holds (init d rt) cr t.
Proof. intros d rt cr t [[b [Hb _]] | Hin]; cbn in *; [discriminate | contradiction]. Qed.

Lemma init_parks_nothing : forall d rt cr, ~ parked (init d rt) cr.
Proof. intros d rt cr [r [ok [H | H]]]; cbn in H; contradiction. Qed.

(* ------------------------------------------------------------------------------------------------
   4. the finite table (the cells the harness drives through the real code)
   ------------------------------------------------------------------------------------------------ *)
Lemma table_current_ok : forallb (cell_ok current) all_cells = true.
Proof. vm_compute. reflexivity. Qed.

Lemma table_size : N.of_nat (length all_cells) = 13350%N.
Proof. vm_compute. reflexivity. Qed.

Lemma table_cells_ok : forall c, In c all_cells -> cell_ok current c = true.
Proof. intros c Hin. pose proof table_current_ok as H. rewrite forallb_forall in H. apply H. exact Hin. Qed.

(* the abstraction of a cell is an instance of the general theorem: the table adds the failure-ack column *)
Lemma cell_attach_entitled : forall c, attaches (cell_open current c) = true -> cell_entitled c = true.
Proof. intros c H. unfold cell_open in H. unfold cell_entitled. apply (attach_implies_entitled (cell_cfg c)). exact H. Qed.

Lemma cell_unentitled_failure_ack : forall c, In c all_cells -> cell_entitled c = false -> cell_open current c = Refuse true.
Proof.
  intros c Hin H. pose proof (table_cells_ok c Hin) as Hok. unfold cell_ok in Hok.
  rewrite H in Hok. rewrite Bool.orb_false_r in Hok. cbn [orb] in Hok.
  apply andb_prop in Hok. destruct Hok as [_ Hr].
  destruct (cell_open current c) as [[|]| | | | | | |]; try discriminate. reflexivity.
Qed.

(* ------------------------------------------------------------------------------------------------
   5. the tree as found (pinned variant) violates the property: concrete witnesses
   ------------------------------------------------------------------------------------------------ *)
(* a connection that never sent a handshake names a mapping that does not exist and a live tunnel id *)
Definition w_cell_existing : cell :=
  {| ce_id := IdNone; ce_mid := MidTunnel; ce_secret := SNone; ce_resume := false; ce_mstate := MMissing; ce_tstate := TWaiting; ce_party := PNormal |}.
Definition w_cell_remote : cell :=
  {| ce_id := IdNone; ce_mid := MidNone; ce_secret := SNone; ce_resume := false; ce_mstate := MActive; ce_tstate := TRemote; ce_party := PNormal |}.
(* the target client presents the right secret of a REVOKED mapping *)
Definition w_cell_revoked : cell :=
  {| ce_id := IdListen; ce_mid := MidTunnel; ce_secret := SRight; ce_resume := false; ce_mstate := MRevoked; ce_tstate := TNone; ce_party := PNormal |}.

Lemma pinned_existing_bridge_refuted :
  exists c, attaches (cell_open pinned c) = true /\ cell_entitled c = false.
Proof. exists w_cell_existing. split; vm_compute; reflexivity. Qed.

Lemma pinned_cross_node_refuted :
  exists c, attaches (cell_open pinned c) = true /\ cell_entitled c = false.
Proof. exists w_cell_remote. split; vm_compute; reflexivity. Qed.

Lemma pinned_cross_node_refuted_remote :
  exists c, ce_tstate c = TRemote /\ attaches (cell_open pinned c) = true /\ cell_entitled c = false.
Proof. exists w_cell_remote. split; [reflexivity|]. split; vm_compute; reflexivity. Qed.

Lemma pinned_secret_path_refuted :
  exists c, attaches (cell_open {| v_validate_first := true; v_secret_isvalid := false; v_wait_agree := true |} c) = true /\ cell_entitled c = false.
Proof. exists w_cell_revoked. split; vm_compute; reflexivity. Qed.

(* general (non-table) form of the pinned defect: ANY connection, ANY request naming a live tunnel id is attached *)
Lemma pinned_existing_bridge_attaches_anyone :
  forall cfg d tun rt c r b, tun (r_tid r) = Some b -> attaches (open pinned cfg d tun rt c r) = true.
Proof.
  intros cfg d tun rt c r b Hb. unfold open. cbn [pinned v_validate_first]. rewrite Hb.
  unfold existing. destruct (if N.eqb (r_mid r) 0 then false else _); reflexivity.
Qed.

(* ------------------------------------------------------------------------------------------------
   6. non-vacuity: legitimate opens still pass in the repaired code
   ------------------------------------------------------------------------------------------------ *)
Definition ex_db : db := fun m => if N.eqb m 1 then Some {| m_listen := 11; m_target := 12; m_secret := 101;
                                                          m_revoked := false; m_expired := false; m_active := true |} else None.
Definition ex_cfg : config := {| cfg_self := 1; cfg_crossnode := true; cfg_routing := true |}.
Definition ex_src : conn_id := {| c_registered := true; c_client := 11 |}.
Definition ex_tgt : conn_id := {| c_registered := true; c_client := 12 |}.
Definition ex_req : request := {| r_mid := 1; r_tid := 7; r_secret := 101; r_resume := false |}.

(* history: the listening client opens tunnel 7 on mapping 1, the target client joins it with the mapping's secret; a
   stranger then tries the same tunnel; the mapping is revoked; the target tries again on a second tunnel id *)
Definition ex_history : list event :=
  [ EOpen 1000 ex_src ex_req; EOpen 1001 ex_tgt ex_req;
    EOpen 1002 {| c_registered := false; c_client := 0 |} ex_req;
    ESetMapping 1 (Some {| m_listen := 11; m_target := 12; m_secret := 101; m_revoked := true; m_expired := false; m_active := true |});
    EOpen 1003 ex_tgt {| r_mid := 1; r_tid := 8; r_secret := 101; r_resume := false |} ].

Lemma legit_history_attaches :
  let s := run current ex_cfg (init ex_db (fun _ => None)) ex_history in
  s_tun s 7 = Some {| b_mid := 1; b_src := Some 1000; b_tgt := Some 1001 |} /\
  s_tun s 8 = None /\
  s_log s = [(1001, 7, true); (1000, 7, true)] /\
  holds s 1001 7 /\
  all_refused current ex_cfg (init ex_db (fun _ => None)) ex_history 1002 /\
  all_refused current ex_cfg (init ex_db (fun _ => None)) ex_history 1003.
Proof.
  cbv zeta. split; [vm_compute; reflexivity|]. split; [vm_compute; reflexivity|]. split; [vm_compute; reflexivity|].
  split.
  - left. exists {| b_mid := 1; b_src := Some 1000; b_tgt := Some 1001 |}. split; [vm_compute; reflexivity | right; reflexivity].
  - split; cbn [all_refused ex_history]; repeat split; intro Heq; try discriminate Heq; vm_compute; reflexivity.
Qed.

Lemma legit_cross_node_forwards :
  open current ex_cfg ex_db (fun _ => None) (fun t => if N.eqb t 7 then Some {| ro_node := 2; ro_mid := 1 |} else None) ex_tgt ex_req = Forward.
Proof. vm_compute. reflexivity. Qed.

(* ------------------------------------------------------------------------------------------------
   7. requests that arrive BEFORE their tunnel exists (parked in the routing poll)
   ------------------------------------------------------------------------------------------------ *)
Definition ex_db2 : db := fun m =>
  if N.eqb m 1 then Some {| m_listen := 11; m_target := 12; m_secret := 101; m_revoked := false; m_expired := false; m_active := true |}
  else if N.eqb m 2 then Some {| m_listen := 13; m_target := 14; m_secret := 102; m_revoked := false; m_expired := false; m_active := true |}
  else None.
Definition ex_req9 (m k : N) : request := {| r_mid := m; r_tid := 9; r_secret := k; r_resume := false |}.
Definition ex_x : conn_id := {| c_registered := true; c_client := 14 |}.   (* target client of mapping 2 *)

(* the entitled target arrives early, the listening client then creates tunnel 9, the poll fires: attached *)
Definition ex_park_ok : list event := [ EOpen 2001 ex_tgt (ex_req9 1 101); EOpen 2000 ex_src (ex_req9 1 101); EResolve 2001; EWaitResolve 2001 ].
(* the target client of ANOTHER mapping (right secret of its own mapping) arrives early on the same tunnel id *)
Definition ex_park_other : list event := [ EOpen 2001 ex_x (ex_req9 2 102); EOpen 2000 ex_src (ex_req9 1 101); EResolve 2001; EWaitResolve 2001 ].

Lemma parked_entitled_attaches :
  let s := run current ex_cfg (init ex_db2 (fun _ => None)) ex_park_ok in
  s_tun s 9 = Some {| b_mid := 1; b_src := Some 2000; b_tgt := Some 2001 |} /\
  s_log s = [(2001, 9, true); (2000, 9, true)] /\ s_park s = [].
Proof. cbv zeta. repeat split; vm_compute; reflexivity. Qed.

Lemma parked_other_mapping_refused :
  let s := run current ex_cfg (init ex_db2 (fun _ => None)) ex_park_other in
  s_park (run current ex_cfg (init ex_db2 (fun _ => None)) (firstn 2 ex_park_other)) <> [] /\
  s_tun s 9 = Some {| b_mid := 1; b_src := Some 2000; b_tgt := None |} /\
  s_log s = [(2000, 9, true)] /\ s_park s = [].
Proof. cbv zeta. split; [vm_compute; discriminate|]. repeat split; vm_compute; reflexivity. Qed.

(* without the agreement test at resolution time (the tree as found; equally a tree where that test is skipped for
   bridges on this node) the same history hands mapping 1's tunnel to mapping 2's client *)
Lemma pinned_parked_refuted :
  exists d es cr t,
    holds (run pinned ex_cfg (init d (fun _ => None)) es) cr t /\
    In (cr, t, false) (s_log (run pinned ex_cfg (init d (fun _ => None)) es)).
Proof.
  exists ex_db2, ex_park_other, 2001, 9. split.
  - left. exists {| b_mid := 1; b_src := Some 2000; b_tgt := Some 2001 |}. split; [vm_compute; reflexivity | right; reflexivity].
  - vm_compute. left. reflexivity.
Qed.

(* ------------------------------------------------------------------------------------------------
   8. headline corollaries: unknown / revoked / expired / inactive mappings never yield anything but a refusal
   ------------------------------------------------------------------------------------------------ *)
Lemma invalid_mapping_refused :
  forall cfg d tun rt c r,
    match d (tunnel_mid tun rt r) with
    | Some m => m_revoked m = true \/ m_expired m = true \/ m_active m = false
    | None => True
    end ->
    refused (open current cfg d tun rt c r) = true.
Proof.
  intros cfg d tun rt c r Hbad.
  destruct (refused (open current cfg d tun rt c r)) eqn:Hr; [reflexivity|].
  pose proof (entitledb_spec d c r _ (success_implies_entitled cfg d tun rt c r Hr)) as [_ [_ [_ [_ [m [Hd [Hrev [Hexp [Hact _]]]]]]]]].
  rewrite Hd in Hbad. destruct Hbad as [H | [H | H]]; congruence.
Qed.

(* the same along histories: an accepted open (anything logged) found its tunnel's mapping present and valid at that moment —
   already contained in "logged true"; here as the step fact the log entries are made of *)
Lemma unauthenticated_refused :
  forall cfg d tun rt c r, c_registered c = false \/ c_client c = 0 -> refused (open current cfg d tun rt c r) = true.
Proof.
  intros cfg d tun rt c r Hbad.
  destruct (refused (open current cfg d tun rt c r)) eqn:Hr; [reflexivity|].
  pose proof (entitledb_spec d c r _ (success_implies_entitled cfg d tun rt c r Hr)) as [Hreg [Hcl _]].
  destruct Hbad as [H | H]; congruence.
Qed.

(* not every request that ends up unattached is a refusal: an entitled target whose tunnel does not exist anywhere is acknowledged
   with success and then has nothing to attach to *)
Lemma success_ack_without_attachment :
  open current {| cfg_self := 1; cfg_crossnode := false; cfg_routing := false |} ex_db (fun _ => None) (fun _ => None) ex_tgt ex_req = AckNoAttach.
Proof. vm_compute. reflexivity. Qed.

Lemma unattached_not_always_refused :
  ~ (forall cfg d tun rt c r, attaches (open current cfg d tun rt c r) = false -> open current cfg d tun rt c r = Refuse true).
Proof.
  intro H.
  specialize (H {| cfg_self := 1; cfg_crossnode := false; cfg_routing := false |} ex_db (fun _ => None) (fun _ => None) ex_tgt ex_req).
  rewrite success_ack_without_attachment in H. specialize (H eq_refl). discriminate.
Qed.

(* ------------------------------------------------------------------------------------------------
   9. mappings whose stored party id is 0 (server-side listener / no target client)
   ------------------------------------------------------------------------------------------------ *)
Definition pc (i : t_id) (s : t_secret) (ts : t_tstate) (p : t_party) : cell :=
  {| ce_id := i; ce_mid := MidTunnel; ce_secret := s; ce_resume := false; ce_mstate := MActive; ce_tstate := ts; ce_party := p |}.

(* a connection that stopped after the first handshake message (registered, client id 0) or never sent one is refused on a mapping
   with a server-side listener, with or without the secret, with or without a live server-started tunnel; the mapping's target
   client is served *)
Lemma server_side_listener_witness :
  cell_open current (pc IdHalf SNone TNone PListen0) = Refuse true /\
  cell_open current (pc IdHalf SRight TWaiting PListen0) = Refuse true /\
  cell_open current (pc IdNone SRight TRemote PListen0) = Refuse true /\
  cell_open current (pc IdHalf SRight TWaiting PTarget0) = Refuse true /\
  attaches (cell_open current (pc IdTarget SRight TWaiting PListen0)) = true /\
  attaches (cell_open current (pc IdListen SNone TNone PTarget0)) = true.
Proof. repeat split; vm_compute; reflexivity. Qed.

(* the early "client id = 0 -> not authenticated" test of HandleTunnelOpen is NOT redundant: for a mapping with a server-side
   listener both credential paths' own party tests accept client id 0 *)
Lemma client_id_guard_not_redundant :
  exists m, is_valid m = true /\ can_be_accessed_by m 0 = true /\
            (negb (N.eqb (m_listen m) 0) && negb (N.eqb (m_target m) 0)) = false.
Proof.
  exists {| m_listen := 0; m_target := 12; m_secret := 103; m_revoked := false; m_expired := false; m_active := true |}.
  repeat split; vm_compute; reflexivity.
Qed.

(* ------------------------------------------------------------------------------------------------
   10. handleLocalBridgeWait: the bridge that appears during the wait need not be the one the record spoke about
   ------------------------------------------------------------------------------------------------ *)
(* a stale record says "tunnel 9, mapping 2, on THIS node" with no bridge; mapping 2's target opens 9 and waits; the record goes
   away; mapping 1's listener opens the same id; the wait finds a bridge *)
Definition stale_rt : tid -> option route := fun t => if N.eqb t 9 then Some {| ro_node := 1; ro_mid := 2 |} else None.
Definition ex_wait_other : list event :=
  [ EOpen 2001 ex_x (ex_req9 2 102); ESetRoute 9 None; EOpen 2000 ex_src (ex_req9 1 101); EWaitResolve 2001 ].
(* ... and the legitimate order: mapping 2's own listener creates the bridge the record announced *)
Definition ex_wait_ok : list event :=
  [ EOpen 2001 ex_x (ex_req9 2 102); ESetRoute 9 None; EOpen 2000 {| c_registered := true; c_client := 13 |} (ex_req9 2 102); EWaitResolve 2001 ].

Lemma local_wait_revalidates :
  (let s := run current ex_cfg (init ex_db2 stale_rt) ex_wait_other in
   s_wait (run current ex_cfg (init ex_db2 stale_rt) (firstn 3 ex_wait_other)) <> [] /\
   s_tun s 9 = Some {| b_mid := 1; b_src := Some 2000; b_tgt := None |} /\ s_log s = [(2000, 9, true)] /\ s_wait s = []) /\
  (let s := run current ex_cfg (init ex_db2 stale_rt) ex_wait_ok in
   s_tun s 9 = Some {| b_mid := 2; b_src := Some 2000; b_tgt := Some 2001 |} /\ s_log s = [(2001, 9, true); (2000, 9, true)]).
Proof.
  cbv zeta. split.
  - split; [vm_compute; discriminate|]. repeat split; vm_compute; reflexivity.
  - split; vm_compute; reflexivity.
Qed.

(* without the comparison at the end of the wait the waiting request is attached to the OTHER mapping's bridge *)
Lemma local_wait_without_recheck_refuted :
  let v := {| v_validate_first := true; v_secret_isvalid := true; v_wait_agree := false |} in
  let s := run v ex_cfg (init ex_db2 stale_rt) ex_wait_other in
  holds s 2001 9 /\ s_tun s 9 = Some {| b_mid := 1; b_src := Some 2000; b_tgt := Some 2001 |} /\ In (2001, 9, false) (s_log s).
Proof.
  cbv zeta. split; [|split].
  - left. exists {| b_mid := 1; b_src := Some 2000; b_tgt := Some 2001 |}. split; [vm_compute; reflexivity | right; reflexivity].
  - vm_compute. reflexivity.
  - vm_compute. left. reflexivity.
Qed.

(* ------------------------------------------------------------------------------------------------
   11. a mapping that stores NO secret: nothing a requester presents is "the mapping's secret"
   ------------------------------------------------------------------------------------------------ *)
Lemma no_stored_secret :
  forall cfg d tun rt c r m,
    d (tunnel_mid tun rt r) = Some m -> m_secret m = 0 -> r_secret r <> 0 ->
    refused (open current cfg d tun rt c r) = true.
Proof.
  intros cfg d tun rt c r m Hd Hk Hs.
  destruct (refused (open current cfg d tun rt c r)) eqn:Hr; [reflexivity|].
  pose proof (entitledb_spec d c r _ (success_implies_entitled cfg d tun rt c r Hr)) as [_ [_ [_ [_ [m' [Hd' [_ [_ [_ Hor]]]]]]]]].
  rewrite Hd in Hd'. injection Hd' as <-.
  destruct Hor as [[_ H0] | [_ [Heq Hne]]]; [contradiction | rewrite Heq, Hk in Hne; contradiction].
Qed.

(* ------------------------------------------------------------------------------------------------
   12. the failure acknowledgement is per REQUEST: one connection may send several
   ------------------------------------------------------------------------------------------------ *)
(* connection 3001 (the listening client of mapping 1) sends: a wrong secret, another mapping's id, then a legitimate request *)
Definition ex_same_conn : list event :=
  [ EOpen 3001 ex_src {| r_mid := 1; r_tid := 7; r_secret := 999; r_resume := false |};
    EOpen 3001 ex_src {| r_mid := 2; r_tid := 7; r_secret := 0; r_resume := false |};
    EOpen 3001 ex_src {| r_mid := 1; r_tid := 7; r_secret := 0; r_resume := false |} ].
Lemma failure_ack_per_request_witness :
  let s0 := init ex_db2 (fun _ => None) in
  open current ex_cfg (s_db s0) (s_tun s0) (s_rt s0) ex_src {| r_mid := 1; r_tid := 7; r_secret := 999; r_resume := false |} = Refuse true /\
  open current ex_cfg (s_db s0) (s_tun s0) (s_rt s0) ex_src {| r_mid := 2; r_tid := 7; r_secret := 0; r_resume := false |} = Refuse true /\
  s_tun (run current ex_cfg s0 ex_same_conn) 7 = Some {| b_mid := 1; b_src := Some 3001; b_tgt := None |} /\
  s_log (run current ex_cfg s0 ex_same_conn) = [(3001, 7, true)].
Proof. cbv zeta. repeat split; vm_compute; reflexivity. Qed.
Close Scope N_scope.

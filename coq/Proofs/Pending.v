(* Proofs/Pending.v — C11: a pending entry is owned by (id, requester, responder); an answer is relayed only from the
   responder connection of the requester's own registration — over ALL interleavings of register / response / unregister
   events, colliding ids included. *)
From TX Require Import Model.Pending.
From Coq Require Import NArith List Bool Lia.
Import ListNotations.
Open Scope N_scope.

Lemma p_find_in id l e : p_find id l = Some e -> In e l /\ pe_id e = id.
Proof.
  induction l as [|x l IH]; cbn [p_find]; intro H; [discriminate|].
  destruct (pe_id x =? id) eqn:E.
  - injection H as ->. apply N.eqb_eq in E. split; [now left|exact E].
  - destruct (IH H). split; [now right|assumption].
Qed.

Lemma p_remove_sub id l e : In e (p_remove id l) -> In e l.
Proof.
  induction l as [|x l IH]; cbn [p_remove]; [tauto|].
  destruct (pe_id x =? id); cbn [In]; intro H; [right; now apply IH|]. destruct H; [now left|right; now apply IH].
Qed.

(* invariant of the overwrite table: every waiting request of an entry registered THIS entry (same id, same responder) *)
Definition entry_ok (seen : list pev) (e : pentry) : Prop :=
  forall q, In q (pe_wait e) -> In (PReg (pe_id e) q (pe_resp e)) seen.
Definition deliv_ok (seen : list pev) (d : N * N) : Prop :=
  exists id s, In (PReg id (fst d) s) seen /\ In (PResp id s (snd d)) seen.
Definition p_inv (seen : list pev) (s : pstate) : Prop :=
  Forall (entry_ok seen) (p_tab s) /\ Forall (deliv_ok seen) (p_deliv s).

Lemma entry_ok_mono seen e x : entry_ok seen x -> entry_ok (seen ++ [e]) x.
Proof. intros H q Hq. apply in_or_app. left. now apply H. Qed.
Lemma deliv_ok_mono seen e d : deliv_ok seen d -> deliv_ok (seen ++ [e]) d.
Proof. intros [id [s [H1 H2]]]. exists id, s. split; apply in_or_app; now left. Qed.

Lemma Forall_remove seen id l : Forall (entry_ok seen) l -> Forall (entry_ok seen) (p_remove id l).
Proof. rewrite !Forall_forall. intros H x Hx. apply H. eapply p_remove_sub; eauto. Qed.

Lemma p_inv_step seen s e : p_inv seen s -> p_inv (seen ++ [e]) (p_step false s e).
Proof.
  intros [Ht Hd].
  assert (Ht' : Forall (entry_ok (seen ++ [e])) (p_tab s)).
  { rewrite Forall_forall in *. intros x Hx. apply entry_ok_mono. now apply Ht. }
  assert (Hd' : Forall (deliv_ok (seen ++ [e])) (p_deliv s)).
  { rewrite Forall_forall in *. intros x Hx. apply deliv_ok_mono. now apply Hd. }
  destruct e as [id q r|id x t|id]; cbn [p_step].
  - split; cbn [p_tab p_deliv]; [|exact Hd'].
    constructor; [|now apply Forall_remove].
    intros q' [<-|[]]. cbn [pe_id pe_resp]. apply in_or_app. right. now left.
  - destruct (p_find id (p_tab s)) as [en|] eqn:F; [|split; assumption].
    destruct (pe_wait en) as [|q rest] eqn:W; [split; assumption|].
    destruct (pe_resp en =? x) eqn:E; [|split; assumption]. apply N.eqb_eq in E.
    destruct (p_find_in _ _ _ F) as [Hin Hid]. subst id x.
    assert (Hen : entry_ok (seen ++ [PResp (pe_id en) (pe_resp en) t]) en). { rewrite Forall_forall in Ht'. now apply Ht'. }
    split; cbn [p_tab p_deliv].
    + constructor; [|now apply Forall_remove].
      intros q' Hq'. cbn [pe_wait pe_id pe_resp] in *. apply Hen. rewrite W. now right.
    + apply Forall_app. split; [exact Hd'|]. constructor; [|constructor].
      exists (pe_id en), (pe_resp en). cbn [fst snd]. split.
      * apply Hen. rewrite W. now left.
      * apply in_or_app. right. now left.
  - split; cbn [p_tab p_deliv]; [now apply Forall_remove|exact Hd'].
Qed.

Lemma p_inv_run_from seen s evs : p_inv seen s -> p_inv (seen ++ evs) (fold_left (p_step false) evs s).
Proof.
  revert seen s. induction evs as [|e evs IH]; intros seen s H; cbn [fold_left]; [now rewrite app_nil_r|].
  replace (seen ++ e :: evs) with ((seen ++ [e]) ++ evs) by (rewrite <- app_assoc; reflexivity).
  apply IH. now apply p_inv_step.
Qed.

(* SAFETY, all interleavings: whatever payload a request receives was sent on the connection that request itself was
   forwarded to (its own registration's responder) — colliding ids or not *)
Theorem answers_only_from_own_responder :
  forall (evs : list pev) (q t : N), In (q, t) (deliveries false evs) ->
  exists id s, In (PReg id q s) evs /\ In (PResp id s t) evs.
Proof.
  intros evs q t Hin.
  assert (H : p_inv ([] ++ evs) (p_run false evs)).
  { apply p_inv_run_from. split; constructor. }
  destruct H as [_ Hd]. cbn [app] in Hd. unfold deliveries in Hin. rewrite Forall_forall in Hd.
  exact (Hd (q, t) Hin).
Qed.

Lemma p_find_head id q r l : p_find id ({| pe_id := id; pe_wait := [q]; pe_resp := r |} :: l) = Some {| pe_id := id; pe_wait := [q]; pe_resp := r |}.
Proof. cbn [p_find pe_id]. now rewrite N.eqb_refl. Qed.

(* LIVENESS for the owner of the entry: after any history, the request that registers id and is answered on its responder
   connection receives that answer *)
Theorem genuine_answer_delivered :
  forall (evs : list pev) (id q s t : N),
  deliveries false (evs ++ [PReg id q s; PResp id s t]) = deliveries false evs ++ [(q, t)].
Proof.
  intros evs id q s t. unfold deliveries, p_run. rewrite fold_left_app. cbn [fold_left].
  set (st := fold_left (p_step false) evs p_init).
  cbn [p_step]. cbn [p_tab p_deliv]. rewrite p_find_head. cbn [pe_wait pe_resp]. rewrite N.eqb_refl. reflexivity.
Qed.

(* an answer naming a pending id from any other connection is dropped *)
Theorem foreign_answer_dropped :
  forall (evs : list pev) (id q s x t : N), x <> s ->
  deliveries false (evs ++ [PReg id q s; PResp id x t]) = deliveries false evs.
Proof.
  intros evs id q s x t Hx. unfold deliveries, p_run. rewrite fold_left_app. cbn [fold_left].
  cbn [p_step]. cbn [p_tab p_deliv]. rewrite p_find_head. cbn [pe_wait pe_resp].
  destruct (s =? x) eqn:E; [apply N.eqb_eq in E; congruence|reflexivity].
Qed.

(* the shared-entry variant is refuted: attacker request 0 (forwarded to accomplice connection 2) is in flight when victim
   request 1 (forwarded to connection 4) registers the same id 7; two answers from connection 2 — the victim receives one *)
Definition evs_collide : list pev := [PReg 7 0 2; PReg 7 1 4; PResp 7 2 66; PResp 7 2 67; PResp 7 4 9].

Lemma shared_entry_refuted :
  got true evs_collide 1 = [67] /\ got false evs_collide 1 = [9]
  /\ ~ (exists id s, In (PReg id 1 s) evs_collide /\ In (PResp id s 67) evs_collide).
Proof.
  split; [vm_compute; reflexivity|]. split; [vm_compute; reflexivity|].
  intros [id [s [H1 H2]]]. cbn in H1, H2.
  destruct H1 as [H|[H|[H|[H|[H|[]]]]]]; try discriminate H. injection H as <- <-.
  destruct H2 as [H|[H|[H|[H|[H|[]]]]]]; discriminate H.
Qed.

(* Proofs/SideC13.v — side conditions tying Model/KV.v to the values regenerated from the repository
   (Gen/C13.v): re-proved for the current values on every run. *)
From TX Require Import Model.KV Gen.C13.
From Coq Require Import ZArith ZifyN ZifyNat ZifyBool Lia.
Open Scope N_scope.

(* implicitly created lists / hashes / counters get a real deadline: the refinement and linearizability
   theorems are proved for every D with 0 < D *)
Lemma default_ttl_positive : 0 < DefaultDataTTL_ms.
Proof. vm_compute. reflexivity. Qed.

(* ... and it is far beyond anything the correspondence run waits for (1 h nominal) *)
Lemma default_ttl_at_least_an_hour : 3600000 <= DefaultDataTTL_ms.
Proof. vm_compute. intros H. discriminate H. Qed.

(* the two error values the model distinguishes (ONotFound / OInvalidType) are distinct in the code *)
Lemma error_sentinels_distinct : err_sentinels_distinct = true.
Proof. reflexivity. Qed.

(* each probed behaviour of the real memory.Storage is one the model has a variant for; the theorems of
   Properties/C13.v speak about the code exactly when every flag is repaired (the driver reports each
   flag that is not, with the refuting history of Proofs/KV.v as the failing input) *)
Definition flags (v : kvariant) : list bool :=
  [v_cas_zero_guard v; v_cas_ttl0_never v; v_setexp_checks_expiry v; v_setexp_ttl0_never v;
   v_setnx_after v; v_getexp_never0 v].
Lemma probed_flags_wellformed : length (flags probed) = 6%nat.
Proof. reflexivity. Qed.

Lemma probed_repaired_iff : probed = repaired <-> forallb (fun b => b) (flags probed) = true.
Proof.
  split.
  - intros H. rewrite H. reflexivity.
  - destruct probed as [a b c d e f]. cbn. intros H.
    destruct a, b, c, d, e, f; try discriminate H; reflexivity.
Qed.

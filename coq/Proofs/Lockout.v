(* Proofs/Lockout.v — lemmas about Model/Lockout.v (property C18). *)
From TX Require Import Model.Lockout.
From Coq Require Import ZArith ZifyN ZifyNat ZifyBool Lia.
Open Scope Z_scope.

(* ------------------------------------------------------------------------------------------- *)
(* generic facts about Threads.sys_step                                                        *)
(* ------------------------------------------------------------------------------------------- *)
Definition sst := (sh * list lo)%type.
Definition step (V : variant) (C : cfg) : sst -> nat -> sst := sys_step sh lo (tstep V C).
Definition runs (V : variant) (C : cfg) : sst -> list nat -> sst := run sh lo (tstep V C).

Lemma Forall_upd_nth {A} (P : A -> Prop) i x l : Forall P l -> P x -> Forall P (upd_nth i x l).
Proof.
  intros Hl Hx. revert i. induction Hl as [|h t Hh Ht IH]; intros [|j]; cbn; auto.
Qed.

Lemma Forall_nth_error {A} (P : A -> Prop) l i x : Forall P l -> nth_error l i = Some x -> P x.
Proof.
  intros Hl. revert i. induction Hl as [|h t Hh Ht IH]; intros [|j] Hn; cbn in Hn; try discriminate.
  - injection Hn as <-. exact Hh.
  - eapply IH; eauto.
Qed.

Lemma step_cases V C (s : sst) i :
  step V C s i = s \/
  exists l l' s', nth_error (snd s) i = Some l /\ tstep V C l (fst s) = (l', s') /\
                  step V C s i = (s', upd_nth i l' (snd s)).
Proof.
  unfold step, sys_step. destruct (nth_error (snd s) i) as [l|] eqn:Hn; [|left; reflexivity].
  right. destruct (tstep V C l (fst s)) as [l' s'] eqn:Ht. exists l, l', s'. auto.
Qed.

(* a two-part invariant: a property of the shared state + a property of every thread (which may
   mention the shared state, provided it survives steps of other threads) *)
Lemma inv_by_threads V C (P : sh -> Prop) (T : sh -> lo -> Prop) :
  (forall s l l' s', P s -> T s l -> tstep V C l s = (l', s') ->
       P s' /\ T s' l' /\ (forall x, T s x -> T s' x)) ->
  forall sched (s : sst), P (fst s) -> Forall (T (fst s)) (snd s) ->
  P (fst (runs V C s sched)) /\ Forall (T (fst (runs V C s sched))) (snd (runs V C s sched)).
Proof.
  intros Hstep sched s HP HT.
  pose (Inv := fun s : sst => P (fst s) /\ Forall (T (fst s)) (snd s)).
  change (Inv (runs V C s sched)).
  apply (inv_all_schedules sh lo (tstep V C) Inv); [|split; assumption].
  clear s HP HT. intros s i [HP HT].
  destruct (step_cases V C s i) as [Heq | (l & l' & s' & Hn & Ht & Heq)];
    fold (step V C s i); rewrite Heq; [split; assumption|].
  pose proof (Forall_nth_error _ _ _ _ HT Hn) as Hl.
  destruct (Hstep _ _ _ _ HP Hl Ht) as (HP' & HT' & Hmono).
  split; cbn [fst snd]; [exact HP'|].
  apply Forall_upd_nth; [|exact HT'].
  eapply Forall_impl; [|exact HT]. intros x Hx. apply Hmono, Hx.
Qed.

(* ------------------------------------------------------------------------------------------- *)
(* expiring maps                                                                               *)
(* ------------------------------------------------------------------------------------------- *)
(* the record of ip lasts until the deadline (None = for ever) *)
Definition covers (m : emap) (ip : N) (dlo : option Z) : Prop :=
  match m ip with
  | Some None => True
  | Some (Some e) => match dlo with Some dl => dl <= e | None => False end
  | None => False
  end.
Definition within (t : Z) (dlo : option Z) : Prop := match dlo with Some dl => t <= dl | None => True end.

Lemma upd_same {A} (m : N -> A) k v : upd m k v k = v.
Proof. unfold upd. rewrite N.eqb_refl. reflexivity. Qed.
Lemma upd_other {A} (m : N -> A) k v x : x <> k -> upd m k v x = m x.
Proof. unfold upd. intros H. destruct (N.eqb_spec x k); [contradiction|reflexivity]. Qed.

Lemma covers_not_expired m ip dlo t : covers m ip dlo -> within t dlo ->
  exists e, m ip = Some e /\ expired t e = false.
Proof.
  unfold covers, within. destruct (m ip) as [[e|]|]; intros Hc Hw; try contradiction.
  - destruct dlo as [dl|]; [|contradiction]. exists (Some e). split; [reflexivity|]. cbn. lia.
  - exists None. split; reflexivity.
Qed.

Lemma covers_in_force m ip dlo t : covers m ip dlo -> within t dlo -> in_force t m ip = true.
Proof.
  intros Hc Hw. destruct (covers_not_expired _ _ _ _ Hc Hw) as (e & He & Hx).
  unfold in_force. rewrite He, Hx. reflexivity.
Qed.

Lemma covers_upd_other m ip k v dlo : ip <> k -> covers m ip dlo -> covers (upd m k v) ip dlo.
Proof. intros Hne. unfold covers. rewrite upd_other by exact Hne. auto. Qed.

Lemma covers_put_current m ip k new dlo : covers m ip dlo -> covers (put current_variant m k new) ip dlo.
Proof.
  intros Hc. unfold put. destruct (N.eqb_spec ip k) as [->|Hne].
  - unfold covers in Hc. destruct (m k) as [old|] eqn:Hm; [|contradiction].
    cbn [keep_stronger current_variant andb].
    destruct (stronger_or_eq old new) eqn:Hs.
    + unfold covers. rewrite Hm. exact Hc.
    + unfold covers. rewrite upd_same.
      destruct old as [a|]; [|discriminate Hs]. destruct new as [b|]; [|exact I].
      cbn in Hs. destruct dlo as [dl|]; [lia|contradiction].
  - destruct (m k) as [old|]; [destruct (_ && _)|]; auto using covers_upd_other.
Qed.

Lemma covers_sweep m ip dlo n0 : covers m ip dlo -> within n0 dlo -> covers (sweep n0 m) ip dlo.
Proof.
  intros Hc Hw. destruct (covers_not_expired _ _ _ _ Hc Hw) as (e & He & Hx).
  unfold covers, sweep in *. rewrite He in *. rewrite Hx. exact Hc.
Qed.

Lemma covers_spawned_current m ip k dlo t :
  covers m ip dlo -> within t dlo -> covers (spawned_remove current_variant t m k) ip dlo.
Proof.
  intros Hc Hw. unfold spawned_remove. cbn [cond_unban current_variant].
  destruct (N.eqb_spec ip k) as [->|Hne].
  - destruct (covers_not_expired _ _ _ _ Hc Hw) as (e & He & Hx). rewrite He, Hx. exact Hc.
  - destruct (m k) as [e|]; [destruct (expired t e)|]; auto using covers_upd_other.
Qed.

Lemma within_mono t t' dlo : t <= t' -> within t' dlo -> within t dlo.
Proof. unfold within. destruct dlo; lia. Qed.

(* ------------------------------------------------------------------------------------------- *)
(* frame facts of the step functions                                                           *)
(* ------------------------------------------------------------------------------------------- *)
Ltac pair_inv H := cbv beta iota zeta in H; inversion H; subst; clear H.
Ltac break_lets :=
  repeat (cbv beta iota zeta in *;
          match goal with
          | H : context [let '(_, _) := ?x in _] |- _ => let E := fresh "E" in destruct x eqn:E
          | H : context [match ?x with DNone => _ | DTemp => _ | DPerm => _ end] |- _ => destruct x
          | H : context [if ?x then _ else _] |- _ => let E := fresh "E" in destruct x eqn:E
          end).

Lemma start_now V C c s p' s' r : start V C c s = (p', s', r) -> now s' = now s.
Proof.
  destruct c; unfold start, do_fail_a, do_ban; intros H; break_lets; pair_inv H; reflexivity.
Qed.

Lemma continue_now V C p s p' s' r : continue V C p s = (p', s', r) -> now s' = now s.
Proof.
  destruct p; try (match goal with k : hkind |- _ => destruct k end); unfold continue, do_fail_a, do_ban; intros H; break_lets; pair_inv H; reflexivity.
Qed.

Lemma tstep_now_mono V C l s l' s' : tstep V C l s = (l', s') -> now s <= now s'.
Proof.
  destruct l as [ds|cs|cs|p rest log]; cbn [tstep].
  - destruct ds; intros H; injection H as <- <-; cbn; lia.
  - destruct cs; [intros H; injection H as <- <-; lia|].
    destruct (pend s); intros H; injection H as <- <-; cbn; lia.
  - destruct cs; [intros H; injection H as <- <-; lia|].
    destruct (pendbl s); intros H; injection H as <- <-; cbn; lia.
  - destruct p.
    + destruct rest as [|c rest]; [intros H; injection H as <- <-; lia|].
      destruct (start V C c s) as [[p1 s1] r1] eqn:Es. intros H; injection H as <- <-.
      rewrite (start_now _ _ _ _ _ _ _ Es). lia.
    + destruct (continue V C (PFailB ip d res) s) as [[p1 s1] r1] eqn:Es. intros H; injection H as <- <-.
      rewrite (continue_now _ _ _ _ _ _ _ Es). lia.
    + destruct (continue V C (PCleanB now0) s) as [[p1 s1] r1] eqn:Es. intros H; injection H as <- <-.
      rewrite (continue_now _ _ _ _ _ _ _ Es). lia.
    + destruct (continue V C (PHs2 ip k) s) as [[p1 s1] r1] eqn:Es. intros H; injection H as <- <-.
      rewrite (continue_now _ _ _ _ _ _ _ Es). lia.
    + destruct (continue V C (PHs3 ip k) s) as [[p1 s1] r1] eqn:Es. intros H; injection H as <- <-.
      rewrite (continue_now _ _ _ _ _ _ _ Es). lia.
    + destruct (continue V C (PHsAuth ip k) s) as [[p1 s1] r1] eqn:Es. intros H; injection H as <- <-.
      rewrite (continue_now _ _ _ _ _ _ _ Es). lia.
Qed.

Lemma start_bans V C c s p' s' r : start V C c s = (p', s', r) ->
  (bans s' = bans s \/
   (exists ip dur, c = CBan ip dur /\ bans s' = put V (bans s) ip (mk_expiry (now s) dur)) \/
   (exists ip, c = CUnban ip /\ bans s' = upd (bans s) ip None) \/
   (c = CRestart /\ bans s' = fun _ => None)) /\
  (forall n0, p' = PCleanB n0 -> n0 = now s).
Proof.
  destruct c; unfold start, do_fail_a, do_ban; intros H; break_lets; pair_inv H; cbn;
    (split; [|intros n0 Hn; congruence]); eauto 7.
Qed.

Lemma continue_bans V C p s p' s' r : continue V C p s = (p', s', r) ->
  (bans s' = bans s \/
   (exists ip e, bans s' = put V (bans s) ip e) \/
   (exists n0, p = PCleanB n0 /\ bans s' = sweep n0 (bans s))) /\
  (forall n0, p' <> PCleanB n0).
Proof.
  destruct p; try (match goal with k : hkind |- _ => destruct k end); unfold continue, do_fail_a, do_ban; intros H; break_lets; pair_inv H; cbn;
    (split; [|intros n0 Hn; congruence]); eauto 6.
Qed.

(* ------------------------------------------------------------------------------------------- *)
(* (1) lock-out: a ban in force stays in force until its deadline under every schedule          *)
(* ------------------------------------------------------------------------------------------- *)
(* what removes a ban in force: the administrative UnbanIP(ip), and a process restart (bans live in memory only) *)
Definition is_unban (ip : N) (c : call) : bool := match c with CUnban k => N.eqb k ip | CRestart => true | _ => false end.
Definition no_unban (ip : N) (rest : list call) : Prop := forallb (fun c => negb (is_unban ip c)) rest = true.

Definition thr_lock (ip : N) (s : sh) (l : lo) : Prop :=
  match l with
  | LProg p rest _ => no_unban ip rest /\ match p with PCleanB n0 => n0 <= now s | _ => True end
  | _ => True
  end.
Definition P_lock (ip : N) (dlo : option Z) (s : sh) : Prop := within (now s) dlo -> covers (bans s) ip dlo.

Lemma thr_lock_mono ip s s' x : now s <= now s' -> thr_lock ip s x -> thr_lock ip s' x.
Proof.
  intros Hle. destruct x as [| | |p rest log]; cbn; auto.
  intros [H1 H2]. split; [exact H1|]. destruct p; auto. lia.
Qed.

Lemma lock_step C ip dlo s l l' s' :
  P_lock ip dlo s -> thr_lock ip s l -> tstep current_variant C l s = (l', s') ->
  P_lock ip dlo s' /\ thr_lock ip s' l' /\ (forall x, thr_lock ip s x -> thr_lock ip s' x).
Proof.
  intros HP HT Hs. pose proof (tstep_now_mono _ _ _ _ _ _ Hs) as Hmono.
  assert (Hthird : forall x, thr_lock ip s x -> thr_lock ip s' x)
    by (intros x; apply thr_lock_mono; exact Hmono).
  split; [|split; [|exact Hthird]].
  - (* the shared part *)
    intros Hw'. assert (Hw : within (now s) dlo) by (eapply within_mono; eauto).
    specialize (HP Hw).
    destruct l as [ds|cs|cs|p rest log]; cbn [tstep] in Hs.
    + destruct ds; injection Hs as <- <-; exact HP.
    + destruct cs; [injection Hs as <- <-; exact HP|].
      destruct (pend s) eqn:Ep; injection Hs as <- <-; [exact HP|]. cbn [bans set_bans].
      apply covers_spawned_current; assumption.
    + destruct cs; [injection Hs as <- <-; exact HP|].
      destruct (pendbl s); injection Hs as <- <-; exact HP.
    + cbn in HT. destruct HT as [Hnu Hpc].
      destruct p.
      * destruct rest as [|c rest]; [injection Hs as <- <-; exact HP|].
        destruct (start current_variant C c s) as [[p1 s1] r1] eqn:Es. injection Hs as <- <-.
        destruct (start_bans _ _ _ _ _ _ _ Es) as [[Hb | [(k & dur & -> & Hb) | [(k & -> & Hb) | (-> & Hb)]]] _]; rewrite Hb.
        -- exact HP.
        -- apply covers_put_current, HP.
        -- apply covers_upd_other; [|exact HP]. unfold no_unban in Hnu. cbn in Hnu.
           apply andb_prop in Hnu. destruct Hnu as [Hk _]. intros ->. rewrite N.eqb_refl in Hk. discriminate.
        -- unfold no_unban in Hnu. cbn in Hnu. discriminate Hnu.
      * destruct (continue current_variant C (PFailB ip0 d res) s) as [[p1 s1] r1] eqn:Es. injection Hs as <- <-.
        destruct (continue_bans _ _ _ _ _ _ _ Es) as [[Hb | [(k & e & Hb) | (n0 & Hn0 & Hb)]] _]; rewrite Hb;
          [exact HP | apply covers_put_current, HP | discriminate Hn0].
      * destruct (continue current_variant C (PCleanB now0) s) as [[p1 s1] r1] eqn:Es. injection Hs as <- <-.
        destruct (continue_bans _ _ _ _ _ _ _ Es) as [[Hb | [(k & e & Hb) | (n0 & Hn0 & Hb)]] _]; rewrite Hb;
          [exact HP | apply covers_put_current, HP |].
        injection Hn0 as <-. apply covers_sweep; [exact HP|]. eapply within_mono; eauto.
      * destruct (continue current_variant C (PHs2 ip0 k) s) as [[p1 s1] r1] eqn:Es. injection Hs as <- <-.
        destruct (continue_bans _ _ _ _ _ _ _ Es) as [[Hb | [(k' & e & Hb) | (n0 & Hn0 & Hb)]] _]; rewrite Hb;
          [exact HP | apply covers_put_current, HP | discriminate Hn0].
      * destruct (continue current_variant C (PHs3 ip0 k) s) as [[p1 s1] r1] eqn:Es. injection Hs as <- <-.
        destruct (continue_bans _ _ _ _ _ _ _ Es) as [[Hb | [(k' & e & Hb) | (n0 & Hn0 & Hb)]] _]; rewrite Hb;
          [exact HP | apply covers_put_current, HP | discriminate Hn0].
      * destruct (continue current_variant C (PHsAuth ip0 k) s) as [[p1 s1] r1] eqn:Es. injection Hs as <- <-.
        destruct (continue_bans _ _ _ _ _ _ _ Es) as [[Hb | [(k' & e & Hb) | (n0 & Hn0 & Hb)]] _]; rewrite Hb;
          [exact HP | apply covers_put_current, HP | discriminate Hn0].
  - (* the stepping thread *)
    destruct l as [ds|cs|cs|p rest log]; cbn [tstep] in Hs.
    + destruct ds; injection Hs as <- <-; exact I.
    + destruct cs; [injection Hs as <- <-; exact I|]. destruct (pend s); injection Hs as <- <-; exact I.
    + destruct cs; [injection Hs as <- <-; exact I|]. destruct (pendbl s); injection Hs as <- <-; exact I.
    + cbn in HT. destruct HT as [Hnu Hpc].
      destruct p.
      * destruct rest as [|c rest]; [injection Hs as <- <-; cbn; auto|].
        destruct (start current_variant C c s) as [[p1 s1] r1] eqn:Es. injection Hs as <- <-.
        cbn. split.
        -- unfold no_unban in *. cbn in Hnu. apply andb_prop in Hnu. tauto.
        -- destruct (start_bans _ _ _ _ _ _ _ Es) as [_ Hn0]. destruct p1; auto.
           rewrite (Hn0 _ eq_refl). rewrite (start_now _ _ _ _ _ _ _ Es). lia.
      * destruct (continue current_variant C (PFailB ip0 d res) s) as [[p1 s1] r1] eqn:Es. injection Hs as <- <-.
        cbn. split; [exact Hnu|]. destruct (continue_bans _ _ _ _ _ _ _ Es) as [_ Hn0]. destruct p1; auto.
        exfalso. eapply Hn0; reflexivity.
      * destruct (continue current_variant C (PCleanB now0) s) as [[p1 s1] r1] eqn:Es. injection Hs as <- <-.
        cbn. split; [exact Hnu|]. destruct (continue_bans _ _ _ _ _ _ _ Es) as [_ Hn0]. destruct p1; auto.
        exfalso. eapply Hn0; reflexivity.
      * destruct (continue current_variant C (PHs2 ip0 k) s) as [[p1 s1] r1] eqn:Es. injection Hs as <- <-.
        cbn. split; [exact Hnu|]. destruct (continue_bans _ _ _ _ _ _ _ Es) as [_ Hn0]. destruct p1; auto.
        exfalso. eapply Hn0; reflexivity.
      * destruct (continue current_variant C (PHs3 ip0 k) s) as [[p1 s1] r1] eqn:Es. injection Hs as <- <-.
        cbn. split; [exact Hnu|]. destruct (continue_bans _ _ _ _ _ _ _ Es) as [_ Hn0]. destruct p1; auto.
        exfalso. eapply Hn0; reflexivity.
      * destruct (continue current_variant C (PHsAuth ip0 k) s) as [[p1 s1] r1] eqn:Es. injection Hs as <- <-.
        cbn. split; [exact Hnu|]. destruct (continue_bans _ _ _ _ _ _ _ Es) as [_ Hn0]. destruct p1; auto.
        exfalso. eapply Hn0; reflexivity.
Qed.

(* well-formed initial threads: no administrative UnbanIP(ip) anywhere, any clean-up in flight read its
   clock in the past *)
Definition threads_lock (ip : N) (s : sst) : Prop := Forall (thr_lock ip (fst s)) (snd s).

Theorem locked_out C ip dlo (s : sst) sched :
  threads_lock ip s -> covers (bans (fst s)) ip dlo ->
  let s' := runs current_variant C s sched in
  within (now (fst s')) dlo -> is_banned (fst s') ip = true.
Proof.
  intros HT Hc s' Hw.
  destruct (inv_by_threads current_variant C (P_lock ip dlo) (thr_lock ip)
              (fun s l l' s' HP HT Hs => lock_step C ip dlo s l l' s' HP HT Hs) sched s) as [HP _].
  - intros _. exact Hc.
  - exact HT.
  - unfold is_banned. eapply covers_in_force; [apply HP; exact Hw | exact Hw].
Qed.

(* ------------------------------------------------------------------------------------------- *)
(* (1b) reaching a threshold establishes the ban                                               *)
(* ------------------------------------------------------------------------------------------- *)
Definition ban_deadline (C : cfg) (t : Z) (d : decision) : option Z :=
  match d with DPerm => None | _ => if band C >? 0 then Some (t + band C) else None end.

Lemma covers_put_new m ip new dlo :
  match new with None => True | Some e => match dlo with Some dl => dl <= e | None => False end end ->
  covers (put current_variant m ip new) ip dlo.
Proof.
  intros Hn. unfold put. cbn [keep_stronger current_variant andb].
  destruct (m ip) as [old|] eqn:Hm.
  - destruct (stronger_or_eq old new) eqn:Hs.
    + unfold covers. rewrite Hm. destruct old as [a|]; [|exact I].
      destruct new as [b|]; [|discriminate Hs]. cbn in Hs. destruct dlo as [dl|]; [lia|contradiction].
    + unfold covers. rewrite upd_same. destruct new; auto.
  - unfold covers. rewrite upd_same. destruct new; auto.
Qed.

Lemma threshold_bans C ip d res s p' s' r :
  d <> DNone -> continue current_variant C (PFailB ip d res) s = (p', s', r) ->
  covers (bans s') ip (ban_deadline C (now s) d) /\ now s' = now s /\ p' = PIdle.
Proof.
  intros Hd H. cbn [continue] in H. injection H as <- <- <-.
  split; [|split; [destruct d; reflexivity | reflexivity]].
  destruct d; [contradiction| |]; unfold do_ban; cbn [bans set_bans]; apply covers_put_new;
    unfold mk_expiry, ban_deadline; cbn.
  - destruct (band C >? 0); [lia|exact I].
  - exact I.
Qed.

(* the decision taken under p.mu, in terms of the counters *)
Lemma fail_a_decision C t r :
  let ts := match r with Some x => fst x | None => [] end in
  let tot := match r with Some x => snd x | None => 0 end in
  fail_a C t r =
  ((prune (window C) t (ts ++ [t]), tot + 1),
   if tot + 1 >=? perm C then DPerm
   else if lenZ (prune (window C) t (ts ++ [t])) >=? maxf C then DTemp else DNone).
Proof. destruct r as [[ts tot]|]; reflexivity. Qed.

(* the windowed counter is exact: over any history of failures / clean-ups / successes of one address
   with a monotone clock, the list kept in the record is the list of ALL failure times since the last
   success that lie inside the window *)
Inductive fop := FFail | FClean | FSucc.
Definition ts_of (r : option frec) : list Z := match r with Some x => fst x | None => [] end.
Definition fop_step (C : cfg) (r : option frec) (tf : Z * fop) : option frec :=
  match snd tf with
  | FFail => Some (fst (fail_a C (fst tf) r))
  | FClean => sweep_fails (window C) (fst tf) (fun _ => r) 0%N
  | FSucc => None
  end.
Definition spec_step (L : list Z) (tf : Z * fop) : list Z :=
  match snd tf with FFail => L ++ [fst tf] | FClean => L | FSucc => [] end.
Fixpoint mono_from (t0 : Z) (h : list (Z * fop)) : Prop :=
  match h with [] => True | tf :: r => t0 <= fst tf /\ mono_from (fst tf) r end.
Fixpoint last_time (t0 : Z) (h : list (Z * fop)) : Z :=
  match h with [] => t0 | tf :: r => last_time (fst tf) r end.

Lemma prune_prune W t0 t l : t0 <= t -> prune W t (prune W t0 l) = prune W t l.
Proof.
  intros Hle. unfold prune. induction l as [|h l IH]; cbn; [reflexivity|].
  destruct (h >? t0 - W) eqn:E0; cbn; [rewrite IH; reflexivity|].
  destruct (h >? t - W) eqn:E1; [lia|exact IH].
Qed.
Lemma prune_app W t a b : prune W t (a ++ b) = prune W t a ++ prune W t b.
Proof. unfold prune. apply filter_app. Qed.

Lemma window_count_inv C h : forall r L t0,
  (forall T, t0 <= T -> prune (window C) T (ts_of r) = prune (window C) T L) ->
  mono_from t0 h ->
  forall T, last_time t0 h <= T ->
  prune (window C) T (ts_of (fold_left (fop_step C) h r)) = prune (window C) T (fold_left spec_step h L).
Proof.
  induction h as [|[t op] h IH]; intros r L t0 HJ Hm T HT; cbn in *; [apply HJ, HT|].
  destruct Hm as [Hle Hm].
  apply (IH _ _ t); [|exact Hm|exact HT].
  intros T' HT'. unfold fop_step, spec_step; cbn [fst snd].
  destruct op.
  - rewrite fail_a_decision. cbn [fst ts_of].
    replace (match r with Some x => fst x | None => [] end) with (ts_of r) by reflexivity.
    rewrite prune_prune by exact HT'. rewrite !prune_app. rewrite HJ by lia. reflexivity.
  - unfold sweep_fails. destruct r as [[ts tot]|]; cbn [ts_of fst].
    + specialize (HJ T' ltac:(lia)). cbn [ts_of fst] in HJ. rewrite <- HJ.
      destruct (prune (window C) t ts) eqn:Ep; cbn [ts_of fst].
      * rewrite <- (prune_prune (window C) t T' ts) by exact HT'. rewrite Ep. reflexivity.
      * rewrite <- Ep. apply prune_prune, HT'.
    + apply HJ. lia.
  - reflexivity.
Qed.

Theorem window_count_exact C h t0 t :
  mono_from t0 (h ++ [(t, FFail)]) ->
  ts_of (fold_left (fop_step C) (h ++ [(t, FFail)]) None)
  = prune (window C) t (fold_left spec_step h [] ++ [t]).
Proof.
  intros Hm. rewrite fold_left_app. cbn [fold_left]. unfold fop_step at 1. cbn [fst snd].
  rewrite fail_a_decision. cbn [fst ts_of].
  set (r := fold_left (fop_step C) h None).
  replace (match r with Some x => fst x | None => [] end) with (ts_of r) by reflexivity.
  rewrite !prune_app. f_equal.
  assert (Hm' : mono_from t0 h /\ last_time t0 h <= t).
  { clear r. revert t0 Hm. induction h as [|tf h IH]; intros t0 Hm; cbn in *; [split; [exact I|lia]|].
    destruct Hm as [H1 H2]. destruct (IH _ H2) as [H3 H4]. auto. }
  destruct Hm' as [Hm1 Hm2].
  apply (window_count_inv C h None [] t0); [reflexivity | exact Hm1 | exact Hm2].
Qed.

(* ------------------------------------------------------------------------------------------- *)
(* (3) a blacklisted address stays refused (unless whitelisted: the code's documented priority) *)
(* ------------------------------------------------------------------------------------------- *)
Lemma start_bl V C c s p' s' r : start V C c s = (p', s', r) ->
  (bl s' = bl s \/
   (exists ip dur, c = CBlAdd ip dur /\ bl s' = upd (bl s) ip (Some (mk_expiry (now s) dur))) \/
   (exists ip, c = CBlRm ip /\ bl s' = upd (bl s) ip None) \/
   ((c = CBlCleanup \/ c = CRestart) /\ bl s' = sweep (now s) (bl s))) /\
  (wl s' = wl s \/ (exists ip, c = CWlAdd ip /\ wl s' = upd (wl s) ip true)
                \/ (exists ip, c = CWlRm ip /\ wl s' = upd (wl s) ip false)).
Proof.
  destruct c; unfold start, do_fail_a, do_ban; intros H; break_lets; pair_inv H; cbn; split; eauto 9.
Qed.

Lemma continue_bl V C p s p' s' r : continue V C p s = (p', s', r) -> bl s' = bl s /\ wl s' = wl s.
Proof.
  destruct p; try (match goal with k : hkind |- _ => destruct k end); unfold continue, do_fail_a, do_ban; intros H; break_lets; pair_inv H; cbn; auto.
Qed.

(* list facts for the matching keys *)
Lemma existsb_upd_notin (w : N -> bool) k v ks : ~ In k ks -> existsb (upd w k v) ks = existsb w ks.
Proof.
  induction ks as [|x ks IH]; intros Hn; cbn; [reflexivity|].
  rewrite upd_other by (intros ->; apply Hn; left; reflexivity).
  rewrite IH by (intros H; apply Hn; right; exact H). reflexivity.
Qed.
Lemma existsb_upd_false (w : N -> bool) k ks : existsb w ks = false -> existsb (upd w k false) ks = false.
Proof.
  induction ks as [|x ks IH]; cbn; [auto|]. intros H. apply orb_false_elim in H. destruct H as [H1 H2].
  rewrite (IH H2). unfold upd. destruct (N.eqb x k); [reflexivity|rewrite H1; reflexivity].
Qed.
Lemma existsb_eqb_notin k ks : existsb (N.eqb k) ks = false -> ~ In k ks.
Proof.
  intros H Hin. assert (existsb (N.eqb k) ks = true) by (apply existsb_exists; exists k; split; [exact Hin|apply N.eqb_refl]).
  congruence.
Qed.

(* administrative edits that can lift the refusal of ip decided by the entry with key k: edits of THAT entry,
   and whitelisting any key that matches ip.  Every other entry matching ip - exact or range, with any deadline -
   may be added, removed, lapse and be collected freely *)
Definition touches_bl (ip k : N) (c : call) : bool :=
  match c with
  | CBlAdd x _ | CBlRm x => N.eqb x k
  | CWlAdd x => existsb (N.eqb x) (keys_of ip)
  | _ => false
  end.
Definition thr_bl (ip k : N) (l : lo) : Prop :=
  match l with LProg _ rest _ => forallb (fun c => negb (touches_bl ip k c)) rest = true | _ => True end.
Definition P_bl (ip k : N) (dlo : option Z) (s : sh) : Prop :=
  wl_in (wl s) ip = false /\ (within (now s) dlo -> covers (bl s) k dlo).

Lemma bl_step C ip k dlo s l l' s' :
  P_bl ip k dlo s -> thr_bl ip k l -> tstep current_variant C l s = (l', s') ->
  P_bl ip k dlo s' /\ thr_bl ip k l' /\ (forall x, thr_bl ip k x -> thr_bl ip k x).
Proof.
  intros [Hwl HP] HT Hs. pose proof (tstep_now_mono _ _ _ _ _ _ Hs) as Hmono.
  split; [|split; [|auto]].
  - destruct l as [ds|cs|cs|p rest log]; cbn [tstep] in Hs.
    + destruct ds; injection Hs as <- <-; (split; [exact Hwl|]); [exact HP|].
      cbn. intros Hw. apply HP. eapply within_mono; [|exact Hw]. cbn in Hmono. lia.
    + destruct cs; [injection Hs as <- <-; split; assumption|].
      destruct (pend s); injection Hs as <- <-; split; assumption.
    + destruct cs; [injection Hs as <- <-; split; assumption|].
      destruct (pendbl s); injection Hs as <- <-; (split; [exact Hwl|]); [exact HP|].
      cbn. intros Hw. apply covers_spawned_current; auto.
    + destruct p.
      * destruct rest as [|c rest]; [injection Hs as <- <-; split; assumption|].
        destruct (start current_variant C c s) as [[p1 s1] r1] eqn:Es. injection Hs as <- <-.
        cbn in HT. apply andb_prop in HT. destruct HT as [Hc _]. apply negb_true_iff in Hc.
        pose proof (start_now _ _ _ _ _ _ _ Es) as Hn.
        destruct (start_bl _ _ _ _ _ _ _ Es) as [Hb Hw]. split.
        -- destruct Hw as [Hw | [(x & -> & Hw) | (x & -> & Hw)]]; rewrite Hw; [exact Hwl| |].
           ++ cbn in Hc. unfold wl_in in *. rewrite existsb_upd_notin; [exact Hwl|]. apply existsb_eqb_notin, Hc.
           ++ unfold wl_in in *. apply existsb_upd_false, Hwl.
        -- rewrite Hn. intros Hw'. specialize (HP Hw').
           destruct Hb as [Hb | [(x & dur & -> & Hb) | [(x & -> & Hb) | (_ & Hb)]]]; rewrite Hb.
           ++ exact HP.
           ++ cbn in Hc. apply covers_upd_other; [|exact HP]. intros ->. rewrite N.eqb_refl in Hc. discriminate.
           ++ cbn in Hc. apply covers_upd_other; [|exact HP]. intros ->. rewrite N.eqb_refl in Hc. discriminate.
           ++ apply covers_sweep; assumption.
      * destruct (continue current_variant C (PFailB ip0 d res) s) as [[p1 s1] r1] eqn:Es. injection Hs as <- <-.
        destruct (continue_bl _ _ _ _ _ _ _ Es) as [Hb Hw]. unfold P_bl.
        rewrite Hb, Hw, (continue_now _ _ _ _ _ _ _ Es). split; assumption.
      * destruct (continue current_variant C (PCleanB now0) s) as [[p1 s1] r1] eqn:Es. injection Hs as <- <-.
        destruct (continue_bl _ _ _ _ _ _ _ Es) as [Hb Hw]. unfold P_bl.
        rewrite Hb, Hw, (continue_now _ _ _ _ _ _ _ Es). split; assumption.
      * destruct (continue current_variant C (PHs2 ip0 k0) s) as [[p1 s1] r1] eqn:Es. injection Hs as <- <-.
        destruct (continue_bl _ _ _ _ _ _ _ Es) as [Hb Hw]. unfold P_bl.
        rewrite Hb, Hw, (continue_now _ _ _ _ _ _ _ Es). split; assumption.
      * destruct (continue current_variant C (PHs3 ip0 k0) s) as [[p1 s1] r1] eqn:Es. injection Hs as <- <-.
        destruct (continue_bl _ _ _ _ _ _ _ Es) as [Hb Hw]. unfold P_bl.
        rewrite Hb, Hw, (continue_now _ _ _ _ _ _ _ Es). split; assumption.
      * destruct (continue current_variant C (PHsAuth ip0 k0) s) as [[p1 s1] r1] eqn:Es. injection Hs as <- <-.
        destruct (continue_bl _ _ _ _ _ _ _ Es) as [Hb Hw]. unfold P_bl.
        rewrite Hb, Hw, (continue_now _ _ _ _ _ _ _ Es). split; assumption.
  - destruct l as [ds|cs|cs|p rest log]; cbn [tstep] in Hs.
    + destruct ds; injection Hs as <- <-; exact I.
    + destruct cs; [injection Hs as <- <-; exact I|]. destruct (pend s); injection Hs as <- <-; exact I.
    + destruct cs; [injection Hs as <- <-; exact I|]. destruct (pendbl s); injection Hs as <- <-; exact I.
    + destruct p.
      * destruct rest as [|c rest]; [injection Hs as <- <-; exact HT|].
        destruct (start current_variant C c s) as [[p1 s1] r1]. injection Hs as <- <-.
        cbn in *. apply andb_prop in HT. tauto.
      * destruct (continue current_variant C (PFailB ip0 d res) s) as [[p1 s1] r1]. injection Hs as <- <-. exact HT.
      * destruct (continue current_variant C (PCleanB now0) s) as [[p1 s1] r1]. injection Hs as <- <-. exact HT.
      * destruct (continue current_variant C (PHs2 ip0 k0) s) as [[p1 s1] r1]. injection Hs as <- <-. exact HT.
      * destruct (continue current_variant C (PHs3 ip0 k0) s) as [[p1 s1] r1]. injection Hs as <- <-. exact HT.
      * destruct (continue current_variant C (PHsAuth ip0 k0) s) as [[p1 s1] r1]. injection Hs as <- <-. exact HT.
Qed.

(* k is any key matching ip (exact, /28 or /27); thread programs may contain ANY number of restarts at any
   points (CRestart is not excluded by thr_bl) and any edits of the OTHER entries matching ip *)
Theorem blacklisted_refused C ip k dlo (s : sst) sched :
  In k (keys_of ip) ->
  Forall (thr_bl ip k) (snd s) -> wl_in (wl (fst s)) ip = false -> covers (bl (fst s)) k dlo ->
  let s' := runs current_variant C s sched in
  within (now (fst s')) dlo -> is_allowed (fst s') ip = false.
Proof.
  intros Hin HT Hwl Hc s' Hw.
  destruct (inv_by_threads current_variant C (P_bl ip k dlo) (fun _ => thr_bl ip k)
              (fun s l l' s' HP HT Hs => bl_step C ip k dlo s l l' s' HP HT Hs) sched s) as [[Hwl' HP] _].
  - split; [exact Hwl|]. intros _. exact Hc.
  - exact HT.
  - unfold is_allowed. subst s'. rewrite Hwl'. cbn [orb]. apply negb_false_iff.
    apply existsb_exists. exists k. split; [exact Hin|]. eapply covers_in_force; [apply HP; exact Hw|exact Hw].
Qed.

(* the answer computed by the repaired IsAllowed is the state function is_allowed *)
Lemma allowed_dec_current s ip : snd (allowed_dec current_variant s ip) = is_allowed s ip.
Proof. unfold allowed_dec, is_allowed. cbn [first_match current_variant]. destruct (wl_in (wl s) ip); reflexivity. Qed.

(* ------------------------------------------------------------------------------------------- *)
(* (4) token bucket: admissions in any interval are bounded by burst + rate * length,           *)
(*     including across bucket garbage collection (side condition ttl*rate >= burst*tps)        *)
(* ------------------------------------------------------------------------------------------- *)
Record bucket_cfg_ok (C : cfg) : Prop :=
  { rate_nonneg : 0 <= rate C; cap_nonneg : 0 <= cap C; tps_pos : 0 < tps C;
    gc_side : cap C <= ttl C * rate C }.

Definition level (C : cfg) (b : option bucket) (t : Z) : Z :=
  match b with Some x => refill C t x | None => cap C end.
Definition wf_bucket (C : cfg) (b : option bucket) (t : Z) : Prop :=
  match b with Some x => 0 <= fst x <= cap C /\ snd x <= t | None => True end.
Fixpoint bmono (t0 : Z) (ops : list (Z * bop)) : Prop :=
  match ops with
  | [] => True
  | tb :: r => t0 <= fst tb /\ match snd tb with BTake n => 0 <= n | BGc => True end /\ bmono (fst tb) r
  end.
Fixpoint blast (t0 : Z) (ops : list (Z * bop)) : Z :=
  match ops with [] => t0 | tb :: r => blast (fst tb) r end.

Lemma level_bounds C b t : bucket_cfg_ok C -> wf_bucket C b t -> 0 <= level C b t <= cap C.
Proof.
  intros HC Hw. destruct HC. destruct b as [[tok last]|]; cbn in *; [|lia].
  unfold refill. cbn [fst snd]. assert (0 <= (t - last) * rate C) by (apply Z.mul_nonneg_nonneg; lia). lia.
Qed.

Lemma bucket_step_bound C b adm t t' op :
  bucket_cfg_ok C -> wf_bucket C b t -> t <= t' ->
  match op with BTake n => 0 <= n | BGc => True end ->
  let st' := bucket_step C (b, adm) (t', op) in
  wf_bucket C (fst st') t' /\
  snd st' * tps C + level C (fst st') t' <= adm * tps C + level C b t + rate C * (t' - t).
Proof.
  intros HC Hw Hle Hn. pose proof (level_bounds C b t HC Hw) as Hlb. destruct HC.
  assert (Hgrow : level C b t' <= level C b t + rate C * (t' - t) /\ 0 <= level C b t' <= cap C).
  { destruct b as [[tok last]|]; cbn [level wf_bucket] in *.
    - unfold refill in *. cbn [fst snd] in *. destruct Hw as [Htok Hlast].
      assert (Heq : (t' - last) * rate C = (t - last) * rate C + rate C * (t' - t)) by ring.
      assert (0 <= rate C * (t' - t)) by (apply Z.mul_nonneg_nonneg; lia).
      assert (0 <= (t - last) * rate C) by (apply Z.mul_nonneg_nonneg; lia).
      rewrite Heq. lia.
    - assert (0 <= rate C * (t' - t)) by (apply Z.mul_nonneg_nonneg; lia). lia. }
  destruct Hgrow as [Hgrow Hb'].
  assert (Hrt : 0 <= rate C * (t' - t)) by (apply Z.mul_nonneg_nonneg; lia).
  destruct op as [n|]; cbn [bucket_step snd fst].
  - unfold take. fold (level C b t').
    assert (Hnn : 0 <= n * tps C) by (apply Z.mul_nonneg_nonneg; lia).
    destruct (level C b t' >=? n * tps C) eqn:E; cbn [fst snd wf_bucket level]; unfold refill; cbn [fst snd].
    + split; [lia|]. rewrite Z.sub_diag, Z.mul_0_l, Z.add_0_r.
      replace ((adm + n) * tps C) with (adm * tps C + n * tps C) by ring. lia.
    + split; [lia|]. rewrite Z.sub_diag, Z.mul_0_l, Z.add_0_r. lia.
  - unfold bucket_gc. destruct b as [[tok last]|]; cbn [fst snd]; [|cbn; split; [exact I|lia]].
    destruct (t' - last >? ttl C) eqn:E; cbn [wf_bucket level fst snd].
    + split; [exact I|]. cbn [level] in Hgrow. unfold refill in Hgrow. cbn [fst snd] in Hgrow.
      cbn in Hw. destruct Hw as [Htok Hlast].
      assert (ttl C * rate C <= (t' - last) * rate C) by (apply Z.mul_le_mono_nonneg_r; lia).
      unfold refill. cbn [fst snd]. lia.
    + cbn in Hw. split; [lia|]. cbn [level] in Hgrow. lia.
Qed.

Theorem bucket_bound C : bucket_cfg_ok C ->
  forall ops b t0, wf_bucket C b t0 -> bmono t0 ops ->
  snd (bucket_run C b ops) * tps C <= level C b t0 + rate C * (blast t0 ops - t0)
  /\ level C b t0 <= burst C * tps C.
Proof.
  intros HC ops b t0 Hw Hm. split; [|apply (level_bounds C b t0 HC Hw)].
  unfold bucket_run.
  assert (Hgen : forall ops b adm t0, wf_bucket C b t0 -> bmono t0 ops ->
            let st := fold_left (bucket_step C) ops (b, adm) in
            wf_bucket C (fst st) (blast t0 ops) /\
            snd st * tps C + level C (fst st) (blast t0 ops)
            <= adm * tps C + level C b t0 + rate C * (blast t0 ops - t0)).
  { clear ops b t0 Hw Hm. induction ops as [|[t' op] ops IH]; intros b adm t0 Hw Hm; cbn [fold_left blast].
    - cbn. split; [exact Hw|]. rewrite Z.sub_diag, Z.mul_0_r. lia.
    - cbn in Hm. destruct Hm as (Hle & Hn & Hm).
      destruct (bucket_step_bound C b adm t0 t' op HC Hw Hle Hn) as [Hw1 Hb1].
      destruct (bucket_step C (b, adm) (t', op)) as [b1 adm1] eqn:Es. cbn [fst snd] in *.
      destruct (IH b1 adm1 t' Hw1 Hm) as [Hw2 Hb2]. split; [exact Hw2|].
      replace (rate C * (blast t' ops - t0)) with (rate C * (blast t' ops - t') + rate C * (t' - t0)) by ring.
      lia. }
  destruct (Hgen ops b 0 t0 Hw Hm) as [Hw' Hb'].
  pose proof (level_bounds C _ _ HC Hw') as Hl. lia.
Qed.

(* ------------------------------------------------------------------------------------------- *)
(* (5) gate order of HandleHandshake                                                           *)
(* ------------------------------------------------------------------------------------------- *)
Lemma in_force_not_expired t m ip : in_force t m ip = true -> has_expired t m ip = false.
Proof. unfold in_force, has_expired. destruct (m ip) as [e|]; [destruct (expired t e)|]; auto. Qed.

(* gate 1: a refused handshake ends there; only the list of pending asynchronous removals of lapsed entries may
   grow (no failure recorded, no ban, no token taken, lists unchanged) *)
Lemma gate_blacklisted C ip k s : is_allowed s ip = false ->
  exists extra, start current_variant C (CHs ip k) s = (PIdle, set_bl s (bl s) (pendbl s ++ extra), Some 0%N).
Proof.
  intros H. cbn [start]. rewrite allowed_dec_current, H. eexists. reflexivity.
Qed.

(* gate 2 is evaluated for EVERY handshake message kind k (unknown id, first connection with any token, phase 1,
   phase 2 on any connection): banned at arrival => refused, the whole shared state untouched *)
Lemma gate_banned V C ip k s : skip_gate_p2 V = false ->
  is_banned s ip = true -> continue V C (PHs2 ip k) s = (PIdle, s, Some 1%N).
Proof.
  intros Hv H. cbn [continue]. rewrite Hv. cbn [andb]. unfold is_banned in *.
  rewrite (in_force_not_expired _ _ _ H), H. reflexivity.
Qed.

(* ------------------------------------------------------------------------------------------- *)
(* (2) no false refusal, step level: a ban record for ip appears only through BanIP(ip) or through
   the second half of a RecordFailure(ip) whose counters reached a threshold                     *)
(* ------------------------------------------------------------------------------------------- *)
Lemma put_other V m k e ip : ip <> k -> put V m k e ip = m ip.
Proof.
  intros Hne. unfold put. destruct (m k) as [old|]; [destruct (_ && _)|]; auto using upd_other.
Qed.

Lemma spawned_remove_none V t m k ip : m ip = None -> spawned_remove V t m k ip = None.
Proof.
  intros H. unfold spawned_remove. destruct (cond_unban V).
  - destruct (m k) as [e|] eqn:Ek; [destruct (expired t e)|]; auto.
    unfold upd. destruct (N.eqb ip k); auto.
  - unfold upd. destruct (N.eqb ip k); auto.
Qed.

Lemma do_fail_a_pc C s ip a b p' s' r :
  do_fail_a C s ip a b = (p', s', r) ->
  bans s' = bans s /\
  match p' with
  | PIdle => snd (fail_a C (now s) (fails s ip)) = DNone
  | PFailB k d _ => k = ip /\ d <> DNone /\ d = snd (fail_a C (now s) (fails s ip))
  | _ => False
  end.
Proof.
  unfold do_fail_a. destruct (fail_a C (now s) (fails s ip)) as [r0 d]. cbn [snd].
  destruct d; intros H; injection H as <- <- <-; cbn; repeat split; congruence.
Qed.

Lemma ban_created_only_by V C l s l' s' ip :
  tstep V C l s = (l', s') -> bans s ip = None -> bans s' ip <> None ->
  (exists rest log dur, l = LProg PIdle (CBan ip dur :: rest) log) \/
  (exists d res rest log, l = LProg (PFailB ip d res) rest log /\ d <> DNone).
Proof.
  intros Hs H0 H1. destruct l as [ds|cs|cs|p rest log]; cbn [tstep] in Hs.
  - destruct ds; injection Hs as <- <-; cbn in H1; congruence.
  - destruct cs; [injection Hs as <- <-; congruence|].
    destruct (pend s); injection Hs as <- <-; [congruence|]. exfalso. apply H1.
    cbn [bans set_bans]. apply spawned_remove_none, H0.
  - destruct cs; [injection Hs as <- <-; congruence|].
    destruct (pendbl s); injection Hs as <- <-; cbn in H1; congruence.
  - destruct p.
    + destruct rest as [|c rest]; [injection Hs as <- <-; congruence|].
      destruct (start V C c s) as [[p1 s1] r1] eqn:Es. injection Hs as <- <-.
      destruct (start_bans _ _ _ _ _ _ _ Es) as [[Hb | [(k & dur & -> & Hb) | [(k & -> & Hb) | (-> & Hb)]]] _];
        rewrite Hb in H1; [congruence| | |].
      * destruct (N.eqb_spec ip k) as [->|Hne]; [left; eauto|]. rewrite put_other in H1 by exact Hne. congruence.
      * exfalso. apply H1. unfold upd. destruct (N.eqb ip k); auto.
      * exfalso. apply H1. reflexivity.
    + destruct (N.eqb_spec ip ip0) as [->|Hne].
      * destruct d; [|right; exists DTemp; eauto 6; repeat eexists; congruence
                      |right; exists DPerm; repeat eexists; congruence].
        cbn in Hs. injection Hs as <- <-. congruence.
      * exfalso. cbn in Hs. injection Hs as <- <-. apply H1.
        destruct d; cbn; auto; rewrite put_other by exact Hne; exact H0.
    + cbn in Hs. injection Hs as <- <-. exfalso. apply H1. cbn. unfold sweep. rewrite H0. reflexivity.
    + exfalso. destruct (continue V C (PHs2 ip0 k) s) as [[p1 s1] r1] eqn:Es. injection Hs as <- <-.
      cbn [continue] in Es. break_lets; pair_inv Es; cbn in H1; congruence.
    + exfalso. destruct (continue V C (PHs3 ip0 k) s) as [[p1 s1] r1] eqn:Es. injection Hs as <- <-.
      cbn [continue] in Es. break_lets; pair_inv Es; cbn in H1; congruence.
    + exfalso. destruct (continue V C (PHsAuth ip0 k) s) as [[p1 s1] r1] eqn:Es. injection Hs as <- <-.
      cbn [continue] in Es.
      assert (Hb : bans s1 = bans s).
      { destruct k; cbn [auth_fails] in Es;
          repeat match type of Es with context [if ?x then _ else _] => destruct x end;
          first [ destruct (do_fail_a_pc _ _ _ _ _ _ _ _ Es) as [Hb _]; rewrite Hb; reflexivity
                | pair_inv Es; reflexivity ]. }
      congruence.
Qed.

(* a RecordFailure(ip) is left pending a ban exactly when the counters say so *)
Lemma pending_ban_only_at_threshold V C c s p' s' r ip d res :
  start V C c s = (p', s', r) -> p' = PFailB ip d res ->
  c = CFail ip /\ d <> DNone /\ d = snd (fail_a C (now s) (fails s ip)).
Proof.
  intros Es ->. destruct c; unfold start in Es; try (break_lets; pair_inv Es; fail).
  destruct (do_fail_a_pc _ _ _ _ _ _ _ _ Es) as [_ (-> & Hd & He)]. auto.
Qed.

(* ------------------------------------------------------------------------------------------- *)
(* the two defects of the pinned tree, as schedule witnesses                                   *)
(* ------------------------------------------------------------------------------------------- *)
Definition wit_cfg : cfg := {| maxf := 2; window := 200; band := 300; perm := 20;
                               rate := 10; burst := 20; ttl := 300000; tps := 1000 |}.
(* thread 0: BanIP(7, 5) ... IsBanned(7) [expired: spawns the unban] ... BanIP(7, 1h) ... IsBanned(7)
   thread 1: clock; thread 2: goroutine runner *)
Definition wit1_threads : list lo :=
  [LProg PIdle [CBan 7 5; CQuery 7; CBan 7 3600000; CQuery 7] []; LClock [10; 5]; LRunBan [O]].
Definition wit1_pre : list nat := [0; 1; 0; 0]%nat.      (* ban, +10, query (expired), re-ban for 1h *)
Definition wit1_sched : list nat := [2; 1; 0]%nat.       (* spawned unban runs, +5, query *)

Lemma pinned_unban_erases_reban_refuted :
  exists C ip dlo threads pre sched,
    let s1 := runs pinned_variant C (init_sh, threads) pre in
    let s2 := runs pinned_variant C s1 sched in
    threads_lock ip s1 /\ covers (bans (fst s1)) ip dlo /\ within (now (fst s2)) dlo /\
    is_banned (fst s2) ip = false.
Proof.
  exists wit_cfg, 7%N, (Some 3600010), wit1_threads, wit1_pre, wit1_sched.
  split; [|split; [|split]].
  - repeat constructor.
  - vm_compute. discriminate.
  - vm_compute. discriminate.
  - vm_compute. reflexivity.
Qed.

(* the same schedule on the repaired code keeps the address banned, and the final query answers 1 *)
Lemma current_keeps_reban :
  let s2 := runs current_variant wit_cfg (init_sh, wit1_threads) (wit1_pre ++ wit1_sched) in
  is_banned (fst s2) 7 = true /\ nth_error (snd s2) 0 = Some (LProg PIdle [] [0; 0; 0; 1]%N).
Proof. vm_compute. split; reflexivity. Qed.

(* a permanent ban is replaced by a temporary one by two more failures (maxf = 2), and lapses *)
Definition wit2_threads : list lo :=
  [LProg PIdle [CBan 7 0; CFail 7; CFail 7; CQuery 7] []; LClock [1000]].
Definition wit2_pre : list nat := [0]%nat.
Definition wit2_sched : list nat := [0; 0; 0; 1; 0]%nat.   (* fail, fail (A), fail (B: banIP 300), +1000, query *)

Lemma pinned_ban_weakened_refuted :
  exists C ip threads pre sched,
    let s1 := runs pinned_variant C (init_sh, threads) pre in
    let s2 := runs pinned_variant C s1 sched in
    threads_lock ip s1 /\ covers (bans (fst s1)) ip None /\ is_banned (fst s2) ip = false.
Proof.
  exists wit_cfg, 7%N, wit2_threads, wit2_pre, wit2_sched.
  split; [|split].
  - repeat constructor.
  - vm_compute. exact I.
  - vm_compute. reflexivity.
Qed.

Lemma current_keeps_permanent :
  let s2 := runs current_variant wit_cfg (init_sh, wit2_threads) (wit2_pre ++ wit2_sched) in
  is_banned (fst s2) 7 = true.
Proof. vm_compute. reflexivity. Qed.

(* ------------------------------------------------------------------------------------------- *)
(* non-vacuity: a reachable, non-trivial state satisfies the hypotheses of locked_out           *)
(* ------------------------------------------------------------------------------------------- *)
Definition nv_threads : list lo :=
  [LProg PIdle [CFail 7; CFail 7; CQuery 7; CCleanup; CHs 7 HBad; CSucc 7; CBan 7 50; CQuery 7] [];
   LProg PIdle [CFail 7; CCleanup; CHs 7 HAnonOk; CQuery 9; CUnban 9] [];
   LClock [100; 250; 40; 1000]; LRunBan [O; 1%nat]; LRunBl [O]].

Lemma premises_satisfiable :
  let s1 := runs current_variant wit_cfg (init_sh, nv_threads) [0; 2; 1; 1]%nat in
  threads_lock 7 s1 /\ covers (bans (fst s1)) 7 (ban_deadline wit_cfg 100 DTemp) /\
  within (now (fst s1)) (ban_deadline wit_cfg 100 DTemp) /\
  Forall (thr_bl 7 7) (snd s1) /\ bucket_cfg_ok wit_cfg.
Proof.
  split; [|split; [|split; [|split]]].
  - repeat constructor; vm_compute; discriminate.
  - vm_compute. discriminate.
  - vm_compute. discriminate.
  - repeat constructor.
  - split; vm_compute; congruence.
Qed.

(* ------------------------------------------------------------------------------------------- *)
(* vocabulary of the full (schedule-level) statement of no_false_refusal                        *)
(* ------------------------------------------------------------------------------------------- *)
Definition failing_on (ip : N) (c : call) : Z :=
  match c with
  | CFail k => if N.eqb k ip then 1 else 0
  | CHs k kd => if N.eqb k ip && hk_fails kd then 1 else 0
  | _ => 0
  end.
Definition pending_on (ip : N) (p : pc) : Z :=
  match p with
  | PHs2 k kd | PHs3 k kd | PHsAuth k kd => if N.eqb k ip && hk_fails kd then 1 else 0
  | _ => 0
  end.
Definition budget (ip : N) (l : lo) : Z :=
  match l with
  | LProg p rest _ => pending_on ip p + fold_right Z.add 0 (map (failing_on ip) rest)
  | _ => 0
  end.
Definition is_ban_call (ip : N) (c : call) : bool := match c with CBan k _ => N.eqb k ip | _ => false end.
Definition thr_quiet (ip : N) (l : lo) : Prop :=
  match l with
  | LProg p rest _ => forallb (fun c => negb (is_ban_call ip c)) rest = true /\
                      match p with PFailB k _ _ => k <> ip | _ => True end
  | _ => True
  end.
Definition total_of (r : option frec) : Z := match r with Some x => snd x | None => 0 end.

(* ------------------------------------------------------------------------------------------- *)
(* third defect of the pinned tree: registering a new anonymous client (no credential proven)   *)
(* clears the failure record, so interleaved "new-client" handshakes keep an attacker below     *)
(* MaxFailures for ever                                                                        *)
(* ------------------------------------------------------------------------------------------- *)
Definition wit3_threads : list lo := [LProg PIdle [CHs 7 HBad; CHs 7 HAnonOk; CHs 7 HBad; CQuery 7] []].
Definition wit3_sched : list nat := repeat O 14.

(* maxf = 2, the clock never moves: two failed authentications (result 3) from one address at the same
   instant, one anonymous registration (result 4) between them, and the address is not banned *)
Lemma pinned_anon_registration_resets_refuted :
  exists C ip threads sched,
    let s2 := runs pinned_variant C (init_sh, threads) sched in
    maxf C = 2 /\ now (fst s2) = 0 /\
    nth_error (snd s2) 0 = Some (LProg PIdle [] [3; 4; 3; 0]%N) /\ is_banned (fst s2) ip = false.
Proof.
  exists wit_cfg, 7%N, wit3_threads, wit3_sched. vm_compute. repeat split; reflexivity.
Qed.

Lemma current_counts_across_registration :
  let s2 := runs current_variant wit_cfg (init_sh, wit3_threads) wit3_sched in
  nth_error (snd s2) 0 = Some (LProg PIdle [] [3; 4; 3; 1]%N) /\ is_banned (fst s2) 7 = true.
Proof. vm_compute. split; reflexivity. Qed.

(* repaired code: a successful anonymous registration leaves the shared state untouched at its last step *)
Lemma anon_registration_keeps_failures C ip s :
  continue current_variant C (PHsAuth ip HAnonOk) s = (PIdle, s, Some 4%N).
Proof. reflexivity. Qed.

(* ------------------------------------------------------------------------------------------- *)
(* restarts                                                                                    *)
(* ------------------------------------------------------------------------------------------- *)
(* a model fact, stated neutrally: failure records and bans are process-local state by design, a restart drops
   them (the property quantifies over histories and schedules of one process, not over restarts); this is why
   statement (1) excludes CRestart, while the persisted lists of statement (3) survive it *)
Definition wit4_threads : list lo := [LProg PIdle [CBan 7 0; CQuery 7; CRestart; CQuery 7] []].
Lemma restart_clears_memory_only_state :
  exists C ip threads pre sched,
    let s1 := runs current_variant C (init_sh, threads) pre in
    let s2 := runs current_variant C s1 sched in
    covers (bans (fst s1)) ip None /\ is_banned (fst s1) ip = true /\
    nth_error (snd s2) 0 = Some (LProg PIdle [] [0; 1; 0; 0]%N) /\ is_banned (fst s2) ip = false.
Proof.
  exists wit_cfg, 7%N, wit4_threads, [O], [O; O; O].
  split; [vm_compute; exact I|]. vm_compute. repeat split; reflexivity.
Qed.

(* non-vacuity of blacklisted_refused with restarts and range entries: a permanent exact entry (7), a permanent
   /28 entry (key 1002: addresses 32..47), a temporary entry (9, 500 ticks); two restarts *)
Definition wit5_threads : list lo :=
  [LProg PIdle [CBlAdd 7 0; CBlAdd 1002 0; CBlAdd 9 500; CRestart; CAllowed 7; CAllowed 40; CAllowed 9; CAllowed 41;
                CRestart; CAllowed 9; CAllowed 7; CAllowed 40; CAllowed 50] []; LClock [100; 1000]; LRunBl [O]].
Lemma blacklist_survives_restarts_example :
  let s1 := runs current_variant wit_cfg (init_sh, wit5_threads) [0; 0; 0]%nat in
  In 1002%N (keys_of 40) /\
  Forall (thr_bl 40 1002) [LProg PIdle [CRestart; CAllowed 7; CBlAdd 40 5; CRestart; CBlAdd 2001 5; CBlRm 40] []; LClock [100; 1000]; LRunBl [O]] /\
  wl_in (wl (fst s1)) 40 = false /\ covers (bl (fst s1)) 1002 None /\ covers (bl (fst s1)) 7 None /\
  covers (bl (fst s1)) 9 (Some 500) /\
  (* +100, restart, four queries, +1000, restart, four queries: 9 is refused with time left and let through once lapsed *)
  nth_error (snd (runs current_variant wit_cfg s1 [1; 0; 0; 0; 0; 0; 1; 0; 0; 2; 0; 0; 0]%nat)) 0
  = Some (LProg PIdle [] [0; 0; 0; 0; 0; 0; 0; 0; 0; 1; 0; 0; 1]%N).
Proof.
  split; [vm_compute; auto|]. split; [repeat constructor|]. split; [vm_compute; reflexivity|].
  split; [vm_compute; exact I|]. split; [vm_compute; exact I|]. split; [vm_compute; discriminate|].
  vm_compute. reflexivity.
Qed.

(* fourth defect of the pinned tree: IsAllowed judged by the FIRST matching record only (findInList: the exact key,
   then the ranges in map order).  (a) a lapsed exact entry is found before the permanent /28 entry; (b) the lapsed
   /28 entry is met before the permanent /27 entry containing it (map order 1) - the address is let through although
   an entry covering it is in force *)
Definition first_match_variant (o : N) : variant :=
  {| cond_unban := true; keep_stronger := true; anon_resets := false; skip_gate_p2 := false; first_match := o |}.
Definition wit6a : list lo := [LProg PIdle [CBlAdd 1002 0; CBlAdd 40 70; CAllowed 40] []; LClock [150]].
Definition wit6b : list lo := [LProg PIdle [CBlAdd 2001 0; CBlAdd 1002 70; CAllowed 40] []; LClock [150]].
Lemma first_match_lookup_refuted :
  exists ta tb sched,
    let sa := runs (first_match_variant 1) wit_cfg (init_sh, ta) sched in
    let sb := runs (first_match_variant 1) wit_cfg (init_sh, tb) sched in
    In 1002%N (keys_of 40) /\ In 2001%N (keys_of 40) /\
    covers (bl (fst sa)) 1002 None /\ wl_in (wl (fst sa)) 40 = false /\
    nth_error (snd sa) 0 = Some (LProg PIdle [] [0; 0; 1]%N) /\
    covers (bl (fst sb)) 2001 None /\ wl_in (wl (fst sb)) 40 = false /\
    nth_error (snd sb) 0 = Some (LProg PIdle [] [0; 0; 1]%N).
Proof.
  exists wit6a, wit6b, [O; O; 1%nat; O]. vm_compute. repeat split; auto.
Qed.

(* the repaired lookup refuses on both schedules, whatever the order *)
Lemma any_active_same_schedules :
  nth_error (snd (runs current_variant wit_cfg (init_sh, wit6a) [O; O; 1%nat; O])) 0 = Some (LProg PIdle [] [0; 0; 0]%N) /\
  nth_error (snd (runs current_variant wit_cfg (init_sh, wit6b) [O; O; 1%nat; O])) 0 = Some (LProg PIdle [] [0; 0; 0]%N).
Proof. vm_compute. split; reflexivity. Qed.

(* every ClientID = 0 handshake goes through gate 3 (the bucket), whatever its token: after gate 2 it is at PHs3,
   never directly at the authentication/registration step *)
Lemma zero_id_passes_gate3 V C ip k s p' s' r :
  hk_anon k = true -> continue V C (PHs2 ip k) s = (p', s', r) -> p' = PHs3 ip k \/ p' = PIdle.
Proof.
  intros Hk H. cbn [continue] in H. rewrite Hk in H. break_lets; pair_inv H; auto.
Qed.
Lemma gate3_charges V C ip k s p' s' r :
  continue V C (PHs3 ip k) s = (p', s', r) ->
  bk s' ip = Some (fst (take C (now s) 1 (bk s ip))) /\
  (p' = PHsAuth ip k <-> snd (take C (now s) 1 (bk s ip)) = true).
Proof.
  intros H. cbn [continue] in H. destruct (take C (now s) 1 (bk s ip)) as [b ok]. cbn [fst snd].
  destruct ok; pair_inv H; cbn [bk set_bk]; rewrite upd_same; split; auto; split; intros; congruence.
Qed.

(* ------------------------------------------------------------------------------------------- *)
(* the ban is per ADDRESS, the pending challenge per CONNECTION: gate 2 must be evaluated on    *)
(* every handshake message.  Variant with the gate skipped for phase-2 messages: one address    *)
(* collects a challenge on two connections, fails twice (maxf = 2: banned), and the correct     *)
(* response on the second connection is still accepted (result 4) while the address is banned   *)
(* ------------------------------------------------------------------------------------------- *)
Definition skip_p2_variant : variant :=
  {| cond_unban := true; keep_stronger := true; anon_resets := false; skip_gate_p2 := true; first_match := 0%N |}.
Definition wit7_threads : list lo :=
  [LProg PIdle [CHs 7 (HP1 1); CHs 7 (HP1 2); CHs 7 (HP2 1 false); CHs 7 HBad; CHs 7 (HP2 2 true); CQuery 7] []].
Lemma gate_skipped_on_phase2_refuted :
  exists C ip threads sched,
    let s2 := runs skip_p2_variant C (init_sh, threads) sched in
    maxf C = 2 /\ now (fst s2) = 0 /\ is_banned (fst s2) ip = true /\
    nth_error (snd s2) 0 = Some (LProg PIdle [] [5; 5; 3; 3; 4; 1]%N).
Proof.
  exists wit_cfg, 7%N, wit7_threads, (repeat O 20). vm_compute. repeat split; reflexivity.
Qed.
Lemma gate_on_every_message_same_schedule :
  let s2 := runs current_variant wit_cfg (init_sh, wit7_threads) (repeat O 20) in
  nth_error (snd s2) 0 = Some (LProg PIdle [] [5; 5; 3; 3; 1; 1]%N).
Proof. vm_compute. reflexivity. Qed.

(* ------------------------------------------------------------------------------------------- *)
(* a clean-up that deletes BY KEY what an earlier scan saw expired (scan under the read lock,   *)
(* delete under the write lock, no re-check) erases a ban renewed in between; the sweep of the  *)
(* code decides and deletes in one locked section (Model: sweep in PCleanB)                     *)
(* ------------------------------------------------------------------------------------------- *)
Definition scan_expired (now0 : Z) (m : emap) (ks : list N) : list N := filter (has_expired now0 m) ks.
Definition delete_keys (ks : list N) (m : emap) : emap := fun k => if existsb (N.eqb k) ks then None else m k.
Lemma two_phase_sweep_refuted :
  exists m0 ip t0 t1 dl,
    let stale := scan_expired t0 m0 [ip] in                           (* scan sees the lapsed record *)
    let m1 := put current_variant m0 ip (mk_expiry t1 3600000) in      (* the address is banned again *)
    covers m1 ip (Some dl) /\ t1 <= dl /\
    delete_keys stale m1 ip = None /\                                  (* two-phase delete: the fresh ban is gone *)
    covers (sweep t0 m1) ip (Some dl).                                 (* the one-section sweep keeps it *)
Proof.
  exists (upd (fun _ => None) 7%N (Some (Some 5))), 7%N, 10, 11, 3600011.
  vm_compute. repeat split; congruence.
Qed.

(* the bucket table is a total map: a request of ANOTHER address never touches the bucket of ip, however many other
   addresses show up (no cap on the table, no wholesale clearing) *)
Lemma bucket_untouched_by_other_addresses V C k n s p' s' r ip :
  ip <> k -> start V C (CAllowIP k n) s = (p', s', r) -> bk s' ip = bk s ip.
Proof.
  intros Hne H. cbn [start] in H. destruct (take C (now s) n (bk s k)) as [b ok]. pair_inv H.
  cbn [bk set_bk]. apply upd_other, Hne.
Qed.
Lemma bucket_untouched_by_other_handshakes V C k kd s p' s' r ip :
  ip <> k -> continue V C (PHs3 k kd) s = (p', s', r) -> bk s' ip = bk s ip.
Proof.
  intros Hne H. cbn [continue] in H. destruct (take C (now s) 1 (bk s k)) as [b ok].
  destruct ok; pair_inv H; cbn [bk set_bk]; apply upd_other, Hne.
Qed.

(* Proofs/SideC03.v — side conditions tying Model/Auth.v to the values regenerated from /repo (Gen/C03.v):
   re-proved for the current values on every run. *)
From TX Require Import Model.Auth Gen.C03.
From Coq Require Import List ZArith ZifyN ZifyNat ZifyBool Lia.
Open Scope N_scope.

(* the brute-force thresholds are positive and the temporary ban comes first *)
Lemma thresholds_sane : 0 < MaxFailures /\ MaxFailures <= PermanentBanAt.
Proof. split; vm_compute; [reflexivity|discriminate]. Qed.

(* the dispatcher constants the harness and the model's message/response types stand for *)
Lemma packet_types : T_Handshake = 1 /\ T_HandshakeResp = 2 /\ T_Handshake < 64 /\ T_HandshakeResp < 64.
Proof. repeat split; reflexivity. Qed.

(* with these values: an address is banned by a failure exactly when it reaches MaxFailures failures
   (or was banned already); PermanentBanAt adds nothing below it *)
Lemma ban_threshold : forall mono s a,
  banned (record_failure MaxFailures PermanentBanAt mono s a) a = true <->
  (banned s a = true \/ MaxFailures <= fails s a + 1).
Proof.
  intros mono s a. pose proof thresholds_sane as [H0 H1]. unfold record_failure, ban_req.
  destruct (PermanentBanAt <=? fails s a + 1) eqn:Hp.
  - cbn. unfold upd. rewrite N.eqb_refl. apply N.leb_le in Hp. split; [intros _; right; lia|reflexivity].
  - destruct (MaxFailures <=? fails s a + 1) eqn:Hm.
    + apply N.leb_le in Hm. cbn [banned set_fails permb].
      match goal with |- context [if ?c then _ else _] => destruct c eqn:E end; cbn.
      * apply Bool.andb_true_iff in E as [E _]. apply Bool.andb_true_iff in E as [_ E]. rewrite E. split; [intros _; left; reflexivity|reflexivity].
      * unfold upd. rewrite N.eqb_refl. split; [intros _; right; lia|reflexivity].
    + apply N.leb_gt in Hm. cbn. split; [intro H; left; exact H|intros [H|H]; [exact H|lia]].
Qed.

(* extractIP = the peer address without port and zone, for every address shape the handshake can see: *net.TCPAddr and
   *net.UDPAddr (IPv4, IPv4-mapped, global IPv6, zone-scoped link-local IPv6) and generic net.Addr values whose string is
   "host:port", with or without a zone (the generic-with-zone row was the finding repaired by a253559). *)
Lemma extract_ip_drops_port_and_zone :
  length extract_table = 13%nat /\
  forallb (fun r => let '(_, _, _, _, plain) := r in plain) extract_table = true.
Proof. split; vm_compute; reflexivity. Qed.
Close Scope N_scope.

(* Proofs/RelayTcp.v — Bidirectional (Model/Relay.v, Section Tcp): an invariant over ALL schedules. *)
From TX Require Import Model.Relay Proofs.Relay.
From Coq Require Import ZArith ZifyN ZifyNat ZifyBool.
Open Scope N_scope.

Section TcpProofs.
  Variable CopyBuf : N.
  Hypothesis HCB : 0 < CopyBuf.
  Variables sA sB : list byte.     (* everything endpoint A / B will ever send *)
  Variables cA cB : wcfg.          (* how endpoint A / B is handed to the relay (raw conn, wrapper configuration) *)

  Definition nz (p : tpc) : N := match p with PDone => 0 | _ => 1 end.
  (* CloseWrite calls reaching the endpoint / closeWriteFunc calls / Close calls reaching it, per configuration *)
  Definition ncw (c : wcfg) : N := match close_write_dispatch c with HcWriter => 1 | _ => 0 end.
  Definition ncwf (c : wcfg) : N := match close_write_dispatch c with HcFunc => 1 | _ => 0 end.
  Definition ncl (c : wcfg) : N := if close_reaches_endpoint c then 1 else 0.

  (* THE wrapper fact: in no configuration does the half-close dispatch amount to a full Close *)
  Lemma dispatch_never_closes (c : wcfg) : close_write_dispatch c <> HcClose.
  Proof.
    unfold close_write_dispatch.
    destruct (ep_kind c =? 0); [discriminate|]. destruct (ep_kind c =? 1); [discriminate|].
    destruct (ep_cwfunc c); [discriminate|]. destruct (ep_writer_cw c); discriminate.
  Qed.

  (* what holds of direction D (no write fault scripted) while its copier is at pc *)
  Definition dinv (data : list byte) (cfg : wcfg) (pc : tpc) (D : dirst) : Prop :=
    (d_wlimit D = None /\ d_cfg D = cfg) /\
    match pc with
    | PLoop total => data = d_out D ++ rest (t_rd (d_rd D)) /\ (d_cw D = 0 /\ d_cwf D = 0) /\ total = lenN (d_out D) /\ d_err D = 0
    | PHalf => d_out D = data /\ (d_cw D = 0 /\ d_cwf D = 0) /\ d_bytes D = lenN data
    | PWg | PDone => d_out D = data /\ (d_cw D = ncw cfg /\ d_cwf D = ncwf cfg) /\ d_bytes D = lenN data
    | _ => False
    end.

  Definition minv (pm : tpc) (sh : tsh) : Prop :=
    match pm with
    | MWait | MCloseA => sh_closed_a sh = false /\ sh_closed_b sh = false /\ sh_ncl_a sh = 0 /\ sh_ncl_b sh = 0 /\ sh_ret sh = false
                         /\ (pm = MCloseA -> sh_wg sh = 0)
    | MCloseB => sh_wg sh = 0 /\ sh_ncl_a sh = ncl cA /\ sh_ncl_b sh = 0 /\ sh_ret sh = false
    | MRet => sh_wg sh = 0 /\ sh_ncl_a sh = ncl cA /\ sh_ncl_b sh = ncl cB /\ sh_ret sh = false
    | PDone => sh_wg sh = 0 /\ sh_ncl_a sh = ncl cA /\ sh_ncl_b sh = ncl cB /\ sh_ret sh = true
    | _ => False
    end.

  (* no I/O ever hit a closed endpoint, and the relay has armed no read deadline on either endpoint *)
  Definition quiet (sh : tsh) : Prop := sh_io_after_close sh = 0 /\ sh_dl_a sh = false /\ sh_dl_b sh = false.

  Definition Inv (s : st tsh (nat * tpc)) : Prop :=
    exists p0 p1 pm, snd s = [(0%nat, p0); (1%nat, p1); (2%nat, pm)] /\
      dinv sA cB p0 (sh_d0 (fst s)) /\ dinv sB cA p1 (sh_d1 (fst s)) /\
      sh_wg (fst s) = nz p0 + nz p1 /\ quiet (fst s) /\ minv pm (fst s).

  Lemma loop_iter_inv data cfg total D :
    dinv data cfg (PLoop total) D ->
    exists pc' D', loop_iter CopyBuf false false false total D = (pc', D', 0) /\ dinv data cfg pc' D' /\ nz pc' = 1.
  Proof.
    intros ((Hwl & Hcfg) & Hd & Hcw & Htot & Herr). unfold loop_iter, d_with.
    destruct (tread_cases CopyBuf (d_rd D) HCB)
      as [[Hr Ht] | [(got & t' & Ht & Hr & Hg & He) | (got & t' & Ht & Hr & Hg & Hr')]]; rewrite Ht.
    - cbn [is_nil negb andb]. eexists; eexists. split; [reflexivity|]. split; [|reflexivity].
      split; [cbn [d_wlimit d_cfg]; auto|]. cbn [d_out d_cw d_cwf d_bytes d_rd]. rewrite Hr, app_nil_r in Hd.
      split; [auto|]. split; [exact Hcw|]. rewrite Hd. lia.
    - destruct got as [|g gs].
      + (* an empty read (0, nil): nothing is written, the loop simply reads again *)
        cbn [is_nil negb andb]. eexists; eexists. split; [reflexivity|]. split; [|reflexivity].
        split; [cbn [d_wlimit d_cfg]; auto|]. cbn [d_out d_cw d_cwf d_bytes d_rd d_err].
        cbn [app] in Hr. split; [rewrite Hd, Hr; reflexivity|]. split; [exact Hcw|]. split; [lia|exact Herr].
      + cbn [is_nil negb andb]. rewrite Hwl.
        replace (0 =? 0) with true by reflexivity. cbn [negb andb].
        rewrite N.eqb_refl. cbn [negb].
        eexists; eexists. split; [reflexivity|]. split; [|reflexivity].
        split; [cbn [d_wlimit d_cfg]; auto|]. cbn [d_out d_cw d_cwf d_bytes d_rd d_err].
        split; [rewrite Hd, Hr; now rewrite app_assoc|]. split; [exact Hcw|]. split; [rewrite lenN_app; lia|exact Herr].
    - destruct got as [|g gs]; [cbn in Hg; lia|]. cbn [is_nil negb andb]. rewrite Hwl.
      replace (0 =? 0) with true by reflexivity. cbn [negb andb].
      rewrite N.eqb_refl. cbn [negb].
      eexists; eexists. split; [reflexivity|]. split; [|reflexivity].
      split; [cbn [d_wlimit d_cfg]; auto|]. cbn [d_out d_cw d_cwf d_bytes d_rd]. rewrite Hr in Hd.
      split; [auto|]. split; [exact Hcw|]. rewrite Hd, lenN_app. lia.
  Qed.

  (* one step of the copier of direction d keeps its own invariant and touches nothing else —
     in particular its half-close never closes anything, whatever wraps the destination *)
  Lemma copier_step_inv (d : nat) data cfg pc sh :
    sh_closed_a sh = false -> sh_closed_b sh = false -> sh_dl_a sh = false -> sh_dl_b sh = false ->
    dinv data cfg pc (if (d =? 0)%nat then sh_d0 sh else sh_d1 sh) ->
    exists pc' D', copier_step CopyBuf false d pc sh =
                     (pc', set_d d sh D' (sh_wg sh - (nz pc - nz pc')) 0) /\ dinv data cfg pc' D' /\ nz pc' <= nz pc.
  Proof.
    intros Hca Hcb Hda Hdb Hd. unfold copier_step. rewrite Hca, Hcb, Hda, Hdb.
    replace (if (d =? 0)%nat then false else false) with false by (destruct (d =? 0)%nat; reflexivity).
    destruct pc as [total| | | | | | |]; try (exfalso; exact (proj2 Hd)).
    - destruct (loop_iter_inv data cfg total _ Hd) as (pc' & D' & Hl & Hd' & Hnz). rewrite Hl.
      exists pc', D'. split; [|split; [exact Hd'|cbn [nz]; lia]]. cbn [nz]. rewrite Hnz. f_equal. f_equal. lia.
    - destruct Hd as ((Hwl & Hcfg) & Ho & (Hcw & Hcwf) & Hb).
      set (D := if (d =? 0)%nat then sh_d0 sh else sh_d1 sh) in *.
      unfold half_close_step, half_close_only.
      assert (Hwg : sh_wg sh - (nz PHalf - nz PWg) = sh_wg sh) by (cbn [nz]; lia).
      pose proof (dispatch_never_closes (d_cfg D)) as Hnc.
      destruct (close_write_dispatch (d_cfg D)) eqn:E; [| | |congruence]; rewrite Hcfg in E.
      + exists PWg, (d_with D (d_rd D) (d_out D) (d_cw D) (d_cwf D + 1) (d_bytes D) (d_err D)).
        rewrite Hwg. split; [reflexivity|]. split; [|cbn [nz]; lia]. unfold d_with.
        split; [cbn [d_wlimit d_cfg]; auto|]. cbn [d_out d_cw d_cwf d_bytes]. unfold ncw, ncwf. rewrite E.
        split; [auto|]. split; [split; lia|exact Hb].
      + exists PWg, (d_with D (d_rd D) (d_out D) (d_cw D + 1) (d_cwf D) (d_bytes D) (d_err D)).
        rewrite Hwg. split; [reflexivity|]. split; [|cbn [nz]; lia]. unfold d_with.
        split; [cbn [d_wlimit d_cfg]; auto|]. cbn [d_out d_cw d_cwf d_bytes]. unfold ncw, ncwf. rewrite E.
        split; [auto|]. split; [split; lia|exact Hb].
      + exists PWg, D. rewrite Hwg. split; [reflexivity|]. split; [|cbn [nz]; lia].
        split; [auto|]. unfold ncw, ncwf. rewrite E. split; [auto|]. split; [split; lia|exact Hb].
    - exists PDone, (if (d =? 0)%nat then sh_d0 sh else sh_d1 sh). split.
      + cbn [nz]. replace (sh_wg sh - (1 - 0)) with (sh_wg sh - 1) by lia. reflexivity.
      + split; [|cbn [nz]; lia]. exact Hd.
    - exists PDone, (if (d =? 0)%nat then sh_d0 sh else sh_d1 sh). split.
      + cbn [nz]. replace (sh_wg sh - (0 - 0)) with (sh_wg sh) by lia.
        unfold set_d. destruct sh; destruct (d =? 0)%nat; cbn; f_equal; f_equal; lia.
      + split; [|cbn [nz]; lia]. exact Hd.
  Qed.

  Lemma minv_not_wait_done pm sh p0 p1 :
    minv pm sh -> sh_wg sh = nz p0 + nz p1 -> (sh_closed_a sh = true \/ sh_closed_b sh = true \/ pm <> MWait /\ pm <> MCloseA) ->
    p0 = PDone /\ p1 = PDone.
  Proof.
    intros Hm Hwg Hc.
    assert (H0 : sh_wg sh = 0).
    { destruct pm; cbn [minv] in Hm; try tauto; try (destruct Hm as (? & ? & ? & ? & ? & ?); destruct Hc as [?|[?|[? ?]]]; congruence). }
    destruct p0, p1; cbn [nz] in Hwg; try lia; auto.
  Qed.

  Lemma Inv_intro sh p0 p1 pm :
    dinv sA cB p0 (sh_d0 sh) -> dinv sB cA p1 (sh_d1 sh) -> sh_wg sh = nz p0 + nz p1 ->
    quiet sh -> minv pm sh -> Inv (sh, [(0%nat, p0); (1%nat, p1); (2%nat, pm)]).
  Proof.
    intros Ha Hb Hc Hd He. exists p0, p1, pm. cbn [fst snd]. split; [reflexivity|].
    repeat (split; [assumption|]). assumption.
  Qed.

  (* a copier's step does not disturb what the main thread relies on *)
  Lemma minv_set_d d sh D wg pm p0 p1 p0' p1' :
    minv pm sh -> sh_wg sh = nz p0 + nz p1 -> wg = nz p0' + nz p1' -> wg <= sh_wg sh ->
    minv pm (set_d d sh D wg 0).
  Proof.
    intros Hm Hwg Hwg' Hle. unfold set_d.
    destruct pm; cbn [minv] in *; cbn [sh_closed_a sh_closed_b sh_ncl_a sh_ncl_b sh_ret sh_wg]; try tauto.
    - destruct Hm as (Hz & ? & ? & ?). repeat split; auto. lia.
    - destruct Hm as (? & ? & ? & ? & ? & Hx). repeat split; auto. intros Hy; discriminate Hy.
    - destruct Hm as (? & ? & ? & ? & ? & Hx). repeat split; auto. intros _. specialize (Hx eq_refl). lia.
    - destruct Hm as (Hz & ? & ? & ?). repeat split; auto. lia.
    - destruct Hm as (Hz & ? & ? & ?). repeat split; auto. lia.
  Qed.


  Theorem Inv_step : forall s i, Inv s -> Inv (sys_step tsh (nat * tpc) (tstep CopyBuf false) s i).
  Proof.
    intros [sh ls] i (p0 & p1 & pm & Hls & H0 & H1 & Hwg & Hio & Hm). cbn [fst snd] in *. subst ls.
    unfold sys_step. cbn [snd fst].
    destruct i as [|[|[|i]]]; cbn [nth_error].
    - (* A->B copier *)
      unfold tstep. cbn [fst snd].
      destruct (sh_closed_a sh) eqn:Hca; [|destruct (sh_closed_b sh) eqn:Hcb].
      + destruct (minv_not_wait_done pm sh p0 p1 Hm Hwg (or_introl Hca)) as [-> ->].
        cbn [copier_step upd_nth]. apply Inv_intro; assumption.
      + destruct (minv_not_wait_done pm sh p0 p1 Hm Hwg (or_intror (or_introl Hcb))) as [-> ->].
        cbn [copier_step upd_nth]. apply Inv_intro; assumption.
      + destruct (copier_step_inv 0 sA cB p0 sh Hca Hcb (proj1 (proj2 Hio)) (proj2 (proj2 Hio)) H0) as (pc' & D' & Hs & Hd' & Hle). rewrite Hs.
        cbn [upd_nth].
        assert (Hnz : nz p0 - nz pc' <= nz p0 /\ nz p0 - (nz p0 - nz pc') = nz pc').
        { lia. }
        apply Inv_intro.
        * unfold set_d. cbn [Nat.eqb sh_d0]. exact Hd'.
        * unfold set_d. cbn [Nat.eqb sh_d1]. exact H1.
        * unfold set_d. cbn [sh_wg]. lia.
        * destruct Hio as (Hi & Hqa & Hqb). unfold quiet, set_d. cbn [sh_io_after_close sh_dl_a sh_dl_b].
          split; [lia|split; [exact Hqa|exact Hqb]].
        * apply (minv_set_d 0 sh D' _ pm p0 p1 pc' p1 Hm Hwg); lia.
    - (* B->A copier *)
      unfold tstep. cbn [fst snd].
      destruct (sh_closed_a sh) eqn:Hca; [|destruct (sh_closed_b sh) eqn:Hcb].
      + destruct (minv_not_wait_done pm sh p0 p1 Hm Hwg (or_introl Hca)) as [-> ->].
        cbn [copier_step upd_nth]. apply Inv_intro; assumption.
      + destruct (minv_not_wait_done pm sh p0 p1 Hm Hwg (or_intror (or_introl Hcb))) as [-> ->].
        cbn [copier_step upd_nth]. apply Inv_intro; assumption.
      + destruct (copier_step_inv 1 sB cA p1 sh Hca Hcb (proj1 (proj2 Hio)) (proj2 (proj2 Hio)) H1) as (pc' & D' & Hs & Hd' & Hle). rewrite Hs.
        cbn [upd_nth].
        assert (Hnz : nz p1 - nz pc' <= nz p1 /\ nz p1 - (nz p1 - nz pc') = nz pc').
        { lia. }
        apply Inv_intro.
        * unfold set_d. cbn [Nat.eqb sh_d0]. exact H0.
        * unfold set_d. cbn [Nat.eqb sh_d1]. exact Hd'.
        * unfold set_d. cbn [sh_wg]. lia.
        * destruct Hio as (Hi & Hqa & Hqb). unfold quiet, set_d. cbn [sh_io_after_close sh_dl_a sh_dl_b].
          split; [lia|split; [exact Hqa|exact Hqb]].
        * apply (minv_set_d 1 sh D' _ pm p0 p1 p0 pc' Hm Hwg); lia.
    - (* main *)
      unfold tstep. cbn [fst snd]. unfold main_step.
      destruct pm; cbn [minv] in Hm; try tauto.
      + cbn [upd_nth]. apply Inv_intro; auto.
      + destruct (sh_wg sh =? 0) eqn:Ew; cbn [upd_nth fst snd]; apply Inv_intro; auto.
        cbn [minv]. destruct Hm as (? & ? & ? & ? & ? & _). repeat split; auto. intros _. lia.
      + destruct Hm as (? & ? & Hna & Hnb & ? & Hx). specialize (Hx eq_refl).
        replace (d_cfg (sh_d1 sh)) with cA by (symmetry; exact (proj2 (proj1 H1))).
        unfold ncl in *. destruct (close_reaches_endpoint cA) eqn:Ec; cbn [upd_nth fst snd];
          apply Inv_intro; auto; cbn [minv sh_wg sh_ncl_a sh_ncl_b sh_ret]; unfold ncl; rewrite Ec;
          repeat split; auto; lia.
      + destruct Hm as (? & Hna & Hnb & ?).
        replace (d_cfg (sh_d0 sh)) with cB by (symmetry; exact (proj2 (proj1 H0))).
        destruct (close_reaches_endpoint cB) eqn:Ec; cbn [upd_nth fst snd];
          apply Inv_intro; auto; cbn [minv sh_wg sh_ncl_a sh_ncl_b sh_ret]; unfold ncl at 2; rewrite Ec;
          repeat split; auto; lia.
      + cbn [upd_nth fst snd]. destruct Hm as (? & ? & ? & ?).
        apply Inv_intro; auto. cbn [minv sh_wg sh_ncl_a sh_ncl_b sh_ret]. repeat split; auto; lia.
    - (* no such thread *)
      destruct i; cbn [nth_error]; apply Inv_intro; assumption.
  Qed.

  (* ---- consequences, for every schedule ---- *)
  Definition no_write_fault (D : dirst) : Prop :=
    d_wlimit D = None /\ d_out D = [] /\ d_cw D = 0 /\ d_cwf D = 0 /\ d_err D = 0.

  Lemma Inv_init D0 D1 :
    no_write_fault D0 -> no_write_fault D1 -> rest (t_rd (d_rd D0)) = sA -> rest (t_rd (d_rd D1)) = sB ->
    d_cfg D0 = cB -> d_cfg D1 = cA ->
    Inv (tcp_init D0 D1).
  Proof.
    intros (Hw0 & Ho0 & Hc0 & Hf0 & He0) (Hw1 & Ho1 & Hc1 & Hf1 & He1) HA HB HcB HcA. unfold tcp_init.
    apply Inv_intro; cbn [sh_d0 sh_d1 sh_wg sh_io_after_close nz minv sh_closed_a sh_closed_b sh_ncl_a sh_ncl_b sh_ret].
    - split; [auto|]. rewrite Ho0, HA. cbn [app]. repeat split; auto.
    - split; [auto|]. rewrite Ho1, HB. cbn [app]. repeat split; auto.
    - reflexivity.
    - unfold quiet. cbn [sh_io_after_close sh_dl_a sh_dl_b]. auto.
    - repeat split; auto. intros Hx; discriminate Hx.
  Qed.

  Theorem tcp_all_schedules D0 D1 (sched : list nat) :
    no_write_fault D0 -> no_write_fault D1 -> rest (t_rd (d_rd D0)) = sA -> rest (t_rd (d_rd D1)) = sB ->
    d_cfg D0 = cB -> d_cfg D1 = cA ->
    Inv (run tsh (nat * tpc) (tstep CopyBuf false) (tcp_init D0 D1) sched).
  Proof.
    intros H0 H1 HA HB HcB HcA. apply (inv_all_schedules tsh (nat * tpc) (tstep CopyBuf false) Inv Inv_step).
    apply Inv_init; assumption.
  Qed.

  (* delivered bytes are always a prefix of what the source sent; no I/O ever hits a closed endpoint *)
  Lemma Inv_prefix s : Inv s ->
    (exists x, sA = d_out (sh_d0 (fst s)) ++ x) /\ (exists y, sB = d_out (sh_d1 (fst s)) ++ y) /\
    sh_io_after_close (fst s) = 0.
  Proof.
    intros (p0 & p1 & pm & _ & (_ & H0) & (_ & H1) & _ & (Hio & _) & _). repeat split; [| |exact Hio].
    - destruct p0; try tauto; [destruct H0 as (H0 & _); eexists; exact H0| | |];
        destruct H0 as (H0 & _); exists []; now rewrite app_nil_r.
    - destruct p1; try tauto; [destruct H1 as (H1 & _); eexists; exact H1| | |];
        destruct H1 as (H1 & _); exists []; now rewrite app_nil_r.
  Qed.

  Lemma Inv_returned s : Inv s -> sh_ret (fst s) = true ->
    d_out (sh_d0 (fst s)) = sA /\ d_out (sh_d1 (fst s)) = sB /\
    d_bytes (sh_d0 (fst s)) = lenN sA /\ d_bytes (sh_d1 (fst s)) = lenN sB /\
    (d_cw (sh_d0 (fst s)) = ncw cB /\ d_cwf (sh_d0 (fst s)) = ncwf cB) /\
    (d_cw (sh_d1 (fst s)) = ncw cA /\ d_cwf (sh_d1 (fst s)) = ncwf cA) /\
    sh_ncl_a (fst s) = ncl cA /\ sh_ncl_b (fst s) = ncl cB /\ sh_io_after_close (fst s) = 0.
  Proof.
    intros (p0 & p1 & pm & _ & H0 & H1 & Hwg & (Hio & _) & Hm) Hret.
    assert (Hpm : pm = PDone).
    { destruct pm; cbn [minv] in Hm; try tauto; try (destruct Hm as (? & ? & ? & ? & ? & ?); congruence);
        destruct Hm as (? & ? & ? & ?); congruence. }
    subst pm. cbn [minv] in Hm. destruct Hm as (Hz & Hna & Hnb & _).
    assert (p0 = PDone /\ p1 = PDone) as [-> ->] by (destruct p0, p1; cbn [nz] in Hwg; try lia; auto).
    destruct H0 as (_ & ? & ? & ?). destruct H1 as (_ & ? & ? & ?). repeat split; tauto.
  Qed.

  Lemma Inv_no_deadline s : Inv s -> sh_dl_a (fst s) = false /\ sh_dl_b (fst s) = false.
  Proof. intros (p0 & p1 & pm & _ & _ & _ & _ & (_ & Ha & Hb) & _). split; assumption. Qed.

  (* while at least one direction is still running: NEITHER endpoint is closed and no Close has reached either
     endpoint — in particular the half-close performed by a finished direction closed nothing, for every
     wrapper configuration; the half-close reached the endpoint exactly as its configuration dispatches *)
  Lemma Inv_half_close s p0 p1 pm : Inv s -> snd s = [(0%nat, p0); (1%nat, p1); (2%nat, pm)] ->
    (p0 <> PDone \/ p1 <> PDone) ->
    sh_closed_a (fst s) = false /\ sh_closed_b (fst s) = false /\
    sh_ncl_a (fst s) = 0 /\ sh_ncl_b (fst s) = 0 /\
    (p0 = PDone -> d_cw (sh_d0 (fst s)) = ncw cB /\ d_cwf (sh_d0 (fst s)) = ncwf cB) /\
    (p1 = PDone -> d_cw (sh_d1 (fst s)) = ncw cA /\ d_cwf (sh_d1 (fst s)) = ncwf cA).
  Proof.
    intros (q0 & q1 & qm & Hls & H0 & H1 & Hwg & Hio & Hm) Hs Hrun. rewrite Hls in Hs.
    inversion Hs; subst q0 q1 qm; clear Hs.
    assert (Hw : sh_wg (fst s) <> 0) by (destruct p0, p1; cbn [nz] in Hwg; try lia; destruct Hrun; congruence).
    assert (Hc : sh_closed_a (fst s) = false /\ sh_closed_b (fst s) = false /\ sh_ncl_a (fst s) = 0 /\ sh_ncl_b (fst s) = 0).
    { destruct pm; cbn [minv] in Hm; try tauto; try (destruct Hm as (? & ? & ? & ? & ? & ?); auto);
        destruct Hm as (Hz & _); congruence. }
    destruct Hc as (Hca & Hcb & Hna & Hnb).
    split; [exact Hca|]. split; [exact Hcb|]. split; [exact Hna|]. split; [exact Hnb|]. split.
    - intros ->. destruct H0 as (_ & _ & Hx & _). exact Hx.
    - intros ->. destruct H1 as (_ & _ & Hx & _). exact Hx.
  Qed.
End TcpProofs.
Close Scope N_scope.

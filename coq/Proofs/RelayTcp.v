(* Proofs/RelayTcp.v — Bidirectional (Model/Relay.v, Section Tcp): an invariant over ALL schedules. *)
From TX Require Import Model.Relay Proofs.Relay.
From Coq Require Import ZArith ZifyN ZifyNat ZifyBool.
Open Scope N_scope.

Section TcpProofs.
  Variable CopyBuf : N.
  Hypothesis HCB : 0 < CopyBuf.
  Variables sA sB : list byte.     (* everything endpoint A / B will ever send *)

  Definition nz (p : tpc) : N := match p with PDone => 0 | _ => 1 end.

  (* what holds of direction D (no write fault scripted) while its copier is at pc *)
  Definition dinv (data : list byte) (pc : tpc) (D : dirst) : Prop :=
    d_wlimit D = None /\
    match pc with
    | PLoop total => data = d_out D ++ rest (t_rd (d_rd D)) /\ d_cw D = 0 /\ total = lenN (d_out D) /\ d_err D = 0
    | PHalf => d_out D = data /\ d_cw D = 0 /\ d_bytes D = lenN data
    | PWg | PDone => d_out D = data /\ d_cw D = 1 /\ d_bytes D = lenN data
    | _ => False
    end.

  Definition minv (pm : tpc) (sh : tsh) : Prop :=
    match pm with
    | MWait | MCloseA => sh_closed_a sh = false /\ sh_closed_b sh = false /\ sh_ncl_a sh = 0 /\ sh_ncl_b sh = 0 /\ sh_ret sh = false
                         /\ (pm = MCloseA -> sh_wg sh = 0)
    | MCloseB => sh_wg sh = 0 /\ sh_ncl_a sh = 1 /\ sh_ncl_b sh = 0 /\ sh_ret sh = false
    | MRet => sh_wg sh = 0 /\ sh_ncl_a sh = 1 /\ sh_ncl_b sh = 1 /\ sh_ret sh = false
    | PDone => sh_wg sh = 0 /\ sh_ncl_a sh = 1 /\ sh_ncl_b sh = 1 /\ sh_ret sh = true
    | _ => False
    end.

  Definition Inv (s : st tsh (nat * tpc)) : Prop :=
    exists p0 p1 pm, snd s = [(0%nat, p0); (1%nat, p1); (2%nat, pm)] /\
      dinv sA p0 (sh_d0 (fst s)) /\ dinv sB p1 (sh_d1 (fst s)) /\
      sh_wg (fst s) = nz p0 + nz p1 /\ sh_io_after_close (fst s) = 0 /\ minv pm (fst s).

  Lemma loop_iter_inv data total D :
    dinv data (PLoop total) D ->
    exists pc' D', loop_iter CopyBuf false false total D = (pc', D', 0) /\ dinv data pc' D' /\ nz pc' = 1.
  Proof.
    intros (Hwl & Hd & Hcw & Htot & Herr). unfold loop_iter.
    destruct (tread_cases CopyBuf (d_rd D) HCB)
      as [[Hr Ht] | [(got & t' & Ht & Hr & Hg & He) | (got & t' & Ht & Hr & Hg & Hr')]]; rewrite Ht.
    - cbn [is_nil negb andb]. eexists; eexists. split; [reflexivity|]. split; [|reflexivity].
      split; [cbn [d_wlimit]; auto|]. cbn [d_out d_cw d_bytes d_rd]. rewrite Hr, app_nil_r in Hd. repeat split; auto.
      rewrite Hd. lia.
    - destruct got as [|g gs]; [cbn in Hg; lia|]. cbn [is_nil negb andb]. rewrite Hwl.
      replace (0 =? 0) with true by reflexivity. cbn [negb andb].
      rewrite N.eqb_refl. cbn [negb].
      eexists; eexists. split; [reflexivity|]. split; [|reflexivity].
      split; [cbn [d_wlimit]; auto|]. cbn [d_out d_cw d_bytes d_rd d_err]. repeat split; auto.
      + rewrite Hd, Hr. now rewrite app_assoc.
      + rewrite lenN_app. lia.
    - destruct got as [|g gs]; [cbn in Hg; lia|]. cbn [is_nil negb andb]. rewrite Hwl.
      replace (0 =? 0) with true by reflexivity. cbn [negb andb].
      rewrite N.eqb_refl. cbn [negb].
      eexists; eexists. split; [reflexivity|]. split; [|reflexivity].
      split; [cbn [d_wlimit]; auto|]. cbn [d_out d_cw d_bytes d_rd]. rewrite Hr in Hd. repeat split; auto.
      rewrite Hd, lenN_app. lia.
  Qed.

  (* one step of the copier of direction d keeps its own invariant and touches nothing else *)
  Lemma copier_step_inv (d : nat) data pc sh :
    sh_closed_a sh = false -> sh_closed_b sh = false ->
    dinv data pc (if (d =? 0)%nat then sh_d0 sh else sh_d1 sh) ->
    exists pc' D', copier_step CopyBuf d pc sh =
                     (pc', set_d d sh D' (sh_wg sh - (nz pc - nz pc')) 0) /\ dinv data pc' D' /\ nz pc' <= nz pc.
  Proof.
    intros Hca Hcb Hd. unfold copier_step. rewrite Hca, Hcb.
    replace (if (d =? 0)%nat then false else false) with false by (destruct (d =? 0)%nat; reflexivity).
    destruct pc as [total| | | | | | |]; try (exfalso; exact (proj2 Hd)).
    - destruct (loop_iter_inv data total _ Hd) as (pc' & D' & Hl & Hd' & Hnz). rewrite Hl.
      exists pc', D'. split; [|split; [exact Hd'|cbn [nz]; lia]]. cbn [nz]. rewrite Hnz. f_equal. f_equal. lia.
    - destruct Hd as (Hwl & Ho & Hcw & Hb).
      set (D := if (d =? 0)%nat then sh_d0 sh else sh_d1 sh) in *.
      exists PWg, {| d_rd := d_rd D; d_out := d_out D; d_wlimit := d_wlimit D; d_wshort := d_wshort D;
                     d_cw := d_cw D + 1; d_bytes := d_bytes D; d_err := d_err D |}. split.
      + cbn [nz]. replace (sh_wg sh - (1 - 1)) with (sh_wg sh) by lia. reflexivity.
      + split; [|cbn [nz]; lia]. split; [cbn [d_wlimit]; auto|]. cbn [d_out d_cw d_bytes]. repeat split; auto. lia.
    - destruct Hd as (Hwl & Ho & Hcw & Hb).
      exists PDone, (if (d =? 0)%nat then sh_d0 sh else sh_d1 sh). split.
      + cbn [nz]. replace (sh_wg sh - (1 - 0)) with (sh_wg sh - 1) by lia. reflexivity.
      + split; [|cbn [nz]; lia]. split; [cbn [d_wlimit]; auto|]. auto.
    - destruct Hd as (Hwl & Ho & Hcw & Hb).
      exists PDone, (if (d =? 0)%nat then sh_d0 sh else sh_d1 sh). split.
      + cbn [nz]. replace (sh_wg sh - (0 - 0)) with (sh_wg sh) by lia.
        unfold set_d. destruct sh; destruct (d =? 0)%nat; cbn; f_equal; f_equal; lia.
      + split; [|cbn [nz]; lia]. split; [cbn [d_wlimit]; auto|]. auto.
  Qed.

  Lemma minv_not_wait_done pm sh p0 p1 :
    minv pm sh -> sh_wg sh = nz p0 + nz p1 -> (sh_closed_a sh = true \/ sh_closed_b sh = true \/ pm <> MWait /\ pm <> MCloseA) ->
    p0 = PDone /\ p1 = PDone.
  Proof.
    intros Hm Hwg Hc.
    assert (H0 : sh_wg sh = 0).
    { destruct pm; cbn [minv] in Hm; try tauto; try (destruct Hm as (? & ? & ? & ? & ? & ?); destruct Hc as [?|[?|[? ?]]]; congruence). }
    destruct p0, p1; cbn [nz] in Hwg; try lia; auto.
  Qed.

  Lemma Inv_intro sh p0 p1 pm :
    dinv sA p0 (sh_d0 sh) -> dinv sB p1 (sh_d1 sh) -> sh_wg sh = nz p0 + nz p1 ->
    sh_io_after_close sh = 0 -> minv pm sh -> Inv (sh, [(0%nat, p0); (1%nat, p1); (2%nat, pm)]).
  Proof.
    intros Ha Hb Hc Hd He. exists p0, p1, pm. cbn [fst snd]. split; [reflexivity|].
    repeat (split; [assumption|]). assumption.
  Qed.

  (* a copier's step does not disturb what the main thread relies on *)
  Lemma minv_set_d d sh D wg pm p0 p1 p0' p1' :
    minv pm sh -> sh_wg sh = nz p0 + nz p1 -> wg = nz p0' + nz p1' -> wg <= sh_wg sh ->
    minv pm (set_d d sh D wg 0).
  Proof.
    intros Hm Hwg Hwg' Hle. unfold set_d.
    destruct pm; cbn [minv] in *; cbn [sh_closed_a sh_closed_b sh_ncl_a sh_ncl_b sh_ret sh_wg]; try tauto.
    - destruct Hm as (Hz & ? & ? & ?). repeat split; auto. lia.
    - destruct Hm as (? & ? & ? & ? & ? & Hx). repeat split; auto. intros Hy; discriminate Hy.
    - destruct Hm as (? & ? & ? & ? & ? & Hx). repeat split; auto. intros _. specialize (Hx eq_refl). lia.
    - destruct Hm as (Hz & ? & ? & ?). repeat split; auto. lia.
    - destruct Hm as (Hz & ? & ? & ?). repeat split; auto. lia.
  Qed.

  Lemma nz_step_le data pc pc' D D' : dinv data pc D -> dinv data pc' D' -> nz pc - nz pc' <= nz pc.
  Proof. intros _ _. lia. Qed.

  Theorem Inv_step : forall s i, Inv s -> Inv (sys_step tsh (nat * tpc) (tstep CopyBuf) s i).
  Proof.
    intros [sh ls] i (p0 & p1 & pm & Hls & H0 & H1 & Hwg & Hio & Hm). cbn [fst snd] in *. subst ls.
    unfold sys_step. cbn [snd fst].
    destruct i as [|[|[|i]]]; cbn [nth_error].
    - (* A->B copier *)
      unfold tstep. cbn [fst snd].
      destruct (sh_closed_a sh) eqn:Hca; [|destruct (sh_closed_b sh) eqn:Hcb].
      + destruct (minv_not_wait_done pm sh p0 p1 Hm Hwg (or_introl Hca)) as [-> ->].
        cbn [copier_step upd_nth]. apply Inv_intro; assumption.
      + destruct (minv_not_wait_done pm sh p0 p1 Hm Hwg (or_intror (or_introl Hcb))) as [-> ->].
        cbn [copier_step upd_nth]. apply Inv_intro; assumption.
      + destruct (copier_step_inv 0 sA p0 sh Hca Hcb H0) as (pc' & D' & Hs & Hd' & Hle). rewrite Hs.
        cbn [upd_nth].
        assert (Hnz : nz p0 - nz pc' <= nz p0 /\ nz p0 - (nz p0 - nz pc') = nz pc').
        { lia. }
        apply Inv_intro.
        * unfold set_d. cbn [Nat.eqb sh_d0]. exact Hd'.
        * unfold set_d. cbn [Nat.eqb sh_d1]. exact H1.
        * unfold set_d. cbn [sh_wg]. lia.
        * unfold set_d. cbn [sh_io_after_close]. lia.
        * apply (minv_set_d 0 sh D' _ pm p0 p1 pc' p1 Hm Hwg); lia.
    - (* B->A copier *)
      unfold tstep. cbn [fst snd].
      destruct (sh_closed_a sh) eqn:Hca; [|destruct (sh_closed_b sh) eqn:Hcb].
      + destruct (minv_not_wait_done pm sh p0 p1 Hm Hwg (or_introl Hca)) as [-> ->].
        cbn [copier_step upd_nth]. apply Inv_intro; assumption.
      + destruct (minv_not_wait_done pm sh p0 p1 Hm Hwg (or_intror (or_introl Hcb))) as [-> ->].
        cbn [copier_step upd_nth]. apply Inv_intro; assumption.
      + destruct (copier_step_inv 1 sB p1 sh Hca Hcb H1) as (pc' & D' & Hs & Hd' & Hle). rewrite Hs.
        cbn [upd_nth].
        assert (Hnz : nz p1 - nz pc' <= nz p1 /\ nz p1 - (nz p1 - nz pc') = nz pc').
        { lia. }
        apply Inv_intro.
        * unfold set_d. cbn [Nat.eqb sh_d0]. exact H0.
        * unfold set_d. cbn [Nat.eqb sh_d1]. exact Hd'.
        * unfold set_d. cbn [sh_wg]. lia.
        * unfold set_d. cbn [sh_io_after_close]. lia.
        * apply (minv_set_d 1 sh D' _ pm p0 p1 p0 pc' Hm Hwg); lia.
    - (* main *)
      unfold tstep. cbn [fst snd]. unfold main_step.
      destruct pm; cbn [minv] in Hm; try tauto.
      + cbn [upd_nth]. apply Inv_intro; auto.
      + destruct (sh_wg sh =? 0) eqn:Ew; cbn [upd_nth fst snd]; apply Inv_intro; auto.
        cbn [minv]. destruct Hm as (? & ? & ? & ? & ? & _). repeat split; auto. intros _. lia.
      + cbn [upd_nth fst snd]. destruct Hm as (? & ? & ? & ? & ? & Hx). specialize (Hx eq_refl).
        apply Inv_intro; auto. cbn [minv sh_wg sh_ncl_a sh_ncl_b sh_ret]. repeat split; auto; lia.
      + cbn [upd_nth fst snd]. destruct Hm as (? & ? & ? & ?).
        apply Inv_intro; auto. cbn [minv sh_wg sh_ncl_a sh_ncl_b sh_ret]. repeat split; auto; lia.
      + cbn [upd_nth fst snd]. destruct Hm as (? & ? & ? & ?).
        apply Inv_intro; auto. cbn [minv sh_wg sh_ncl_a sh_ncl_b sh_ret]. repeat split; auto; lia.
    - (* no such thread *)
      destruct i; cbn [nth_error]; apply Inv_intro; assumption.
  Qed.

  (* ---- consequences, for every schedule ---- *)
  Definition no_write_fault (D : dirst) : Prop := d_wlimit D = None /\ d_out D = [] /\ d_cw D = 0 /\ d_err D = 0.

  Lemma Inv_init D0 D1 :
    no_write_fault D0 -> no_write_fault D1 -> rest (t_rd (d_rd D0)) = sA -> rest (t_rd (d_rd D1)) = sB ->
    Inv (tcp_init D0 D1).
  Proof.
    intros (Hw0 & Ho0 & Hc0 & He0) (Hw1 & Ho1 & Hc1 & He1) HA HB. unfold tcp_init. apply Inv_intro; cbn [sh_d0 sh_d1 sh_wg sh_io_after_close nz minv sh_closed_a sh_closed_b sh_ncl_a sh_ncl_b sh_ret].
    - split; [exact Hw0|]. rewrite Ho0, HA. cbn [app]. repeat split; auto.
    - split; [exact Hw1|]. rewrite Ho1, HB. cbn [app]. repeat split; auto.
    - reflexivity.
    - reflexivity.
    - repeat split; auto. intros Hx; discriminate Hx.
  Qed.

  Theorem tcp_all_schedules D0 D1 (sched : list nat) :
    no_write_fault D0 -> no_write_fault D1 -> rest (t_rd (d_rd D0)) = sA -> rest (t_rd (d_rd D1)) = sB ->
    Inv (run tsh (nat * tpc) (tstep CopyBuf) (tcp_init D0 D1) sched).
  Proof.
    intros H0 H1 HA HB. apply (inv_all_schedules tsh (nat * tpc) (tstep CopyBuf) Inv Inv_step).
    apply Inv_init; assumption.
  Qed.

  (* delivered bytes are always a prefix of what the source sent; nothing is closed and no I/O hits a closed
     endpoint while a direction is still running; half-close happens exactly when a direction has finished *)
  Lemma Inv_prefix s : Inv s ->
    (exists x, sA = d_out (sh_d0 (fst s)) ++ x) /\ (exists y, sB = d_out (sh_d1 (fst s)) ++ y) /\
    sh_io_after_close (fst s) = 0.
  Proof.
    intros (p0 & p1 & pm & _ & (_ & H0) & (_ & H1) & _ & Hio & _). repeat split; [| |exact Hio].
    - destruct p0; try tauto; [destruct H0 as (H0 & _); eexists; exact H0| | |];
        destruct H0 as (H0 & _); exists []; now rewrite app_nil_r.
    - destruct p1; try tauto; [destruct H1 as (H1 & _); eexists; exact H1| | |];
        destruct H1 as (H1 & _); exists []; now rewrite app_nil_r.
  Qed.

  Lemma Inv_returned s : Inv s -> sh_ret (fst s) = true ->
    d_out (sh_d0 (fst s)) = sA /\ d_out (sh_d1 (fst s)) = sB /\
    d_bytes (sh_d0 (fst s)) = lenN sA /\ d_bytes (sh_d1 (fst s)) = lenN sB /\
    d_cw (sh_d0 (fst s)) = 1 /\ d_cw (sh_d1 (fst s)) = 1 /\
    sh_ncl_a (fst s) = 1 /\ sh_ncl_b (fst s) = 1 /\ sh_io_after_close (fst s) = 0.
  Proof.
    intros (p0 & p1 & pm & _ & H0 & H1 & Hwg & Hio & Hm) Hret.
    assert (Hpm : pm = PDone).
    { destruct pm; cbn [minv] in Hm; try tauto; try (destruct Hm as (? & ? & ? & ? & ? & ?); congruence);
        destruct Hm as (? & ? & ? & ?); congruence. }
    subst pm. cbn [minv] in Hm. destruct Hm as (Hz & Hna & Hnb & _).
    assert (p0 = PDone /\ p1 = PDone) as [-> ->] by (destruct p0, p1; cbn [nz] in Hwg; try lia; auto).
    destruct H0 as (_ & ? & ? & ?). destruct H1 as (_ & ? & ? & ?). repeat split; assumption.
  Qed.

  (* while the reverse direction is still running after one side finished: that side's peer has been
     half-closed exactly once and NEITHER endpoint is closed *)
  Lemma Inv_half_close s p0 p1 pm : Inv s -> snd s = [(0%nat, p0); (1%nat, p1); (2%nat, pm)] ->
    (p0 <> PDone \/ p1 <> PDone) ->
    sh_closed_a (fst s) = false /\ sh_closed_b (fst s) = false /\
    (p0 = PDone -> d_cw (sh_d0 (fst s)) = 1) /\ (p1 = PDone -> d_cw (sh_d1 (fst s)) = 1).
  Proof.
    intros (q0 & q1 & qm & Hls & H0 & H1 & Hwg & Hio & Hm) Hs Hrun. rewrite Hls in Hs.
    inversion Hs; subst q0 q1 qm; clear Hs.
    assert (Hw : sh_wg (fst s) <> 0) by (destruct p0, p1; cbn [nz] in Hwg; try lia; destruct Hrun; congruence).
    assert (Hc : sh_closed_a (fst s) = false /\ sh_closed_b (fst s) = false).
    { destruct pm; cbn [minv] in Hm; try tauto; try (destruct Hm as (? & ? & ? & ? & ? & ?); auto);
        destruct Hm as (Hz & _); congruence. }
    destruct Hc as [Hca Hcb]. repeat split; auto.
    - intros ->. destruct H0 as (_ & _ & ? & _). assumption.
    - intros ->. destruct H1 as (_ & _ & ? & _). assumption.
  Qed.
End TcpProofs.
Close Scope N_scope.

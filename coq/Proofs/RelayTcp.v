(* Proofs/RelayTcp.v — Bidirectional (Model/Relay.v, Section Tcp): an invariant over ALL schedules. *)
From TX Require Import Model.Relay Proofs.Relay.
From Coq Require Import ZArith ZifyN ZifyNat ZifyBool.
Open Scope N_scope.

Section TcpProofs.
  Variable CopyBuf : N.
  Hypothesis HCB : 0 < CopyBuf.
  Variables sA sB : list byte.     (* everything endpoint A / B will ever send *)

  Definition nz (p : tpc) : N := match p with PDone => 0 | _ => 1 end.

  (* what holds of direction D (no write fault scripted) while its copier is at pc *)
  Definition dinv (data : list byte) (pc : tpc) (D : dirst) : Prop :=
    d_wlimit D = None /\
    match pc with
    | PLoop total => data = d_out D ++ rest (t_rd (d_rd D)) /\ d_cw D = 0 /\ total = lenN (d_out D) /\ d_err D = 0
    | PHalf => d_out D = data /\ d_cw D = 0 /\ d_bytes D = lenN data
    | PWg | PDone => d_out D = data /\ d_cw D = 1 /\ d_bytes D = lenN data
    | _ => False
    end.

  Definition minv (pm : tpc) (sh : tsh) : Prop :=
    match pm with
    | MWait | MCloseA => sh_closed_a sh = false /\ sh_closed_b sh = false /\ sh_ncl_a sh = 0 /\ sh_ncl_b sh = 0 /\ sh_ret sh = false
                         /\ (pm = MCloseA -> sh_wg sh = 0)
    | MCloseB => sh_wg sh = 0 /\ sh_ncl_a sh = 1 /\ sh_ncl_b sh = 0 /\ sh_ret sh = false
    | MRet => sh_wg sh = 0 /\ sh_ncl_a sh = 1 /\ sh_ncl_b sh = 1 /\ sh_ret sh = false
    | PDone => sh_wg sh = 0 /\ sh_ncl_a sh = 1 /\ sh_ncl_b sh = 1 /\ sh_ret sh = true
    | _ => False
    end.

  Definition Inv (s : st tsh (nat * tpc)) : Prop :=
    exists p0 p1 pm, snd s = [(0%nat, p0); (1%nat, p1); (2%nat, pm)] /\
      dinv sA p0 (sh_d0 (fst s)) /\ dinv sB p1 (sh_d1 (fst s)) /\
      sh_wg (fst s) = nz p0 + nz p1 /\ sh_io_after_close (fst s) = 0 /\ minv pm (fst s).

  Lemma loop_iter_inv data total D :
    dinv data (PLoop total) D ->
    exists pc' D', loop_iter CopyBuf false false total D = (pc', D', 0) /\ dinv data pc' D' /\ nz pc' = 1.
  Proof.
    intros (Hwl & Hd & Hcw & Htot & Herr). unfold loop_iter.
    destruct (tread_cases CopyBuf (d_rd D) HCB)
      as [[Hr Ht] | [(got & t' & Ht & Hr & Hg & He) | (got & t' & Ht & Hr & Hg & Hr')]]; rewrite Ht.
    - cbn [is_nil negb andb]. eexists; eexists. split; [reflexivity|]. split; [|reflexivity].
      split; [cbn [d_wlimit]; auto|]. cbn [d_out d_cw d_bytes d_rd]. rewrite Hr, app_nil_r in Hd. repeat split; auto.
      rewrite Hd. lia.
    - destruct got as [|g gs]; [cbn in Hg; lia|]. cbn [is_nil negb andb]. rewrite Hwl.
      replace (0 =? 0) with true by reflexivity. cbn [negb andb].
      rewrite N.eqb_refl. cbn [negb].
      eexists; eexists. split; [reflexivity|]. split; [|reflexivity].
      split; [cbn [d_wlimit]; auto|]. cbn [d_out d_cw d_bytes d_rd d_err]. repeat split; auto.
      + rewrite Hd, Hr. now rewrite app_assoc.
      + rewrite lenN_app. lia.
    - destruct got as [|g gs]; [cbn in Hg; lia|]. cbn [is_nil negb andb]. rewrite Hwl.
      replace (0 =? 0) with true by reflexivity. cbn [negb andb].
      rewrite N.eqb_refl. cbn [negb].
      eexists; eexists. split; [reflexivity|]. split; [|reflexivity].
      split; [cbn [d_wlimit]; auto|]. cbn [d_out d_cw d_bytes d_rd]. rewrite Hr in Hd. repeat split; auto.
      rewrite Hd, lenN_app. lia.
  Qed.

  (* one step of the copier of direction d keeps its own invariant and touches nothing else *)
  Lemma copier_step_inv (d : nat) data pc sh :
    sh_closed_a sh = false -> sh_closed_b sh = false ->
    dinv data pc (if (d =? 0)%nat then sh_d0 sh else sh_d1 sh) ->
    exists pc' D', copier_step CopyBuf d pc sh =
                     (pc', set_d d sh D' (sh_wg sh - (nz pc - nz pc')) 0) /\ dinv data pc' D'.
  Proof.
    intros Hca Hcb Hd. unfold copier_step. rewrite Hca, Hcb.
    replace (if (d =? 0)%nat then false else false) with false by (destruct (d =? 0)%nat; reflexivity).
    destruct pc as [total| | | | | | |]; try (exfalso; exact (proj2 Hd)).
    - destruct (loop_iter_inv data total _ Hd) as (pc' & D' & Hl & Hd' & Hnz). rewrite Hl.
      exists pc', D'. split; [|exact Hd']. cbn [nz]. rewrite Hnz. f_equal. f_equal. lia.
    - destruct Hd as (Hwl & Ho & Hcw & Hb). eexists; eexists. split.
      + cbn [nz]. f_equal. f_equal. lia.
      + split; [cbn [d_wlimit]; auto|]. cbn [d_out d_cw d_bytes]. repeat split; auto. lia.
    - destruct Hd as (Hwl & Ho & Hcw & Hb).
      exists PDone, (if (d =? 0)%nat then sh_d0 sh else sh_d1 sh). split.
      + cbn [nz]. f_equal. f_equal. lia.
      + split; [cbn [d_wlimit]; auto|]. auto.
    - destruct Hd as (Hwl & Ho & Hcw & Hb).
      exists PDone, (if (d =? 0)%nat then sh_d0 sh else sh_d1 sh). split.
      + cbn [nz]. replace (sh_wg sh - (0 - 0)) with (sh_wg sh) by lia.
        unfold set_d. destruct sh; destruct (d =? 0)%nat; cbn; f_equal; f_equal; lia.
      + split; [cbn [d_wlimit]; auto|]. auto.
  Qed.

  Lemma minv_not_wait_done pm sh p0 p1 :
    minv pm sh -> sh_wg sh = nz p0 + nz p1 -> (sh_closed_a sh = true \/ sh_closed_b sh = true \/ pm <> MWait /\ pm <> MCloseA) ->
    p0 = PDone /\ p1 = PDone.
  Proof.
    intros Hm Hwg Hc.
    assert (H0 : sh_wg sh = 0).
    { destruct pm; cbn [minv] in Hm; try tauto; try (destruct Hm as (? & ? & ? & ? & ? & ?); destruct Hc as [?|[?|[? ?]]]; congruence). }
    destruct p0, p1; cbn [nz] in Hwg; try lia; auto.
  Qed.

  Theorem Inv_step : forall s i, Inv s -> Inv (sys_step tsh (nat * tpc) (tstep CopyBuf) s i).
  Proof.
    intros [sh ls] i (p0 & p1 & pm & Hls & H0 & H1 & Hwg & Hio & Hm). cbn [fst snd] in *. subst ls.
    unfold sys_step. cbn [snd fst].
    destruct i as [|[|[|i]]]; cbn [nth_error].
    - (* A->B copier *)
      unfold tstep. cbn [fst snd].
      destruct (sh_closed_a sh) eqn:Hca; [|destruct (sh_closed_b sh) eqn:Hcb].
      + destruct (minv_not_wait_done pm sh p0 p1 Hm Hwg (or_introl Hca)) as [-> ->].
        cbn [copier_step upd_nth]. exists PDone, PDone, pm. repeat split; auto.
      + destruct (minv_not_wait_done pm sh p0 p1 Hm Hwg (or_intror (or_introl Hcb))) as [-> ->].
        cbn [copier_step upd_nth]. exists PDone, PDone, pm. repeat split; auto.
      + destruct (copier_step_inv 0 sA p0 sh Hca Hcb H0) as (pc' & D' & Hs & Hd'). rewrite Hs.
        cbn [upd_nth]. exists pc', p1, pm. cbn [fst snd]. unfold set_d. cbn [Nat.eqb sh_d0 sh_d1 sh_wg sh_io_after_close].
        repeat split; auto.
        * destruct p0, pc'; cbn [nz] in *; try lia; destruct H0 as [_ H0]; destruct Hd' as [_ Hd']; try tauto;
            cbn [dinv] in *; lia.
        * lia.
        * destruct pm; cbn [minv] in *; cbn [sh_closed_a sh_closed_b sh_ncl_a sh_ncl_b sh_ret sh_wg]; try tauto;
            try (destruct Hm as (? & ? & ? & ? & ? & Hx); repeat split; auto; intros Hy; specialize (Hx Hy);
                 destruct p0, p1; cbn [nz] in *; lia);
            try (destruct Hm as (Hz & ? & ? & ?); repeat split; auto; destruct p0, p1; cbn [nz] in *; lia).
    - (* B->A copier *)
      unfold tstep. cbn [fst snd].
      destruct (sh_closed_a sh) eqn:Hca; [|destruct (sh_closed_b sh) eqn:Hcb].
      + destruct (minv_not_wait_done pm sh p0 p1 Hm Hwg (or_introl Hca)) as [-> ->].
        cbn [copier_step upd_nth]. exists PDone, PDone, pm. repeat split; auto.
      + destruct (minv_not_wait_done pm sh p0 p1 Hm Hwg (or_intror (or_introl Hcb))) as [-> ->].
        cbn [copier_step upd_nth]. exists PDone, PDone, pm. repeat split; auto.
      + destruct (copier_step_inv 1 sB p1 sh Hca Hcb H1) as (pc' & D' & Hs & Hd'). rewrite Hs.
        cbn [upd_nth]. exists p0, pc', pm. cbn [fst snd]. unfold set_d. cbn [Nat.eqb sh_d0 sh_d1 sh_wg sh_io_after_close].
        repeat split; auto.
        * destruct p1, pc'; cbn [nz] in *; try lia; destruct H1 as [_ H1]; destruct Hd' as [_ Hd']; try tauto;
            cbn [dinv] in *; lia.
        * lia.
        * destruct pm; cbn [minv] in *; cbn [sh_closed_a sh_closed_b sh_ncl_a sh_ncl_b sh_ret sh_wg]; try tauto;
            try (destruct Hm as (? & ? & ? & ? & ? & Hx); repeat split; auto; intros Hy; specialize (Hx Hy);
                 destruct p0, p1; cbn [nz] in *; lia);
            try (destruct Hm as (Hz & ? & ? & ?); repeat split; auto; destruct p0, p1; cbn [nz] in *; lia).
    - (* main *)
      unfold tstep. cbn [fst snd]. unfold main_step.
      destruct pm; cbn [minv] in Hm; try tauto.
      + (* the third thread's pc is PDone: returned *)
        cbn [upd_nth]. exists p0, p1, PDone. repeat split; auto; cbn [minv]; tauto.
      + destruct (sh_wg sh =? 0) eqn:Ew; cbn [upd_nth fst snd].
        * exists p0, p1, MCloseA. repeat split; auto; try tauto. cbn [minv]. intuition lia.
        * exists p0, p1, MWait. repeat split; auto.
      + cbn [upd_nth fst snd]. exists p0, p1, MCloseB.
        cbn [sh_d0 sh_d1 sh_wg sh_io_after_close minv sh_ncl_a sh_ncl_b sh_ret]. destruct Hm as (? & ? & ? & ? & ? & Hx).
        specialize (Hx eq_refl). repeat split; auto; lia.
      + cbn [upd_nth fst snd]. exists p0, p1, MRet.
        cbn [sh_d0 sh_d1 sh_wg sh_io_after_close minv sh_ncl_a sh_ncl_b sh_ret]. destruct Hm as (? & ? & ? & ?).
        repeat split; auto; lia.
      + cbn [upd_nth fst snd]. exists p0, p1, PDone.
        cbn [sh_d0 sh_d1 sh_wg sh_io_after_close minv sh_ncl_a sh_ncl_b sh_ret]. destruct Hm as (? & ? & ? & ?).
        repeat split; auto.
    - (* no such thread *)
      destruct i; cbn [nth_error]; exists p0, p1, pm; repeat split; auto.
  Qed.
End TcpProofs.
Close Scope N_scope.

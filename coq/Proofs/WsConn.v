(* Proofs/WsConn.v — the WebSocket adapter is exactly a chunk oracle with carry: every Read of the adapter
   returns what read1 returns on its abstraction, and the abstraction commutes.  Hence every theorem proved
   for ALL chunk oracles (C01, C05, C10, C12, C20) speaks about byte streams delivered through these adapters. *)
From TX Require Import Model.WsConn.
From Coq Require Import ZArith ZifyN ZifyNat ZifyBool Lia.

Lemma concat_nonempty_length (m : list byte) ms : m <> [] -> (0 < length (m ++ concat ms))%nat.
Proof. destruct m; [congruence|cbn; lia]. Qed.

Theorem ws_read_is_read1 cap w : (0 < cap)%N -> ws_wf w ->
  read1 cap (ws_abs w) =
  match ws_read cap w with
  | None => None
  | Some (got, w') => Some (got, ws_abs w')
  end
  /\ match ws_read cap w with Some (_, w') => ws_wf w' | None => True end.
Proof.
  intros Hc Hwf. unfold ws_read, read1, ws_abs, ws_bytes. destruct w as [buf msgs]. cbn [w_buf w_msgs rest cuts endk carry] in *.
  destruct buf as [|b bs].
  - (* no buffered tail *)
    destruct msgs as [|m ms]; [cbn; auto|].
    unfold ws_wf in Hwf. cbn [w_msgs] in Hwf. inversion Hwf as [|? ? Hm Hms]; subst.
    cbn [app concat map].
    destruct (m ++ concat ms) as [|x xs] eqn:Erest.
    { pose proof (concat_nonempty_length m ms Hm) as Hl. rewrite Erest in Hl. cbn in Hl. lia. }
    rewrite <- Erest. cbn [andb].
    assert (Hlm : (0 < length m)%nat) by (destruct m; [congruence|cbn; lia]).
    set (k := N.to_nat (N.min cap (N.of_nat (Nat.min (Nat.max 1 (length m)) (length (m ++ concat ms)))))).
    assert (Hk : k = N.to_nat (N.min cap (lenN m))).
    { subst k. unfold lenN. rewrite app_length. lia. }
    assert (Hkm : (k <= length m)%nat) by (rewrite Hk; unfold lenN; lia).
    rewrite <- Hk. split; [|unfold ws_wf; cbn [w_msgs]; exact Hms].
    f_equal. f_equal.
    + assert (E0 : (k - length m = 0)%nat) by lia. rewrite firstn_app, E0, firstn_O, app_nil_r. reflexivity.
    + unfold ws_abs, ws_bytes. cbn [w_buf w_msgs]. f_equal.
      * assert (E0 : (k - length m = 0)%nat) by lia. rewrite skipn_app, E0. reflexivity.
      * destruct (Nat.ltb_spec k (Nat.max 1 (length m))) as [Hlt|Hge].
        -- assert (Hs : skipn k m <> []).
           { intros E. apply (f_equal (@length byte)) in E. rewrite skipn_length in E. cbn in E. lia. }
           destruct (skipn k m) eqn:Es; [congruence|]. rewrite <- Es. rewrite skipn_length. cbn [app]. f_equal. lia.
        -- assert (Hs : skipn k m = []) by (apply skipn_all2; lia). rewrite Hs. reflexivity.
  - (* serve the buffered tail first *)
    cbn [app andb].
    change (b :: bs ++ concat msgs) with ((b :: bs) ++ concat msgs).
    assert (Hlb : (0 < length (b :: bs))%nat) by (cbn; lia).
    remember (b :: bs) as buf eqn:Ebuf.
    set (k := N.to_nat (N.min cap (N.of_nat (Nat.min (Nat.max 1 (length buf)) (length (buf ++ concat msgs)))))).
    assert (Hk : k = N.to_nat (N.min cap (lenN buf))).
    { subst k. unfold lenN. rewrite app_length. lia. }
    assert (Hkm : (k <= length buf)%nat) by (rewrite Hk; unfold lenN; lia).
    rewrite <- Hk. split; [|exact Hwf].
    f_equal. f_equal.
    + assert (E0 : (k - length buf = 0)%nat) by lia. rewrite firstn_app, E0, firstn_O, app_nil_r. reflexivity.
    + unfold ws_abs, ws_bytes. cbn [w_buf w_msgs]. f_equal.
      * assert (E0 : (k - length buf = 0)%nat) by lia. rewrite skipn_app, E0. reflexivity.
      * destruct (Nat.ltb_spec k (Nat.max 1 (length buf))) as [Hlt|Hge].
        -- assert (Hs : skipn k buf <> []).
           { intros E. apply (f_equal (@length byte)) in E. rewrite skipn_length in E. cbn in E. lia. }
           destruct (skipn k buf) eqn:Es; [congruence|]. rewrite <- Es. rewrite skipn_length. cbn [app]. f_equal. lia.
        -- assert (Hs : skipn k buf = []) by (apply skipn_all2; lia). rewrite Hs. reflexivity.
Qed.

(* the stream an adapter delivers is the concatenation of the messages, whatever their boundaries *)
Lemma ws_abs_rest w : rest (ws_abs w) = w_buf w ++ concat (w_msgs w).
Proof. reflexivity. Qed.

(* Proofs/RoutingRefine.v — the routing table over a shared TTL store refines the specification map
   (Model/Routing.v: spec / spec_step): for EVERY history of register / lookup / remove / tick / node-address
   operations by any nodes, the observable answers (the two "gone" errors identified, addresses ignored) are those
   of a map  tunnel id -> record  with an expiry instant.  Hypotheses: the waiting keys live in the shared store,
   the backend's clock does not run ahead of the nodes' clock (it never expires a key EARLY; it may keep it for any
   time after the deadline), and the codec round-trips the registered records. *)
From Coq Require Import List NArith ZArith Bool Lia ZifyN ZifyNat ZifyBool.
Import ListNotations.
From TX Require Import Base.Val Model.Routing Proofs.Routing.
Open Scope N_scope.

Section Refine.
  Variable gstr : Type.
  Variable enc : waiting -> gstr.
  Variable dec : gstr -> option waiting.
  Variable decm : gstr -> option waiting.
  Variable of_addr : str -> gstr.
  Variable to_addr : gstr -> str.
  Variable keep : cell -> N -> bool.
  Variable valid : waiting -> Prop.
  Hypothesis codec : forall r, valid r -> dec (enc r) = Some r.
  Hypothesis valid_stamp : forall r a b, valid r -> valid (stamp r a b).

  Variable c : cfg.
  Hypothesis Hdisj : keys_disjoint c.
  Hypothesis Hroute : forall t, c_route c (wait_key c t) = true.
  Hypothesis Httl : c_ttl c <> 0.

  Notation state := (state gstr).
  Notation step := (step gstr enc dec decm of_addr to_addr keep).
  Notation run := (run gstr enc dec decm of_addr to_addr keep).
  Notation st_get := (st_get gstr keep).
  Notation st_set := (st_set gstr).
  Notation st_del := (st_del gstr).
  Notation put_waiting := (put_waiting gstr enc).
  Notation now := (now gstr).
  Notation bnow := (bnow gstr).
  Notation mem := (mem gstr).
  Notation mkE := (mkE gstr).

  Definition op_ok (o : op) : Prop :=
    match o with
    | ORegister _ r => valid r
    | OTick dn db => db <= dn
    | _ => True
    end.

  Definition wcell (t : str) : cell := (None, wait_key c t).

  Lemma cell_is_wcell : forall n t, cell_of c n (wait_key c t) = wcell t.
  Proof. intros n t. unfold cell_of, wcell. rewrite Hroute. reflexivity. Qed.

  Lemma wcell_inj : forall t1 t2, wcell t1 = wcell t2 -> t1 = t2.
  Proof. intros t1 t2 H. unfold wcell in H. injection H as H. exact (wait_key_inj c t1 t2 H). Qed.

  Lemma wcell_not_addr : forall t n id, wcell t <> cell_of c n (addr_key c id).
  Proof. intros t n id H. unfold wcell, cell_of in H. injection H as _ H. exact (Hdisj t id H). Qed.

  (* the simulation relation *)
  Definition Rel (s : state) (sp : spec) : Prop :=
    now s = sp_now sp /\
    forall t,
      (forall r, sp_map sp t = Some r -> now s <= w_expires r ->
         exists d, mem s (wcell t) = Some (mkE (put_waiting c (wcell t) r) (Some d)) /\ bnow s + w_expires r <= d + now s)
      /\ (forall e, mem s (wcell t) = Some e ->
         exists r, e_val _ e = put_waiting c (wcell t) r /\ sp_map sp t = Some r /\ valid r).

  Lemma sp_upd_same : forall m t v, sp_upd m t v t = v.
  Proof. intros. unfold sp_upd. assert (E : list_eqb t t = true) by (apply list_eqb_iff; reflexivity). rewrite E. reflexivity. Qed.

  Lemma sp_upd_other : forall m t v x, x <> t -> sp_upd m t v x = m x.
  Proof.
    intros m t v x H. unfold sp_upd. destruct (list_eqb x t) eqn:E; [|reflexivity].
    apply list_eqb_iff in E. contradiction.
  Qed.

  Lemma Rel_init : Rel (init gstr) sp_init.
  Proof.
    split; [reflexivity|]. intro t. split.
    - intros r H. discriminate.
    - intros e H. discriminate.
  Qed.

  Lemma step_refines : forall s sp o, Rel s sp -> op_ok o ->
    proj (snd (step c s o)) = snd (spec_step (c_ttl c) sp o)
    /\ Rel (fst (step c s o)) (fst (spec_step (c_ttl c) sp o)).
  Proof.
    intros s sp o [Hnow HR] Hok.
    destruct o as [n r|n t0|n t0|dn db|n id a|n id]; cbn [op_ok] in Hok.
    - (* Register *)
      unfold Routing.step, spec_step. destruct (is_nil (w_tunnel r)) eqn:En.
      + cbn [fst snd proj]. split; [reflexivity|split; assumption].
      + rewrite cell_is_wcell. cbn [fst snd proj]. rewrite <- Hnow. split; [reflexivity|].
        set (r' := stamp r (now s) (now s + c_ttl c)).
        split; [reflexivity|]. intro t.
        destruct (list_eqb t (w_tunnel r)) eqn:E.
        * apply list_eqb_iff in E. subst t. cbn [sp_map Routing.now Routing.st_set Routing.bnow].
          rewrite sp_upd_same. split.
          -- intros r0 H0 Hn0. injection H0 as H0. subst r0.
             exists (bnow s + c_ttl c). rewrite (mem_st_set_same gstr).
             apply N.eqb_neq in Httl. rewrite Httl. cbn [Routing.clk wcell fst]. split; [reflexivity|].
             cbn [w_expires stamp r']. lia.
          -- intros e He. rewrite (mem_st_set_same gstr) in He. injection He as He. subst e.
             exists r'. cbn [e_val]. split; [reflexivity|]. split; [reflexivity|]. apply valid_stamp. exact Hok.
        * assert (Hne : t <> w_tunnel r) by (intro K; subst t; assert (X : list_eqb (w_tunnel r) (w_tunnel r) = true) by (apply list_eqb_iff; reflexivity); rewrite X in E; discriminate).
          assert (Hc : wcell t <> wcell (w_tunnel r)) by (intro K; apply wcell_inj in K; contradiction).
          cbn [sp_map]. rewrite (sp_upd_other _ _ _ _ Hne). rewrite (mem_st_set_other gstr _ _ _ _ _ Hc).
          exact (HR t).
    - (* Lookup *)
      unfold spec_step. destruct (is_nil t0) eqn:En.
      + unfold Routing.step. rewrite En. cbn [fst snd proj]. split; [reflexivity|split; assumption].
      + assert (Ht0 : t0 <> []) by (intro K; subst t0; discriminate).
        destruct (HR t0) as [H1 H2].
        destruct (mem s (wcell t0)) as [e|] eqn:Em.
        * destruct (H2 e eq_refl) as [r [Hv [Hs Hval]]]. rewrite Hs.
          destruct e as [v dl]. cbn [e_val] in Hv. subst v.
          rewrite <- Hnow.
          destruct (w_expires r <? now s) eqn:Ex.
          -- (* expired in the spec *)
             apply N.ltb_lt in Ex.
             assert (Hm' : mem s (cell_of c n (wait_key c t0)) = Some (mkE (put_waiting c (cell_of c n (wait_key c t0)) r) dl))
               by (rewrite cell_is_wcell; exact Em).
             destruct (lookup_cell_sound gstr enc dec decm of_addr to_addr keep c s n t0 r dl Ht0 Hm' (codec r Hval))
               as [[K L]|[K|[K L]]].
             ++ exfalso. lia.
             ++ rewrite K. cbn [fst snd proj]. split; [reflexivity|split; assumption].
             ++ rewrite K. cbn [fst snd proj]. split; [reflexivity|]. rewrite cell_is_wcell.
                destruct (c_del_expired c); [|split; assumption]. unfold Routing.st_del_if.
                split; [exact Hnow|]. intro t.
                destruct (list_eqb t t0) eqn:E.
                ** apply list_eqb_iff in E. subst t. cbn [Routing.now Routing.st_del Routing.bnow]. split.
                   --- intros r0 H0 Hn0. rewrite Hs in H0. injection H0 as H0. subst r0. exfalso. lia.
                   --- intros e He. rewrite (mem_st_del_same gstr) in He. discriminate.
                ** assert (Hne : t <> t0) by (intro K'; subst t; assert (X : list_eqb t0 t0 = true) by (apply list_eqb_iff; reflexivity); rewrite X in E; discriminate).
                   assert (Hc : wcell t <> wcell t0) by (intro K'; apply wcell_inj in K'; contradiction).
                   rewrite (mem_st_del_other gstr _ _ _ Hc). exact (HR t).
          -- (* live in the spec: the backend cannot have dropped it *)
             apply N.ltb_ge in Ex.
             destruct (H1 r Hs Ex) as [d [Hm Hd]]. assert (Hdl : dl = Some d) by congruence. subst dl.
             assert (Hm' : mem s (cell_of c n (wait_key c t0)) = Some (mkE (put_waiting c (cell_of c n (wait_key c t0)) r) (Some d)))
               by (rewrite cell_is_wcell; exact Em).
             rewrite (lookup_live_cell gstr enc dec decm of_addr to_addr keep c s n t0 r d Ht0 Hm' (codec r Hval) Ex).
             ++ cbn [fst snd proj]. split; [reflexivity|split; assumption].
             ++ rewrite cell_is_wcell. cbn [Routing.clk wcell fst]. lia.
        * assert (Hm' : mem s (cell_of c n (wait_key c t0)) = None) by (rewrite cell_is_wcell; exact Em).
          rewrite (lookup_empty_cell gstr enc dec decm of_addr to_addr keep c s n t0 Ht0 Hm'). cbn [fst snd proj].
          destruct (sp_map sp t0) as [r|] eqn:Hs.
          -- destruct (w_expires r <? sp_now sp) eqn:Ex; cbn [fst snd]; [split; [reflexivity|split; assumption]|].
             apply N.ltb_ge in Ex. rewrite <- Hnow in Ex. destruct (H1 r eq_refl Ex) as [d [Hm _]]. discriminate.
          -- cbn [fst snd]. split; [reflexivity|split; assumption].
    - (* Remove *)
      unfold Routing.step, spec_step. destruct (is_nil t0) eqn:En.
      + cbn [fst snd proj]. split; [reflexivity|split; assumption].
      + rewrite cell_is_wcell. cbn [fst snd proj]. split; [reflexivity|].
        split; [exact Hnow|]. intro t.
        destruct (list_eqb t t0) eqn:E.
        * apply list_eqb_iff in E. subst t. cbn [sp_map]. rewrite sp_upd_same. split.
          -- intros r0 H0. discriminate.
          -- intros e He. rewrite (mem_st_del_same gstr) in He. discriminate.
        * assert (Hne : t <> t0) by (intro K'; subst t; assert (X : list_eqb t0 t0 = true) by (apply list_eqb_iff; reflexivity); rewrite X in E; discriminate).
          assert (Hc : wcell t <> wcell t0) by (intro K'; apply wcell_inj in K'; contradiction).
          cbn [sp_map]. rewrite (sp_upd_other _ _ _ _ Hne). rewrite (mem_st_del_other gstr _ _ _ Hc).
          cbn [Routing.now Routing.st_del Routing.bnow]. exact (HR t).
    - (* Tick *)
      unfold Routing.step, spec_step. cbn [fst snd proj]. split; [reflexivity|].
      split; [cbn [Routing.now sp_now]; lia|]. intro t. destruct (HR t) as [H1 H2].
      cbn [Routing.now Routing.bnow Routing.mem sp_map]. split.
      + intros r Hs Hn. assert (Hn' : now s <= w_expires r) by lia.
        destruct (H1 r Hs Hn') as [d [Hm Hd]]. exists d. split; [exact Hm|lia].
      + exact H2.
    - (* RegisterNodeAddress *)
      unfold Routing.step, spec_step. cbn [fst snd proj]. split; [reflexivity|].
      split; [exact Hnow|]. intro t.
      rewrite (mem_st_set_other gstr _ _ _ _ _ (wcell_not_addr t n id)).
      cbn [Routing.now Routing.st_set Routing.bnow]. exact (HR t).
    - (* GetNodeAddress *)
      unfold Routing.step, spec_step.
      destruct (st_get s _) as [[r0|r0|g|g|g|]|]; try (cbn [fst snd proj]; split; [reflexivity|split; assumption]);
        destruct (is_nil (to_addr g)); cbn [fst snd proj]; (split; [reflexivity|split; assumption]).
  Qed.

  Theorem run_refines : forall h s sp, Rel s sp -> Forall op_ok h ->
    map proj (snd (run c s h)) = snd (spec_run (c_ttl c) sp h).
  Proof.
    induction h as [|o h IH]; intros s sp HR Hf; [reflexivity|].
    inversion Hf as [|o' h' Ho Hh]; subst o' h'.
    destruct (step_refines s sp o HR Ho) as [A B].
    cbn [Routing.run spec_run].
    destruct (step c s o) as [s1 r1]. destruct (spec_step (c_ttl c) sp o) as [sp1 q1]. cbn [fst snd] in A, B.
    specialize (IH s1 sp1 B Hh).
    destruct (run c s1 h) as [s2 rs]. destruct (spec_run (c_ttl c) sp1 h) as [sp2 qs]. cbn [fst snd] in *.
    cbn [map]. rewrite A, IH. reflexivity.
  Qed.

  Theorem refines_spec : forall h, Forall op_ok h ->
    map proj (snd (run c (init gstr) h)) = snd (spec_run (c_ttl c) sp_init h).
  Proof. intros h Hf. exact (run_refines h (init gstr) sp_init Rel_init Hf). Qed.
End Refine.

(* Proofs/RoutingConc.v — the routing statements for EVERY schedule of any number of threads whose atomic steps are
   RoutingTable calls (= single storage calls), sweeps of any store and clock ticks (Model/RoutingConc.v). *)
From Coq Require Import List NArith ZArith Bool Lia ZifyN ZifyNat ZifyBool.
Import ListNotations.
From TX Require Import Base.Val Model.RoutingConc Proofs.Routing.
Open Scope N_scope.

Definition xsets (c : cfg) (x : xop) : option cell :=
  match x with XOp o => sets c o | XSweep _ => None end.

Lemma Forall_upd_nth : forall {A} (P : A -> Prop) i x l, Forall P l -> P x -> Forall P (upd_nth i x l).
Proof.
  intros A P i x l. revert i. induction l as [|h t IH]; intros [|j] Hl Hx; cbn; auto.
  - inversion Hl; subst. constructor; assumption.
  - inversion Hl; subst. constructor; [assumption|apply IH; assumption].
Qed.

Lemma Forall_nth_error : forall {A} (P : A -> Prop) l i x, Forall P l -> nth_error l i = Some x -> P x.
Proof.
  intros A P l i x Hl Hn. apply nth_error_In in Hn. rewrite Forall_forall in Hl. exact (Hl x Hn).
Qed.

Section ConcProofs.
  Variable gstr : Type.
  Variable enc : waiting -> gstr.
  Variable dec : gstr -> option waiting.
  Variable decm : gstr -> option waiting.
  Variable of_addr : str -> gstr.
  Variable to_addr : gstr -> str.
  Variable keep : cell -> N -> bool.

  Notation state := (state gstr).
  Notation step := (step gstr enc dec decm of_addr to_addr keep).
  Notation final := (final gstr enc dec decm of_addr to_addr keep).
  Notation lookup := (lookup gstr enc dec decm of_addr to_addr keep).
  Notation put_waiting := (put_waiting gstr enc).
  Notation now := (now gstr).
  Notation bnow := (bnow gstr).
  Notation mem := (mem gstr).
  Notation clk := (clk gstr).
  Notation mkE := (mkE gstr).
  Notation local := (local).
  Notation tstep := (tstep gstr enc dec decm of_addr to_addr keep false).
  Notation crun := (crun gstr enc dec decm of_addr to_addr keep false).

  (* the atomic sweep never removes an entry whose deadline has not passed, and does not touch the clocks *)
  Lemma sweep_keeps : forall s loc cl v d,
    mem s cl = Some (mkE v (Some d)) -> clk s cl <= d -> mem (sweep gstr s loc) cl = Some (mkE v (Some d)).
  Proof.
    intros s loc cl v d Hm Hd. unfold sweep, del_where, sweep_pred. cbn [Routing.mem]. rewrite Hm.
    unfold lapsed. cbn [e_dl]. assert (E : (d <? clk s cl) = false) by (apply N.ltb_ge; exact Hd).
    rewrite E. rewrite andb_false_r. reflexivity.
  Qed.

  Lemma sweep_clocks : forall s loc cl, now (sweep gstr s loc) = now s /\ clk (sweep gstr s loc) cl = clk s cl.
  Proof. intros. split; reflexivity. Qed.

  Lemma op_step_keeps : forall c cl r dl o s, dec (enc r) = Some r ->
    mem s cl = Some (mkE (put_waiting c cl r) dl) -> sets c o <> Some cl ->
    now (fst (step c s o)) <= w_expires r ->
    mem (fst (step c s o)) cl = Some (mkE (put_waiting c cl r) dl).
  Proof.
    intros c cl r dl o s Hc Hm Hs Hn.
    pose proof (entry_persists gstr enc dec decm of_addr to_addr keep c cl r dl Hc [o] s Hm) as K.
    rewrite final_cons, final_nil in K. apply K; [constructor; [exact Hs|constructor]|exact Hn].
  Qed.

  Lemma op_step_clk : forall c s o cl, now s <= now (fst (step c s o)) /\ clk s cl <= clk (fst (step c s o)) cl.
  Proof.
    intros c s o cl. pose proof (step_clocks gstr enc dec decm of_addr to_addr keep c s o) as [A [B _]].
    split; [exact A|]. unfold Routing.clk. destruct (fst cl); assumption.
  Qed.

  Section Inv.
    Variable c : cfg.
    Variable cl : cell.
    Variable r : waiting.
    Variable d : N.
    Hypothesis Hcodec : dec (enc r) = Some r.

    Definition thread_ok (lo : local) : Prop :=
      lo_pending lo = None /\ Forall (fun x => xsets c x <> Some cl) (lo_prog lo).

    (* while neither ExpiresAt nor the backend deadline has passed, the registered entry is in its cell *)
    Definition Inv (s : state * list local) : Prop :=
      Forall thread_ok (snd s) /\
      (now (fst s) <= w_expires r -> clk (fst s) cl <= d ->
       mem (fst s) cl = Some (mkE (put_waiting c cl r) (Some d))).

    Lemma Inv_step : forall s i, Inv s -> Inv (Threads.sys_step state local (tstep c) s i).
    Proof.
      intros [sh ls] i [Hth Hm]. unfold Threads.sys_step. cbn [fst snd] in *.
      destruct (nth_error ls i) as [lo|] eqn:En; [|split; assumption].
      pose proof (Forall_nth_error _ _ _ _ Hth En) as [Hp Hprog].
      unfold RoutingConc.tstep. rewrite Hp.
      destruct (lo_prog lo) as [|x rest] eqn:Ep.
      - cbn [fst snd]. split; [|exact Hm]. apply Forall_upd_nth; [exact Hth|]. split; [exact Hp|rewrite Ep; constructor].
      - inversion Hprog as [|x' rest' Hx Hrest]; subst x' rest'.
        assert (Hlo : thread_ok (mkL rest None)) by (split; [reflexivity|exact Hrest]).
        destruct x as [o|loc].
        + cbn [fst snd]. split; [apply Forall_upd_nth; assumption|].
          intros Hn Hd. destruct (op_step_clk c sh o cl) as [A B].
          apply op_step_keeps; [exact Hcodec| |exact Hx|exact Hn].
          apply Hm; [exact (N.le_trans _ _ _ A Hn)|exact (N.le_trans _ _ _ B Hd)].
        + cbn [fst snd]. split; [apply Forall_upd_nth; assumption|].
          intros Hn Hd. apply sweep_keeps; [apply Hm; [exact Hn|exact Hd]|exact Hd].
    Qed.

    Lemma Inv_all_schedules : forall sched sh ls, Inv (sh, ls) -> Inv (crun c sh ls sched).
    Proof.
      intros sched sh ls H. unfold RoutingConc.crun.
      exact (Threads.inv_all_schedules state local (tstep c) Inv Inv_step sched (sh, ls) H).
    Qed.
  End Inv.

  (* routable under EVERY schedule.  After RegisterWaitingTunnel(r) on node n1 (one atomic storage step), for any
     number of threads with any programs that do not set the same cell - registrations and removals of other ids by
     any nodes, lookups of any id, address refreshes, sweeps of any store, ticks - and every schedule of their steps:
     in the state reached, a lookup from every node reading the cell returns exactly r with its stamps, as long as the
     node clock has not passed ExpiresAt and the backend clock has not advanced by more than ttl. *)
  Theorem routable_all_schedules : forall c s n1 r ls sched n2,
    c_ttl c <> 0 -> w_tunnel r <> [] ->
    let r' := stamp r (now s) (now s + c_ttl c) in
    dec (enc r') = Some r' ->
    let cl := cell_of c n1 (wait_key c (w_tunnel r)) in
    cell_of c n2 (wait_key c (w_tunnel r)) = cl ->
    Forall (thread_ok c cl) ls ->
    let sh := fst (crun c (fst (step c s (ORegister n1 r))) ls sched) in
    now sh <= now s + c_ttl c -> clk sh cl <= clk s cl + c_ttl c ->
    step c sh (OLookup n2 (w_tunnel r)) = (sh, ROk r').
  Proof.
    intros c s n1 r ls sched n2 Httl Ht r' Hc cl Hcell Hth sh Hn Hb.
    destruct (register_state gstr enc dec decm of_addr to_addr keep c s n1 r Ht) as [Hm _]. fold cl r' in Hm.
    apply N.eqb_neq in Httl. rewrite Httl in Hm.
    assert (HI : Inv c cl r' (clk s cl + c_ttl c) (fst (step c s (ORegister n1 r)), ls)).
    { split; [exact Hth|]. intros _ _. exact Hm. }
    apply (Inv_all_schedules c cl r' (clk s cl + c_ttl c) Hc sched) in HI. destruct HI as [_ HI]. fold sh in HI.
    assert (Hm2 : mem sh cl = Some (mkE (put_waiting c cl r') (Some (clk s cl + c_ttl c)))).
    { apply HI; [cbn [w_expires stamp r']; exact Hn|exact Hb]. }
    apply (lookup_live_cell gstr enc dec decm of_addr to_addr keep c sh n2 (w_tunnel r) r' (clk s cl + c_ttl c) Ht);
      rewrite ?Hcell; [exact Hm2|exact Hc|cbn [w_expires stamp r']; exact Hn|exact Hb].
  Qed.

  (* the same in terms of tunnel ids, for a deployment whose waiting keys live in the shared store: from ANY node *)
  Definition thread_free_of (t : str) (lo : local) : Prop :=
    lo_pending lo = None /\ Forall (fun x => ~ xsets_tunnel t x) (lo_prog lo).

  Lemma xsets_other_tunnel : forall c t x n, keys_disjoint c -> ~ xsets_tunnel t x -> xsets c x <> Some (cell_of c n (wait_key c t)).
  Proof.
    intros c t x n Hd Hx. destruct x as [o|loc]; [|discriminate]. cbn [xsets].
    apply sets_other_tunnel; [exact Hd|]. intro K. apply Hx. destruct o; cbn [sets_tunnel xsets_tunnel] in *; try contradiction; exact K.
  Qed.

  Theorem routable_from_any_node_all_schedules : forall c s n1 r ls sched n2,
    keys_disjoint c -> c_route c (wait_key c (w_tunnel r)) = true -> c_ttl c <> 0 -> w_tunnel r <> [] ->
    let r' := stamp r (now s) (now s + c_ttl c) in
    dec (enc r') = Some r' ->
    Forall (thread_free_of (w_tunnel r)) ls ->
    let sh := fst (crun c (fst (step c s (ORegister n1 r))) ls sched) in
    now sh <= now s + c_ttl c -> bnow sh <= bnow s + c_ttl c ->
    lookup c sh n2 (w_tunnel r) = ROk r'.
  Proof.
    intros c s n1 r ls sched n2 Hd Hr Httl Ht r' Hc Hth sh Hn Hb.
    unfold Routing.lookup. subst sh.
    rewrite (routable_all_schedules c s n1 r ls sched n2 Httl Ht Hc); [reflexivity| | | |].
    - rewrite !(shared_cell c _ _ Hr). reflexivity.
    - apply (Forall_impl (thread_ok c (cell_of c n1 (wait_key c (w_tunnel r))))) with (2 := Hth).
      intros lo [A B]. split; [exact A|].
      apply (Forall_impl _ (fun x H => xsets_other_tunnel c (w_tunnel r) x n1 Hd H) B).
    - exact Hn.
    - rewrite (shared_cell c _ _ Hr). exact Hb.
  Qed.
End ConcProofs.

(* ---- the theorem depends on the sweep being ONE critical section.  Concrete schedule on the memory deployment:
   the first registration of the id has lapsed and is not swept yet; thread 0 sweeps the shared store, thread 1
   (node 1) registers the id again.  With the sweep as found both orders leave the fresh record routable; with a
   sweep that collects the lapsed keys first and deletes them in a later section, the schedule
   scan ; register ; delete loses it.  (Replayed on the real code by the harness' "sweep" stream.) *)
From TX Require Import Proofs.SideC09.

Definition ex_crun (two_phase : bool) :=
  crun ex_gstr ex_enc ex_dec ex_dec ex_of_addr ex_to_addr ex_keep two_phase.
Definition ex_rec_b : waiting :=
  mkW (w_tunnel ex_rec) (w_mapping ex_rec) (w_secret ex_rec) [110;111;100;101;45;98] (w_src ex_rec) (w_dst ex_rec)
      (w_host ex_rec) (w_port ex_rec) 0 0.
Definition ex_sweep_threads : list local := [mkL [XSweep None] None; mkL [XOp (ORegister 1 ex_rec_b)] None].

Lemma two_phase_sweep_refuted :
  let c := cfg_direct 30000000000 true in
  let s0 := ex_final c (fst (ex_step c (init ex_gstr) (ORegister 0 ex_rec))) [OTick 30000000001 30000000001] in
  let fresh := ROk (stamp ex_rec_b 30000000001 60000000001) in
  ex_lookup c s0 0 (w_tunnel ex_rec) = RNotFound
  /\ ex_lookup c (fst (ex_crun false c s0 ex_sweep_threads [0; 1]%nat)) 0 (w_tunnel ex_rec) = fresh
  /\ ex_lookup c (fst (ex_crun false c s0 ex_sweep_threads [1; 0]%nat)) 0 (w_tunnel ex_rec) = fresh
  /\ ex_lookup c (fst (ex_crun true c s0 ex_sweep_threads [1; 0; 0]%nat)) 0 (w_tunnel ex_rec) = fresh
  /\ ex_lookup c (fst (ex_crun true c s0 ex_sweep_threads [0; 1; 0]%nat)) 0 (w_tunnel ex_rec) = RNotFound.
Proof. vm_compute. repeat split; reflexivity. Qed.

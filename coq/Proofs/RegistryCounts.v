(* Proofs/RegistryCounts.v — C07 (c)/(d): closed connections never come back, counts are given back exactly. *)
From Coq Require Import List NArith Bool Lia ZArith ZifyN ZifyNat ZifyBool.
From TX Require Import Base.Threads Model.Registry Proofs.Registry.
Import ListNotations.
Open Scope N_scope.

Lemma get_del_some {V} c c' (m : amap V) : get c (del c' m) <> None -> c <> c' /\ get c m <> None.
Proof.
  intros H. destruct (N.eq_dec c c') as [->|Hne]; [rewrite get_del_same in H; congruence|].
  rewrite get_del_other in H by exact Hne. auto.
Qed.

Lemma get_set_some {V} c c' (v : V) (m : amap V) : get c (set c' v m) <> None -> c = c' \/ get c m <> None.
Proof.
  intros H. destruct (N.eq_dec c c') as [->|Hne]; [left; reflexivity|].
  rewrite get_set_other in H by exact Hne. auto.
Qed.

Lemma mem_rem_sub c c' l : mem c (rem c' l) = true -> mem c l = true.
Proof.
  destruct (N.eq_dec c c') as [->|Hne]; [rewrite mem_rem_same; discriminate|]. rewrite mem_rem_other by exact Hne. auto.
Qed.

Lemma nodup_rem c l : NoDup l -> NoDup (rem c l).
Proof.
  induction l as [|y t IH]; cbn; [intros; constructor|]. intros Hnd. inversion Hnd as [|? ? Hni Hnd']; subst.
  destruct (c =? y); [exact (IH Hnd')|]. constructor; [|exact (IH Hnd')].
  intros H. apply Hni. apply mem_In. apply (mem_rem_sub _ c). apply mem_In. exact H.
Qed.

Lemma length_rem c l : NoDup l -> mem c l = true -> (length (rem c l) + 1 = length l)%nat.
Proof.
  induction l as [|y t IH]; cbn [mem rem length]; [discriminate|]. intros Hnd. inversion Hnd as [|? ? Hni Hnd']; subst.
  destruct (c =? y) eqn:E.
  - apply N.eqb_eq in E. subst y. intros _. rewrite rem_notin; [lia|].
    destruct (mem c t) eqn:Em; [|reflexivity]. exfalso. apply Hni. apply mem_In. exact Em.
  - cbn [orb length]. intros H. specialize (IH Hnd' H). lia.
Qed.

(* ---- well-formedness of the bookkeeping around the registry ---- *)
Record WF2 (s : st) : Prop := {
  wf_nd_sess : NoDup (sess s);
  wf_nd_tun : NoDup (keys (tun s));
  wf_sess_streams : forall c, mem c (sess s) = true -> mem c (streams s) = true;
  wf_reg_sess : forall c, get c (reg s) <> None -> mem c (sess s) = true;
  wf_tun_sess : forall c, get c (tun s) <> None -> mem c (sess s) = true;
  wf_streams : forall c, mem c (streams s) = true -> mem c (sess s) = true \/ mem c (closed s) = true }.

(* a step that only touches the control registry (and may close transports) *)
Record ctl_only (s s' : st) : Prop := {
  co_streams : streams s' = streams s;
  co_sess : sess s' = sess s;
  co_tun : tun s' = tun s;
  co_reg : forall c, get c (reg s') <> None -> get c (reg s) <> None \/ mem c (sess s) = true;
  co_closed : forall c, mem c (closed s) = true -> mem c (closed s') = true }.

Lemma co_refl s : ctl_only s s.
Proof. split; auto. Qed.

Lemma co_trans s1 s2 s3 : ctl_only s1 s2 -> ctl_only s2 s3 -> ctl_only s1 s3.
Proof.
  intros [A1 A2 A3 A4 A5] [B1 B2 B3 B4 B5]. split; try congruence.
  - intros c H. destruct (B4 c H) as [H1|H1]; [exact (A4 c H1)|]. right. rewrite <- A2. exact H1.
  - intros c H. apply B5, A5, H.
Qed.

Lemma wf2_ctl_only s s' : ctl_only s s' -> WF2 s -> WF2 s'.
Proof.
  intros [A1 A2 A3 A4 A5] [W1 W2 W3 W4 W5 W6]. split; rewrite ?A1, ?A2, ?A3; auto.
  - intros c H. destruct (A4 c H) as [H1|H1]; auto.
  - intros c H. destruct (W6 c H) as [H1|H1]; auto.
Qed.

Ltac co_start := split; proj; try reflexivity.

Lemma co_remove_locked c r s : ctl_only s (remove_locked c r s).
Proof.
  unfold remove_locked, with_reg, with_idx, with_closed. co_start.
  - intros c' H. apply get_del_some in H. tauto.
  - intros c' H. apply mem_add_mono. exact H.
Qed.

Lemma co_registry_remove c s : ctl_only s (registry_remove c s).
Proof. unfold registry_remove. destruct (get c (reg s)); [apply co_remove_locked|apply co_refl]. Qed.

Lemma co_unregister c s : ctl_only s (registry_unregister c s).
Proof.
  unfold registry_unregister. destruct (get c (reg s)); [|apply co_refl].
  unfold with_reg, with_idx. co_start; auto. intros c' H. apply get_del_some in H. tauto.
Qed.

Lemma co_set_reg c r s : get c (reg s) <> None \/ mem c (sess s) = true -> ctl_only s (with_reg s (set c r (reg s))).
Proof.
  intros Hc. unfold with_reg. co_start; auto. intros c' H. apply get_set_some in H. destruct H as [->|H]; auto.
Qed.

Lemma co_set_idx i s : ctl_only s (with_idx s i).
Proof. unfold with_idx. co_start; auto. Qed.

Lemma co_bump s : ctl_only s (bump s).
Proof. unfold bump. co_start; auto. Qed.

Lemma co_register k c r s : mem c (sess s) = true -> ctl_only s (registry_register k c r s).
Proof.
  intros Hc. unfold registry_register.
  assert (Hs1 : forall s1, ctl_only s s1 ->
    ctl_only s (let s2 := match get c (reg s1) with Some r' => remove_locked c r' s1 | None => s1 end in
                let s3 := with_reg s2 (set c r (reg s2)) in
                if c_auth r && (0 <? c_cid r) then with_idx s3 (set (c_cid r) c (idx s3)) else s3)).
  { intros s1 H1. cbn zeta.
    set (s2 := match get c (reg s1) with Some r' => remove_locked c r' s1 | None => s1 end).
    assert (H2 : ctl_only s s2).
    { unfold s2. destruct (get c (reg s1)); [|exact H1]. eapply co_trans; [exact H1|apply co_remove_locked]. }
    assert (H3 : ctl_only s (with_reg s2 (set c r (reg s2)))).
    { eapply co_trans; [exact H2|]. apply co_set_reg. right. rewrite (co_sess _ _ H2). exact Hc. }
    destruct (c_auth r && (0 <? c_cid r)); [|exact H3]. eapply co_trans; [exact H3|apply co_set_idx]. }
  destruct ((0 <? maxCtl k) && (maxCtl k <=? size (reg s))).
  - destruct (find_oldest (reg s)) as [[o ro]|]; [|apply co_refl]. apply Hs1. apply co_remove_locked.
  - apply Hs1. apply co_refl.
Qed.

Lemma co_rereg v k c r s : mem c (sess s) = true -> ctl_only s (registry_rereg v k c r s).
Proof.
  intros Hc. unfold registry_rereg. destruct (keeps_shared v); [|apply co_register; exact Hc].
  destruct (get c (reg s)); [|apply co_register; exact Hc].
  eapply co_trans; [apply co_unregister|]. apply co_register. rewrite sess_unregister. exact Hc.
Qed.

Lemma co_update_auth_core v c x s : ctl_only s (update_auth_core v c x s).
Proof.
  unfold update_auth_core. destruct (get c (reg s)) as [r|] eqn:E; [|apply co_refl].
  eapply co_trans; [apply (co_set_reg c); left; rewrite E; discriminate|apply co_set_idx].
Qed.

Lemma co_update_auth v c x s : ctl_only s (update_auth v c x s).
Proof.
  unfold update_auth. destruct (get c (reg s)); [|apply co_refl].
  eapply co_trans; [|apply co_update_auth_core].
  destruct (evicts v); [|apply co_refl]. unfold evict_holder. destruct (get x (idx s)) as [o|]; [|apply co_refl].
  destruct (o =? c); [apply co_refl|apply co_registry_remove].
Qed.

Lemma co_reconcile v c s : ctl_only s (reconcile v c s).
Proof. unfold reconcile. destruct (reconciles v); [|apply co_refl]. destruct (get c (reg s)); [apply co_set_idx|apply co_refl]. Qed.

Lemma co_kick x newc s : ctl_only s (kick x newc s).
Proof.
  unfold kick. destruct (get x (idx s)) as [o|]; [|apply co_refl]. destruct (o =? newc); [apply co_refl|].
  destruct (get o (reg s)); unfold with_closed, with_reg, with_idx; co_start; auto;
    try (intros c' H; apply mem_add_mono; exact H).
  intros c' H. apply get_del_some in H. tauto.
Qed.

Lemma co_handshake v k c kind x isCtl s : ctl_only s (fst (handshake v k c kind x isCtl s)).
Proof.
  unfold handshake.
  set (found := match get c (reg s) with
                | Some _ => Some s
                | None => if mem c (sess s) then Some (bump (registry_register k c (new_ctl s 0) s)) else None
                end).
  assert (Hf : match found with Some s1 => ctl_only s s1 | None => True end).
  { unfold found. destruct (get c (reg s)); [apply co_refl|]. destruct (mem c (sess s)) eqn:Es; [|exact I].
    eapply co_trans; [apply co_register; exact Es|apply co_bump]. }
  destruct found as [s1|]; [|apply co_refl].
  destruct (get c (reg s1)) as [r|] eqn:Er; [|exact Hf].
  set (okk := (kind =? 0) && (0 <? x)).
  set (r' := if okk then {| c_cid := x; c_auth := true; c_seq := c_seq r; c_last := c_last r |} else r).
  set (s2 := reconcile v c (with_reg s1 (set c r' (reg s1)))).
  assert (Hs2 : ctl_only s s2).
  { eapply co_trans; [exact Hf|]. eapply co_trans; [apply (co_set_reg c); left; rewrite Er; discriminate|apply co_reconcile]. }
  destruct (negb okk && negb (kind =? 1)); [exact Hs2|].
  destruct (mem c (closed s2) || mem c (wfail s2)); [exact Hs2|].
  destruct (okk && isCtl && c_auth r' && (0 <? c_cid r')); [|exact Hs2]. cbn [fst].
  eapply co_trans; [|apply co_update_auth].
  destruct (get (c_cid r') (idx s2)) as [o|]; [|exact Hs2].
  destruct (o =? c); [exact Hs2|]. eapply co_trans; [exact Hs2|apply co_registry_remove].
Qed.

(* CloseConnection *)
Lemma tun_registry_remove c s : tun (registry_remove c s) = tun s.
Proof. unfold registry_remove. destruct (get c (reg s)); reflexivity. Qed.
Lemma streams_registry_remove c s : streams (registry_remove c s) = streams s.
Proof. unfold registry_remove. destruct (get c (reg s)); reflexivity. Qed.

Lemma tun_close_conn c s : tun (close_conn c s) = del c (tun s).
Proof.
  unfold close_conn, tunnel_remove. rewrite tun_registry_remove.
  assert (Ht : tun (if mem c (sess s) then with_closed (with_sess s (rem c (sess s))) (add c (closed s)) else s) = tun s)
    by (destruct (mem c (sess s)); reflexivity).
  rewrite Ht. destruct (get c (tun s)) eqn:E; [reflexivity|]. proj. rewrite tun_registry_remove, Ht. symmetry. apply del_none. exact E.
Qed.

Lemma streams_close_conn c s : streams (close_conn c s) = streams s.
Proof.
  unfold close_conn. rewrite streams_tunnel_remove, streams_registry_remove. destruct (mem c (sess s)); reflexivity.
Qed.

Lemma closed_close_conn_mono c c' s : mem c' (closed s) = true -> mem c' (closed (close_conn c s)) = true.
Proof.
  intros H. unfold close_conn. rewrite closed_tunnel_remove.
  assert (H1 : mem c' (closed (if mem c (sess s) then with_closed (with_sess s (rem c (sess s))) (add c (closed s)) else s)) = true).
  { destruct (mem c (sess s)); [unfold with_closed; proj; apply mem_add_mono|]; exact H. }
  apply (co_closed _ _ (co_registry_remove c _)). exact H1.
Qed.

Lemma wf2_close_conn c s : WF2 s -> WF2 (close_conn c s).
Proof.
  intros [W1 W2 W3 W4 W5 W6]. split; rewrite ?sess_close_conn, ?tun_close_conn, ?reg_close_conn, ?streams_close_conn.
  - apply nodup_rem. exact W1.
  - apply nodup_del. exact W2.
  - intros c' H. apply W3. exact (mem_rem_sub _ _ _ H).
  - intros c' H. apply get_del_some in H. destruct H as [Hne H]. rewrite mem_rem_other by exact Hne. exact (W4 c' H).
  - intros c' H. apply get_del_some in H. destruct H as [Hne H]. rewrite mem_rem_other by exact Hne. exact (W5 c' H).
  - intros c' H. destruct (N.eq_dec c' c) as [->|Hne].
    + right. destruct (W6 c H) as [H1|H1]; [apply closed_close_conn_in; left; exact H1|apply closed_close_conn_mono; exact H1].
    + rewrite mem_rem_other by exact Hne. destruct (W6 c' H) as [H1|H1]; [left; exact H1|right; apply closed_close_conn_mono; exact H1].
Qed.

Lemma wf2_sweep_one s e : WF2 s -> WF2 (sweep_one s e).
Proof.
  intros Hw. destruct e as [c r]. unfold sweep_one.
  set (s1 := with_reg (with_idx s (unindex c r (idx s))) (del c (reg s))).
  assert (H1 : WF2 s1).
  { apply (wf2_ctl_only s); [|exact Hw]. unfold s1, with_reg, with_idx. co_start; auto.
    intros c' H. apply get_del_some in H. tauto. }
  apply (wf2_ctl_only (close_conn c s1)); [|apply wf2_close_conn; exact H1].
  unfold with_closed. co_start; auto. intros c' H. apply mem_add_mono. exact H.
Qed.

Lemma wf2_sweep k s : WF2 s -> WF2 (fst (sweep k s)).
Proof.
  unfold sweep. cbn [fst]. generalize (stale_entries k s). intros l. revert s.
  induction l as [|e t IH]; cbn [fold_left]; intros s Hw; [exact Hw|]. apply IH. apply wf2_sweep_one. exact Hw.
Qed.

Theorem wf2_step v k s o : WF2 s -> WF2 (fst (step v k s o)).
Proof.
  intros Hw. destruct o as [c|c kind x isCtl|c|c|c|c|x newc| |d|c pre|c x|c t|c|c pre|c x0]; cbn [step].
  - destruct ((0 <? maxConn k) && (maxConn k <=? N.of_nat (length (sess s)))); [exact Hw|].
    destruct (mem c (streams s)) eqn:Es; [exact Hw|]. destruct Hw as [W1 W2 W3 W4 W5 W6]. cbn [fst].
    assert (Hns : mem c (sess s) = false).
    { destruct (mem c (sess s)) eqn:E; [|reflexivity]. rewrite (W3 c E) in Es. discriminate. }
    split; proj.
    + constructor; [|exact W1]. intros H. apply mem_In in H. congruence.
    + exact W2.
    + intros c' H. cbn [mem] in *. apply orb_true_iff in H. destruct H as [H|H]; [rewrite H; reflexivity|].
      rewrite (W3 c' H). apply orb_true_r.
    + intros c' H. cbn [mem]. rewrite (W4 c' H). apply orb_true_r.
    + intros c' H. cbn [mem]. rewrite (W5 c' H). apply orb_true_r.
    + intros c' H. cbn [mem] in *. apply orb_true_iff in H. destruct H as [H|H]; [left; rewrite H; reflexivity|].
      destruct (W6 c' H) as [H1|H1]; [left; rewrite H1; apply orb_true_r|right; exact H1].
  - apply (wf2_ctl_only s); [apply co_handshake|exact Hw].
  - destruct (get c (reg s)) eqn:E; [|exact Hw]. cbn [fst]. apply (wf2_ctl_only s); [|exact Hw].
    apply co_set_reg. left. congruence.
  - apply wf2_close_conn. exact Hw.
  - apply (wf2_ctl_only s); [apply co_registry_remove|exact Hw].
  - apply (wf2_ctl_only s); [apply co_unregister|exact Hw].
  - apply (wf2_ctl_only s); [apply co_kick|exact Hw].
  - apply wf2_sweep. exact Hw.
  - destruct Hw as [W1 W2 W3 W4 W5 W6]. split; assumption.
  - destruct (mem c (sess s) && negb (mem c (closed s)) && match get c (reg s) with None => true | Some _ => false end) eqn:Eg; [|exact Hw].
    cbn [fst]. apply andb_true_iff in Eg. destruct Eg as [Eg _]. apply andb_true_iff in Eg. destruct Eg as [Eg _].
    apply (wf2_ctl_only s); [|exact Hw]. eapply co_trans; [apply co_register; exact Eg|apply co_bump].
  - destruct ((0 <? x) && negb (mem c (closed s))); [|exact Hw]. cbn [fst].
    apply (wf2_ctl_only s); [apply co_update_auth|exact Hw].
  - destruct (mem c (sess s)) eqn:Es; [|exact Hw]. cbn [fst].
    pose proof (wf2_ctl_only s _ (co_unregister c s) Hw) as [W1 W2 W3 W4 W5 W6].
    pose proof (co_sess _ _ (co_unregister c s)) as Hse.
    split; proj; auto.
    + apply nodup_set. exact W2.
    + intros c' H. apply get_set_some in H. destruct H as [->|H]; [rewrite Hse; exact Es|exact (W5 c' H)].
  - destruct (mem c (streams s)); [|exact Hw]. destruct Hw as [W1 W2 W3 W4 W5 W6]. split; assumption.
  - destruct (mem c (sess s) && negb (mem c (closed s))) eqn:Eg; [|exact Hw].
    cbn [fst]. apply andb_true_iff in Eg. destruct Eg as [Eg _].
    apply (wf2_ctl_only s); [|exact Hw]. eapply co_trans; [apply co_rereg; exact Eg|apply co_bump].
  - destruct (mem c (sess s) && negb (mem c (closed s))) eqn:Eg; [|exact Hw].
    cbn [fst]. apply andb_true_iff in Eg. destruct Eg as [Eg _].
    apply (wf2_ctl_only s); [|exact Hw]. eapply co_trans; [apply co_rereg; exact Eg|apply co_bump].
Qed.

Lemma wf2_init : WF2 init.
Proof. split; cbn; try constructor; intros; try discriminate; congruence. Qed.

Theorem wf2_run v k ops : forall s, WF2 s -> WF2 (run v k s ops).
Proof.
  induction ops as [|o t IH]; intros s Hw; [exact Hw|]. cbn [run fold_left]. apply IH. apply wf2_step. exact Hw.
Qed.

(* ------------------------------------------------------------------------------------------ *)
(* (d) counts                                                                                  *)
(* ------------------------------------------------------------------------------------------ *)
Definition b2n (b : bool) : N := if b then 1 else 0.
Definition has {V} (o : option V) : bool := match o with Some _ => true | None => false end.

(* CloseConnection(c) gives back exactly what c held: one session slot / control slot / tunnel slot each iff it held one *)
Theorem counts_close_conn c s : Inv s -> WF2 s ->
  counts s = (let '(t, ct, tn) := counts (close_conn c s) in
              (t + b2n (mem c (sess s)), ct + b2n (has (get c (reg s))), tn + b2n (has (get c (tun s))))).
Proof.
  intros Hinv Hw. unfold counts. rewrite sess_close_conn, reg_close_conn, tun_close_conn.
  assert (H1 : N.of_nat (length (sess s)) = N.of_nat (length (rem c (sess s))) + b2n (mem c (sess s))).
  { destruct (mem c (sess s)) eqn:E; cbn [b2n].
    - pose proof (length_rem c (sess s) (wf_nd_sess _ Hw) E). lia.
    - rewrite (rem_notin _ _ E). lia. }
  assert (H2 : size (reg s) = size (del c (reg s)) + b2n (has (get c (reg s)))).
  { destruct (get c (reg s)) as [r|] eqn:E; cbn [has b2n].
    - pose proof (size_del_some c r (reg s) (inv_nd_reg _ Hinv) E). lia.
    - rewrite (del_none _ _ E). lia. }
  assert (H3 : size (tun s) = size (del c (tun s)) + b2n (has (get c (tun s)))).
  { destruct (get c (tun s)) as [t|] eqn:E; cbn [has b2n].
    - pose proof (size_del_some c t (tun s) (wf_nd_tun _ Hw) E). lia.
    - rewrite (del_none _ _ E). lia. }
  rewrite <- H1, <- H2, <- H3. reflexivity.
Qed.

(* opening and closing a connection restores every count *)
Theorem accept_close_roundtrip v k c s : WF2 s ->
  mem c (streams s) = false -> (0 <? maxConn k) && (maxConn k <=? N.of_nat (length (sess s))) = false ->
  counts (run v k s [Accept c]) = (let '(t, ct, tn) := counts s in (t + 1, ct, tn)) /\
  counts (run v k s [Accept c; CloseConn c]) = counts s.
Proof.
  intros Hw Hs Hl. cbn [run fold_left step]. rewrite Hl, Hs. cbn [fst].
  assert (Hns : mem c (sess s) = false).
  { destruct (mem c (sess s)) eqn:E; [|reflexivity]. rewrite (wf_sess_streams _ Hw c E) in Hs. discriminate. }
  assert (Hnr : get c (reg s) = None).
  { destruct (get c (reg s)) eqn:E; [|reflexivity]. assert (Hx : get c (reg s) <> None) by congruence.
    rewrite (wf_reg_sess _ Hw c Hx) in Hns. discriminate. }
  assert (Hnt : get c (tun s) = None).
  { destruct (get c (tun s)) eqn:E; [|reflexivity]. assert (Hx : get c (tun s) <> None) by congruence.
    rewrite (wf_tun_sess _ Hw c Hx) in Hns. discriminate. }
  split.
  - unfold counts. proj. cbn [length]. f_equal. f_equal. lia.
  - unfold counts. rewrite sess_close_conn, reg_close_conn, tun_close_conn. proj.
    cbn [rem]. rewrite N.eqb_refl. rewrite (rem_notin _ _ Hns), (del_none _ _ Hnr), (del_none _ _ Hnt). reflexivity.
Qed.

(* ------------------------------------------------------------------------------------------ *)
(* (c) a closed connection never comes back                                                    *)
(* ------------------------------------------------------------------------------------------ *)
Definition Dead (c : N) (s : st) : Prop := mem c (streams s) = true /\ mem c (sess s) = false.

Lemma dead_ctl_only c s s' : ctl_only s s' -> Dead c s -> Dead c s'.
Proof. intros [A1 A2 _ _ _] [D1 D2]. split; [rewrite A1|rewrite A2]; assumption. Qed.

Lemma dead_close_conn c c' s : Dead c s -> Dead c (close_conn c' s).
Proof.
  intros [D1 D2]. split; [rewrite streams_close_conn; exact D1|]. rewrite sess_close_conn.
  destruct (mem c (rem c' (sess s))) eqn:E; [|reflexivity]. rewrite (mem_rem_sub _ _ _ E) in D2. discriminate.
Qed.

Lemma dead_sweep_one c s e : Dead c s -> Dead c (sweep_one s e).
Proof.
  intros Hd. destruct e as [c' r]. unfold sweep_one.
  set (s1 := with_reg (with_idx s (unindex c' r (idx s))) (del c' (reg s))).
  assert (H1 : Dead c s1) by exact Hd.
  pose proof (dead_close_conn c c' s1 H1) as [D1 D2]. split; assumption.
Qed.

Lemma dead_step v k s o c : Dead c s -> Dead c (fst (step v k s o)).
Proof.
  intros Hd. destruct o as [c1|c1 kind x isCtl|c1|c1|c1|c1|x newc| |d|c1 pre|c1 x|c1 t|c1|c1 pre|c1 x0]; cbn [step].
  - destruct ((0 <? maxConn k) && (maxConn k <=? N.of_nat (length (sess s)))); [exact Hd|].
    destruct (mem c1 (streams s)) eqn:Es; [exact Hd|]. destruct Hd as [D1 D2]. split; cbn [fst]; proj; cbn [mem].
    + rewrite D1. apply orb_true_r.
    + rewrite D2. destruct (c =? c1) eqn:E; [|reflexivity]. apply N.eqb_eq in E. subst c1. congruence.
  - apply (dead_ctl_only c s); [apply co_handshake|exact Hd].
  - destruct (get c1 (reg s)); exact Hd.
  - apply dead_close_conn. exact Hd.
  - apply (dead_ctl_only c s); [apply co_registry_remove|exact Hd].
  - apply (dead_ctl_only c s); [apply co_unregister|exact Hd].
  - apply (dead_ctl_only c s); [apply co_kick|exact Hd].
  - unfold sweep. cbn [fst]. generalize (stale_entries k s). intros l. revert s Hd.
    induction l as [|e t IH]; cbn [fold_left]; intros s Hd; [exact Hd|]. apply IH. apply dead_sweep_one. exact Hd.
  - exact Hd.
  - destruct (mem c1 (sess s) && negb (mem c1 (closed s)) && match get c1 (reg s) with None => true | Some _ => false end) eqn:Eg; [|exact Hd].
    cbn [fst]. apply andb_true_iff in Eg. destruct Eg as [Eg _]. apply andb_true_iff in Eg. destruct Eg as [Eg _].
    apply (dead_ctl_only c s); [|exact Hd]. eapply co_trans; [apply co_register; exact Eg|apply co_bump].
  - destruct ((0 <? x) && negb (mem c1 (closed s))); [|exact Hd]. cbn [fst].
    apply (dead_ctl_only c s); [apply co_update_auth|exact Hd].
  - destruct (mem c1 (sess s)); [|exact Hd]. cbn [fst].
    pose proof (dead_ctl_only c s _ (co_unregister c1 s) Hd) as [D1 D2]. split; assumption.
  - destruct (mem c1 (streams s)); exact Hd.
  - destruct (mem c1 (sess s) && negb (mem c1 (closed s))) eqn:Eg; [|exact Hd].
    cbn [fst]. apply andb_true_iff in Eg. destruct Eg as [Eg _].
    apply (dead_ctl_only c s); [|exact Hd]. eapply co_trans; [apply co_rereg; exact Eg|apply co_bump].
  - destruct (mem c1 (sess s) && negb (mem c1 (closed s))) eqn:Eg; [|exact Hd].
    cbn [fst]. apply andb_true_iff in Eg. destruct Eg as [Eg _].
    apply (dead_ctl_only c s); [|exact Hd]. eapply co_trans; [apply co_rereg; exact Eg|apply co_bump].
Qed.

Lemma dead_run v k ops c : forall s, Dead c s -> Dead c (run v k s ops).
Proof.
  induction ops as [|o t IH]; intros s Hd; [exact Hd|]. cbn [run fold_left]. apply IH. apply dead_step. exact Hd.
Qed.

(* once an accepted connection has been closed, no later history makes any lookup return it again *)
Theorem closed_never_returns k ops1 ops2 c :
  mem c (streams (run Current k init ops1)) = true ->
  let s2 := run Current k (close_conn c (run Current k init ops1)) ops2 in
  by_conn s2 c = None /\ (forall x, by_client s2 x <> Some c) /\ mem c (sess s2) = false /\
  get c (tun s2) = None /\ mem c (closed s2) = true.
Proof.
  intros Hs s2. set (s1 := run Current k init ops1) in *.
  assert (Hi1 : Inv s1) by (apply inv_run; exact inv_init).
  assert (Hw1 : WF2 s1) by (apply wf2_run; exact wf2_init).
  assert (Hi2 : Inv s2) by (apply inv_run; apply inv_close_conn; exact Hi1).
  assert (Hw2 : WF2 s2) by (apply wf2_run; apply wf2_close_conn; exact Hw1).
  assert (Hd : Dead c s2).
  { apply dead_run. split; [rewrite streams_close_conn; exact Hs|rewrite sess_close_conn; apply mem_rem_same]. }
  destruct Hd as [D1 D2].
  assert (Hr : by_conn s2 c = None).
  { unfold by_conn. destruct (get c (reg s2)) eqn:E; [|reflexivity]. assert (Hx : get c (reg s2) <> None) by congruence.
    rewrite (wf_reg_sess _ Hw2 c Hx) in D2. discriminate. }
  split; [exact Hr|]. split; [exact (OK1_not_registered _ _ _ _ (inv_ok _ Hi2) Hr)|]. split; [exact D2|]. split.
  - destruct (get c (tun s2)) eqn:E; [|reflexivity]. assert (Hx : get c (tun s2) <> None) by congruence.
    rewrite (wf_tun_sess _ Hw2 c Hx) in D2. discriminate.
  - destruct (wf_streams _ Hw2 c D1) as [H|H]; [congruence|exact H].
Qed.

(* Proofs/RegistryMicro.v — C07 at lock-section granularity: the invariant holds in every state of every interleaving
   of the sections of handleHandshake / CloseConnection with each other and with all other (atomic) operations. *)
From Coq Require Import List NArith Bool Lia ZArith ZifyN ZifyNat ZifyBool.
From TX Require Import Base.Threads Model.Registry Model.RegistryMicro Proofs.Registry.
Import ListNotations.
Open Scope N_scope.

(* ---- the pieces are the method ---- *)
Lemma hs_tail_eq v c kind x isCtl r' s2 :
  (if negb ((kind =? 0) && (0 <? x)) && negb (kind =? 1) then (s2, (true, 0))
   else if mem c (closed s2) || mem c (wfail s2) then (s2, (true, 0))
   else if (kind =? 0) && (0 <? x) && isCtl && c_auth r' && (0 <? c_cid r') then
     (update_auth v c (c_cid r') (match get (c_cid r') (idx s2) with
                                  | Some o => if o =? c then s2 else registry_remove o s2
                                  | None => s2
                                  end), (false, 0))
   else (s2, (false, 0)))
  = (if hs_rejected kind x then (s2, (true, 0))
     else if negb (write_ok c s2) then (s2, (true, 0))
     else if hs_block kind x isCtl r' then (hs_phaseB v c (c_cid r') s2, (false, 0))
     else (s2, (false, 0))).
Proof.
  unfold hs_rejected, write_ok, hs_block, hs_phaseB, hs_old. rewrite negb_involutive.
  destruct (negb ((kind =? 0) && (0 <? x)) && negb (kind =? 1)); [reflexivity|].
  destruct (mem c (closed s2) || mem c (wfail s2)); [reflexivity|].
  destruct ((kind =? 0) && (0 <? x) && isCtl && c_auth r' && (0 <? c_cid r')); [|reflexivity].
  destruct (get (c_cid r') (idx s2)) as [o|]; [destruct (o =? c)|]; reflexivity.
Qed.

Lemma handshake_seq_eq v k c kind x isCtl s : handshake v k c kind x isCtl s = handshake_seq v k c kind x isCtl s.
Proof.
  unfold handshake, handshake_seq, hs_phaseA.
  destruct (get c (reg s)) as [r0|] eqn:E0.
  - rewrite E0. exact (hs_tail_eq v c kind x isCtl (hs_mutated r0 kind x) _).
  - destruct (mem c (sess s)); [|reflexivity].
    destruct (get c (reg (bump (registry_register k c (new_ctl s 0) s)))) as [r|]; [|reflexivity].
    exact (hs_tail_eq v c kind x isCtl (hs_mutated r kind x) _).
Qed.

(* CloseConnection's four sections run back to back are the atomic close_conn *)
Lemma close_sections_eq c s : mem c (sess s) = true ->
  tunnel_remove c (registry_remove c (with_closed (with_sess s (rem c (sess s))) (add c (closed s)))) = close_conn c s.
Proof. intros H. unfold close_conn. rewrite H. reflexivity. Qed.

(* ---- the invariant with the "close in progress" ghost ---- *)
Definition RO (rg : amap ctl) (cl clg : list N) : Prop :=
  forall c r, get c rg = Some r -> mem c cl = false \/ mem c clg = true.

Record M (clg : list N) (s : st) : Prop := {
  m_nd_reg : NoDup (keys (reg s));
  m_nd_idx : NoDup (keys (idx s));
  m_core : OK1 (reg s) (idx s) [];
  m_ro : RO (reg s) (closed s) clg }.

Lemma RO_del rg cl clg c : RO rg cl clg -> RO (del c rg) cl clg.
Proof.
  intros H c' r Hg. destruct (N.eq_dec c' c) as [->|Hne]; [rewrite get_del_same in Hg; discriminate|].
  rewrite get_del_other in Hg by exact Hne. exact (H c' r Hg).
Qed.

Lemma RO_del_close rg cl clg c : RO rg cl clg -> RO (del c rg) (add c cl) clg.
Proof.
  intros H c' r Hg. destruct (N.eq_dec c' c) as [->|Hne]; [rewrite get_del_same in Hg; discriminate|].
  rewrite get_del_other in Hg by exact Hne. rewrite mem_add_other by exact Hne. exact (H c' r Hg).
Qed.

Lemma RO_del_close2 rg cl cl' clg c : RO rg cl clg -> (forall c', c' <> c -> mem c' cl' = mem c' cl) -> RO (del c rg) cl' clg.
Proof.
  intros H Hcl c' r Hg. destruct (N.eq_dec c' c) as [->|Hne]; [rewrite get_del_same in Hg; discriminate|].
  rewrite get_del_other in Hg by exact Hne. rewrite (Hcl c' Hne). exact (H c' r Hg).
Qed.

Lemma RO_close_unregistered rg cl clg c : RO rg cl clg -> get c rg = None -> RO rg (add c cl) clg.
Proof.
  intros H Hn c' r Hg. assert (Hne : c' <> c) by (intros ->; congruence).
  rewrite mem_add_other by exact Hne. exact (H c' r Hg).
Qed.

Lemma RO_set_existing rg cl clg c r0 r : RO rg cl clg -> get c rg = Some r0 -> RO (set c r rg) cl clg.
Proof.
  intros H H0 c' r' Hg. destruct (N.eq_dec c' c) as [->|Hne]; [exact (H c r0 H0)|].
  rewrite get_set_other in Hg by exact Hne. exact (H c' r' Hg).
Qed.

Lemma RO_set_open rg cl clg c r : RO rg cl clg -> mem c cl = false -> RO (set c r rg) cl clg.
Proof.
  intros H H0 c' r' Hg. destruct (N.eq_dec c' c) as [->|Hne]; [left; exact H0|].
  rewrite get_set_other in Hg by exact Hne. exact (H c' r' Hg).
Qed.

Lemma mem_nil_other (c c' : N) : c' <> c -> mem c' [] = mem c' [].
Proof. reflexivity. Qed.

Lemma M_remove_locked clg c r s : M clg s -> get c (reg s) = Some r -> M clg (remove_locked c r s).
Proof.
  intros [H1 H2 H3 H4] Hr. unfold remove_locked, with_reg, with_idx, with_closed. split; proj.
  - apply nodup_del. exact H1.
  - apply nodup_unindex. exact H2.
  - apply (OK1_remove _ _ []); [exact H3|exact Hr|]. intros; reflexivity.
  - apply RO_del_close. exact H4.
Qed.

Lemma M_registry_remove clg c s : M clg s -> M clg (registry_remove c s).
Proof. intros H. unfold registry_remove. destruct (get c (reg s)) eqn:E; [apply M_remove_locked; assumption|exact H]. Qed.

Lemma M_unregister clg c s : M clg s -> M clg (registry_unregister c s).
Proof.
  intros [H1 H2 H3 H4]. unfold registry_unregister. destruct (get c (reg s)) as [r|] eqn:E; [|split; assumption].
  unfold with_reg, with_idx. split; proj.
  - apply nodup_del. exact H1.
  - apply nodup_unindex. exact H2.
  - apply (OK1_remove _ _ []); [exact H3|exact E|]. intros; reflexivity.
  - apply RO_del. exact H4.
Qed.

Lemma M_register clg k c r s : M clg s -> get c (reg s) = None -> mem c (closed s) = false -> M clg (registry_register k c r s).
Proof.
  intros Hm Hnone Hopen. unfold registry_register.
  assert (Hs1 : forall s1, M clg s1 -> get c (reg s1) = None -> mem c (closed s1) = false ->
                  M clg (let s2 := match get c (reg s1) with Some r' => remove_locked c r' s1 | None => s1 end in
                         let s3 := with_reg s2 (set c r (reg s2)) in
                         if c_auth r && (0 <? c_cid r) then with_idx s3 (set (c_cid r) c (idx s3)) else s3)).
  { intros s1 [H1 H2 H3 H4] Hn Ho. rewrite Hn. cbn zeta.
    assert (Hno : forall x, get x (idx s1) <> Some c) by (apply (OK1_not_registered _ _ _ _ H3 Hn)).
    assert (H3' : OK1 (set c r (reg s1)) (idx s1) []) by (apply OK1_set_unindexed; assumption).
    assert (H4' : RO (set c r (reg s1)) (closed s1) clg) by (apply RO_set_open; assumption).
    destruct (c_auth r && (0 <? c_cid r)) eqn:Ea; unfold with_reg, with_idx; split; proj;
      try (apply nodup_set; assumption); try assumption.
    apply andb_true_iff in Ea. destruct Ea as [Ea1 Ea2]. apply N.ltb_lt in Ea2.
    apply (OK1_index_set _ _ _ c r); [exact H3'|apply get_set_same|exact Ea1|reflexivity|exact Ea2|reflexivity]. }
  destruct ((0 <? maxCtl k) && (maxCtl k <=? size (reg s))).
  - destruct (find_oldest (reg s)) as [[o ro]|] eqn:Eo; [|exact Hm].
    assert (Hget : get o (reg s) = Some ro).
    { apply in_get_some; [apply (m_nd_reg _ _ Hm)|apply find_oldest_in; exact Eo]. }
    assert (Hne : c <> o) by (intros ->; rewrite Hnone in Hget; discriminate).
    apply Hs1.
    + apply M_remove_locked; assumption.
    + rewrite reg_remove_locked. rewrite get_del_other by exact Hne. exact Hnone.
    + rewrite closed_remove_locked. rewrite mem_add_other by exact Hne. exact Hopen.
  - apply Hs1; assumption.
Qed.

Lemma M_rereg clg k c r s : M clg s -> mem c (closed s) = false -> M clg (registry_rereg Current k c r s).
Proof.
  intros Hm Hopen. unfold registry_rereg. cbn [keeps_shared].
  destruct (get c (reg s)) eqn:E.
  - apply M_register; [apply M_unregister; exact Hm|rewrite reg_unregister; apply get_del_same|].
    rewrite closed_unregister. exact Hopen.
  - apply M_register; assumption.
Qed.

Lemma M_update_auth_core clg c x s : M clg s -> 0 < x -> M clg (update_auth_core Current c x s).
Proof.
  intros [H1 H2 H3 H4] Hx. unfold update_auth_core. destruct (get c (reg s)) as [r|] eqn:E; [|split; assumption].
  cbn [reconciles]. unfold with_reg, with_idx. split; proj.
  - apply nodup_set. exact H1.
  - apply nodup_set. unfold drop_stale. apply nodup_filter. exact H2.
  - eapply OK1_index_set; [apply OK1_mutate_reconcile; eassumption|apply get_set_same|reflexivity|reflexivity|exact Hx|reflexivity].
  - apply (RO_set_existing _ _ _ c r); assumption.
Qed.

Lemma M_update_auth clg c x s : M clg s -> 0 < x -> M clg (update_auth Current c x s).
Proof.
  intros Hm Hx. unfold update_auth. destruct (get c (reg s)); [|exact Hm]. cbn [evicts].
  apply M_update_auth_core; [|exact Hx]. unfold evict_holder. destruct (get x (idx s)) as [o|]; [|exact Hm].
  destruct (o =? c); [exact Hm|]. apply M_registry_remove. exact Hm.
Qed.

Lemma M_tunnel_remove clg c s : M clg s -> M clg (tunnel_remove c s).
Proof. intros [H1 H2 H3 H4]. unfold tunnel_remove. destruct (get c (tun s)); split; assumption. Qed.

Lemma M_kick clg x newc s : M clg s -> M clg (kick x newc s).
Proof.
  intros Hm. unfold kick. destruct (get x (idx s)) as [o|] eqn:E; [|exact Hm].
  destruct (o =? newc); [exact Hm|].
  destruct Hm as [H1 H2 H3 H4]. destruct (H3 x o E) as [r [Hr _]]. rewrite Hr.
  unfold with_closed, with_reg, with_idx. split; proj.
  - apply nodup_del. exact H1.
  - apply nodup_unindex. exact H2.
  - apply (OK1_remove _ _ []); [exact H3|exact Hr|]. intros; reflexivity.
  - apply RO_del_close. exact H4.
Qed.

Lemma M_close_conn clg c s : M clg s -> M clg (close_conn c s).
Proof.
  intros Hm. unfold close_conn. apply M_tunnel_remove.
  destruct (mem c (sess s)) eqn:Es; [|apply M_registry_remove; exact Hm].
  destruct Hm as [H1 H2 H3 H4].
  unfold registry_remove, with_closed, with_sess. proj.
  destruct (get c (reg s)) as [r|] eqn:E.
  - unfold remove_locked, with_reg, with_idx, with_closed. split; proj.
    + apply nodup_del. exact H1.
    + apply nodup_unindex. exact H2.
    + apply (OK1_remove _ _ []); [exact H3|exact E|]. intros; reflexivity.
    + apply (RO_del_close2 _ (closed s)); [exact H4|]. intros c' Hne.
      rewrite mem_add_other by exact Hne. apply mem_add_other. exact Hne.
  - split; proj; [exact H1|exact H2|exact H3|]. apply RO_close_unregistered; assumption.
Qed.

Lemma M_sweep_one clg s c r : M clg s -> get c (reg s) = Some r -> M clg (sweep_one s (c, r)).
Proof.
  intros [H1 H2 H3 H4] Hr. unfold sweep_one.
  set (s1 := with_reg (with_idx s (unindex c r (idx s))) (del c (reg s))).
  assert (Hs1 : M clg s1).
  { unfold s1, with_reg, with_idx. split; proj.
    - apply nodup_del. exact H1.
    - apply nodup_unindex. exact H2.
    - apply (OK1_remove _ _ []); [exact H3|exact Hr|]. intros; reflexivity.
    - apply RO_del. exact H4. }
  pose proof (M_close_conn clg c s1 Hs1) as [G1 G2 G3 G4].
  unfold with_closed. split; proj; [exact G1|exact G2|exact G3|].
  apply RO_close_unregistered; [exact G4|]. rewrite reg_close_conn. apply get_del_same.
Qed.

Lemma M_sweep_fold clg l : forall s, M clg s -> NoDup (map fst l) ->
  (forall e, In e l -> get (fst e) (reg s) = Some (snd e)) -> M clg (fold_left sweep_one l s).
Proof.
  induction l as [|[c r] t IH]; cbn [fold_left]; intros s Hm Hnd Hin; [exact Hm|].
  inversion Hnd as [|? ? Hni Hnd']; subst.
  apply IH.
  - apply M_sweep_one; [exact Hm|]. apply (Hin (c, r)). left. reflexivity.
  - exact Hnd'.
  - intros e He. rewrite reg_sweep_one.
    assert (Hne : fst e <> c).
    { intros Heq. apply Hni. cbn [fst]. rewrite <- Heq. apply in_map. exact He. }
    rewrite !get_del_other by exact Hne. apply Hin. right. exact He.
Qed.

Lemma M_sweep clg k s : M clg s -> M clg (fst (sweep k s)).
Proof.
  intros Hm. unfold sweep. cbn [fst]. apply M_sweep_fold; [exact Hm| |].
  - unfold stale_entries. apply (nodup_filter _ (reg s)). apply (m_nd_reg _ _ Hm).
  - intros [c r] He. unfold stale_entries in He. apply filter_In in He. destruct He as [He _].
    cbn [fst snd]. apply in_get_some; [apply (m_nd_reg _ _ Hm)|exact He].
Qed.

Lemma M_bump clg s : M clg s -> M clg (bump s).
Proof. intros [H1 H2 H3 H4]. split; assumption. Qed.

(* section A of handleHandshake, for a packet dispatched on a transport the server has not closed *)
Lemma M_phaseA clg k c kind x s : M clg s -> mem c (closed s) = false -> M clg (fst (hs_phaseA Current k c kind x s)).
Proof.
  intros Hm Hopen. unfold hs_phaseA.
  set (found := match get c (reg s) with
                | Some _ => Some s
                | None => if mem c (sess s) then Some (bump (registry_register k c (new_ctl s 0) s)) else None
                end).
  assert (Hf : match found with Some s1 => M clg s1 | None => True end).
  { unfold found. destruct (get c (reg s)) eqn:E; [exact Hm|]. destruct (mem c (sess s)); [|exact I].
    apply M_bump. apply M_register; assumption. }
  destruct found as [s1|]; [|exact Hm].
  destruct (get c (reg s1)) as [r|] eqn:Er; [|exact Hf]. cbn [fst].
  destruct Hf as [H1 H2 H3 H4]. unfold reconcile. cbn [reconciles]. unfold with_reg at 1. proj.
  rewrite get_set_same. unfold with_idx, with_reg. split; proj.
  - apply nodup_set. exact H1.
  - unfold drop_stale. apply nodup_filter. exact H2.
  - apply OK1_mutate_reconcile; assumption.
  - apply (RO_set_existing _ _ _ c r); assumption.
Qed.

Definition atomic_op (o : op) : Prop := match o with Handshake _ _ _ _ | CloseConn _ => False | _ => True end.

Lemma M_step_atomic clg k s o : atomic_op o -> M clg s -> M clg (fst (step Current k s o)).
Proof.
  intros Ha Hm. destruct o as [c|c kind x isCtl|c|c|c|c|x newc| |d|c pre|c x|c t|c|c pre|c x0]; cbn [step]; try contradiction.
  - destruct ((0 <? maxConn k) && (maxConn k <=? N.of_nat (length (sess s)))); [exact Hm|].
    destruct (mem c (streams s)); [exact Hm|]. destruct Hm as [H1 H2 H3 H4]. split; assumption.
  - destruct (get c (reg s)) as [r|] eqn:E; [|exact Hm]. cbn [fst].
    destruct Hm as [H1 H2 H3 H4]. unfold with_reg. split; proj.
    + apply nodup_set. exact H1.
    + exact H2.
    + apply (OK1_touch _ _ _ c r); [exact H3|exact E|reflexivity|reflexivity].
    + apply (RO_set_existing _ _ _ c r); assumption.
  - apply M_registry_remove. exact Hm.
  - apply M_unregister. exact Hm.
  - apply M_kick. exact Hm.
  - apply M_sweep. exact Hm.
  - destruct Hm as [H1 H2 H3 H4]. split; assumption.
  - destruct (mem c (sess s) && negb (mem c (closed s)) && match get c (reg s) with None => true | Some _ => false end) eqn:Eg; [|exact Hm].
    cbn [fst]. apply andb_true_iff in Eg. destruct Eg as [Eg Eg3]. apply andb_true_iff in Eg. destruct Eg as [_ Eg2].
    apply negb_true_iff in Eg2. apply M_bump. apply M_register; [exact Hm| |exact Eg2].
    destruct (get c (reg s)); [discriminate|reflexivity].
  - destruct ((0 <? x) && negb (mem c (closed s))) eqn:Eg; [|exact Hm].
    cbn [fst]. apply andb_true_iff in Eg. destruct Eg as [Eg1 _]. apply N.ltb_lt in Eg1. apply M_update_auth; assumption.
  - destruct (mem c (sess s)); [|exact Hm]. cbn [fst].
    pose proof (M_unregister clg c s Hm) as [H1 H2 H3 H4]. split; assumption.
  - destruct (mem c (streams s)); [|exact Hm]. destruct Hm as [H1 H2 H3 H4]. split; assumption.
  - destruct (mem c (sess s) && negb (mem c (closed s))) eqn:Eg; [|exact Hm].
    cbn [fst]. apply andb_true_iff in Eg. destruct Eg as [_ Eg2]. apply negb_true_iff in Eg2.
    apply M_bump. apply M_rereg; assumption.
  - destruct (mem c (sess s) && negb (mem c (closed s))) eqn:Eg; [|exact Hm].
    cbn [fst]. apply andb_true_iff in Eg. destruct Eg as [_ Eg2]. apply negb_true_iff in Eg2.
    apply M_bump. apply M_rereg; assumption.
Qed.

(* ---- every section preserves the invariant, from any state, with any continuation ---- *)
Definition MG (sh : gst) : Prop := M (closing sh) (g sh).

Lemma MG_init : MG ginit.
Proof.
  unfold MG, ginit. cbn [g closing]. split.
  - constructor.
  - constructor.
  - intros x c H. discriminate.
  - intros c r H. discriminate.
Qed.

Theorem MG_mstep k l sh : MG sh -> MG (snd (mstep k l sh)).
Proof.
  intros Hm. unfold MG in *. destruct l as [[ct|] prog]; unfold mstep; cbn [fst snd].
  - destruct ct as [c r' kind x isCtl|c X|c X o|c X|c|c|c].
    + destruct (hs_rejected kind x || negb (write_ok c (g sh)) || negb (hs_block kind x isCtl r')); exact Hm.
    + destruct (hs_old c X (g sh)); exact Hm.
    + cbn [snd g closing]. apply M_registry_remove. exact Hm.
    + cbn [snd g closing]. destruct (0 <? X) eqn:Ex; [|exact Hm]. apply N.ltb_lt in Ex. apply M_update_auth; assumption.
    + cbn [snd g closing]. destruct Hm as [H1 H2 H3 H4]. unfold with_closed. split; proj; [exact H1|exact H2|exact H3|].
      intros c' r Hg. destruct (N.eq_dec c' c) as [->|Hne]; [right; apply mem_add_same|].
      rewrite mem_add_other by exact Hne. destruct (H4 c' r Hg) as [H|H]; [left; exact H|right; apply mem_add_mono; exact H].
    + cbn [snd g closing]. pose proof (M_registry_remove _ c _ Hm) as [H1 H2 H3 H4]. split; [exact H1|exact H2|exact H3|].
      intros c' r Hg. assert (Hne : c' <> c).
      { intros ->. rewrite reg_registry_remove, get_del_same in Hg. discriminate. }
      rewrite mem_rem_other by exact Hne. exact (H4 c' r Hg).
    + cbn [snd g closing]. apply M_tunnel_remove. exact Hm.
  - destruct prog as [|o t]; [exact Hm|].
    destruct o as [c|c kind x isCtl|c|c|c|c|x newc| |d|c pre|c x|c t0|c|c pre|c x0];
      try (cbn [snd g closing]; apply M_step_atomic; [exact I|exact Hm]).
    + destruct (mem c (closed (g sh))) eqn:Ec; [exact Hm|].
      pose proof (M_phaseA (closing sh) k c kind x (g sh) Hm Ec) as Ha.
      destruct (hs_phaseA Current k c kind x (g sh)) as [s2 [r'|]]; exact Ha.
    + destruct (mem c (sess (g sh))); [|exact Hm]. cbn [snd g closing].
      destruct Hm as [H1 H2 H3 H4]. split; assumption.
Qed.

Theorem MG_all_interleavings k (progs : list (list op)) (sched : list nat) :
  MG (fst (Threads.run gst lo (fun l sh => mstep k l sh) (ginit, map (fun p => (None, p)) progs) sched)).
Proof.
  apply (inv_all_schedules gst lo (fun l sh => mstep k l sh) (fun s => MG (fst s))); [|exact MG_init].
  intros s i Hs. unfold sys_step. destruct (nth_error (snd s) i) as [l|]; [|exact Hs].
  pose proof (MG_mstep k l (fst s) Hs) as H. destruct (mstep k l (fst s)) as [l' sh']. exact H.
Qed.

(* what a lookup can return in ANY state of ANY interleaving: a registered, authenticated connection of that client whose
   transport is open, or one whose CloseConnection is under way (transport closed, registry section not yet run) *)
Theorem MG_lookup sh x c : MG sh -> by_client (g sh) x = Some c ->
  exists r, by_conn (g sh) c = Some r /\ c_auth r = true /\ c_cid r = x /\ 0 < x /\
            (mem c (closed (g sh)) = false \/ mem c (closing sh) = true).
Proof.
  intros [H1 H2 H3 H4] Hx. destruct (H3 x c Hx) as [r [Hr [Ha [Hc [Hp _]]]]].
  exists r. repeat split; try assumption. exact (H4 c r Hr).
Qed.

(* the registry section of CloseConnection ends the window: afterwards c is not registered, not indexed, and unmarked *)
Lemma MG_after_C2 c sh : MG sh ->
  let sh' := {| g := registry_remove c (g sh); closing := rem c (closing sh) |} in
  by_conn (g sh') c = None /\ (forall x, by_client (g sh') x <> Some c) /\ mem c (closing sh') = false.
Proof.
  intros Hm sh'. pose proof (M_registry_remove _ c _ Hm) as [_ _ G3 _].
  assert (Hn : by_conn (g sh') c = None) by (unfold by_conn; cbn [g sh']; rewrite reg_registry_remove; apply get_del_same).
  split; [exact Hn|]. split; [exact (OK1_not_registered _ _ _ _ G3 Hn)|apply mem_rem_same].
Qed.

Theorem MG_lookup_all k progs sched x c :
  let sh := fst (Threads.run gst lo (fun l sh => mstep k l sh) (ginit, map (fun p => (None, p)) progs) sched) in
  by_client (g sh) x = Some c ->
  exists r, by_conn (g sh) c = Some r /\ c_auth r = true /\ c_cid r = x /\ 0 < x /\
            (mem c (closed (g sh)) = false \/ mem c (closing sh) = true).
Proof. intros sh. apply MG_lookup. apply MG_all_interleavings. Qed.

(* why section B3 must do nothing when the connection is no longer registered: the variant that re-registers it
   (`RegisterControlConnection(conn)` on "connection not found") puts a closed connection back once CloseConnection
   has completed between the response write and B3 *)
Definition b3_reregister (k : cfg) (c X : N) (r' : ctl) (s : st) : st :=
  match get c (reg s) with
  | Some _ => update_auth Current c X s
  | None => registry_register k c r' s
  end.

Lemma reregister_variant_refuted :
  exists (k : cfg) (c X : N),
    match hs_phaseA Current k c 0 X (fst (step Current k init (Accept c))) with
    | (s, Some r') =>
        write_ok c s = true /\
        let s' := b3_reregister k c X r' (close_conn c s) in
        by_client s' X = Some c /\ mem c (closed s') = true /\ mem c (sess s') = false
    | (_, None) => False
    end.
Proof.
  exists {| maxConn := 0; maxCtl := 0; hbTimeout := 2 |}, 1, 7. vm_compute. repeat split.
Qed.

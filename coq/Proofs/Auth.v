(* Proofs/Auth.v — lemmas about Model/Auth.v (C03). *)
From Coq Require Import List NArith Bool Lia.
From Coq Require Import ZArith ZifyN ZifyNat ZifyBool.
From TX Require Import Model.Auth.
Import ListNotations.
Open Scope N_scope.

Lemma upd_same {A} (f : N -> A) k v : upd f k v k = v.
Proof. unfold upd. rewrite N.eqb_refl. reflexivity. Qed.
Lemma upd_other {A} (f : N -> A) k v x : x <> k -> upd f k v x = f x.
Proof. intro Hn. unfold upd. destruct (N.eqb_spec x k) as [He|_]; [contradiction|reflexivity]. Qed.

Section Proofs.
Variable hmac : N -> N -> N.
Variables mf pb : N.

Notation auth := (auth hmac mf pb).
Notation handle := (handle hmac mf pb).
Notation step := (step hmac mf pb).
Notation run := (run hmac mf pb).
Notation record_failure := (record_failure mf pb).

(* ------------------------------------------------------------------------------------------ *)
(* the auth handler                                                                            *)
(* ------------------------------------------------------------------------------------------ *)

Lemma ban_req_frame mono perm s a : conns (ban_req mono perm s a) = conns s /\ index (ban_req mono perm s a) = index s /\
  clients (ban_req mono perm s a) = clients s /\ next_id (ban_req mono perm s a) = next_id s /\
  next_nonce (ban_req mono perm s a) = next_nonce s /\ fails (ban_req mono perm s a) = fails s /\
  black (ban_req mono perm s a) = black s /\ white (ban_req mono perm s a) = white s /\
  rl_deny (ban_req mono perm s a) = rl_deny s /\ next_secret (ban_req mono perm s a) = next_secret s.
Proof.
  unfold ban_req. destruct perm; [cbn; repeat split; reflexivity|].
  destruct (mono && banned s a && permb s a); cbn; repeat split; reflexivity.
Qed.

Lemma rf_frame mono s a : conns (record_failure mono s a) = conns s /\ index (record_failure mono s a) = index s /\
  clients (record_failure mono s a) = clients s /\ next_id (record_failure mono s a) = next_id s /\
  next_nonce (record_failure mono s a) = next_nonce s.
Proof.
  unfold Auth.record_failure.
  destruct (pb <=? fails s a + 1); [|destruct (mf <=? fails s a + 1)];
    try (match goal with |- context [ban_req ?m ?p ?t ?x] => destruct (ban_req_frame m p t x) as (H1 & H2 & H3 & H4 & H5 & _) end;
         rewrite H1, H2, H3, H4, H5); cbn; repeat split; reflexivity.
Qed.

Lemma gate_fail_false s a m : gate_fail true s a m = false ->
  blocked s a = false /\ banned s a = false /\ (h_cid m = 0 -> rl_deny s = false).
Proof.
  unfold gate_fail. cbn [andb]. intro H. apply orb_false_iff in H as [H H3]. apply orb_false_iff in H as [H1 H2].
  split; [exact H1|]. split; [exact H2|]. intro E. rewrite E in H3. exact H3.
Qed.

(* what a handler call can do to the server state and to the ControlConnection *)
Inductive auth_result (chk : bool) (v : variant) (s : srv) (c : cc) (a : N) (m : hs) : srv -> cc -> aresp -> Prop :=
| AR_gated : gate_fail chk s a m = true ->
    auth_result chk v s c a m s c AFail
| AR_new : gate_fail chk s a m = false -> h_cid m = 0 -> h_new m = true ->
    auth_result chk v s c a m (first_state (v_first_keeps v) s a)
      {| authed := true; ccid := next_id s; pending := pending c |} (ASuccessNew (next_id s))
| AR_unknown : gate_fail chk s a m = false -> clients s (h_cid m) = None ->
    auth_result chk v s c a m (record_failure (v_ban_monotone v) s a) c AFail
| AR_expired : forall cl, gate_fail chk s a m = false -> clients s (h_cid m) = Some cl -> expired cl = true ->
    auth_result chk v s c a m s c AFail
| AR_phase1 : forall cl, gate_fail chk s a m = false -> clients s (h_cid m) = Some cl -> expired cl = false ->
    h_resp m = None -> stored cl <> CEmpty ->
    auth_result chk v s c a m (bump_nonce s) {| authed := authed c; ccid := ccid c; pending := Some (next_nonce s) |}
      (AChallenge (next_nonce s))
| AR_nochal : forall cl r, gate_fail chk s a m = false -> clients s (h_cid m) = Some cl -> expired cl = false ->
    h_resp m = Some r -> pending c = None ->
    auth_result chk v s c a m (record_failure (v_ban_monotone v) s a) c AFail
| AR_ok : forall cl sec ch, gate_fail chk s a m = false -> clients s (h_cid m) = Some cl -> expired cl = false ->
    stored cl = CKey sec -> h_resp m = Some (hmac sec ch) -> pending c = Some ch ->
    auth_result chk v s c a m (clear_fails s a) {| authed := true; ccid := h_cid m; pending := None |} ASuccess
| AR_bad : forall cl ch r, gate_fail chk s a m = false -> clients s (h_cid m) = Some cl -> expired cl = false ->
    h_resp m = Some r -> pending c = Some ch -> (forall sec, stored cl = CKey sec -> r <> hmac sec ch) ->
    auth_result chk v s c a m (record_failure (v_ban_monotone v) s a) {| authed := authed c; ccid := ccid c; pending := None |} AFail
| AR_noconf : forall cl, gate_fail chk s a m = false -> clients s (h_cid m) = Some cl -> expired cl = false ->
    h_resp m = None -> stored cl = CEmpty ->
    auth_result chk v s c a m s c AFail.

Lemma auth_cases chk v s c a m : let '(s1, c1, ar) := auth chk v s c a m in auth_result chk v s c a m s1 c1 ar.
Proof.
  unfold Auth.auth.
  destruct (gate_fail chk s a m) eqn:Hg; [apply AR_gated; exact Hg|].
  destruct ((h_cid m =? 0) && h_new m) eqn:Hfc.
  { apply andb_prop in Hfc as [H0 Hnew]. apply N.eqb_eq in H0. apply AR_new; assumption. }
  destruct (clients s (h_cid m)) as [cl|] eqn:Hc; [|apply AR_unknown; auto].
  destruct (expired cl) eqn:He; [eapply AR_expired; eauto|].
  destruct (h_resp m) as [r|] eqn:Hr'.
  2:{ destruct (stored cl) eqn:Hst; [eapply AR_phase1; eauto; congruence|eapply AR_noconf; eauto|eapply AR_phase1; eauto; congruence]. }
  destruct (pending c) as [ch|] eqn:Hp; [|eapply AR_nochal; eauto].
  destruct (stored cl) as [sec| |] eqn:Hst; cbn [secret_of].
  + destruct (N.eqb_spec r (hmac sec ch)) as [->|Hne]; [eapply AR_ok; eauto|eapply AR_bad; eauto].
    intros sec' E. rewrite Hst in E. injection E as <-. exact Hne.
  + eapply AR_bad; eauto. intros sec' E. rewrite Hst in E. discriminate.
  + eapply AR_bad; eauto. intros sec' E. rewrite Hst in E. discriminate.
Qed.

Lemma auth_result_frame chk v s c a m s1 c1 ar : auth_result chk v s c a m s1 c1 ar ->
  conns s1 = conns s /\ index s1 = index s.
Proof.
  intro H; destruct H; cbn; try (split; reflexivity);
    try (unfold first_state; destruct (v_first_keeps v); split; reflexivity);
    destruct (rf_frame (v_ban_monotone v) s a) as (Hc & Hi & _); split; assumption.
Qed.

Lemma auth_result_nonsuccess chk v s c a m s1 c1 ar : auth_result chk v s c a m s1 c1 ar -> is_success ar = false ->
  authed c1 = authed c /\ ccid c1 = ccid c /\ clients s1 = clients s /\ next_id s1 = next_id s.
Proof.
  intros H Hs; destruct H; cbn in *; try discriminate; repeat split; try reflexivity;
    destruct (rf_frame (v_ban_monotone v) s a) as (_ & _ & Hcl & Hn & _); assumption.
Qed.

(* ------------------------------------------------------------------------------------------ *)
(* well-formed states                                                                          *)
(* ------------------------------------------------------------------------------------------ *)

Definition idx_inv (s : srv) : Prop := forall x j, index s x = Some j -> authed_as s j x /\ 0 < x.
Definition fresh (s : srv) : Prop := forall x, next_id s <= x -> clients s x = None.
Definition wf (s : srv) : Prop := fresh s /\ idx_inv s.

Lemma authed_as_fun s k x y : authed_as s k x -> authed_as s k y -> x = y.
Proof.
  intros (cn & c & H1 & H2 & _ & H4) (cn' & c' & H1' & H2' & _ & H4').
  rewrite H1 in H1'. injection H1' as <-. rewrite H2 in H2'. injection H2' as <-. congruence.
Qed.

Lemma authed_as_ext s s' k x : conns s' k = conns s k -> authed_as s k x -> authed_as s' k x.
Proof. intros He (cn & c & H1 & H). exists cn, c. rewrite He. auto. Qed.

(* ClientRegistry.Remove *)
Lemma evict_conns_other s k k' : k' <> k -> conns (evict s k) k' = conns s k'.
Proof.
  intro Hn. unfold evict. destruct (conns s k) as [cn|]; [|reflexivity].
  destruct (c_cc cn) as [c|]; [|reflexivity]. cbn. apply upd_other. assumption.
Qed.

Lemma evict_conns_self s k : conns (evict s k) k = match conns s k with
  | Some cn => match c_cc cn with Some _ => Some {| c_open := false; c_addr := c_addr cn; c_cc := None |} | None => Some cn end
  | None => None end.
Proof.
  unfold evict. destruct (conns s k) as [cn|] eqn:Hc; [|assumption].
  destruct (c_cc cn) as [c|]; [|assumption]. cbn. apply upd_same.
Qed.

Lemma evict_authed s k k' x : authed_as (evict s k) k' x -> authed_as s k' x /\ k' <> k.
Proof.
  intros (cn & c & H1 & H2 & H3 & H4).
  destruct (N.eq_dec k' k) as [->|Hn].
  - rewrite evict_conns_self in H1. destruct (conns s k) as [cn0|]; [|discriminate].
    destruct (c_cc cn0) eqn:Hcc; injection H1 as <-; cbn in H2; congruence.
  - split; [|assumption]. rewrite evict_conns_other in H1 by assumption. exists cn, c. auto.
Qed.

Lemma evict_index_sub s k x j : index (evict s k) x = Some j -> index s x = Some j.
Proof.
  unfold evict. destruct (conns s k) as [cn|]; [|auto]. destruct (c_cc cn) as [c|]; [|auto]. cbn.
  destruct (authed c && (0 <? ccid c)); [|auto].
  destruct (index s (ccid c)) as [j'|] eqn:Hi; [|auto].
  destruct (j' =? k); [|auto].
  unfold upd. destruct (x =? ccid c); [discriminate|auto].
Qed.

Lemma evict_idx_inv s k : idx_inv s -> idx_inv (evict s k).
Proof.
  intros Hinv x j Hx. pose proof (evict_index_sub _ _ _ _ Hx) as Hs.
  destruct (Hinv _ _ Hs) as [Ha Hpos]. split; [|assumption].
  destruct (N.eq_dec j k) as [->|Hn].
  - exfalso. destruct Ha as (cn & c & H1 & H2 & H3 & H4).
    revert Hx. unfold evict. rewrite H1, H2. cbn. rewrite H3, H4.
    assert (Hlt : (0 <? x) = true) by (apply N.ltb_lt; assumption). rewrite Hlt. cbn.
    rewrite Hs. rewrite N.eqb_refl. rewrite upd_same. discriminate.
  - eapply authed_as_ext; [|exact Ha]. apply evict_conns_other. assumption.
Qed.

Lemma evict_frame s k : clients (evict s k) = clients s /\ next_id (evict s k) = next_id s.
Proof.
  unfold evict. destruct (conns s k) as [cn|]; [|auto]. destruct (c_cc cn) as [c|]; [|auto]. cbn. auto.
Qed.

(* ------------------------------------------------------------------------------------------ *)
(* the session layer: the two shapes of the state after handleHandshake                        *)
(* ------------------------------------------------------------------------------------------ *)

(* after HandleHandshake + ReconcileIndex *)
Definition post_auth (s1 : srv) (k : N) (cn : conn) (c1 : cc) : srv :=
  let s2 := set_conns s1 (upd (conns s1) k (Some {| c_open := c_open cn; c_addr := c_addr cn; c_cc := Some c1 |})) in
  set_index s2 (reconcile (index s2) k c1).
(* after the registry update block *)
Definition install (s3 : srv) (k : N) (cn : conn) (c1 : cc) : srv :=
  let s4 := match index s3 (ccid c1) with
            | Some k' => if k' =? k then s3 else evict s3 k'
            | None => s3
            end in
  let c2 := {| authed := true; ccid := ccid c1; pending := pending c1 |} in
  let s5 := set_conns s4 (upd (conns s4) k (Some {| c_open := c_open cn; c_addr := c_addr cn; c_cc := Some c2 |})) in
  set_index s5 (upd (reconcile (index s5) k c2) (ccid c2) (Some k)).

Definition install_cond (v : variant) (h : hs) (c1 : cc) (ar : aresp) : bool :=
  negb (h_tunnel h) && authed c1 && (0 <? ccid c1) && (negb (v_success_gate v) || is_success ar).

Lemma handle_shape chk v s k h cn :
  conns s k = Some cn ->
  let c0 := match c_cc cn with Some c => c | None => new_cc end in
  forall s1 c1 ar, auth chk v s c0 (c_addr cn) h = (s1, c1, ar) ->
  let s3 := post_auth s1 k cn c1 in
  fst (handle chk v s k (Some h)) = s3 \/
  (fst (handle chk v s k (Some h)) = install s3 k cn c1 /\ install_cond v h c1 ar = true /\ c_open cn = true /\ ar <> AFail).
Proof.
  intros Hc c0 s1 c1 ar Ha s3. unfold Auth.handle. rewrite Hc. fold c0. rewrite Ha.
  fold (post_auth s1 k cn c1). fold s3. fold (install_cond v h c1 ar).
  destruct ar as [id| |n|]; cbn [fst]; [| | |left; reflexivity];
    (destruct (negb (c_open cn)) eqn:Ho; [left; reflexivity|apply negb_false_iff in Ho]);
    match goal with |- context [install_cond ?a ?b ?c ?d] => destruct (install_cond a b c d) eqn:Hi end; cbn [fst];
    [right; (split; [reflexivity|]); (split; [reflexivity|]); (split; [exact Ho|discriminate]) | left; reflexivity
    |right; (split; [reflexivity|]); (split; [reflexivity|]); (split; [exact Ho|discriminate]) | left; reflexivity
    |right; (split; [reflexivity|]); (split; [reflexivity|]); (split; [exact Ho|discriminate]) | left; reflexivity].
Qed.

Lemma post_auth_conns s1 k cn c1 k' :
  conns (post_auth s1 k cn c1) k' =
  if k' =? k then Some {| c_open := c_open cn; c_addr := c_addr cn; c_cc := Some c1 |} else conns s1 k'.
Proof. reflexivity. Qed.

Lemma post_auth_index s1 k cn c1 x : index (post_auth s1 k cn c1) x = reconcile (index s1) k c1 x.
Proof. reflexivity. Qed.

Lemma post_auth_authed_other s1 k cn c1 k' x : k' <> k ->
  (authed_as (post_auth s1 k cn c1) k' x <-> authed_as s1 k' x).
Proof.
  intro Hn. split; apply authed_as_ext; rewrite post_auth_conns;
    destruct (N.eqb_spec k' k); try contradiction; reflexivity.
Qed.

Lemma post_auth_authed_self s1 k cn c1 x :
  authed_as (post_auth s1 k cn c1) k x <-> (authed c1 = true /\ ccid c1 = x).
Proof.
  split.
  - intros (cn' & c & H1 & H2 & H3 & H4). rewrite post_auth_conns, N.eqb_refl in H1.
    injection H1 as <-. cbn in H2. injection H2 as <-. auto.
  - intros [H3 H4]. eexists; eexists. rewrite post_auth_conns, N.eqb_refl. split; [reflexivity|]. cbn. auto.
Qed.

(* ReconcileIndex re-establishes the registry invariant whatever the handler did to the connection *)
Lemma post_auth_idx_inv s1 k cn c1 :
  (forall x j, index s1 x = Some j -> j <> k -> authed_as s1 j x /\ 0 < x) ->
  (forall x, index s1 x = Some k -> 0 < x) ->
  idx_inv (post_auth s1 k cn c1).
Proof.
  intros Hoth Hpos x j Hx. rewrite post_auth_index in Hx. unfold reconcile in Hx.
  destruct (index s1 x) as [j'|] eqn:Hi; [|discriminate].
  destruct (N.eqb_spec j' k) as [->|Hn]; cbn [andb] in Hx.
  - destruct (authed c1) eqn:Hau; cbn in Hx; [|discriminate].
    destruct (N.eqb_spec x (ccid c1)) as [->|Hne]; cbn in Hx; [|discriminate].
    injection Hx as <-. split; [|eapply Hpos; eauto]. apply post_auth_authed_self. auto.
  - injection Hx as <-. destruct (Hoth _ _ Hi Hn) as [Ha Hp]. split; [|assumption].
    apply post_auth_authed_other; assumption.
Qed.

Lemma install_idx_inv s3 k cn c1 :
  idx_inv s3 -> authed c1 = true -> 0 < ccid c1 ->
  conns s3 k = Some {| c_open := c_open cn; c_addr := c_addr cn; c_cc := Some c1 |} ->
  idx_inv (install s3 k cn c1).
Proof.
  intros Hinv Hau Hpos Hk.
  set (s4 := match index s3 (ccid c1) with Some k' => if k' =? k then s3 else evict s3 k' | None => s3 end).
  assert (H4 : idx_inv s4).
  { unfold s4. destruct (index s3 (ccid c1)) as [k'|]; [|assumption].
    destruct (k' =? k); [assumption|apply evict_idx_inv; assumption]. }
  assert (H4k : forall x j, index s4 x = Some j -> x <> ccid c1 -> j <> k).
  { intros x j Hx Hne ->. destruct (H4 _ _ Hx) as [Ha _].
    assert (Ha3 : authed_as s3 k x).
    { unfold s4 in Ha. destruct (index s3 (ccid c1)) as [k'|]; [|assumption].
      destruct (k' =? k); [assumption|]. apply evict_authed in Ha. tauto. }
    destruct Ha3 as (cn' & c & G1 & G2 & G3 & G4). rewrite Hk in G1. injection G1 as <-.
    cbn in G2. injection G2 as <-. congruence. }
  intros x j Hx. unfold install in Hx. fold s4 in Hx. cbn [index set_index ccid] in Hx.
  unfold upd at 1 in Hx. destruct (N.eqb_spec x (ccid c1)) as [->|Hne].
  - injection Hx as <-. split; [|assumption].
    eexists; eexists. unfold install. fold s4. cbn [conns set_conns set_index]. rewrite upd_same.
    split; [reflexivity|]. cbn. auto.
  - unfold reconcile in Hx. cbn [index set_conns] in Hx.
    destruct (index s4 x) as [j'|] eqn:Hi; [|discriminate].
    pose proof (H4k _ _ Hi Hne) as Hjk.
    destruct (N.eqb_spec j' k) as [->|_]; [contradiction|]. cbn in Hx. injection Hx as <-.
    destruct (H4 _ _ Hi) as [Ha Hp]. split; [|assumption].
    eapply authed_as_ext; [|exact Ha]. unfold install. fold s4. cbn [conns set_conns set_index].
    apply upd_other. assumption.
Qed.

Lemma install_authed s3 k cn c1 k' x :
  authed c1 = true ->
  conns s3 k = Some {| c_open := c_open cn; c_addr := c_addr cn; c_cc := Some c1 |} ->
  authed_as (install s3 k cn c1) k' x -> authed_as s3 k' x.
Proof.
  intros Hau Hk (cn' & c & H1 & H2 & H3 & H4).
  set (s4 := match index s3 (ccid c1) with Some k'' => if k'' =? k then s3 else evict s3 k'' | None => s3 end) in *.
  unfold install in H1. fold s4 in H1. cbn [conns set_conns set_index] in H1.
  destruct (N.eq_dec k' k) as [->|Hn].
  - rewrite upd_same in H1. injection H1 as <-. cbn in H2. injection H2 as <-. cbn in H4.
    eexists; eexists. split; [exact Hk|]. cbn. auto.
  - rewrite upd_other in H1 by assumption.
    assert (Ha4 : authed_as s4 k' x) by (exists cn', c; auto).
    unfold s4 in Ha4. destruct (index s3 (ccid c1)) as [k''|]; [|assumption].
    destruct (k'' =? k); [assumption|]. apply evict_authed in Ha4. tauto.
Qed.

(* ------------------------------------------------------------------------------------------ *)
(* preservation of well-formedness                                                             *)
(* ------------------------------------------------------------------------------------------ *)

Lemma idx_inv_ext s s' : conns s' = conns s -> index s' = index s -> idx_inv s -> idx_inv s'.
Proof.
  intros Hc Hi Hinv x j Hx. rewrite Hi in Hx. destruct (Hinv _ _ Hx) as [Ha Hp]. split; [|assumption].
  eapply authed_as_ext; [|exact Ha]. rewrite Hc. reflexivity.
Qed.

Lemma auth_result_fresh chk v s c a m s1 c1 ar : auth_result chk v s c a m s1 c1 ar -> fresh s -> fresh s1.
Proof.
  intros H Hf; destruct H; try assumption;
    try (intros x Hx; destruct (rf_frame (v_ban_monotone v) s a) as (_ & _ & Hcl & Hn & _); rewrite Hcl; apply Hf; rewrite Hn in Hx; assumption).
  - intros x Hx. unfold first_state in *. destruct (v_first_keeps v); cbn in *; rewrite upd_other by lia; apply Hf; lia.
Qed.

Lemma handle_post_auth_inv chk v s k cn h s1 c1 ar :
  idx_inv s -> conns s k = Some cn ->
  auth_result chk v s (match c_cc cn with Some c => c | None => new_cc end) (c_addr cn) h s1 c1 ar ->
  idx_inv (post_auth s1 k cn c1).
Proof.
  intros Hinv Hc Har. destruct (auth_result_frame _ _ _ _ _ _ _ _ _ Har) as [Hcs His].
  apply post_auth_idx_inv.
  - intros x j Hx Hn. rewrite His in Hx. destruct (Hinv _ _ Hx) as [Ha Hp]. split; [|assumption].
    eapply authed_as_ext; [|exact Ha]. rewrite Hcs. reflexivity.
  - intros x Hx. rewrite His in Hx. apply (Hinv _ _ Hx).
Qed.

Lemma handle_wf chk v s k m : wf s -> wf (fst (handle chk v s k m)).
Proof.
  intros [Hf Hinv]. destruct m as [h|]; [|exact (conj Hf Hinv)].
  destruct (conns s k) as [cn|] eqn:Hc; [|unfold Auth.handle; rewrite Hc; exact (conj Hf Hinv)].
  set (c0 := match c_cc cn with Some c => c | None => new_cc end).
  destruct (auth chk v s c0 (c_addr cn) h) as [[s1 c1] ar] eqn:Ha.
  pose proof (auth_cases chk v s c0 (c_addr cn) h) as Har. rewrite Ha in Har.
  pose proof (handle_post_auth_inv _ _ _ _ _ _ _ _ _ Hinv Hc Har) as H3.
  pose proof (auth_result_fresh _ _ _ _ _ _ _ _ _ Har Hf) as Hf1.
  destruct (handle_shape chk v s k h cn Hc s1 c1 ar Ha) as [He|(He & Hcond & _ & _)]; rewrite He.
  - split; [exact Hf1|exact H3].
  - unfold install_cond in Hcond.
    apply andb_prop in Hcond as [Hcond _]. apply andb_prop in Hcond as [Hcond Hpos].
    apply andb_prop in Hcond as [_ Hau]. apply N.ltb_lt in Hpos.
    split.
    + intros x Hx. unfold install in *. cbn [clients next_id set_index set_conns] in *.
      destruct (index (post_auth s1 k cn c1) (ccid c1)) as [k'|]; [|apply Hf1; exact Hx].
      destruct (k' =? k); [apply Hf1; exact Hx|].
      destruct (evict_frame (post_auth s1 k cn c1) k') as [Hcl Hn]. rewrite Hcl. rewrite Hn in Hx. apply Hf1. exact Hx.
    + apply install_idx_inv; try assumption. rewrite post_auth_conns, N.eqb_refl. reflexivity.
Qed.

Lemma close_idx_inv s k : idx_inv s -> idx_inv (close s k).
Proof.
  intros Hinv x j Hx. unfold close in *. cbn [index set_conns] in Hx.
  destruct (evict_idx_inv s k Hinv _ _ Hx) as [Ha Hp]. split; [|assumption].
  destruct (evict_authed _ _ _ _ Ha) as [_ Hn].
  eapply authed_as_ext; [|exact Ha]. cbn [conns set_conns]. apply upd_other. assumption.
Qed.

Lemma wf_ext s s' : conns s' = conns s -> index s' = index s -> clients s' = clients s -> next_id s' = next_id s ->
  wf s -> wf s'.
Proof.
  intros Hc Hi Hcl Hn [Hf Hinv]. split.
  - intros x Hx. rewrite Hcl. apply Hf. rewrite <- Hn. exact Hx.
  - eapply idx_inv_ext; eassumption.
Qed.

Lemma ban_req_wf mono perm s a : wf s -> wf (ban_req mono perm s a).
Proof.
  destruct (ban_req_frame mono perm s a) as (H1 & H2 & H3 & H4 & _). apply wf_ext; assumption.
Qed.

Lemma step_wf v s e : wf s -> wf (fst (step v s e)).
Proof.
  intros Hw. destruct e; cbn [Auth.step fst]; try (apply handle_wf; assumption); try (apply ban_req_wf; assumption);
    destruct Hw as [Hf Hinv].
  - split; [exact Hf|]. eapply idx_inv_ext; [| |exact Hinv]; reflexivity.
  - split; [exact Hf|]. eapply idx_inv_ext; [| |exact Hinv]; reflexivity.
  - split; [exact Hf|]. eapply idx_inv_ext; [| |exact Hinv]; reflexivity.
  - split; [exact Hf|]. eapply idx_inv_ext; [| |exact Hinv]; reflexivity.
  - split; [exact Hf|]. eapply idx_inv_ext; [| |exact Hinv]; reflexivity.
  - (* ERestart *) split; [destruct lapsed; exact Hf|intros x j Hx; discriminate].
  - (* EExpire *) destruct (clients s x) as [cl|] eqn:Hc; [|exact (conj Hf Hinv)]. split.
    + intros y Hy. cbn in *. unfold upd. destruct (N.eqb_spec y x) as [->|_]; [|apply Hf; exact Hy].
      rewrite (Hf _ Hy) in Hc. discriminate.
    + eapply idx_inv_ext; [| |exact Hinv]; reflexivity.
  - (* EDelete *) split.
    + intros y Hy. cbn in *. unfold upd. destruct (y =? x); [reflexivity|apply Hf; exact Hy].
    + eapply idx_inv_ext; [| |exact Hinv]; reflexivity.
  - (* EDelAnon *) destruct (v_anon_delete v); [|exact (conj Hf Hinv)]. split.
    + intros y Hy. cbn in *. unfold upd. destruct (y =? x); [reflexivity|apply Hf; exact Hy].
    + eapply idx_inv_ext; [| |exact Hinv]; reflexivity.
  - (* ERekey *) unfold rekey. destruct (clients s x) as [cl|] eqn:Hc; [|exact (conj Hf Hinv)]. split.
    + intros y Hy. cbn in *. unfold upd. destruct (N.eqb_spec y x) as [->|_]; [|apply Hf; exact Hy].
      rewrite (Hf _ Hy) in Hc. discriminate.
    + eapply idx_inv_ext; [| |exact Hinv]; reflexivity.
  - (* ERegister *) split.
    + intros y Hy. cbn in *. rewrite upd_other by lia. apply Hf. lia.
    + eapply idx_inv_ext; [| |exact Hinv]; reflexivity.
  - (* ECorrupt *) destruct (clients s x) as [cl|] eqn:Hc; [|exact (conj Hf Hinv)]. split.
    + intros y Hy. cbn in *. unfold upd. destruct (N.eqb_spec y x) as [->|_]; [|apply Hf; exact Hy].
      rewrite (Hf _ Hy) in Hc. discriminate.
    + eapply idx_inv_ext; [| |exact Hinv]; reflexivity.
  - split; [exact Hf|]. eapply idx_inv_ext; [| |exact Hinv]; reflexivity.
  - (* EClose *) split.
    + intros y Hy. unfold close in *. cbn [clients next_id set_conns] in *.
      destruct (evict_frame s k) as [Hcl Hn]. rewrite Hcl. rewrite Hn in Hy. apply Hf. exact Hy.
    + apply close_idx_inv. exact Hinv.
  - (* EOpen *) split.
    + intros y Hy. unfold close in *. cbn [clients next_id set_conns] in *.
      destruct (evict_frame s k) as [Hcl Hn]. rewrite Hcl. rewrite Hn in Hy. apply Hf. exact Hy.
    + intros x j Hx. cbn [index set_conns] in Hx.
      pose proof (close_idx_inv s k Hinv) as Hci. destruct (Hci _ _ Hx) as [Ha Hp]. split; [|assumption].
      assert (Hn : j <> k).
      { intros ->. destruct Ha as (cn & c & H1 & _). unfold close in H1. cbn [conns set_conns] in H1.
        rewrite upd_same in H1. discriminate. }
      eapply authed_as_ext; [|exact Ha]. cbn [conns set_conns]. apply upd_other. assumption.
  - (* ESetRecord *) destruct (clients s x) as [cl|] eqn:Hc; [|exact (conj Hf Hinv)]. split.
    + intros y Hy. cbn in *. unfold upd. destruct (N.eqb_spec y x) as [->|_]; [|apply Hf; exact Hy].
      rewrite (Hf _ Hy) in Hc. discriminate.
    + eapply idx_inv_ext; [| |exact Hinv]; reflexivity.
  - (* EBanLapse *) destruct (v_ban_monotone v); [exact (conj Hf Hinv)|].
    split; [exact Hf|]. eapply idx_inv_ext; [| |exact Hinv]; reflexivity.
  - exact (conj Hf Hinv).
  - split; [exact Hf|]. eapply idx_inv_ext; [| |exact Hinv]; reflexivity.
  - split; [exact Hf|]. eapply idx_inv_ext; [| |exact Hinv]; reflexivity.
  - (* ETempLapse *) destruct (permb s a); [exact (conj Hf Hinv)|].
    split; [exact Hf|]. eapply idx_inv_ext; [| |exact Hinv]; reflexivity.
  - split; [exact Hf|]. eapply idx_inv_ext; [| |exact Hinv]; reflexivity.
  - split; [exact Hf|]. eapply idx_inv_ext; [| |exact Hinv]; reflexivity.
  - split; [exact Hf|]. eapply idx_inv_ext; [| |exact Hinv]; reflexivity.
  - (* ECleanup *) exact (conj Hf Hinv).
Qed.

Lemma init_wf : wf init.
Proof. split; [intros x _; reflexivity|intros x j Hx; discriminate]. Qed.

Lemma run_app v s a b : run v s (a ++ b) = run v (run v s a) b.
Proof. revert s. induction a as [|e a IH]; intro s; [reflexivity|]. cbn. apply IH. Qed.

Lemma run_wf v es : forall s, wf s -> wf (run v s es).
Proof. induction es as [|e es IH]; intros s Hw; [exact Hw|]. cbn. apply IH. apply step_wf. exact Hw. Qed.

(* (5) registry_respects_auth, over all histories, for both variants of the code *)
Theorem registry_respects_auth v es x k :
  index (run v init es) x = Some k -> authed_as (run v init es) k x.
Proof. intro H. destruct (run_wf v es init init_wf) as [_ Hinv]. apply (Hinv _ _ H). Qed.

(* ------------------------------------------------------------------------------------------ *)
(* (1) auth_only_if_proved                                                                     *)
(* ------------------------------------------------------------------------------------------ *)

(* the gate checks (steps 1-3 of HandleHandshake) let message m on connection k through *)
Definition gate_ok (s : srv) (k : N) (m : hs) : Prop :=
  exists cn, conns s k = Some cn /\ blocked s (c_addr cn) = false /\ banned s (c_addr cn) = false /\
             (h_cid m = 0 -> rl_deny s = false).
(* what counts as a proof of identity x by message m on connection k in state s: a brand-new identity, or the keyed response *)
Definition proof_core (s : srv) (k : N) (m : hs) (x : N) : Prop :=
  (h_cid m = 0 /\ h_new m = true /\ x = next_id s /\ clients s x = None)
  \/ (h_cid m = x /\ exists cl sec ch, clients s x = Some cl /\ expired cl = false /\ stored cl = CKey sec /\
        pending_of s k = Some ch /\ h_resp m = Some (hmac sec ch)).
Definition proof_step (s : srv) (k : N) (m : hs) (x : N) : Prop := gate_ok s k m /\ proof_core s k m x.

Lemma handle_authed_justified chk v s k0 m k x :
  wf s -> authed_as (fst (handle chk v s k0 m)) k x ->
  authed_as s k x \/ (k = k0 /\ exists h, m = Some h /\ proof_core s k h x /\ (chk = true -> gate_ok s k h)).
Proof.
  intros [Hf Hinv] Ha. destruct m as [h|]; [|left; exact Ha].
  destruct (conns s k0) as [cn|] eqn:Hc; [|unfold Auth.handle in Ha; rewrite Hc in Ha; left; exact Ha].
  set (c0 := match c_cc cn with Some c => c | None => new_cc end).
  destruct (auth chk v s c0 (c_addr cn) h) as [[s1 c1] ar] eqn:Hau.
  pose proof (auth_cases chk v s c0 (c_addr cn) h) as Har. rewrite Hau in Har.
  destruct (auth_result_frame _ _ _ _ _ _ _ _ _ Har) as [Hcs His].
  assert (Ha3 : authed_as (post_auth s1 k0 cn c1) k x).
  { destruct (handle_shape chk v s k0 h cn Hc s1 c1 ar Hau) as [He|(He & Hcond & _ & _)]; rewrite He in Ha; [exact Ha|].
    unfold install_cond in Hcond.
    apply andb_prop in Hcond as [Hcond _]. apply andb_prop in Hcond as [Hcond _]. apply andb_prop in Hcond as [_ Hauthed].
    eapply install_authed; [exact Hauthed| |exact Ha]. rewrite post_auth_conns, N.eqb_refl. reflexivity. }
  destruct (N.eq_dec k k0) as [->|Hn].
  - apply post_auth_authed_self in Ha3 as [Hau1 Hid].
    destruct (is_success ar) eqn:Hs.
    + right. split; [reflexivity|]. exists h. split; [reflexivity|].
      assert (Hgate : gate_fail chk s (c_addr cn) h = false) by (destruct Har; cbn in Hs; try discriminate; assumption).
      split.
      * destruct Har; cbn in Hs; try discriminate.
        -- left. cbn in Hid. subst x. repeat split; try assumption. apply Hf. lia.
        -- right. cbn in Hid. split; [exact Hid|]. subst x.
           exists cl, sec, ch. split; [assumption|]. split; [assumption|]. split; [assumption|]. split; [|assumption].
           unfold pending_of. rewrite Hc. unfold c0 in *. destruct (c_cc cn) as [c|]; [assumption|discriminate].
      * intros ->. destruct (gate_fail_false _ _ _ Hgate) as (G1 & G2 & G3). exists cn. auto.
    + left. destruct (auth_result_nonsuccess _ _ _ _ _ _ _ _ _ Har Hs) as (E1 & E2 & _).
      rewrite E1 in Hau1. rewrite E2 in Hid. unfold c0 in *.
      destruct (c_cc cn) as [c|] eqn:Hcc; [|discriminate]. exists cn, c. auto.
  - left. apply post_auth_authed_other in Ha3; [|assumption].
    eapply authed_as_ext; [|exact Ha3]. rewrite Hcs. reflexivity.
Qed.

Lemma close_authed s k k' x : authed_as (close s k) k' x -> authed_as s k' x.
Proof.
  intros (cn & c & H1 & H). unfold close in H1. cbn [conns set_conns] in H1.
  destruct (N.eq_dec k' k) as [->|Hn]; [rewrite upd_same in H1; discriminate|].
  rewrite upd_other in H1 by assumption.
  assert (Ha : authed_as (evict s k) k' x) by (exists cn, c; auto).
  apply evict_authed in Ha. tauto.
Qed.

Theorem auth_step_justified v s e k x :
  wf s -> authed_as (fst (step v s e)) k x ->
  authed_as s k x \/ (exists m, e = EMsg k (Some m) /\ proof_step s k m x)
                  \/ (exists m, e = EBody k m /\ proof_core s k m x).
Proof.
  intros Hw Ha. destruct e; cbn [Auth.step fst] in Ha; try (left; exact Ha).
  - destruct (handle_authed_justified _ _ _ _ _ _ _ Hw Ha) as [H|(-> & h & -> & H & G)]; [left; exact H|].
    right. left. exists h. split; [reflexivity|]. split; [apply G; reflexivity|exact H].
  - (* EBan *) left. eapply authed_as_ext; [|exact Ha]. destruct (ban_req_frame (v_ban_monotone v) false s a) as [E _]. rewrite E. reflexivity.
  - (* ERestart *) exfalso. destruct Ha as (cn & c & H1 & _). destruct lapsed; discriminate.
  - (* EExpire *) left. destruct (clients s x0); exact Ha.
  - (* EDelAnon *) left. destruct (v_anon_delete v); exact Ha.
  - (* ERekey *) left. unfold rekey in Ha. destruct (clients s x0); exact Ha.
  - (* ECorrupt *) left. destruct (clients s x0); exact Ha.
  - left. apply close_authed in Ha. exact Ha.
  - left. destruct Ha as (cn & c & H1 & H). cbn [conns set_conns] in H1.
    destruct (N.eq_dec k k0) as [->|Hn].
    + rewrite upd_same in H1. injection H1 as <-. destruct H as [H _]. discriminate.
    + rewrite upd_other in H1 by assumption. apply (close_authed s k0). exists cn, c. auto.
  - (* ESetRecord *) left. destruct (clients s x0); exact Ha.
  - (* EBanLapse *) left. destruct (v_ban_monotone v); exact Ha.
  - (* EBody *) destruct (handle_authed_justified _ _ _ _ _ _ _ Hw Ha) as [H|(-> & h & Hm & H & _)]; [left; exact H|].
    injection Hm as <-. right. right. exists m. auto.
  - (* ETempLapse *) left. destruct (permb s a); exact Ha.
Qed.

(* history form: every authenticated connection has a proof step on that same connection in its history; for a handshake
   that overlapped with others (EBody) the gate checks were passed when it began, the credential proof holds when it completes *)
Theorem auth_only_if_proved v es k x :
  authed_as (run v init es) k x ->
  exists pre m post,
    (es = pre ++ EMsg k (Some m) :: post /\ proof_step (run v init pre) k m x) \/
    (es = pre ++ EBody k m :: post /\ proof_core (run v init pre) k m x).
Proof.
  induction es as [|e es IH] using rev_ind; intro Ha.
  - destruct Ha as (cn & c & H1 & _). discriminate.
  - rewrite run_app in Ha. cbn [Auth.run] in Ha.
    destruct (auth_step_justified v _ e k x (run_wf v es init init_wf) Ha) as [Hold|[(m & -> & Hp)|(m & -> & Hp)]].
    + destruct (IH Hold) as (pre & m & post & [[-> Hp]|[-> Hp]]); exists pre, m, (post ++ [e]).
      * left. split; [|exact Hp]. rewrite <- app_assoc. reflexivity.
      * right. split; [|exact Hp]. rewrite <- app_assoc. reflexivity.
    + exists es, m, []. left. split; [reflexivity|exact Hp].
    + exists es, m, []. right. split; [reflexivity|exact Hp].
Qed.

Lemma proof_core_known s k m x : proof_core s k m x -> x < next_id s ->
  exists cl sec, clients s x = Some cl /\ expired cl = false /\ stored cl = CKey sec.
Proof.
  intros [(_ & _ & -> & _)|(_ & cl & sec & ch & Hc & He & Hst & _)] Hlt; [lia|]. exists cl, sec. auto.
Qed.

(* unknown or expired clients are never (newly) authenticated *)
Corollary unknown_or_expired_never_authenticated v s e k x :
  wf s -> (clients s x = None \/ exists cl, clients s x = Some cl /\ expired cl = true) ->
  x < next_id s ->
  authed_as (fst (step v s e)) k x -> authed_as s k x.
Proof.
  intros Hw Hx Hlt Ha.
  assert (Hcore : forall m, proof_core s k m x -> False).
  { intros m Hp. destruct (proof_core_known _ _ _ _ Hp Hlt) as (cl & sec & Hc & He & _).
    destruct Hx as [Hx|(cl' & Hx & He')]; rewrite Hc in Hx; [discriminate|]. injection Hx as <-. congruence. }
  destruct (auth_step_justified v s e k x Hw Ha) as [H|[(m & _ & _ & Hp)|(m & _ & Hp)]]; [exact H| |]; exfalso; eauto.
Qed.

(* a client whose stored credential yields no usable secret (empty, not base64, undecryptable, sealed under another
   master key) is never newly authenticated, whatever the response is *)
Corollary no_usable_secret_never_authenticated v s e k x cl :
  wf s -> clients s x = Some cl -> secret_of (stored cl) = None ->
  authed_as (fst (step v s e)) k x -> authed_as s k x.
Proof.
  intros Hw Hc Hn Ha.
  assert (Hcore : forall m, proof_core s k m x -> False).
  { intros m [(_ & _ & _ & Hnone)|(_ & cl' & sec & ch & Hc' & _ & Hst & _)].
    - rewrite Hc in Hnone. discriminate.
    - rewrite Hc in Hc'. injection Hc' as <-. rewrite Hst in Hn. discriminate. }
  destruct (auth_step_justified v s e k x Hw Ha) as [H|[(m & _ & _ & Hp)|(m & _ & Hp)]]; [exact H| |]; exfalso; eauto.
Qed.

(* ------------------------------------------------------------------------------------------ *)
(* (3) failure_is_inert and (4) gated, for the repaired code                                    *)
(* ------------------------------------------------------------------------------------------ *)

Definition not_success (o : out) : Prop := match o_auth o with Some a => is_success a = false | None => True end.

Definition inert (s s' : srv) : Prop :=
  (forall k x, authed_as s' k x <-> authed_as s k x) /\
  (forall x, index s' x = index s x) /\
  (forall x, clients s' x = clients s x).

Lemma inert_refl s : inert s s.
Proof. repeat split; auto. Qed.

Lemma handle_out_auth chk v s k h cn :
  conns s k = Some cn ->
  forall s1 c1 ar, auth chk v s (match c_cc cn with Some c => c | None => new_cc end) (c_addr cn) h = (s1, c1, ar) ->
  o_auth (snd (handle chk v s k (Some h))) = Some ar.
Proof.
  intros Hc s1 c1 ar Ha. unfold Auth.handle. rewrite Hc, Ha.
  destruct ar; cbn; try reflexivity; destruct (c_open cn); cbn; try reflexivity;
    match goal with |- context [if ?b then _ else _] => destruct b end; reflexivity.
Qed.

Theorem failure_is_inert chk s k m :
  wf s -> not_success (snd (handle chk current_variant s k m)) ->
  inert s (fst (handle chk current_variant s k m)).
Proof.
  intros [Hf Hinv] Hns. destruct m as [h|]; [|apply inert_refl].
  destruct (conns s k) as [cn|] eqn:Hc; [|unfold Auth.handle; rewrite Hc; apply inert_refl].
  set (c0 := match c_cc cn with Some c => c | None => new_cc end).
  destruct (auth chk current_variant s c0 (c_addr cn) h) as [[s1 c1] ar] eqn:Hau.
  pose proof (auth_cases chk current_variant s c0 (c_addr cn) h) as Har. rewrite Hau in Har.
  unfold not_success in Hns. rewrite (handle_out_auth _ _ _ _ _ _ Hc _ _ _ Hau) in Hns.
  destruct (auth_result_frame _ _ _ _ _ _ _ _ _ Har) as [Hcs His].
  destruct (auth_result_nonsuccess _ _ _ _ _ _ _ _ _ Har Hns) as (E1 & E2 & E3 & _).
  destruct (handle_shape chk current_variant s k h cn Hc s1 c1 ar Hau) as [He|(_ & Hcond & _ & _)].
  2:{ unfold install_cond in Hcond. cbn [v_success_gate current_variant negb orb] in Hcond.
      rewrite Hns in Hcond. rewrite andb_false_r in Hcond. discriminate. }
  rewrite He.
  assert (Hself : forall x, authed_as (post_auth s1 k cn c1) k x <-> authed_as s k x).
  { intro x. rewrite post_auth_authed_self. rewrite E1, E2. unfold c0. split.
    - intros [G1 G2]. destruct (c_cc cn) as [c|] eqn:Hcc; [|discriminate]. exists cn, c. auto.
    - intros (cn' & c & G1 & G2 & G3 & G4). rewrite Hc in G1. injection G1 as <-. rewrite G2. auto. }
  split; [|split].
  - intros k' x. destruct (N.eq_dec k' k) as [->|Hn]; [apply Hself|].
    rewrite post_auth_authed_other by assumption. split; apply authed_as_ext; rewrite Hcs; reflexivity.
  - intro x. rewrite post_auth_index. unfold reconcile. rewrite His.
    destruct (index s x) as [j|] eqn:Hi; [|reflexivity].
    destruct (N.eqb_spec j k) as [->|_]; [|reflexivity]. cbn [andb].
    destruct (Hinv _ _ Hi) as [Ha _]. apply Hself in Ha. apply post_auth_authed_self in Ha as [G1 G2].
    rewrite G1, G2, N.eqb_refl. reflexivity.
  - intro x. cbn. rewrite E3. reflexivity.
Qed.

Theorem gated v s k h cn :
  wf s -> conns s k = Some cn -> (blocked s (c_addr cn) = true \/ banned s (c_addr cn) = true) ->
  o_auth (snd (handle true v s k (Some h))) = Some AFail /\ inert s (fst (handle true v s k (Some h))) /\
  pending_of (fst (handle true v s k (Some h))) k = pending_of s k.
Proof.
  intros [Hf Hinv] Hc Hg.
  set (c0 := match c_cc cn with Some c => c | None => new_cc end).
  assert (Hau : auth true v s c0 (c_addr cn) h = (s, c0, AFail)).
  { unfold Auth.auth, gate_fail. destruct Hg as [Hg|Hg]; rewrite Hg; [reflexivity|]. rewrite orb_true_r. reflexivity. }
  split; [apply (handle_out_auth true v s k h cn Hc _ _ _ Hau)|].
  destruct (handle_shape true v s k h cn Hc s c0 AFail Hau) as [He|(_ & _ & _ & Hne)]; [|contradiction].
  rewrite He.
  assert (Hself : forall x, authed_as (post_auth s k cn c0) k x <-> authed_as s k x).
  { intro x. rewrite post_auth_authed_self. unfold c0. split.
    - intros [G1 G2]. destruct (c_cc cn) as [c|] eqn:Hcc; [|discriminate]. exists cn, c. auto.
    - intros (cn' & c & G1 & G2 & G3 & G4). rewrite Hc in G1. injection G1 as <-. rewrite G2. auto. }
  split; [split; [|split]|].
  - intros k' x. destruct (N.eq_dec k' k) as [->|Hn]; [apply Hself|].
    rewrite post_auth_authed_other by assumption. tauto.
  - intro x. rewrite post_auth_index. unfold reconcile.
    destruct (index s x) as [j|] eqn:Hi; [|reflexivity].
    destruct (N.eqb_spec j k) as [->|_]; [|reflexivity]. cbn [andb].
    destruct (Hinv _ _ Hi) as [Ha _]. apply Hself in Ha. apply post_auth_authed_self in Ha as [G1 G2].
    rewrite G1, G2, N.eqb_refl. reflexivity.
  - intro x. reflexivity.
  - unfold pending_of. rewrite post_auth_conns, N.eqb_refl, Hc. cbn. unfold c0. destruct (c_cc cn); reflexivity.
Qed.

(* ------------------------------------------------------------------------------------------ *)
(* the authentication gate is a function of exactly the record fields the property names        *)
(* ------------------------------------------------------------------------------------------ *)

(* two client records that differ at most in non-gate fields (UserID, Type, ... = meta) *)
Definition same_rec (c c' : client) : Prop := stored c = stored c' /\ expired c = expired c'.
(* two server states that differ at most in non-gate fields of client records *)
Definition same_gate (s s' : srv) : Prop :=
  (forall x, match clients s x, clients s' x with
             | Some c, Some c' => same_rec c c' | None, None => True | _, _ => False end) /\
  next_id s = next_id s' /\ next_secret s = next_secret s' /\ next_nonce s = next_nonce s' /\
  (forall a, banned s a = banned s' a) /\ (forall a, permb s a = permb s' a) /\ (forall a, black s a = black s' a) /\ (forall a, white s a = white s' a) /\
  (forall a, fails s a = fails s' a) /\ rl_deny s = rl_deny s' /\
  (forall k, conns s k = conns s' k) /\ (forall x, index s x = index s' x).

Lemma same_gate_ban_req mono perm s s' a : same_gate s s' -> same_gate (ban_req mono perm s a) (ban_req mono perm s' a).
Proof.
  intros (Hc & Hi & Hs & Hn & Hb & Hpb & Hbl & Hwl & Hf & Hr & Hcn & Hix). unfold ban_req. rewrite <- (Hb a), <- (Hpb a).
  destruct perm; [|destruct (mono && banned s a && permb s a)];
    (split; [exact Hc|]); cbn; repeat split; try assumption;
    try (intro a0; unfold upd; destruct (a0 =? a); auto).
Qed.

Lemma same_gate_set_fails s s' a f : same_gate s s' -> same_gate (set_fails s (upd (fails s) a f)) (set_fails s' (upd (fails s') a f)).
Proof.
  intros (Hc & Hi & Hs & Hn & Hb & Hpb & Hbl & Hwl & Hf & Hr & Hcn & Hix).
  (split; [exact Hc|]); cbn; repeat split; try assumption. intro a0; unfold upd; destruct (a0 =? a); auto.
Qed.

Lemma same_gate_record_failure mono s s' a : same_gate s s' -> same_gate (record_failure mono s a) (record_failure mono s' a).
Proof.
  intro H. pose proof H as (_ & _ & _ & _ & _ & _ & _ & _ & Hf & _). unfold Auth.record_failure. rewrite <- (Hf a).
  pose proof (same_gate_set_fails s s' a (fails s a + 1) H) as H1.
  destruct (pb <=? fails s a + 1); [apply same_gate_ban_req; exact H1|].
  destruct (mf <=? fails s a + 1); [apply same_gate_ban_req; exact H1|exact H1].
Qed.

Lemma same_gate_clear_fails s s' a : same_gate s s' -> same_gate (clear_fails s a) (clear_fails s' a).
Proof.
  intros (Hc & Hi & Hs & Hn & Hb & Hpb & Hbl & Hwl & Hf & Hr & Hcn & Hix). unfold clear_fails.
  (split; [exact Hc|]); cbn; repeat split; try assumption. intro a0; unfold upd; destruct (a0 =? a); auto.
Qed.

Lemma same_gate_bump s s' : same_gate s s' -> same_gate (bump_nonce s) (bump_nonce s').
Proof.
  intros (Hc & Hi & Hs & Hn & Hb & Hpb & Hbl & Hwl & Hf & Hr & Hcn & Hix).
  (split; [exact Hc|]); cbn; repeat split; try assumption. rewrite Hn. reflexivity.
Qed.

Lemma same_gate_register s s' : same_gate s s' -> same_gate (register s) (register s').
Proof.
  intros (Hc & Hi & Hs & Hn & Hb & Hpb & Hbl & Hwl & Hf & Hr & Hcn & Hix). unfold same_gate, register; cbn. rewrite <- Hi, <- Hs.
  split; [|repeat split; assumption].
  intro x. unfold upd. destruct (x =? next_id s); [split; reflexivity|apply Hc].
Qed.

(* whatever the non-gate fields are: same response, same ControlConnection, and the states stay related *)
Theorem auth_ignores_meta chk v s s' c a m : same_gate s s' ->
  let '(s1, c1, r) := auth chk v s c a m in
  let '(s1', c1', r') := auth chk v s' c a m in
  c1 = c1' /\ r = r' /\ same_gate s1 s1'.
Proof.
  intro H. pose proof H as (Hc & Hi & Hs & Hn & Hb & Hpb & Hbl & Hwl & Hf & Hr & Hcn & Hix).
  unfold Auth.auth, gate_fail, blocked, listed.
  rewrite <- (Hbl (k_ip a)), <- (Hbl (k_cidr a)), <- (Hbl (k_wide a)), <- (Hwl (k_ip a)), <- (Hwl (k_cidr a)), <- (Hwl (k_wide a)),
          <- (Hb a), <- Hr, <- Hi, <- Hn.
  match goal with |- context [if ?g then _ else _] => destruct g end; [auto|].
  destruct ((h_cid m =? 0) && h_new m).
  { split; [reflexivity|]. split; [reflexivity|]. unfold first_state.
    destruct (v_first_keeps v); [apply same_gate_register; exact H|apply same_gate_clear_fails; apply same_gate_register; exact H]. }
  specialize (Hc (h_cid m)).
  destruct (clients s (h_cid m)) as [cl|], (clients s' (h_cid m)) as [cl'|]; try contradiction.
  2:{ split; [reflexivity|]. split; [reflexivity|]. apply same_gate_record_failure. exact H. }
  destruct Hc as [Est Eex]. rewrite <- Est, <- Eex.
  destruct (expired cl); [auto|].
  destruct (h_resp m) as [r|].
  - destruct (pending c) as [ch|].
    + destruct (match secret_of (stored cl) with Some sec => r =? hmac sec ch | None => false end).
      * split; [reflexivity|]. split; [reflexivity|]. apply same_gate_clear_fails. exact H.
      * split; [reflexivity|]. split; [reflexivity|]. apply same_gate_record_failure. exact H.
    + split; [reflexivity|]. split; [reflexivity|]. apply same_gate_record_failure. exact H.
  - destruct (stored cl); auto using same_gate_bump.
Qed.

(* rewriting the non-gate fields of a record (ESetRecord with the same expiry flag) keeps the states related *)
Lemma set_meta_same_gate v s x m cl : clients s x = Some cl ->
  same_gate s (fst (step v s (ESetRecord x (expired cl) m))).
Proof.
  intro Hc. cbn [Auth.step fst]. rewrite Hc. unfold same_gate. cbn. split; [|repeat split; reflexivity].
  intro y. unfold upd. destruct (N.eqb_spec y x) as [->|_].
  - rewrite Hc. split; reflexivity.
  - destruct (clients s y); [split; reflexivity|exact I].
Qed.

(* the asynchronous removal of an expired ban, and a short ban that runs out, never lift a ban in force *)
Lemma async_unban_is_inert v s a :
  fst (step v s (EUnbanLands a)) = s /\ fst (step current_variant s (EBanLapse a)) = s /\ fst (step v s (ECleanup a)) = s.
Proof. repeat split; reflexivity. Qed.

End Proofs.

(* ------------------------------------------------------------------------------------------ *)
(* witnesses: the two defects of the pinned tree, and non-vacuity                               *)
(* ------------------------------------------------------------------------------------------ *)
Definition toy_hmac (s c : N) : N := s * 1000 + c.

Definition p1 (x : N) (tun : bool) : option hs := Some {| h_cid := x; h_new := false; h_resp := None; h_tunnel := tun |}.
Definition p2 (x r : N) (tun : bool) : option hs := Some {| h_cid := x; h_new := false; h_resp := Some r; h_tunnel := tun |}.

(* connection 1 is A's control channel; connection 2 authenticates as A with connection_type "tunnel";
   then a phase-1 request (answered with a challenge, not Success) on connection 2 takes over A's control slot *)
Definition reinstall_history : list ev :=
  [ERegister; ERegister; EOpen 1 0; EOpen 2 1;
   EMsg 1 (p1 1 false); EMsg 1 (p2 1 (toy_hmac 1 1) false);
   EMsg 2 (p1 1 true); EMsg 2 (p2 1 (toy_hmac 1 2) true)].

Lemma pinned_nonsuccess_reinstall_refuted :
  exists es k m,
    let s := run toy_hmac 5 20 pinned_variant init es in
    not_success (snd (handle toy_hmac 5 20 true pinned_variant s k m)) /\
    index s 1 = Some 1 /\ index (fst (handle toy_hmac 5 20 true pinned_variant s k m)) 1 = Some 2.
Proof.
  exists reinstall_history, 2, (p1 2 false). cbv zeta. split; [|split]; vm_compute; reflexivity.
Qed.

(* a client deleted through the anonymous service keeps its stored credentials and still authenticates *)
Lemma pinned_anon_delete_refuted :
  exists es k x,
    clients (run toy_hmac 5 20 current_variant init [ERegister; EDelAnon x]) x = None /\
    authed_as (run toy_hmac 5 20 pinned_variant init (ERegister :: EDelAnon x :: es)) k x.
Proof.
  exists [EOpen 1 0; EMsg 1 (p1 1 false); EMsg 1 (p2 1 (toy_hmac 1 1) false)], 1, 1.
  split; [vm_compute; reflexivity|].
  unfold authed_as. eexists. eexists. split; [vm_compute; reflexivity|].
  split; [vm_compute; reflexivity|]. split; vm_compute; reflexivity.
Qed.

Lemma anon_delete_removes_credentials hmac mf pb s x :
  clients (fst (step hmac mf pb current_variant s (EDelAnon x))) x = None.
Proof. cbn. apply upd_same. Qed.

(* non-vacuity: a reachable, well-formed state in which a connection is authenticated through a proof step,
   the registry points at it, and a later failed attempt from a banned address changes nothing *)
Lemma premises_satisfiable :
  let es := [ERegister; ERegister; EOpen 1 0; EOpen 2 1; EMsg 1 (p1 1 false); EMsg 1 (p2 1 (toy_hmac 1 1) false)] in
  let s := run toy_hmac 5 20 current_variant init es in
  wf s /\ authed_as s 1 1 /\ index s 1 = Some 1 /\
  proof_step toy_hmac (run toy_hmac 5 20 current_variant init (firstn 5 es)) 1
             {| h_cid := 1; h_new := false; h_resp := Some (toy_hmac 1 1); h_tunnel := false |} 1 /\
  not_success (snd (handle toy_hmac 5 20 true current_variant s 2 (p2 1 7 false))).
Proof.
  cbv zeta. split; [apply run_wf; apply init_wf|].
  split.
  { unfold authed_as. eexists. eexists. split; [vm_compute; reflexivity|].
    split; [vm_compute; reflexivity|]. split; vm_compute; reflexivity. }
  split; [vm_compute; reflexivity|].
  split.
  { unfold proof_step, gate_ok, proof_core. split.
    - eexists. split; [vm_compute; reflexivity|].
      split; [vm_compute; reflexivity|]. split; [vm_compute; reflexivity|]. intro E; discriminate E.
    - right. split; [reflexivity|]. eexists. eexists. eexists. split; [vm_compute; reflexivity|].
      split; [vm_compute; reflexivity|]. split; [vm_compute; reflexivity|]. split; vm_compute; reflexivity. }
  vm_compute. reflexivity.
Qed.

Lemma k_cidr_ne a a' : (k_cidr a =? k_ip a') = false.
Proof. apply N.eqb_neq. unfold k_cidr, k_ip. lia. Qed.
Lemma k_ip_ne a a' : a <> a' -> (k_ip a =? k_ip a') = false.
Proof. intro H. apply N.eqb_neq. unfold k_ip. lia. Qed.
Lemma k_wide_ne a a' : (k_wide a =? k_ip a') = false.
Proof. apply N.eqb_neq. unfold k_wide, k_ip. lia. Qed.

(* a restart is invisible for the IP lists: the black- and whitelist (hence the gate decision for every address)
   after the restart are those before it, whatever sequence of edits produced them; it drops every connection and
   registry entry and keeps the client table.  With a lapsed short-lived entry for a', only the exact-IP blacklist entry
   of a' is gone; the whitelist, CIDR entries and every other address are untouched. *)
Lemma restart_keeps_lists hmac mf pb v s lapsed :
  let s' := fst (step hmac mf pb v s (ERestart lapsed)) in
  (lapsed = None -> black s' = black s /\ forall a, blocked s' a = blocked s a) /\
  white s' = white s /\
  (forall a a', lapsed = Some a' -> a <> a' -> blocked s' a = blocked s a) /\
  (forall a a', lapsed = Some a' -> black s (k_cidr a) = true -> blocked s' a = blocked s a) /\
  (forall k, conns s' k = None) /\ (forall x, index s' x = None) /\ clients s' = clients s.
Proof.
  cbv zeta. split; [intros ->; split; reflexivity|]. split; [destruct lapsed; reflexivity|]. split.
  { intros a a' -> Hne. unfold blocked, listed; cbn [Auth.step fst restart black white set_black]; unfold upd.
    rewrite (k_cidr_ne a a'), (k_wide_ne a a'), (k_ip_ne a a' Hne). reflexivity. }
  split.
  { intros a a' -> H. unfold blocked, listed; cbn [Auth.step fst restart black white set_black]; unfold upd.
    rewrite (k_cidr_ne a a'), (k_wide_ne a a'), H. rewrite !orb_true_r. cbn. reflexivity. }
  destruct lapsed; cbn; auto.
Qed.

(* ... after ANY history: appending a restart changes neither list *)
Lemma restart_invisible_for_lists hmac mf pb v s es :
  let s1 := run hmac mf pb v s es in
  let s2 := run hmac mf pb v s (es ++ [ERestart None]) in
  black s2 = black s1 /\ white s2 = white s1 /\ forall a, blocked s2 a = blocked s1 a.
Proof.
  cbv zeta. rewrite run_app. cbn. repeat split; reflexivity.
Qed.

(* a ban in force stays in force until UnbanIP or a restart: no other event — in particular no success of an
   overlapping handshake from the same address (RecordSuccess), no failure, no lapse, no asynchronous removal — lifts it *)
Definition lifts_ban (a : N) (e : ev) : bool :=
  match e with EUnban a' => a' =? a | ERestart _ => true | ETempLapse a' => a' =? a | EBanLapse a' => a' =? a | _ => false end.
(* ... a PERMANENT ban is lifted by UnbanIP / restart only (repaired code): not by the end of any temporary period *)
Definition lifts_perm (a : N) (e : ev) : bool :=
  match e with EUnban a' => a' =? a | ERestart _ => true | _ => false end.

(* "ban strength" preserved: in force (P = fun b _ => b) or in force and permanent *)
Definition ban_in_force (s : srv) (a : N) : Prop := banned s a = true.
Definition perm_banned (s : srv) (a : N) : Prop := banned s a = true /\ permb s a = true.

Lemma ban_req_banned mono perm s a a' : banned s a = true -> banned (ban_req mono perm s a') a = true.
Proof.
  intro H. unfold ban_req. destruct perm; [|destruct (mono && banned s a' && permb s a')]; cbn; try exact H;
    unfold upd; destruct (a =? a'); auto.
Qed.
Lemma ban_req_perm perm s a a' : perm_banned s a -> perm_banned (ban_req true perm s a') a.
Proof.
  intros [H1 H2]. unfold ban_req, perm_banned.
  destruct perm.
  - cbn. unfold upd. destruct (a =? a'); auto.
  - destruct (N.eqb_spec a a') as [->|Hne].
    + rewrite H1, H2. cbn. auto.
    + destruct (true && banned s a' && permb s a'); cbn; [auto|]. unfold upd.
      destruct (N.eqb_spec a a'); [contradiction|auto].
Qed.

Lemma rf_banned_mono mf pb mono s a a' : banned s a = true -> banned (record_failure mf pb mono s a') a = true.
Proof.
  intro H. unfold record_failure.
  destruct (pb <=? fails s a' + 1); [apply ban_req_banned; exact H|].
  destruct (mf <=? fails s a' + 1); [apply ban_req_banned; exact H|exact H].
Qed.
Lemma rf_perm mf pb s a a' : perm_banned s a -> perm_banned (record_failure mf pb true s a') a.
Proof.
  intro H. unfold record_failure.
  destruct (pb <=? fails s a' + 1); [apply ban_req_perm; exact H|].
  destruct (mf <=? fails s a' + 1); [apply ban_req_perm; exact H|exact H].
Qed.

Lemma auth_banned_mono hmac mf pb chk v s c a' m a :
  banned s a = true -> banned (fst (fst (auth hmac mf pb chk v s c a' m))) a = true.
Proof.
  intro H. pose proof (auth_cases hmac mf pb chk v s c a' m) as Har.
  destruct (auth hmac mf pb chk v s c a' m) as [[s1 c1] ar]. cbn.
  destruct Har; try exact H; try (apply rf_banned_mono; exact H).
  unfold first_state. destruct (v_first_keeps v); exact H.
Qed.
Lemma auth_perm hmac mf pb chk v s c a' m a : v_ban_monotone v = true ->
  perm_banned s a -> perm_banned (fst (fst (auth hmac mf pb chk v s c a' m))) a.
Proof.
  intros Hm H. pose proof (auth_cases hmac mf pb chk v s c a' m) as Har.
  destruct (auth hmac mf pb chk v s c a' m) as [[s1 c1] ar]. cbn.
  destruct Har; try exact H; try (rewrite Hm; apply rf_perm; exact H).
  unfold first_state. destruct (v_first_keeps v); exact H.
Qed.

Lemma evict_banned s k : banned (evict s k) = banned s /\ permb (evict s k) = permb s.
Proof. unfold evict. destruct (conns s k) as [cn|]; [|auto]. destruct (c_cc cn); auto. Qed.

(* the session layer does not touch the ban table: after handleHandshake it is what the auth handler left *)
Lemma handle_ban_fields hmac mf pb chk v s k h cn :
  conns s k = Some cn ->
  let s1 := fst (fst (auth hmac mf pb chk v s (match c_cc cn with Some c => c | None => new_cc end) (c_addr cn) h)) in
  banned (fst (handle hmac mf pb chk v s k (Some h))) = banned s1 /\ permb (fst (handle hmac mf pb chk v s k (Some h))) = permb s1.
Proof.
  intros Hc.
  destruct (auth hmac mf pb chk v s (match c_cc cn with Some c => c | None => new_cc end) (c_addr cn) h) as [[s1 c1] ar] eqn:Ha.
  cbn [fst].
  destruct (handle_shape hmac mf pb chk v s k h cn Hc s1 c1 ar Ha) as [He|(He & _)]; rewrite He.
  - split; reflexivity.
  - unfold install. cbn [banned permb set_index set_conns].
    destruct (index (post_auth s1 k cn c1) (ccid c1)) as [k'|]; [|split; reflexivity].
    destruct (k' =? k); [split; reflexivity|]. destruct (evict_banned (post_auth s1 k cn c1) k') as [E1 E2]. rewrite E1, E2. split; reflexivity.
Qed.

Lemma handle_banned_mono hmac mf pb chk v s k m a :
  banned s a = true -> banned (fst (handle hmac mf pb chk v s k m)) a = true.
Proof.
  intro H. destruct m as [h|]; [|exact H].
  destruct (conns s k) as [cn|] eqn:Hc; [|unfold handle; rewrite Hc; exact H].
  destruct (handle_ban_fields hmac mf pb chk v s k h cn Hc) as [E _]. cbv zeta in E. rewrite E.
  apply auth_banned_mono. exact H.
Qed.
Lemma handle_perm hmac mf pb chk v s k m a : v_ban_monotone v = true ->
  perm_banned s a -> perm_banned (fst (handle hmac mf pb chk v s k m)) a.
Proof.
  intros Hm H. destruct m as [h|]; [|exact H].
  destruct (conns s k) as [cn|] eqn:Hc; [|unfold handle; rewrite Hc; exact H].
  destruct (handle_ban_fields hmac mf pb chk v s k h cn Hc) as [E1 E2]. cbv zeta in *. unfold perm_banned. rewrite E1, E2.
  apply auth_perm; assumption.
Qed.

Lemma step_banned_mono hmac mf pb v s e a :
  banned s a = true -> lifts_ban a e = false -> banned (fst (step hmac mf pb v s e)) a = true.
Proof.
  intros H Hl. destruct e; cbn [step fst]; try exact H; try discriminate Hl;
    try (apply handle_banned_mono; exact H); try (apply ban_req_banned; exact H);
    try (destruct (clients s x); exact H).
  - cbn in *. unfold upd. rewrite N.eqb_sym, Hl. exact H.
  - destruct (v_anon_delete v); exact H.
  - unfold rekey. destruct (clients s x); exact H.
  - unfold close. cbn. destruct (evict_banned s k) as [E _]. rewrite E. exact H.
  - unfold close. cbn. destruct (evict_banned s k) as [E _]. rewrite E. exact H.
  - cbn in Hl. destruct (v_ban_monotone v); [exact H|]. cbn. unfold upd. rewrite N.eqb_sym, Hl. exact H.
  - cbn in Hl. destruct (permb s a0); [exact H|]. cbn. unfold upd. rewrite N.eqb_sym, Hl. exact H.
Qed.

Theorem ban_in_force_persists hmac mf pb v es : forall s a,
  banned s a = true -> forallb (fun e => negb (lifts_ban a e)) es = true ->
  banned (run hmac mf pb v s es) a = true.
Proof.
  induction es as [|e es IH]; intros s a H Hall; [exact H|].
  cbn in Hall. apply andb_prop in Hall as [He Hall]. apply negb_true_iff in He.
  cbn. apply IH; [|exact Hall]. apply step_banned_mono; assumption.
Qed.

(* ban strength only increases: PERMANENT is absorbing under every event except UnbanIP on that address and a restart — in
   particular under every later failure (a temporary ban request) of a handshake already past the gate, and under the end
   of any temporary period *)
Lemma step_perm hmac mf pb v s e a : v_ban_monotone v = true ->
  perm_banned s a -> lifts_perm a e = false -> perm_banned (fst (step hmac mf pb v s e)) a.
Proof.
  intros Hm H Hl. destruct e; cbn [step fst]; try exact H; try discriminate Hl;
    try (apply handle_perm; assumption); try (rewrite Hm; apply ban_req_perm; exact H);
    try (destruct (clients s x); exact H).
  - destruct H as [H1 H2]. cbn in *. unfold perm_banned, upd. cbn. rewrite N.eqb_sym, Hl. auto.
  - destruct (v_anon_delete v); exact H.
  - unfold rekey. destruct (clients s x); exact H.
  - unfold close, perm_banned. cbn. destruct (evict_banned s k) as [E1 E2]. rewrite E1, E2. exact H.
  - unfold close, perm_banned. cbn. destruct (evict_banned s k) as [E1 E2]. rewrite E1, E2. exact H.
  - rewrite Hm. exact H.
  - destruct H as [H1 H2]. destruct (N.eqb_spec a0 a) as [->|Hne].
    + rewrite H2. split; assumption.
    + destruct (permb s a0); [split; assumption|]. unfold perm_banned. cbn. unfold upd.
      destruct (N.eqb_spec a a0); [congruence|auto].
Qed.

Theorem perm_ban_absorbing hmac mf pb v es : v_ban_monotone v = true -> forall s a,
  perm_banned s a -> forallb (fun e => negb (lifts_perm a e)) es = true ->
  perm_banned (run hmac mf pb v s es) a.
Proof.
  intro Hm. induction es as [|e es IH]; intros s a H Hall; [exact H|].
  cbn in Hall. apply andb_prop in Hall as [He Hall]. apply negb_true_iff in He.
  cbn. apply IH; [|exact Hall]. apply step_perm; assumption.
Qed.

(* the tree as found (banIP overwrites): a permanently banned address is free again after a later temporary ban request of an
   overlapped failing handshake and the end of that temporary period *)
Lemma pinned_perm_overwritten_refuted :
  exists es a,
    perm_banned (run toy_hmac 1 20 pinned_variant init (firstn 2 es)) a /\
    forallb (fun e => negb (lifts_perm a e)) (skipn 2 es) = true /\
    banned (run toy_hmac 1 20 pinned_variant init es) a = false /\
    perm_banned (run toy_hmac 1 20 current_variant init es) a.
Proof.
  exists [EOpen 1 0; EBanPerm 0; EBody 1 {| h_cid := 7; h_new := false; h_resp := None; h_tunnel := false |}; ETempLapse 0], 0.
  unfold perm_banned. repeat split; vm_compute; reflexivity.
Qed.

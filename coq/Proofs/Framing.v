(* Proofs/Framing.v — lemmas about Model/Framing.v *)
From TX Require Import Model.Framing.
From Coq Require Import ZArith ZifyN ZifyNat ZifyBool.
Ltac Zify.zify_post_hook ::= Z.div_mod_to_equations.

Open Scope N_scope.

Lemma read1_one r tyb r1 : read1 1 r = Some (tyb, r1) ->
  exists x, tyb = [x] /\ rest r = x :: rest r1 /\ endk r1 = endk r.
Proof.
  intros H. apply read1_progress in H; [|lia]. destruct H as (H1 & H2 & H3 & H4).
  unfold lenN in H2. destruct tyb as [|x [|y t]]; cbn [length] in *; try lia.
  exists x. cbn in H3. auto.
Qed.

Section Proofs.
  Variable MaxBody : N.
  Variable deflate : list byte -> list byte.
  Variable inflate : list byte -> option (list byte).
  Variable json_norm : list byte -> option (list byte).

  Notation read_packet := (read_packet current_variant MaxBody inflate json_norm).
  Notation read_all := (read_all current_variant MaxBody inflate json_norm).
  Notation read_stream := (read_stream current_variant MaxBody inflate json_norm).
  Notation parse_packet := (parse_packet current_variant MaxBody inflate json_norm).
  Notation parse_all := (parse_all current_variant MaxBody inflate json_norm).
  Notation parse_stream := (parse_stream current_variant MaxBody inflate json_norm).
  Notation encode := (encode current_variant deflate).
  Notation encode_all := (encode_all current_variant deflate).
  Notation finish := (finish current_variant MaxBody inflate json_norm).

  Definition is_pok (x : pres) : bool := match x with POk _ _ _ => true | _ => false end.

  (* one packet: the oracle-driven reader equals the oracle-free parser *)
  Lemma read_packet_spec r :
    exists r', read_packet r = (fst (parse_packet (rest r)), r') /\
               (is_pok (fst (parse_packet (rest r))) = true -> rest r' = snd (parse_packet (rest r))) /\
               endk r' = endk r.
  Proof.
    unfold Framing.read_packet, Framing.parse_packet.
    destruct (read1 1 r) as [[tyb r1]|] eqn:E1.
    2:{ apply read1_none in E1. rewrite E1. exists r. cbn. auto. }
    apply read1_one in E1. destruct E1 as (ty & -> & Hr & He1). rewrite Hr. cbn [hd].
    destruct (is_heartbeat ty). { exists r1. cbn. auto. }
    unfold read_len. cbn [v_single_len_read current_variant].
    destruct (read_full_spec (length (rest r1)) 4 r1 (le_n _)) as [A B].
    destruct (N.ltb_spec (lenN (rest r1)) 4) as [Hs|Hs].
    { destruct (B Hs) as (r2 & E2 & _ & He2). rewrite E2. exists r2. cbn. split; [reflexivity|].
      split; [discriminate|congruence]. }
    destruct (A Hs) as (r2 & E2 & Hr2 & He2). rewrite E2.
    change (N.to_nat 4) with 4%nat in *. rewrite <- Hr2.
    destruct (MaxBody <? de32 (firstn 4 (rest r1))).
    { exists r2. cbn. split; [reflexivity|]. split; [discriminate|congruence]. }
    set (n := de32 (firstn 4 (rest r1))).
    destruct (read_full_spec (length (rest r2)) n r2 (le_n _)) as [A3 B3].
    destruct (N.ltb_spec (lenN (rest r2)) n) as [Hb|Hb].
    { destruct (B3 Hb) as (r3 & E3 & _ & He3). rewrite E3. exists r3. cbn. split; [reflexivity|].
      split; [discriminate|congruence]. }
    destruct (A3 Hb) as (r3 & E3 & Hr3 & He3). rewrite E3. exists r3. cbn [fst snd].
    assert (Hl : lenN (firstn (N.to_nat n) (rest r2)) = n).
    { unfold lenN in *. rewrite firstn_length. lia. }
    rewrite Hl. split; [reflexivity|]. split; [intros _; exact Hr3|congruence].
  Qed.

  Lemma parse_packet_consumes s ty b c s' :
    parse_packet s = (POk ty b c, s') -> (length s' < length s)%nat.
  Proof.
    unfold Framing.parse_packet. destruct s as [|t s1]; [discriminate|].
    destruct (is_heartbeat t). { intros H; inversion H; subst; cbn; lia. }
    destruct (N.ltb_spec (lenN s1) 4) as [|H4]; [discriminate|].
    destruct (MaxBody <? _); [discriminate|].
    destruct (N.ltb_spec (lenN (skipn 4 s1)) (de32 (firstn 4 s1))) as [|Hb]; [discriminate|].
    intros H. apply (f_equal snd) in H. cbn [snd] in H. subst s'. unfold lenN in *. cbn [length]. rewrite !skipn_length in *. lia.
  Qed.

  Lemma read_all_spec fuel : forall r, (length (rest r) < fuel)%nat ->
    read_all fuel r = parse_all fuel (rest r).
  Proof.
    induction fuel as [|f IH]; intros r Hf; [lia|].
    cbn [Framing.read_all Framing.parse_all].
    destruct (read_packet_spec r) as (r' & E & Hrest & _). rewrite E.
    destruct (parse_packet (rest r)) as [res s'] eqn:Ep. cbn [fst snd] in *.
    destruct res as [ty b c|e c]; [|reflexivity].
    rewrite <- (Hrest eq_refl). f_equal. apply IH.
    rewrite (Hrest eq_refl). apply parse_packet_consumes in Ep. lia.
  Qed.

  (* (3) chunking is irrelevant, for ANY byte string (not only writer output) *)
  Theorem read_stream_is_parse_stream s cuts : read_stream s cuts = parse_stream s.
  Proof. unfold Framing.read_stream, Framing.parse_stream. apply read_all_spec. cbn. lia. Qed.

  Corollary chunking_irrelevant s c1 c2 : read_stream s c1 = read_stream s c2.
  Proof. now rewrite !read_stream_is_parse_stream. Qed.

  (* the decoder never runs out of fuel: it terminates on every finite stream *)
  Lemma parse_all_no_fuel fuel : forall s, (length s < fuel)%nat -> ~ In (PErr EFuel 0) (parse_all fuel s).
  Proof.
    induction fuel as [|f IH]; intros s Hf; [lia|]. cbn [Framing.parse_all].
    destruct (parse_packet s) as [res s'] eqn:Ep. destruct res as [ty b c|e c].
    - intros [H|H]; [discriminate|]. apply parse_packet_consumes in Ep. apply (IH s'); [lia|exact H].
    - intros [H|[]]. inversion H; subst.
      unfold Framing.parse_packet in Ep. destruct s as [|t s1]; [discriminate|].
      destruct (is_heartbeat t); [discriminate|]. destruct (lenN s1 <? 4); [discriminate|].
      destruct (MaxBody <? _); [discriminate|]. destruct (lenN (skipn 4 s1) <? _); [discriminate|].
      unfold Framing.finish in Ep. inversion Ep as [[H1 H2]].
      destruct (is_encrypted t); [discriminate|].
      destruct (if is_compressed t then _ else _); [|discriminate].
      destruct (is_json_cmd t); [destruct (json_norm _)|]; discriminate.
  Qed.

  (* ---- round trip ---- *)
  Hypothesis inflate_deflate : forall b, inflate (deflate b) = Some b.
  Hypothesis MaxBody_u32 : MaxBody < 4294967296.

  (* packets the writer is specified for: base type without flag bits (flags are chosen by the
     writer's compression argument), command types carry a body that is the JSON normal form of a
     CommandPacket, and the body as it goes on the wire fits the limit *)
  Definition wf_packet (cp : bool * packet) : Prop :=
    p_ty (snd cp) < 64 /\
    lenN (wire_body deflate (fst cp) (snd cp)) <= MaxBody /\
    lenN (p_body (snd cp)) <= MaxBody /\
    (is_json_cmd (p_ty (snd cp)) = true -> json_norm (p_body (snd cp)) = Some (p_body (snd cp))).

  Definition expect (cp : bool * packet) : pres :=
    let ty := wire_ty (fst cp) (snd cp) in
    if is_heartbeat ty then POk ty [] 1
    else POk ty (p_body (snd cp)) (5 + lenN (wire_body deflate (fst cp) (snd cp))).

  Lemma flag_facts t : t < 64 ->
    is_encrypted t = false /\ is_encrypted (N.lor t 64) = false /\
    is_compressed t = false /\ is_compressed (N.lor t 64) = true /\
    is_heartbeat (N.lor t 64) = is_heartbeat t /\ is_json_cmd (N.lor t 64) = is_json_cmd t.
  Proof.
    intros H.
    assert (Hall : forallb (fun t =>
       negb (is_encrypted t) && negb (is_encrypted (N.lor t 64)) && negb (is_compressed t) &&
       is_compressed (N.lor t 64) && Bool.eqb (is_heartbeat (N.lor t 64)) (is_heartbeat t) &&
       Bool.eqb (is_json_cmd (N.lor t 64)) (is_json_cmd t)) (map N.of_nat (seq 0 64)) = true)
      by (vm_compute; reflexivity).
    rewrite forallb_forall in Hall.
    specialize (Hall t). rewrite in_map_iff in Hall.
    assert (Hin : exists x, N.of_nat x = t /\ In x (seq 0 64)).
    { exists (N.to_nat t). split; [lia|]. apply in_seq. lia. }
    specialize (Hall Hin).
    repeat (apply andb_prop in Hall; destruct Hall as [Hall ?]).
    repeat match goal with
           | H : negb _ = true |- _ => apply negb_true_iff in H
           | H : Bool.eqb _ _ = true |- _ => apply Bool.eqb_prop in H
           end.
    auto 10.
  Qed.

  Lemma parse_packet_encode cp tail : wf_packet cp ->
    parse_packet (encode (fst cp) (snd cp) ++ tail) = (expect cp, tail).
  Proof.
    destruct cp as [c p]. unfold wf_packet, expect. cbn [fst snd]. intros (Hty & Hlen & Hraw & Hjs).
    destruct (flag_facts (p_ty p) Hty) as (F1 & F2 & F3 & F4 & F5 & F6).
    unfold Framing.encode. cbn [v_omit_empty_len current_variant andb].
    destruct (is_heartbeat (wire_ty c p)) eqn:Ehb.
    { cbn [app]. unfold Framing.parse_packet. now rewrite Ehb. }
    cbn [app]. unfold Framing.parse_packet. rewrite Ehb.
    set (body := wire_body deflate c p) in *.
    assert (H4 : lenN (be32 (lenN body) ++ body ++ tail) <? 4 = false).
    { rewrite lenN_app. unfold lenN at 1. rewrite be32_length. lia. }
    rewrite <- app_assoc, H4.
    change (firstn 4 (be32 (lenN body) ++ body ++ tail)) with (be32 (lenN body)).
    change (skipn 4 (be32 (lenN body) ++ body ++ tail)) with (body ++ tail).
    rewrite de32_be32 by lia.
    destruct (N.ltb_spec MaxBody (lenN body)) as [Hx|_]; [lia|].
    destruct (N.ltb_spec (lenN (body ++ tail)) (lenN body)) as [Hx|_]; [rewrite lenN_app in Hx; lia|].
    assert (Hn : N.to_nat (lenN body) = length body) by (unfold lenN; lia).
    rewrite Hn, firstn_app, Nat.sub_diag, firstn_all. cbn [firstn]. rewrite app_nil_r.
    rewrite skipn_app, Nat.sub_diag, skipn_all. cbn [skipn app].
    f_equal. unfold Framing.finish, body, wire_ty, wire_body in *.
    destruct c.
    - rewrite F2, F4, inflate_deflate, F6. cbn [v_unbounded_inflate current_variant negb andb].
      destruct (N.ltb_spec MaxBody (lenN (p_body p))) as [Hx|_]; [lia|].
      destruct (is_json_cmd (p_ty p)); [rewrite (Hjs eq_refl)|]; reflexivity.
    - rewrite F1, F3. destruct (is_json_cmd (p_ty p)); [rewrite (Hjs eq_refl)|]; reflexivity.
  Qed.

  Lemma encode_nonempty c p : (0 < length (encode c p))%nat.
  Proof. unfold Framing.encode. destruct (is_heartbeat _); [cbn; lia|]. cbn [v_omit_empty_len current_variant andb]. cbn; lia. Qed.

  Lemma parse_all_encode_all cps : Forall wf_packet cps ->
    forall fuel, (length (encode_all cps) < fuel)%nat ->
    parse_all fuel (encode_all cps) = map expect cps ++ [PErr EEnd 0].
  Proof.
    induction cps as [|cp cps IH]; intros Hwf fuel Hf.
    - destruct fuel; [lia|]. reflexivity.
    - inversion Hwf as [|? ? Hcp Hrest]; subst.
      destruct fuel as [|f]; [lia|]. cbn [Framing.parse_all Framing.encode_all flat_map].
      rewrite (parse_packet_encode cp _ Hcp).
      change (flat_map _ cps) with (encode_all cps).
      assert (He : exists ty b c, expect cp = POk ty b c).
      { unfold expect. destruct (is_heartbeat _); eauto. }
      destruct He as (ty & b & c & He). rewrite He. cbn [map app]. rewrite He. f_equal.
      apply IH; [exact Hrest|].
      cbn [Framing.encode_all flat_map] in Hf. rewrite app_length in Hf.
      change (flat_map _ cps) with (encode_all cps) in Hf.
      pose proof (encode_nonempty (fst cp) (snd cp)). lia.
  Qed.

  (* (1)+(2): round trip under every chunking, with exact per-packet consumption *)
  Theorem roundtrip_any_chunking cps cuts : Forall wf_packet cps ->
    read_stream (encode_all cps) cuts = map expect cps ++ [PErr EEnd 0].
  Proof.
    intros Hwf. rewrite read_stream_is_parse_stream. unfold Framing.parse_stream.
    apply parse_all_encode_all; [exact Hwf|lia].
  Qed.

  (* consumption is exactly the encoded length of each packet, so the reader stays aligned *)
  Lemma expect_consumed cp : wf_packet cp ->
    match expect cp with POk _ _ c => c = lenN (encode (fst cp) (snd cp)) | PErr _ _ => False end.
  Proof.
    intros _. unfold expect, Framing.encode. cbn [v_omit_empty_len current_variant andb].
    destruct (is_heartbeat _); [reflexivity|].
    unfold lenN. cbn [length]. rewrite app_length, be32_length. lia.
  Qed.
End Proofs.

(* ---- the two defects of the pinned tree, as refuted statements about the faithful pinned model ---- *)
Definition id_deflate (b : list byte) := b.
Definition id_inflate (b : list byte) := Some b.
Definition any_json (b : list byte) := Some b.

(* (a) pinned tree: the length field was fetched with a single Read, so a 2-byte chunking of a
   valid stream fails while the one-shot chunking succeeds *)
Lemma pinned_single_len_read_refuted :
  exists s c1 c2, Framing.read_stream pinned_variant 16777216 id_inflate any_json s c1
               <> Framing.read_stream pinned_variant 16777216 id_inflate any_json s c2.
Proof. exists [32;0;0;0;1;7], [], [2%nat;2%nat;2%nat]. vm_compute. discriminate. Qed.

(* (b) pinned tree: an empty-bodied non-heartbeat packet was written without a length field,
   so the next packet is misread *)
Lemma pinned_omit_empty_len_refuted :
  exists cps, Framing.read_stream pinned_variant 16777216 id_inflate any_json
                (Framing.encode_all pinned_variant id_deflate cps) []
              <> map (expect id_deflate) cps ++ [PErr EEnd 0].
Proof.
  exists [(false, {| p_ty := 35; p_body := [] |}); (false, {| p_ty := 32; p_body := [1;2;3] |})].
  vm_compute. discriminate.
Qed.

Lemma premises_satisfiable :
  Forall (wf_packet 16777216 id_deflate any_json)
    [(false, {| p_ty := 32; p_body := [1;2;3]%N |}); (true, {| p_ty := 35; p_body := [] |});
     (false, {| p_ty := 3; p_body := [] |}); (true, {| p_ty := 16; p_body := [123;125]%N |})]
  /\ (forall b, id_inflate (id_deflate b) = Some b).
Proof. split; [repeat constructor; vm_compute; try reflexivity; intros; discriminate | reflexivity]. Qed.
Close Scope N_scope.

(* ---- WebSocket transports: the adapter is a chunk oracle with carry (Proofs/WsConn.v), so the reader run
   over it equals the oracle-free parser on the concatenation of the messages, whatever the message
   boundaries are ---- *)
From TX Require Import Model.WsConn Proofs.WsConn.
Section Ws.
  Variable MaxBody : N.
  Variable deflate : list byte -> list byte.
  Variable inflate : list byte -> option (list byte).
  Variable json_norm : list byte -> option (list byte).
  Hypothesis inflate_deflate : forall b, inflate (deflate b) = Some b.
  Hypothesis MaxBody_u32 : (MaxBody < 4294967296)%N.

  Theorem ws_reader_is_parser (msgs : list (list byte)) :
    Framing.read_all current_variant MaxBody inflate json_norm (S (length (concat msgs)))
                     (ws_abs {| w_buf := []; w_msgs := msgs |})
    = Framing.parse_stream current_variant MaxBody inflate json_norm (concat msgs).
  Proof.
    unfold Framing.parse_stream.
    rewrite (read_all_spec MaxBody deflate inflate json_norm (S (length (concat msgs)))
                           (ws_abs {| w_buf := []; w_msgs := msgs |})); [reflexivity|].
    cbn. lia.
  Qed.

  Theorem ws_roundtrip cps (msgs : list (list byte)) :
    Forall (wf_packet MaxBody deflate json_norm) cps ->
    concat msgs = Framing.encode_all current_variant deflate cps ->
    Framing.read_all current_variant MaxBody inflate json_norm (S (length (concat msgs)))
                     (ws_abs {| w_buf := []; w_msgs := msgs |})
    = map (expect deflate) cps ++ [PErr EEnd 0].
  Proof.
    intros Hwf Hm. rewrite ws_reader_is_parser, Hm. unfold Framing.parse_stream.
    apply (parse_all_encode_all MaxBody deflate inflate json_norm inflate_deflate MaxBody_u32 cps Hwf). lia.
  Qed.
End Ws.

(* Proofs/Forward.v — lemmas about Model/Forward.v *)
From TX Require Import Model.Forward.
From Coq Require Import ZArith ZifyN ZifyNat ZifyBool.

Lemma iter_shift {A} (f : A -> A) n x : Nat.iter (S n) f x = Nat.iter n f (f x).
Proof. induction n as [|n IH]; [reflexivity|]. cbn [Nat.iter nat_rect] in *. now rewrite IH. Qed.

Lemma firstn_fill c buf : firstn (length c) (fill c buf) = c.
Proof. unfold fill. rewrite firstn_app, Nat.sub_diag, firstn_all. cbn [firstn]. apply app_nil_r. Qed.

(* ---- with one buffer per direction the system is the product of two solo loops ---- *)
Definition view (s : fsh * list flo) : option ((phase * dirst) * (phase * dirst)) :=
  match snd s with
  | [(false, p0); (true, p1)] => Some ((p0, sh_up (fst s)), (p1, sh_down (fst s)))
  | _ => None
  end.

Lemma dirst_eta x : {| d_buf := d_buf x; d_src := d_src x; d_snk := d_snk x |} = x.
Proof. destruct x; reflexivity. Qed.

Lemma step_view s a b i : view s = Some (a, b) ->
  view (sys_step fsh flo (fstep false) s i) =
  Some (match i with 0 => (solo a, b) | 1 => (a, solo b) | _ => (a, b) end).
Proof.
  destruct s as [sh los]. unfold view. cbn [fst snd].
  destruct los as [|[[|] p0] [|[[|] p1] [|x los]]]; try discriminate.
  intros H. injection H as <- <-. destruct sh as [u d].
  destruct i as [|[|i]]; unfold sys_step; cbn [snd fst nth_error].
  - unfold fstep, solo. cbn [fst snd bufdir getd sh_up sh_down].
    destruct p0 as [|n|]; cbn [upd_nth fst snd].
    + destruct (d_src u) as [|c t]; cbn [upd_nth fst snd setd getd sh_up sh_down with_src with_buf d_buf d_src d_snk]; reflexivity.
    + cbn [setd getd sh_up sh_down]. reflexivity.
    + reflexivity.
  - unfold fstep, solo. cbn [fst snd bufdir getd sh_up sh_down].
    destruct p1 as [|n|]; cbn [upd_nth fst snd].
    + destruct (d_src d) as [|c t]; cbn [upd_nth fst snd setd getd sh_up sh_down with_src with_buf d_buf d_src d_snk]; reflexivity.
    + cbn [setd getd sh_up sh_down]. reflexivity.
    + reflexivity.
  - destruct i; reflexivity.
Qed.

Lemma run_view sched : forall s a b, view s = Some (a, b) ->
  view (frun false s sched) =
  Some (Nat.iter (count_occ Nat.eq_dec sched 0) solo a, Nat.iter (count_occ Nat.eq_dec sched 1) solo b).
Proof.
  induction sched as [|i rest IH]; intros s a b Hv; [exact Hv|].
  unfold frun, run in *. cbn [fold_left].
  pose proof (step_view s a b i Hv) as Hs.
  destruct i as [|[|i]]; rewrite (IH _ _ _ Hs); cbn [count_occ];
    repeat (let E := fresh "E" in destruct (Nat.eq_dec _ _) as [E|E]; try discriminate E; try (exfalso; apply E; reflexivity));
    rewrite ?iter_shift; reflexivity.
Qed.

Lemma view_init bu bd up down :
  view (finit bu bd up down) = Some ((PRead, {| d_buf := bu; d_src := up; d_snk := [] |}), (PRead, {| d_buf := bd; d_src := down; d_snk := [] |})).
Proof. reflexivity. Qed.

Lemma view_sinks s a b : view s = Some (a, b) -> sink_up s = d_snk (snd a) /\ sink_down s = d_snk (snd b).
Proof.
  destruct s as [sh los]. unfold view, sink_up, sink_down. cbn [fst snd].
  destruct los as [|[[|] p0] [|[[|] p1] [|x los]]]; try discriminate. intros H. injection H as <- <-. auto.
Qed.
Lemma view_phases s a b : view s = Some (a, b) -> phase_of 0 s = fst a /\ phase_of 1 s = fst b.
Proof.
  destruct s as [sh los]. unfold view, phase_of. cbn [fst snd].
  destruct los as [|[[|] p0] [|[[|] p1] [|x los]]]; try discriminate. intros H. injection H as <- <-. auto.
Qed.

(* NON-INTERFERENCE: what a direction has delivered after ANY schedule is what its own loop delivers on its own after
   as many steps as the schedule gave it — a function of its own source (and step count) only *)
Theorem directions_independent bu bd up down sched :
  sink_up (frun false (finit bu bd up down) sched)
    = d_snk (snd (Nat.iter (count_occ Nat.eq_dec sched 0) solo (PRead, {| d_buf := bu; d_src := up; d_snk := [] |}))) /\
  sink_down (frun false (finit bu bd up down) sched)
    = d_snk (snd (Nat.iter (count_occ Nat.eq_dec sched 1) solo (PRead, {| d_buf := bd; d_src := down; d_snk := [] |}))).
Proof.
  pose proof (run_view sched _ _ _ (view_init bu bd up down)) as Hv.
  destruct (view_sinks _ _ _ Hv) as [H1 H2]. cbn [snd] in *. auto.
Qed.

Corollary upload_ignores_download bu bd bd' up down down' sched :
  sink_up (frun false (finit bu bd up down) sched) = sink_up (frun false (finit bu bd' up down') sched).
Proof.
  rewrite (proj1 (directions_independent bu bd up down sched)), (proj1 (directions_independent bu bd' up down' sched)). reflexivity.
Qed.
Corollary download_ignores_upload bu bu' bd up up' down sched :
  sink_down (frun false (finit bu bd up down) sched) = sink_down (frun false (finit bu' bd up' down) sched).
Proof.
  rewrite (proj2 (directions_independent bu bd up down sched)), (proj2 (directions_independent bu' bd up' down sched)). reflexivity.
Qed.

(* ---- one loop: conservation (unchanged, in order) and completion ---- *)
Definition inflight (x : phase * dirst) : list byte :=
  match fst x with PWrite n => firstn n (d_buf (snd x)) | _ => [] end.
Definition conserved (total : list byte) (x : phase * dirst) : Prop :=
  d_snk (snd x) ++ inflight x ++ concat (d_src (snd x)) = total /\ (fst x = PDone -> d_src (snd x) = []).

Lemma solo_conserved total x : conserved total x -> conserved total (solo x).
Proof.
  destruct x as [ph ds]. unfold conserved, solo, inflight. cbn [fst snd]. intros [H Hd].
  destruct ph as [|n|]; cbn [fst snd].
  - destruct (d_src ds) as [|c t] eqn:Es; cbn [fst snd d_snk d_src d_buf with_buf with_src].
    + rewrite Es. split; [exact H|reflexivity].
    + rewrite firstn_fill. cbn [concat app] in *. split; [exact H|discriminate].
  - cbn [d_snk d_src d_buf with_snk]. split; [|discriminate]. rewrite <- H. cbn [app]. now rewrite <- app_assoc.
  - split; [exact H|exact Hd].
Qed.

Lemma iter_conserved total n x : conserved total x -> conserved total (Nat.iter n solo x).
Proof. intros H. induction n as [|n IH]; [exact H|]. cbn [Nat.iter nat_rect]. apply solo_conserved, IH. Qed.

Lemma iter_done n ds : Nat.iter n solo (PDone, ds) = (PDone, ds).
Proof. induction n as [|n IH]; [reflexivity|]. rewrite iter_shift. exact IH. Qed.

Lemma solo_drain src : forall buf snk k,
  exists buf', Nat.iter (2 * length src + 1 + k) solo (PRead, {| d_buf := buf; d_src := src; d_snk := snk |})
               = (PDone, {| d_buf := buf'; d_src := []; d_snk := snk ++ concat src |}).
Proof.
  induction src as [|c t IH]; intros buf snk k.
  - exists buf. cbn [length Nat.mul Nat.add]. rewrite iter_shift. unfold solo at 2. cbn [fst snd d_src].
    rewrite iter_done. cbn [concat]. now rewrite app_nil_r.
  - replace (2 * length (c :: t) + 1 + k) with (S (S (2 * length t + 1 + k))) by (cbn [length]; lia).
    rewrite !iter_shift. unfold solo at 3. cbn [fst snd d_src with_src with_buf d_buf d_snk].
    unfold solo at 2. cbn [fst snd with_snk with_buf with_src d_buf d_src d_snk]. rewrite firstn_fill.
    destruct (IH (fill c buf) (snk ++ c) k) as (buf' & E). unfold with_snk, with_buf, with_src. cbn [d_buf d_src d_snk]. rewrite E. exists buf'. cbn [concat]. now rewrite app_assoc.
Qed.

(* every schedule: each direction has delivered a prefix of its own source, byte for byte (sink ++ in flight ++ not yet
   read = source); a direction whose loop has ended has delivered all of it *)
Theorem forward_conserves bu bd up down sched :
  let s := frun false (finit bu bd up down) sched in
  (exists rest, sink_up s ++ rest = concat up) /\ (exists rest, sink_down s ++ rest = concat down) /\
  (phase_of 0 s = PDone -> sink_up s = concat up) /\ (phase_of 1 s = PDone -> sink_down s = concat down).
Proof.
  cbn zeta. pose proof (run_view sched _ _ _ (view_init bu bd up down)) as Hv.
  destruct (view_sinks _ _ _ Hv) as [S1 S2]. destruct (view_phases _ _ _ Hv) as [P1 P2]. cbn [fst snd] in *.
  assert (C1 : conserved (concat up) (PRead, {| d_buf := bu; d_src := up; d_snk := [] |})) by (split; [reflexivity|discriminate]).
  assert (C2 : conserved (concat down) (PRead, {| d_buf := bd; d_src := down; d_snk := [] |})) by (split; [reflexivity|discriminate]).
  apply (iter_conserved _ (count_occ Nat.eq_dec sched 0)) in C1. apply (iter_conserved _ (count_occ Nat.eq_dec sched 1)) in C2.
  destruct C1 as [C1 D1]. destruct C2 as [C2 D2]. rewrite S1, S2, P1, P2.
  split; [eexists; exact C1|]. split; [eexists; exact C2|].
  split; intros Hd.
  - specialize (D1 Hd). unfold inflight in C1. rewrite Hd, D1 in C1. cbn [concat app] in C1. now rewrite !app_nil_r in C1.
  - specialize (D2 Hd). unfold inflight in C2. rewrite Hd, D2 in C2. cbn [concat app] in C2. now rewrite !app_nil_r in C2.
Qed.

(* completion: a schedule that gives a direction 2 steps per chunk plus one (the EOF Read) ends it with everything delivered,
   however the other direction's steps are interleaved with it *)
Theorem forward_completes bu bd up down sched :
  (2 * length up + 1 <= count_occ Nat.eq_dec sched 0 ->
     phase_of 0 (frun false (finit bu bd up down) sched) = PDone /\ sink_up (frun false (finit bu bd up down) sched) = concat up) /\
  (2 * length down + 1 <= count_occ Nat.eq_dec sched 1 ->
     phase_of 1 (frun false (finit bu bd up down) sched) = PDone /\ sink_down (frun false (finit bu bd up down) sched) = concat down).
Proof.
  pose proof (run_view sched _ _ _ (view_init bu bd up down)) as Hv.
  destruct (view_sinks _ _ _ Hv) as [S1 S2]. destruct (view_phases _ _ _ Hv) as [P1 P2]. cbn [fst snd] in *.
  split; intros Hc.
  - destruct (solo_drain up bu [] (count_occ Nat.eq_dec sched 0 - (2 * length up + 1))) as (b' & E).
    replace (2 * length up + 1 + (count_occ Nat.eq_dec sched 0 - (2 * length up + 1))) with (count_occ Nat.eq_dec sched 0) in E by lia.
    rewrite S1, P1, E. auto.
  - destruct (solo_drain down bd [] (count_occ Nat.eq_dec sched 1 - (2 * length down + 1))) as (b' & E).
    replace (2 * length down + 1 + (count_occ Nat.eq_dec sched 1 - (2 * length down + 1))) with (count_occ Nat.eq_dec sched 1) in E by lia.
    rewrite S2, P2, E. auto.
Qed.

(* ---- the shared-buffer design is refuted: upload Read, download Read, upload Write ---- *)
Lemma shared_buffer_refuted :
  exists up down down' sched,
    sink_up (frun true (finit [] [] up down) sched) <> sink_up (frun true (finit [] [] up down') sched) /\
    ~ (exists rest, sink_up (frun true (finit [] [] up down) sched) ++ rest = concat up).
Proof.
  exists [[65;65;65;65]%N], [[66;66;66;66]%N], [[67;67;67;67]%N], [0; 1; 0].
  split; [vm_compute; discriminate|]. vm_compute. intros [rest H]. discriminate.
Qed.

Lemma forward_example :
  let s := frun false (finit [9;9]%N [] [[1;2;3]; [4]]%N [[7;8]]%N) [0; 1; 0; 0; 1; 7; 1; 0; 0] in
  sink_up s = [1;2;3;4]%N /\ sink_down s = [7;8]%N /\ phase_of 0 s = PDone /\ phase_of 1 s = PDone.
Proof. vm_compute. auto. Qed.

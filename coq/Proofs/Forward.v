(* Proofs/Forward.v — lemmas about Model/Forward.v *)
From TX Require Import Model.Forward.
From Coq Require Import ZArith ZifyN ZifyNat ZifyBool.

Lemma iter_shift {A} (f : A -> A) n x : Nat.iter (S n) f x = Nat.iter n f (f x).
Proof. induction n as [|n IH]; [reflexivity|]. cbn [Nat.iter nat_rect] in *. now rewrite IH. Qed.

Lemma iter_plus {A} (f : A -> A) n m x : Nat.iter (n + m) f x = Nat.iter n f (Nat.iter m f x).
Proof. induction n as [|n IH]; [reflexivity|]. change (S n + m) with (S (n + m)). cbn [Nat.iter nat_rect]. f_equal. exact IH. Qed.

Lemma firstn_fill c buf : firstn (length c) (fill c buf) = c.
Proof. unfold fill. rewrite firstn_app, Nat.sub_diag, firstn_all. cbn [firstn]. apply app_nil_r. Qed.

(* ---- with one buffer per direction the system is the product of two solo loops ---- *)
Definition view (s : fsh * list flo) : option ((phase * dirst) * (phase * dirst)) :=
  match snd s with
  | [(false, p0); (true, p1)] => Some ((p0, sh_up (fst s)), (p1, sh_down (fst s)))
  | _ => None
  end.

Lemma step_view s a b i : view s = Some (a, b) ->
  view (sys_step fsh flo (fstep false) s i) =
  Some (match i with 0 => (solo a, b) | 1 => (a, solo b) | _ => (a, b) end).
Proof.
  destruct s as [sh los]. unfold view. cbn [fst snd].
  destruct los as [|[[|] p0] [|[[|] p1] [|x los]]]; try discriminate.
  intros H. injection H as <- <-. destruct sh as [u d].
  destruct i as [|[|i]]; unfold sys_step; cbn [snd fst nth_error].
  - unfold fstep, solo. cbn [fst snd bufdir getd sh_up sh_down].
    destruct p0 as [|n l|]; cbn [upd_nth fst snd].
    + destruct (d_src u) as [|c t]; cbn [upd_nth fst snd setd getd sh_up sh_down with_src with_buf d_buf d_src d_snk]; reflexivity.
    + cbn [setd getd sh_up sh_down]. reflexivity.
    + reflexivity.
  - unfold fstep, solo. cbn [fst snd bufdir getd sh_up sh_down].
    destruct p1 as [|n l|]; cbn [upd_nth fst snd].
    + destruct (d_src d) as [|c t]; cbn [upd_nth fst snd setd getd sh_up sh_down with_src with_buf d_buf d_src d_snk]; reflexivity.
    + cbn [setd getd sh_up sh_down]. reflexivity.
    + reflexivity.
  - destruct i; reflexivity.
Qed.

Lemma run_view sched : forall s a b, view s = Some (a, b) ->
  view (frun false s sched) =
  Some (Nat.iter (count_occ Nat.eq_dec sched 0) solo a, Nat.iter (count_occ Nat.eq_dec sched 1) solo b).
Proof.
  induction sched as [|i rest IH]; intros s a b Hv; [exact Hv|].
  unfold frun, run in *. cbn [fold_left].
  pose proof (step_view s a b i Hv) as Hs.
  destruct i as [|[|i]]; rewrite (IH _ _ _ Hs); cbn [count_occ];
    repeat (let E := fresh "E" in destruct (Nat.eq_dec _ _) as [E|E]; try discriminate E; try (exfalso; apply E; reflexivity));
    rewrite ?iter_shift; reflexivity.
Qed.

Lemma view_init eu ed bu bd up down :
  view (finit_e eu ed bu bd up down) = Some ((PRead, dinit bu up eu), (PRead, dinit bd down ed)).
Proof. reflexivity. Qed.

Lemma view_fields s a b : view s = Some (a, b) ->
  sink_up s = d_snk (snd a) /\ sink_down s = d_snk (snd b) /\ phase_of 0 s = fst a /\ phase_of 1 s = fst b /\
  sent_counter s = d_rcnt (snd a) /\ recv_counter s = d_wcnt (snd b).
Proof.
  destruct s as [sh los]. unfold view, sink_up, sink_down, phase_of, sent_counter, recv_counter. cbn [fst snd].
  destruct los as [|[[|] p0] [|[[|] p1] [|x los]]]; try discriminate. intros H. injection H as <- <-. cbn. auto 10.
Qed.

(* NON-INTERFERENCE: what a direction has delivered after ANY schedule is what its own loop delivers on its own after
   as many steps as the schedule gave it — a function of its own source (and step count) only *)
Theorem directions_independent_e eu ed bu bd up down sched :
  sink_up (frun false (finit_e eu ed bu bd up down) sched)
    = d_snk (snd (Nat.iter (count_occ Nat.eq_dec sched 0) solo (PRead, dinit bu up eu))) /\
  sink_down (frun false (finit_e eu ed bu bd up down) sched)
    = d_snk (snd (Nat.iter (count_occ Nat.eq_dec sched 1) solo (PRead, dinit bd down ed))).
Proof.
  pose proof (run_view sched _ _ _ (view_init eu ed bu bd up down)) as Hv.
  destruct (view_fields _ _ _ Hv) as (H1 & H2 & _). cbn [snd] in *. auto.
Qed.

Theorem directions_independent bu bd up down sched :
  sink_up (frun false (finit bu bd up down) sched)
    = d_snk (snd (Nat.iter (count_occ Nat.eq_dec sched 0) solo (PRead, dinit bu up false))) /\
  sink_down (frun false (finit bu bd up down) sched)
    = d_snk (snd (Nat.iter (count_occ Nat.eq_dec sched 1) solo (PRead, dinit bd down false))).
Proof. exact (directions_independent_e false false bu bd up down sched). Qed.

Corollary upload_ignores_download eu ed ed' bu bd bd' up down down' sched :
  sink_up (frun false (finit_e eu ed bu bd up down) sched) = sink_up (frun false (finit_e eu ed' bu bd' up down') sched).
Proof.
  rewrite (proj1 (directions_independent_e eu ed bu bd up down sched)), (proj1 (directions_independent_e eu ed' bu bd' up down' sched)). reflexivity.
Qed.
Corollary download_ignores_upload eu eu' ed bu bu' bd up up' down sched :
  sink_down (frun false (finit_e eu ed bu bd up down) sched) = sink_down (frun false (finit_e eu' ed bu' bd up' down) sched).
Proof.
  rewrite (proj2 (directions_independent_e eu ed bu bd up down sched)), (proj2 (directions_independent_e eu' ed bu' bd up' down sched)). reflexivity.
Qed.

(* ---- one loop: conservation (unchanged, in order), counters, completion ---- *)
Definition inflight (x : phase * dirst) : list byte :=
  match fst x with PWrite n _ => firstn n (d_buf (snd x)) | _ => [] end.
Definition conserved (total : list byte) (x : phase * dirst) : Prop :=
  d_snk (snd x) ++ inflight x ++ concat (d_src (snd x)) = total /\
  (fst x = PDone -> d_src (snd x) = []) /\
  (forall n, fst x = PWrite n true -> d_src (snd x) = []) /\
  d_rcnt (snd x) = length (d_snk (snd x)) + length (inflight x) /\
  d_wcnt (snd x) = length (d_snk (snd x)).

Lemma solo_conserved total x : conserved total x -> conserved total (solo x).
Proof.
  destruct x as [ph ds]. unfold conserved, solo, inflight. cbn [fst snd]. intros (H & Hd & Hl & Hr & Hw).
  destruct ph as [|n l|]; cbn [fst snd].
  - destruct (d_src ds) as [|c t] eqn:Es; cbn [fst snd d_snk d_src d_buf d_rcnt d_wcnt with_buf with_src].
    + rewrite Es. cbn [length] in *. repeat split; auto; try discriminate.
    + rewrite firstn_fill. cbn [concat app length] in *. split; [exact H|]. split; [discriminate|].
      split; [|split; lia].
      intros n Hn. injection Hn as _ Hn. unfold is_last in Hn. apply andb_prop in Hn. destruct Hn as [_ Hn]. destruct t; [reflexivity|discriminate].
  - cbn [d_snk d_src d_buf d_rcnt d_wcnt with_snk]. rewrite app_length.
    destruct l; cbn [app length].
    + split; [rewrite <- H; now rewrite <- app_assoc|]. split; [intros _; apply (Hl n eq_refl)|].
      split; [intros m Hm; discriminate|]. lia.
    + split; [rewrite <- H; now rewrite <- app_assoc|]. split; [discriminate|].
      split; [intros m Hm; discriminate|]. lia.
  - repeat split; auto.
Qed.

Lemma iter_conserved total n x : conserved total x -> conserved total (Nat.iter n solo x).
Proof. intros H. induction n as [|n IH]; [exact H|]. cbn [Nat.iter nat_rect]. apply solo_conserved, IH. Qed.

Lemma dinit_conserved b src e : conserved (concat src) (PRead, dinit b src e).
Proof. unfold conserved, inflight, dinit. cbn. repeat split; auto; discriminate. Qed.

Lemma iter_done n ds : Nat.iter n solo (PDone, ds) = (PDone, ds).
Proof. induction n as [|n IH]; [reflexivity|]. rewrite iter_shift. exact IH. Qed.

(* enough steps end the loop, whether or not the source reports its end together with the last chunk *)
Lemma solo_drain_done src : forall buf e snk rc wc k,
  fst (Nat.iter (2 * length src + 1 + k) solo
         (PRead, {| d_buf := buf; d_src := src; d_eofl := e; d_snk := snk; d_rcnt := rc; d_wcnt := wc |})) = PDone.
Proof.
  induction src as [|c t IH]; intros buf e snk rc wc k.
  - cbn [length Nat.mul Nat.add]. rewrite iter_shift. unfold solo at 2. cbn [fst snd d_src]. now rewrite iter_done.
  - replace (2 * length (c :: t) + 1 + k) with (S (S (2 * length t + 1 + k))) by (cbn [length]; lia).
    rewrite !iter_shift. unfold solo at 3. cbn [fst snd d_src].
    unfold solo at 2. cbn [fst snd]. unfold with_snk, with_buf, with_src. cbn [d_buf d_src d_eofl d_snk d_rcnt d_wcnt].
    destruct (is_last _ t); [now rewrite iter_done|]. apply IH.
Qed.

(* every schedule: each direction has delivered a prefix of its own source, byte for byte (sink ++ in flight ++ not yet
   read = source); a direction whose loop has ended has delivered all of it; the byte counters agree with the bytes *)
Theorem forward_conserves_e eu ed bu bd up down sched :
  let s := frun false (finit_e eu ed bu bd up down) sched in
  (exists rest, sink_up s ++ rest = concat up) /\ (exists rest, sink_down s ++ rest = concat down) /\
  (phase_of 0 s = PDone -> sink_up s = concat up /\ sent_counter s = length (concat up)) /\
  (phase_of 1 s = PDone -> sink_down s = concat down) /\
  recv_counter s = length (sink_down s) /\ length (sink_up s) <= sent_counter s.
Proof.
  cbn zeta. pose proof (run_view sched _ _ _ (view_init eu ed bu bd up down)) as Hv.
  destruct (view_fields _ _ _ Hv) as (S1 & S2 & P1 & P2 & R1 & W2). cbn [fst snd] in *.
  pose proof (iter_conserved _ (count_occ Nat.eq_dec sched 0) _ (dinit_conserved bu up eu)) as (C1 & D1 & _ & Rc1 & _).
  pose proof (iter_conserved _ (count_occ Nat.eq_dec sched 1) _ (dinit_conserved bd down ed)) as (C2 & D2 & _ & _ & Wc2).
  rewrite S1, S2, P1, P2, R1, W2.
  split; [eexists; exact C1|]. split; [eexists; exact C2|].
  split; [|split; [|split; [exact Wc2|lia]]]; intros Hd.
  - specialize (D1 Hd). unfold inflight in *. rewrite Hd in *. rewrite D1 in C1. cbn [concat app length] in *.
    rewrite !app_nil_r in C1. rewrite Rc1, C1. split; [reflexivity|lia].
  - specialize (D2 Hd). unfold inflight in C2. rewrite Hd, D2 in C2. cbn [concat app] in C2. now rewrite !app_nil_r in C2.
Qed.

Theorem forward_conserves bu bd up down sched :
  let s := frun false (finit bu bd up down) sched in
  (exists rest, sink_up s ++ rest = concat up) /\ (exists rest, sink_down s ++ rest = concat down) /\
  (phase_of 0 s = PDone -> sink_up s = concat up) /\ (phase_of 1 s = PDone -> sink_down s = concat down).
Proof.
  cbn zeta. destruct (forward_conserves_e false false bu bd up down sched) as (A & B & C & D & _).
  split; [exact A|]. split; [exact B|]. split; [intros H; apply (C H)|exact D].
Qed.

(* completion: a schedule that gives a direction 2 steps per chunk plus one ends it with everything delivered and counted,
   however the other direction's steps are interleaved with it, and WHETHER OR NOT the sources hand out their last
   chunk together with io.EOF *)
Theorem forward_completes_e eu ed bu bd up down sched :
  (2 * length up + 1 <= count_occ Nat.eq_dec sched 0 ->
     phase_of 0 (frun false (finit_e eu ed bu bd up down) sched) = PDone /\
     sink_up (frun false (finit_e eu ed bu bd up down) sched) = concat up /\
     sent_counter (frun false (finit_e eu ed bu bd up down) sched) = length (concat up)) /\
  (2 * length down + 1 <= count_occ Nat.eq_dec sched 1 ->
     phase_of 1 (frun false (finit_e eu ed bu bd up down) sched) = PDone /\
     sink_down (frun false (finit_e eu ed bu bd up down) sched) = concat down /\
     recv_counter (frun false (finit_e eu ed bu bd up down) sched) = length (concat down)).
Proof.
  pose proof (forward_conserves_e eu ed bu bd up down sched) as C. cbn zeta in C.
  destruct C as (_ & _ & C1 & C2 & C3 & _).
  pose proof (run_view sched _ _ _ (view_init eu ed bu bd up down)) as Hv.
  destruct (view_fields _ _ _ Hv) as (_ & _ & P1 & P2 & _). cbn [fst snd] in *.
  split; intros Hc.
  - assert (Hd : phase_of 0 (frun false (finit_e eu ed bu bd up down) sched) = PDone).
    { rewrite P1. pose proof (solo_drain_done up bu eu [] 0 0 (count_occ Nat.eq_dec sched 0 - (2 * length up + 1))) as E.
      replace (2 * length up + 1 + (count_occ Nat.eq_dec sched 0 - (2 * length up + 1))) with (count_occ Nat.eq_dec sched 0) in E by lia.
      exact E. }
    destruct (C1 Hd). auto.
  - assert (Hd : phase_of 1 (frun false (finit_e eu ed bu bd up down) sched) = PDone).
    { rewrite P2. pose proof (solo_drain_done down bd ed [] 0 0 (count_occ Nat.eq_dec sched 1 - (2 * length down + 1))) as E.
      replace (2 * length down + 1 + (count_occ Nat.eq_dec sched 1 - (2 * length down + 1))) with (count_occ Nat.eq_dec sched 1) in E by lia.
      exact E. }
    rewrite C3, (C2 Hd). auto.
Qed.

Theorem forward_completes bu bd up down sched :
  (2 * length up + 1 <= count_occ Nat.eq_dec sched 0 ->
     phase_of 0 (frun false (finit bu bd up down) sched) = PDone /\ sink_up (frun false (finit bu bd up down) sched) = concat up) /\
  (2 * length down + 1 <= count_occ Nat.eq_dec sched 1 ->
     phase_of 1 (frun false (finit bu bd up down) sched) = PDone /\ sink_down (frun false (finit bu bd up down) sched) = concat down).
Proof.
  destruct (forward_completes_e false false bu bd up down sched) as [A B].
  split; intros H; [destruct (A H) as (X & Y & _)|destruct (B H) as (X & Y & _)]; auto.
Qed.

(* ---- the two directions END independently: after the download direction has ended (the peer half-closed first), at ANY
   point of ANY schedule, the upload direction still delivers everything its source hands out — and vice versa ---- *)
Lemma count_occ_app' (a b : list nat) x : count_occ Nat.eq_dec (a ++ b) x = count_occ Nat.eq_dec a x + count_occ Nat.eq_dec b x.
Proof. induction a as [|y a IH]; [reflexivity|]. cbn [app count_occ]. destruct (Nat.eq_dec y x); lia. Qed.

Theorem upload_survives_download_end eu ed bu bd up down sched1 sched2 :
  phase_of 1 (frun false (finit_e eu ed bu bd up down) sched1) = PDone ->
  2 * length up + 1 <= count_occ Nat.eq_dec sched1 0 + count_occ Nat.eq_dec sched2 0 ->
  phase_of 0 (frun false (finit_e eu ed bu bd up down) (sched1 ++ sched2)) = PDone /\
  sink_up (frun false (finit_e eu ed bu bd up down) (sched1 ++ sched2)) = concat up /\
  sink_down (frun false (finit_e eu ed bu bd up down) (sched1 ++ sched2)) = concat down.
Proof.
  intros Hd Hc.
  destruct (forward_completes_e eu ed bu bd up down (sched1 ++ sched2)) as [A _].
  destruct A as (A1 & A2 & _); [rewrite count_occ_app'; exact Hc|]. split; [exact A1|]. split; [exact A2|].
  (* the download direction had ended after sched1 and stays ended with the same sink *)
  pose proof (run_view sched1 _ _ _ (view_init eu ed bu bd up down)) as V1.
  pose proof (run_view (sched1 ++ sched2) _ _ _ (view_init eu ed bu bd up down)) as V2.
  destruct (view_fields _ _ _ V1) as (_ & S1 & _ & P1 & _). destruct (view_fields _ _ _ V2) as (_ & S2 & _ & _). cbn [fst snd] in *.
  destruct (forward_conserves_e eu ed bu bd up down sched1) as (_ & _ & _ & D & _). specialize (D Hd).
  rewrite S2, count_occ_app'. rewrite Nat.add_comm. rewrite iter_plus.
  rewrite P1 in Hd. rewrite S1 in D.
  destruct (Nat.iter (count_occ Nat.eq_dec sched1 1) solo (PRead, dinit bd down ed)) as [ph ds] eqn:E. cbn [fst snd] in *. subst ph.
  rewrite iter_done. exact D.
Qed.

Theorem download_survives_upload_end eu ed bu bd up down sched1 sched2 :
  phase_of 0 (frun false (finit_e eu ed bu bd up down) sched1) = PDone ->
  2 * length down + 1 <= count_occ Nat.eq_dec sched1 1 + count_occ Nat.eq_dec sched2 1 ->
  phase_of 1 (frun false (finit_e eu ed bu bd up down) (sched1 ++ sched2)) = PDone /\
  sink_down (frun false (finit_e eu ed bu bd up down) (sched1 ++ sched2)) = concat down.
Proof.
  intros _ Hc. destruct (forward_completes_e eu ed bu bd up down (sched1 ++ sched2)) as [_ B].
  destruct B as (B1 & B2 & _); [rewrite count_occ_app'; exact Hc|]. auto.
Qed.

(* closing the local connection when the download direction ends (the fallback for a LocalConn without CloseWrite) breaks it:
   download Read, Write, EOF-Read; then the upload loop gets all the steps it wants and delivers nothing *)
Lemma close_on_download_end_refuted :
  exists up down sched1 sched2,
    phase_of 1 (frun_close (finit [] [] up down) sched1) = PDone /\
    2 * length up + 1 <= count_occ Nat.eq_dec sched2 0 /\
    sink_up (frun_close (finit [] [] up down) (sched1 ++ sched2)) <> concat up.
Proof.
  exists [[1;2;3]%N; [4]%N], [[9]%N], [1;1;1], [0;0;0;0;0].
  split; [vm_compute; reflexivity|]. split; [vm_compute; lia|]. vm_compute. discriminate.
Qed.

(* ---- the source as a byte string behind the chunk oracle of Base/Chunks.v ---- *)
Lemma oracle_chunks_concat cap : (0 < cap)%N -> forall fuel r, length (rest r) <= fuel -> concat (oracle_chunks fuel cap r) = rest r.
Proof.
  intros Hc. induction fuel as [|f IH]; intros r Hf.
  - destruct (rest r); [reflexivity|cbn in Hf; lia].
  - cbn [oracle_chunks]. destruct (read1 cap r) as [[got r']|] eqn:E.
    + apply read1_progress in E; [|exact Hc]. destruct E as (Hg & _ & Hr & _).
      cbn [concat]. rewrite IH; [now rewrite Hr|]. rewrite Hr, app_length in Hf. lia.
    + apply read1_none in E. now rewrite E.
Qed.

Lemma oracle_chunks_length cap : (0 < cap)%N -> forall fuel r, length (oracle_chunks fuel cap r) <= length (rest r).
Proof.
  intros Hc. induction fuel as [|f IH]; intros r; [cbn; lia|].
  cbn [oracle_chunks]. destruct (read1 cap r) as [[got r']|] eqn:E; [|cbn; lia].
  apply read1_progress in E; [|exact Hc]. destruct E as (Hg & _ & Hr & _).
  cbn [length]. specialize (IH r'). rewrite Hr, app_length. lia.
Qed.

(* THE statement asked for: the local source is the byte string `rest r` handed out by ANY chunk oracle r (any cut list,
   carry mode and end kind; any positive buffer size), with its last chunk carrying io.EOF or not (eofl); once the upload
   loop has had its steps — interleaved in any way with the download loop — the peer has been handed exactly those
   bytes and the traffic counter equals their number *)
Theorem upload_delivers_any_chunking_any_eof (cap : N) (r : rd) (eofl ed : bool) bu bd down sched :
  (0 < cap)%N ->
  2 * length (rest r) + 1 <= count_occ Nat.eq_dec sched 0 ->
  sink_up (frun false (finit_e eofl ed bu bd (oracle_chunks (length (rest r)) cap r) down) sched) = rest r /\
  sent_counter (frun false (finit_e eofl ed bu bd (oracle_chunks (length (rest r)) cap r) down) sched) = length (rest r).
Proof.
  intros Hc Hn. set (up := oracle_chunks (length (rest r)) cap r).
  assert (Hcat : concat up = rest r) by (apply (oracle_chunks_concat cap Hc); lia).
  assert (Hl : length up <= length (rest r)) by (apply (oracle_chunks_length cap Hc)).
  destruct (forward_completes_e eofl ed bu bd up down sched) as [A _].
  destruct A as (_ & A2 & A3); [lia|]. rewrite A2, A3, Hcat. auto.
Qed.

(* ... hence the delivered stream does not depend on the cut list, nor on whether the final chunk carries io.EOF *)
Corollary eof_flag_irrelevant (cap : N) (r r' : rd) (eofl eofl' ed ed' : bool) bu bu' bd bd' down down' sched sched' :
  (0 < cap)%N -> rest r = rest r' ->
  2 * length (rest r) + 1 <= count_occ Nat.eq_dec sched 0 -> 2 * length (rest r) + 1 <= count_occ Nat.eq_dec sched' 0 ->
  sink_up (frun false (finit_e eofl ed bu bd (oracle_chunks (length (rest r)) cap r) down) sched) =
  sink_up (frun false (finit_e eofl' ed' bu' bd' (oracle_chunks (length (rest r')) cap r') down') sched').
Proof.
  intros Hc Hr H1 H2.
  rewrite (proj1 (upload_delivers_any_chunking_any_eof cap r eofl ed bu bd down sched Hc H1)).
  rewrite Hr in H2. rewrite (proj1 (upload_delivers_any_chunking_any_eof cap r' eofl' ed' bu' bd' down' sched' Hc H2)). exact Hr.
Qed.

(* a wrapper that drops the bytes returned together with io.EOF (the shape of a broken CountingReadWriter.Read) would be
   visible exactly here: model it as the last chunk never entering the loop *)
Lemma dropping_last_chunk_refuted :
  exists up sched, sink_up (frun false (finit_e true false [] [] (removelast up) []) sched) <> concat up /\
                   2 * length up + 1 <= count_occ Nat.eq_dec sched 0.
Proof. exists [[1;2]%N; [3]%N], [0;0;0;0;0]. split; [vm_compute; discriminate|vm_compute; lia]. Qed.

(* ---- the shared-buffer design is refuted: upload Read, download Read, upload Write ---- *)
Lemma shared_buffer_refuted :
  exists up down down' sched,
    sink_up (frun true (finit [] [] up down) sched) <> sink_up (frun true (finit [] [] up down') sched) /\
    ~ (exists rest, sink_up (frun true (finit [] [] up down) sched) ++ rest = concat up).
Proof.
  exists [[65;65;65;65]%N], [[66;66;66;66]%N], [[67;67;67;67]%N], [0; 1; 0].
  split; [vm_compute; discriminate|]. vm_compute. intros [rest H]. discriminate.
Qed.

Lemma forward_example :
  let s := frun false (finit [9;9]%N [] [[1;2;3]; [4]]%N [[7;8]]%N) [0; 1; 0; 0; 1; 7; 1; 0; 0] in
  sink_up s = [1;2;3;4]%N /\ sink_down s = [7;8]%N /\ phase_of 0 s = PDone /\ phase_of 1 s = PDone.
Proof. vm_compute. auto. Qed.

Lemma forward_eof_example :
  let s := frun false (finit_e true true [] [] [[1;2;3]; [4]]%N [[7;8]]%N) [0; 1; 0; 0; 1; 0] in
  sink_up s = [1;2;3;4]%N /\ sink_down s = [7;8]%N /\ phase_of 0 s = PDone /\ phase_of 1 s = PDone /\
  sent_counter s = 4 /\ recv_counter s = 2.
Proof. vm_compute. auto 10. Qed.

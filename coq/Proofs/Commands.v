(* Proofs/Commands.v — C11: lemmas about Model/Commands.v.
   The theorems hold for ANY dispatch table whose rows pass the boolean check [row_sound] (the columns an effect class
   must carry); [current_table] passes it by computation, [pinned_table] does not and is refuted by witnesses. *)
From TX Require Import Model.Commands.
From Coq Require Import NArith List Bool Lia ZArith ZifyN ZifyNat ZifyBool.
Import ListNotations.
Open Scope N_scope.

(* ------------------------------------------------------------------------------------------ *)
(* what the columns of a row must be, per effect class                                        *)
(* ------------------------------------------------------------------------------------------ *)
Definition id_is_conn (r : row) : bool := match r_id r with IdConn => true | _ => false end.
Definition id_not_packet (r : row) : bool := match r_id r with IdPacket => false | _ => true end.
Definition party_is (r : row) (p : party) : bool :=
  match r_party r, p with
  | PNone, PNone | PMapParty, PMapParty | PMapListen, PMapListen | PBearer, PBearer
  | PDomOwner, PDomOwner | PReach, PReach | PSelf, PSelf => true
  | _, _ => false
  end.
Definition stateless (e : effect) : bool :=
  match e with EPublicNoBody | EPublic | ERespSink => true | _ => false end.

Definition row_sound (r : row) : bool :=
  id_not_packet r &&
  match r_eff r with
  | EPublicNoBody | EPublic | ERespSink => true
  | EDisconnect | EDomDelete | EDomList => id_is_conn r
  | EMapList | EMapGet | EMapDelete | EConfigGet | ETraffic => id_is_conn r && r_auth r && party_is r PMapParty
  | ESocksOpen => id_is_conn r && r_auth r && party_is r PMapListen
  | EDnsForward => id_is_conn r && r_auth r && party_is r PReach
  | ECodeGen | ECodeList | ECodeActivate | EDomCreate | ENotify => id_is_conn r && r_auth r
  end.
Definition sound_table (tbl : list row) : bool := forallb row_sound tbl.

Lemma current_table_sound : sound_table current_table = true.
Proof. vm_compute. reflexivity. Qed.
Lemma current_table_with_notify_sound : sound_table (current_table ++ [aux_row_current]) = true.
Proof. vm_compute. reflexivity. Qed.
Lemma pinned_table_unsound : sound_table pinned_table = false.
Proof. vm_compute. reflexivity. Qed.
Lemma table_of_fixed_is_current : table_of true true true true false true = current_table.
Proof. vm_compute. reflexivity. Qed.
Lemma table_of_pinned_is_pinned : table_of false false false false false false = pinned_table.
Proof. vm_compute. reflexivity. Qed.

(* world invariant used by the "unauthenticated" theorem: identity 0 is nobody *)
Definition wf_world (w : world) : Prop :=
  ~ In 0 (w_online w) /\ (forall d, In d (w_doms w) -> d_owner d <> 0) /\ (forall i c, In (i, c) (w_bind w) -> c <> 0).

(* ------------------------------------------------------------------------------------------ *)
(* list helpers                                                                               *)
(* ------------------------------------------------------------------------------------------ *)
Lemma find_row_in tbl t b r : find_row tbl t b = Some r -> In r tbl.
Proof.
  induction tbl as [|x tbl IH]; cbn [find_row]; intro H; [discriminate|].
  destruct ((r_cmd x =? t) && resp_matches (r_resp x) b).
  - injection H as ->. now left.
  - right. now apply IH.
Qed.

Lemma sound_row_of tbl t b r : sound_table tbl = true -> find_row tbl t b = Some r -> row_sound r = true.
Proof.
  intros Hs Hf. unfold sound_table in Hs. rewrite forallb_forall in Hs. apply Hs. eapply find_row_in; eauto.
Qed.

Lemma memN_In x l : memN x l = true <-> In x l.
Proof.
  induction l as [|y l IH]; cbn [memN In]; [split; [discriminate|tauto]|].
  rewrite orb_true_iff, N.eqb_eq, IH. split; intros [H|H]; auto.
Qed.

Lemma find_map_some i l m : find_map i l = Some m -> In m l /\ m_id m = i.
Proof.
  induction l as [|x l IH]; cbn [find_map]; intro H; [discriminate|].
  destruct (m_id x =? i) eqn:E.
  - injection H as ->. apply N.eqb_eq in E. split; [now left|exact E].
  - destruct (IH H) as [H1 H2]. split; [now right|exact H2].
Qed.

Lemma remove_map_sub i l m : In m (remove_map i l) -> In m l.
Proof.
  induction l as [|x l IH]; cbn [remove_map]; [tauto|].
  destruct (m_id x =? i); cbn [In]; intro H; [now right|]. destruct H as [H|H]; [now left|right; now apply IH].
Qed.

Lemma remove_map_lost i l m : In m l -> ~ In m (remove_map i l) -> find_map i l = Some m.
Proof.
  induction l as [|x l IH]; cbn [remove_map find_map In]; [tauto|].
  destruct (m_id x =? i); intros Hin Hnot.
  - destruct Hin as [->|Hin]; [reflexivity|contradiction].
  - cbn [In] in Hnot. destruct Hin as [->|Hin]; [exfalso; apply Hnot; now left|].
    apply IH; [exact Hin|]. intro H. apply Hnot. now right.
Qed.

Lemma update_map_lost f i l m : In m l -> ~ In m (update_map f i l) -> find_map i l = Some m.
Proof.
  induction l as [|x l IH]; cbn [update_map find_map In]; [tauto|].
  destruct (m_id x =? i); intros Hin Hnot; cbn [In] in Hnot.
  - destruct Hin as [->|Hin]; [reflexivity|]. exfalso. apply Hnot. now right.
  - destruct Hin as [->|Hin]; [exfalso; apply Hnot; now left|].
    apply IH; [exact Hin|]. intro H. apply Hnot. now right.
Qed.

Lemma update_map_new f i l m' : In m' (update_map f i l) -> ~ In m' l -> exists m, find_map i l = Some m /\ m' = f m.
Proof.
  induction l as [|x l IH]; cbn [update_map find_map In]; [tauto|].
  destruct (m_id x =? i); cbn [In]; intros Hin Hnot.
  - destruct Hin as [<-|Hin]; [exists x; split; reflexivity|]. exfalso. apply Hnot. now right.
  - destruct Hin as [->|Hin]; [exfalso; apply Hnot; now left|].
    apply IH; [exact Hin|]. intro H. apply Hnot. now right.
Qed.

Lemma find_dom_some i l d : find_dom i l = Some d -> In d l /\ d_id d = i.
Proof.
  induction l as [|x l IH]; cbn [find_dom]; intro H; [discriminate|].
  destruct (d_id x =? i) eqn:E.
  - injection H as ->. apply N.eqb_eq in E. split; [now left|exact E].
  - destruct (IH H) as [H1 H2]. split; [now right|exact H2].
Qed.

Lemma remove_dom_sub i l d : In d (remove_dom i l) -> In d l.
Proof.
  induction l as [|x l IH]; cbn [remove_dom]; [tauto|].
  destruct (d_id x =? i); cbn [In]; intro H; [now right|]. destruct H as [H|H]; [now left|right; now apply IH].
Qed.

Lemma remove_dom_lost i l d : In d l -> ~ In d (remove_dom i l) -> find_dom i l = Some d.
Proof.
  induction l as [|x l IH]; cbn [remove_dom find_dom In]; [tauto|].
  destruct (d_id x =? i); intros Hin Hnot.
  - destruct Hin as [->|Hin]; [reflexivity|contradiction].
  - cbn [In] in Hnot. destruct Hin as [->|Hin]; [exfalso; apply Hnot; now left|].
    apply IH; [exact Hin|]. intro H. apply Hnot. now right.
Qed.

Lemma find_code_some i l x : find_code i l = Some x -> In x l /\ c_id x = i.
Proof.
  induction l as [|y l IH]; cbn [find_code]; intro H; [discriminate|].
  destruct (c_id y =? i) eqn:E.
  - injection H as ->. apply N.eqb_eq in E. split; [now left|exact E].
  - destruct (IH H) as [H1 H2]. split; [now right|exact H2].
Qed.

Lemma update_code_new f i l x' : In x' (update_code f i l) -> ~ In x' l -> exists x, find_code i l = Some x /\ x' = f x.
Proof.
  induction l as [|y l IH]; cbn [update_code find_code In]; [tauto|].
  destruct (c_id y =? i); cbn [In]; intros Hin Hnot.
  - destruct Hin as [<-|Hin]; [exists y; split; reflexivity|]. exfalso. apply Hnot. now right.
  - destruct Hin as [->|Hin]; [exfalso; apply Hnot; now left|].
    apply IH; [exact Hin|]. intro H. apply Hnot. now right.
Qed.

Lemma in_app_new {A} (x y : A) l : In x (l ++ [y]) -> ~ In x l -> x = y.
Proof. intros H Hn. apply in_app_or in H. destruct H as [H|[H|[]]]; [contradiction|now symmetry]. Qed.

Lemma remove_cid_sub c l x : In x (remove_cid c l) -> In x l.
Proof.
  induction l as [|y l IH]; cbn [remove_cid]; [tauto|].
  destruct (y =? c); cbn [In]; intro H; [right; now apply IH|]. destruct H as [H|H]; [now left|right; now apply IH].
Qed.

Lemma remove_cid_lost c l x : In x l -> ~ In x (remove_cid c l) -> x = c.
Proof.
  induction l as [|y l IH]; cbn [remove_cid In]; [tauto|].
  destruct (y =? c) eqn:E; intros Hin Hnot.
  - destruct Hin as [<-|Hin]; [now apply N.eqb_eq in E|]. now apply IH.
  - cbn [In] in Hnot. destruct Hin as [->|Hin]; [exfalso; apply Hnot; now left|].
    apply IH; [exact Hin|]. intro H. apply Hnot. now right.
Qed.

Lemma remove_cid_absent c l : ~ In c l -> remove_cid c l = l.
Proof.
  induction l as [|y l IH]; cbn [remove_cid In]; [reflexivity|]. intro H.
  destruct (y =? c) eqn:E; [apply N.eqb_eq in E; exfalso; apply H; now left|].
  f_equal. apply IH. intro H'. apply H. now right.
Qed.

Lemma in_map_filter {A} (f : A -> N) (sel : A -> bool) l i :
  In i (map f (filter sel l)) -> exists x, In x l /\ f x = i /\ sel x = true.
Proof.
  intro H. apply in_map_iff in H. destruct H as [x [Hf Hin]]. apply filter_In in Hin. destruct Hin as [Hin Hs].
  exists x. auto.
Qed.

Lemma client_mappings_sub w a m : In m (client_mappings w a) -> In m (w_maps w).
Proof. unfold client_mappings. intro H. apply filter_In in H. tauto. Qed.

Lemma world_eta w : with_reg w (w_online w) (w_bind w) = w.
Proof. destruct w; reflexivity. Qed.

Lemma lookup_bind_in i l c : lookup_bind i l = Some c -> In (i, c) l.
Proof.
  induction l as [|[j d] l IH]; cbn [lookup_bind]; intro H; [discriminate|].
  destruct (j =? i) eqn:E.
  - injection H as ->. apply N.eqb_eq in E. subst j. now left.
  - right. now apply IH.
Qed.

Lemma remove_bind_absent i l : lookup_bind i l = None -> remove_bind i l = l.
Proof.
  induction l as [|[j d] l IH]; cbn [lookup_bind remove_bind]; intro H; [reflexivity|].
  destruct (j =? i); [discriminate|]. f_equal. now apply IH.
Qed.

Lemma remove_bind_sub i l p : In p (remove_bind i l) -> In p l.
Proof.
  induction l as [|[j d] l IH]; cbn [remove_bind]; [tauto|].
  destruct (j =? i); cbn [In]; intro H; [right; now apply IH|]. destruct H as [H|H]; [now left|right; now apply IH].
Qed.

Lemma remove_bind_lost i l j c : In (j, c) l -> ~ In (j, c) (remove_bind i l) -> j = i.
Proof.
  induction l as [|[j' d] l IH]; cbn [remove_bind In]; [tauto|].
  destruct (j' =? i) eqn:E; intros Hin Hnot.
  - destruct Hin as [Heq|Hin]; [injection Heq as -> _; now apply N.eqb_eq in E|now apply IH].
  - cbn [In] in Hnot. destruct Hin as [Heq|Hin]; [exfalso; apply Hnot; now left|].
    apply IH; [exact Hin|]. intro H. apply Hnot. now right.
Qed.

(* a connection whose registry identity is 0 has no registry entry (in a well-formed world) *)
Lemma identity_zero_unbound w k : wf_world w -> conn_identity w k = 0 -> unbind_k k (w_bind w) = w_bind w.
Proof.
  intros [_ [_ Hb]] Hid. destruct k as [| | |i]; try reflexivity. cbn [unbind_k conn_identity] in *.
  destruct (lookup_bind i (w_bind w)) as [c|] eqn:L.
  - exfalso. apply (Hb i c); [now apply lookup_bind_in|exact Hid].
  - now apply remove_bind_absent.
Qed.

(* ------------------------------------------------------------------------------------------ *)
(* shape of exec                                                                              *)
(* ------------------------------------------------------------------------------------------ *)
Inductive exec_shape (tbl : list row) (w : world) (k : connkind) (cl : claim) (c : cmd) : result -> Prop :=
| ShNone : exec_shape tbl w k cl c (mk false w)
| ShRefuse r : find_row tbl (k_type c) (k_resp c) = Some r -> r_auth r = true -> acting r w k cl = 0 ->
               exec_shape tbl w k cl c (refuse (r_eff r) w k)
| ShRun r : find_row tbl (k_type c) (k_resp c) = Some r -> (r_auth r = true -> acting r w k cl <> 0) ->
            exec_shape tbl w k cl c (run (r_eff r) (r_party r) (acting r w k cl) w k c).

Lemma exec_cases tbl w k cl c : exec_shape tbl w k cl c (exec tbl w k cl c).
Proof.
  unfold exec. destruct (find_row tbl (k_type c) (k_resp c)) as [r|] eqn:F; [|constructor].
  destruct (r_route r); [constructor| |].
  - destruct (r_auth r) eqn:A; cbn [andb].
    + destruct (acting r w k cl =? 0) eqn:Z.
      * apply N.eqb_eq in Z. now apply ShRefuse.
      * apply N.eqb_neq in Z. apply ShRun; auto.
    + apply ShRun; [exact F|intro HA; congruence].
  - destruct (r_auth r) eqn:A; cbn [andb].
    + destruct (acting r w k cl =? 0) eqn:Z.
      * apply N.eqb_eq in Z. now apply ShRefuse.
      * apply N.eqb_neq in Z. apply ShRun; auto.
    + apply ShRun; [exact F|intro HA; congruence].
Qed.

Lemma refuse_is_mk e w k : exists b, refuse e w k = mk b w.
Proof. destruct e; cbn [refuse]; eexists; reflexivity. Qed.

Lemma run_stateless e p a w k c : stateless e = true -> exists b, run e p a w k c = mk b w.
Proof. destruct e; cbn [stateless]; intro H; try discriminate; cbn [run]; eexists; reflexivity. Qed.

(* a sound row: either stateless, or the acting identity is the connection's and the gate columns are as required *)
Lemma sound_acting r w k cl :
  row_sound r = true -> stateless (r_eff r) = false -> acting r w k cl = conn_identity w k.
Proof.
  unfold row_sound, acting, id_is_conn, id_not_packet. intros H S.
  destruct (r_id r); [reflexivity| discriminate H |].
  destruct (r_eff r); cbn [stateless] in S; try discriminate S; cbn [andb] in H; discriminate H.
Qed.

(* ------------------------------------------------------------------------------------------ *)
(* (1) identity fields of the packet never matter                                             *)
(* ------------------------------------------------------------------------------------------ *)
Lemma acting_no_claim r w k cl1 cl2 : id_not_packet r = true -> acting r w k cl1 = acting r w k cl2.
Proof. unfold id_not_packet, acting. destruct (r_id r); [reflexivity|discriminate|reflexivity]. Qed.

Lemma identity_from_connection_gen tbl :
  forallb id_not_packet tbl = true ->
  forall w k cl1 cl2 c, exec tbl w k cl1 c = exec tbl w k cl2 c.
Proof.
  intros Hs w k cl1 cl2 c. unfold exec.
  destruct (find_row tbl (k_type c) (k_resp c)) as [r|] eqn:F; [|reflexivity].
  rewrite forallb_forall in Hs. pose proof (Hs r (find_row_in _ _ _ _ F)) as Hr.
  rewrite (acting_no_claim r w k cl1 cl2 Hr). reflexivity.
Qed.

Lemma sound_no_packet tbl : sound_table tbl = true -> forallb id_not_packet tbl = true.
Proof.
  unfold sound_table. rewrite !forallb_forall. intros H r Hin. specialize (H r Hin).
  unfold row_sound in H. apply andb_prop in H. tauto.
Qed.

Lemma identity_from_connection :
  forall w k cl1 cl2 c, exec current_table w k cl1 c = exec current_table w k cl2 c.
Proof. exact (identity_from_connection_gen current_table (sound_no_packet _ current_table_sound)). Qed.

Lemma identity_from_connection_notify :
  forall w k cl1 cl2 c, exec (current_table ++ [aux_row_current]) w k cl1 c = exec (current_table ++ [aux_row_current]) w k cl2 c.
Proof. exact (identity_from_connection_gen _ (sound_no_packet _ current_table_with_notify_sound)). Qed.

(* the statement has content: a table that reads the identity from the packet does depend on it *)
Definition forged_table : list row := [R 76 None RRegistry IdPacket true PMapParty EMapDelete].
Definition w_demo : world :=
  {| w_maps := [{| m_id := 0; m_listen := 1; m_target := 2; m_socks := true; m_sent := 0; m_recv := 0; m_active := true |};
                {| m_id := 1; m_listen := 0; m_target := 2; m_socks := true; m_sent := 0; m_recv := 0; m_active := true |}];
     w_codes := [{| c_id := 0; c_owner := 2; c_act := 0 |}]; w_doms := [{| d_id := 0; d_owner := 1 |}];
     w_online := [1; 2; 3]; w_bind := [(1, 1); (2, 2); (3, 3)]; w_nm := 2; w_nc := 1; w_nd := 1;
     w_xnode := false; w_remote := []; w_index := [(1, 0); (2, 0); (2, 1)] |}.
Definition c_demo (t : N) (obj : option N) (tgt : option cid) : cmd :=
  {| k_type := t; k_resp := false; k_obj := obj; k_tgt := tgt; k_dir := 0; k_sent := 1000000; k_recv := 7; k_valid := true |}.

Lemma packet_identity_table_refuted :
  exists w k cl1 cl2 c, exec forged_table w k cl1 c <> exec forged_table w k cl2 c.
Proof. exists w_demo, (KConn 3), 1, 0, (c_demo 76 (Some 0) None). vm_compute. discriminate. Qed.

(* ------------------------------------------------------------------------------------------ *)
(* (2) no proven identity => nothing happens                                                  *)
(* ------------------------------------------------------------------------------------------ *)
Definition inert (w : world) (r : result) : Prop :=
  res_world r = w /\ res_deliv r = [] /\ res_dm r = [] /\ res_dc r = [] /\ res_dd r = [].

Lemma mk_inert b w : inert w (mk b w).
Proof. unfold inert, mk; cbn. tauto. Qed.

Lemma filter_owner_zero (l : list domain) : (forall d, In d l -> d_owner d <> 0) -> filter (fun d => d_owner d =? 0) l = [].
Proof.
  induction l as [|d l IH]; cbn [filter]; intro H; [reflexivity|].
  destruct (d_owner d =? 0) eqn:E.
  - apply N.eqb_eq in E. exfalso. apply (H d); [now left|exact E].
  - apply IH. intros d' Hd. apply H. now right.
Qed.

Lemma unauth_refused_gen tbl :
  sound_table tbl = true ->
  forall w k cl c, wf_world w -> conn_identity w k = 0 -> inert w (exec tbl w k cl c).
Proof.
  intros Hs w k cl c Hwf Hid. pose proof Hwf as [Hon [Hdom Hbind]].
  destruct (exec_cases tbl w k cl c) as [|r F A Z|r F A].
  - apply mk_inert.
  - destruct (refuse_is_mk (r_eff r) w k) as [b ->]. apply mk_inert.
  - pose proof (sound_row_of _ _ _ _ Hs F) as Hr.
    destruct (stateless (r_eff r)) eqn:S.
    + destruct (run_stateless (r_eff r) (r_party r) (acting r w k cl) w k c S) as [b ->]. apply mk_inert.
    + rewrite (sound_acting r w k cl Hr S) in *. rewrite Hid in *.
      unfold row_sound in Hr. apply andb_prop in Hr. destruct Hr as [_ Hr].
      destruct (r_eff r); cbn [stateless] in S; try discriminate S;
        try (repeat (apply andb_prop in Hr; destruct Hr as [Hr ?]);
             match goal with HA : r_auth r = true |- _ => exfalso; apply (A HA); reflexivity end).
      * (* EDomDelete *)
        cbn [run]. destruct (k_obj c) as [i|]; [|apply mk_inert].
        destruct (find_dom i (w_doms w)) as [d|] eqn:Fd; [|apply mk_inert].
        destruct (find_dom_some _ _ _ Fd) as [Hin _].
        destruct (d_owner d =? 0) eqn:E; [apply N.eqb_eq in E; exfalso; now apply (Hdom d)|apply mk_inert].
      * (* EDomList *)
        cbn [run]. rewrite (filter_owner_zero _ Hdom). unfold inert; cbn. tauto.
      * (* EDisconnect *)
        cbn [run]. rewrite Hid. rewrite (remove_cid_absent 0 (w_online w) Hon).
        rewrite (identity_zero_unbound w k Hwf Hid). rewrite world_eta. apply mk_inert.
Qed.

Lemma unauth_refused :
  forall w k cl c, wf_world w -> conn_identity w k = 0 -> inert w (exec current_table w k cl c).
Proof. exact (unauth_refused_gen current_table current_table_sound). Qed.

Lemma unauth_refused_notify :
  forall w k cl c, wf_world w -> conn_identity w k = 0 -> inert w (exec (current_table ++ [aux_row_current]) w k cl c).
Proof. exact (unauth_refused_gen _ current_table_with_notify_sound). Qed.

(* identity classes that prove nothing *)
Lemma unauthenticated_kinds w : conn_identity w KUnknown = 0 /\ conn_identity w KFresh = 0 /\ conn_identity w KPending = 0
  /\ (forall i, lookup_bind i (w_bind w) = None -> conn_identity w (KConn i) = 0).
Proof.
  repeat split; try reflexivity. intros i H. cbn [conn_identity]. now rewrite H.
Qed.

(* ------------------------------------------------------------------------------------------ *)
(* (3) parties only                                                                           *)
(* ------------------------------------------------------------------------------------------ *)
Definition partyP (a : cid) (m : mapping) : Prop := a <> 0 /\ (m_listen m = a \/ m_target m = a).

Lemma map_party_ok_P a m : a <> 0 -> map_party_ok PMapParty a m = true -> partyP a m.
Proof.
  intros Ha H. cbn [map_party_ok] in H. apply orb_prop in H. split; [exact Ha|].
  destruct H as [H|H]; apply N.eqb_eq in H; auto.
Qed.

Lemma sel_party a m d :
  match d with
  | 1 => m_listen m =? a
  | 2 => m_target m =? a
  | _ => (m_listen m =? a) || (m_target m =? a)
  end = true -> m_listen m = a \/ m_target m = a.
Proof.
  destruct d as [|[[p|p|]|[p|p|]|]]; intro H;
    try (apply orb_prop in H; destruct H as [H|H]); apply N.eqb_eq in H; auto.
Qed.

(* the gate facts a sound, non-stateless row gives for the effect it carries *)
Lemma sound_gate r w k cl :
  row_sound r = true -> (r_auth r = true -> acting r w k cl <> 0) ->
  match r_eff r with
  | EMapList | EMapGet | EMapDelete | EConfigGet | ETraffic => r_party r = PMapParty /\ conn_identity w k <> 0
  | ESocksOpen => r_party r = PMapListen /\ conn_identity w k <> 0
  | EDnsForward => r_party r = PReach /\ conn_identity w k <> 0
  | ECodeGen | ECodeList | ECodeActivate | EDomCreate | ENotify => conn_identity w k <> 0
  | _ => True
  end.
Proof.
  intros Hr A.
  destruct (stateless (r_eff r)) eqn:S; [destruct (r_eff r); cbn [stateless] in S; try discriminate S; exact I|].
  pose proof (sound_acting r w k cl Hr S) as Hact. rewrite Hact in A.
  unfold row_sound in Hr. apply andb_prop in Hr. destruct Hr as [_ Hr].
  unfold party_is in Hr.
  destruct (r_eff r); try exact I;
    repeat (apply andb_prop in Hr; let H := fresh "H" in destruct Hr as [Hr H]);
    try (split; [destruct (r_party r); try discriminate; reflexivity | now apply A]);
    try (now apply A).
Qed.

(* mappings: whatever disappears, changes or appears has the connection's identity as a party;
   whatever mapping id is disclosed belongs to a mapping the identity is a party of *)
Lemma party_only_mappings_gen tbl :
  sound_table tbl = true ->
  forall w k cl c, let a := conn_identity w k in let r := exec tbl w k cl c in
  (forall m, In m (w_maps w) -> ~ In m (w_maps (res_world r)) -> partyP a m) /\
  (forall m, In m (w_maps (res_world r)) -> ~ In m (w_maps w) -> partyP a m) /\
  (forall i, In i (res_dm r) -> exists m, In m (w_maps (res_world r)) /\ m_id m = i /\ partyP a m).
Proof.
  intros Hs w k cl c a r. subst r.
  assert (Hmk : forall b, (forall m, In m (w_maps w) -> ~ In m (w_maps (res_world (mk b w))) -> partyP a m) /\
                          (forall m, In m (w_maps (res_world (mk b w))) -> ~ In m (w_maps w) -> partyP a m) /\
                          (forall i, In i (res_dm (mk b w)) -> exists m, In m (w_maps (res_world (mk b w))) /\ m_id m = i /\ partyP a m)).
  { intro b. cbn. repeat split; intros; try contradiction; tauto. }
  destruct (exec_cases tbl w k cl c) as [|r F A Z|r F A].
  - apply Hmk.
  - destruct (refuse_is_mk (r_eff r) w k) as [b ->]. apply Hmk.
  - pose proof (sound_row_of _ _ _ _ Hs F) as Hr.
    destruct (stateless (r_eff r)) eqn:S.
    { destruct (run_stateless (r_eff r) (r_party r) (acting r w k cl) w k c S) as [b ->]. apply Hmk. }
    pose proof (sound_gate r w k cl Hr A) as G.
    rewrite (sound_acting r w k cl Hr S). fold a. fold a in G.
    destruct (r_eff r) eqn:E; cbn [stateless] in S; try discriminate S; cbn [run].
    + (* EMapList *)
      destruct G as [Hp Ha]; try rewrite Hp. cbn. split; [tauto|]. split; [tauto|].
      intros i Hi. apply in_map_filter in Hi. destruct Hi as [m [Hin [Hid Hsel]]]. apply client_mappings_sub in Hin.
      exists m. split; [exact Hin|]. split; [exact Hid|]. split; [exact Ha|].
      exact (sel_party a m (k_dir c) Hsel).
    + (* EMapGet *)
      destruct G as [Hp Ha]; try rewrite Hp.
      destruct (k_obj c) as [i|]; [|apply Hmk].
      destruct (find_map i (w_maps w)) as [m|] eqn:Fm; [|apply Hmk].
      destruct (map_party_ok PMapParty a m) eqn:P; [|apply Hmk].
      cbn. split; [tauto|]. split; [tauto|]. intros j [<-|[]].
      destruct (find_map_some _ _ _ Fm) as [Hin Hid]. exists m. split; [exact Hin|]. split; [exact Hid|].
      now apply map_party_ok_P.
    + (* EMapDelete *)
      destruct G as [Hp Ha]; try rewrite Hp.
      destruct (k_obj c) as [i|]; [|apply Hmk].
      destruct (find_map i (w_maps w)) as [m|] eqn:Fm; [|apply Hmk].
      destruct (map_party_ok PMapParty a m) eqn:P; [|apply Hmk].
      cbn. split; [|split].
      * intros m' Hin Hnot. rewrite (remove_map_lost _ _ _ Hin Hnot) in Fm. injection Fm as ->. now apply map_party_ok_P.
      * intros m' Hin Hnot. exfalso. apply Hnot. eapply remove_map_sub; eauto.
      * intros j [].
    + (* ECodeGen *)
      cbn. destruct (k_valid c); cbn; repeat split; intros; try contradiction; tauto.
    + (* ECodeList *)
      cbn. repeat split; intros; try contradiction; tauto.
    + (* ECodeActivate *)
      destruct (k_obj c) as [i|]; [|apply Hmk].
      destruct (negb (k_valid c)); [apply Hmk|].
      destruct (find_code i (w_codes w)) as [x|] eqn:Fc; [|apply Hmk].
      destruct (negb (c_act x =? 0)); [apply Hmk|].
      cbn. split; [|split].
      * intros m Hin Hnot. exfalso. apply Hnot. apply in_or_app. now left.
      * intros m Hin Hnot. rewrite (in_app_new _ _ _ Hin Hnot). split; [exact G|]. cbn. now left.
      * intros j [<-|[]]. eexists. split; [apply in_or_app; right; left; reflexivity|]. split; [reflexivity|].
        split; [exact G|]. cbn. now left.
    + (* EConfigGet *)
      destruct G as [Hp Ha]; try rewrite Hp. cbn. split; [tauto|]. split; [tauto|].
      intros i Hi. apply in_map_filter in Hi. destruct Hi as [m [Hin [Hid Hsel]]]. apply client_mappings_sub in Hin.
      exists m. split; [exact Hin|]. split; [exact Hid|]. split; [exact Ha|].
      apply orb_prop in Hsel; destruct Hsel as [H|H]; apply N.eqb_eq in H; auto.
    + (* ETraffic *)
      destruct G as [Hp Ha]; try rewrite Hp.
      destruct (k_obj c) as [i|]; [|apply Hmk].
      destruct (find_map i (w_maps w)) as [m|] eqn:Fm; [|apply Hmk].
      destruct (map_party_ok PMapParty a m) eqn:P; [|apply Hmk].
      cbn. split; [|split].
      * intros m' Hin Hnot. rewrite (update_map_lost _ _ _ _ Hin Hnot) in Fm. injection Fm as ->. now apply map_party_ok_P.
      * intros m' Hin Hnot. destruct (update_map_new _ _ _ _ Hin Hnot) as [m0 [F0 ->]].
        rewrite F0 in Fm. injection Fm as ->. destruct (map_party_ok_P a m Ha P) as [H1 H2]. split; [exact H1|exact H2].
      * intros j [].
    + (* ESocksOpen *)
      destruct G as [Hp Ha]; try rewrite Hp.
      destruct (k_obj c) as [i|]; [|apply Hmk].
      destruct (find_map i (w_maps w)) as [m|] eqn:Fm; [|apply Hmk].
      destruct (map_party_ok PMapListen a m); [|apply Hmk].
      destruct (negb (socks_route w (m_target m) =? 0)); [|apply Hmk].
      cbn. repeat split; intros; try contradiction; tauto.
    + (* EDnsForward *)
      match goal with |- context [if ?b then _ else _] => destruct b end; [|apply Hmk].
      cbn. repeat split; intros; try contradiction; tauto.
    + (* ENotify *)
      destruct (k_tgt c) as [t|]; [|apply Hmk].
      match goal with |- context [if ?b then _ else _] => destruct b end; [apply Hmk|].
      cbn. repeat split; intros; try contradiction; tauto.
    + (* EDomCreate *)
      destruct (k_valid c); [|apply Hmk]. cbn. repeat split; intros; try contradiction; tauto.
    + (* EDomDelete *)
      destruct (k_obj c) as [i|]; [|apply Hmk].
      destruct (find_dom i (w_doms w)) as [d|]; [|apply Hmk].
      destruct (d_owner d =? a); [|apply Hmk]. cbn. repeat split; intros; try contradiction; tauto.
    + (* EDomList *)
      cbn. repeat split; intros; try contradiction; tauto.
    + (* EDisconnect *)
      cbn. repeat split; intros; try contradiction; tauto.
Qed.

Lemma party_only_mappings :
  forall w k cl c, let a := conn_identity w k in let r := exec current_table w k cl c in
  (forall m, In m (w_maps w) -> ~ In m (w_maps (res_world r)) -> partyP a m) /\
  (forall m, In m (w_maps (res_world r)) -> ~ In m (w_maps w) -> partyP a m) /\
  (forall i, In i (res_dm r) -> exists m, In m (w_maps (res_world r)) /\ m_id m = i /\ partyP a m).
Proof. exact (party_only_mappings_gen current_table current_table_sound). Qed.

(* ------------------------------------------------------------------------------------------ *)
(* (3b) codes and HTTP domains                                                                *)
(* ------------------------------------------------------------------------------------------ *)
Definition objects_ok (a : cid) (w : world) (r : result) : Prop :=
  (forall d, In d (w_doms w) -> ~ In d (w_doms (res_world r)) -> d_owner d = a) /\
  (forall d, In d (w_doms (res_world r)) -> ~ In d (w_doms w) -> d_owner d = a /\ a <> 0) /\
  (forall i, In i (res_dd r) -> exists d, In d (w_doms (res_world r)) /\ d_id d = i /\ d_owner d = a) /\
  (forall x, In x (w_codes (res_world r)) -> ~ In x (w_codes w) -> a <> 0 /\ (c_owner x = a \/ c_act x = a)) /\
  (forall i, In i (res_dc r) -> exists x, In x (w_codes (res_world r)) /\ c_id x = i /\ c_owner x = a).

Lemma objects_ok_mk a b w : objects_ok a w (mk b w).
Proof. unfold objects_ok, mk; cbn. repeat split; intros; try contradiction; tauto. Qed.

Lemma objects_ok_same a w r :
  w_doms (res_world r) = w_doms w -> w_codes (res_world r) = w_codes w -> res_dd r = [] -> res_dc r = [] -> objects_ok a w r.
Proof.
  intros H1 H2 H3 H4. unfold objects_ok. rewrite H1, H2, H3, H4. repeat split; intros; try contradiction; cbn in *; tauto.
Qed.

Lemma party_only_objects_gen tbl :
  sound_table tbl = true ->
  forall w k cl c, objects_ok (conn_identity w k) w (exec tbl w k cl c).
Proof.
  intros Hs w k cl c. set (a := conn_identity w k).
  destruct (exec_cases tbl w k cl c) as [|r F A Z|r F A].
  - apply objects_ok_mk.
  - destruct (refuse_is_mk (r_eff r) w k) as [b ->]. apply objects_ok_mk.
  - pose proof (sound_row_of _ _ _ _ Hs F) as Hr.
    destruct (stateless (r_eff r)) eqn:S.
    { destruct (run_stateless (r_eff r) (r_party r) (acting r w k cl) w k c S) as [b ->]. apply objects_ok_mk. }
    pose proof (sound_gate r w k cl Hr A) as G.
    rewrite (sound_acting r w k cl Hr S). fold a. fold a in G.
    destruct (r_eff r) eqn:E; cbn [stateless] in S; try discriminate S; cbn [run].
    + (* EMapList *) apply objects_ok_same; reflexivity.
    + (* EMapGet *)
      destruct (k_obj c) as [i|]; [|apply objects_ok_mk].
      destruct (find_map i (w_maps w)) as [m|]; [|apply objects_ok_mk].
      destruct (map_party_ok (r_party r) a m); [|apply objects_ok_mk]. apply objects_ok_same; reflexivity.
    + (* EMapDelete *)
      destruct (k_obj c) as [i|]; [|apply objects_ok_mk].
      destruct (find_map i (w_maps w)) as [m|]; [|apply objects_ok_mk].
      destruct (map_party_ok (r_party r) a m); [|apply objects_ok_mk]. apply objects_ok_same; reflexivity.
    + (* ECodeGen *)
      destruct (k_valid c); [|apply objects_ok_mk].
      unfold objects_ok; cbn. split; [tauto|]. split; [tauto|]. split; [intros i []|]. split.
      * intros x Hin Hnot. rewrite (in_app_new _ _ _ Hin Hnot). cbn. split; [exact G|now left].
      * intros i [<-|[]]. eexists. split; [apply in_or_app; right; left; reflexivity|]. split; reflexivity.
    + (* ECodeList *)
      unfold objects_ok; cbn. split; [tauto|]. split; [tauto|]. split; [intros i []|]. split; [tauto|].
      intros i Hi. apply in_map_filter in Hi. destruct Hi as [x [Hin [Hid Hsel]]]. apply N.eqb_eq in Hsel. exists x. auto.
    + (* ECodeActivate *)
      destruct (k_obj c) as [i|]; [|apply objects_ok_mk].
      destruct (negb (k_valid c)); [apply objects_ok_mk|].
      destruct (find_code i (w_codes w)) as [x|] eqn:Fc; [|apply objects_ok_mk].
      destruct (negb (c_act x =? 0)); [apply objects_ok_mk|].
      unfold objects_ok; cbn. split; [tauto|]. split; [tauto|]. split; [intros j []|]. split; [|intros j []].
      intros y Hin Hnot. destruct (update_code_new _ _ _ _ Hin Hnot) as [x0 [_ ->]]. cbn. split; [exact G|now right].
    + (* EConfigGet *) apply objects_ok_same; reflexivity.
    + (* ETraffic *)
      destruct (k_obj c) as [i|]; [|apply objects_ok_mk].
      destruct (find_map i (w_maps w)) as [m|]; [|apply objects_ok_mk].
      destruct (map_party_ok (r_party r) a m); [|apply objects_ok_mk]. apply objects_ok_same; reflexivity.
    + (* ESocksOpen *)
      destruct (k_obj c) as [i|]; [|apply objects_ok_mk].
      destruct (find_map i (w_maps w)) as [m|]; [|apply objects_ok_mk].
      destruct (map_party_ok (r_party r) a m); [|apply objects_ok_mk].
      destruct (negb (socks_route w (m_target m) =? 0)); [|apply objects_ok_mk]. apply objects_ok_same; reflexivity.
    + (* EDnsForward *)
      match goal with |- context [if ?b then _ else _] => destruct b end; [|apply objects_ok_mk].
      apply objects_ok_same; reflexivity.
    + (* ENotify *)
      destruct (k_tgt c) as [t|]; [|apply objects_ok_mk].
      match goal with |- context [if ?b then _ else _] => destruct b end; [apply objects_ok_mk|].
      apply objects_ok_same; reflexivity.
    + (* EDomCreate *)
      destruct (k_valid c); [|apply objects_ok_mk].
      unfold objects_ok; cbn. split.
      * intros d Hin Hnot. exfalso. apply Hnot. apply in_or_app. now left.
      * split; [|split; [|split; [tauto|intros i []]]].
        -- intros d Hin Hnot. rewrite (in_app_new _ _ _ Hin Hnot). cbn. split; [reflexivity|exact G].
        -- intros i [<-|[]]. eexists. split; [apply in_or_app; right; left; reflexivity|]. split; reflexivity.
    + (* EDomDelete *)
      destruct (k_obj c) as [i|]; [|apply objects_ok_mk].
      destruct (find_dom i (w_doms w)) as [d|] eqn:Fd; [|apply objects_ok_mk].
      destruct (d_owner d =? a) eqn:Eo; [|apply objects_ok_mk]. apply N.eqb_eq in Eo.
      unfold objects_ok; cbn. split.
      * intros d' Hin Hnot. rewrite (remove_dom_lost _ _ _ Hin Hnot) in Fd. injection Fd as ->. exact Eo.
      * split; [|split; [intros j []|split; [tauto|intros j []]]].
        intros d' Hin Hnot. exfalso. apply Hnot. eapply remove_dom_sub; eauto.
    + (* EDomList *)
      unfold objects_ok; cbn. split; [tauto|]. split; [tauto|]. split; [|split; [tauto|intros i []]].
      intros i Hi. apply in_map_filter in Hi. destruct Hi as [d [Hin [Hid Hsel]]]. apply N.eqb_eq in Hsel. exists d. auto.
    + (* EDisconnect *) apply objects_ok_same; reflexivity.
Qed.

Lemma party_only_objects :
  forall w k cl c, objects_ok (conn_identity w k) w (exec current_table w k cl c).
Proof. exact (party_only_objects_gen current_table current_table_sound). Qed.

(* ------------------------------------------------------------------------------------------ *)
(* (3c) reaching another client, and who can be disconnected                                  *)
(* ------------------------------------------------------------------------------------------ *)
Definition reach_ok (a : cid) (w : world) (r : result) : Prop :=
  (forall t ty s, In (t, ty, s) (res_deliv r) ->
     a <> 0 /\ t <> a /\ ((ty = C_NotifyClient /\ s = a) \/ exists m, In m (w_maps w) /\ m_listen m = a /\ m_target m = t)) /\
  (forall x, In x (w_online w) -> ~ In x (w_online (res_world r)) -> x = a) /\
  (forall x, In x (w_online (res_world r)) -> In x (w_online w)) /\
  (forall p, In p (w_bind (res_world r)) -> In p (w_bind w)).

Lemma reach_ok_mk a b w : reach_ok a w (mk b w).
Proof. unfold reach_ok, mk; cbn. repeat split; intros; try contradiction; assumption. Qed.

Lemma reach_ok_quiet a w r :
  res_deliv r = [] -> w_online (res_world r) = w_online w -> w_bind (res_world r) = w_bind w -> reach_ok a w r.
Proof. intros H1 H2 H3. unfold reach_ok. rewrite H1, H2, H3. repeat split; intros; cbn in *; try contradiction; assumption. Qed.

Lemma deliver_in self t ty s x : In x (deliver self t ty s) -> x = (t, ty, s) /\ t <> self.
Proof.
  unfold deliver. destruct (t =? self) eqn:E; cbn [In]; [tauto|]. intros [<-|[]]. split; [reflexivity|now apply N.eqb_neq].
Qed.

Lemma reaches_exists a t l : reaches a t l = true -> exists m, In m l /\ m_listen m = a /\ m_target m = t.
Proof.
  unfold reaches. intro H. apply andb_prop in H. destruct H as [_ H]. apply existsb_exists in H.
  destruct H as [m [Hin Hm]]. apply andb_prop in Hm. destruct Hm as [H1 H2]. apply N.eqb_eq in H1, H2. exists m. auto.
Qed.

Lemma reach_only_gen tbl :
  sound_table tbl = true ->
  forall w k cl c, reach_ok (conn_identity w k) w (exec tbl w k cl c).
Proof.
  intros Hs w k cl c. set (a := conn_identity w k).
  destruct (exec_cases tbl w k cl c) as [|r F A Z|r F A].
  - apply reach_ok_mk.
  - destruct (refuse_is_mk (r_eff r) w k) as [b ->]. apply reach_ok_mk.
  - pose proof (sound_row_of _ _ _ _ Hs F) as Hr.
    destruct (stateless (r_eff r)) eqn:S.
    { destruct (run_stateless (r_eff r) (r_party r) (acting r w k cl) w k c S) as [b ->]. apply reach_ok_mk. }
    pose proof (sound_gate r w k cl Hr A) as G.
    rewrite (sound_acting r w k cl Hr S). fold a. fold a in G.
    destruct (r_eff r) eqn:E; cbn [stateless] in S; try discriminate S; cbn [run]; fold a.
    + apply reach_ok_quiet; reflexivity.
    + destruct (k_obj c) as [i|]; [|apply reach_ok_mk].
      destruct (find_map i (w_maps w)) as [m|]; [|apply reach_ok_mk].
      destruct (map_party_ok (r_party r) a m); [|apply reach_ok_mk]. apply reach_ok_quiet; reflexivity.
    + destruct (k_obj c) as [i|]; [|apply reach_ok_mk].
      destruct (find_map i (w_maps w)) as [m|]; [|apply reach_ok_mk].
      destruct (map_party_ok (r_party r) a m); [|apply reach_ok_mk]. apply reach_ok_quiet; reflexivity.
    + destruct (k_valid c); [|apply reach_ok_mk]. apply reach_ok_quiet; reflexivity.
    + apply reach_ok_quiet; reflexivity.
    + destruct (k_obj c) as [i|]; [|apply reach_ok_mk].
      destruct (negb (k_valid c)); [apply reach_ok_mk|].
      destruct (find_code i (w_codes w)) as [x|]; [|apply reach_ok_mk].
      destruct (negb (c_act x =? 0)); [apply reach_ok_mk|]. apply reach_ok_quiet; reflexivity.
    + apply reach_ok_quiet; reflexivity.
    + destruct (k_obj c) as [i|]; [|apply reach_ok_mk].
      destruct (find_map i (w_maps w)) as [m|]; [|apply reach_ok_mk].
      destruct (map_party_ok (r_party r) a m); [|apply reach_ok_mk]. apply reach_ok_quiet; reflexivity.
    + (* ESocksOpen *)
      destruct G as [Hp Ha]. rewrite Hp.
      destruct (k_obj c) as [i|]; [|apply reach_ok_mk].
      destruct (find_map i (w_maps w)) as [m|] eqn:Fm; [|apply reach_ok_mk].
      destruct (map_party_ok PMapListen a m) eqn:P; [|apply reach_ok_mk].
      destruct (negb (socks_route w (m_target m) =? 0)); [|apply reach_ok_mk].
      cbn [map_party_ok] in P. apply N.eqb_eq in P. destruct (find_map_some _ _ _ Fm) as [Hin _].
      unfold reach_ok; cbn. split; [|repeat split; intros; try contradiction; assumption].
      intros t ty s Hd. apply deliver_in in Hd. destruct Hd as [Heq Hne]. injection Heq as -> -> ->.
      split; [exact Ha|]. split; [exact Hne|]. right. exists m. auto.
    + (* EDnsForward *)
      destruct G as [Hp Ha]. rewrite Hp.
      match goal with |- context [dns_route w ?t (k_type c)] => set (tt := t) end.
      destruct (negb (dns_route w tt (k_type c) =? 0)) eqn:Eg; [|apply reach_ok_mk].
      assert (Ent : tt <> 0).
      { intro Hz. rewrite Hz in Eg. unfold dns_route in Eg. cbn in Eg. discriminate Eg. }
      unfold reach_ok; cbn. split; [|repeat split; intros; try contradiction; assumption].
      intros t ty s Hd. apply deliver_in in Hd. destruct Hd as [Heq Hne]. injection Heq as -> -> ->.
      split; [exact Ha|]. split; [exact Hne|]. right.
      subst tt. destruct (k_tgt c) as [t0|].
      * destruct (reaches a t0 (client_mappings w a)) eqn:Er; [|contradiction Ent; reflexivity].
        destruct (reaches_exists _ _ _ Er) as [m [Hin Hm]]. exists m. split; [exact (client_mappings_sub w a m Hin)|exact Hm].
      * destruct (a =? 0); [contradiction Ent; reflexivity|].
        unfold default_target in *.
        destruct (find (fun m => m_socks m && m_active m && negb (m_target m =? 0) && (negb true || (m_listen m =? a))) (client_mappings w a)) as [m|] eqn:Ff;
          [|contradiction Ent; reflexivity].
        apply find_some in Ff. destruct Ff as [Hin Hm].
        apply andb_prop in Hm. destruct Hm as [_ Hm]. cbn [negb orb] in Hm. apply N.eqb_eq in Hm.
        exists m. split; [exact (client_mappings_sub w a m Hin)|]. split; [exact Hm|reflexivity].
    + (* ENotify *)
      destruct (k_tgt c) as [t|]; [|apply reach_ok_mk].
      match goal with |- context [if ?b then _ else _] => destruct b end; [apply reach_ok_mk|].
      unfold reach_ok; cbn. split; [|repeat split; intros; try contradiction; assumption].
      intros t' ty s Hd. apply deliver_in in Hd. destruct Hd as [Heq Hne]. injection Heq as -> -> ->.
      split; [exact G|]. split; [exact Hne|]. left. split; reflexivity.
    + destruct (k_valid c); [|apply reach_ok_mk]. apply reach_ok_quiet; reflexivity.
    + destruct (k_obj c) as [i|]; [|apply reach_ok_mk].
      destruct (find_dom i (w_doms w)) as [d|]; [|apply reach_ok_mk].
      destruct (d_owner d =? a); [|apply reach_ok_mk]. apply reach_ok_quiet; reflexivity.
    + apply reach_ok_quiet; reflexivity.
    + (* EDisconnect *)
      unfold reach_ok; cbn. split; [intros; contradiction|]. split; [|split].
      * intros x Hin Hnot. exact (remove_cid_lost _ _ _ Hin Hnot).
      * intros x Hin. eapply remove_cid_sub; eauto.
      * intros p Hin. destruct k; cbn [unbind_k] in Hin; try assumption. eapply remove_bind_sub; eauto.
Qed.

Lemma reach_only :
  forall w k cl c, reach_ok (conn_identity w k) w (exec current_table w k cl c).
Proof. exact (reach_only_gen current_table current_table_sound). Qed.

Lemma reach_only_notify :
  forall w k cl c, reach_ok (conn_identity w k) w (exec (current_table ++ [aux_row_current]) w k cl c).
Proof. exact (reach_only_gen _ current_table_with_notify_sound). Qed.

(* ------------------------------------------------------------------------------------------ *)
(* unhandled bytes: nothing happens; the table has exactly the listed command bytes           *)
(* ------------------------------------------------------------------------------------------ *)
Definition handled_bytes : list N := [11; 50; 70; 71; 72; 74; 75; 76; 81; 82; 83; 84; 85; 86; 87; 90; 110; 120; 121].

Lemma find_row_handled tbl t b r : find_row tbl t b = Some r -> In t (map r_cmd tbl).
Proof.
  induction tbl as [|x tbl IH]; cbn [find_row map In]; intro H; [discriminate|].
  destruct ((r_cmd x =? t) && resp_matches (r_resp x) b) eqn:E.
  - apply andb_prop in E. destruct E as [E _]. apply N.eqb_eq in E. now left.
  - right. now apply IH.
Qed.

Lemma unhandled_inert :
  forall w k cl c, ~ In (k_type c) handled_bytes -> exec current_table w k cl c = mk false w.
Proof.
  intros w k cl c H. unfold exec.
  destruct (find_row current_table (k_type c) (k_resp c)) as [r|] eqn:F; [|reflexivity].
  exfalso. apply H. apply find_row_handled in F.
  assert (Hs : forall x, In x (map r_cmd current_table) -> In x handled_bytes).
  { intros x Hx. vm_compute in Hx. vm_compute. tauto. }
  now apply Hs.
Qed.

(* ------------------------------------------------------------------------------------------ *)
(* the code as found: witnesses against each unrepaired row                                   *)
(* ------------------------------------------------------------------------------------------ *)
(* HandleTrafficReport: a report on a connection the server has never seen moves mapping #0's counters *)
Lemma pinned_traffic_refuted :
  exists w k cl c, conn_identity w k = 0 /\ wf_world w /\ res_world (exec pinned_table w k cl c) <> w.
Proof.
  exists w_demo, KUnknown, 0, (c_demo 110 (Some 0) None).
  split; [reflexivity|]. split; [|vm_compute; discriminate].
  split; [cbn; intros [H|[H|[H|[]]]]; discriminate H|]. split.
  - intros d [<-|[]]. cbn. discriminate.
  - intros i c [H|[H|[H|[]]]]; injection H as _ <-; discriminate.
Qed.

(* HandleDNSResolveRequest / HandleDNSQueryRequest: an unknown connection reaches client 2 *)
Lemma pinned_dns_refuted :
  exists w k cl c, conn_identity w k = 0 /\ res_deliv (exec pinned_table w k cl c) <> [].
Proof. exists w_demo, KUnknown, 0, (c_demo 120 None (Some 2)). split; [reflexivity|vm_compute; discriminate]. Qed.

Lemma pinned_dns_stranger_refuted :
  exists w k cl c, conn_identity w k = 3 /\ ~ reach_ok 3 w (exec pinned_table w k cl c).
Proof.
  exists w_demo, (KConn 3), 0, (c_demo 121 None (Some 2)). split; [reflexivity|].
  intros [H _]. specialize (H 2 121 0). vm_compute in H.
  destruct (H (or_introl eq_refl)) as [_ [_ [[E _]|[m [Hin [Hl _]]]]]]; [discriminate E|].
  destruct Hin as [<-|[<-|[]]]; discriminate Hl.
Qed.

(* HandleSOCKS5TunnelRequest: identity 0 passes `sourceClientID != mapping.ListenClientID` on a mapping with listen client 0 *)
Lemma pinned_socks_zero_listen_refuted :
  exists w k cl c, conn_identity w k = 0 /\ res_deliv (exec pinned_table w k cl c) <> [].
Proof. exists w_demo, KFresh, 0, (c_demo 90 (Some 1) None). split; [reflexivity|vm_compute; discriminate]. Qed.

(* SendNotifyToClientHandler: a handshake-pending connection notifies client 2, stamped with sender 0 *)
Lemma pinned_notify_refuted :
  exists w k cl c, conn_identity w k = 0 /\ res_deliv (exec (pinned_table ++ [aux_row_pinned]) w k cl c) = [(2, C_NotifyClient, 0)].
Proof. exists w_demo, KPending, 0, (c_demo 102 None (Some 2)). split; [reflexivity|vm_compute; reflexivity]. Qed.

(* ------------------------------------------------------------------------------------------ *)
(* non-vacuity: the hypotheses are met by a non-trivial world, and parties do get things done *)
(* ------------------------------------------------------------------------------------------ *)
Lemma demo_world_wf : wf_world w_demo.
Proof.
  split; [cbn; intros [H|[H|[H|[]]]]; discriminate H|]. split.
  - intros d [<-|[]]. cbn. discriminate.
  - intros i c [H|[H|[H|[]]]]; injection H as _ <-; discriminate.
Qed.

Lemma premises_satisfiable :
  wf_world w_demo /\ sound_table current_table = true
  /\ conn_identity w_demo (KConn 1) = 1 /\ conn_identity w_demo KPending = 0
  (* the listen client deletes its mapping, reports traffic, opens a SOCKS tunnel to its target, resolves through it *)
  /\ w_maps (res_world (exec current_table w_demo (KConn 1) 0 (c_demo 76 (Some 0) None))) = tl (w_maps w_demo)
  /\ map m_sent (w_maps (res_world (exec current_table w_demo (KConn 2) 0 (c_demo 110 (Some 0) None)))) = [1000000; 0]
  /\ res_deliv (exec current_table w_demo (KConn 1) 0 (c_demo 90 (Some 0) None)) = [(2, 35, 0)]
  /\ res_deliv (exec current_table w_demo (KConn 1) 0 (c_demo 120 None (Some 2))) = [(2, 120, 0)]
  /\ res_deliv (exec current_table w_demo (KConn 1) 0 (c_demo 121 None None)) = [(2, 121, 0)]
  (* the stranger (client 3) and the unauthenticated get nothing *)
  /\ exec current_table w_demo (KConn 3) 1 (c_demo 76 (Some 0) None) = mk false w_demo
  /\ exec current_table w_demo (KConn 3) 1 (c_demo 110 (Some 0) None) = mk false w_demo
  /\ exec current_table w_demo (KConn 3) 1 (c_demo 120 None (Some 2)) = mk true w_demo
  /\ exec current_table w_demo KUnknown 1 (c_demo 90 (Some 1) None) = mk false w_demo.
Proof.
  split; [exact demo_world_wf|]. split; [exact current_table_sound|]. repeat split; vm_compute; reflexivity.
Qed.

(* ------------------------------------------------------------------------------------------ *)
(* histories: commands interleaved with registry events on one long-lived session             *)
(* ------------------------------------------------------------------------------------------ *)
Lemma run_history_app tbl hs1 : forall w hs2,
  run_history tbl w (hs1 ++ hs2) =
  (fst (run_history tbl w hs1) ++ fst (run_history tbl (world_after tbl w hs1) hs2),
   world_after tbl (world_after tbl w hs1) hs2).
Proof.
  unfold world_after.
  induction hs1 as [|h hs1 IH]; intros w hs2; cbn [app run_history fst snd].
  - destruct (run_history tbl w hs2); reflexivity.
  - destruct h as [k cl c|ev].
    + rewrite (IH (res_world (exec tbl w k cl c)) hs2).
      destruct (run_history tbl (res_world (exec tbl w k cl c)) hs1) as [rs w1]. cbn [fst snd app]. reflexivity.
    + apply IH.
Qed.

(* the result of a command inside a history is exec against the world produced by the prefix — in particular with the
   identity the registry holds for the connection at that moment, whatever the connection was bound to earlier *)
Lemma history_dispatch tbl w hs1 k cl c hs2 :
  let w1 := world_after tbl w hs1 in
  fst (run_history tbl w (hs1 ++ HCmd k cl c :: hs2)) =
  fst (run_history tbl w hs1) ++ exec tbl w1 k cl c :: fst (run_history tbl (res_world (exec tbl w1 k cl c)) hs2).
Proof.
  cbn zeta. rewrite run_history_app. cbn [fst run_history].
  destruct (run_history tbl (res_world (exec tbl (world_after tbl w hs1) k cl c)) hs2). reflexivity.
Qed.

Definition erase_claims (hs : list hstep) : list hstep :=
  map (fun h => match h with HCmd k _ c => HCmd k 0 c | HEv ev => HEv ev end) hs.

Lemma history_claims_irrelevant_gen tbl :
  forallb id_not_packet tbl = true -> forall hs w, run_history tbl w hs = run_history tbl w (erase_claims hs).
Proof.
  intros Hs hs. induction hs as [|h hs IH]; intro w; cbn [erase_claims map run_history]; [reflexivity|].
  destruct h as [k cl c|ev].
  - rewrite (identity_from_connection_gen tbl Hs w k cl 0 c). fold (erase_claims hs). rewrite IH. reflexivity.
  - fold (erase_claims hs). apply IH.
Qed.

Lemma history_claims_irrelevant :
  forall hs w, run_history (current_table ++ [aux_row_current]) w hs = run_history (current_table ++ [aux_row_current]) w (erase_claims hs).
Proof. exact (history_claims_irrelevant_gen _ (sound_no_packet _ current_table_with_notify_sound)). Qed.

(* identity is a function of the registry state at the time *)
Lemma lookup_insert_bind i c l : lookup_bind i (insert_bind i c l) = Some c.
Proof.
  induction l as [|[j d] l IH]; cbn [insert_bind lookup_bind]; [rewrite N.eqb_refl; reflexivity|].
  destruct (i =? j) eqn:E; [cbn [lookup_bind]; rewrite N.eqb_refl; reflexivity|].
  destruct (i <? j); cbn [lookup_bind]; [rewrite N.eqb_refl; reflexivity|].
  rewrite N.eqb_sym, E. exact IH.
Qed.

Lemma lookup_remove_bind i l : lookup_bind i (remove_bind i l) = None.
Proof.
  induction l as [|[j d] l IH]; cbn [remove_bind lookup_bind]; [reflexivity|].
  destruct (j =? i) eqn:E; [exact IH|]. cbn [lookup_bind]. rewrite E. exact IH.
Qed.

Lemma identity_follows_registry w i c :
  conn_identity (apply_event (EvReauth i c) w) (KConn i) = c /\ conn_identity (apply_event (EvRemove i) w) (KConn i) = 0.
Proof.
  split; cbn [apply_event conn_identity with_reg w_bind].
  - now rewrite lookup_insert_bind.
  - now rewrite lookup_remove_bind.
Qed.

(* well-formedness is preserved by commands and by events that bind to a real client *)
Lemma domain_eq_dec (x y : domain) : {x = y} + {x <> y}.
Proof. decide equality; apply N.eq_dec. Qed.

Lemma exec_preserves_wf tbl : sound_table tbl = true ->
  forall w k cl c, wf_world w -> wf_world (res_world (exec tbl w k cl c)).
Proof.
  intros Hs w k cl c [Hon [Hdom Hbind]].
  destruct (reach_only_gen tbl Hs w k cl c) as [_ [_ [Hsub Hbsub]]].
  destruct (party_only_objects_gen tbl Hs w k cl c) as [_ [Hnew _]].
  split; [|split].
  - intro H. apply Hon. now apply Hsub.
  - intros d Hin. destruct (in_dec domain_eq_dec d (w_doms w)) as [Hold|Hnot]; [now apply Hdom|].
    destruct (Hnew d Hin Hnot) as [Ho Ha]. now rewrite Ho.
  - intros i x Hin. apply (Hbind i x). now apply Hbsub.
Qed.

Lemma insert_cid_in c l x : In x (insert_cid c l) -> x = c \/ In x l.
Proof.
  induction l as [|y l IH]; cbn [insert_cid In]; [intros [H|[]]; now left|].
  destruct (c =? y); [cbn [In]; tauto|]. destruct (c <? y); cbn [In]; [intros [H|H]; auto|].
  intros [H|H]; [auto|]. destruct (IH H); auto.
Qed.

Lemma insert_bind_in i c l p : In p (insert_bind i c l) -> p = (i, c) \/ In p l.
Proof.
  induction l as [|[j d] l IH]; cbn [insert_bind In]; [intros [H|[]]; now left|].
  destruct (i =? j); [cbn [In]; intros [H|H]; auto|]. destruct (i <? j); cbn [In]; [intros [H|H]; auto|].
  intros [H|H]; [auto|]. destruct (IH H); auto.
Qed.

Definition event_ok (ev : event) : Prop := match ev with EvReauth _ c => c <> 0 | _ => True end.

Lemma event_preserves_wf ev w : event_ok ev -> wf_world w -> wf_world (apply_event ev w).
Proof.
  intros He [Hon [Hdom Hbind]]. destruct ev as [i c|i|i|i side c|i b]; cbn [apply_event event_ok] in *;
    try (split; [exact Hon|split; [exact Hdom|exact Hbind]]).
  - split; [|split; [exact Hdom|]]; cbn [with_reg w_online w_bind w_doms].
    + intro H. apply insert_cid_in in H. destruct H as [H|H]; [now apply He|]. apply Hon. eapply remove_cid_sub; eauto.
    + intros j x Hin. apply insert_bind_in in Hin. destruct Hin as [H|H]; [injection H as _ ->; exact He|now apply (Hbind j x)].
  - split; [|split; [exact Hdom|]]; cbn [with_reg w_online w_bind w_doms].
    + intro H. apply Hon. eapply remove_cid_sub; eauto.
    + intros j x Hin. apply (Hbind j x). eapply remove_bind_sub; eauto.
Qed.

Definition history_ok (hs : list hstep) : Prop :=
  Forall (fun h => match h with HEv ev => event_ok ev | HCmd _ _ _ => True end) hs.

Lemma history_preserves_wf tbl : sound_table tbl = true ->
  forall hs w, history_ok hs -> wf_world w -> wf_world (world_after tbl w hs).
Proof.
  intros Hs hs. unfold world_after. induction hs as [|h hs IH]; intros w Hok Hwf; cbn [run_history snd]; [exact Hwf|].
  inversion Hok as [|h' hs' Hh Hrest]; subst. destruct h as [k cl c|ev].
  - pose proof (IH (res_world (exec tbl w k cl c)) Hrest (exec_preserves_wf tbl Hs w k cl c Hwf)) as H.
    destruct (run_history tbl (res_world (exec tbl w k cl c)) hs). exact H.
  - apply IH; [exact Hrest|]. now apply event_preserves_wf.
Qed.

(* every command of every history is judged by the identity the registry holds when it is dispatched *)
Lemma history_step_gen tbl : sound_table tbl = true ->
  forall w hs1 k cl c, wf_world w -> history_ok hs1 ->
  let w1 := world_after tbl w hs1 in let a := conn_identity w1 k in let r := exec tbl w1 k cl c in
  (forall cl', exec tbl w1 k cl' c = r) /\
  (a = 0 -> inert w1 r) /\
  objects_ok a w1 r /\ reach_ok a w1 r /\
  (forall m, In m (w_maps w1) -> ~ In m (w_maps (res_world r)) -> partyP a m) /\
  (forall m, In m (w_maps (res_world r)) -> ~ In m (w_maps w1) -> partyP a m) /\
  (forall i, In i (res_dm r) -> exists m, In m (w_maps (res_world r)) /\ m_id m = i /\ partyP a m).
Proof.
  intros Hs w hs1 k cl c Hwf Hok. cbn zeta.
  pose proof (history_preserves_wf tbl Hs hs1 w Hok Hwf) as Hwf1.
  split; [intro cl'; apply (identity_from_connection_gen tbl (sound_no_packet tbl Hs))|].
  split; [intro Ha; now apply (unauth_refused_gen tbl Hs)|].
  split; [apply (party_only_objects_gen tbl Hs)|].
  split; [apply (reach_only_gen tbl Hs)|].
  exact (party_only_mappings_gen tbl Hs (world_after tbl w hs1) k cl c).
Qed.

Lemma history_step :
  forall w hs1 k cl c, wf_world w -> history_ok hs1 ->
  let tbl := current_table ++ [aux_row_current] in
  let w1 := world_after tbl w hs1 in let a := conn_identity w1 k in let r := exec tbl w1 k cl c in
  (forall cl', exec tbl w1 k cl' c = r) /\
  (a = 0 -> inert w1 r) /\
  objects_ok a w1 r /\ reach_ok a w1 r /\
  (forall m, In m (w_maps w1) -> ~ In m (w_maps (res_world r)) -> partyP a m) /\
  (forall m, In m (w_maps (res_world r)) -> ~ In m (w_maps w1) -> partyP a m) /\
  (forall i, In i (res_dm r) -> exists m, In m (w_maps (res_world r)) /\ m_id m = i /\ partyP a m).
Proof. exact (history_step_gen _ current_table_with_notify_sound). Qed.

(* an executor that remembers the identity it resolved first (the seeded defect class) is refuted by a 3-step history:
   connection #1 lists its domains as client 1, re-authenticates as client 4, deletes client 1's domain *)
Definition h_stale : list hstep :=
  [HCmd (KConn 1) 0 (c_demo 87 None None); HEv (EvReauth 1 4); HCmd (KConn 1) 0 (c_demo 86 (Some 0) None)].

Lemma memo_executor_refuted :
  conn_identity (world_after current_table w_demo [HCmd (KConn 1) 0 (c_demo 87 None None); HEv (EvReauth 1 4)]) (KConn 1) = 4
  /\ w_doms (snd (run_history_memo current_table [] w_demo h_stale)) = []
  /\ w_doms (snd (run_history current_table w_demo h_stale)) = w_doms w_demo
  /\ history_ok h_stale.
Proof.
  split; [vm_compute; reflexivity|]. split; [vm_compute; reflexivity|]. split; [vm_compute; reflexivity|].
  repeat constructor. cbn. discriminate.
Qed.

(* same history, the connection removed from the registry instead: the stale identity still notifies client 2 as client 1 *)
Lemma memo_executor_notify_refuted :
  let hs := [HCmd (KConn 1) 0 (c_demo 87 None None); HEv (EvRemove 1); HCmd (KConn 1) 0 (c_demo 102 None (Some 2))] in
  map res_deliv (fst (run_history_memo (current_table ++ [aux_row_current]) [] w_demo hs)) = [[]; [(2, C_NotifyClient, 1)]]
  /\ map res_deliv (fst (run_history (current_table ++ [aux_row_current]) w_demo hs)) = [[]; []].
Proof. split; vm_compute; reflexivity. Qed.

(* ------------------------------------------------------------------------------------------ *)
(* a single storage fault at any position: fail closed                                        *)
(* ------------------------------------------------------------------------------------------ *)
Lemma exec_faulty_cases tbl w k cl c p :
  exec_faulty false tbl w k cl c p = exec tbl w k cl c \/ exists b, exec_faulty false tbl w k cl c p = mk b w.
Proof.
  unfold exec_faulty, exec.
  destruct (find_row tbl (k_type c) (k_resp c)) as [r|]; [|now left].
  destruct (r_route r); [now left| |];
    (destruct (r_auth r && (acting r w k cl =? 0)); [now left|];
     destruct (Nat.ltb p (guard_reads (r_eff r))); [|now left];
     right; unfold guard_fail; destruct (r_eff r); eexists; reflexivity).
Qed.

(* for EVERY fault position the faulted command satisfies everything the unfaulted one does: in particular a command of a
   non-party (or of nobody) leaves every other owner's mappings, codes and domains untouched and reaches nobody *)
Lemma fail_closed_gen tbl : sound_table tbl = true ->
  forall w k cl c p, let a := conn_identity w k in let r := exec_faulty false tbl w k cl c p in
  (wf_world w -> a = 0 -> inert w r) /\
  objects_ok a w r /\ reach_ok a w r /\
  (forall m, In m (w_maps w) -> ~ In m (w_maps (res_world r)) -> partyP a m) /\
  (forall m, In m (w_maps (res_world r)) -> ~ In m (w_maps w) -> partyP a m) /\
  (forall i, In i (res_dm r) -> exists m, In m (w_maps (res_world r)) /\ m_id m = i /\ partyP a m).
Proof.
  intros Hs w k cl c p. cbn zeta.
  destruct (exec_faulty_cases tbl w k cl c p) as [->|[b ->]].
  - split; [intros Hwf Ha; now apply (unauth_refused_gen tbl Hs)|].
    split; [apply (party_only_objects_gen tbl Hs)|]. split; [apply (reach_only_gen tbl Hs)|].
    exact (party_only_mappings_gen tbl Hs w k cl c).
  - split; [intros; apply mk_inert|]. split; [apply objects_ok_mk|]. split; [apply reach_ok_mk|].
    cbn. repeat split; intros; try contradiction; tauto.
Qed.

Lemma fail_closed :
  forall w k cl c p, let a := conn_identity w k in let r := exec_faulty false (current_table ++ [aux_row_current]) w k cl c p in
  (wf_world w -> a = 0 -> inert w r) /\
  objects_ok a w r /\ reach_ok a w r /\
  (forall m, In m (w_maps w) -> ~ In m (w_maps (res_world r)) -> partyP a m) /\
  (forall m, In m (w_maps (res_world r)) -> ~ In m (w_maps w) -> partyP a m) /\
  (forall i, In i (res_dm r) -> exists m, In m (w_maps (res_world r)) /\ m_id m = i /\ partyP a m).
Proof. exact (fail_closed_gen _ current_table_with_notify_sound). Qed.

(* the fall-through variant is refuted: the stranger (client 3) deletes mapping #0 (listen 1, target 2) when the handler's
   first read fails *)
Lemma fallthrough_delete_refuted :
  conn_identity w_demo (KConn 3) = 3
  /\ w_maps (res_world (exec_faulty true current_table w_demo (KConn 3) 0 (c_demo 76 (Some 0) None) 0)) = tl (w_maps w_demo)
  /\ exec_faulty false current_table w_demo (KConn 3) 0 (c_demo 76 (Some 0) None) 0 = mk false w_demo.
Proof. repeat split; vm_compute; reflexivity. Qed.

(* ------------------------------------------------------------------------------------------ *)
(* the party check precedes every externally visible effect, cross-node relays included       *)
(* ------------------------------------------------------------------------------------------ *)
Lemma check_first_no_effects prog : check_first prog = true -> emitted false prog = [].
Proof.
  induction prog as [|s prog IH]; cbn [check_first emitted]; intro H; [reflexivity|].
  destruct s; [now apply IH|reflexivity|discriminate H].
Qed.

Lemma handler_orders_check_first :
  check_first socks_prog_local = true /\ check_first socks_prog_remote = true /\ check_first dnsquery_prog_remote = true
  /\ emitted true socks_prog_remote = [C_RelayTunnelOpen] /\ emitted true dnsquery_prog_remote = [C_RelayDNSQuery].
Proof. repeat split; reflexivity. Qed.

Lemma relay_first_order_refuted :
  check_first socks_prog_remote_relay_first = false /\ emitted false socks_prog_remote_relay_first = [C_RelayTunnelOpen].
Proof. split; reflexivity. Qed.

(* a two-node world: client 2 (target of mapping #0, listen client 1) is connected on another node *)
Definition w_cluster : world :=
  {| w_maps := w_maps w_demo; w_codes := []; w_doms := []; w_online := [1; 3]; w_bind := [(1, 1); (3, 3)];
     w_nm := 2; w_nc := 0; w_nd := 0; w_xnode := true; w_remote := [2]; w_index := w_index w_demo |}.

(* on the executable model: the listen client's request is relayed to the other node; the stranger's, the unauthenticated
   connection's and the unknown connection's are not — and with the relay in front of the check all of them are *)
Lemma cluster_relays_only_for_entitled :
  res_deliv (exec current_table w_cluster (KConn 1) 0 (c_demo 90 (Some 0) None)) = [(2, C_RelayTunnelOpen, 0)]
  /\ res_deliv (exec current_table w_cluster (KConn 1) 0 (c_demo 121 None (Some 2))) = [(2, C_RelayDNSQuery, 0)]
  /\ res_deliv (exec current_table w_cluster (KConn 3) 1 (c_demo 90 (Some 0) None)) = []
  /\ res_deliv (exec current_table w_cluster (KConn 3) 1 (c_demo 121 None (Some 2))) = []
  /\ res_deliv (exec current_table w_cluster KPending 1 (c_demo 90 (Some 0) None)) = []
  /\ res_deliv (exec current_table w_cluster KUnknown 1 (c_demo 90 (Some 1) None)) = []
  /\ res_deliv (socks_relay_first w_cluster (KConn 3) (c_demo 90 (Some 0) None)) = [(2, C_RelayTunnelOpen, 0)]
  /\ res_deliv (socks_relay_first w_cluster KUnknown (c_demo 90 (Some 0) None)) = [(2, C_RelayTunnelOpen, 0)]
  /\ ~ reach_ok 3 w_cluster (socks_relay_first w_cluster (KConn 3) (c_demo 90 (Some 0) None)).
Proof.
  repeat split; try (vm_compute; reflexivity).
  intros [H _]. specialize (H 2 C_RelayTunnelOpen 0). vm_compute in H.
  destruct (H (or_introl eq_refl)) as [_ [_ [[E _]|[m [Hin [Hl _]]]]]]; [discriminate E|].
  destruct Hin as [<-|[<-|[]]]; discriminate Hl.
Qed.

(* ------------------------------------------------------------------------------------------ *)
(* headline restatements for the clause map (lib/clauses.d/C11.md)                            *)
(* ------------------------------------------------------------------------------------------ *)
(* "executed with the identity authenticated on the connection it arrived on": every row of the server's table whose
   effect touches client-owned state or another client acts with conn_identity; the other rows touch nothing at all *)
Lemma acting_is_connection_identity :
  forall r, In r (current_table ++ [aux_row_current]) ->
  (stateless (r_eff r) = false -> forall w k cl, acting r w k cl = conn_identity w k) /\
  (stateless (r_eff r) = true -> forall p a w k c, exists b, run (r_eff r) p a w k c = mk b w).
Proof.
  intros r Hin.
  assert (Hr : row_sound r = true).
  { pose proof current_table_with_notify_sound as Hs. unfold sound_table in Hs. rewrite forallb_forall in Hs. now apply Hs. }
  split.
  - intros S w k cl. now apply sound_acting.
  - intros S p a w k c. now apply run_stateless.
Qed.

Lemma find_row_cmd tbl t b r : find_row tbl t b = Some r -> r_cmd r = t.
Proof.
  induction tbl as [|x tbl IH]; cbn [find_row]; intro H; [discriminate|].
  destruct ((r_cmd x =? t) && resp_matches (r_resp x) b) eqn:E.
  - injection H as <-. apply andb_prop in E. destruct E as [E _]. now apply N.eqb_eq in E.
  - now apply IH.
Qed.

(* "refused on unauthenticated connections", literally: the commands behind an explicit authentication gate are answered
   with failure (success flag false), besides being inert (unauth_refused) *)
Definition gated_types : list N := [50; 70; 71; 72; 74; 75; 76; 85; 90; 102; 110].
Definition gate_row_ok (r : row) : bool :=
  implb (memN (r_cmd r) gated_types)
        (r_auth r && id_is_conn r && match r_eff r with EDnsForward => false | _ => true end).

Lemma gated_rows_ok : forallb gate_row_ok (current_table ++ [aux_row_current]) = true.
Proof. vm_compute. reflexivity. Qed.

Lemma unauth_answered_with_failure :
  forall w k cl c, conn_identity w k = 0 -> In (k_type c) gated_types ->
  res_ok (exec (current_table ++ [aux_row_current]) w k cl c) = false.
Proof.
  intros w k cl c Hid Hty. unfold exec.
  destruct (find_row (current_table ++ [aux_row_current]) (k_type c) (k_resp c)) as [r|] eqn:F; [|reflexivity].
  pose proof (find_row_in _ _ _ _ F) as Hin. pose proof (find_row_cmd _ _ _ _ F) as Hc.
  pose proof gated_rows_ok as Hg. rewrite forallb_forall in Hg. specialize (Hg r Hin).
  unfold gate_row_ok in Hg. rewrite Hc in Hg. apply memN_In in Hty. rewrite Hty in Hg. cbn [implb] in Hg.
  apply andb_prop in Hg. destruct Hg as [Hg He]. apply andb_prop in Hg. destruct Hg as [Ha Hi].
  destruct (r_route r); [reflexivity| |];
    (unfold acting; unfold id_is_conn in Hi; destruct (r_id r); try discriminate Hi;
     rewrite Ha, Hid; cbn [andb N.eqb]; destruct (r_eff r); try discriminate He; reflexivity).
Qed.

(* the rows without an explicit gate answer an unauthenticated sender with success although nothing happens
   (HTTPDomainList: empty list; HTTPDomainDelete of an id that does not exist: "already deleted"; Disconnect: nil) *)
Lemma ungated_rows_success_but_inert :
  res_ok (exec current_table w_demo KUnknown 0 (c_demo 87 None None)) = true
  /\ res_ok (exec current_table w_demo KFresh 0 (c_demo 86 (Some 999) None)) = true
  /\ res_ok (exec current_table w_demo KPending 0 (c_demo 11 None None)) = true
  /\ inert w_demo (exec current_table w_demo KUnknown 0 (c_demo 87 None None))
  /\ inert w_demo (exec current_table w_demo KFresh 0 (c_demo 86 (Some 999) None))
  /\ inert w_demo (exec current_table w_demo KPending 0 (c_demo 11 None None)).
Proof. repeat split; vm_compute; reflexivity. Qed.

(* ------------------------------------------------------------------------------------------ *)
(* stale per-client index; decisions taken on the CURRENT store                               *)
(* ------------------------------------------------------------------------------------------ *)
(* mapping #0 handed from client 1 to client 3 (MigrateClientMappings): client 1's index entry is now stale *)
Definition w_stale : world := apply_event (EvSetParty 0 false 3) w_demo.

(* whatever the index contains, the list / config answers name only mappings the caller is CURRENTLY a party of
   (instance of party_only_mappings for worlds with a stale index); answering with the raw index does not *)
Lemma stale_index_listing :
  conn_identity w_stale (KConn 1) = 1
  /\ maplist_raw_index w_stale 1 = [0]
  /\ res_dm (exec current_table w_stale (KConn 1) 0 (c_demo 74 None None)) = []
  /\ res_dm (exec current_table w_stale (KConn 1) 0 (c_demo 50 None None)) = []
  /\ ~ (exists m, In m (w_maps w_stale) /\ m_id m = 0 /\ partyP 1 m).
Proof.
  repeat split; try (vm_compute; reflexivity).
  intros [m [Hin [Hid [_ Hp]]]]. vm_compute in Hin. destruct Hin as [<-|[<-|[]]]; cbn in Hid, Hp; [|discriminate Hid].
  destruct Hp as [H|H]; discriminate H.
Qed.

(* the default DNS target as found: taken from the (stale) index without asking who the mapping's listen client is now —
   the former listen client still reaches client 2; with the listen check it does not *)
Lemma lax_default_target_refuted :
  res_deliv (exec (common_rows ++ lax_dns_rows) w_stale (KConn 1) 0 (c_demo 121 None None)) = [(2, 121, 0)]
  /\ ~ reach_ok 1 w_stale (exec (common_rows ++ lax_dns_rows) w_stale (KConn 1) 0 (c_demo 121 None None))
  /\ res_deliv (exec current_table w_stale (KConn 1) 0 (c_demo 121 None None)) = [].
Proof.
  split; [vm_compute; reflexivity|]. split; [|vm_compute; reflexivity].
  intros [H _]. specialize (H 2 121 0). vm_compute in H.
  destruct (H (or_introl eq_refl)) as [_ [_ [[E _]|[m [Hin [Hl _]]]]]]; [discriminate E|].
  destruct Hin as [<-|[<-|[]]]; discriminate Hl.
Qed.

(* a remembered default target (a seeded breaking change): after the mapping is deleted the cached decision still names
   client 2, the decision on the current store names nobody *)
Lemma cached_default_target_refuted :
  let w1 := apply_event (EvDelMap 0) w_demo in
  let cache := snd (dns_default_cached [] w_demo 1) in
  fst (dns_default_cached [] w_demo 1) = 2
  /\ fst (dns_default_cached cache w1 1) = 2
  /\ default_target true 1 (client_mappings w1 1) = 0
  /\ map res_deliv (fst (run_history current_table w_demo
        [HCmd (KConn 1) 0 (c_demo 121 None None); HEv (EvDelMap 0); HCmd (KConn 1) 0 (c_demo 121 None None);
         HEv (EvSetActive 1 false); HCmd (KConn 2) 0 (c_demo 90 (Some 0) None)])) = [[(2, 121, 0)]; []; []].
Proof. repeat split; vm_compute; reflexivity. Qed.

(* reaping expired domains by anybody is refuted: the stranger (client 3) removes client 1's domain #0 once it is expired;
   the table's HTTPDomainDelete refuses it whatever its age *)
Lemma reap_expired_refuted :
  w_doms (dom_delete_reaping (fun _ => true) w_demo 3 0) = []
  /\ exec current_table w_demo (KConn 3) 0 (c_demo 86 (Some 0) None) = mk false w_demo.
Proof. split; vm_compute; reflexivity. Qed.

(* answering a command with the result computed for ANOTHER connection's command of the same type and CommandId (a seeded
   breaking change: in-flight duplex commands coalesced by "<type>/<CommandId>") is refuted: the party's MappingGet result names
   mapping #0, of which the stranger (client 3) is not a party; the stranger's own result names nothing *)
Lemma coalesced_result_refuted :
  let rA := exec current_table w_demo (KConn 1) 0 (c_demo 75 (Some 0) None) in
  let rB := exec current_table w_demo (KConn 3) 0 (c_demo 75 (Some 0) None) in
  res_dm rA = [0] /\ res_dm rB = [] /\ res_ok rB = false
  /\ ~ (forall i, In i (res_dm rA) -> exists m, In m (w_maps w_demo) /\ m_id m = i /\ partyP 3 m).
Proof.
  cbn zeta. split; [vm_compute; reflexivity|]. split; [vm_compute; reflexivity|]. split; [vm_compute; reflexivity|].
  intro H. destruct (H 0 (or_introl eq_refl)) as [m [Hin [Hid [_ Hp]]]].
  vm_compute in Hin. destruct Hin as [<-|[<-|[]]]; cbn in Hid, Hp; [|discriminate Hid].
  destruct Hp as [Hp|Hp]; discriminate Hp.
Qed.

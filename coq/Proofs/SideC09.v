(* Proofs/SideC09.v — side conditions over the values regenerated from /repo (Gen/C09.v) *)
From TX Require Import Base.Val Model.Routing Gen.C09.
Open Scope N_scope.
Lemma default_ttl_positive : 0 < DefaultTTLns.
Proof. reflexivity. Qed.

(* Proofs/SideC09.v — side conditions tying Model/Routing.v to the values regenerated from /repo (Gen/C09.v):
   key layout of routing.go, TTLs, the prefix tables of hybrid.DefaultConfig(), the value shapes the real backends
   hand back for a waiting key, the polling constants of cross_node_session.go.  Re-proved on every run.
   Also: the concrete deployment configurations the correspondence run replays (cfg_direct / cfg_hybrid) and the
   concrete codec instance used for extraction and for the non-vacuity statement. *)
From Coq Require Import List NArith ZArith Bool Lia ZifyN ZifyNat ZifyBool.
Import ListNotations.
From TX Require Import Base.Val Model.Routing Proofs.Routing Gen.C09.
Open Scope N_scope.

(* ---- deployments *)
(* every RoutingTable on one store (memory.Storage / redis.Storage / one hybrid.Storage) *)
Definition cfg_direct (ttl : N) (ident : bool) : cfg :=
  mkCfg (new_table_ttl DefaultTTLns ttl) NodeAddressTTLns WaitPrefix NodePrefix NodeSuffix (fun _ => true) ident LookupDeletesExpired.
(* one hybrid.Storage per node with hybrid.DefaultConfig(), with / without a shared cache *)
Definition cfg_hybrid (has_shared_cache : bool) (ttl : N) : cfg :=
  mkCfg (new_table_ttl DefaultTTLns ttl) NodeAddressTTLns WaitPrefix NodePrefix NodeSuffix
        (hybrid_route has_shared_cache HybridSharedPersistent HybridShared) ShapeIdentHybridShared LookupDeletesExpired.

(* 1 *)
Lemma default_ttl_positive : 0 < DefaultTTLns.
Proof. reflexivity. Qed.

Lemma table_ttl_nonzero : forall ttl, new_table_ttl DefaultTTLns ttl <> 0.
Proof.
  intro ttl. unfold new_table_ttl. destruct (N.eqb ttl 0) eqn:E.
  - pose proof default_ttl_positive. lia.
  - apply N.eqb_neq in E. exact E.
Qed.

(* 2 *)
Lemma node_address_ttl : NodeAddressTTLns = NodeAddressTTLconst /\ 0 < NodeAddressTTLns.
Proof. split; reflexivity. Qed.

(* 2b: the node re-registers its address (components_session.go refresh goroutine) well inside the address lifetime:
   twice the refresh interval still fits, so one missed or late refresh does not lose the address *)
Lemma refresh_inside_address_ttl : 0 < AddrRefreshIntervalNs /\ 2 * AddrRefreshIntervalNs <= NodeAddressTTLns.
Proof. vm_compute. split; [reflexivity|intro K; discriminate]. Qed.

Lemma deployments_addr_ttl : forall ttl ident hs,
  c_addr_ttl (cfg_direct ttl ident) = NodeAddressTTLns /\ c_addr_ttl (cfg_hybrid hs ttl) = NodeAddressTTLns
  /\ NodeAddressTTLns <> 0.
Proof. intros. repeat split. intro K. discriminate. Qed.

(* 3: "tunnox:tunnel_waiting:"+id and "tunnox:node:"+id+":addr" never coincide *)
Lemma key_families_diverge : diverge WaitPrefix NodePrefix = true.
Proof. vm_compute. reflexivity. Qed.

(* 4, 5: under hybrid.DefaultConfig() both key families are pure shared data for EVERY id: they go to the shared
   cache when there is one (and to nothing else), to the node-local cache otherwise *)
Lemma waiting_family_shared : family_pure_shared HybridSharedPersistent HybridShared WaitPrefix = true.
Proof. vm_compute. reflexivity. Qed.

Lemma node_family_shared : family_pure_shared HybridSharedPersistent HybridShared NodePrefix = true.
Proof. vm_compute. reflexivity. Qed.

(* 6: the value shapes the real backends return for a waiting key are the ones the model's configurations use *)
Lemma backend_shapes :
  ShapeIdentMemory = true /\ ShapeIdentRedis = false /\ ShapeIdentHybridShared = false /\ ShapeIdentHybridLocal = true.
Proof. repeat split; reflexivity. Qed.

(* 7: the polling lookup of the target node retries well inside the waiting period *)
Lemma poll_inside_waiting_period :
  0 < PollInitialNs /\ PollInitialNs <= PollMaxNs /\ 2 <= PollFactor /\ 10 * PollMaxNs <= DefaultTTLns.
Proof. vm_compute. repeat split; intro K; discriminate. Qed.

Lemma poll_init_le_max : PollInitialNs <= PollMaxNs.
Proof. vm_compute. intro K. discriminate. Qed.

(* ---- the deployments meet the hypotheses of the theorems *)
Lemma direct_meets : forall ttl ident,
  keys_disjoint (cfg_direct ttl ident) /\ (forall k, c_route (cfg_direct ttl ident) k = true)
  /\ c_ttl (cfg_direct ttl ident) <> 0.
Proof.
  intros ttl ident. split; [|split].
  - apply keys_disjoint_of_diverge. exact key_families_diverge.
  - reflexivity.
  - apply table_ttl_nonzero.
Qed.

Lemma hybrid_meets : forall hs ttl,
  keys_disjoint (cfg_hybrid hs ttl)
  /\ (forall t, c_route (cfg_hybrid hs ttl) (wait_key (cfg_hybrid hs ttl) t) = hs)
  /\ (forall id, c_route (cfg_hybrid hs ttl) (addr_key (cfg_hybrid hs ttl) id) = hs)
  /\ (forall t, hybrid_pure_shared HybridSharedPersistent HybridShared (wait_key (cfg_hybrid hs ttl) t) = true)
  /\ c_ttl (cfg_hybrid hs ttl) <> 0.
Proof.
  intros hs ttl. split; [|split; [|split; [|split]]].
  - apply keys_disjoint_of_diverge. exact key_families_diverge.
  - intro t. cbn [c_route cfg_hybrid wait_key c_wpre].
    destruct (family_pure_shared_sound _ _ _ waiting_family_shared t) as [_ [A B]]. destruct hs; assumption.
  - intro id. cbn [c_route cfg_hybrid addr_key c_npre c_nsuf].
    destruct (family_pure_shared_sound _ _ _ node_family_shared (id ++ NodeSuffix)) as [_ [A B]]. destruct hs; assumption.
  - intro t. cbn [cfg_hybrid wait_key c_wpre].
    destruct (family_pure_shared_sound _ _ _ waiting_family_shared t) as [A _]. exact A.
  - apply table_ttl_nonzero.
Qed.

(* ---- a concrete codec: a Go string is either the JSON text of a record or a plain address.  It satisfies the
   codec hypothesis of every theorem, is the instance the extracted model runs with, and is used for non-vacuity *)
Definition ex_gstr := (waiting + str)%type.
Definition ex_enc (r : waiting) : ex_gstr := inl r.
Definition ex_dec (g : ex_gstr) : option waiting := match g with inl r => Some r | inr _ => None end.
Definition ex_of_addr (a : str) : ex_gstr := inr a.
Definition ex_to_addr (g : ex_gstr) : str := match g with inr a => a | inl _ => [123] end.
Definition ex_keep (_ : cell) (_ : N) : bool := false.

Lemma ex_codec : forall r, ex_dec (ex_enc r) = Some r.
Proof. reflexivity. Qed.

Lemma ex_addr_codec : forall a, ex_to_addr (ex_of_addr a) = a.
Proof. reflexivity. Qed.

Definition ex_step := step ex_gstr ex_enc ex_dec ex_dec ex_of_addr ex_to_addr ex_keep.
Definition ex_final := final ex_gstr ex_enc ex_dec ex_dec ex_of_addr ex_to_addr ex_keep.
Definition ex_lookup := lookup ex_gstr ex_enc ex_dec ex_dec ex_of_addr ex_to_addr ex_keep.

Definition ex_rec : waiting :=
  mkW [116;49] [109;228;184;173] [] [110;111;100;101;45;48] 9007199254740993%Z (-9223372036854775808)%Z [104] 65535%Z 7 7.
Definition ex_other : waiting := mkW [116;50] [] [] [110;49] 1%Z 2%Z [] 0%Z 0 0.
Definition ex_history : list op :=
  [ORegAddr 0 [110;111;100;101;45;48] [49;48;46;48;46;48;46;49]; OTick 1000 900; ORegister 1 ex_other;
   OLookup 2 [116;49]; ORemove 1 [116;50]; OLookup 0 [116;50]; OTick 29999998000 29999998000; OGetAddr 1 [110;111;100;101;45;48]].

(* a concrete non-trivial run of the clustered deployment: registered on node 0, resolved from node 1 with all ten
   fields one nanosecond before the waiting period lapses, gone one nanosecond after it and after a removal *)
Lemma ex_run :
  let c := cfg_hybrid true 30000000000 in
  let s1 := fst (ex_step c (init ex_gstr) (ORegister 0 ex_rec)) in
  let s2 := ex_final c s1 ex_history in
  Forall (fun o => ~ sets_tunnel (w_tunnel ex_rec) o) ex_history
  /\ now _ s2 = 29999999000 /\ bnow _ s2 = 29999998900
  /\ ex_lookup c s2 1 (w_tunnel ex_rec) = ROk (stamp ex_rec 0 30000000000)
  /\ ex_lookup c (ex_final c s2 [OTick 1000 0]) 1 (w_tunnel ex_rec) = ROk (stamp ex_rec 0 30000000000)
  /\ ex_lookup c (ex_final c s2 [OTick 1001 0]) 1 (w_tunnel ex_rec) = RExpired
  /\ ex_lookup c (ex_final c s2 [OTick 1001 0; OLookup 2 (w_tunnel ex_rec)]) 1 (w_tunnel ex_rec)
     = (if LookupDeletesExpired then RNotFound else RExpired)
  /\ ex_lookup c (ex_final c s2 [OTick 0 1101]) 1 (w_tunnel ex_rec) = RNotFound
  /\ ex_lookup c (ex_final c s2 [ORemove 2 (w_tunnel ex_rec)]) 1 (w_tunnel ex_rec) = RNotFound
  /\ snd (ex_step c s2 (OGetAddr 1 [110;111;100;101;45;48])) = RAddr [49;48;46;48;46;48;46;49].
Proof.
  cbv zeta. split.
  - unfold ex_history. repeat (apply Forall_cons; [cbn [sets_tunnel w_tunnel ex_rec ex_other]; try tauto; intro K; discriminate|]).
    apply Forall_nil.
  - vm_compute. repeat split; reflexivity.
Qed.

(* without a shared cache nothing is shared: a tunnel registered on node 0 does not resolve on node 1 *)
Lemma ex_unshared_cross_node :
  let c := cfg_hybrid false 30000000000 in
  let s1 := fst (ex_step c (init ex_gstr) (ORegister 0 ex_rec)) in
  ex_lookup c s1 0 (w_tunnel ex_rec) = ROk (stamp ex_rec 0 30000000000)
  /\ ex_lookup c s1 1 (w_tunnel ex_rec) = RNotFound.
Proof. vm_compute. split; reflexivity. Qed.

(* ---- the Get..Delete window of LookupWaitingTunnel (tree as found: c_del_expired = true).  Node 1's lookup has read the
   EXPIRED first registration; node 0 registers the id again; node 1's Delete then removes the FRESH record: it does
   not resolve although it was registered a nanosecond ago.  Executed atomically in either order the same two calls
   leave the fresh record routable.  (Replayed on the real code by the harness' schedule probe.) *)
Definition race_cfg (del : bool) : cfg :=
  mkCfg 30000000000 NodeAddressTTLns WaitPrefix NodePrefix NodeSuffix (fun _ => true) false del.
Definition race_cell : cell := (None, wait_key (race_cfg true) (w_tunnel ex_rec)).

Lemma ex_split_lookup_loses_fresh_registration :
  let c := race_cfg true in
  let s0 := ex_final c (fst (ex_step c (init ex_gstr) (ORegister 0 ex_rec))) [OTick 30000000001 0] in
  (* node 1 reads: the stored record is expired, so it is going to delete the key *)
  snd (ex_step c s0 (OLookup 1 (w_tunnel ex_rec))) = RExpired
  (* node 0 registers again, then node 1's pending Delete lands *)
  /\ let s1 := fst (ex_step c s0 (ORegister 0 ex_rec)) in
     ex_lookup c s1 1 (w_tunnel ex_rec) = ROk (stamp ex_rec 30000000001 60000000001)
     /\ ex_lookup c (st_del ex_gstr s1 race_cell) 1 (w_tunnel ex_rec) = RNotFound
  (* atomic executions of the same two calls, both orders *)
  /\ ex_lookup c (ex_final c s0 [OLookup 1 (w_tunnel ex_rec); ORegister 0 ex_rec]) 1 (w_tunnel ex_rec)
     = ROk (stamp ex_rec 30000000001 60000000001)
  /\ ex_lookup c (ex_final c s0 [ORegister 0 ex_rec; OLookup 1 (w_tunnel ex_rec)]) 1 (w_tunnel ex_rec)
     = ROk (stamp ex_rec 30000000001 60000000001).
Proof. vm_compute. repeat split; reflexivity. Qed.

(* the server's refresh loop with the real constants *)
Lemma ex_refresh :
  let c := cfg_hybrid true 0 in
  let id := [110;111;100;101;45;48] in let a := [49;48;46;48;46;48;46;49] in
  let s1 := fst (ex_step c (init ex_gstr) (ORegAddr 0 id a)) in
  snd (ex_step c (ex_final c s1 (periodic_refresh 0 id a AddrRefreshIntervalNs AddrRefreshIntervalNs 1000
                                   ++ [OTick 86340000000000 86340000000000])) (OGetAddr 1 id)) = RAddr a
  /\ snd (ex_step c (ex_final c s1 [OTick 86400000000001 86400000000001]) (OGetAddr 1 id)) = RAddrNotFound.
Proof. vm_compute. split; reflexivity. Qed.

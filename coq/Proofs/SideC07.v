(* Proofs/SideC07.v — side conditions tying Model/Registry.v to the values regenerated from /repo
   (Gen/C07.v: session defaults, packet dispatch bytes, behaviour probes of the real registry); re-proved on every run. *)
From TX Require Import Model.Registry Gen.C07.
From Coq Require Import List Bool ZArith ZifyN ZifyNat ZifyBool Lia.
Import ListNotations.
Open Scope N_scope.
Open Scope bool_scope.

(* the shipped defaults lie inside the envelope the model's configuration record assumes: positive limits, the
   control-connection cap not above the connection cap, and a sweep period shorter than the heartbeat timeout
   (so a connection is swept within two timeouts of its last heartbeat) *)
Lemma defaults_in_envelope :
  0 < DefaultMaxControlConnections /\ DefaultMaxControlConnections <= DefaultMaxConnections /\
  0 < DefaultCleanupIntervalMs /\ DefaultCleanupIntervalMs < DefaultHeartbeatTimeoutMs.
Proof. vm_compute. repeat split; congruence. Qed.

(* the packet types the harness feeds to HandlePacket are the ones HandlePacket dispatches to handleHandshake / handleHeartbeat *)
Lemma dispatch_bytes : PT_Handshake = 1 /\ PT_Heartbeat = 3.
Proof. split; reflexivity. Qed.

(* which tree is this?  The registry-API probe (Register; UpdateAuth 100; UpdateAuth 200) on the real code decides. *)
(* ... and the registry-API probe (Register; Register again with the same stream) tells Head from the repaired tree *)
Definition tree_variant : variant :=
  if probe_reauth_keeps_old_index then Pinned else if probe_rereg_closes_shared_stream then Head
  else if probe_updateauth_evicts_holder then Current else Head2.
Definition probe_cfg : cfg := {| maxConn := 0; maxCtl := 0; hbTimeout := 2 |}.

Lemma reauth_probe_matches_model :
  by_client (run tree_variant probe_cfg init [Accept 1; RegRaw 1 0; AuthRaw 1 100; AuthRaw 1 200]) 100
  = if probe_reauth_keeps_old_index then Some 1 else None.
Proof. vm_compute. reflexivity. Qed.

(* Register beyond MaxControlConnections evicts (and closes) the oldest control connection, in the model as in the code *)
Lemma evict_probe_matches_model :
  let s := run tree_variant {| maxConn := 0; maxCtl := 2; hbTimeout := 2 |} init
               [Accept 1; Accept 2; Accept 3; RegRaw 1 0; RegRaw 2 0; RegRaw 3 0] in
  probe_limit_evicts_oldest =
  (match by_conn s 1 with None => true | Some _ => false end) && mem 1 (closed s)
  && (match by_conn s 2 with Some _ => true | None => false end)
  && (match by_conn s 3 with Some _ => true | None => false end).
Proof. vm_compute. reflexivity. Qed.
Lemma rereg_probe_matches_model :
  (if probe_reauth_keeps_old_index then true else
   Bool.eqb (mem 1 (closed (run tree_variant probe_cfg init [Accept 1; RegRaw 1 0; ReReg 1 9]))) probe_rereg_closes_shared_stream) = true.
Proof. vm_compute. reflexivity. Qed.

(* UpdateAuth for a client that already has a control connection: evicts it (Current) or leaves it registered (Head2 and older) *)
Lemma updateauth_probe_matches_model :
  (if probe_reauth_keeps_old_index then true else if probe_rereg_closes_shared_stream then true else
   Bool.eqb (match by_conn (run tree_variant probe_cfg init [Accept 1; Accept 2; RegRaw 1 0; RegRaw 2 0; AuthRaw 1 7; AuthRaw 2 7]) 1 with
             | None => true | Some _ => false end) probe_updateauth_evicts_holder) = true.
Proof. vm_compute. reflexivity. Qed.

(* The theorems treat every ClientRegistry method as ONE critical section.  The shapes are read from client_registry.go with
   go/ast on every run: each method acquires the mutex at most once and every access to connMap / clientIDMap lies inside
   that section (or the method is a *Locked helper called with the mutex held); the mutating methods hold the write lock
   for their whole body (Lock + defer Unlock), KickOldConnection / CleanupStale do their map work in one Lock..Unlock pair
   and their I/O after it. *)
Lemma registry_methods_are_single_critical_sections :
  forallb (fun sh => (sh <=? 4)) registry_lock_shapes = true /\
  shape_Register = 1 /\ shape_UpdateAuth = 1 /\ shape_ReconcileIndex = 1 /\ shape_Remove = 1 /\ shape_Unregister = 1 /\
  shape_Close = 1 /\ shape_KickOldConnection = 2 /\ shape_CleanupStale = 2 /\
  shape_GetByClientID = 3 /\ shape_GetByConnID = 3 /\ shape_Count = 3 /\ shape_List = 3 /\ shape_ListAuthenticated = 3 /\
  shape_removeConnectionLocked = 0 /\ shape_findOldestConnectionLocked = 0 /\ shape_dropStaleIndexLocked = 0.
Proof. vm_compute. repeat split; reflexivity. Qed.
Close Scope N_scope.

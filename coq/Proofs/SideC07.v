(* Proofs/SideC07.v — side conditions tying Model/Registry.v to the values regenerated from /repo
   (Gen/C07.v: session defaults, packet dispatch bytes, behaviour probes of the real registry); re-proved on every run. *)
From TX Require Import Model.Registry Gen.C07.
From Coq Require Import List Bool ZArith ZifyN ZifyNat ZifyBool Lia.
Import ListNotations.
Open Scope N_scope.
Open Scope bool_scope.

(* the shipped defaults lie inside the envelope the model's configuration record assumes: positive limits, the
   control-connection cap not above the connection cap, and a sweep period shorter than the heartbeat timeout
   (so a connection is swept within two timeouts of its last heartbeat) *)
Lemma defaults_in_envelope :
  0 < DefaultMaxControlConnections /\ DefaultMaxControlConnections <= DefaultMaxConnections /\
  0 < DefaultCleanupIntervalMs /\ DefaultCleanupIntervalMs < DefaultHeartbeatTimeoutMs.
Proof. vm_compute. repeat split; congruence. Qed.

(* the packet types the harness feeds to HandlePacket are the ones HandlePacket dispatches to handleHandshake / handleHeartbeat *)
Lemma dispatch_bytes : PT_Handshake = 1 /\ PT_Heartbeat = 3.
Proof. split; reflexivity. Qed.

(* which tree is this?  The registry-API probe (Register; UpdateAuth 100; UpdateAuth 200) on the real code decides. *)
Definition tree_variant : variant := if probe_reauth_keeps_old_index then Pinned else Current.
Definition probe_cfg : cfg := {| maxConn := 0; maxCtl := 0; hbTimeout := 2 |}.

Lemma reauth_probe_matches_model :
  by_client (run tree_variant probe_cfg init [Accept 1; RegRaw 1 0; AuthRaw 1 100; AuthRaw 1 200]) 100
  = if probe_reauth_keeps_old_index then Some 1 else None.
Proof. vm_compute. reflexivity. Qed.

(* Register beyond MaxControlConnections evicts (and closes) the oldest control connection, in the model as in the code *)
Lemma evict_probe_matches_model :
  let s := run tree_variant {| maxConn := 0; maxCtl := 2; hbTimeout := 2 |} init
               [Accept 1; Accept 2; Accept 3; RegRaw 1 0; RegRaw 2 0; RegRaw 3 0] in
  probe_limit_evicts_oldest =
  (match by_conn s 1 with None => true | Some _ => false end) && mem 1 (closed s)
  && (match by_conn s 2 with Some _ => true | None => false end)
  && (match by_conn s 3 with Some _ => true | None => false end).
Proof. vm_compute. reflexivity. Qed.
Close Scope N_scope.

(* Proofs/SideC18.v — side conditions tying Model/Lockout.v to the default configuration regenerated from
   /repo (Gen/C18.v): re-proved for the current values on every run. *)
From TX Require Import Model.Lockout Proofs.Lockout Gen.C18.
From Coq Require Import ZArith Lia.
Open Scope Z_scope.

(* the shipped defaults as a model configuration; one tick = one millisecond *)
Definition default_cfg : cfg :=
  {| maxf := DefaultMaxFailures; window := DefaultTimeWindowMs; band := DefaultBanDurationMs;
     perm := DefaultPermanentBanAt; rate := IPRate; burst := IPBurst; ttl := IPTTLMs; tps := 1000 |}.
Definition default_tunnel_cfg : cfg :=
  {| maxf := DefaultMaxFailures; window := DefaultTimeWindowMs; band := DefaultBanDurationMs;
     perm := DefaultPermanentBanAt; rate := TunnelRate; burst := TunnelBurst; ttl := TunnelTTLMs; tps := 1000 |}.

(* thresholds are meaningful: a positive window (a failure counts itself), an automatic ban that is
   temporary (BanDuration > 0; a non-positive duration would make every automatic ban permanent),
   1 <= MaxFailures <= PermanentBanAt *)
Lemma default_thresholds_ok :
  1 <= maxf default_cfg <= perm default_cfg /\ 0 < window default_cfg /\ 0 < band default_cfg.
Proof. vm_compute. repeat split; congruence. Qed.

(* an expired ban is swept by the periodic clean-up at the latest one interval after expiry, and a
   failure record cannot be dropped while its failures are still inside the window *)
Lemma default_cleanup_ok : 0 < DefaultCleanupIntervalMs <= DefaultTimeWindowMs.
Proof. vm_compute. split; congruence. Qed.

(* bucket garbage collection is unobservable: an idle bucket old enough to be collected has refilled *)
Lemma default_ip_bucket_ok : bucket_cfg_ok default_cfg.
Proof. split; vm_compute; congruence. Qed.
Lemma default_tunnel_bucket_ok : bucket_cfg_ok default_tunnel_cfg.
Proof. split; vm_compute; congruence. Qed.

(* token forms of a ClientID = 0 handshake, probed on the real HandleHandshake (Gen token_table): every form that
   step 4 accepts as a first connection is charged by gate 3; at least two different forms register *)
Definition tok_registers (f : nat) : bool := fst (nth f token_table (false, false)).
Definition tok_charged (f : nat) : bool := snd (nth f token_table (false, false)).
Lemma registering_forms_charged_table :
  forallb (fun rc => implb (fst rc) (snd rc)) token_table = true /\
  (2 <= length (filter fst token_table))%nat.
Proof. split; vm_compute; [reflexivity|lia]. Qed.
Lemma registering_forms_charged : forall f, tok_registers f = true -> tok_charged f = true.
Proof.
  intros f. unfold tok_registers, tok_charged.
  destruct registering_forms_charged_table as [H _]. rewrite forallb_forall in H.
  destruct (Nat.lt_ge_cases f (length token_table)) as [Hlt|Hge].
  - specialize (H _ (nth_In _ (false, false) Hlt)). destruct (nth f token_table (false, false)) as [r c].
    cbn in *. destruct r; [intros _; exact H|discriminate].
  - rewrite nth_overflow by exact Hge. discriminate.
Qed.

(* extractIP, probed on every shape in which a peer address can reach the handler (typed addresses with and without an
   IPv6 zone, string forms with / without port, brackets, zone): the key is a function of the peer alone, and
   different peers get different keys - so "an address" of the theorems is the peer's IP, whatever its shape *)
Definition addr_keys_by_peer_b (t : list (nat * nat)) : bool :=
  forallb (fun a => forallb (fun b => Bool.eqb (Nat.eqb (fst a) (fst b)) (Nat.eqb (snd a) (snd b))) t) t.
Lemma addr_keys_by_peer : addr_keys_by_peer_b addr_key_table = true /\ (12 <= length addr_key_table)%nat.
Proof. split; vm_compute; [reflexivity|lia]. Qed.

(* Proofs/SideC18.v — side conditions tying Model/Lockout.v to the default configuration regenerated from
   /repo (Gen/C18.v): re-proved for the current values on every run. *)
From TX Require Import Model.Lockout Proofs.Lockout Gen.C18.
From Coq Require Import ZArith Lia.
Open Scope Z_scope.

(* the shipped defaults as a model configuration; one tick = one millisecond *)
Definition default_cfg : cfg :=
  {| maxf := DefaultMaxFailures; window := DefaultTimeWindowMs; band := DefaultBanDurationMs;
     perm := DefaultPermanentBanAt; rate := IPRate; burst := IPBurst; ttl := IPTTLMs; tps := 1000 |}.
Definition default_tunnel_cfg : cfg :=
  {| maxf := DefaultMaxFailures; window := DefaultTimeWindowMs; band := DefaultBanDurationMs;
     perm := DefaultPermanentBanAt; rate := TunnelRate; burst := TunnelBurst; ttl := TunnelTTLMs; tps := 1000 |}.

(* thresholds are meaningful: a positive window (a failure counts itself), an automatic ban that is
   temporary (BanDuration > 0; a non-positive duration would make every automatic ban permanent),
   1 <= MaxFailures <= PermanentBanAt *)
Lemma default_thresholds_ok :
  1 <= maxf default_cfg <= perm default_cfg /\ 0 < window default_cfg /\ 0 < band default_cfg.
Proof. vm_compute. repeat split; congruence. Qed.

(* an expired ban is swept by the periodic clean-up at the latest one interval after expiry, and a
   failure record cannot be dropped while its failures are still inside the window *)
Lemma default_cleanup_ok : 0 < DefaultCleanupIntervalMs <= DefaultTimeWindowMs.
Proof. vm_compute. split; congruence. Qed.

(* bucket garbage collection is unobservable: an idle bucket old enough to be collected has refilled *)
Lemma default_ip_bucket_ok : bucket_cfg_ok default_cfg.
Proof. split; vm_compute; congruence. Qed.
Lemma default_tunnel_bucket_ok : bucket_cfg_ok default_tunnel_cfg.
Proof. split; vm_compute; congruence. Qed.

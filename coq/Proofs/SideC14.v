(* Proofs/SideC14.v — side conditions over the prefix tables regenerated from /repo (Gen/C14.v), re-proved on
   every run, and the concrete witness schedules of the refuted statements (on the regenerated tables). *)
From TX Require Import Base.Val Model.Hybrid Model.HybridNodes Proofs.Hybrid Gen.C14 Corr.C14.
From Coq Require Import Lia.

(* ---- prefix tables ---- *)
Definition unrelated (a b : list kbytes) : bool :=
  forallb (fun p => forallb (fun q => negb (is_prefix p q) && negb (is_prefix q p)) b) a.

(* no prefix of one class is a prefix (or an extension) of a prefix of another class *)
Lemma classes_unrelated :
  unrelated SharedPersistentPrefixes SharedPrefixes = true /\
  unrelated SharedPersistentPrefixes PersistentPrefixes = true /\
  unrelated SharedPrefixes PersistentPrefixes = true.
Proof. split; [|split]; vm_compute; reflexivity. Qed.

Lemma prefix_chain : forall p q k, is_prefix p k = true -> is_prefix q k = true -> is_prefix p q = true \/ is_prefix q p = true.
Proof.
  induction p as [|x p IH]; intros q k Hp Hq; [left; reflexivity|].
  destruct q as [|y q]; [right; reflexivity|].
  destruct k as [|z k]; cbn in Hp, Hq; [discriminate|].
  apply andb_prop in Hp. destruct Hp as [Hx Hp]. apply andb_prop in Hq. destruct Hq as [Hy Hq].
  apply N.eqb_eq in Hx. apply N.eqb_eq in Hy. subst. cbn. rewrite N.eqb_refl. cbn.
  exact (IH q k Hp Hq).
Qed.

(* hence every key matches the tables of at most one class: getCategory does not depend on its test order,
   and getCacheForKey (isShared only) can never disagree with it *)
Lemma unrelated_exclusive a b k : unrelated a b = true -> has_prefix a k = true -> has_prefix b k = false.
Proof.
  intros Hu Ha. destruct (has_prefix b k) eqn:Hb; [|reflexivity]. exfalso.
  unfold has_prefix in Ha, Hb. apply existsb_exists in Ha. destruct Ha as (p & Hpi & Hp).
  apply existsb_exists in Hb. destruct Hb as (q & Hqi & Hq).
  unfold unrelated in Hu. rewrite forallb_forall in Hu. specialize (Hu p Hpi). rewrite forallb_forall in Hu.
  specialize (Hu q Hqi). apply andb_prop in Hu. destruct Hu as [H1 H2].
  destruct (prefix_chain p q k Hp Hq) as [H|H]; rewrite H in *; discriminate.
Qed.

Lemma at_most_one_class k :
  (has_prefix SharedPersistentPrefixes k = true -> has_prefix SharedPrefixes k = false /\ has_prefix PersistentPrefixes k = false) /\
  (has_prefix SharedPrefixes k = true -> has_prefix PersistentPrefixes k = false).
Proof.
  destruct classes_unrelated as (H1 & H2 & H3). split; [intros H; split|intros H].
  - exact (unrelated_exclusive _ _ k H1 H).
  - exact (unrelated_exclusive _ _ k H2 H).
  - exact (unrelated_exclusive _ _ k H3 H).
Qed.

Definition cat_eqb (a b : cat) : bool := N.eqb (cat_code a) (cat_code b).

(* every configured prefix (and the documented runtime prefixes) falls in its own class *)
Lemma own_class :
  forallb (fun p => cat_eqb (category GenTables p) CPersistent) PersistentPrefixes = true /\
  forallb (fun p => cat_eqb (category GenTables p) CShared) SharedPrefixes = true /\
  forallb (fun p => cat_eqb (category GenTables p) CSharedPersistent) SharedPersistentPrefixes = true /\
  forallb (fun p => cat_eqb (category GenTables p) CRuntime) RuntimePrefixes = true.
Proof. split; [|split; [|split]]; vm_compute; reflexivity. Qed.

Lemma category_constants : (CatRuntime = 0 /\ CatPersistent = 1 /\ CatShared = 2 /\ CatSharedPersistent = 3)%N.
Proof. repeat split; reflexivity. Qed.

(* the model's category / getCacheForKey agree with the real functions on the regenerated sample keys *)
Lemma sample_table_matches :
  forallb (fun e => N.eqb (cat_code (category GenTables (fst (fst e)))) (snd (fst e))
                    && Bool.eqb (tier_eqb (cache_for_key GenTables full_cfg (fst (fst e))) TShared) (snd e)) sample_table = true.
Proof. vm_compute. reflexivity. Qed.

(* "tunnox:http_domain:next_id", the cluster-wide id counter, is a shared key *)
Definition k_next_id : kbytes := [116;117;110;110;111;120;58;104;116;116;112;95;100;111;109;97;105;110;58;110;101;120;116;95;105;100]%N.
Lemma next_id_is_shared : category GenTables k_next_id = CShared.
Proof. vm_compute. reflexivity. Qed.

(* ---- witnesses ---- *)
Definition k_user : kbytes := [116;117;110;110;111;120;58;117;115;101;114;58;49]%N.                      (* tunnox:user:1 *)
Definition k_cmap : kbytes := [116;117;110;110;111;120;58;99;108;105;101;110;116;95;109;97;112;112;105;110;103;115;58;49]%N. (* tunnox:client_mappings:1 *)
Definition k_temp : kbytes := [116;117;110;110;111;120;58;116;101;109;112;58;49]%N.                      (* tunnox:temp:1 *)
(* cfg_local / cfg_shared / cfg_pinned: the code WITHOUT the key-lock repairs (fixes/C14-writeback-key-lock.diff and the three that follow it) *)
Definition cfg_local : cfg := {| has_shared := false; en_pers := true; fix_incr := true; fix_setnx := true; fix_wb := false; fix_list := false; fix_cwf := false; fix_cre := false; exp_locked := true |}.
Definition cfg_pinned : cfg := {| has_shared := true; en_pers := true; fix_incr := false; fix_setnx := false; fix_wb := false; fix_list := false; fix_cwf := false; fix_cre := false; exp_locked := true |}.
Definition w_cold : world := tset (init_world empty_store empty_store empty_store) TPers k_user (Some (VStr 1)).

Lemma witness_keys : category GenTables k_user = CPersistent /\ category GenTables k_cmap = CSharedPersistent /\ category GenTables k_temp = CRuntime.
Proof. repeat split; vm_compute; reflexivity. Qed.

Definition thr_stale : list thread :=
  [TCaller (init_caller 0 [OGet k_user] []); TCaller (init_caller 1 [ODel k_user] []); TCaller (init_caller 2 [OGet k_user] []); TWb 0 false].

(* Get misses the cache and reads v1; Delete completes on both tiers; the write-back lands last; a Get that
   only STARTS afterwards returns v1 *)
Lemma stale_after_delete_witness :
  exists s1 s2,
    let r1 := hrun GenTables cfg_local w_cold thr_stale s1 in
    let r2 := hrun GenTables cfg_local w_cold thr_stale (s1 ++ s2) in
    w_hist (fst r1) = [(1, ODel k_user, ROk); (0, OGet k_user, RVal (VStr 1))] /\
    nth_error (snd r1) 2 = Some (TCaller (init_caller 2 [OGet k_user] [])) /\
    w_hist (fst r2) = (2, OGet k_user, RVal (VStr 1)) :: w_hist (fst r1) /\
    tget (fst r2) TPers k_user = None.
Proof. exists [0; 0; 1; 1; 3], [2]. vm_compute. repeat split; reflexivity. Qed.

(* the same with ONE caller working sequentially: Get, Delete, Get — the write-back of the first Get is slow *)
Lemma read_your_writes_late_writeback_witness :
  exists sched,
    let r := hrun GenTables cfg_local w_cold [TCaller (init_caller 0 [OGet k_user; ODel k_user; OGet k_user] []); TWb 0 false] sched in
    w_hist (fst r) = [(0, OGet k_user, RVal (VStr 1)); (0, ODel k_user, ROk); (0, OGet k_user, RVal (VStr 1))].
Proof. exists [0; 0; 0; 0; 1; 0]. vm_compute. reflexivity. Qed.

(* overwrite instead of delete: the cache ends up serving v1 while the persistent tier holds v2 *)
Lemma stale_after_set_witness :
  exists sched,
    let r := hrun GenTables cfg_local w_cold
               [TCaller (init_caller 0 [OGet k_user] []); TCaller (init_caller 1 [OSet k_user (VStr 2)] []); TCaller (init_caller 2 [OGet k_user] []); TWb 0 false] sched in
    w_hist (fst r) = [(2, OGet k_user, RVal (VStr 1)); (1, OSet k_user (VStr 2), ROk); (0, OGet k_user, RVal (VStr 1))] /\
    tget (fst r) TPers k_user = Some (VStr 2).
Proof. exists [0; 0; 1; 1; 3; 2]. vm_compute. split; reflexivity. Qed.

(* two overlapping AppendToList calls: both return nil, one element is lost (runtime key: no write-back involved) *)
Lemma list_lost_update_witness :
  exists sched,
    let w0 := tset (init_world empty_store empty_store empty_store) TLocal k_temp (Some (VList [1%N])) in
    let r := hrun GenTables cfg_local w0
               [TCaller (init_caller 0 [OAppend k_temp 2] []); TCaller (init_caller 1 [OAppend k_temp 3] [])] sched in
    w_hist (fst r) = [(0, OAppend k_temp 2, ROk); (1, OAppend k_temp 3, ROk)] /\
    visible GenTables cfg_local (fst r) k_temp = Some (VList [1; 2]%N).
Proof. exists [0; 1; 1; 0]. vm_compute. split; reflexivity. Qed.

(* pinned code: Incr on the shared id counter goes to the LOCAL cache and two interleaved calls both return 1 *)
Lemma pinned_incr_witness :
  exists sched,
    let r := hrun GenTables cfg_pinned (init_world empty_store empty_store empty_store)
               [TCaller (init_caller 0 [OIncr k_next_id] []); TCaller (init_caller 1 [OIncr k_next_id] [])] sched in
    w_hist (fst r) = [(1, OIncr k_next_id, RInt 1); (0, OIncr k_next_id, RInt 1)] /\
    existsb (fun tk => negb (allowed GenTables cfg_pinned (snd tk) (fst tk))) (w_acc (fst r)) = true.
Proof. exists [0; 1; 0; 1]. vm_compute. split; reflexivity. Qed.

(* pinned code: SetNX on a shared+persistent key writes only the local cache; the following Get finds nothing *)
Lemma pinned_setnx_witness :
  exists sched,
    let r := hrun GenTables cfg_pinned (init_world empty_store empty_store empty_store)
               [TCaller (init_caller 0 [OSetNX k_cmap (VStr 5); OGet k_cmap] [])] sched in
    w_hist (fst r) = [(0, OGet k_cmap, RNotFound); (0, OSetNX k_cmap (VStr 5), RBool true)].
Proof. exists [0; 0; 0]. vm_compute. reflexivity. Qed.

(* ---- sequential behaviour, small scope (the unbounded statement is C14_read_your_writes_sequential_full_statement) ----
   every sequence of at most 3 non-overlapping operations over {Set v1, Set v2, Get, Delete, Exists, Append 7,
   Remove 7} on a persistent key (local cache) and on a shared+persistent key (shared cache), from every coherent
   initial state (empty, warm cache, cold cache), each write-back landing before the next operation: results
   and visible value equal the one-register specification, and the state stays coherent. *)
Definition seq_alphabet (k : kbytes) : list op :=
  [OSet k (VStr 1); OSet k (VList [5%N]); OGet k; ODel k; OExists k; OAppend k 7; ORemove k 7].
Fixpoint seqs (n : nat) (al : list op) : list (list op) :=
  match n with 0 => [[]] | S m => [] :: flat_map (fun o => map (cons o) (seqs m al)) al end.
Definition ores_eqb (a b : option res) : bool :=
  match a, b with Some x, Some y => res_eqb x y | None, None => true | _, _ => false end.
Definition coherentb (T : tables) (c : cfg) (w : world) (k : kbytes) : bool :=
  negb (two_tier T c k) || negb (is_some (tget w (cache_tier_for_key T c k) k))
  || ovalue_eqb (tget w (cache_tier_for_key T c k) k) (tget w TPers k).
Definition seq_ok (c : cfg) (k : kbytes) (w : world) (os : list op) : bool :=
  let '(w', rs) := exec_seq GenTables c w os in
  let '(st, rs') := spec_seq (visible GenTables c w k) os in
  all2 ores_eqb rs rs' && ovalue_eqb (visible GenTables c w' k) st && coherentb GenTables c w' k.
Definition seq_inits (c : cfg) (k : kbytes) : list world :=
  let e := init_world empty_store empty_store empty_store in
  let ct := cache_tier_for_key GenTables c k in
  [e; tset e TPers k (Some (VList [7%N])); tset (tset e TPers k (Some (VStr 9))) ct k (Some (VStr 9))].
Definition cfg_shared : cfg := {| has_shared := true; en_pers := true; fix_incr := true; fix_setnx := true; fix_wb := false; fix_list := false; fix_cwf := false; fix_cre := false; exp_locked := true |}.

Definition kv_alphabet (k : kbytes) : list op := [OSet k (VStr 1); OSet k (VList [5%N]); OGet k; ODel k; OExists k].
Definition all_cases : list (cfg * kbytes) := [(cfg_local, k_user); (cfg_shared, k_cmap); (cfg_local, k_cmap); (cfg_shared, k_user)].

(* Set/Get/Delete/Exists: every coherent initial state, cold cache included *)
Lemma sequential_small_scope_kv :
  forallb (fun ck => forallb (fun w => forallb (seq_ok (fst ck) (snd ck) w) (seqs 4 (kv_alphabet (snd ck)))) (seq_inits (fst ck) (snd ck)))
          all_cases = true.
Proof. vm_compute. reflexivity. Qed.

(* with AppendToList/RemoveFromList: from the empty and the warm state (a cold cache is the refuted case below) *)
Lemma sequential_small_scope_lists :
  forallb (fun ck => forallb (fun w => forallb (seq_ok (fst ck) (snd ck) w) (seqs 3 (seq_alphabet (snd ck))))
                             (firstn 1 (seq_inits (fst ck) (snd ck)) ++ skipn 2 (seq_inits (fst ck) (snd ck))))
          all_cases = true.
Proof. vm_compute. reflexivity. Qed.

(* ONE caller, ONE AppendToList on a cold cache, then Get: the write-back of the list read by the Append lands after
   the Append wrote the new list, and the Get returns the list WITHOUT the appended element *)
Definition w_cold_list : world := tset (init_world empty_store empty_store empty_store) TPers k_cmap (Some (VList [7%N])).
Definition r_cold_list := exec_seq GenTables cfg_shared w_cold_list [OAppend k_cmap 8; OGet k_cmap].
Lemma list_sequential_cold_cache_witness :
  (snd r_cold_list, tget (fst r_cold_list) TPers k_cmap) = ([Some ROk; Some (RVal (VList [7%N]))], Some (VList [7%N; 8%N])).
Proof. vm_compute. reflexivity. Qed.

(* ---- statements used by Properties/C14.v ---- *)
Lemma tier_classes :
  forall (c : cfg) (k : kbytes),
  (category GenTables k = CRuntime -> allowed GenTables c k TLocal = true /\ allowed GenTables c k TShared = false /\ allowed GenTables c k TPers = false) /\
  (category GenTables k = CShared -> allowed GenTables c k TPers = false /\ allowed GenTables c k TLocal = negb (has_shared c) /\
                                     allowed GenTables c k TShared = has_shared c /\ cache_for_key GenTables c k = cache_tier_for_key GenTables c k) /\
  (category GenTables k = CPersistent -> allowed GenTables c k TLocal = true /\ allowed GenTables c k TShared = false /\ allowed GenTables c k TPers = en_pers c) /\
  (category GenTables k = CSharedPersistent -> allowed GenTables c k TLocal = negb (has_shared c) /\ allowed GenTables c k TShared = has_shared c /\
                                               allowed GenTables c k TPers = en_pers c).
Proof.
  intros c k. split; [|split; [|split]]; intros Hc.
  - unfold allowed, two_tier, cache_tier_for_key. rewrite Hc. cbn. auto.
  - pose proof (cache_for_key_shared GenTables c k Hc) as He.
    unfold allowed, two_tier, cache_tier_for_key, sp_cache in *. rewrite Hc in *. cbn.
    destruct (has_shared c); cbn; auto.
  - unfold allowed, two_tier, cache_tier_for_key. rewrite Hc. cbn. auto.
  - unfold allowed, two_tier, cache_tier_for_key, sp_cache. rewrite Hc. cbn. destruct (has_shared c); cbn; auto.
Qed.

From TX Require Import Proofs.HybridOne.
Lemma premises_ok_old :
  two_tier GenTables cfg_local k_temp = false /\
  Forall (thread1_ok k_temp) [TCaller (init_caller 0 [OSet k_temp (VStr 1); OGet k_temp; OIncr k_temp] []); TCaller (init_caller 1 [ODel k_temp; OSetNX k_temp (VStr 2)] []); TWb 0 false] /\
  category GenTables k_user = CPersistent /\ category GenTables k_cmap = CSharedPersistent /\ category GenTables k_temp = CRuntime /\
  category GenTables k_next_id = CShared.
Proof.
  split; [vm_compute; reflexivity|split].
  - repeat constructor.
  - repeat split; vm_compute; reflexivity.
Qed.

(* ---- several nodes (Model/HybridNodes.v): sequential cross-node histories, small scope ----
   nodes 0 and 1 have private local caches, node 2 is a cold-cache node; alphabet per step: node 0/1 x {Set v1, Set v2, Delete, Get},
   cold node x {Get}.  Checked along every history of length <= 4 from the empty world: a Get issued by a cold-cache node, by the
   node that made the latest write, or by ANY node when the key's cache tier is the shared cache, returns exactly the latest completed
   write (not found after Delete).  The unbounded statement is C14_cross_node_full_statement. *)
Definition mstep_alphabet (k : kbytes) : list (nat * op) :=
  flat_map (fun i => [(i, OSet k (VStr 1)); (i, OSet k (VStr 2)); (i, ODel k); (i, OGet k)]) [0; 1] ++ [(2, OGet k)].
Fixpoint mseqs (n : nat) (al : list (nat * op)) : list (list (nat * op)) :=
  match n with 0 => [[]] | S m => [] :: flat_map (fun o => map (cons o) (mseqs m al)) al end.
Fixpoint mfresh_ok (c : cfg) (k : kbytes) (m : mworld) (steps : list (nat * op)) (latest : option value) (lw : nat) : bool :=
  match steps with
  | [] => true
  | (i, o) :: r =>
      let '(m', x) := mexec GenTables c m i o in
      let must := (2 <=? i) || (i =? lw) || tier_eqb (cache_tier_for_key GenTables c k) TShared in
      let ok := match o with OGet _ => negb must || ores_eqb x (Some (val_res latest)) | _ => true end in
      let latest' := match o with OSet _ v => Some v | ODel _ => None | _ => latest end in
      let lw' := match o with OSet _ _ | ODel _ => i | _ => lw end in
      ok && mfresh_ok c k m' r latest' lw'
  end.
Definition m_empty : mworld := {| m_locals := [empty_store; empty_store]; m_shared := empty_store; m_pers := empty_store |}.

Lemma cross_node_small_scope :
  forallb (fun ck => forallb (fun h => mfresh_ok (fst ck) (snd ck) m_empty h None 9) (mseqs 4 (mstep_alphabet (snd ck)))) all_cases = true.
Proof. vm_compute. reflexivity. Qed.

(* inherent to node-local caching (recorded known finding cross-node-stale-local-cache): node 0 sets v1, node 1 sets v2, node 0 still reads v1 *)
Lemma cross_node_warm_local_cache_witness :
  snd (mexec_seq GenTables cfg_local m_empty [(0, OSet k_user (VStr 1)); (1, OSet k_user (VStr 2)); (0, OGet k_user); (2, OGet k_user)])
  = [Some ROk; Some ROk; Some (RVal (VStr 1)); Some (RVal (VStr 2))].
Proof. vm_compute. reflexivity. Qed.

(* ==== the repaired code (all of fixes/C14-writeback-key-lock, -list-rmw-key-lock, -failed-cache-write-invalidate, -cache-read-error) ==== *)
Definition cfg_rep (sh pe : bool) : cfg :=
  {| has_shared := sh; en_pers := pe; fix_incr := true; fix_setnx := true; fix_wb := true; fix_list := true; fix_cwf := true; fix_cre := true; exp_locked := true |}.
Definition all_cases_r : list (cfg * kbytes) := [(cfg_rep false true, k_user); (cfg_rep true true, k_cmap); (cfg_rep false true, k_cmap); (cfg_rep true true, k_user)].

(* sequential behaviour, small scope, repaired code: now ALSO from the cold-cache state with list operations *)
Lemma sequential_small_scope_repaired :
  forallb (fun ck => forallb (fun w => forallb (seq_ok (fst ck) (snd ck) w) (seqs 3 (seq_alphabet (snd ck)))) (seq_inits (fst ck) (snd ck)))
          all_cases_r = true.
Proof. vm_compute. reflexivity. Qed.

(* the witness schedules of the refuted statements, replayed on the repaired code, are harmless: one AppendToList on a cold cache, then Get *)
Lemma list_cold_cache_repaired :
  snd (exec_seq GenTables (cfg_rep true true) w_cold_list [OAppend k_cmap 8; OGet k_cmap]) = [Some ROk; Some (RVal (VList [7%N; 8%N]))].
Proof. vm_compute. reflexivity. Qed.

Lemma cross_node_small_scope_repaired :
  forallb (fun ck => forallb (fun h => mfresh_ok (fst ck) (snd ck) m_empty h None 9) (mseqs 4 (mstep_alphabet (snd ck)))) all_cases_r = true.
Proof. vm_compute. reflexivity. Qed.

(* ---- single tier-call failures (fixes (c) and (d)) ---- *)
Definition exec_op_f (c : cfg) (w : world) (o : op) (fl : list bool) : world * option res :=
  let '(cl, w') := run_caller GenTables c 14 (init_caller 0 [o] fl) w in
  match cpc cl, ops cl, log cl with
  | PIdle, [], [r] => (land_all (length (w_spawned w)) w', Some r)
  | _, _, _ => (w', None)
  end.
Definition fault_at (p : nat) : list bool := map (fun i => Nat.eqb i p) (seq 0 10).
Definition ok_res (r : option res) : bool := match r with Some ROk => true | _ => false end.
Definition err_res (r : option res) : bool := match r with Some RErr => true | _ => false end.

(* (c) a write that reports success is what the next read returns, whichever single tier call of it failed; the state stays coherent *)
Definition write_then_read_ok (c : cfg) (k : kbytes) (w : world) (o : op) (p : nat) : bool :=
  let '(w1, r) := exec_op_f c w o (fault_at p) in
  negb (ok_res r)
  || (ores_eqb (snd (exec_op GenTables c w1 (OGet k))) (Some (val_res (fst (spec_op (visible GenTables c w k) o)))) && coherentb GenTables c w1 k).
Lemma failed_cache_write_small_scope :
  forallb (fun ck => forallb (fun w => forallb (fun o => forallb (write_then_read_ok (fst ck) (snd ck) w o) (seq 0 8))
                                               [OSet (snd ck) (VStr 1); OSet (snd ck) (VList [5%N]); OAppend (snd ck) 8; ORemove (snd ck) 7; ODel (snd ck)])
                             (seq_inits (fst ck) (snd ck)))
          all_cases_r = true.
Proof. vm_compute. reflexivity. Qed.
(* unrepaired code: Set(k, v1) over a warm cache holding v9, the cache write (second tier call) fails: Set returns nil, Get returns v9 *)
Lemma failed_cache_write_witness :
  let w := nth 2 (seq_inits cfg_local k_user) (init_world empty_store empty_store empty_store) in
  let '(w1, r) := exec_op_f cfg_local w (OSet k_user (VStr 1)) (fault_at 1) in
  (r, snd (exec_op GenTables cfg_local w1 (OGet k_user))) = (Some ROk, Some (RVal (VStr 9))).
Proof. vm_compute. reflexivity. Qed.

(* (d) cache-only keys (runtime key; persistent-class keys with persistence disabled): an operation whose cache READ fails reports an
   error — never "not found" — and leaves the stored value untouched *)
Definition read_fault_ok (c : cfg) (k : kbytes) (w : world) (o : op) : bool :=
  let '(w1, r) := exec_op_f c w o (fault_at 0) in
  err_res r && ovalue_eqb (visible GenTables c w1 k) (visible GenTables c w k).
Definition one_tier_cases : list (cfg * kbytes) := [(cfg_rep false false, k_temp); (cfg_rep true true, k_temp); (cfg_rep false false, k_user); (cfg_rep true false, k_cmap)].
Lemma cache_read_error_small_scope :
  forallb (fun ck => forallb (fun v => forallb (read_fault_ok (fst ck) (snd ck)
                                                  (tset (init_world empty_store empty_store empty_store) (cache_tier_for_key GenTables (fst ck) (snd ck)) (snd ck) (Some v)))
                                               [OGet (snd ck); OExists (snd ck); OAppend (snd ck) 8; ORemove (snd ck) 7])
                             [VList [7%N]; VStr 3])
          one_tier_cases = true.
Proof. vm_compute. reflexivity. Qed.
(* unrepaired code: the failing read is reported as "not found", and AppendToList then overwrites the whole list with the new element *)
Lemma cache_read_error_witness :
  let w := tset (init_world empty_store empty_store empty_store) TLocal k_temp (Some (VList [7%N])) in
  (snd (exec_op_f cfg_local w (OGet k_temp) (fault_at 0)),
   snd (exec_op_f cfg_local w (OAppend k_temp 8) (fault_at 0)),
   visible GenTables cfg_local (fst (exec_op_f cfg_local w (OAppend k_temp 8) (fault_at 0))) k_temp)
  = (Some RNotFound, Some ROk, Some (VList [8%N])).
Proof. vm_compute. reflexivity. Qed.

From TX Require Import Proofs.HybridLock.
Lemma list_updates_repaired :
  forall (c : cfg) (k : kbytes) (w : world) (ts : list thread) (sched : list nat),
  fix_incr c = true -> fix_setnx c = true -> fix_wb c = true -> fix_list c = true -> exp_locked c = true ->
  w_spawned w = [] -> w_hist w = [] -> w_locks w k = false -> coherent GenTables c w k ->
  Forall (fun t => match t with
                   | TCaller cl => cpc cl = PIdle /\ cur cl = None /\ held cl = false /\ faults cl = [] /\
                                   Forall (fun o => op_key o = k /\ reads_list o = true) (ops cl)
                   | TWb _ _ => True end) ts ->
  let r := hrun GenTables c w ts sched in
  exists st,
    linearized (visible GenTables c w k) (w_hist (fst r)) st /\
    (w_locks (fst r) k = false -> visible GenTables c (fst r) k = st).
Proof.
  intros c k w ts sched Hi Hn Hw Hl He Hs Hh HL Hco Hts.
  assert (Hts' : Forall (idle_thread GenTables c k) ts).
  { apply Forall_forall. intros t Ht. rewrite Forall_forall in Hts. specialize (Hts t Ht). destruct t as [cl|]; cbn in *; [|exact I].
    destruct Hts as (A & B & C & D & E). repeat split; auto.
    apply Forall_forall. intros o Ho. rewrite Forall_forall in E. destruct (E o Ho) as [E1 E2]. split; [exact E1|].
    intros _. destruct o; cbn in E2 |- *; congruence. }
  destruct (lock_all_schedules_spec GenTables c Hi Hn Hw Hl He k w ts sched Hs Hh HL Hco Hts') as (st & H1 & H2 & _).
  exists st. split; [exact H1|]. intros EL. exact (proj1 (H2 EL)).
Qed.

Lemma premises_ok :
  Forall (idle_thread GenTables (cfg_rep true true) k_cmap)
         [TCaller (init_caller 0 [OGet k_cmap; OAppend k_cmap 8; ODel k_cmap] []); TCaller (init_caller 1 [OSet k_cmap (VList [1%N]); ORemove k_cmap 8; OSetExp k_cmap] []); TWb 0 false] /\
  coherent GenTables (cfg_rep true true) w_cold_list k_cmap /\
  two_tier GenTables cfg_local k_temp = false /\
  Forall (thread1_ok k_temp) [TCaller (init_caller 0 [OSet k_temp (VStr 1); OGet k_temp; OIncr k_temp] []); TCaller (init_caller 1 [ODel k_temp; OSetNX k_temp (VStr 2)] []); TWb 0 false] /\
  category GenTables k_user = CPersistent /\ category GenTables k_cmap = CSharedPersistent /\ category GenTables k_temp = CRuntime /\
  category GenTables k_next_id = CShared.
Proof.
  split; [|split; [|exact premises_ok_old]].
  - repeat constructor; cbn; try reflexivity; intros _; reflexivity.
  - intros _. left. vm_compute. reflexivity.
Qed.

(* ---- the shipped prefixes are routed to their own class BY THE REAL CODE (regenerated getCategory answers in sample_table) ---- *)
Definition real_cat (k : kbytes) : option (N * bool) :=
  match find (fun e => keq (fst (fst e)) k) sample_table with Some e => Some (snd (fst e), snd e) | None => None end.
Definition real_class_is (cat : N) (sh : bool) (p : kbytes) : bool :=
  match real_cat p, real_cat (p ++ [52; 50]%N) with       (* the prefix itself and prefix ++ "42" *)
  | Some (c1, s1), Some (c2, s2) => N.eqb c1 cat && N.eqb c2 cat && Bool.eqb s1 sh && Bool.eqb s2 sh
  | _, _ => false
  end.
Lemma shipped_prefixes_real_class :
  forallb (real_class_is CatShared true) SharedPrefixes = true /\
  forallb (real_class_is CatSharedPersistent false) SharedPersistentPrefixes = true /\
  forallb (real_class_is CatPersistent false) PersistentPrefixes = true /\
  forallb (real_class_is CatRuntime false) (filter (fun r => negb (has_prefix (SharedPrefixes ++ SharedPersistentPrefixes ++ PersistentPrefixes) r)) RuntimePrefixes) = true.
Proof. split; [|split; [|split]]; vm_compute; reflexivity. Qed.

(* the documented runtime prefixes are never MORE specific than a configured class prefix: whenever a class prefix and a runtime prefix
   both match a key, the runtime prefix is a prefix of the class prefix — "most specific prefix wins" is what getCategory computes
   (e.g. tunnox:runtime:conncode:* is shared although tunnox:runtime: is a documented runtime prefix) *)
Definition class_prefixes : list kbytes := SharedPersistentPrefixes ++ SharedPrefixes ++ PersistentPrefixes.
Lemma runtime_prefixes_less_specific :
  forallb (fun r => forallb (fun p => negb (is_prefix p r)) class_prefixes) RuntimePrefixes = true.
Proof. vm_compute. reflexivity. Qed.

Lemma most_specific_prefix_wins k p r :
  In p class_prefixes -> In r RuntimePrefixes -> is_prefix p k = true -> is_prefix r k = true ->
  is_prefix r p = true /\ category GenTables k <> CRuntime.
Proof.
  intros Hp Hr Hpk Hrk. split.
  - destruct (prefix_chain p r k Hpk Hrk) as [H|H]; [|exact H]. exfalso.
    pose proof runtime_prefixes_less_specific as Hs. rewrite forallb_forall in Hs. specialize (Hs r Hr).
    rewrite forallb_forall in Hs. specialize (Hs p Hp). rewrite H in Hs. discriminate.
  - unfold category, class_prefixes in *. cbn [t_sp t_shared t_pers GenTables].
    assert (Hex : forall tbl, In p tbl -> has_prefix tbl k = true).
    { intros tbl Hin. unfold has_prefix. apply existsb_exists. exists p. auto. }
    apply in_app_or in Hp. destruct Hp as [Hp|Hp]; [rewrite (Hex _ Hp); discriminate|].
    apply in_app_or in Hp. destruct Hp as [Hp|Hp].
    + destruct (has_prefix SharedPersistentPrefixes k); [discriminate|]. rewrite (Hex _ Hp). discriminate.
    + destruct (has_prefix SharedPersistentPrefixes k); [discriminate|]. destruct (has_prefix SharedPrefixes k); [discriminate|].
      rewrite (Hex _ Hp). discriminate.
Qed.

(* ---- several nodes WITH cache loss, small scope, repaired code: steps = node 0/1 x {Set v1, Delete, Get}, cold node x {Get}, loss of the key's
   cache copy on node 0 / on node 1 (their local cache + the shared cache) / everywhere.  Along every history of length <= 4 on two-tier keys:
   a Get by a cold node, by the latest writer, by a node whose cache copy was lost since the latest write, or through the shared cache tier
   returns exactly the latest completed write — losing a cache copy never brings an older value back and never loses the value. *)
Definition mdrop_alphabet (k : kbytes) : list mstep :=
  flat_map (fun i => [MOp i (OSet k (VStr 1)); MOp i (ODel k); MOp i (OGet k)]) [0; 1] ++ [MOp 2 (OGet k); MDrop 0 k; MDrop 1 k; MDropAll k].
Fixpoint mdseqs (n : nat) (al : list mstep) : list (list mstep) :=
  match n with 0 => [[]] | S m => [] :: flat_map (fun o => map (cons o) (mdseqs m al)) al end.
Fixpoint mdrop_ok (c : cfg) (k : kbytes) (m : mworld) (steps : list mstep) (latest : option value) (f0 f1 : bool) : bool :=
  match steps with
  | [] => true
  | MOp i o :: r =>
      let '(m', x) := mexec GenTables c m i o in
      let fresh_i := match i with 0 => f0 | 1 => f1 | _ => true end in
      let must := fresh_i || tier_eqb (cache_tier_for_key GenTables c k) TShared in
      let ok := match o with OGet _ => negb must || ores_eqb x (Some (val_res latest)) | _ => true end in
      let wr := match o with OSet _ _ | ODel _ => true | _ => false end in
      let latest' := match o with OSet _ v => Some v | ODel _ => None | _ => latest end in
      ok && mdrop_ok c k m' r latest' (if wr then Nat.eqb i 0 else f0) (if wr then Nat.eqb i 1 else f1)
  | MDrop i k' :: r => mdrop_ok c k (mdrop m (Some i) k') r latest (f0 || Nat.eqb i 0) (f1 || Nat.eqb i 1)
  | MDropAll k' :: r => mdrop_ok c k (mdrop m None k') r latest true true
  end.
Lemma cross_node_cache_loss_small_scope :
  forallb (fun ck => forallb (fun h => mdrop_ok (fst ck) (snd ck) m_empty h None true true) (mdseqs 4 (mdrop_alphabet (snd ck)))) all_cases_r = true.
Proof. vm_compute. reflexivity. Qed.

(* ---- SetExpiration (read the cached value, write it back with the new TTL) ---- *)
(* variant in which SetExpiration reads the cache BEFORE taking the key lock: it reads v1, a Set(v2) completes on both tiers, it writes v1
   back into the cache; the following Get returns v1 while the persistent tier holds v2 *)
Definition cfg_exp_unlocked : cfg :=
  {| has_shared := false; en_pers := true; fix_incr := true; fix_setnx := true; fix_wb := true; fix_list := true; fix_cwf := true; fix_cre := true; exp_locked := false |}.
Definition w_warm_user : world := nth 2 (seq_inits (cfg_rep false true) k_user) (init_world empty_store empty_store empty_store).
Lemma setexp_read_before_lock_witness :
  exists sched,
    let r := hrun GenTables cfg_exp_unlocked w_warm_user
               [TCaller (init_caller 0 [OSetExp k_user] []); TCaller (init_caller 1 [OSet k_user (VStr 2)] []); TCaller (init_caller 2 [OGet k_user] [])] sched in
    w_hist (fst r) = [(2, OGet k_user, RVal (VStr 9)); (0, OSetExp k_user, ROk); (1, OSet k_user (VStr 2), ROk)] /\
    tget (fst r) TPers k_user = Some (VStr 2).
Proof. exists [0; 1; 1; 1; 0; 0; 2]. vm_compute. split; reflexivity. Qed.
(* the same schedule on the shipped code (lock held from the read to the write): Set(v2) waits for SetExpiration or the other way round;
   at the end the cache tier and the persistent tier both hold v2 *)
Lemma setexp_locked_same_schedule :
  let r := hrun GenTables (cfg_rep false true) w_warm_user
             [TCaller (init_caller 0 [OSetExp k_user] []); TCaller (init_caller 1 [OSet k_user (VStr 2)] []); TCaller (init_caller 2 [OGet k_user] [])]
             [0; 1; 1; 1; 0; 0; 2; 1; 1; 1; 2] in
  (tget (fst r) TLocal k_user, tget (fst r) TPers k_user) = (Some (VStr 2), Some (VStr 2)).
Proof. vm_compute. reflexivity. Qed.

(* Proofs/CrossFrame.v — lemmas about Model/CrossFrame.v *)
From TX Require Import Model.CrossFrame.
From Coq Require Import ZArith ZifyN ZifyNat ZifyBool.
Ltac Zify.zify_post_hook ::= Z.div_mod_to_equations.

Open Scope N_scope.

(* ---------- generic list facts ---------- *)
Lemma skipn_skipn' {A} (x y : nat) (l : list A) : skipn x (skipn y l) = skipn (y + x) l.
Proof.
  revert l. induction y as [|y IH]; intros l; [reflexivity|].
  destruct l as [|a l]; [now rewrite !skipn_nil|]. cbn [skipn Nat.add]. apply IH.
Qed.

Lemma firstn_app_exact {A} (a b : list A) n : length a = n -> firstn n (a ++ b) = a.
Proof. intros <-. rewrite firstn_app, Nat.sub_diag, firstn_all. cbn [firstn]. apply app_nil_r. Qed.
Lemma skipn_app_exact {A} (a b : list A) n : length a = n -> skipn n (a ++ b) = b.
Proof. intros <-. rewrite skipn_app, Nat.sub_diag, skipn_all. reflexivity. Qed.

Lemma skipn_nonnil_lt {A} n (l : list A) : skipn n l <> [] <-> (n < length l)%nat.
Proof.
  split.
  - intros H. destruct (Nat.lt_ge_cases n (length l)) as [Hl|Hl]; [exact Hl|].
    exfalso. apply H. apply skipn_all2. exact Hl.
  - intros Hl E. apply (f_equal (@length A)) in E. rewrite skipn_length in E. cbn in E. lia.
Qed.

Lemma bytes_eqb_eq a b : bytes_eqb a b = true <-> a = b.
Proof.
  revert b. induction a as [|x a IH]; intros [|y b]; cbn [bytes_eqb]; split; intros H; try discriminate; try reflexivity.
  - apply andb_prop in H. destruct H as [H1 H2]. apply N.eqb_eq in H1. apply IH in H2. now subst.
  - injection H as -> ->. rewrite N.eqb_refl. cbn. now apply IH.
Qed.
Lemma bytes_eqb_refl a : bytes_eqb a a = true.
Proof. now apply bytes_eqb_eq. Qed.
Lemma bytes_eqb_neq a b : a <> b -> bytes_eqb a b = false.
Proof. intros H. destruct (bytes_eqb a b) eqn:E; [|reflexivity]. apply bytes_eqb_eq in E. contradiction. Qed.

Lemma wire_id_length s : length (wire_id s) = 16%nat.
Proof. unfold wire_id. rewrite app_length, firstn_length, repeat_length. lia. Qed.

Lemma interleave_app {A} (x y : list A) : Interleave x y (x ++ y).
Proof.
  induction x as [|a x IH]; cbn [app].
  - induction y as [|b y IHy]; constructor. exact IHy.
  - constructor. exact IH.
Qed.

Lemma interleave_filter {A} (f : A -> bool) x y m :
  Interleave x y m -> Forall (fun a => f a = false) y -> filter f m = filter f x.
Proof.
  intros H. induction H as [|a x y m H IH|b x y m H IH]; intros Hy.
  - reflexivity.
  - cbn [filter]. rewrite (IH Hy). reflexivity.
  - inversion Hy as [|? ? Hb Hy']; subst. cbn [filter]. rewrite Hb. apply IH. exact Hy'.
Qed.

Lemma interleave_forall {A} (P : A -> Prop) x y m :
  Interleave x y m -> Forall P x -> Forall P y -> Forall P m.
Proof.
  intros H. induction H as [|a x y m H IH|b x y m H IH]; intros Hx Hy.
  - constructor.
  - inversion Hx; subst. constructor; auto.
  - inversion Hy; subst. constructor; auto.
Qed.

Section Proofs.
  Variable MaxFrame : N.

  Notation encode_frame := (encode_frame MaxFrame).
  Notation frame_bytes := (frame_bytes MaxFrame).
  Notation encode_all := (encode_all MaxFrame).
  Notation decode_frame := (decode_frame MaxFrame).
  Notation decode_all := (decode_all MaxFrame).
  Notation decode_stream := (decode_stream MaxFrame).
  Notation parse_frame := (parse_frame MaxFrame).
  Notation parse_all := (parse_all MaxFrame).
  Notation parse_stream := (parse_stream MaxFrame).
  Notation Parses := (Parses MaxFrame).
  Notation next_frame_loop := (next_frame_loop MaxFrame).
  Notation fs_read := (fs_read MaxFrame).
  Notation read_loop := (read_loop MaxFrame).
  Notation read_stream := (read_stream MaxFrame).
  Notation segments := (segments MaxFrame).
  Notation fs_write := (fs_write MaxFrame).
  Notation script_frames := (script_frames MaxFrame).

  Definition sumN (l : list N) : N := fold_right N.add 0 l.

  (* ---------- one frame: the oracle-driven decoder equals the oracle-free parser ---------- *)
  Lemma decode_frame_spec r : exists r',
    decode_frame r = (fst (fst (parse_frame (rest r))), snd (fst (parse_frame (rest r))), r') /\
    rest r' = snd (parse_frame (rest r)) /\ endk r' = endk r.
  Proof.
    unfold CrossFrame.decode_frame, CrossFrame.parse_frame.
    destruct (read_full_spec (length (rest r)) HeaderSize r (le_n _)) as [A B].
    destruct (N.ltb_spec (lenN (rest r)) HeaderSize) as [Hs|Hs].
    { destruct (B Hs) as (r1 & E1 & Hr1 & He1). rewrite E1. exists r1. cbn [fst snd]. auto. }
    destruct (A Hs) as (r1 & E1 & Hr1 & He1). rewrite E1.
    change (N.to_nat HeaderSize) with 21%nat in *. rewrite <- Hr1.
    set (h := firstn 21 (rest r)).
    destruct (MaxFrame <? de32 (skipn 17 h)). { exists r1. cbn [fst snd]. auto. }
    destruct (de32 (skipn 17 h) =? 0). { exists r1. cbn [fst snd]. auto. }
    set (n := de32 (skipn 17 h)).
    destruct (read_full_spec (length (rest r1)) n r1 (le_n _)) as [A2 B2].
    destruct (N.ltb_spec (lenN (rest r1)) n) as [Hb|Hb].
    { destruct (B2 Hb) as (r2 & E2 & Hr2 & He2). rewrite E2. exists r2. cbn [fst snd]. split; [reflexivity|]. split; congruence. }
    destruct (A2 Hb) as (r2 & E2 & Hr2 & He2). rewrite E2. exists r2. cbn [fst snd].
    split; [reflexivity|]. split; congruence.
  Qed.

  Lemma parse_frame_ok_length s fr al s' : parse_frame s = (DOk fr, al, s') ->
    length s = (21 + length (f_data fr) + length s')%nat.
  Proof.
    unfold CrossFrame.parse_frame.
    destruct (N.ltb_spec (lenN s) HeaderSize) as [|H21]; [discriminate|].
    assert (L : (21 <= length s)%nat) by (unfold lenN, HeaderSize in H21; lia).
    assert (L1 : length (skipn 21 s) = (length s - 21)%nat) by apply skipn_length.
    set (s1 := skipn 21 s) in *. set (h := firstn 21 s) in *.
    destruct (MaxFrame <? _); [discriminate|].
    destruct (_ =? 0).
    { intros H. injection H as <- _ <-. cbn [f_data length]. lia. }
    destruct (N.ltb_spec (lenN s1) (de32 (skipn 17 h))) as [|Hb]; [discriminate|].
    intros H. injection H as <- _ <-. cbn [f_data]. unfold lenN in Hb.
    rewrite firstn_length, skipn_length. lia.
  Qed.

  Lemma parse_frame_alloc s : sumN (snd (fst (parse_frame s))) <= HeaderSize + MaxFrame.
  Proof.
    unfold CrossFrame.parse_frame, sumN, HeaderSize.
    destruct (lenN s <? 21); [cbn [fst snd fold_right]; lia|].
    destruct (N.ltb_spec MaxFrame (de32 (skipn 17 (firstn 21 s)))) as [|Hm]; [cbn [fst snd fold_right]; lia|].
    destruct (_ =? 0); [cbn [fst snd fold_right]; lia|].
    destruct (lenN (skipn 21 s) <? _); cbn [fst snd fold_right]; lia.
  Qed.

  Lemma parse_frame_no_fuel s : fst (fst (parse_frame s)) <> DErr FFuel.
  Proof.
    unfold CrossFrame.parse_frame.
    destruct (lenN s <? HeaderSize); [cbn; destruct s; discriminate|].
    destruct (MaxFrame <? _); [cbn; discriminate|].
    destruct (_ =? 0); [cbn; discriminate|].
    destruct (lenN (skipn 21 s) <? _); cbn; discriminate.
  Qed.

  (* (2) one ReadFrameFromReader call: total for every byte string, oracle and stream end; bounded allocation *)
  Theorem decode_frame_total_bounded r :
    fst (fst (decode_frame r)) <> DErr FFuel /\ sumN (snd (fst (decode_frame r))) <= HeaderSize + MaxFrame.
  Proof.
    destruct (decode_frame_spec r) as (r' & E & _). rewrite E. cbn [fst snd].
    split; [apply parse_frame_no_fuel|apply parse_frame_alloc].
  Qed.

  (* ---------- repeated decoding ---------- *)
  Lemma decode_all_spec fuel : forall r, (length (rest r) < fuel)%nat -> decode_all fuel r = parse_all fuel (rest r).
  Proof.
    induction fuel as [|f IH]; intros r Hf; [lia|].
    cbn [CrossFrame.decode_all CrossFrame.parse_all].
    destruct (decode_frame_spec r) as (r' & E & Hrest & _). rewrite E.
    destruct (parse_frame (rest r)) as [[res al] s'] eqn:Ep. cbn [fst snd] in *.
    destruct res as [fr|e]; [|reflexivity].
    rewrite IH; [now rewrite Hrest|]. apply parse_frame_ok_length in Ep. rewrite Hrest. lia.
  Qed.

  Theorem decode_stream_is_parse_stream s c : decode_stream s c = parse_stream s.
  Proof. unfold CrossFrame.decode_stream, CrossFrame.parse_stream. apply decode_all_spec. cbn. lia. Qed.

  Corollary decode_chunking_irrelevant s c1 c2 : decode_stream s c1 = decode_stream s c2.
  Proof. now rewrite !decode_stream_is_parse_stream. Qed.

  Lemma parses_total s : exists fs e, Parses s fs e.
  Proof.
    remember (length s) as n eqn:En. revert s En.
    induction n as [n IH] using lt_wf_ind. intros s En.
    destruct (parse_frame s) as [[res al] s'] eqn:Ep. destruct res as [fr|e].
    - pose proof (parse_frame_ok_length _ _ _ _ Ep) as L.
      destruct (IH (length s')) with (s := s') as (fs & e & Hp); [lia|reflexivity|].
      exists (fr :: fs), e. eapply parses_ok; eauto.
    - exists [], e. eapply parses_err; eauto.
  Qed.

  Lemma parses_fun s fs e : Parses s fs e -> forall fs' e', Parses s fs' e' -> fs = fs' /\ e = e'.
  Proof.
    intros H. induction H as [s e al s' Hp|s fr al s' fs e Hp H IH]; intros fs' e' H'.
    - inversion H' as [? ? ? ? Hp'|? ? ? ? ? ? Hp' ?]; subst; rewrite Hp in Hp'; [|discriminate].
      injection Hp' as ->. auto.
    - inversion H' as [? ? ? ? Hp'|? ? ? ? ? ? Hp' Hrest]; subst; rewrite Hp in Hp'; [discriminate|].
      injection Hp' as <- _ <-. destruct (IH _ _ Hrest) as [-> ->]. auto.
  Qed.

  Lemma parses_no_fuel s fs e : Parses s fs e -> e <> FFuel.
  Proof.
    intros H. induction H as [s e al s' Hp|s fr al s' fs e Hp H IH]; [|exact IH].
    intros ->. apply (parse_frame_no_fuel s). now rewrite Hp.
  Qed.

  Lemma parse_all_parses s fs e : Parses s fs e -> forall fuel, (length s < fuel)%nat ->
    exists m, parse_all fuel s = (fs, e, m) /\ m <= HeaderSize + MaxFrame.
  Proof.
    intros H. induction H as [s e al s' Hp|s fr al s' fs e Hp H IH]; intros fuel Hf.
    - destruct fuel as [|f]; [lia|]. cbn [CrossFrame.parse_all]. rewrite Hp. eexists. split; [reflexivity|].
      pose proof (parse_frame_alloc s) as Ha. rewrite Hp in Ha. exact Ha.
    - destruct fuel as [|f]; [lia|]. cbn [CrossFrame.parse_all]. rewrite Hp.
      pose proof (parse_frame_ok_length _ _ _ _ Hp) as L.
      destruct (IH f) as (m & Em & Hm); [lia|]. rewrite Em. eexists. split; [reflexivity|].
      pose proof (parse_frame_alloc s) as Ha. rewrite Hp in Ha. cbn [fst snd] in Ha. unfold sumN in Ha. lia.
  Qed.

  (* (2) the whole decoding session: never out of fuel, allocation of every call bounded *)
  Theorem decode_stream_safe s c :
    snd (fst (decode_stream s c)) <> FFuel /\ snd (decode_stream s c) <= HeaderSize + MaxFrame.
  Proof.
    rewrite decode_stream_is_parse_stream. destruct (parses_total s) as (fs & e & Hp).
    destruct (parse_all_parses _ _ _ Hp (S (length s))) as (m & Em & Hm); [lia|].
    unfold CrossFrame.parse_stream. rewrite Em. cbn [fst snd]. split; [eapply parses_no_fuel; eauto|exact Hm].
  Qed.

  (* ---------- round trip ---------- *)
  Hypothesis MaxFrame_u32 : MaxFrame < 4294967296.

  (* frames the writers accept: a 16-byte tunnel id ([16]byte in Go) and a payload within the limit *)
  Definition wf_frame (f : frame) : Prop := length (f_tid f) = 16%nat /\ lenN (f_data f) <= MaxFrame.

  Lemma frame_bytes_wf f : wf_frame f ->
    frame_bytes f = (f_tid f ++ [f_ty f]) ++ be32 (lenN (f_data f)) ++ f_data f.
  Proof.
    intros [Ht Hl]. unfold CrossFrame.frame_bytes, CrossFrame.encode_frame, header.
    destruct (N.ltb_spec MaxFrame (lenN (f_data f))) as [Hx|_]; [lia|].
    rewrite <- !app_assoc. reflexivity.
  Qed.

  Lemma parse_frame_encode f tail : wf_frame f ->
    exists al, parse_frame (frame_bytes f ++ tail) = (DOk f, al, tail).
  Proof.
    intros Hwf. rewrite (frame_bytes_wf f Hwf). destruct Hwf as [Ht Hl]. destruct f as [tid ty data]. cbn [f_tid f_ty f_data] in *.
    set (n := lenN data) in *.
    assert (Hh : length ((tid ++ [ty]) ++ be32 n) = 21%nat).
    { rewrite !app_length, be32_length, Ht. reflexivity. }
    assert (Hs : ((tid ++ [ty]) ++ be32 n ++ data) ++ tail = ((tid ++ [ty]) ++ be32 n) ++ (data ++ tail)).
    { rewrite <- !app_assoc. reflexivity. }
    unfold CrossFrame.parse_frame. rewrite Hs.
    assert (H21 : lenN (((tid ++ [ty]) ++ be32 n) ++ data ++ tail) <? HeaderSize = false).
    { apply N.ltb_ge. unfold lenN, HeaderSize. rewrite app_length, Hh. lia. }
    rewrite H21.
    rewrite (firstn_app_exact _ (data ++ tail) 21 Hh), (skipn_app_exact _ (data ++ tail) 21 Hh).
    assert (H17 : skipn 17 ((tid ++ [ty]) ++ be32 n) = be32 n).
    { apply skipn_app_exact. rewrite app_length, Ht. reflexivity. }
    assert (H16 : firstn 16 ((tid ++ [ty]) ++ be32 n) = tid).
    { rewrite <- app_assoc. apply firstn_app_exact. exact Ht. }
    assert (Hty : nth 16 ((tid ++ [ty]) ++ be32 n) 0 = ty).
    { rewrite <- app_assoc. rewrite app_nth2 by lia. rewrite Ht, Nat.sub_diag. reflexivity. }
    rewrite H17, H16, Hty. rewrite de32_be32 by lia.
    destruct (N.ltb_spec MaxFrame n) as [Hx|_]; [lia|].
    destruct (N.eqb_spec n 0) as [Hz|Hz].
    { assert (data = []) by (destruct data; [reflexivity|unfold n, lenN in Hz; cbn in Hz; lia]). subst data.
      eexists. reflexivity. }
    destruct (N.ltb_spec (lenN (data ++ tail)) n) as [Hx|_]; [rewrite lenN_app in Hx; lia|].
    assert (Hn : N.to_nat n = length data) by (unfold n, lenN; lia).
    rewrite Hn, (firstn_app_exact data tail _ eq_refl), (skipn_app_exact data tail _ eq_refl).
    eexists. reflexivity.
  Qed.

  Lemma parses_nil : Parses [] [] FEof.
  Proof. eapply parses_err. reflexivity. Qed.

  Lemma parses_encode fs : Forall wf_frame fs -> forall tail fs2 e, Parses tail fs2 e ->
    Parses (encode_all fs ++ tail) (fs ++ fs2) e.
  Proof.
    induction fs as [|f fs IH]; intros Hwf tail fs2 e Ht; [exact Ht|].
    inversion Hwf as [|? ? Hf Hrest]; subst.
    cbn [CrossFrame.encode_all flat_map app]. rewrite <- app_assoc.
    destruct (parse_frame_encode f (flat_map frame_bytes fs ++ tail) Hf) as (al & Ep).
    eapply parses_ok; [exact Ep|]. apply IH; assumption.
  Qed.

  Lemma parses_encode_all fs : Forall wf_frame fs -> Parses (encode_all fs) fs FEof.
  Proof.
    intros H. pose proof (parses_encode fs H [] [] FEof parses_nil) as P. now rewrite !app_nil_r in P.
  Qed.

  (* (1) decode(encode f) = f for every list of frames, under every chunking, then a clean io.EOF *)
  Theorem decode_encode_any_chunking fs c : Forall wf_frame fs ->
    fst (decode_stream (encode_all fs) c) = (fs, FEof).
  Proof.
    intros Hwf. rewrite decode_stream_is_parse_stream.
    destruct (parse_all_parses _ _ _ (parses_encode_all fs Hwf) (S (length (encode_all fs)))) as (m & Em & _); [lia|].
    unfold CrossFrame.parse_stream. rewrite Em. reflexivity.
  Qed.

  (* one frame followed by anything: the decoder returns it and stops exactly at its end *)
  Theorem decode_frame_encode f tail c e k : wf_frame f ->
    exists al r', decode_frame {| rest := frame_bytes f ++ tail; cuts := c; endk := e; carry := k |} = (DOk f, al, r') /\ rest r' = tail.
  Proof.
    intros Hwf. destruct (decode_frame_spec {| rest := frame_bytes f ++ tail; cuts := c; endk := e; carry := k |}) as (r' & E & Hr & _).
    cbn [rest] in *. destruct (parse_frame_encode f tail Hwf) as (al & Ep). rewrite Ep in *. cbn [fst snd] in *.
    exists al, r'. auto.
  Qed.

  (* oversized payloads are refused by the writers and nothing is written *)
  Lemma encode_frame_too_large f : MaxFrame < lenN (f_data f) -> encode_frame f = None /\ frame_bytes f = [].
  Proof.
    intros H. unfold CrossFrame.frame_bytes, CrossFrame.encode_frame.
    destruct (N.ltb_spec MaxFrame (lenN (f_data f))) as [_|Hx]; [auto|lia].
  Qed.

  (* ---------- FrameStream.Read ---------- *)
  Lemma pending_nil_iff st : pending st = [] <-> (r_off st <? length (r_buf st))%nat = false.
  Proof.
    unfold pending. split; intros H.
    - apply Nat.ltb_ge. destruct (Nat.lt_ge_cases (r_off st) (length (r_buf st))) as [Hl|Hl]; [|exact Hl].
      exfalso. apply (proj2 (skipn_nonnil_lt _ _) Hl). exact H.
    - apply Nat.ltb_ge in H. apply skipn_all2. exact H.
  Qed.

  Lemma eof_sticky tid cap st r : r_eof st = true -> fs_read tid cap st r = (REof, st, r).
  Proof. intros H. unfold CrossFrame.fs_read. now rewrite H. Qed.

  (* a Read served from the buffer: returns the next min(cap, |pending|) bytes, touches nothing else *)
  Lemma fs_read_pending tid cap st r : r_eof st = false -> pending st <> [] ->
    exists st', fs_read tid cap st r = (RData (firstn cap (pending st)), st', r) /\
                pending st' = skipn cap (pending st) /\ r_eof st' = false /\
                r_weof st' = r_weof st /\ r_broken st' = r_broken st.
  Proof.
    intros He Hp. unfold CrossFrame.fs_read. rewrite He.
    assert (Hlt : (r_off st < length (r_buf st))%nat) by (apply skipn_nonnil_lt; exact Hp).
    destruct (Nat.ltb_spec (r_off st) (length (r_buf st))) as [_|Hx]; [|lia].
    unfold pending in *. set (buf := r_buf st) in *. set (off := r_off st) in *.
    assert (Lg : length (firstn cap (skipn off buf)) = Nat.min cap (length buf - off)).
    { rewrite firstn_length, skipn_length. reflexivity. }
    destruct (Nat.leb_spec (length buf) (off + length (firstn cap (skipn off buf)))) as [Hle|Hgt].
    - eexists. split; [reflexivity|]. cbn [r_buf r_off r_eof r_weof r_broken set_buf]. repeat split; auto.
      rewrite skipn_nil. symmetry. apply skipn_all2. rewrite skipn_length. lia.
    - eexists. split; [reflexivity|]. cbn [r_buf r_off r_eof r_weof r_broken set_buf]. repeat split; auto.
      rewrite skipn_skipn'. f_equal. lia.
  Qed.

  Variable tid : list byte.

  Inductive nres := NData (d : list byte) (t : list frame) | NTerm (x : rres).
  (* frame-level meaning of the `for { ReadFrame }` loop: the next non-empty data payload of this tunnel, or the end *)
  Fixpoint next_data (fs : list frame) (e : ferr) : nres :=
    match fs with
    | [] => NTerm (term_of e)
    | fr :: t =>
      if negb (bytes_eqb (f_tid fr) tid) then next_data t e
      else if f_ty fr =? T_Data then match f_data fr with [] => next_data t e | d => NData d t end
      else if (f_ty fr =? T_EOF) || (f_ty fr =? T_Close) then NTerm REof
      else next_data t e
    end.

  Definition is_term (x : rres) : Prop := match x with RData _ => False | _ => True end.

  Lemma term_of_is_term e : is_term (term_of e).
  Proof. unfold term_of. destruct e; cbn; exact I. Qed.

  Lemma deliver_next fs e :
    match next_data fs e with
    | NData d t => d <> [] /\ deliver tid fs e = (d ++ fst (deliver tid t e), snd (deliver tid t e))
    | NTerm x => is_term x /\ deliver tid fs e = ([], x)
    end.
  Proof.
    induction fs as [|fr t IH]; cbn [next_data deliver].
    - split; [apply term_of_is_term|reflexivity].
    - destruct (negb (bytes_eqb (f_tid fr) tid)); [exact IH|].
      destruct (f_ty fr =? T_Data).
      + destruct (f_data fr) as [|b d] eqn:Ed.
        * cbn [app]. destruct (next_data t e) as [d' t'|x].
          -- destruct IH as [Hn IH]. split; [exact Hn|]. rewrite IH. reflexivity.
          -- destruct IH as [Hn IH]. split; [exact Hn|]. rewrite IH. reflexivity.
        * split; [discriminate|reflexivity].
      + destruct ((f_ty fr =? T_EOF) || (f_ty fr =? T_Close)); [split; [exact I|reflexivity]|exact IH].
  Qed.

  Lemma next_frame_loop_spec cap s fs e : Parses s fs e ->
    forall fuel st r, rest r = s -> (length s < fuel)%nat ->
    match next_data fs e with
    | NData d t => exists st' r', next_frame_loop fuel tid cap st r = (RData (firstn cap d), st', r') /\
          pending st' = skipn cap d /\ r_eof st' = r_eof st /\ r_weof st' = r_weof st /\ r_broken st' = r_broken st /\
          Parses (rest r') t e /\ (length (rest r') + length d < length s)%nat
    | NTerm x => exists st' r', next_frame_loop fuel tid cap st r = (x, st', r') /\
          r_weof st' = r_weof st /\ (x = REof -> r_eof st' = true) /\
          r_broken st' = (r_broken st || (negb (r_weof st) && match x with RErr => true | _ => false end))
    end.
  Proof.
    intros H. induction H as [s e al s' Hp|s fr al s' fs e Hp H IH]; intros fuel st r Hr Hf.
    - cbn [next_data]. destruct fuel as [|f]; [lia|]. cbn [CrossFrame.next_frame_loop].
      destruct (decode_frame_spec r) as (r1 & E & Hr1 & _). rewrite Hr, Hp in E, Hr1. cbn [fst snd] in E, Hr1. rewrite E.
      pose proof (parse_frame_no_fuel s) as Hnf. rewrite Hp in Hnf. cbn [fst] in Hnf.
      unfold term_of. destruct e; cbn [err_is_closed negb andb]; try (exfalso; apply Hnf; reflexivity).
      + eexists _, _. split; [reflexivity|]. cbn. rewrite andb_false_r, orb_false_r. auto.
      + eexists _, _. split; [reflexivity|]. cbn. rewrite andb_false_r, orb_false_r. auto.
      + destruct (r_weof st) eqn:Ew; cbn [negb andb].
        * eexists _, _. split; [reflexivity|]. cbn. rewrite Ew, orb_false_r. repeat split; auto. discriminate.
        * eexists _, _. split; [reflexivity|]. cbn. rewrite Ew, orb_true_r. repeat split; auto. discriminate.
      + eexists _, _. split; [reflexivity|]. cbn. rewrite andb_false_r, orb_false_r. auto.
    - pose proof (parse_frame_ok_length _ _ _ _ Hp) as L.
      destruct fuel as [|f]; [lia|]. cbn [CrossFrame.next_frame_loop next_data].
      destruct (decode_frame_spec r) as (r1 & E & Hr1 & _). rewrite Hr, Hp in E, Hr1. cbn [fst snd] in E, Hr1. rewrite E.
      assert (IH' := IH f st r1 Hr1). 
      assert (Hf' : (length s' < f)%nat) by lia. specialize (IH' Hf').
      assert (Hskip : match next_data fs e with
        | NData d t => exists st' r', next_frame_loop f tid cap st r1 = (RData (firstn cap d), st', r') /\
              pending st' = skipn cap d /\ r_eof st' = r_eof st /\ r_weof st' = r_weof st /\ r_broken st' = r_broken st /\
              Parses (rest r') t e /\ (length (rest r') + length d < length s)%nat
        | NTerm x => exists st' r', next_frame_loop f tid cap st r1 = (x, st', r') /\
              r_weof st' = r_weof st /\ (x = REof -> r_eof st' = true) /\
              r_broken st' = (r_broken st || (negb (r_weof st) && match x with RErr => true | _ => false end))
        end).
      { destruct (next_data fs e) as [d t|x]; [|exact IH'].
        destruct IH' as (st' & r' & E1 & P1 & P2 & P3 & P4 & P5 & P6). exists st', r'. repeat split; auto. lia. }
      destruct (negb (bytes_eqb (f_tid fr) tid)); [exact Hskip|].
      destruct (f_ty fr =? T_Data).
      + destruct (f_data fr) as [|b d] eqn:Ed; [exact Hskip|].
        remember (b :: d) as dd eqn:Edd.
        destruct (Nat.leb_spec (length dd) (Nat.min cap (length dd))) as [Hle|Hgt].
        * eexists _, _. split; [reflexivity|]. unfold pending. cbn [r_buf r_off r_eof r_weof r_broken set_buf].
          repeat split; auto.
          -- rewrite skipn_nil. symmetry. apply skipn_all2. lia.
          -- rewrite Hr1. exact H.
          -- rewrite Hr1. lia.
        * eexists _, _. split; [reflexivity|]. unfold pending. cbn [r_buf r_off r_eof r_weof r_broken set_buf].
          repeat split; auto.
          -- f_equal. lia.
          -- rewrite Hr1. exact H.
          -- rewrite Hr1. lia.
      + destruct ((f_ty fr =? T_EOF) || (f_ty fr =? T_Close)); [|exact Hskip].
        eexists _, _. split; [reflexivity|]. cbn. rewrite andb_false_r, orb_false_r. auto.
  Qed.

  (* THE reader theorem: whatever the transport chunking and whatever buffer sizes the consumer uses, the
     concatenation of what Read returns is exactly what the frame sequence owes this tunnel, and the loop ends
     with the result that sequence prescribes. *)
  Lemma read_loop_spec dcap : (1 <= dcap)%nat -> forall fuel caps st r fs e,
    Parses (rest r) fs e -> r_eof st = false -> Forall (fun c => (1 <= c)%nat) caps ->
    (length (pending st) + length (rest r) < fuel)%nat ->
    exists l st' r', read_loop fuel tid caps dcap st r = (l, st', r') /\ l <> [] /\
      data_of l = pending st ++ fst (deliver tid fs e) /\ last l RFuel = snd (deliver tid fs e).
  Proof.
    intros Hd. induction fuel as [|f IH]; intros caps st r fs e Hp He Hc Hf; [lia|].
    cbn [CrossFrame.read_loop].
    assert (Hcap : (1 <= hd dcap caps)%nat) by (destruct caps; cbn [hd]; [exact Hd|now inversion Hc]).
    assert (Htl : Forall (fun c => (1 <= c)%nat) (tl caps)) by (destruct caps; cbn [tl]; [constructor|now inversion Hc]).
    set (cap := hd dcap caps) in *.
    destruct (pending st) as [|b p] eqn:Epend.
    - (* fetch the next frame(s) *)
      unfold CrossFrame.fs_read. rewrite He. rewrite (proj1 (pending_nil_iff st) Epend).
      pose proof (next_frame_loop_spec cap (rest r) fs e Hp (S (length (rest r))) st r eq_refl (Nat.lt_succ_diag_r _)) as N.
      pose proof (deliver_next fs e) as D.
      destruct (next_data fs e) as [d t|x].
      + destruct N as (st1 & r1 & E1 & P1 & P2 & _ & _ & P5 & P6). destruct D as [Dn D]. rewrite E1.
        destruct (IH (tl caps) st1 r1 t e P5) as (l & st2 & r2 & E2 & Hl & Hdata & Hlast); [congruence|exact Htl| |].
        { rewrite P1, skipn_length. cbn [length] in Hf. lia. }
        rewrite E2. exists (RData (firstn cap d) :: l), st2, r2. split; [reflexivity|]. split; [discriminate|].
        cbn [data_of flat_map app]. fold (data_of l). rewrite Hdata, P1, D. cbn [fst snd].
        split; [now rewrite app_assoc, firstn_skipn|].
        destruct l as [|y l]; [contradiction|exact Hlast].
      + destruct N as (st1 & r1 & E1 & _). destruct D as [Dt D]. rewrite E1.
        destruct x as [d| | |]; [contradiction| | |]; eexists _, _, _; (split; [reflexivity|]); rewrite D; cbn; (split; [discriminate|auto]).
    - (* serve from the buffer *)
      assert (Hne : pending st <> []) by (rewrite Epend; discriminate).
      destruct (fs_read_pending tid cap st r He Hne) as (st1 & E1 & P1 & P2 & _). rewrite E1.
      destruct (IH (tl caps) st1 r fs e Hp P2 Htl) as (l & st2 & r2 & E2 & Hl & Hdata & Hlast).
      { rewrite P1, skipn_length, Epend. cbn [length] in *. lia. }
      rewrite E2. exists (RData (firstn cap (pending st)) :: l), st2, r2. split; [reflexivity|]. split; [discriminate|].
      cbn [data_of flat_map app]. fold (data_of l). rewrite Hdata, P1.
      split; [now rewrite app_assoc, firstn_skipn, Epend|].
      destruct l as [|y l]; [contradiction|exact Hlast].
  Qed.

  Theorem read_stream_spec weof caps dcap s c fs e :
    Parses s fs e -> Forall (fun k => (1 <= k)%nat) caps -> (1 <= dcap)%nat ->
    data_of (fst (fst (read_stream tid weof caps dcap s c))) = fst (deliver tid fs e) /\
    last (fst (fst (read_stream tid weof caps dcap s c))) RFuel = snd (deliver tid fs e).
  Proof.
    intros Hp Hc Hd. unfold CrossFrame.read_stream.
    destruct (read_loop_spec dcap Hd (S (length s)) caps (rinit weof) (mkrd s c) fs e) as (l & st' & r' & E & _ & Hdata & Hlast);
      [exact Hp|reflexivity|exact Hc|cbn; lia|].
    rewrite E. cbn [fst]. split; [exact Hdata|exact Hlast].
  Qed.

  (* ---------- FrameStream.Write / CloseWrite / Close ---------- *)
  Hypothesis MaxFrame_pos : 1 <= MaxFrame.

  Lemma segments_concat fuel : forall p, (length p <= fuel)%nat -> concat (segments fuel p) = p.
  Proof.
    induction fuel as [|f IH]; intros p Hf.
    - destruct p; [reflexivity|cbn in Hf; lia].
    - cbn [CrossFrame.segments]. destruct p as [|b p]; [reflexivity|].
      remember (b :: p) as q eqn:Eq. cbn [concat]. rewrite IH; [apply firstn_skipn|].
      rewrite skipn_length. rewrite Eq in *. cbn [length] in *. lia.
  Qed.

  Lemma segments_bounded fuel : forall p, Forall (fun d => lenN d <= MaxFrame) (segments fuel p).
  Proof.
    induction fuel as [|f IH]; intros p; cbn [CrossFrame.segments]; [constructor|].
    destruct p as [|b p]; [constructor|]. remember (b :: p) as q eqn:Eq. constructor; [|apply IH].
    unfold lenN. pose proof (firstn_le_length (N.to_nat MaxFrame) q). lia.
  Qed.

  Lemma deliver_data_frames segs X e :
    deliver tid (map (data_frame tid) segs ++ X) e = (concat segs ++ fst (deliver tid X e), snd (deliver tid X e)).
  Proof.
    induction segs as [|d segs IH]; cbn [map app concat].
    - destruct (deliver tid X e); reflexivity.
    - cbn [deliver data_frame f_tid f_ty f_data]. rewrite bytes_eqb_refl. cbn [negb].
      change (T_Data =? T_Data) with true. cbv iota. rewrite IH. cbn [fst snd]. now rewrite app_assoc.
  Qed.

  Lemma script_frames_closed ops : script_frames tid true ops = [].
  Proof.
    induction ops as [|op t IH]; [reflexivity|].
    destruct op; cbn [CrossFrame.script_frames CrossFrame.fs_write]; rewrite IH; reflexivity.
  Qed.

  Lemma deliver_script ops : forall X e,
    deliver tid (script_frames tid false ops ++ X) e =
    if has_close ops then (accepted ops, REof)
    else (accepted ops ++ fst (deliver tid X e), snd (deliver tid X e)).
  Proof.
    induction ops as [|op t IH]; intros X e.
    - cbn. destruct (deliver tid X e); reflexivity.
    - destruct op as [p| |]; cbn [CrossFrame.script_frames CrossFrame.fs_write has_close existsb orb accepted].
      + fold (has_close t). destruct p as [|b p].
        * cbn [app]. apply IH.
        * remember (b :: p) as q eqn:Eq. destruct (MaxFrame <? lenN q).
          -- rewrite <- app_assoc, deliver_data_frames, segments_concat by lia. rewrite IH.
             destruct (has_close t); cbn [fst snd]; [reflexivity|now rewrite app_assoc].
          -- change ([data_frame tid q] ++ script_frames tid false t) with (map (data_frame tid) [q] ++ script_frames tid false t).
             rewrite <- app_assoc, deliver_data_frames. cbn [concat]. rewrite app_nil_r, IH.
             destruct (has_close t); cbn [fst snd]; [reflexivity|now rewrite app_assoc].
      + rewrite script_frames_closed. cbn [app deliver f_tid f_ty]. rewrite bytes_eqb_refl. reflexivity.
      + rewrite script_frames_closed. cbn [app deliver f_tid f_ty]. rewrite bytes_eqb_refl. reflexivity.
  Qed.

  Lemma script_frames_wf : length tid = 16%nat -> forall ops w, Forall wf_frame (script_frames tid w ops).
  Proof.
    intros Ht. induction ops as [|op t IH]; intros w; [constructor|].
    assert (Hctl : forall ty, wf_frame {| f_tid := tid; f_ty := ty; f_data := [] |}).
    { intros ty. split; [exact Ht|]. unfold lenN. cbn. lia. }
    destruct op as [p| |]; destruct w; cbn [CrossFrame.script_frames CrossFrame.fs_write]; cbn [app]; try apply IH;
      try (constructor; [apply Hctl|apply IH]).
    destruct p as [|b p]; [apply IH|]. remember (b :: p) as q eqn:Eq.
    destruct (N.ltb_spec MaxFrame (lenN q)) as [Hgt|Hle]; apply Forall_app; split; try apply IH.
    - pose proof (segments_bounded (length q) q) as Hs. induction Hs as [|d l Hd Hl IHl]; cbn [map]; constructor; [|exact IHl].
      split; [exact Ht|exact Hd].
    - constructor; [|constructor]. split; [exact Ht|exact Hle].
  Qed.

  (* write-side facts stated by the property *)
  Lemma write_after_close_refused p : fs_write tid true (WWrite p) = (true, [], WClosedPipe).
  Proof. reflexivity. Qed.
  Lemma write_reports_all p w fs r : fs_write tid false (WWrite p) = (w, fs, r) -> w = false /\ r = WOk (lenN p).
  Proof.
    cbn [CrossFrame.fs_write]. destruct p as [|b p]; [intros H; injection H as <- _ <-; auto|].
    remember (b :: p) as q. destruct (MaxFrame <? lenN q); intros H; injection H as <- _ <-; auto.
  Qed.

  (* (3) stream transparency: all write sizes (0 .. many frames), all read-buffer sizes, all chunkings *)
  Theorem stream_transparent ops weof caps dcap c : length tid = 16%nat ->
    Forall (fun k => (1 <= k)%nat) caps -> (1 <= dcap)%nat ->
    data_of (fst (fst (read_stream tid weof caps dcap (encode_all (script_frames tid false ops)) c))) = accepted ops /\
    last (fst (fst (read_stream tid weof caps dcap (encode_all (script_frames tid false ops)) c))) RFuel = REof.
  Proof.
    intros Ht Hc Hd.
    pose proof (parses_encode_all _ (script_frames_wf Ht ops false)) as Hp.
    destruct (read_stream_spec weof caps dcap _ c _ _ Hp Hc Hd) as [H1 H2]. rewrite H1, H2.
    pose proof (deliver_script ops [] FEof) as D. rewrite app_nil_r in D. rewrite D.
    destruct (has_close ops); cbn [fst snd deliver]; [auto|]. rewrite app_nil_r. auto.
  Qed.

  (* after CloseWrite/Close the reader reports end-of-stream whatever follows on the connection (even garbage) *)
  Theorem stream_transparent_then_anything ops tail weof caps dcap c : length tid = 16%nat -> has_close ops = true ->
    Forall (fun k => (1 <= k)%nat) caps -> (1 <= dcap)%nat ->
    data_of (fst (fst (read_stream tid weof caps dcap (encode_all (script_frames tid false ops) ++ tail) c))) = accepted ops /\
    last (fst (fst (read_stream tid weof caps dcap (encode_all (script_frames tid false ops) ++ tail) c))) RFuel = REof.
  Proof.
    intros Ht Hcl Hc Hd. destruct (parses_total tail) as (fs2 & e & Hp2).
    pose proof (parses_encode _ (script_frames_wf Ht ops false) tail fs2 e Hp2) as Hp.
    destruct (read_stream_spec weof caps dcap _ c _ _ Hp Hc Hd) as [H1 H2]. rewrite H1, H2.
    rewrite (deliver_script ops fs2 e), Hcl. auto.
  Qed.

  (* (4) frames of other tunnels and of unknown types *)
  Lemma deliver_filter fs e : deliver tid fs e = deliver tid (filter (relevant tid) fs) e.
  Proof.
    induction fs as [|fr t IH]; [reflexivity|]. cbn [filter deliver]. unfold relevant at 1.
    destruct (bytes_eqb (f_tid fr) tid) eqn:Eb; cbn [negb andb]; [|exact IH].
    destruct (f_ty fr =? T_Data) eqn:E1; cbn [orb].
    - cbn [deliver]. rewrite Eb, E1. cbn [negb]. now rewrite IH.
    - destruct (f_ty fr =? T_EOF) eqn:E2; cbn [orb].
      + cbn [deliver]. rewrite Eb, E1, E2. reflexivity.
      + destruct (f_ty fr =? T_Close) eqn:E3.
        * cbn [deliver]. rewrite Eb, E1, E2, E3. reflexivity.
        * exact IH.
  Qed.

  Theorem foreign_never_delivered mine other m weof caps dcap c :
    Interleave mine other m -> Forall (fun f => relevant tid f = false) other -> Forall wf_frame m ->
    Forall (fun k => (1 <= k)%nat) caps -> (1 <= dcap)%nat ->
    data_of (fst (fst (read_stream tid weof caps dcap (encode_all m) c))) = fst (deliver tid mine FEof) /\
    last (fst (fst (read_stream tid weof caps dcap (encode_all m) c))) RFuel = snd (deliver tid mine FEof).
  Proof.
    intros Hi Ho Hwf Hc Hd.
    destruct (read_stream_spec weof caps dcap _ c _ _ (parses_encode_all m Hwf) Hc Hd) as [H1 H2]. rewrite H1, H2.
    rewrite (deliver_filter m), (interleave_filter _ _ _ _ Hi Ho), <- deliver_filter. auto.
  Qed.

  Lemma relevant_other_tid f : f_tid f <> tid -> relevant tid f = false.
  Proof. intros H. unfold relevant. now rewrite (bytes_eqb_neq _ _ H). Qed.
  Lemma relevant_unknown_type f : f_ty f <> T_Data -> f_ty f <> T_EOF -> f_ty f <> T_Close -> relevant tid f = false.
  Proof.
    intros H1 H2 H3. unfold relevant. apply N.eqb_neq in H1, H2, H3. rewrite H1, H2, H3. apply andb_false_r.
  Qed.
End Proofs.

(* ---------- tunnel-id STRINGS ---------- *)
Lemma script_frames_tid M t ops : forall w, Forall (fun f => f_tid f = t) (script_frames M t w ops).
Proof.
  induction ops as [|op ops IH]; intros w; [constructor|].
  destruct op as [p| |]; destruct w; cbn [script_frames fs_write]; cbn [app]; try apply IH;
    try (constructor; [reflexivity|apply IH]).
  destruct p as [|b p]; [apply IH|]. remember (b :: p) as q.
  destruct (M <? lenN q)%N; apply Forall_app; split; try apply IH.
  - induction (segments M (length q) q); cbn [map]; constructor; auto.
  - constructor; [reflexivity|constructor].
Qed.

(* (5) the string-level statement of (4), under the guard that the two strings have different wire ids *)
Theorem tunnels_separated M (HM : (M < 4294967296)%N) (HP : (1 <= M)%N) s1 s2 ops1 ops2 m weof caps dcap c :
  wire_id s1 <> wire_id s2 ->
  Interleave (script_frames M (wire_id s1) false ops1) (script_frames M (wire_id s2) false ops2) m ->
  Forall (fun k => (1 <= k)%nat) caps -> (1 <= dcap)%nat ->
  data_of (fst (fst (read_stream M (wire_id s1) weof caps dcap (encode_all M m) c))) = accepted ops1 /\
  last (fst (fst (read_stream M (wire_id s1) weof caps dcap (encode_all M m) c))) RFuel = REof.
Proof.
  intros Hne Hi Hc Hd.
  assert (Ho : Forall (fun f => relevant (wire_id s1) f = false) (script_frames M (wire_id s2) false ops2)).
  { eapply Forall_impl; [|apply script_frames_tid]. intros f Hf. apply relevant_other_tid. rewrite Hf. congruence. }
  assert (Hwf : Forall (wf_frame M) m).
  { eapply interleave_forall; [exact Hi| |]; apply script_frames_wf; auto using wire_id_length. }
  destruct (foreign_never_delivered M HM (wire_id s1) _ _ _ weof caps dcap c Hi Ho Hwf Hc Hd) as [H1 H2].
  rewrite H1, H2.
  pose proof (deliver_script M HM (wire_id s1) HP ops1 [] FEof) as D. rewrite app_nil_r in D. rewrite D.
  destruct (has_close ops1); cbn [fst snd deliver]; [auto|]. rewrite app_nil_r. auto.
Qed.

(* the same statement for DIFFERENT STRINGS is false: TunnelIDFromString keeps 16 bytes and the ids the client
   generates, "<proto>-tunnel-<UnixNano>-<port>", share their first 16 bytes for ~27 hours *)
Definition id_a : list byte := [116;99;112;45;116;117;110;110;101;108;45;49;55;53;57;50;54;48;48;48;48;48;48;48;48;48;48;48;48;48;45;56;48;56;48].   (* "tcp-tunnel-1759260000000000000-8080" *)
Definition id_b : list byte := [116;99;112;45;116;117;110;110;101;108;45;49;55;53;57;50;54;51;54;48;48;48;48;48;48;48;48;48;48;48;45;57;48;57;48].   (* "tcp-tunnel-1759263600000000000-9090" *)

Definition string_level_separation (M : N) : Prop :=
  forall s1 s2 ops1 ops2 m weof caps dcap c, s1 <> s2 ->
  Interleave (script_frames M (wire_id s1) false ops1) (script_frames M (wire_id s2) false ops2) m ->
  Forall (fun k => (1 <= k)%nat) caps -> (1 <= dcap)%nat ->
  data_of (fst (fst (read_stream M (wire_id s1) weof caps dcap (encode_all M m) c))) = accepted ops1 /\
  last (fst (fst (read_stream M (wire_id s1) weof caps dcap (encode_all M m) c))) RFuel = REof.

Lemma wire_id_collision : id_a <> id_b /\ wire_id id_a = wire_id id_b /\ id_to_string (wire_id id_a) <> id_a.
Proof. vm_compute. repeat split; discriminate. Qed.

Lemma string_level_separation_refuted : ~ string_level_separation 65536.
Proof.
  intros H.
  specialize (H id_a id_b [WWrite [1;2;3]%N] [WWrite [170;187]%N]
                (script_frames 65536 (wire_id id_a) false [WWrite [1;2;3]%N] ++
                 script_frames 65536 (wire_id id_b) false [WWrite [170;187]%N])
                false [] 64%nat []).
  destruct H as [H _].
  - vm_compute. discriminate.
  - apply interleave_app.
  - constructor.
  - vm_compute. lia.
  - vm_compute in H. discriminate.
Qed.

(* non-vacuity: a concrete connection carrying my writes (one larger than a frame when MaxFrame = 4), a foreign
   tunnel's data and close frames and an unknown-type frame of my own tunnel satisfies the hypotheses of (4) *)
Definition ex_tid : list byte := wire_id [97;98;99]%N.
Definition ex_other : list byte := wire_id [120;121]%N.
Definition ex_mine : list frame :=
  script_frames 4 ex_tid false [WWrite [1;2;3;4;5;6;7;8;9;10]%N; WWrite []; WWrite [11]%N; WCloseWrite; WWrite [12]%N].
Definition ex_foreign : list frame :=
  [ {| f_tid := ex_other; f_ty := T_Data; f_data := [200;201]%N |};
    {| f_tid := ex_tid; f_ty := 2%N; f_data := [202]%N |};
    {| f_tid := ex_other; f_ty := T_Close; f_data := [] |} ].
Definition ex_conn : list frame :=
  match ex_mine, ex_foreign with
  | a :: b :: t, x :: y :: z => x :: a :: y :: b :: z ++ t
  | _, _ => []
  end.

Lemma premises_satisfiable :
  length ex_mine = 5%nat /\ Interleave ex_mine ex_foreign ex_conn /\
  Forall (fun f => relevant ex_tid f = false) ex_foreign /\ Forall (wf_frame 4) ex_conn /\
  deliver ex_tid ex_mine FEof = ([1;2;3;4;5;6;7;8;9;10;11]%N, REof) /\
  fst (fst (read_stream 4 ex_tid false [3;1]%nat 4%nat (encode_all 4 ex_conn) [5;1;30]%nat)) =
    [RData [1;2;3]; RData [4]; RData [5;6;7;8]; RData [9;10]; RData [11]; REof]%N.
Proof.
  split; [reflexivity|]. split; [vm_compute; repeat constructor|].
  split; [vm_compute; repeat constructor|]. split; [|split; vm_compute; reflexivity].
  vm_compute. repeat constructor; vm_compute; discriminate.
Qed.
Close Scope N_scope.

(* ---------- the repaired TunnelIDFromString (fixes/C10-wire-id-hash.diff) ---------- *)
Open Scope N_scope.

(* (5) for arbitrary 16-byte wire ids that differ (the statement tunnels_separated is the instance wire_id s1 / wire_id s2) *)
Theorem tunnels_separated_tids M (HM : (M < 4294967296)%N) (HP : (1 <= M)%N) t1 t2 ops1 ops2 m weof caps dcap c :
  length t1 = 16%nat -> length t2 = 16%nat -> t1 <> t2 ->
  Interleave (script_frames M t1 false ops1) (script_frames M t2 false ops2) m ->
  Forall (fun k => (1 <= k)%nat) caps -> (1 <= dcap)%nat ->
  data_of (fst (fst (read_stream M t1 weof caps dcap (encode_all M m) c))) = accepted ops1 /\
  last (fst (fst (read_stream M t1 weof caps dcap (encode_all M m) c))) RFuel = REof.
Proof.
  intros L1 L2 Hne Hi Hc Hd.
  assert (Ho : Forall (fun f => relevant t1 f = false) (script_frames M t2 false ops2)).
  { eapply Forall_impl; [|apply script_frames_tid]. intros f Hf. apply relevant_other_tid. rewrite Hf. congruence. }
  assert (Hwf : Forall (wf_frame M) m).
  { eapply interleave_forall; [exact Hi| |]; apply script_frames_wf; auto. }
  destruct (foreign_never_delivered M HM t1 _ _ _ weof caps dcap c Hi Ho Hwf Hc Hd) as [H1 H2].
  rewrite H1, H2.
  pose proof (deliver_script M HM t1 HP ops1 [] FEof) as D. rewrite app_nil_r in D. rewrite D.
  destruct (has_close ops1); cbn [fst snd deliver]; [auto|]. rewrite app_nil_r. auto.
Qed.

Lemma app_zeros_inj (s1 : list byte) : forall s2 k1 k2,
  Forall (fun b => b <> 0) s1 -> Forall (fun b => b <> 0) s2 -> s1 ++ repeat 0 k1 = s2 ++ repeat 0 k2 -> s1 = s2.
Proof.
  induction s1 as [|a t1 IH]; intros s2 k1 k2 F1 F2 E.
  - destruct s2 as [|b t2]; [reflexivity|]. inversion F2 as [|? ? Hb _]; subst.
    destruct k1; cbn in E; [discriminate|]. injection E as E _. congruence.
  - inversion F1 as [|? ? Ha F1']; subst. destruct s2 as [|b t2].
    + destruct k2; cbn in E; [discriminate|]. injection E as E _. congruence.
    + inversion F2 as [|? ? _ F2']; subst. cbn [app] in E. injection E as -> E. f_equal. eapply IH; eauto.
Qed.

Lemma wire_id_short s : (length s <= 16)%nat -> wire_id s = s ++ repeat 0 (16 - length s).
Proof. intros H. unfold wire_id. now rewrite (@firstn_all2 _ 16 s) by lia. Qed.

Section Hashed.
  Variable H : list byte -> list byte.
  Variable used : list byte -> Prop.                       (* the tunnel ids in use on a connection *)
  (* exactly what is asked of the hash on the ids in use *)
  Hypothesis H_len : forall s, used s -> (16 < length s)%nat -> length (H s) = 16%nat.
  Hypothesis H_inj : forall s1 s2, used s1 -> used s2 -> (16 < length s1)%nat -> (16 < length s2)%nat -> H s1 = H s2 -> s1 = s2.
  Hypothesis H_sep : forall s1 s2, used s1 -> used s2 -> (16 < length s1)%nat -> (length s2 <= 16)%nat -> H s1 <> wire_id s2.
  (* short ids are stored verbatim and zero padded: they must not contain the padding byte (Go id strings never do) *)
  Hypothesis no_nul : forall s, used s -> (length s <= 16)%nat -> Forall (fun b => b <> 0) s.

  Lemma wire_id_h_length s : used s -> length (wire_id_h H s) = 16%nat.
  Proof.
    intros Hu. unfold wire_id_h. destruct (Nat.leb_spec (length s) 16) as [Hl|Hl]; [apply wire_id_length|apply H_len; auto].
  Qed.

  Lemma wire_id_h_injective s1 s2 : used s1 -> used s2 -> s1 <> s2 -> wire_id_h H s1 <> wire_id_h H s2.
  Proof.
    intros U1 U2 Hne E. unfold wire_id_h in E.
    destruct (Nat.leb_spec (length s1) 16) as [L1|L1]; destruct (Nat.leb_spec (length s2) 16) as [L2|L2].
    - rewrite (wire_id_short s1 L1), (wire_id_short s2 L2) in E.
      apply Hne. eapply app_zeros_inj; [apply no_nul| apply no_nul|exact E]; auto.
    - symmetry in E. exact (H_sep s2 s1 U2 U1 L2 L1 E).
    - exact (H_sep s1 s2 U1 U2 L1 L2 E).
    - apply Hne. apply H_inj; auto.
  Qed.

  (* the FULL string-level statement for the repaired code, for all tunnel ids in use *)
  Theorem tunnels_separated_hashed M (HM : (M < 4294967296)%N) (HP : (1 <= M)%N) s1 s2 ops1 ops2 m weof caps dcap c :
    used s1 -> used s2 -> s1 <> s2 ->
    Interleave (script_frames M (wire_id_h H s1) false ops1) (script_frames M (wire_id_h H s2) false ops2) m ->
    Forall (fun k => (1 <= k)%nat) caps -> (1 <= dcap)%nat ->
    data_of (fst (fst (read_stream M (wire_id_h H s1) weof caps dcap (encode_all M m) c))) = accepted ops1 /\
    last (fst (fst (read_stream M (wire_id_h H s1) weof caps dcap (encode_all M m) c))) RFuel = REof.
  Proof.
    intros U1 U2 Hne. apply tunnels_separated_tids; auto using wire_id_h_length, wire_id_h_injective.
  Qed.
End Hashed.

(* non-vacuity of the hypotheses: a toy hash (the reversed string, padded) separates the two colliding ids and a short id *)
Definition toy_hash (s : list byte) : list byte := wire_id (rev s).
Definition toy_used (s : list byte) : Prop := In s [id_a; id_b; [97;98;99]].
Lemma hashed_premises_satisfiable :
  (forall s, toy_used s -> (16 < length s)%nat -> length (toy_hash s) = 16%nat) /\
  (forall s1 s2, toy_used s1 -> toy_used s2 -> (16 < length s1)%nat -> (16 < length s2)%nat -> toy_hash s1 = toy_hash s2 -> s1 = s2) /\
  (forall s1 s2, toy_used s1 -> toy_used s2 -> (16 < length s1)%nat -> (length s2 <= 16)%nat -> toy_hash s1 <> wire_id s2) /\
  (forall s, toy_used s -> (length s <= 16)%nat -> Forall (fun b => b <> 0) s) /\
  toy_used id_a /\ toy_used id_b /\ id_a <> id_b /\ wire_id id_a = wire_id id_b /\ wire_id_h toy_hash id_a <> wire_id_h toy_hash id_b.
Proof.
  unfold toy_used.
  split; [intros s _ _; apply wire_id_length|].
  split.
  { intros s1 s2 [<-|[<-|[<-|[]]]] [<-|[<-|[<-|[]]]] L1 L2 E; try reflexivity;
      try (vm_compute in L1; lia); try (vm_compute in L2; lia); vm_compute in E; discriminate. }
  split.
  { intros s1 s2 [<-|[<-|[<-|[]]]] [<-|[<-|[<-|[]]]] L1 L2; try (vm_compute in L1; lia); try (vm_compute in L2; lia);
      vm_compute; discriminate. }
  split.
  { intros s [<-|[<-|[<-|[]]]] L; try (vm_compute in L; lia). repeat constructor; discriminate. }
  split; [cbn; auto|]. split; [cbn; auto|].
  split; [vm_compute; discriminate|]. split; [vm_compute; reflexivity|vm_compute; discriminate].
Qed.
Close Scope N_scope.

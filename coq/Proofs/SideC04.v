(* Proofs/SideC04.v — side conditions tying Model/TunnelOpen.v to the tables regenerated from /repo (Gen/C04.v):
   re-proved for the current tree on every run. *)
From TX Require Import Model.TunnelOpen Gen.C04.
From Coq Require Import List NArith Bool.
Import ListNotations.
Open Scope N_scope.

(* resumeTunnel cannot succeed: the cloud control wired into ServerTunnelHandler has no ValidateTunnelResumeToken;
   this is what justifies `if r_resume r then false` in Model.validate *)
Lemma resume_not_supported : ResumeSupported = false.
Proof. reflexivity. Qed.

Lemma packet_types : PT_TunnelOpen = 32 /\ PT_TunnelOpenAck = 33.
Proof. split; reflexivity. Qed.

(* the model's IsValid / CanBeAccessedBy coincide with the real methods on every (revoked, expired, status) combination *)
Definition mapping_row_ok (row : (bool * bool * bool) * (bool * bool * bool * bool)) : bool :=
  let '((rev, exp, act), (v, al, at_, ao)) := row in
  let m := {| m_listen := 11; m_target := 12; m_secret := 101; m_revoked := rev; m_expired := exp; m_active := act |} in
  Bool.eqb (is_valid m) v && Bool.eqb (can_be_accessed_by m 11) al &&
  Bool.eqb (can_be_accessed_by m 12) at_ && Bool.eqb (can_be_accessed_by m 13) ao.
Lemma mapping_predicates_match_code :
  length mapping_table = 12%nat /\ forallb mapping_row_ok mapping_table = true.
Proof. split; vm_compute; reflexivity. Qed.

(* the real ServerTunnelHandler.HandleTunnelOpen on 4 x 2 x 9 (secrets incl. prefixes, suffix, right+1, case, one character) x 2 x 5 = 720 combinations equals Model.validate.
   Which secret-path variant the tree implements is read off the table itself (target client, right secret, revoked
   mapping); every other row must then agree with that variant. *)
Definition tbl_client (k : N) : client := match k with 1 => 11 | 2 => 12 | 3 => 13 | _ => 0 end.
Definition tbl_state (k : N) : t_mstate :=
  match k with 0 => MActive | 1 => MRevoked | 2 => MExpired | 3 => MInactive | _ => MMissing end.
Definition tbl_db (st : N) : db := fun m => if N.eqb m 1 then mk_mapping 11 12 101 (tbl_state st) else None.
Definition tbl_req (names : bool) (sec : N) (res : bool) : request :=
  {| r_mid := if names then 1 else 0; r_tid := 7;
     r_secret := match sec with 0 => 0 | 1 => 101 | k => 990 + k end; r_resume := res |}.
Definition tree_secret_isvalid : bool :=
  negb (existsb (fun row => let '((c, names, sec, res, st), acc) := row in
                            N.eqb c 2 && names && N.eqb sec 1 && negb res && N.eqb st 1 && acc) validator_table).
Definition tree_validator_variant : variant := {| v_validate_first := true; v_secret_isvalid := tree_secret_isvalid; v_wait_agree := true |}.
Definition validator_row_ok (row : (N * bool * N * bool * N) * bool) : bool :=
  let '((c, names, sec, res, st), acc) := row in
  Bool.eqb (validate tree_validator_variant (tbl_db st) (tbl_client c) (tbl_req names sec res)) acc.
Lemma validator_matches_code :
  length validator_table = 720%nat /\ forallb validator_row_ok validator_table = true.
Proof. split; vm_compute; reflexivity. Qed.


(* the expiry boundary of the real PortMapping.IsExpired / IsValid, sampled at offsets from 1 ms to 1 h on both sides of now:
   expired exactly when ExpiresAt is in the past (no tolerance, no grace period), valid exactly when it is not — which is what
   m_expired means in the model (MExp1ms .. MExp25s are expired, MSoon60s is not) *)
Definition expiry_row_ok (row : N * bool * (bool * bool)) : bool :=
  let '(_, past, (isexp, isvalid)) := row in Bool.eqb isexp past && Bool.eqb isvalid (negb past).
Lemma expiry_boundary_matches_code :
  length expiry_table = 19%nat /\ forallb expiry_row_ok expiry_table = true /\
  existsb (fun row => let '(off, past, _) := row in past && N.eqb off 1) expiry_table = true /\
  existsb (fun row => let '(off, past, _) := row in past && N.leb 60000000000000 off) expiry_table = true.
Proof. repeat split; vm_compute; reflexivity. Qed.

(* how a mapping BECOMES revoked: the real PortMapping.Revoke on every status x expiry x caller (regenerated). A revocation that
   reports success leaves the mapping revoked and invalid, and it stays invalid and inaccessible when its status is set back to
   active afterwards (pause / revoke / resume): MRevoked in the model is absorbing under status changes. *)
Definition revoke_row_ok (row : (N * bool * N) * (bool * bool * bool * (bool * bool * bool))) : bool :=
  let '((st, ex, caller), (ok, rev, valid, (valid2, accl, acct))) := row in
  (negb ok || (rev && negb valid && negb valid2 && negb accl && negb acct)).
Lemma revoke_matches_code :
  length revoke_table = 18%nat /\ forallb revoke_row_ok revoke_table = true /\
  (* not vacuous: for every status some caller's revocation is reported as done *)
  forallb (fun st => existsb (fun row => let '((st', _, _), (ok, _, _, _)) := row in N.eqb st st' && ok) revoke_table) [0; 1; 2] = true.
Proof. repeat split; vm_compute; reflexivity. Qed.

(* the table driven through the real dispatcher has exactly the cells of Model.all_cells *)
Lemma table_dims_match :
  fold_right N.mul 1 table_dims + fold_right N.mul 1 party_dims + fold_right N.mul 1 nosecret_dims = N.of_nat (length all_cells).
Proof. vm_compute. reflexivity. Qed.

(* a mapping that stores NO secret: the real validator accepts exactly what Model.validate accepts (the listening client naming the
   mapping and presenting nothing) — in particular no non-empty presented secret *)
Definition nosecret_row_ok (row : (N * bool * N) * bool) : bool :=
  let '((c, names, sec), acc) := row in
  let d : db := fun m => if N.eqb m 1 then mk_mapping 11 12 0 MActive else None in
  Bool.eqb (validate tree_validator_variant d (tbl_client c) (tbl_req names sec false)) acc &&
  (negb acc || N.eqb sec 0).
Lemma nosecret_validator_matches_code : length nosecret_table = 16%nat /\ forallb nosecret_row_ok nosecret_table = true.
Proof. split; vm_compute; reflexivity. Qed.

(* the routing table answers only for the tunnel id that was asked (the models treat records as a function of the FULL id): a record
   registered under an id of 20 .. 300 bytes is found under that id and not under (its first 16 .. 100 bytes + "-x") *)
Definition routing_row_ok (row : (N * N) * (bool * bool)) : bool := let '(_, (self, cut)) := row in self && negb cut.
Lemma routing_key_is_the_full_id : (20 <= length routing_key_table)%nat /\ forallb routing_row_ok routing_key_table = true.
Proof. split; vm_compute; [repeat constructor | reflexivity]. Qed.
Close Scope N_scope.

(* Proofs/IdGen.v — C15: uniqueness of live ids for every schedule, any number of callers *)
From TX Require Import Model.IdGen.
From Coq Require Import Lia Permutation.

Lemma flat_map_upd_nth {A B} (f : A -> list B) : forall (l : list A) i x x',
  nth_error l i = Some x ->
  exists a b, flat_map f l = a ++ f x ++ b /\ flat_map f (upd_nth i x' l) = a ++ f x' ++ b.
Proof.
  induction l as [|h t IH]; intros [|j] x x' H; cbn in *; try discriminate.
  - inversion H; subst. exists [], (flat_map f t). cbn. auto.
  - destruct (IH j x x' H) as (a & b & Ha & Hb).
    exists (f h ++ a), b. rewrite Ha, Hb, !app_assoc. auto.
Qed.

Lemma nth_error_upd_nth_same_eq {A} (l : list A) i x : nth_error l i = Some x -> l = upd_nth i x l.
Proof. revert i; induction l as [|h t IH]; intros [|j] H; cbn in *; try discriminate; [congruence|f_equal; auto]. Qed.

Lemma mark_same m c v : mark m c v c = v.
Proof. unfold mark. now rewrite N.eqb_refl. Qed.
Lemma mark_other m c v k : k <> c -> mark m c v k = m k.
Proof. unfold mark. intros H. destruct (N.eqb_spec k c); congruence. Qed.

Lemma skip_noops_shape o h :
  skip_noops o h = [] \/ (exists r, skip_noops o h = OpGen :: r) \/
  (exists r x xs, skip_noops o h = OpRel :: r /\ h = x :: xs).
Proof.
  induction o as [|op r IH]; cbn; auto.
  destruct op; [right; left; eauto|].
  destruct h as [|x xs]; [exact IH|]. right; right; eauto.
Qed.

Section P.
  Variable MaxAttempts : nat.
  Variable pre : markers.      (* markers present before anything runs: ids already taken *)

  Definition Inv (s : markers * list gen) : Prop :=
    let m := fst s in let live := all_held (snd s) in
    NoDup live /\                                        (* no id is held twice *)
    (forall i, In i live -> m i = true) /\               (* every live id is marked in the store *)
    (forall i, m i = true -> pre i = true \/ In i live) /\  (* no marker without an owner: nothing leaks *)
    (forall i, pre i = true -> m i = true /\ ~ In i live).  (* a taken id stays taken and is never handed out *)

  (* what one step does to a caller's held list *)
  Lemma gstep_held g m g' m' : gstep MaxAttempts g m = (g', m') ->
    (held g' = held g /\ m' = m) \/
    (exists c, held g' = c :: held g /\ m c = false /\ m' = mark m c true) \/
    (exists h, held g = h :: held g' /\ m' = mark m h false).
  Proof.
    unfold gstep. destruct (skip_noops_shape (ops g) (held g)) as [E|[(r & E)|(r & x & xs & E & Eh)]]; rewrite E.
    - intros H; inversion H; auto.
    - destruct (cands g) as [|c cs]; [intros H; inversion H; cbn; auto|].
      destruct (next_fault g) as [f fs].
      destruct (negb f && negb (m c)) eqn:Ec.
      + intros H; inversion H; subst; cbn. right; left. exists c. repeat split.
        apply andb_prop in Ec. destruct Ec as [_ Ec]. now apply negb_true_iff in Ec.
      + destruct (tries g) as [|[|t]]; intros H; inversion H; cbn; auto.
    - rewrite Eh. intros H; inversion H; subst; cbn. right; right. exists x. auto.
  Qed.

  Lemma inv_step s i : Inv s -> Inv (sys_step _ _ (gstep MaxAttempts) s i).
  Proof.
    destruct s as [m ls]. unfold Inv, sys_step. cbn [fst snd].
    intros (Hnd & Hmk & Hown & Hpre).
    destruct (nth_error ls i) as [g|] eqn:E; [|cbn; auto].
    destruct (gstep MaxAttempts g m) as [g' m'] eqn:Es. cbn [fst snd].
    destruct (flat_map_upd_nth held ls i g g' E) as (a & b & Ha & Hb).
    unfold all_held in *. rewrite Hb. rewrite Ha in Hnd, Hmk, Hown, Hpre.
    destruct (gstep_held g m g' m' Es) as [[Hh ->]|[(c & Hh & Hc & ->)|(h & Hh & ->)]].
    - rewrite Hh. auto.
    - rewrite Hh.
      assert (Hnc : ~ In c (a ++ held g ++ b)) by (intros Hin; apply Hmk in Hin; congruence).
      assert (Hnp : pre c = false).
      { destruct (pre c) eqn:Ep; [|reflexivity]. destruct (Hpre c Ep) as [Hx _]. congruence. }
      split; [|split; [|split]].
      + apply NoDup_Add with (a := c) (l := a ++ held g ++ b); [|split; assumption].
        change (c :: held g) with ([c] ++ held g). rewrite <- app_assoc. apply Add_app.
      + intros k Hk. destruct (N.eq_dec k c) as [->|Hne]; [apply mark_same|].
        rewrite mark_other by exact Hne. apply Hmk.
        apply in_app_or in Hk. apply in_or_app. destruct Hk as [Hk|Hk]; [left; exact Hk|right].
        cbn in Hk. destruct Hk as [Hk|Hk]; [congruence|exact Hk].
      + intros k Hk. destruct (N.eq_dec k c) as [->|Hne].
        * right. apply in_or_app. right. cbn. left. reflexivity.
        * rewrite mark_other in Hk by exact Hne. destruct (Hown k Hk) as [Hp|Hin]; [left; exact Hp|right].
          apply in_app_or in Hin. apply in_or_app. destruct Hin as [Hin|Hin]; [left; exact Hin|right; cbn; right; exact Hin].
      + intros k Hk. destruct (Hpre k Hk) as [Hm Hn].
        assert (Hne : k <> c) by congruence.
        split; [rewrite mark_other by exact Hne; exact Hm|].
        intros Hin. apply Hn. apply in_app_or in Hin. apply in_or_app.
        destruct Hin as [Hin|Hin]; [left; exact Hin|right]. cbn in Hin. destruct Hin as [Hin|Hin]; [congruence|exact Hin].
    - rewrite Hh in Hnd, Hmk, Hown, Hpre.
      assert (Hnd' : NoDup (a ++ held g' ++ b) /\ ~ In h (a ++ held g' ++ b)).
      { apply NoDup_remove in Hnd. exact Hnd. }
      destruct Hnd' as [Hnd' Hnh].
      assert (Hinh : In h (a ++ (h :: held g') ++ b)) by (apply in_or_app; right; cbn; auto).
      assert (Hph : pre h = false).
      { destruct (pre h) eqn:Ep; [|reflexivity]. destruct (Hpre h Ep) as [_ Hx]. contradiction. }
      assert (Hsub : forall k, In k (a ++ held g' ++ b) -> In k (a ++ (h :: held g') ++ b)).
      { intros k Hk. apply in_app_or in Hk. apply in_or_app. destruct Hk as [Hk|Hk]; [left; exact Hk|right; cbn; right; exact Hk]. }
      split; [|split; [|split]].
      + exact Hnd'.
      + intros k Hk. assert (Hne : k <> h) by (intros ->; contradiction).
        rewrite mark_other by exact Hne. apply Hmk, Hsub, Hk.
      + intros k Hk. destruct (N.eq_dec k h) as [->|Hne]; [rewrite mark_same in Hk; discriminate|].
        rewrite mark_other in Hk by exact Hne. destruct (Hown k Hk) as [Hp|Hin]; [left; exact Hp|right].
        apply in_app_or in Hin. apply in_or_app. destruct Hin as [Hin|Hin]; [left; exact Hin|right].
        cbn in Hin. destruct Hin as [Hin|Hin]; [congruence|exact Hin].
      + intros k Hk. destruct (Hpre k Hk) as [Hm Hn].
        assert (Hne : k <> h) by congruence.
        split; [rewrite mark_other by exact Hne; exact Hm|].
        intros Hin. apply Hn, Hsub, Hin.
  Qed.

  Lemma inv_init ts : (forall g, In g ts -> held g = []) -> Inv (pre, ts).
  Proof.
    intros Hh. assert (E : all_held ts = []).
    { unfold all_held. induction ts as [|g t IH]; cbn; [reflexivity|].
      rewrite (Hh g (or_introl eq_refl)). cbn. apply IH. intros g' Hg. apply Hh. now right. }
    unfold Inv. cbn [fst snd]. rewrite E. split; [constructor|split; [intros i []|split; [auto|intros i Hi; split; [exact Hi|intros []]]]].
  Qed.

  (* the theorem: for ANY number of callers, ANY candidate streams and fault patterns, ANY schedule *)
  Theorem unique_live_all_schedules ts sched :
    (forall g, In g ts -> held g = []) -> Inv (grun MaxAttempts pre ts sched).
  Proof.
    intros Hh. unfold grun. apply inv_all_schedules; [intros s i; apply inv_step|apply inv_init; exact Hh].
  Qed.
End P.

(* the fallback branch with two generator INSTANCES (each has its own mutex) hands out one id twice *)
Lemma fallback_two_instances_refuted :
  exists sched,
    let s := run _ _ fstep ({| f_marks := fun _ => false; f_locks := fun _ => false |},
                            [ {| f_inst := 0; f_cand := 7%N; f_faults := []; f_pc := FIdle |};
                              {| f_inst := 1; f_cand := 7%N; f_faults := []; f_pc := FIdle |} ]) sched in
    map f_pc (snd s) = [FDone 7%N; FDone 7%N].
Proof. exists [0; 1; 0; 1]. vm_compute. reflexivity. Qed.

(* one instance, but a failing Exists treated as "not taken": the second caller is handed the live id *)
Lemma fallback_lenient_exists_refuted :
  exists sched,
    let s := run _ _ fstep_lenient ({| f_marks := fun _ => false; f_locks := fun _ => false |},
                            [ {| f_inst := 0; f_cand := 7%N; f_faults := []; f_pc := FIdle |};
                              {| f_inst := 0; f_cand := 7%N; f_faults := [true]; f_pc := FIdle |} ]) sched in
    map f_pc (snd s) = [FDone 7%N; FDone 7%N].
Proof. exists [0; 0; 1; 1]. vm_compute. reflexivity. Qed.

Example gen_premises : (forall g, In g [init_gen 100 [OpGen; OpRel; OpGen] [5;5;6]%N []; init_gen 100 [OpGen] [5;6]%N [true]] -> held g = []).
Proof. intros g [<-|[<-|[]]]; reflexivity. Qed.

(* ---- the fallback inside ONE generator instance: check-then-set under that instance's mutex is safe
   for every schedule (what the "fallback" mode of the harness exercises on the real code) ---- *)
Definition f_checked (g : fgen) : list id := match f_pc g with FChecked c => [c] | _ => [] end.
Definition f_done (g : fgen) : list id := match f_pc g with FDone c => [c] | _ => [] end.

Definition FInv (s : fshared * list fgen) : Prop :=
  let sh := fst s in let ts := snd s in
  (forall g, In g ts -> f_inst g = 0) /\
  (length (flat_map f_checked ts) <= 1) /\
  (f_locks sh 0 = false -> flat_map f_checked ts = []) /\
  (forall c, In c (flat_map f_checked ts) -> f_marks sh c = false) /\
  (forall c, In c (flat_map f_done ts) -> f_marks sh c = true) /\
  NoDup (flat_map f_done ts).

Lemma in_upd_nth {A} (l : list A) i x y : In y (upd_nth i x l) -> y = x \/ In y l.
Proof.
  revert i; induction l as [|h t IH]; intros [|j] H; cbn in *; auto.
  - destruct H as [H|H]; auto.
  - destruct H as [H|H]; auto. destruct (IH j H); auto.
Qed.

Lemma finv_upd (sh sh' : fshared) ts i g g' :
  nth_error ts i = Some g -> f_inst g = 0 -> f_inst g' = 0 ->
  (forall x, In x ts -> f_inst x = 0) ->
  forall x, In x (upd_nth i g' ts) -> f_inst x = 0.
Proof. intros E Hg Hg' Hall x Hx. apply in_upd_nth in Hx. destruct Hx as [->|Hx]; auto. Qed.

Lemma finv_step s i : FInv s -> FInv (sys_step _ _ fstep s i).
Proof.
  destruct s as [sh ts]. unfold FInv, sys_step. cbn [fst snd].
  intros (Hinst & Hlen & Hfree & Hchk & Hdone & Hnd).
  destruct (nth_error ts i) as [g|] eqn:E; [|cbn; auto 10].
  assert (Hg0 : f_inst g = 0) by (apply Hinst; eapply nth_error_In; eauto).
  destruct (fstep g sh) as [g' sh'] eqn:Es. cbn [fst snd].
  destruct (flat_map_upd_nth f_checked ts i g g' E) as (a & b & Ha & Hb).
  destruct (flat_map_upd_nth f_done ts i g g' E) as (a' & b' & Ha' & Hb').
  rewrite Hb, Hb'. rewrite Ha in Hlen, Hfree, Hchk. rewrite Ha' in Hdone, Hnd.
  unfold fstep, fstep_gen in Es. destruct (f_pc g) eqn:Epc.
  - (* FIdle *)
    assert (Hcg : f_checked g = []) by (unfold f_checked; now rewrite Epc).
    assert (Hdg : f_done g = []) by (unfold f_done; now rewrite Epc).
    rewrite Hcg in Hlen, Hfree, Hchk. rewrite Hdg in Hdone, Hnd. cbn [app] in *.
    rewrite Hg0 in Es. destruct (f_locks sh 0) eqn:Elk.
    { inversion Es; subst g' sh'. rewrite Hcg, Hdg, Elk. cbn [app].
      split; [eapply finv_upd; eauto|]. auto 10. }
    specialize (Hfree eq_refl). apply app_eq_nil in Hfree. destruct Hfree as [-> ->].
    destruct (f_next_fault g) as [f fs]. destruct f; cbn [andb negb] in Es.
    { inversion Es; subst g' sh'; cbn [f_marks f_locks f_inst].
      split; [eapply finv_upd; eauto|]. cbn. rewrite Elk. auto 10. }
    destruct (f_marks sh (f_cand g)) eqn:Em; inversion Es; subst g' sh'; cbn [f_marks f_locks f_inst].
    + split; [eapply finv_upd; eauto|]. cbn. rewrite Elk. auto 10.
    + split; [eapply finv_upd; eauto|]. cbn.
      split; [lia|]. split; [discriminate|]. split; [intros c [<-|[]]; exact Em|]. split; assumption.
  - (* FChecked c: write the marker, release the lock *)
    assert (Hcg : f_checked g = [c]) by (unfold f_checked; now rewrite Epc).
    assert (Hdg : f_done g = []) by (unfold f_done; now rewrite Epc).
    rewrite Hcg in Hlen, Hfree, Hchk. rewrite Hdg in Hdone, Hnd. cbn [app] in *.
    assert (Hab : a = [] /\ b = []).
    { rewrite app_length in Hlen. cbn in Hlen. destruct a, b; cbn in Hlen; try lia. auto. }
    destruct Hab as [-> ->].
    assert (Hmc : f_marks sh c = false) by (apply Hchk; cbn; auto).
    assert (Hnc : ~ In c (a' ++ b')) by (intros Hin; apply Hdone in Hin; congruence).
    destruct (f_next_fault g) as [f fs]. destruct f.
    { (* the Set call failed: nothing written, nothing handed out, lock released *)
      inversion Es; subst g' sh'; cbn [f_marks f_locks f_inst].
      split; [eapply finv_upd; eauto|]. cbn.
      split; [lia|]. split; [reflexivity|]. split; [intros c' []|]. split; assumption. }
    inversion Es; subst g' sh'; cbn [f_marks f_locks f_inst].
    split; [eapply finv_upd; eauto|]. cbn.
    split; [lia|]. split; [reflexivity|]. split; [intros c' []|].
    split.
    + intros c' Hc'. destruct (N.eq_dec c' c) as [->|Hne]; [apply mark_same|].
      rewrite mark_other by exact Hne. apply Hdone.
      apply in_app_or in Hc'. destruct Hc' as [Hc'|[Hc'|Hc']]; [apply in_or_app; auto|congruence|apply in_or_app; auto].
    + apply NoDup_Add with (a := c) (l := a' ++ b'); [apply Add_app|split; assumption].
  - inversion Es; subst g' sh'. split; [eapply finv_upd; eauto|]. auto 10.
  - inversion Es; subst g' sh'. split; [eapply finv_upd; eauto|]. auto 10.
  - inversion Es; subst g' sh'. split; [eapply finv_upd; eauto|]. auto 10.
Qed.

Theorem fallback_one_instance_unique (cands : list (id * list bool)) sched :
  let s := run _ _ fstep ({| f_marks := fun _ => false; f_locks := fun _ => false |},
                          map (fun c => {| f_inst := 0; f_cand := fst c; f_faults := snd c; f_pc := FIdle |}) cands) sched in
  NoDup (flat_map f_done (snd s)).
Proof.
  intros s. assert (H : FInv s).
  { subst s. apply inv_all_schedules; [intros s i; apply finv_step|].
    unfold FInv. cbn [fst snd].
    assert (E1 : flat_map f_checked (map (fun c => {| f_inst := 0; f_cand := fst c; f_faults := snd c; f_pc := FIdle |}) cands) = []).
    { induction cands; cbn; auto. }
    assert (E2 : flat_map f_done (map (fun c => {| f_inst := 0; f_cand := fst c; f_faults := snd c; f_pc := FIdle |}) cands) = []).
    { induction cands; cbn; auto. }
    rewrite E1, E2. cbn.
    split; [intros g Hg; apply in_map_iff in Hg; destruct Hg as (c & <- & _); reflexivity|].
    split; [lia|]. split; [auto|]. split; [intros c []|]. split; [intros c []|constructor]. }
  destruct H as (_ & _ & _ & _ & _ & H). exact H.
Qed.

(* ---- UUID generators: whatever draws fail, the ids handed out are distinct as long as the successful draws are ---- *)
Lemma ugen_in n : forall draws x, In x (ugen false n draws) -> In x (somes draws).
Proof.
  induction n as [|k IH]; intros draws x H; [destruct H|].
  destruct draws as [|[d|] r]; cbn [ugen] in H; [destruct H| |].
  - destruct H as [<-|H]; [left; reflexivity|right; apply IH, H].
  - destruct r as [|[d|] r']; [destruct H| |destruct H].
    cbn [somes flat_map app]. destruct H as [<-|H]; [left; reflexivity|right; apply IH, H].
Qed.

Theorem ugen_unique n : forall draws, NoDup (somes draws) -> NoDup (ugen false n draws).
Proof.
  induction n as [|k IH]; intros draws Hnd; [constructor|].
  destruct draws as [|[d|] r]; cbn [ugen]; [constructor| |].
  - cbn [somes flat_map app] in Hnd. inversion Hnd as [|? ? Hnin Hnd']; subst.
    constructor; [intros Hin; apply Hnin, (ugen_in k r d Hin)|apply IH, Hnd'].
  - destruct r as [|[d|] r']; [constructor| |constructor].
    cbn [somes flat_map app] in Hnd. inversion Hnd as [|? ? Hnin Hnd']; subst.
    constructor; [intros Hin; apply Hnin, (ugen_in k r' d Hin)|apply IH, Hnd'].
Qed.

Lemma ugen_shadow_refuted : exists draws, NoDup (somes draws) /\ ~ NoDup (ugen true 2 draws).
Proof.
  exists [None; Some 5%N; None; Some 6%N]. split.
  - cbn. constructor; [intros [H|[]]; discriminate|constructor; [intros []|constructor]].
  - cbn. intros H. inversion H as [|? ? Hnin _]; subst. apply Hnin. left; reflexivity.
Qed.

(* ---- node-id lease: with a heartbeat every p <= ttl seconds the slot marker never lapses while the holder lives ---- *)
Lemma lease_inv p n : 0 < p -> let s := lease true p n in snd s <= fst s /\ fst s - snd s < p.
Proof.
  intros Hp. induction n as [|k IH]; cbn [lease]; [cbn; lia|].
  destruct (lease true p k) as [now last]. cbn [fst snd] in *. destruct IH as [H1 H2].
  cbn [andb]. destruct (Nat.eqb_spec (S now - last) p) as [E|E]; cbn [fst snd]; lia.
Qed.

Theorem lease_never_lapses p ttl n : 0 < p -> p <= ttl -> marker_live ttl (lease true p n) = true.
Proof.
  intros Hp Hle. pose proof (lease_inv p n Hp) as [H1 H2]. unfold marker_live.
  apply Nat.ltb_lt. lia.
Qed.

Lemma lease_without_heartbeat_lapses ttl : marker_live ttl (lease false 30 ttl) = false.
Proof.
  assert (H : forall n, lease false 30 n = (n, 0)).
  { induction n as [|k IH]; [reflexivity|]. cbn [lease]. rewrite IH. reflexivity. }
  rewrite H. unfold marker_live. cbn [fst snd]. apply Nat.ltb_ge. lia.
Qed.

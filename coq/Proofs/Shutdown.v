(* Proofs/Shutdown.v — C16: invariants of the close protocols for every schedule and any number of threads *)
From TX Require Import Model.Shutdown.
From Coq Require Import Lia ZArith.

(* ---------------- generic list facts ---------------- *)
Lemma fm_upd {A B} (f : A -> list B) : forall (l : list A) i x x',
  nth_error l i = Some x ->
  exists a b, flat_map f l = a ++ f x ++ b /\ flat_map f (upd_nth i x' l) = a ++ f x' ++ b.
Proof.
  induction l as [|h t IH]; intros [|j] x x' H; cbn in *; try discriminate.
  - inversion H; subst. exists [], (flat_map f t). cbn. auto.
  - destruct (IH j x x' H) as (a & b & Ha & Hb).
    exists (f h ++ a), b. rewrite Ha, Hb, !app_assoc. auto.
Qed.

Lemma fm_upd2 {A B} (f : A -> list B) : forall (l : list A) i x,
  nth_error l i = Some x ->
  exists a b, flat_map f l = a ++ f x ++ b /\ forall x', flat_map f (upd_nth i x' l) = a ++ f x' ++ b.
Proof.
  induction l as [|h t IH]; intros [|j] x H; cbn in *; try discriminate.
  - inversion H; subst. exists [], (flat_map f t). cbn. auto.
  - destruct (IH j x H) as (a & b & Ha & Hb).
    exists (f h ++ a), b. rewrite Ha. split; [rewrite !app_assoc; reflexivity|].
    intros x'. rewrite Hb, !app_assoc. reflexivity.
Qed.

Lemma Forall_upd {A} (P : A -> Prop) : forall l i x', Forall P l -> P x' -> Forall P (upd_nth i x' l).
Proof.
  induction l as [|h t IH]; intros [|j] x' Hl Hx; cbn; auto.
  - inversion Hl; subst. constructor; assumption.
  - inversion Hl; subst. constructor; [assumption|]. apply IH; assumption.
Qed.

Lemma Forall_nth {A} (P : A -> Prop) l i x : Forall P l -> nth_error l i = Some x -> P x.
Proof. intros Hl Hn. rewrite Forall_forall in Hl. apply Hl. eapply nth_error_In; eauto. Qed.

Lemma upd_nth_same {A} : forall (l : list A) i x, nth_error l i = Some x -> upd_nth i x l = l.
Proof.
  induction l as [|h t IH]; intros [|j] x H; cbn in *; try discriminate; auto.
  - inversion H; reflexivity.
  - f_equal. apply IH; assumption.
Qed.

Lemma app_single {A} (a b : list A) x y : a ++ x :: b = [y] -> a = [] /\ b = [] /\ x = y.
Proof.
  destruct a as [|a0 a]; cbn; intros H.
  - inversion H; subst. auto.
  - inversion H as [[H0 H1]]. destruct a; discriminate.
Qed.

Lemma app_nil3 {A} (a m b : list A) : a ++ m ++ b = [] -> a = [] /\ m = [] /\ b = [].
Proof.
  intros H. apply app_eq_nil in H. destruct H as [Ha H]. apply app_eq_nil in H. destruct H; auto.
Qed.

Lemma app_mid_nil {A} (a : list A) x b : a ++ x :: b = [] -> False.
Proof. destruct a; discriminate. Qed.

Lemma fm_nonempty {A B} (f : A -> list B) : forall l, flat_map f l <> [] -> exists x, In x l /\ f x <> [].
Proof.
  induction l as [|h t IH]; cbn; intros H; [congruence|].
  destruct (f h) eqn:E.
  - cbn in H. destruct (IH H) as (x & Hx & Hf). exists x; auto.
  - exists h. split; [auto|congruence].
Qed.

(* ================================================================================================ *)
(* A. Dispose                                                                                        *)
(* ================================================================================================ *)
Definition dhold (t : dpc) : list dpc := match t with DSnap | DRun _ _ => [t] | _ => [] end.
Definition not_ddone (t : dpc) : Prop := match t with DDone _ _ => False | _ => True end.

Section DisposeProof.
  Variable hs0 : list hnd.          (* the handlers registered before anything runs *)

  Definition ext_of (sh : dsh) : Prop := exists mid, d_handlers sh = hs0 ++ mid.

  Definition phase0 (sh : dsh) (ls : list dpc) : Prop :=
    d_closed sh = false /\ d_lock sh = false /\ d_runlog sh = [] /\ d_errors sh = [] /\ d_snap sh = None /\
    flat_map dhold ls = [] /\ Forall not_ddone ls.

  Definition holder_ok (sh : dsh) (h : dpc) : Prop :=
    match h with
    | DSnap => d_runlog sh = [] /\ d_errors sh = [] /\ d_snap sh = None
    | DRun todo res => exists sn done, d_snap sh = Some sn /\ ix sn = done ++ todo /\ d_runlog sh = ids done /\
                        d_errors sh = fidx done /\ res = d_errors sh /\ (exists ext, d_handlers sh = sn ++ ext) /\
                        (exists mid, sn = hs0 ++ mid)
    | _ => False
    end.

  Definition phase1 (sh : dsh) (ls : list dpc) : Prop :=
    d_closed sh = true /\ d_lock sh = true /\ Forall not_ddone ls /\
    exists h, flat_map dhold ls = [h] /\ holder_ok sh h.

  Definition phase2 (sh : dsh) (ls : list dpc) : Prop :=
    d_closed sh = true /\ d_lock sh = false /\ flat_map dhold ls = [] /\
    exists sn, d_snap sh = Some sn /\ d_runlog sh = ids (ix sn) /\ d_errors sh = fidx (ix sn) /\
               (exists ext, d_handlers sh = sn ++ ext) /\ (exists mid, sn = hs0 ++ mid) /\
               Forall (fun t => forall r a, t = DDone r a -> r = d_errors sh) ls.

  Definition DInv (s : dsh * list dpc) : Prop :=
    ext_of (fst s) /\ (phase0 (fst s) (snd s) \/ phase1 (fst s) (snd s) \/ phase2 (fst s) (snd s)).

  Lemma ids_app a b : ids (a ++ b) = ids a ++ ids b.
  Proof. unfold ids. apply map_app. Qed.
  Lemma fidx_app a b : fidx (a ++ b) = fidx a ++ fidx b.
  Proof. unfold fidx. rewrite filter_app. apply map_app. Qed.

  Lemma dinv_step s i : DInv s -> DInv (sys_step _ _ dstep s i).
  Proof.
    destruct s as [sh ls]. unfold DInv, sys_step. cbn [fst snd]. intros [Hext Hph].
    destruct (nth_error ls i) as [x|] eqn:En; [|cbn [fst snd]; auto].
    destruct x as [| |todo res|res act|h|].
    - (* DStart *)
      cbn [dstep]. destruct (d_lock sh) eqn:El.
      + cbn [fst snd]. rewrite (upd_nth_same ls i DStart En). auto.
      + destruct (d_closed sh) eqn:Ec; cbn [fst snd].
        * (* already closed: phase 2 *)
          split; [exact Hext|]. right; right.
          destruct Hph as [H0|[H1|H2]].
          { destruct H0 as (Hc & _). congruence. }
          { destruct H1 as (_ & Hl & _). congruence. }
          destruct H2 as (Hc & Hl & Hh & sn & Hs & Hr & He & Hx & Hm & Hd).
          destruct (fm_upd dhold ls i DStart (DDone (d_errors sh) false) En) as (a & b & Ha & Hb).
          unfold phase2. split; [exact Hc|]. split; [exact Hl|]. split.
          { rewrite Hb. rewrite Ha in Hh. cbn in *. exact Hh. }
          exists sn. repeat (split; [assumption|]).
          apply Forall_upd; [exact Hd|]. intros r a0 E. inversion E; reflexivity.
        * (* the winner *)
          split; [exact Hext|]. right; left.
          destruct Hph as [H0|[H1|H2]].
          2:{ destruct H1 as (Hc & _). congruence. }
          2:{ destruct H2 as (Hc & _). congruence. }
          destruct H0 as (_ & _ & Hr & He & Hs & Hh & Hd).
          destruct (fm_upd dhold ls i DStart DSnap En) as (a & b & Ha & Hb).
          rewrite Ha in Hh. cbn [dhold] in Hh. apply app_nil3 in Hh. destruct Hh as (-> & _ & ->).
          unfold phase1. cbn. split; [reflexivity|]. split; [reflexivity|]. split.
          { apply Forall_upd; [exact Hd|exact I]. }
          exists DSnap. split; [rewrite Hb; reflexivity|]. cbn. auto.
    - (* DSnap *)
      cbn [dstep fst snd].
      destruct (fm_upd dhold ls i DSnap (DRun (ix (d_handlers sh)) []) En) as (a & b & Ha & Hb).
      destruct Hph as [H0|[H1|H2]].
      { destruct H0 as (_ & _ & _ & _ & _ & Hh & _). rewrite Ha in Hh. cbn in Hh. exfalso; eapply app_mid_nil; exact Hh. }
      2:{ destruct H2 as (_ & _ & Hh & _). rewrite Ha in Hh. cbn in Hh. exfalso; eapply app_mid_nil; exact Hh. }
      destruct H1 as (Hc & Hl & Hd & h & Hh & Hok).
      rewrite Ha in Hh. cbn [dhold app] in Hh. apply app_single in Hh. destruct Hh as (-> & -> & <-).
      cbn in Hok. destruct Hok as (Hr & He & Hs).
      split; [exact Hext|]. right; left. unfold phase1. cbn [d_closed d_lock].
      split; [exact Hc|]. split; [exact Hl|]. split; [apply Forall_upd; [exact Hd|exact I]|].
      exists (DRun (ix (d_handlers sh)) []). split; [rewrite Hb; reflexivity|].
      cbn. exists (d_handlers sh), []. cbn. rewrite Hr, He.
      repeat split; auto. exists []. symmetry; apply app_nil_r.
    - (* DRun *)
      destruct Hph as [H0|[H1|H2]].
      { destruct (fm_upd dhold ls i (DRun todo res) DStart En) as (a & b & Ha & _).
        destruct H0 as (_ & _ & _ & _ & _ & Hh & _). rewrite Ha in Hh. cbn in Hh. exfalso; eapply app_mid_nil; exact Hh. }
      2:{ destruct (fm_upd dhold ls i (DRun todo res) DStart En) as (a & b & Ha & _).
          destruct H2 as (_ & _ & Hh & _). rewrite Ha in Hh. cbn in Hh. exfalso; eapply app_mid_nil; exact Hh. }
      destruct H1 as (Hc & Hl & Hd & h & Hh & Hok).
      destruct todo as [|[k hd] todo]; cbn [dstep fst snd].
      + (* unlock and return *)
        destruct (fm_upd dhold ls i (DRun [] res) (DDone res true) En) as (a & b & Ha & Hb).
        rewrite Ha in Hh. cbn [dhold app] in Hh. apply app_single in Hh. destruct Hh as (-> & -> & <-).
        cbn in Hok. destruct Hok as (sn & done & Hs & Hix & Hr & He & Hres & Hx & Hm).
        rewrite app_nil_r in Hix. subst done.
        split; [exact Hext|]. right; right. unfold phase2. cbn [d_closed d_lock d_snap d_runlog d_errors d_handlers].
        split; [exact Hc|]. split; [reflexivity|]. split; [rewrite Hb; reflexivity|].
        exists sn. repeat (split; [assumption|]).
        apply Forall_upd.
        * eapply Forall_impl; [|exact Hd]. intros t Ht r a0 E. subst t. destruct Ht.
        * intros r a0 E. inversion E. congruence.
      + destruct (fm_upd dhold ls i (DRun ((k, hd) :: todo) res)
                    (DRun todo (if h_fail hd then res ++ [k] else res)) En) as (a & b & Ha & Hb).
        rewrite Ha in Hh. cbn [dhold app] in Hh. apply app_single in Hh. destruct Hh as (-> & -> & <-).
        cbn in Hok. destruct Hok as (sn & done & Hs & Hix & Hr & He & Hres & Hx & Hm).
        split; [exact Hext|]. right; left. unfold phase1. cbn [d_closed d_lock].
        split; [exact Hc|]. split; [exact Hl|]. split; [apply Forall_upd; [exact Hd|exact I]|].
        eexists. split; [rewrite Hb; reflexivity|].
        cbn. exists sn, (done ++ [(k, hd)]). cbn [d_snap d_runlog d_errors d_handlers].
        split; [exact Hs|]. split; [rewrite Hix, <- app_assoc; reflexivity|].
        split; [rewrite ids_app, Hr; reflexivity|].
        split.
        { rewrite fidx_app. unfold fidx at 2. cbn. destruct (h_fail hd); cbn; [rewrite He; reflexivity|rewrite app_nil_r; exact He]. }
        split; [destruct (h_fail hd); rewrite Hres; reflexivity|]. split; assumption.
    - (* DDone *) cbn [dstep fst snd]. rewrite (upd_nth_same ls i _ En). auto.
    - (* AAdd *)
      cbn [dstep fst snd].
      destruct (fm_upd dhold ls i (AAdd h) ADone En) as (a & b & Ha & Hb). cbn [dhold] in Ha, Hb.
      assert (Hfm : flat_map dhold (upd_nth i ADone ls) = flat_map dhold ls) by (rewrite Ha, Hb; reflexivity).
      split.
      { destruct Hext as [mid Hm]. exists (mid ++ [h]). cbn. rewrite Hm, app_assoc. reflexivity. }
      destruct Hph as [H0|[H1|H2]].
      + left. destruct H0 as (Hc & Hl & Hr & He & Hs & Hh & Hd). unfold phase0. cbn.
        repeat (split; [assumption|]). split; [rewrite Hfm; exact Hh|]. apply Forall_upd; [exact Hd|exact I].
      + right; left. destruct H1 as (Hc & Hl & Hd & h' & Hh & Hok). unfold phase1. cbn [d_closed d_lock].
        split; [exact Hc|]. split; [exact Hl|]. split; [apply Forall_upd; [exact Hd|exact I]|].
        exists h'. split; [rewrite Hfm; exact Hh|].
        destruct h'; cbn in *; try exact Hok.
        destruct Hok as (sn & done & Hs & Hix & Hr & He & Hres & [ext Hx] & Hm).
        exists sn, done. repeat (split; [assumption|]). split; [|exact Hm].
        exists (ext ++ [h]). rewrite Hx, app_assoc. reflexivity.
      + right; right. destruct H2 as (Hc & Hl & Hh & sn & Hs & Hr & He & [ext Hx] & Hm & Hd). unfold phase2. cbn.
        split; [exact Hc|]. split; [exact Hl|]. split; [rewrite Hfm; exact Hh|].
        exists sn. repeat (split; [assumption|]). split; [exists (ext ++ [h]); rewrite Hx, app_assoc; reflexivity|].
        split; [exact Hm|]. apply Forall_upd; [exact Hd|]. intros r a0 E; discriminate.
    - (* ADone *) cbn [dstep fst snd]. rewrite (upd_nth_same ls i _ En). auto.
  Qed.

  Lemma dinv_init ts : forallb d_initial ts = true -> DInv (dinit hs0, ts).
  Proof.
    intros Hi. split; [exists []; cbn; symmetry; apply app_nil_r|]. left. unfold phase0. cbn.
    repeat (split; [reflexivity|]).
    rewrite forallb_forall in Hi. split.
    - induction ts as [|t r IH]; cbn; [reflexivity|].
      assert (Ht : d_initial t = true) by (apply Hi; left; reflexivity).
      destruct t; cbn in Ht; try discriminate; cbn; apply IH; intros y Hy; apply Hi; right; exact Hy.
    - rewrite Forall_forall. intros t Ht. apply Hi in Ht. destruct t; cbn in Ht; try discriminate; exact I.
  Qed.

  (* what the invariant says to a user of Dispose *)
  Theorem handlers_once_all_schedules ts sched :
    forallb d_initial ts = true ->
    let s := drun hs0 ts sched in
    (* every handler invocation so far is a distinct position of the registration order, taken in order *)
    (exists sn done rest, ix sn = done ++ rest /\ d_runlog (fst s) = ids done /\ d_errors (fst s) = fidx done /\
                          (exists ext, d_handlers (fst s) = sn ++ ext) /\
                          (d_runlog (fst s) <> [] -> exists mid, sn = hs0 ++ mid)) /\
    (* once any Close has returned: the copied slice is complete and contains every handler registered before the
       first Close; each of its handlers ran exactly once, in order; every returned Close reports the recorded errors *)
    (forall r a, In (DDone r a) (snd s) ->
       d_closed (fst s) = true /\
       exists sn, d_snap (fst s) = Some sn /\ (exists mid, sn = hs0 ++ mid) /\ (exists ext, d_handlers (fst s) = sn ++ ext) /\
                  d_runlog (fst s) = ids (ix sn) /\ d_errors (fst s) = fidx (ix sn) /\ r = fidx (ix sn)).
  Proof.
    intros Hi s.
    assert (HI : DInv s).
    { unfold s, drun. apply inv_all_schedules; [intros s0 i; apply dinv_step|apply dinv_init; exact Hi]. }
    destruct s as [sh ls]. destruct HI as [Hext Hph]. cbn [fst snd] in *.
    destruct Hph as [H0|[H1|H2]].
    - destruct H0 as (Hc & Hl & Hr & He & Hs & Hh & Hd). split.
      + exists [], [], []. cbn. rewrite Hr, He. repeat split; auto. exists (d_handlers sh). reflexivity. congruence.
      + intros r a Hin. rewrite Forall_forall in Hd. apply Hd in Hin. destruct Hin.
    - destruct H1 as (Hc & Hl & Hd & h & Hh & Hok). split.
      + destruct h; cbn in Hok; try contradiction.
        * destruct Hok as (Hr & He & Hs). exists [], [], []. cbn. rewrite Hr, He. repeat split; auto.
          exists (d_handlers sh). reflexivity. congruence.
        * destruct Hok as (sn & done & Hs & Hix & Hr & He & Hres & Hx & Hm).
          exists sn, done, todo. repeat split; auto.
      + intros r a Hin. rewrite Forall_forall in Hd. apply Hd in Hin. destruct Hin.
    - destruct H2 as (Hc & Hl & Hh & sn & Hs & Hr & He & Hx & Hm & Hd). split.
      + exists sn, (ix sn), []. rewrite app_nil_r. repeat split; auto.
      + intros r a Hin. split; [exact Hc|]. exists sn. repeat (split; [assumption|]).
        rewrite Forall_forall in Hd. rewrite <- He. eapply Hd; [exact Hin|reflexivity].
  Qed.
End DisposeProof.

(* ================================================================================================ *)
(* B. Tunnel.Close (repaired code: CAS loop)                                                         *)
(* ================================================================================================ *)
Definition twin (t : tth) : list (bool * list tact) := match t_pc t with TBody r => [(t_notify t, r)] | _ => [] end.

Definition tth_ok (sh : tsh) (t : tth) : Prop :=
  match t_pc t with
  | TCas c => c < 2
  | TStore => False
  | TRet _ => 2 <= t_state sh
  | _ => True
  end.

Definition TInv (s : tsh * list tth) : Prop :=
  let sh := fst s in let ls := snd s in
  Forall (tth_ok sh) ls /\
  ( (t_state sh < 2 /\ flat_map twin ls = [] /\ t_trace sh = [])
  \/ (t_state sh = 2 /\ exists b r done, flat_map twin ls = [(b, r)] /\ body b = done ++ r /\ t_trace sh = done)
  \/ (t_state sh = 3 /\ flat_map twin ls = [] /\ exists b, t_trace sh = body b) ).

Lemma tth_ok_mono sh sh' t : t_state sh <= t_state sh' -> tth_ok sh t -> tth_ok sh' t.
Proof. unfold tth_ok. destruct (t_pc t); auto. lia. Qed.

Lemma tinv_step s i : TInv s -> TInv (sys_step _ _ (tstep true) s i).
Proof.
  destruct s as [sh ls]. unfold TInv, sys_step. cbn [fst snd]. intros [Hok Hph].
  destruct (nth_error ls i) as [x|] eqn:En; [|cbn [fst snd]; auto].
  assert (Hx : tth_ok sh x) by (eapply Forall_nth; eauto).
  destruct x as [nf pc]. unfold tstep, with_pc. cbn [t_pc t_notify].
  destruct pc as [|cur| |rest|won| |ok].
  - (* TLoad *)
    destruct ((t_state sh =? 2) || (t_state sh =? 3)) eqn:Eb; cbn [fst snd].
    + destruct (fm_upd twin ls i _ {| t_notify := nf; t_pc := TRet false |} En) as (a & b & Ha & Hb).
      cbn [twin t_pc] in Ha, Hb. split.
      * apply Forall_upd; [exact Hok|]. unfold tth_ok; cbn.
        apply orb_true_iff in Eb. destruct Eb as [E|E]; apply Nat.eqb_eq in E; lia.
      * rewrite Hb, <- Ha. exact Hph.
    + destruct (fm_upd twin ls i _ {| t_notify := nf; t_pc := TCas (t_state sh) |} En) as (a & b & Ha & Hb).
      cbn [twin t_pc] in Ha, Hb. split.
      * apply Forall_upd; [exact Hok|]. unfold tth_ok; cbn.
        apply orb_false_iff in Eb. destruct Eb as [E2 E3]. apply Nat.eqb_neq in E2, E3.
        destruct Hph as [(H & _)|[(H & _)|(H & _)]]; lia.
      * rewrite Hb, <- Ha. exact Hph.
  - (* TCas *)
    unfold tth_ok in Hx; cbn in Hx.
    destruct (t_state sh =? cur) eqn:Ec; cbn [fst snd].
    + apply Nat.eqb_eq in Ec.
      destruct (fm_upd twin ls i _ {| t_notify := nf; t_pc := TBody (body nf) |} En) as (a & b & Ha & Hb).
      cbn [twin t_pc t_notify] in Ha, Hb.
      destruct Hph as [(H & Hw & Ht)|[(H & _)|(H & _)]]; try lia.
      rewrite Ha in Hw. apply app_nil3 in Hw. destruct Hw as (-> & _ & ->).
      split.
      * apply Forall_upd; [|exact I].
        eapply Forall_impl; [|exact Hok]. intros t. apply tth_ok_mono. cbn. lia.
      * right; left. cbn [t_state t_trace]. split; [reflexivity|].
        exists nf, (body nf), []. rewrite Hb. cbn [app]. repeat split; auto.
    + destruct (fm_upd twin ls i _ {| t_notify := nf; t_pc := TLoad |} En) as (a & b & Ha & Hb).
      cbn [twin t_pc] in Ha, Hb. split.
      * apply Forall_upd; [exact Hok|exact I].
      * rewrite Hb, <- Ha. exact Hph.
  - (* TStore: unreachable in the repaired code *) destruct Hx.
  - (* TBody *)
    destruct (fm_upd2 twin ls i _ En) as (a & b & Ha & Hupd).
    cbn [twin t_pc t_notify] in Ha.
    destruct Hph as [(_ & Hw & _)|[(H & bb & r & done & Hw & Hbody & Ht)|(_ & Hw & _)]].
    { rewrite Ha in Hw. exfalso; eapply app_mid_nil; exact Hw. }
    2:{ rewrite Ha in Hw. exfalso; eapply app_mid_nil; exact Hw. }
    rewrite Ha in Hw. cbn [app] in Hw. apply app_single in Hw. destruct Hw as (-> & -> & Hw). inversion Hw; subst bb r. clear Hw.
    destruct rest as [|act rest]; cbn [fst snd].
    + split.
      * apply Forall_upd.
        { eapply Forall_impl; [|exact Hok]. intros t. apply tth_ok_mono. cbn. lia. }
        unfold tth_ok; cbn. lia.
      * right; right. cbn [t_state t_trace]. split; [reflexivity|]. split; [rewrite Hupd; reflexivity|].
        exists nf. rewrite Hbody, app_nil_r. exact Ht.
    + split.
      * apply Forall_upd; [|exact I].
        eapply Forall_impl; [|exact Hok]. intros t. apply tth_ok_mono. cbn. lia.
      * right; left. cbn [t_state t_trace]. split; [exact H|].
        exists nf, rest, (done ++ [act]). rewrite Hupd. cbn [twin t_pc t_notify app].
        split; [reflexivity|]. split; [rewrite Hbody, <- app_assoc; reflexivity|rewrite Ht; reflexivity].
  - (* TRet *) cbn [fst snd]. rewrite (upd_nth_same ls i _ En). auto.
  - (* TStartCas *)
    destruct (t_state sh =? 0) eqn:E0; cbn [fst snd].
    + apply Nat.eqb_eq in E0.
      destruct (fm_upd twin ls i _ {| t_notify := nf; t_pc := TStartRet true |} En) as (a & b & Ha & Hb).
      cbn [twin t_pc] in Ha, Hb. split.
      * apply Forall_upd; [|exact I].
        eapply Forall_impl; [|exact Hok]. intros t. apply tth_ok_mono. cbn. lia.
      * destruct Hph as [(H & Hw & Ht)|[(H & _)|(H & _)]]; try lia.
        left. cbn [t_state t_trace]. split; [lia|]. split; [rewrite Hb, <- Ha; exact Hw|exact Ht].
    + destruct (fm_upd twin ls i _ {| t_notify := nf; t_pc := TStartRet false |} En) as (a & b & Ha & Hb).
      cbn [twin t_pc] in Ha, Hb. split.
      * apply Forall_upd; [exact Hok|exact I].
      * rewrite Hb, <- Ha. exact Hph.
  - (* TStartRet *) cbn [fst snd]. rewrite (upd_nth_same ls i _ En). auto.
Qed.

Lemma tinv_init st0 ts : st0 < 2 -> forallb t_initial ts = true -> TInv ({| t_state := st0; t_trace := [] |}, ts).
Proof.
  intros Hs Hi. rewrite forallb_forall in Hi. unfold TInv. cbn [fst snd t_state t_trace]. split.
  - rewrite Forall_forall. intros t Ht. apply Hi in Ht. unfold t_initial in Ht. unfold tth_ok. destruct (t_pc t); try discriminate; exact I.
  - left. split; [exact Hs|]. split; [|reflexivity].
    induction ts as [|t r IH]; cbn; [reflexivity|].
    assert (Ht : t_initial t = true) by (apply Hi; left; reflexivity).
    unfold twin. unfold t_initial in Ht. destruct (t_pc t); try discriminate; cbn; apply IH; intros y Hy; apply Hi; right; exact Hy.
Qed.

Lemma tcount_app a x y : tcount a (x ++ y) = tcount a x + tcount a y.
Proof. unfold tcount. rewrite filter_app, app_length. reflexivity. Qed.

Lemma body_counts b : tcount ADispose (body b) = 1 /\ tcount ACloseLocal (body b) = 1 /\ tcount ACloseRWC (body b) = 1 /\
  tcount ANotify (body b) = (if b then 1 else 0) /\ tcount AUnreg (body b) = 1 /\ tcount ACallback (body b) = 1.
Proof. destruct b; vm_compute; repeat split; reflexivity. Qed.

(* the theorem: ANY number of concurrent closers (and Start calls), ANY reasons, ANY schedule *)
Theorem tunnel_close_once_all_schedules st0 ts sched :
  st0 < 2 -> forallb t_initial ts = true ->
  let s := trun true st0 ts sched in
  (* the actions performed so far are an initial segment of ONE run of the close body *)
  (exists b done rest, body b = done ++ rest /\ t_trace (fst s) = done) /\
  (* the state is Closed exactly when one whole body has run *)
  (t_state (fst s) = 3 -> exists b, t_trace (fst s) = body b) /\
  (* when every Close call has returned (and there was one), the tunnel is Closed *)
  (forallb t_returned (snd s) = true -> existsb t_is_closer (snd s) = true -> t_state (fst s) = 3) /\
  (* no closer is ever running the body unless the state is Closing, and then exactly one is *)
  (flat_map twin (snd s) = [] \/ (t_state (fst s) = 2 /\ exists w, flat_map twin (snd s) = [w])).
Proof.
  intros Hs Hi s.
  assert (HI : TInv s).
  { unfold s, trun. apply inv_all_schedules; [intros s0 i; apply tinv_step|apply tinv_init; assumption]. }
  destruct s as [sh ls]. destruct HI as [Hok Hph]. cbn [fst snd] in *.
  split; [|split; [|split]].
  - destruct Hph as [(H & Hw & Ht)|[(H & b & r & done & Hw & Hb & Ht)|(H & Hw & b & Ht)]].
    + exists true, [], (body true). rewrite Ht. split; reflexivity.
    + exists b, done, r. split; assumption.
    + exists b, (body b), []. rewrite app_nil_r. split; [reflexivity|exact Ht].
  - intros H3. destruct Hph as [(H & _)|[(H & _)|(H & Hw & b & Ht)]]; try lia. exists b; exact Ht.
  - intros Hret Hcl. rewrite forallb_forall in Hret. apply existsb_exists in Hcl. destruct Hcl as (t & Hin & Hc).
    assert (H2 : 2 <= t_state sh).
    { rewrite Forall_forall in Hok. specialize (Hok t Hin). specialize (Hret t Hin).
      unfold tth_ok in Hok. unfold t_returned in Hret. unfold t_is_closer in Hc.
      destruct (t_pc t); try discriminate; exact Hok. }
    destruct Hph as [(H & _)|[(H & b & r & done & Hw & _)|(H & _)]]; try lia.
    exfalso. assert (Hne : flat_map twin ls <> []) by (rewrite Hw; discriminate).
    apply fm_nonempty in Hne. destruct Hne as (x & Hx & Hf). specialize (Hret x Hx).
    unfold twin in Hf. unfold t_returned in Hret. destruct (t_pc x); try discriminate; congruence.
  - destruct Hph as [(H & Hw & Ht)|[(H & b & r & done & Hw & Hb & Ht)|(H & Hw & b & Ht)]]; auto.
    right. split; [exact H|]. eexists; exact Hw.
Qed.

(* counting form: every close action (Dispose.Close, both connection closes, peer notification, unregister, onClosed)
   happens at most once in any reachable state, and exactly once (notification: once iff the winner's reason asks for it)
   when the tunnel is Closed *)
Corollary tunnel_actions_counted st0 ts sched :
  st0 < 2 -> forallb t_initial ts = true ->
  let s := trun true st0 ts sched in
  (forall a, tcount a (t_trace (fst s)) <= 1) /\
  (t_state (fst s) = 3 -> forall a, a <> ANotify -> tcount a (t_trace (fst s)) = 1).
Proof.
  intros Hs Hi s. destruct (tunnel_close_once_all_schedules st0 ts sched Hs Hi) as (Hp & H3 & _). fold s in Hp, H3.
  split.
  - intros a. destruct Hp as (b & done & rest & Hb & Ht). rewrite Ht.
    assert (Hle : tcount a done <= tcount a (body b)) by (rewrite Hb, tcount_app; lia).
    destruct (body_counts b) as (C1 & C2 & C3 & C4 & C5 & C6).
    destruct a; try lia. destruct b; lia.
  - intros E a Ha. destruct (H3 E) as [b Ht]. rewrite Ht.
    destruct (body_counts b) as (C1 & C2 & C3 & C4 & C5 & C6). destruct a; congruence.
Qed.

(* the pinned code (CAS Connected->Closing, else Store(Closing)): two closers, four steps to get both past the latch *)
Lemma pinned_tunnel_close_refuted :
  exists sched,
    let s := trun false 1 [ {| t_notify := true; t_pc := TLoad |}; {| t_notify := true; t_pc := TLoad |} ] sched in
    tcount ACallback (t_trace (fst s)) = 2 /\ tcount AUnreg (t_trace (fst s)) = 2 /\ tcount ANotify (t_trace (fst s)) = 2.
Proof. exists ([0; 1; 0; 1; 1] ++ repeat 0 7 ++ repeat 1 7). vm_compute. auto. Qed.

(* pinned code, second shape: the loser's Store(Closing) lands after the winner has finished: Closed -> Closing -> Closed *)
Lemma pinned_tunnel_reopens_closed_refuted :
  exists sched1 sched2,
    let ts := [ {| t_notify := false; t_pc := TLoad |}; {| t_notify := false; t_pc := TLoad |} ] in
    t_state (fst (trun false 1 ts sched1)) = 3 /\ t_state (fst (trun false 1 ts (sched1 ++ sched2))) = 2.
Proof. exists ([1; 0; 0] ++ repeat 0 6), [1; 1]. vm_compute. auto. Qed.

(* ================================================================================================ *)
(* C. reportTrafficStats (repaired code: serialised by a mutex)                                      *)
(* ================================================================================================ *)
Open Scope Z_scope.
Definition rhold (t : rpc) : list rpc :=
  match t with RLoadCur | RLoadLast _ | RGet _ _ | RUpdate _ _ _ | RStore _ | RUnlock => [t] | _ => [] end.

Definition rrel (base : Z) (sh : rsh) (h : rpc) : Prop :=
  match h with
  | RLoadCur | RUnlock => r_stats sh = base + r_last sh
  | RLoadLast cur => r_stats sh = base + r_last sh /\ r_last sh <= cur <= r_cnt sh
  | RGet cur l => l = r_last sh /\ l < cur <= r_cnt sh /\ r_stats sh = base + r_last sh
  | RUpdate cur l m => l = r_last sh /\ l < cur <= r_cnt sh /\ r_stats sh = base + r_last sh /\ m = r_stats sh
  | RStore cur => r_stats sh = base + cur /\ r_last sh <= cur <= r_cnt sh
  | _ => False
  end.

Definition copier_ok (t : rpc) : Prop := match t with CAdd todo => Forall (fun d => 0 <= d) todo | _ => True end.

Definition RInv (base : Z) (s : rsh * list rpc) : Prop :=
  let sh := fst s in let ls := snd s in
  0 <= r_last sh <= r_cnt sh /\ zsum (r_calls sh) = r_stats sh - base /\ Forall (fun d => 0 < d) (r_calls sh) /\
  Forall copier_ok ls /\
  ( (r_mu sh = false /\ flat_map rhold ls = [] /\ r_stats sh = base + r_last sh)
  \/ (r_mu sh = true /\ exists h, flat_map rhold ls = [h] /\ rrel base sh h) ).

Lemma zsum_app a x : zsum (a ++ [x]) = zsum a + x.
Proof. unfold zsum. induction a as [|h t IH]; cbn; [lia|]. fold (zsum (t ++ [x])) in *. fold (zsum t) in *. rewrite IH. lia. Qed.

Lemma rinv_step base s i : RInv base s -> RInv base (sys_step _ _ (rstep true) s i).
Proof.
  destruct s as [sh ls]. unfold RInv, sys_step. cbn [fst snd]. intros (Hb & Hsum & Hpos & Hcop & Hph).
  destruct (nth_error ls i) as [x|] eqn:En; [|cbn [fst snd]; auto 10].
  destruct (fm_upd2 rhold ls i x En) as (a & b & Ha & Hupd).
  assert (Hxc : copier_ok x) by (eapply Forall_nth; eauto).
  destruct x as [| |cur|cur l|cur l m|cur| | |todo]; cbn [rstep].
  - (* RLock *)
    destruct (r_mu sh) eqn:Em; cbn [fst snd].
    + rewrite (upd_nth_same ls i _ En). rewrite Em. auto 10.
    + destruct Hph as [(_ & Hh & Hs)|(Hm & _)]; [|congruence].
      cbn [rhold] in Ha. rewrite Ha in Hh. apply app_nil3 in Hh. destruct Hh as (-> & _ & ->).
      unfold set_mu. cbn [r_cnt r_last r_stats r_mu r_calls].
      split; [exact Hb|]. split; [exact Hsum|]. split; [exact Hpos|]. split; [apply Forall_upd; [exact Hcop|exact I]|].
      right. split; [reflexivity|]. exists RLoadCur. split; [rewrite Hupd; reflexivity|exact Hs].
  - (* RLoadCur *)
    cbn [fst snd]. destruct Hph as [(_ & Hh & _)|(Hm & h & Hh & Hr)].
    { cbn [rhold] in Ha. rewrite Ha in Hh. exfalso; eapply app_mid_nil; exact Hh. }
    cbn [rhold app] in Ha. rewrite Ha in Hh. apply app_single in Hh. destruct Hh as (-> & -> & <-). cbn in Hr.
    split; [exact Hb|]. split; [exact Hsum|]. split; [exact Hpos|]. split; [apply Forall_upd; [exact Hcop|exact I]|].
    right. split; [exact Hm|]. eexists. split; [rewrite Hupd; reflexivity|]. cbn. lia.
  - (* RLoadLast *)
    destruct Hph as [(_ & Hh & _)|(Hm & h & Hh & Hr)].
    { cbn [rhold] in Ha. rewrite Ha in Hh. exfalso; eapply app_mid_nil; exact Hh. }
    cbn [rhold app] in Ha. rewrite Ha in Hh. apply app_single in Hh. destruct Hh as (-> & -> & <-). cbn in Hr.
    destruct (cur - r_last sh =? 0) eqn:Ed; cbn [fst snd].
    + apply Z.eqb_eq in Ed.
      split; [exact Hb|]. split; [exact Hsum|]. split; [exact Hpos|]. split; [apply Forall_upd; [exact Hcop|exact I]|].
      right. split; [exact Hm|]. eexists. split; [rewrite Hupd; reflexivity|]. cbn. lia.
    + apply Z.eqb_neq in Ed.
      split; [exact Hb|]. split; [exact Hsum|]. split; [exact Hpos|]. split; [apply Forall_upd; [exact Hcop|exact I]|].
      right. split; [exact Hm|]. eexists. split; [rewrite Hupd; reflexivity|]. cbn. lia.
  - (* RGet *)
    cbn [fst snd]. destruct Hph as [(_ & Hh & _)|(Hm & h & Hh & Hr)].
    { cbn [rhold] in Ha. rewrite Ha in Hh. exfalso; eapply app_mid_nil; exact Hh. }
    cbn [rhold app] in Ha. rewrite Ha in Hh. apply app_single in Hh. destruct Hh as (-> & -> & <-). cbn in Hr.
    split; [exact Hb|]. split; [exact Hsum|]. split; [exact Hpos|]. split; [apply Forall_upd; [exact Hcop|exact I]|].
    right. split; [exact Hm|]. eexists. split; [rewrite Hupd; reflexivity|]. cbn. lia.
  - (* RUpdate *)
    cbn [fst snd]. destruct Hph as [(_ & Hh & _)|(Hm & h & Hh & Hr)].
    { cbn [rhold] in Ha. rewrite Ha in Hh. exfalso; eapply app_mid_nil; exact Hh. }
    cbn [rhold app] in Ha. rewrite Ha in Hh. apply app_single in Hh. destruct Hh as (-> & -> & <-). cbn in Hr.
    cbn [r_cnt r_last r_stats r_mu r_calls].
    split; [exact Hb|]. split; [rewrite zsum_app; lia|].
    split; [apply Forall_app; split; [exact Hpos|constructor; [lia|constructor]]|].
    split; [apply Forall_upd; [exact Hcop|exact I]|].
    right. split; [exact Hm|]. eexists. split; [rewrite Hupd; reflexivity|]. cbn. lia.
  - (* RStore *)
    cbn [fst snd]. destruct Hph as [(_ & Hh & _)|(Hm & h & Hh & Hr)].
    { cbn [rhold] in Ha. rewrite Ha in Hh. exfalso; eapply app_mid_nil; exact Hh. }
    cbn [rhold app] in Ha. rewrite Ha in Hh. apply app_single in Hh. destruct Hh as (-> & -> & <-). cbn in Hr.
    cbn [r_cnt r_last r_stats r_mu r_calls].
    split; [lia|]. split; [exact Hsum|]. split; [exact Hpos|]. split; [apply Forall_upd; [exact Hcop|exact I]|].
    right. split; [exact Hm|]. eexists. split; [rewrite Hupd; reflexivity|]. cbn. lia.
  - (* RUnlock *)
    cbn [fst snd]. destruct Hph as [(_ & Hh & _)|(Hm & h & Hh & Hr)].
    { cbn [rhold] in Ha. rewrite Ha in Hh. exfalso; eapply app_mid_nil; exact Hh. }
    cbn [rhold app] in Ha. rewrite Ha in Hh. apply app_single in Hh. destruct Hh as (-> & -> & <-). cbn in Hr.
    unfold set_mu. cbn [r_cnt r_last r_stats r_mu r_calls].
    split; [exact Hb|]. split; [exact Hsum|]. split; [exact Hpos|]. split; [apply Forall_upd; [exact Hcop|exact I]|].
    left. split; [reflexivity|]. split; [rewrite Hupd; reflexivity|exact Hr].
  - (* RDone *) cbn [fst snd]. rewrite (upd_nth_same ls i _ En). auto 10.
  - (* CAdd *)
    destruct todo as [|d todo]; cbn [fst snd].
    { rewrite (upd_nth_same ls i _ En). auto 10. }
    cbn in Hxc. inversion Hxc as [|d' t' Hd Ht]; subst.
    cbn [rhold] in Ha. cbn [r_cnt r_last r_stats r_mu r_calls].
    assert (Hfm : flat_map rhold (upd_nth i (CAdd todo) ls) = flat_map rhold ls) by (rewrite Hupd, Ha; reflexivity).
    split; [lia|]. split; [exact Hsum|]. split; [exact Hpos|]. split; [apply Forall_upd; [exact Hcop|exact Ht]|].
    destruct Hph as [(Hm & Hh & Hs)|(Hm & h & Hh & Hr)].
    + left. split; [exact Hm|]. split; [rewrite Hfm; exact Hh|exact Hs].
    + right. split; [exact Hm|]. exists h. split; [rewrite Hfm; exact Hh|].
      destruct h; cbn in *; try exact Hr; lia.
Qed.

Lemma rinv_init base ts : forallb r_initial ts = true -> RInv base (rinit base, ts).
Proof.
  intros Hi. rewrite forallb_forall in Hi. unfold RInv. cbn [fst snd rinit r_cnt r_last r_stats r_mu r_calls].
  split; [lia|]. split; [cbn; lia|]. split; [constructor|]. split.
  - rewrite Forall_forall. intros t Ht. apply Hi in Ht. destruct t; cbn in Ht; try discriminate; try exact I.
    cbn. rewrite Forall_forall. rewrite forallb_forall in Ht. intros d Hd. apply Ht in Hd. apply Z.leb_le in Hd. exact Hd.
  - left. split; [reflexivity|]. split; [|lia].
    induction ts as [|t r IH]; cbn; [reflexivity|].
    assert (Ht : r_initial t = true) by (apply Hi; left; reflexivity).
    destruct t; cbn in Ht; try discriminate; cbn; apply IH; intros y Hy; apply Hi; right; exact Hy.
Qed.


(* ANY number of concurrent reporters (cleanup handler, ticks, final report) and copy loops, ANY schedule *)
Theorem traffic_once_all_schedules base ts sched :
  forallb r_initial ts = true ->
  let s := rrun true base ts sched in
  (* what cloud control was given is the sum of the reported deltas, every delta is positive, and it never exceeds the counter *)
  r_stats (fst s) - base = zsum (r_calls (fst s)) /\ Forall (fun d => 0 < d) (r_calls (fst s)) /\
  r_stats (fst s) - base <= r_cnt (fst s) /\
  (* whenever no report is in progress, the reported total is exactly the last-reported mark *)
  (r_mu (fst s) = false -> r_stats (fst s) - base = r_last (fst s) /\ r_last (fst s) <= r_cnt (fst s)) /\
  (* when every thread has finished, no report is in progress *)
  (forallb r_finished (snd s) = true -> r_mu (fst s) = false).
Proof.
  intros Hi s.
  assert (HI : RInv base s).
  { unfold s, rrun. apply inv_all_schedules; [intros s0 i; apply rinv_step|apply rinv_init; exact Hi]. }
  destruct s as [sh ls]. destruct HI as (Hb & Hsum & Hpos & Hcop & Hph). cbn [fst snd] in *.
  split; [lia|]. split; [exact Hpos|]. split; [|split].
  - destruct Hph as [(Hm & Hh & Hs)|(Hm & h & Hh & Hr)]; [lia|]. destruct h; cbn in Hr; try contradiction; lia.
  - intros Hm. destruct Hph as [(_ & Hh & Hs)|(Hm' & _)]; [lia|congruence].
  - intros Hf. destruct Hph as [(Hm & _)|(Hm & h & Hh & Hr)]; [exact Hm|].
    exfalso. assert (Hne : flat_map rhold ls <> []) by (rewrite Hh; discriminate).
    apply fm_nonempty in Hne. destruct Hne as (x & Hx & Hfx). rewrite forallb_forall in Hf. specialize (Hf x Hx).
    destruct x; cbn in Hf, Hfx; try discriminate; try congruence.
Qed.

(* a report that runs with nobody else moving (e.g. the last one, after the copy loops have ended) brings the reported
   total up to the counter exactly *)
Lemma report_alone_complete base sh :
  r_mu sh = false -> r_stats sh = base + r_last sh -> r_last sh <= r_cnt sh ->
  let sh' := report_alone true sh in
  r_stats sh' = base + r_cnt sh /\ r_last sh' = r_cnt sh /\ r_cnt sh' = r_cnt sh /\ r_mu sh' = false.
Proof.
  intros Hm Hs Hl. destruct sh as [cnt last stats mu calls]. cbn in Hm, Hs, Hl. subst mu.
  unfold report_alone, run, sys_step. cbn [repeat fold_left fst snd nth_error rstep r_mu set_mu upd_nth r_cnt r_last r_stats r_calls].
  destruct (cnt - last =? 0) eqn:Ed; cbn [repeat fold_left fst snd nth_error rstep r_mu set_mu upd_nth r_cnt r_last r_stats r_calls].
  - apply Z.eqb_eq in Ed. repeat split; lia.
  - repeat split; lia.
Qed.

(* the pinned code (no mutex): cleanup handler and final report both compute the same delta: 100 bytes counted as 200 *)
Lemma pinned_traffic_double_report_refuted :
  exists sched,
    let s := rrun false 0 [CAdd [100]; RLock; RLock] sched in
    r_cnt (fst s) = 100 /\ r_stats (fst s) = 200 /\ r_calls (fst s) = [100; 100] /\ forallb r_finished (snd s) = true.
Proof. exists ([0] ++ [1;1;1; 2;2;2] ++ repeat 1 5 ++ repeat 2 5)%nat. vm_compute. auto. Qed.

(* pinned code, second shape: a stale `current` makes the delta negative (the reported total goes DOWN) *)
Lemma pinned_traffic_negative_delta_refuted :
  exists sched,
    let s := rrun false 0 [CAdd [100; 50]; RLock; RLock] sched in
    exists d, In d (r_calls (fst s)) /\ d < 0.
Proof. exists ([0] ++ [1;1] ++ [0] ++ repeat 2 8 ++ repeat 1 6)%nat. vm_compute. exists (-50). split; [auto|reflexivity]. Qed.
Close Scope Z_scope.

(* ================================================================================================ *)
(* D. StreamProcessor: Close against read operations                                                 *)
(* ================================================================================================ *)
Definition pclean (t : ppc) : list ppc :=
  match t with PCleanBuf | PCleanWriter | PCleanReader | PUnlock => [t] | _ => [] end.
Definition p_is_op (t : ppc) : bool :=
  match t with OStart | OHaveLock | OChecked | OUse _ | ORet _ | OPanicked | PClosed _ => true | _ => false end.

Section StreamProof.
  Variable fixed : bool.
  Variable reads : nat.

  (* ---- the underlying reader is closed at most once, for any number of closers and operations ---- *)
  Definition CInv (s : psh * list ppc) : Prop :=
    let sh := fst s in let ls := snd s in
    (p_closed sh = false /\ p_dlock sh = false /\ flat_map pclean ls = [] /\ p_rclose sh = 0)
    \/ (p_closed sh = true /\ p_dlock sh = true /\
        exists h, flat_map pclean ls = [h] /\ (h = PUnlock -> p_rclose sh <= 1) /\ (h <> PUnlock -> p_rclose sh = 0))
    \/ (p_closed sh = true /\ p_dlock sh = false /\ flat_map pclean ls = [] /\ p_rclose sh <= 1).

  (* an operation step (and a returned closer) touches neither the latch nor the close counter *)
  Lemma op_step_frame x sh : p_is_op x = true ->
    pclean (fst (pstep fixed reads x sh)) = [] /\ pclean x = [] /\
    p_closed (snd (pstep fixed reads x sh)) = p_closed sh /\ p_dlock (snd (pstep fixed reads x sh)) = p_dlock sh /\
    p_rclose (snd (pstep fixed reads x sh)) = p_rclose sh.
  Proof.
    destruct sh as [c d r rd rc pn].
    destruct x as [| | | | |act| | | |left|ok|]; intros Hop; try discriminate; try destruct left; cbn;
      destruct fixed, d, c, r, rd, rc; cbn; repeat split; reflexivity.
  Qed.

  Lemma cinv_step s i : CInv s -> CInv (sys_step _ _ (pstep fixed reads) s i).
  Proof.
    destruct s as [sh ls]. unfold CInv, sys_step. cbn [fst snd]. intros H.
    destruct (nth_error ls i) as [x|] eqn:En; [|exact H].
    destruct (fm_upd2 pclean ls i x En) as (a & b & Ha & Hupd).
    destruct (p_is_op x) eqn:Hop.
    - destruct (op_step_frame x sh Hop) as (Hx' & Hx & Hc & Hd & Hr).
      destruct (pstep fixed reads x sh) as [x' sh']. cbn [fst snd] in *.
      assert (Hfm : flat_map pclean (upd_nth i x' ls) = flat_map pclean ls) by (rewrite Hupd, Ha, Hx, Hx'; reflexivity).
      rewrite Hfm, Hc, Hd, Hr. exact H.
    - destruct x; try discriminate Hop; cbn [pstep].
      + (* PClose *)
        destruct (p_dlock sh) eqn:Ed; cbn [fst snd].
        { rewrite (upd_nth_same ls i _ En). rewrite Ed. exact H. }
        destruct (p_closed sh) eqn:Ec; cbn [fst snd].
        * rewrite Hupd. cbn [pclean] in *. rewrite <- Ha. rewrite Ed, Ec. exact H.
        * cbn [p_closed p_dlock p_rclose]. right; left. split; [reflexivity|]. split; [reflexivity|].
          destruct H as [(_ & _ & Hh & Hr)|[(Hc & _)|(Hc & _)]]; try congruence.
          cbn [pclean] in Ha. rewrite Ha in Hh. apply app_nil3 in Hh. destruct Hh as (-> & _ & ->).
          exists PCleanBuf. rewrite Hupd. split; [reflexivity|]. split; [discriminate|auto].
      + (* PCleanBuf *)
        cbn [fst snd]. cbn [pclean] in Ha.
        destruct H as [(_ & _ & Hh & _)|[(Hc & Hd & h & Hh & Hu & Hn)|(_ & _ & Hh & _)]];
          try (rewrite Ha in Hh; exfalso; eapply app_mid_nil; exact Hh).
        rewrite Ha in Hh. cbn [app] in Hh. apply app_single in Hh. destruct Hh as (-> & -> & <-).
        right; left. split; [exact Hc|]. split; [exact Hd|]. exists PCleanWriter. rewrite Hupd.
        split; [reflexivity|]. split; [discriminate|]. intros _. apply Hn. discriminate.
      + (* PCleanWriter *)
        cbn [fst snd]. cbn [pclean] in Ha.
        destruct H as [(_ & _ & Hh & _)|[(Hc & Hd & h & Hh & Hu & Hn)|(_ & _ & Hh & _)]];
          try (rewrite Ha in Hh; exfalso; eapply app_mid_nil; exact Hh).
        rewrite Ha in Hh. cbn [app] in Hh. apply app_single in Hh. destruct Hh as (-> & -> & <-).
        right; left. split; [exact Hc|]. split; [exact Hd|]. exists PCleanReader. rewrite Hupd.
        split; [reflexivity|]. split; [discriminate|]. intros _. apply Hn. discriminate.
      + (* PCleanReader: the one place the reader is closed *)
        cbn [fst snd]. cbn [pclean] in Ha.
        destruct H as [(_ & _ & Hh & _)|[(Hc & Hd & h & Hh & Hu & Hn)|(_ & _ & Hh & _)]];
          try (rewrite Ha in Hh; exfalso; eapply app_mid_nil; exact Hh).
        rewrite Ha in Hh. cbn [app] in Hh. apply app_single in Hh. destruct Hh as (-> & -> & <-).
        assert (H0 : p_rclose sh = 0) by (apply Hn; discriminate).
        right; left. destruct (p_reader sh); cbn [p_closed p_dlock p_rclose].
        * split; [exact Hc|]. split; [exact Hd|]. exists PUnlock. rewrite Hupd.
          split; [reflexivity|]. split; [intros _; lia|intros Hne; congruence].
        * split; [exact Hc|]. split; [exact Hd|]. exists PUnlock. rewrite Hupd.
          split; [reflexivity|]. split; [intros _; lia|intros Hne; congruence].
      + (* PUnlock *)
        cbn [fst snd]. cbn [pclean] in Ha.
        destruct H as [(_ & _ & Hh & _)|[(Hc & Hd & h & Hh & Hu & Hn)|(_ & _ & Hh & _)]];
          try (rewrite Ha in Hh; exfalso; eapply app_mid_nil; exact Hh).
        rewrite Ha in Hh. cbn [app] in Hh. apply app_single in Hh. destruct Hh as (-> & -> & <-).
        right; right. cbn [p_closed p_dlock p_rclose]. split; [exact Hc|]. split; [reflexivity|].
        split; [rewrite Hupd; reflexivity|]. apply Hu. reflexivity.
  Qed.

  Lemma cinv_init ts : forallb p_initial ts = true -> CInv (pinit, ts).
  Proof.
    intros Hi. rewrite forallb_forall in Hi. left. cbn [fst snd pinit p_closed p_dlock p_rclose].
    split; [reflexivity|]. split; [reflexivity|]. split; [|reflexivity].
    induction ts as [|t r IH]; cbn; [reflexivity|].
    assert (Ht : p_initial t = true) by (apply Hi; left; reflexivity).
    destruct t; cbn in Ht; try discriminate; cbn; apply IH; intros y Hy; apply Hi; right; exact Hy.
  Qed.

  Theorem reader_closed_at_most_once ts sched :
    forallb p_initial ts = true ->
    let s := run _ _ (pstep fixed reads) (pinit, ts) sched in p_rclose (fst s) <= 1.
  Proof.
    intros Hi s. assert (HI : CInv s).
    { unfold s. apply inv_all_schedules; [intros s0 i; apply cinv_step|apply cinv_init; exact Hi]. }
    destruct HI as [(_ & _ & _ & H)|[(_ & _ & h & _ & Hu & Hn)|(_ & _ & _ & H)]]; try lia.
    destruct h; try (rewrite Hn by discriminate; lia). apply Hu; reflexivity.
  Qed.

  (* ---- an operation that has not taken the read lock yet when the processor is already closed never reaches the
     reader: in every continuation it is waiting, or has returned an error; it never succeeds and never panics ---- *)
  Definition QInv (j : nat) (s : psh * list ppc) : Prop :=
    p_closed (fst s) = true /\
    (nth_error (snd s) j = Some OStart \/ nth_error (snd s) j = Some OHaveLock \/ nth_error (snd s) j = Some (ORet false)).

  Lemma closed_monotone t sh : p_closed sh = true -> p_closed (snd (pstep fixed reads t sh)) = true.
  Proof.
    destruct sh as [c d r rd rc pn]. cbn [p_closed]. intros ->.
    destruct fixed, d, r, rd, rc; destruct t as [| | | | | | | | |left| |]; try destruct left; cbn; auto.
  Qed.

  Lemma qinv_step j s i : QInv j s -> QInv j (sys_step _ _ (pstep fixed reads) s i).
  Proof.
    destruct s as [sh ls]. unfold QInv, sys_step. cbn [fst snd]. intros [Hc Hj].
    destruct (nth_error ls i) as [x|] eqn:En; [|cbn [fst snd]; auto].
    pose proof (closed_monotone x sh Hc) as Hmono.
    destruct (pstep fixed reads x sh) as [x' sh'] eqn:Es. cbn [fst snd] in *. split; [exact Hmono|].
    destruct (Nat.eq_dec i j) as [->|Hne].
    - assert (Hlen : j < length ls) by (apply nth_error_Some; congruence).
      rewrite nth_error_upd_nth_same by exact Hlen.
      rewrite En in Hj.
      destruct Hj as [Hj|[Hj|Hj]]; inversion Hj; subst x; cbn [pstep] in Es.
      + destruct (p_rlock sh); inversion Es; auto.
      + destruct (p_dlock sh); [inversion Es; auto|]. rewrite Hc in Es. inversion Es; auto.
      + inversion Es; auto.
    - rewrite nth_error_upd_nth_other by exact Hne. exact Hj.
  Qed.

  Theorem ops_after_close_fail_cleanly j sh ls sched :
    p_closed sh = true -> nth_error ls j = Some OStart ->
    let s := run _ _ (pstep fixed reads) (sh, ls) sched in
    nth_error (snd s) j = Some OStart \/ nth_error (snd s) j = Some OHaveLock \/ nth_error (snd s) j = Some (ORet false).
  Proof.
    intros Hc Hj s. assert (HI : QInv j s).
    { unfold s. apply inv_all_schedules; [intros s0 i; apply qinv_step|]. split; [exact Hc|left; exact Hj]. }
    exact (proj2 HI).
  Qed.
End StreamProof.

(* ---- the full statement, repaired code (onClose keeps the fields): for EVERY schedule of any closers and operations,
   concurrent with Close or not, no operation ever calls a nil reader: nothing panics, no thread is in the panicked state ---- *)
Definition NInv (s : psh * list ppc) : Prop :=
  p_reader (fst s) = true /\ p_panics (fst s) = 0 /\ Forall (fun t => t <> OPanicked) (snd s).

Lemma nstep_frame reads x sh : p_reader sh = true ->
  p_reader (snd (pstep true reads x sh)) = true /\ p_panics (snd (pstep true reads x sh)) = p_panics sh /\
  (x <> OPanicked -> fst (pstep true reads x sh) <> OPanicked).
Proof.
  destruct sh as [c d r rd rc pn]. cbn [p_reader]. intros ->.
  destruct x as [| | | | |act| | | |left|ok|]; try destruct left; cbn; destruct d, c, r, rc; cbn;
    repeat split; auto; try discriminate.
Qed.

Lemma ninv_step reads s i : NInv s -> NInv (sys_step _ _ (pstep true reads) s i).
Proof.
  destruct s as [sh ls]. unfold NInv, sys_step. cbn [fst snd]. intros (Hr & Hp & Hf).
  destruct (nth_error ls i) as [x|] eqn:En; [|cbn [fst snd]; split; [exact Hr|split; [exact Hp|exact Hf]]].
  destruct (nstep_frame reads x sh Hr) as (Hr' & Hp' & Hx').
  destruct (pstep true reads x sh) as [x' sh']. cbn [fst snd] in *.
  split; [exact Hr'|]. split; [rewrite Hp'; exact Hp|].
  apply Forall_upd; [exact Hf|]. apply Hx'. exact (Forall_nth _ ls i x Hf En).
Qed.

Theorem ops_concurrent_with_close_never_crash reads ts sched :
  forallb p_initial ts = true ->
  let s := run _ _ (pstep true reads) (pinit, ts) sched in
  p_panics (fst s) = 0 /\ Forall (fun t => t <> OPanicked) (snd s).
Proof.
  intros Hi s. assert (HI : NInv s).
  { unfold s. apply inv_all_schedules; [intros s0 i; apply ninv_step|].
    split; [reflexivity|]. split; [reflexivity|]. rewrite forallb_forall in Hi. rewrite Forall_forall.
    intros t Ht Heq. subst t. apply Hi in Ht. discriminate. }
  destruct HI as (_ & Hp & Hf). split; assumption.
Qed.

(* the same scenario that crashes the pinned code ends with a clean error in the repaired code *)
Lemma read_concurrent_with_close_fixed_returns_error :
  let s := run _ _ (pstep true 2) (pinit, [OStart; PClose]) ([0;0;0;0] ++ repeat 1 5 ++ [0]) in
  p_panics (fst s) = 0 /\ nth_error (snd s) 0 = Some (ORet false) /\ p_rlock (fst s) = false.
Proof. vm_compute. auto. Qed.

(* pinned code: an operation that passed its closed-check BEFORE a concurrent Close nils the reader calls a nil
   interface: onClose wrote ps.reader = nil without holding readLock *)
Lemma read_concurrent_with_close_panics_refuted :
  exists sched, p_panics (fst (run _ _ (pstep false 2) (pinit, [OStart; PClose]) sched)) = 1.
Proof. exists ([0;0;0;0] ++ repeat 1 5 ++ [0]). vm_compute. reflexivity. Qed.

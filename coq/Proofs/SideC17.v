(* Proofs/SideC17.v — side conditions over values regenerated from /repo (Gen/C17.v), re-proved on every run *)
From TX Require Import Model.Limits Gen.C17.
From Coq Require Import Lia NArith.

(* the shipped defaults switch every cap on (0 would mean unlimited), and the control cap fits under the server cap *)
Lemma default_caps_enforced :
  (0 < DefaultMaxConnections)%N /\ (0 < DefaultMaxControlConnections)%N /\
  (DefaultMaxControlConnections <= DefaultMaxConnections)%N.
Proof. vm_compute. repeat split; congruence. Qed.

Lemma default_session_config_uses_defaults :
  DefaultSessionConfig_MaxConnections = DefaultMaxConnections /\
  DefaultSessionConfig_MaxControlConnections = DefaultMaxControlConnections.
Proof. split; reflexivity. Qed.

(* per-client quotas compare `count >= limit` with no "0 = unlimited": a zero default would refuse everything *)
Lemma default_quotas_positive : 0 < MaxActiveCodesPerClient /\ 0 < MaxActiveMappingsPerClient.
Proof. vm_compute. split; lia. Qed.

(* the SessionManager hands its configured limits through unchanged *)
Lemma session_caps_wired : SessionControlCap_for_7 = 7 /\ SessionStats_MaxConnections_for_11 = 11.
Proof. split; reflexivity. Qed.

(* boundary behaviour of the real TunnelRegistry.Register probed for limits 0..3 and occupancies 0..limit:
   refused exactly where the model's at_cap says so *)
Definition fill (occ : nat) : list (N * N) := map (fun k => (N.of_nat (100 + k), 0%N)) (seq 0 occ).
Definition row_ok (r : nat * nat * bool) : bool :=
  let '(max, occ, refused) := r in
  Bool.eqb (match fst (treg_apply max (RReg 1 0) (fill occ)) with RRefused => true | _ => false end) refused
  && Bool.eqb (at_cap max occ) refused.
Lemma tunnel_boundary_agrees : forallb row_ok tunnel_boundary_table = true /\ 10 <= length tunnel_boundary_table.
Proof. split; vm_compute; [reflexivity|lia]. Qed.
Lemma tunnel_boundary_covers_unlimited_and_full :
  existsb (fun r => Nat.eqb (fst (fst r)) 0 && Nat.ltb 2 (snd (fst r)) && negb (snd r)) tunnel_boundary_table = true /\
  existsb (fun r => Nat.eqb (fst (fst r)) (snd (fst r)) && Nat.ltb 0 (fst (fst r)) && snd r) tunnel_boundary_table = true.
Proof. split; vm_compute; reflexivity. Qed.

(* Proofs/ShutdownLife.v — C16: Start against Close (model E) and Close against a stalled write (model F) *)
From TX Require Import Model.Shutdown Proofs.Shutdown.
From Coq Require Import Lia.

(* ================================================================================================ *)
(* E. Tunnel.Start / Tunnel.Close, repository order (SetCtx before the CAS)                          *)
(* ================================================================================================ *)
Definition ewin (t : epc) : list epc := match t with EDispose | ECallback | EStoreClosed => [t] | _ => [] end.

Definition eth_ok (sh : esh) (t : epc) : Prop :=
  match t with
  | EStartCas => e_ctx sh <> 0
  | ESpawn _ => e_started sh = true
  | ECas c => c < 2
  | ECloseRet _ => 2 <= e_state sh
  | _ => True
  end.

Definition pre_dispose (sh : esh) : Prop := e_cb sh = 0 /\ (e_ctx sh <> 0 -> e_ctx sh = 1 /\ e_latch sh = false).
Definition post_dispose (sh : esh) : Prop := e_started sh = true -> e_ctx sh = 2.

Definition EInv (s : esh * list epc) : Prop :=
  let sh := fst s in let ls := snd s in
  Forall (eth_ok sh) ls /\
  (e_started sh = true -> e_ctx sh <> 0 /\ 1 <= e_state sh) /\
  (0 < e_spawned sh -> e_started sh = true) /\
  ( (e_state sh < 2 /\ flat_map ewin ls = [] /\ pre_dispose sh)
  \/ (e_state sh = 2 /\ exists w, flat_map ewin ls = [w] /\
        match w with
        | EDispose => pre_dispose sh
        | ECallback => e_cb sh = 0 /\ post_dispose sh
        | EStoreClosed => e_cb sh = 1 /\ post_dispose sh
        | _ => False
        end)
  \/ (e_state sh = 3 /\ flat_map ewin ls = [] /\ e_cb sh = 1 /\ post_dispose sh) ).

Lemma eth_ok_mono sh sh' t :
  e_state sh <= e_state sh' -> (e_ctx sh <> 0 -> e_ctx sh' <> 0) -> (e_started sh = true -> e_started sh' = true) ->
  eth_ok sh t -> eth_ok sh' t.
Proof. unfold eth_ok. destruct t; auto. lia. Qed.

Section LifeProof.
  Variable spawns : nat.

  Lemma einv_step s i : EInv s -> EInv (sys_step _ _ (estep true spawns) s i).
  Proof.
    destruct s as [sh ls]. unfold EInv, sys_step. cbn [fst snd]. intros (Hok & Hst & Hsp & Hph).
    destruct (nth_error ls i) as [x|] eqn:En; [|cbn [fst snd]; auto].
    assert (Hx : eth_ok sh x) by (eapply Forall_nth; eauto).
    destruct (fm_upd2 ewin ls i x En) as (a & b & Ha & Hupd).
    destruct sh as [st cx la sd sp cb]. cbn [e_state e_ctx e_latch e_started e_spawned e_cb] in *.
    unfold pre_dispose, post_dispose in *. cbn [e_state e_ctx e_latch e_started e_spawned e_cb] in *.
    destruct x as [| |k|ok| |cur| | | |won]; cbn [estep e_state e_ctx e_latch e_started e_spawned e_cb].
    - (* ESetCtx *)
      cbn [ewin] in Ha. destruct (cx =? 0) eqn:E0; cbn [fst snd e_state e_ctx e_latch e_started e_spawned e_cb].
      + apply Nat.eqb_eq in E0. subst cx.
        assert (Hns : sd = false). { destruct sd; [|reflexivity]. destruct (Hst eq_refl) as [Hc _]. congruence. }
        subst sd. split.
        * apply Forall_upd; [|cbn; discriminate].
          eapply Forall_impl; [|exact Hok]. intros t. apply eth_ok_mono; cbn; auto; discriminate.
        * split; [discriminate|]. split; [exact Hsp|].
          rewrite Hupd. cbn [ewin]. rewrite <- Ha.
          destruct Hph as [(H & Hw & Hc & Hp)|[(H & w & Hw & Hm)|(H & Hw & Hc & Hp)]].
          -- left. repeat split; auto.
          -- right; left. split; [exact H|]. exists w. split; [exact Hw|].
             destruct w; try exact Hm; try (destruct Hm as [Hc Hp]; split; [exact Hc|discriminate]).
             destruct Hm as [Hc _]. split; [exact Hc|]. auto.
          -- right; right. repeat split; auto. discriminate.
      + split; [apply Forall_upd; [exact Hok|]; cbn; apply Nat.eqb_neq in E0; exact E0|].
        split; [exact Hst|]. split; [exact Hsp|]. rewrite Hupd. cbn [ewin]. rewrite <- Ha. exact Hph.
    - (* EStartCas *)
      cbn in Hx. cbn [ewin] in Ha.
      destruct (st =? 0) eqn:E0; cbn [fst snd e_state e_ctx e_latch e_started e_spawned e_cb].
      + apply Nat.eqb_eq in E0. subst st. split.
        * apply Forall_upd; [|cbn; reflexivity].
          eapply Forall_impl; [|exact Hok]. intros t. apply eth_ok_mono; cbn; auto.
        * split; [intros _; split; [exact Hx|lia]|]. split; [auto|].
          rewrite Hupd. cbn [ewin]. rewrite <- Ha.
          destruct Hph as [(H & Hw & Hp)|[(H & _)|(H & _)]]; try lia.
          left. split; [lia|]. split; [exact Hw|exact Hp].
      + split; [apply Forall_upd; [exact Hok|exact I]|]. split; [exact Hst|]. split; [exact Hsp|].
        rewrite Hupd. cbn [ewin]. rewrite <- Ha. exact Hph.
    - (* ESpawn *)
      cbn in Hx. cbn [ewin] in Ha. destruct k as [|k]; cbn [fst snd e_state e_ctx e_latch e_started e_spawned e_cb].
      + split; [apply Forall_upd; [exact Hok|exact I]|]. split; [exact Hst|]. split; [exact Hsp|].
        rewrite Hupd. cbn [ewin]. rewrite <- Ha. exact Hph.
      + split; [apply Forall_upd; [exact Hok|exact Hx]|]. split; [exact Hst|]. split; [intros _; exact Hx|].
        rewrite Hupd. cbn [ewin]. rewrite <- Ha. exact Hph.
    - (* EStartRet *) cbn [fst snd]. rewrite (upd_nth_same ls i _ En). auto.
    - (* ELoad *)
      cbn [ewin] in Ha. destruct ((st =? 2) || (st =? 3)) eqn:Eb; cbn [fst snd].
      + split.
        * apply Forall_upd; [exact Hok|]. cbn. apply orb_true_iff in Eb. destruct Eb as [E|E]; apply Nat.eqb_eq in E; lia.
        * split; [exact Hst|]. split; [exact Hsp|]. rewrite Hupd. cbn [ewin]. rewrite <- Ha. exact Hph.
      + split.
        * apply Forall_upd; [exact Hok|]. cbn. apply orb_false_iff in Eb. destruct Eb as [E2 E3]. apply Nat.eqb_neq in E2, E3.
          destruct Hph as [(H & _)|[(H & _)|(H & _)]]; lia.
        * split; [exact Hst|]. split; [exact Hsp|]. rewrite Hupd. cbn [ewin]. rewrite <- Ha. exact Hph.
    - (* ECas *)
      cbn in Hx. cbn [ewin] in Ha.
      destruct (st =? cur) eqn:Ec; cbn [fst snd e_state e_ctx e_latch e_started e_spawned e_cb].
      + apply Nat.eqb_eq in Ec. subst cur.
        destruct Hph as [(H & Hw & Hp)|[(H & _)|(H & _)]]; try lia.
        rewrite Ha in Hw. apply app_nil3 in Hw. destruct Hw as (-> & _ & ->).
        split.
        * apply Forall_upd; [|exact I]. eapply Forall_impl; [|exact Hok]. intros t. apply eth_ok_mono; cbn; auto; lia.
        * split; [intros Hs; destruct (Hst Hs) as [Hc Hl]; split; [exact Hc|lia]|]. split; [exact Hsp|].
          right; left. split; [reflexivity|]. exists EDispose. rewrite Hupd. cbn. split; [reflexivity|exact Hp].
      + split; [apply Forall_upd; [exact Hok|exact I]|]. split; [exact Hst|]. split; [exact Hsp|].
        rewrite Hupd. cbn [ewin]. rewrite <- Ha. exact Hph.
    - (* EDispose *)
      cbn [ewin] in Ha.
      destruct Hph as [(_ & Hw & _)|[(H & w & Hw & Hm)|(_ & Hw & _)]];
        try (rewrite Ha in Hw; exfalso; eapply app_mid_nil; exact Hw).
      rewrite Ha in Hw. cbn [app] in Hw. apply app_single in Hw. destruct Hw as (-> & -> & <-).
      destruct Hm as [Hc Hp].
      destruct la; cbn [fst snd e_state e_ctx e_latch e_started e_spawned e_cb].
      + (* latch already closed: then there is no context (pre_dispose) *)
        assert (Hc0 : cx = 0). { destruct (Nat.eq_dec cx 0) as [E|E]; [exact E|]. destruct (Hp E) as [_ Hl]. discriminate. }
        subst cx. split; [apply Forall_upd; [exact Hok|exact I]|]. split; [exact Hst|]. split; [exact Hsp|].
        right; left. split; [exact H|]. exists ECallback. rewrite Hupd. cbn. split; [reflexivity|]. split; [exact Hc|].
        intros Hs. destruct (Hst Hs) as [Hne _]. congruence.
      + split.
        * apply Forall_upd; [|exact I]. eapply Forall_impl; [|exact Hok]. intros t. apply eth_ok_mono; cbn; auto.
          intros Hne. destruct (cx =? 1); [discriminate|exact Hne].
        * split.
          { intros Hs. destruct (Hst Hs) as [Hne Hl]. split; [|exact Hl]. destruct (cx =? 1); [discriminate|exact Hne]. }
          split; [exact Hsp|].
          right; left. split; [exact H|]. exists ECallback. rewrite Hupd. cbn. split; [reflexivity|]. split; [exact Hc|].
          intros Hs. destruct (Hst Hs) as [Hne _]. destruct (Hp Hne) as [H1 _]. subst cx. reflexivity.
    - (* ECallback *)
      cbn [ewin] in Ha. cbn [fst snd e_state e_ctx e_latch e_started e_spawned e_cb].
      destruct Hph as [(_ & Hw & _)|[(H & w & Hw & Hm)|(_ & Hw & _)]];
        try (rewrite Ha in Hw; exfalso; eapply app_mid_nil; exact Hw).
      rewrite Ha in Hw. cbn [app] in Hw. apply app_single in Hw. destruct Hw as (-> & -> & <-).
      destruct Hm as [Hc Hp]. split; [apply Forall_upd; [exact Hok|exact I]|]. split; [exact Hst|]. split; [exact Hsp|].
      right; left. split; [exact H|]. exists EStoreClosed. rewrite Hupd. cbn. split; [reflexivity|]. split; [lia|exact Hp].
    - (* EStoreClosed *)
      cbn [ewin] in Ha. cbn [fst snd e_state e_ctx e_latch e_started e_spawned e_cb].
      destruct Hph as [(_ & Hw & _)|[(H & w & Hw & Hm)|(_ & Hw & _)]];
        try (rewrite Ha in Hw; exfalso; eapply app_mid_nil; exact Hw).
      rewrite Ha in Hw. cbn [app] in Hw. apply app_single in Hw. destruct Hw as (-> & -> & <-).
      destruct Hm as [Hc Hp]. split.
      + apply Forall_upd; [|cbn; lia]. eapply Forall_impl; [|exact Hok]. intros t. apply eth_ok_mono; cbn; auto; lia.
      + split; [intros Hs; destruct (Hst Hs) as [Hne _]; split; [exact Hne|lia]|]. split; [exact Hsp|].
        right; right. split; [reflexivity|]. split; [rewrite Hupd; reflexivity|]. split; assumption.
    - (* ECloseRet *) cbn [fst snd]. rewrite (upd_nth_same ls i _ En). auto.
  Qed.

  Lemma einv_init ts : forallb (e_initial true) ts = true -> EInv (einit, ts).
  Proof.
    intros Hi. rewrite forallb_forall in Hi. unfold EInv. cbn [fst snd einit e_state e_ctx e_latch e_started e_spawned e_cb].
    split.
    { rewrite Forall_forall. intros t Ht. apply Hi in Ht. destruct t; cbn in Ht; try discriminate; exact I. }
    split; [discriminate|]. split; [lia|]. left. split; [lia|]. split.
    - induction ts as [|t r IH]; cbn; [reflexivity|].
      assert (Ht : e_initial true t = true) by (apply Hi; left; reflexivity).
      destruct t; cbn in Ht; try discriminate; cbn; apply IH; intros y Hy; apply Hi; right; exact Hy.
    - split; [reflexivity|]. cbn. intros H; congruence.
  Qed.

  (* ANY number of Start calls and Close calls, ANY schedule of their atomic steps *)
  Theorem start_close_all_schedules ts sched :
    forallb (e_initial true) ts = true ->
    let s := erun true spawns ts sched in
    (* a monitor is never started without a context, and the closed hook never runs twice *)
    (0 < e_spawned (fst s) -> e_ctx (fst s) <> 0) /\ e_cb (fst s) <= 1 /\
    (* once everybody has returned (and somebody closed): Closed, the hook ran exactly once, and nothing started by Start
       is still alive (its context is cancelled) *)
    (forallb e_returned (snd s) = true -> existsb e_is_closer (snd s) = true ->
       e_state (fst s) = 3 /\ e_cb (fst s) = 1 /\ e_monitors_alive (fst s) = false).
  Proof.
    intros Hi s.
    assert (HI : EInv s).
    { unfold s, erun. apply inv_all_schedules; [intros s0 i; apply einv_step|apply einv_init; exact Hi]. }
    destruct s as [sh ls]. destruct HI as (Hok & Hst & Hsp & Hph). cbn [fst snd] in *.
    split; [intros H; apply Hst, Hsp, H|]. split.
    - destruct Hph as [(_ & _ & Hc & _)|[(_ & w & _ & Hm)|(_ & _ & Hc & _)]]; try lia.
      destruct w; try contradiction; destruct Hm as [Hc _]; try (unfold pre_dispose in Hc); lia.
    - intros Hret Hcl. rewrite forallb_forall in Hret. apply existsb_exists in Hcl. destruct Hcl as (t & Hin & Hc).
      assert (H2 : 2 <= e_state sh).
      { rewrite Forall_forall in Hok. specialize (Hok t Hin). specialize (Hret t Hin).
        destruct t; cbn in Hc, Hret, Hok; try discriminate; exact Hok. }
      destruct Hph as [(H & _)|[(H & w & Hw & _)|(H & _ & Hc1 & Hp)]]; try lia.
      + exfalso. assert (Hne : flat_map ewin ls <> []) by (rewrite Hw; discriminate).
        apply fm_nonempty in Hne. destruct Hne as (x & Hx & Hf). specialize (Hret x Hx).
        destruct x; cbn in Hf, Hret; try discriminate; congruence.
      + split; [exact H|]. split; [exact Hc1|].
        unfold e_monitors_alive. destruct (0 <? e_spawned sh) eqn:E; [|reflexivity].
        apply Nat.ltb_lt in E. unfold post_dispose in Hp. rewrite (Hp (Hsp E)). reflexivity.
  Qed.
End LifeProof.

(* the CAS moved ahead of SetCtx: one Start, one complete Close landing between the two steps *)
Lemma cas_before_setctx_refuted :
  exists sched,
    let s := erun false 3 [EStartCas; ELoad] sched in
    forallb e_returned (snd s) = true /\ e_state (fst s) = 3 /\ e_cb (fst s) = 1 /\
    nth_error (snd s) 0 = Some (EStartRet true) /\ e_monitors_alive (fst s) = true /\ e_latch (fst s) = false.
Proof. exists ([0] ++ repeat 1 5 ++ repeat 0 5). vm_compute. repeat split; reflexivity. Qed.

(* ================================================================================================ *)
(* F. Close against writes blocked on stalled peers and token waits (repository shape: lock released   *)
(*    before Write, token wait tied to the bridge context)                                            *)
(* ================================================================================================ *)
Definition frh (t : fth) : list unit := match f_pc t with WHave | WIO true | WRel => [tt] | _ => [] end.
Definition fkh (t : fth) : list fpc := match f_pc t with KClose | KUnlock => [f_pc t] | _ => [] end.
Definition frank (t : fth) : nat :=
  match f_pc t with
  | WThrottle => 4 | WLock => 3 | WHave => 2 | WIO _ => 1 | WRel => 1 | WDone => 0
  | KLock => 4 | KClose => 3 | KUnlock => 2 | KCancel => 1 | KDone => 0
  end.
Definition fsum (ls : list fth) : nat := fold_right (fun t n => frank t + n) 0 ls.
Definition f_releasing (t : fth) : Prop := f_pc t <> WIO true /\ f_pc t <> WRel.
Definition fth_ok (sh : fsh) (t : fth) : Prop :=
  match f_pc t with KUnlock | KCancel => f_closed sh = true | KDone => f_closed sh = true /\ f_cancel sh = true | _ => True end.

Definition FInv (s : fsh * list fth) : Prop :=
  let sh := fst s in let ls := snd s in
  f_readers sh = length (flat_map frh ls) /\ Forall f_releasing ls /\ Forall (fth_ok sh) ls /\
  ( (f_w sh = false /\ flat_map fkh ls = []) \/ (f_w sh = true /\ f_readers sh = 0 /\ exists k, flat_map fkh ls = [k]) ).

Lemma fsum_upd : forall (l : list fth) i x x', nth_error l i = Some x -> fsum (upd_nth i x' l) + frank x = fsum l + frank x'.
Proof.
  unfold fsum. induction l as [|h t IH]; intros [|j] x x' H; cbn [fold_right upd_nth nth_error] in *; try discriminate.
  - inversion H; subst. lia.
  - specialize (IH j x x' H). lia.
Qed.

Lemma fm_nil_in {A B} (f : A -> list B) : forall l x, flat_map f l = [] -> In x l -> f x = [].
Proof.
  induction l as [|h t IH]; cbn; intros x H Hin; [destruct Hin|].
  apply app_eq_nil in H. destruct H as [Hh Ht]. destruct Hin as [<-|Hin]; [exact Hh|apply IH; assumption].
Qed.

Lemma fth_ok_mono sh sh' t :
  (f_closed sh = true -> f_closed sh' = true) -> (f_cancel sh = true -> f_cancel sh' = true) -> fth_ok sh t -> fth_ok sh' t.
Proof. unfold fth_ok. destruct (f_pc t); auto. intros H1 H2 [Ha Hb]. auto. Qed.

Lemma finv_step s i : FInv s -> FInv (sys_step _ _ (fstep false true) s i).
Proof.
  destruct s as [sh ls]. unfold FInv, sys_step. cbn [fst snd]. intros HI. pose proof HI as (Hr & Hrel & Hok & Hk).
  destruct (nth_error ls i) as [x|] eqn:En; [|exact HI].
  assert (Hx : f_releasing x) by (eapply Forall_nth; eauto).
  assert (Hxo : fth_ok sh x) by (eapply Forall_nth; eauto).
  destruct (fm_upd2 frh ls i x En) as (a & b & Ha & Hupd).
  destruct (fm_upd2 fkh ls i x En) as (a' & b' & Ha' & Hupd').
  rewrite Ha in Hr. rewrite !app_length in Hr.
  destruct x as [stall starved pc]. destruct sh as [rd w cl cn]. unfold fstep, fwith.
  cbn [f_pc f_stall f_starved f_readers f_w f_closed f_cancel] in Hr, Hk |- *. unfold f_releasing in Hx. cbn [f_pc] in Hx.
  unfold fth_ok in Hxo. cbn [f_pc f_closed f_cancel] in Hxo.
  (* the steps that leave the shared state unchanged keep every per-thread fact *)
  assert (Hsame : forall pc', frh {| f_stall := stall; f_starved := starved; f_pc := pc' |} = frh {| f_stall := stall; f_starved := starved; f_pc := pc |} ->
                    fkh {| f_stall := stall; f_starved := starved; f_pc := pc' |} = fkh {| f_stall := stall; f_starved := starved; f_pc := pc |} ->
                    f_releasing {| f_stall := stall; f_starved := starved; f_pc := pc' |} ->
                    fth_ok {| f_readers := rd; f_w := w; f_closed := cl; f_cancel := cn |} {| f_stall := stall; f_starved := starved; f_pc := pc' |} ->
                    let ls' := upd_nth i {| f_stall := stall; f_starved := starved; f_pc := pc' |} ls in
                    rd = length (flat_map frh ls') /\ Forall f_releasing ls' /\
                    Forall (fth_ok {| f_readers := rd; f_w := w; f_closed := cl; f_cancel := cn |}) ls' /\
                    ((w = false /\ flat_map fkh ls' = []) \/ (w = true /\ rd = 0 /\ exists k, flat_map fkh ls' = [k]))).
  { intros pc' E1 E2 H3 H4 ls'. unfold ls'. rewrite Hupd, Hupd', E1, E2, <- Ha, <- Ha'.
    destruct HI as (Hr0 & _ & _ & Hk0). cbn [f_readers f_w] in Hr0, Hk0.
    split; [exact Hr0|]. split; [apply Forall_upd; assumption|]. split; [apply Forall_upd; assumption|exact Hk0]. }
  destruct pc as [| | |h| | | | | | |]; cbn [frh fkh f_pc app length] in Ha, Hr, Ha'; cbn [fst snd f_readers f_w f_closed f_cancel andb].
  - (* WThrottle *)
    destruct cn; cbn [fst snd].
    + apply Hsame; [reflexivity|reflexivity|split; discriminate|exact I].
    + destruct starved; cbn [fst snd]; [rewrite (upd_nth_same ls i _ En); exact HI|].
      apply Hsame; [reflexivity|reflexivity|split; discriminate|exact I].
  - (* WLock *)
    destruct w; cbn [fst snd f_readers f_w f_closed f_cancel].
    + rewrite (upd_nth_same ls i _ En). exact HI.
    + split; [rewrite Hupd, !app_length; unfold frh; cbn; cbn in Hr; lia|].
      split; [apply Forall_upd; [exact Hrel|split; discriminate]|].
      split; [apply Forall_upd; [|exact I]; eapply Forall_impl; [|exact Hok]; intros t; apply fth_ok_mono; auto|].
      rewrite Hupd'. cbn [fkh f_pc app]. rewrite <- Ha'. destruct Hk as [Hk|(Hw & _)]; [left; exact Hk|discriminate].
  - (* WHave: release, then write *)
    split; [rewrite Hupd, !app_length; unfold frh; cbn; cbn in Hr; lia|].
    split; [apply Forall_upd; [exact Hrel|split; discriminate]|].
    split; [apply Forall_upd; [|exact I]; eapply Forall_impl; [|exact Hok]; intros t; apply fth_ok_mono; auto|].
    rewrite Hupd'. cbn [fkh f_pc app]. rewrite <- Ha'.
    destruct Hk as [Hk|(Hw & H0 & Hk)]; [left; exact Hk|]. cbn in Hr. lia.
  - (* WIO *)
    destruct Hx as [Hx _]. destruct h; [congruence|].
    destruct (stall && negb cl); cbn [fst snd f_readers f_w f_closed f_cancel].
    + rewrite (upd_nth_same ls i _ En). exact HI.
    + apply Hsame; [reflexivity|reflexivity|split; discriminate|exact I].
  - (* WRel *) destruct Hx as [_ Hx]. congruence.
  - (* WDone *) rewrite (upd_nth_same ls i _ En). exact HI.
  - (* KLock *)
    destruct (w || (0 <? rd)) eqn:Eb; cbn [fst snd f_readers f_w f_closed f_cancel].
    + rewrite (upd_nth_same ls i _ En). exact HI.
    + apply orb_false_iff in Eb. destruct Eb as [Ew Erd]. apply Nat.ltb_ge in Erd. subst w.
      split; [rewrite Hupd, !app_length; unfold frh; cbn; cbn in Hr; lia|].
      split; [apply Forall_upd; [exact Hrel|split; discriminate]|].
      split; [apply Forall_upd; [|exact I]; eapply Forall_impl; [|exact Hok]; intros t; apply fth_ok_mono; auto|].
      right. split; [reflexivity|]. split; [lia|].
      destruct Hk as [(_ & Hk)|(Hw & _)]; [|discriminate].
      rewrite Ha' in Hk. apply app_eq_nil in Hk. destruct Hk as (-> & ->).
      exists KClose. rewrite Hupd'. reflexivity.
  - (* KClose *)
    split; [rewrite Hupd, !app_length; unfold frh; cbn; cbn in Hr; lia|].
    split; [apply Forall_upd; [exact Hrel|split; discriminate]|].
    split; [apply Forall_upd; [|reflexivity]; eapply Forall_impl; [|exact Hok]; intros t; apply fth_ok_mono; auto|].
    destruct Hk as [(_ & Hk)|(Hw & H0 & k & Hk)]; [rewrite Ha' in Hk; exfalso; eapply app_mid_nil; exact Hk|].
    rewrite Ha' in Hk. cbn [app] in Hk. apply app_single in Hk. destruct Hk as (-> & -> & _).
    right. split; [exact Hw|]. split; [exact H0|]. exists KUnlock. rewrite Hupd'. reflexivity.
  - (* KUnlock: the forwarder was closed by this closer's previous step *)
    split; [rewrite Hupd, !app_length; unfold frh; cbn; cbn in Hr; lia|].
    split; [apply Forall_upd; [exact Hrel|split; discriminate]|].
    split; [apply Forall_upd; [|exact Hxo]; eapply Forall_impl; [|exact Hok]; intros t; apply fth_ok_mono; auto|].
    destruct Hk as [(_ & Hk)|(Hw & H0 & k & Hk)]; [rewrite Ha' in Hk; exfalso; eapply app_mid_nil; exact Hk|].
    rewrite Ha' in Hk. cbn [app] in Hk. apply app_single in Hk. destruct Hk as (-> & -> & _).
    left. split; [reflexivity|]. rewrite Hupd'. reflexivity.
  - (* KCancel *)
    split; [rewrite Hupd, !app_length; unfold frh; cbn; cbn in Hr; lia|].
    split; [apply Forall_upd; [exact Hrel|split; discriminate]|].
    split; [apply Forall_upd; [|split; [exact Hxo|reflexivity]]; eapply Forall_impl; [|exact Hok]; intros t; apply fth_ok_mono; auto|].
    rewrite Hupd'. cbn [fkh f_pc app]. rewrite <- Ha'. exact Hk.
  - (* KDone *) rewrite (upd_nth_same ls i _ En). exact HI.
Qed.

Lemma finv_init ts : forallb f_initial ts = true -> FInv (finit, ts).
Proof.
  intros Hi. rewrite forallb_forall in Hi. unfold FInv. cbn [fst snd finit f_readers f_w f_closed f_cancel].
  assert (Hfr : flat_map frh ts = [] /\ flat_map fkh ts = []).
  { induction ts as [|t r IH]; cbn; [auto|].
    assert (Ht : f_initial t = true) by (apply Hi; left; reflexivity).
    destruct IH as [I1 I2]; [intros y Hy; apply Hi; right; exact Hy|].
    unfold f_initial in Ht. unfold frh, fkh. destruct (f_pc t); try discriminate; cbn; auto. }
  destruct Hfr as [H1 H2]. rewrite H1. split; [reflexivity|]. split; [|split; [|left; auto]].
  - rewrite Forall_forall. intros t Ht. apply Hi in Ht. unfold f_initial in Ht. unfold f_releasing.
    destruct (f_pc t); try discriminate; split; discriminate.
  - rewrite Forall_forall. intros t Ht. apply Hi in Ht. unfold f_initial in Ht. unfold fth_ok. destruct (f_pc t); try discriminate; exact I.
Qed.

(* progress: while some thread has not finished and the bridge is being (or has been) closed, some thread has a step that
   strictly lowers its remaining work — whatever the stall / starvation pattern: a thread blocked on I/O holds no lock, and
   every blocking wait is ended by what Close does (closing the forwarder, cancelling the context) *)
Lemma f_progress sh ls : FInv (sh, ls) -> (exists t, In t ls /\ f_is_closer t = true) -> (exists t, In t ls /\ f_finished t = false) ->
  exists i x, nth_error ls i = Some x /\ frank (fst (fstep false true x sh)) < frank x.
Proof.
  intros (Hr & Hrel & Hok & Hk) (kc & Hkin & Hkc) (u & Huin & Hu). cbn [fst snd] in *.
  assert (Hstep : forall x, In x ls -> frank (fst (fstep false true x sh)) < frank x ->
                    exists i x0, nth_error ls i = Some x0 /\ frank (fst (fstep false true x0 sh)) < frank x0).
  { intros x Hx Hlt. destruct (In_nth_error _ _ Hx) as [i Hi]. exists i, x. auto. }
  destruct (existsb f_close_pending ls) eqn:Ep.
  - (* a Close is pending *)
    apply existsb_exists in Ep. destruct Ep as (t & Hin & Hp).
    destruct Hk as [(Hw & Hk)|(Hw & H0 & k & Hk)].
    + assert (Hkt : fkh t = []) by (eapply fm_nil_in; eauto).
      unfold f_close_pending in Hp. unfold fkh in Hkt.
      destruct (f_pc t) eqn:Hpc; try discriminate.
      * (* KLock *)
        destruct (f_readers sh) as [|n] eqn:Er.
        { apply (Hstep t Hin). unfold fstep, frank. rewrite Hpc, Hw, Er. cbn. lia. }
        assert (Hne : flat_map frh ls <> []) by (intros E; rewrite E in Hr; cbn in Hr; lia).
        apply fm_nonempty in Hne. destruct Hne as (x & Hx & Hf).
        rewrite Forall_forall in Hrel. destruct (Hrel x Hx) as [Hn1 Hn2].
        assert (Hpx : f_pc x = WHave).
        { unfold frh in Hf. destruct (f_pc x) as [| | |h| | | | | | |]; try congruence. destruct h; congruence. }
        apply (Hstep x Hx). unfold fstep, frank. rewrite Hpx. cbn. lia.
      * (* KCancel *) apply (Hstep t Hin). unfold fstep, frank. rewrite Hpc. cbn. lia.
    + assert (Hne : flat_map fkh ls <> []) by (rewrite Hk; discriminate).
      apply fm_nonempty in Hne. destruct Hne as (x & Hx & Hf).
      apply (Hstep x Hx). unfold fkh in Hf. unfold fstep, frank. destruct (f_pc x); try congruence; cbn; lia.
  - (* every closer has returned: the forwarder is closed and the context cancelled *)
    assert (Hnp : forall t, In t ls -> f_close_pending t = false).
    { intros t Ht. destruct (f_close_pending t) eqn:E; [|reflexivity].
      assert (existsb f_close_pending ls = true) by (apply existsb_exists; exists t; auto). congruence. }
    assert (Hdone : f_closed sh = true /\ f_cancel sh = true).
    { rewrite Forall_forall in Hok. specialize (Hok kc Hkin). specialize (Hnp kc Hkin).
      unfold fth_ok in Hok. unfold f_is_closer in Hkc. unfold f_close_pending in Hnp. destruct (f_pc kc); try discriminate. exact Hok. }
    destruct Hdone as [Hcl Hcn].
    assert (Hw : f_w sh = false).
    { destruct Hk as [(Hw & _)|(Hw & _ & k & Hk)]; [exact Hw|]. exfalso.
      assert (Hne : flat_map fkh ls <> []) by (rewrite Hk; discriminate).
      apply fm_nonempty in Hne. destruct Hne as (x & Hx & Hf). specialize (Hnp x Hx).
      unfold fkh in Hf. unfold f_close_pending in Hnp. destruct (f_pc x); try discriminate; congruence. }
    specialize (Hnp u Huin). rewrite Forall_forall in Hrel. destruct (Hrel u Huin) as [Hn1 Hn2].
    apply (Hstep u Huin). unfold f_finished in Hu. unfold f_close_pending in Hnp. unfold fstep, frank.
    destruct (f_pc u) as [| | |h| | | | | | |] eqn:Hpc; try discriminate; cbn [andb].
    + rewrite Hcn. cbn. lia.
    + rewrite Hw. cbn. lia.
    + cbn. lia.
    + destruct h; [congruence|]. rewrite Hcl. rewrite andb_false_r. cbn. lia.
    + congruence.
Qed.

Lemma fstep_closer t sh : f_is_closer (fst (fstep false true t sh)) = f_is_closer t.
Proof.
  unfold fstep, f_is_closer, fwith. destruct (f_pc t) as [| | |h| | | | | | |] eqn:E; cbn [f_pc fst];
    repeat match goal with |- context [if ?c then _ else _] => destruct c end; cbn [fst f_pc]; try rewrite E; reflexivity.
Qed.

Lemma closer_preserved sh ls i :
  (exists t, In t ls /\ f_is_closer t = true) ->
  exists t, In t (snd (sys_step _ _ (fstep false true) (sh, ls) i)) /\ f_is_closer t = true.
Proof.
  intros (t & Hin & Hc). unfold sys_step. cbn [fst snd].
  destruct (nth_error ls i) as [x|] eqn:En; [|exists t; auto].
  destruct (fstep false true x sh) as [x' sh'] eqn:Es. cbn [snd].
  assert (Hx' : f_is_closer x' = f_is_closer x) by (pose proof (fstep_closer x sh) as H; rewrite Es in H; exact H).
  clear Es. revert i En. induction ls as [|h r IH]; intros [|j] En; cbn in *; try discriminate.
  - inversion En; subst. destruct Hin as [<-|Hin]; [exists x'; split; [left; reflexivity|congruence]|exists t; auto].
  - destruct Hin as [<-|Hin]; [exists h; auto|]. destruct (IH Hin j En) as (y & Hy & Hyc). exists y; auto.
Qed.

Lemma fsum_zero_finished ls : fsum ls = 0 -> forallb f_finished ls = true.
Proof.
  induction ls as [|h r IH]; intros H; [reflexivity|].
  unfold fsum in H. cbn [fold_right] in H. fold (fsum r) in H. cbn [forallb]. rewrite IH by lia.
  unfold frank in H. unfold f_finished. destruct (f_pc h); try reflexivity; lia.
Qed.

Lemma f_all_complete_from : forall n sh ls, FInv (sh, ls) -> (exists t, In t ls /\ f_is_closer t = true) -> fsum ls <= n ->
  exists sched, forallb f_finished (snd (run _ _ (fstep false true) (sh, ls) sched)) = true.
Proof.
  induction n as [|n IH]; intros sh ls HI Hc Hn.
  - exists []. cbn. apply fsum_zero_finished. lia.
  - destruct (forallb f_finished ls) eqn:Eall.
    + exists []. exact Eall.
    + assert (Hex : exists t, In t ls /\ f_finished t = false).
      { clear - Eall. induction ls as [|h r IH]; cbn in Eall; [discriminate|].
        destruct (f_finished h) eqn:E; [|exists h; split; [left; reflexivity|exact E]].
        cbn in Eall. destruct (IH Eall) as (t & Ht & Hf). exists t; split; [right; exact Ht|exact Hf]. }
      destruct (f_progress sh ls HI Hc Hex) as (i & x & Hi & Hlt).
      pose proof (finv_step (sh, ls) i HI) as HI'.
      pose proof (closer_preserved sh ls i Hc) as Hc'.
      unfold sys_step in HI', Hc'. cbn [fst snd] in HI', Hc'. rewrite Hi in HI', Hc'.
      destruct (fstep false true x sh) as [x' sh'] eqn:Es. cbn [fst snd] in Hlt, Hc'.
      pose proof (fsum_upd ls i x x' Hi) as Hsum.
      destruct (IH sh' (upd_nth i x' ls) HI' Hc') as [sched Hs]; [lia|].
      exists (i :: sched). cbn [run fold_left]. unfold sys_step at 2. cbn [fst snd]. rewrite Hi, Es. exact Hs.
Qed.

(* the theorem: ANY number of forwarding copy steps (each may be starved of tokens and/or write to a stalled peer) and Close
   calls (at least one), ANY schedule so far: the read lock is never held across the blocking write, and from wherever the
   system stands there is a continuation in which EVERY thread has finished: every Close has returned and both copy loops
   have ended (so Start returns) — every blocking wait of the copy loop is ended by what Close does *)
Theorem close_completes_despite_stalled_writes ts pre :
  forallb f_initial ts = true -> existsb f_is_closer ts = true ->
  let s := run _ _ (fstep false true) (finit, ts) pre in
  Forall f_releasing (snd s) /\
  (exists sched, forallb f_finished (snd (run _ _ (fstep false true) s sched)) = true).
Proof.
  intros Hi Hc s.
  assert (HI : FInv s /\ exists t, In t (snd s) /\ f_is_closer t = true).
  { unfold s. apply (inv_all_schedules _ _ (fstep false true) (fun s => FInv s /\ exists t, In t (snd s) /\ f_is_closer t = true)).
    - intros [sh ls] i [H1 H2]. split; [apply finv_step; exact H1|apply closer_preserved; exact H2].
    - split; [apply finv_init; exact Hi|]. apply existsb_exists in Hc. exact Hc. }
  destruct s as [sh ls]. destruct HI as [HI Hcl]. split; [exact (proj1 (proj2 HI))|].
  apply (f_all_complete_from (fsum ls)); [exact HI|exact Hcl|lia].
Qed.

(* the read lock held across the write: a write to a stalled peer parks holding the lock, Close waits for the lock, and the
   only step that would release the write (closing the forwarder) is behind that lock: no thread can ever move again *)
Lemma run_fixpoint {Sh Lo} (step : Lo -> Sh -> Lo * Sh) (s : Sh * list Lo) :
  (forall i, sys_step _ _ step s i = s) -> forall sched, run _ _ step s sched = s.
Proof. intros H sched. induction sched as [|i r IH]; cbn; [reflexivity|]. rewrite H. exact IH. Qed.

Lemma lock_held_across_write_refuted :
  exists pre,
    let s := run _ _ (fstep true true) (finit, [ {| f_stall := true; f_starved := false; f_pc := WLock |};
                                                 {| f_stall := false; f_starved := false; f_pc := KLock |} ]) pre in
    (forall sched, run _ _ (fstep true true) s sched = s) /\ existsb f_close_pending (snd s) = true.
Proof.
  exists [0; 0; 0; 1]. split; [|vm_compute; reflexivity].
  apply run_fixpoint. intros [|[|i]]; [vm_compute; reflexivity|vm_compute; reflexivity|]. destruct i; vm_compute; reflexivity.
Qed.

(* the token wait not tied to the bridge context: Close runs to completion, the starved copy step sleeps on: no schedule
   ever moves it, so the copy loop never ends and Start never returns *)
Lemma uncancellable_token_wait_refuted :
  exists pre,
    let s := run _ _ (fstep false false) (finit, [ {| f_stall := false; f_starved := true; f_pc := WThrottle |};
                                                   {| f_stall := false; f_starved := false; f_pc := KLock |} ]) pre in
    (forall sched, run _ _ (fstep false false) s sched = s) /\ map f_pc (snd s) = [WThrottle; KDone] /\ f_cancel (fst s) = true.
Proof.
  exists [0; 1; 1; 1; 1]. split; [|vm_compute; auto].
  apply run_fixpoint. intros [|[|i]]; [vm_compute; reflexivity|vm_compute; reflexivity|]. destruct i; vm_compute; reflexivity.
Qed.

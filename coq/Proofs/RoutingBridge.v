(* Proofs/RoutingBridge.v — the routing statements at the level of bridge lifecycles (Model/RoutingBridge.v). *)
From Coq Require Import List NArith ZArith Bool Lia.
Import ListNotations.
From TX Require Import Base.Val Model.RoutingBridge Proofs.Routing.
Open Scope N_scope.

(* what a bridge-level history may contain for the statements about tunnel id t *)
Definition bquiet (t : str) (b : bop) : Prop :=        (* nothing registers t *)
  match b with
  | BStart _ r => w_tunnel r <> t
  | BEnd _ _ => True
  | BRefused _ _ => True
  | BOther o => ~ writes_tunnel t o
  end.
Definition bwaiting (n : nat) (t : str) (b : bop) : Prop :=   (* the tunnel keeps waiting on node n *)
  match b with
  | BStart n' r => w_tunnel r = t -> n' = n            (* only duplicate starts on the same node *)
  | BEnd _ t' => t' <> t
  | BRefused _ _ => True                               (* refused opens of ANY id on ANY node, t included *)
  | BOther o => ~ sets_tunnel t o
  end.

Lemma bi_set_same : forall ix n t b, bi_set ix n t b n t = b.
Proof.
  intros. unfold bi_set. rewrite Nat.eqb_refl. assert (E : list_eqb t t = true) by (apply list_eqb_iff; reflexivity).
  rewrite E. reflexivity.
Qed.

Lemma bi_set_other_t : forall ix n t b n' t', t' <> t -> bi_set ix n t b n' t' = ix n' t'.
Proof.
  intros. unfold bi_set. destruct (list_eqb t' t) eqn:E; [apply list_eqb_iff in E; contradiction|].
  rewrite andb_false_r. reflexivity.
Qed.

Lemma bcompile_quiet : forall t h ix, Forall (bquiet t) h -> Forall (fun o => ~ writes_tunnel t o) (fst (bcompile ix h)).
Proof.
  intros t h. induction h as [|b h IH]; intros ix Hf; [constructor|].
  inversion Hf as [|b' h' Hb Hh]; subst b' h'. cbn [bcompile].
  destruct (bcalls ix b) as [os ix1] eqn:Ec. specialize (IH ix1 Hh). destruct (bcompile ix1 h) as [os' ix2]. cbn [fst] in *.
  apply Forall_app. split; [|exact IH].
  destruct b as [n r|n t'|n t'|o]; cbn [bcalls bquiet] in *.
  - destruct (ix n (w_tunnel r)); injection Ec as E1 _; subst os; [constructor|].
    constructor; [cbn [writes_tunnel]; exact Hb|constructor].
  - destruct (ix n t'); injection Ec as E1 _; subst os; [|constructor].
    constructor; [cbn [writes_tunnel]; tauto|constructor].
  - injection Ec as E1 _. subst os. constructor.
  - injection Ec as E1 _. subst os. constructor; [exact Hb|constructor].
Qed.

Lemma bcompile_waiting : forall n t h ix, ix n t = true -> Forall (bwaiting n t) h ->
  Forall (fun o => ~ sets_tunnel t o) (fst (bcompile ix h)).
Proof.
  intros n t h. induction h as [|b h IH]; intros ix Hix Hf; [constructor|].
  inversion Hf as [|b' h' Hb Hh]; subst b' h'. cbn [bcompile].
  destruct (bcalls ix b) as [os ix1] eqn:Ec.
  assert (Hix1 : ix1 n t = true /\ Forall (fun o => ~ sets_tunnel t o) os).
  { destruct b as [n' r|n' t'|n' t'|o]; cbn [bcalls bwaiting] in *.
    - destruct (ix n' (w_tunnel r)) eqn:Ei; injection Ec as E1 E2; subst os ix1; [split; [exact Hix|constructor]|].
      assert (Hne : w_tunnel r <> t).
      { intro K. specialize (Hb K). subst n' . rewrite K in Ei. rewrite Hix in Ei. discriminate. }
      split; [rewrite bi_set_other_t; [exact Hix|intro K; apply Hne; symmetry; exact K]|].
      constructor; [cbn [sets_tunnel]; exact Hne|constructor].
    - destruct (ix n' t') eqn:Ei; injection Ec as E1 E2; subst os ix1; [|split; [exact Hix|constructor]].
      split; [rewrite bi_set_other_t; [exact Hix|intro K; apply Hb; symmetry; exact K]|].
      constructor; [cbn [sets_tunnel]; exact Hb|constructor].
    - injection Ec as E1 E2. subst os ix1. split; [exact Hix|constructor].
    - injection Ec as E1 E2. subst os ix1. split; [exact Hix|]. constructor; [exact Hb|constructor]. }
  destruct Hix1 as [Hix1 Hos]. specialize (IH ix1 Hix1 Hh). destruct (bcompile ix1 h) as [os' ix2]. cbn [fst] in *.
  apply Forall_app. split; assumption.
Qed.

Section BridgeProofs.
  Variable gstr : Type.
  Variable enc : waiting -> gstr.
  Variable dec : gstr -> option waiting.
  Variable decm : gstr -> option waiting.
  Variable of_addr : str -> gstr.
  Variable to_addr : gstr -> str.
  Variable keep : cell -> N -> bool.

  Notation step := (step gstr enc dec decm of_addr to_addr keep).
  Notation final := (final gstr enc dec decm of_addr to_addr keep).
  Notation lookup := (lookup gstr enc dec decm of_addr to_addr keep).
  Notation now := (now gstr).
  Notation bnow := (bnow gstr).

  (* "After the tunnel ends the id no longer resolves": node n's bridge for t is indexed; its lifecycle ends (any way);
     then, along every bridge-level history in which nobody registers t again (other tunnels start and end on any
     nodes, ends of t on other nodes, lookups, ticks, ...), a lookup of t from ANY node answers NotFound *)
  Theorem gone_after_tunnel_end : forall c s ix n t h n2,
    keys_disjoint c -> c_route c (wait_key c t) = true -> t <> [] ->
    ix n t = true -> Forall (bquiet t) h ->
    let (os1, ix1) := bcalls ix (BEnd n t) in
    lookup c (final c (final c s os1) (fst (bcompile ix1 h))) n2 t = RNotFound.
  Proof.
    intros c s ix n t h n2 Hd Hr Ht Hix Hf. cbn [bcalls]. rewrite Hix.
    pose proof (gone_after_remove gstr enc dec decm of_addr to_addr keep c s n t
                  (fst (bcompile (bi_set ix n t false) h)) n2 Hd Hr Ht (bcompile_quiet t h _ Hf)) as K.
    rewrite final_cons, final_nil. exact K.
  Qed.

  (* "While a tunnel's source end is waiting on some node ... resolves to the correct source node and exactly the data":
     node n's startSourceBridge for r is ACCEPTED (no bridge indexed for the id); then along every bridge-level history
     in which that tunnel keeps waiting on n (duplicate starts on n allowed - they are rejected and change nothing; other
     tunnels start and end anywhere), a lookup from ANY node returns exactly r with its stamps while unexpired *)
  Theorem waiting_bridge_routable : forall c s ix n r h n2,
    keys_disjoint c -> c_route c (wait_key c (w_tunnel r)) = true -> c_ttl c <> 0 -> w_tunnel r <> [] ->
    let r' := stamp r (now s) (now s + c_ttl c) in
    dec (enc r') = Some r' ->
    ix n (w_tunnel r) = false -> Forall (bwaiting n (w_tunnel r)) h ->
    let (os1, ix1) := bcalls ix (BStart n r) in
    let s2 := final c (final c s os1) (fst (bcompile ix1 h)) in
    now s2 <= now s + c_ttl c -> bnow s2 <= bnow s + c_ttl c ->
    lookup c s2 n2 (w_tunnel r) = ROk r'.
  Proof.
    intros c s ix n r h n2 Hd Hr Httl Ht r' Hc Hix Hf. cbn [bcalls]. rewrite Hix.
    intros Hn Hb. rewrite final_cons, final_nil in *.
    apply (routable_from_any_node gstr enc dec decm of_addr to_addr keep c s n r _ n2 Hd Hr Httl Ht Hc); [|exact Hn|exact Hb].
    apply (bcompile_waiting n (w_tunnel r) h); [apply bi_set_same|exact Hf].
  Qed.
End BridgeProofs.

(* ---- a concrete bridge-level run of the clustered deployment (non-vacuity): node 0 starts the tunnel; a duplicate start on
   node 0 with other data is rejected and changes nothing; another tunnel starts and ends on node 1; time passes; node 1
   resolves the id to node 0's record; node 0's lifecycle ends; the id is gone on every node *)
From TX Require Import Proofs.SideC09.

Definition ex_rec_dup : waiting :=
  mkW (w_tunnel ex_rec) [100;117;112] [] [120] 5%Z 6%Z [100] 1%Z 0 0.
Definition ex_bridge_history : list bop :=
  [BStart 0 ex_rec_dup; BStart 1 ex_other; BOther (OTick 1000 1000); BEnd 1 (w_tunnel ex_other); BOther (OLookup 2 (w_tunnel ex_other))].
Definition ex_ix0 : bindex := fun _ _ => false.

Lemma ex_bridge_run :
  let c := cfg_hybrid true 30000000000 in
  let '(os1, ix1) := bcalls ex_ix0 (BStart 0 ex_rec) in
  let '(os2, ix2) := bcompile ix1 ex_bridge_history in
  let s2 := ex_final c (ex_final c (init ex_gstr) os1) os2 in
  Forall (bwaiting 0 (w_tunnel ex_rec)) ex_bridge_history
  /\ ix2 0%nat (w_tunnel ex_rec) = true
  /\ length os2 = 4%nat
  /\ ex_lookup c s2 1 (w_tunnel ex_rec) = ROk (stamp ex_rec 0 30000000000)
  /\ let '(os3, ix3) := bcalls ix2 (BEnd 0 (w_tunnel ex_rec)) in
     ex_lookup c (ex_final c s2 os3) 1 (w_tunnel ex_rec) = RNotFound
     /\ ex_lookup c (ex_final c s2 os3) 0 (w_tunnel ex_rec) = RNotFound.
Proof.
  cbv zeta. split.
  - unfold ex_bridge_history. repeat (apply Forall_cons; [cbn [bwaiting sets_tunnel w_tunnel ex_rec ex_rec_dup ex_other]; try tauto; try (intro K; discriminate); try (intros _; reflexivity)|]).
    apply Forall_nil.
  - vm_compute. repeat split; reflexivity.
Qed.

(* the placement of the target's control connection does not enter [bcalls]; the variant that skips the publication when it
   is on the starting node leaves a WAITING tunnel unroutable from the other node *)
Lemma skip_local_target_refuted :
  let c := cfg_hybrid true 30000000000 in
  let ctl : nat -> Z -> bool := fun n _ => Nat.eqb n 0 in
  ex_lookup c (ex_final c (init ex_gstr) (fst (bcalls ex_ix0 (BStart 0 ex_rec)))) 1 (w_tunnel ex_rec)
    = ROk (stamp ex_rec 0 30000000000)
  /\ snd (bcalls_skip_local ctl ex_ix0 (BStart 0 ex_rec)) 0%nat (w_tunnel ex_rec) = true
  /\ ex_lookup c (ex_final c (init ex_gstr) (fst (bcalls_skip_local ctl ex_ix0 (BStart 0 ex_rec)))) 1 (w_tunnel ex_rec)
    = RNotFound.
Proof. vm_compute. repeat split; reflexivity. Qed.

(* refused opens for the id of a WAITING tunnel - a duplicate on the same node, a failed open on another node - leave it
   routable (bcalls makes no table call for them); the "clean up on refusal" variant wipes the waiting tunnel's record *)
Definition ex_refused_history : list bop := [BStart 0 ex_rec_dup; BRefused 1 (w_tunnel ex_rec); BRefused 0 (w_tunnel ex_rec)].

Lemma cleanup_on_refusal_refuted :
  let c := cfg_hybrid true 30000000000 in
  let '(os1, ix1) := bcalls ex_ix0 (BStart 0 ex_rec) in
  let s1 := ex_final c (init ex_gstr) os1 in
  Forall (bwaiting 0 (w_tunnel ex_rec)) ex_refused_history
  /\ ex_lookup c (ex_final c s1 (fst (bcompile ix1 ex_refused_history))) 1 (w_tunnel ex_rec) = ROk (stamp ex_rec 0 30000000000)
  /\ ex_lookup c (ex_final c s1 (fst (bcalls_cleanup_on_refusal ix1 (BStart 0 ex_rec_dup)))) 1 (w_tunnel ex_rec) = RNotFound
  /\ ex_lookup c (ex_final c s1 (fst (bcalls_cleanup_on_refusal ix1 (BRefused 1 (w_tunnel ex_rec))))) 0 (w_tunnel ex_rec) = RNotFound.
Proof.
  cbv zeta. split.
  - unfold ex_refused_history. repeat (apply Forall_cons; [cbn [bwaiting]; try exact I; intros _; reflexivity|]). apply Forall_nil.
  - vm_compute. repeat split; reflexivity.
Qed.

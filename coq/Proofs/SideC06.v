(* Proofs/SideC06.v — side conditions over the values regenerated from the repository (Gen/C06.v), re-proved on
   every run.  The central one: the storage-call sequence of the real ActivateConnectionCode / RevokeConnectionCode
   (solo run, and with each single forward-write fault) equals the model's sequence for the variant of the code the
   harness probed in the tree — reordering, adding or dropping a storage call in the code breaks it. *)
From Coq Require Import List Arith NArith Bool Lia.
From TX Require Import Base.Val Model.ConnCode Proofs.ConnCode Gen.C06.
Import ListNotations.

Definition impl_cfg : cfg := {| use_claim := impl_use_claim; create_cleanup := impl_create_cleanup; use_adm := impl_use_adm; purge_revoked := false; claim_lease := None |}.

Fixpoint solo (C : cfg) (P : params) (fuel : nat) (t : lo) (s : sh) : list nat :=
  match fuel with
  | O => []
  | S k => match pc_code (l_pc t) with
           | O => []
           | c => let '(t', s') := tstep C P t s in c :: solo C P k t' s'
           end
  end.

Definition solo_act (f : option nat) : list nat :=
  solo impl_cfg P0 40 (init_lo 0 (KAct 101 0 true) false f) (init_sh (Some fresh_code)).
Definition solo_rev : list nat :=
  solo impl_cfg P0 40 (init_lo 0 KRev false None) (init_sh (Some fresh_code)).

Lemma side_solo_activate_trace : solo_act None = solo_activate_trace.
Proof. vm_compute. reflexivity. Qed.
Lemma side_solo_revoke_trace : solo_rev = solo_revoke_trace.
Proof. vm_compute. reflexivity. Qed.
Lemma side_solo_fault_traces : map (fun k => solo_act (Some k)) (seq 0 11) = solo_activate_fault_traces.
Proof. vm_compute. reflexivity. Qed.

(* the three key families of a code (record by code, record by id, claim) are pairwise not prefixes of one
   another, and none is a prefix of / prefixed by the mapping keys: a claim can never alias a record *)
Fixpoint is_prefix (a b : list N) : bool :=
  match a, b with
  | [], _ => true
  | x :: a', y :: b' => N.eqb x y && is_prefix a' b'
  | _, [] => false
  end.
Definition unrelated (a b : list N) : bool := negb (is_prefix a b) && negb (is_prefix b a).
Lemma side_key_families_disjoint :
  forallb (fun p => unrelated (fst p) (snd p))
          [(key_code, key_id); (key_code, key_claim); (key_id, key_claim); (key_code, key_main); (key_id, key_main);
           (key_claim, key_main); (key_claim, key_glob); (key_claim, key_cidx); (key_main, key_cidx); (key_glob, key_cidx);
           (key_main, key_glob); (key_adm, key_code); (key_adm, key_id); (key_adm, key_claim); (key_adm, key_main);
           (key_adm, key_glob); (key_adm, key_cidx)] = true.
Proof. vm_compute. reflexivity. Qed.

(* every key family the activation / revocation touches (keyed by gate-op code, first key seen in the solo and
   single-fault runs) is cluster-visible under hybrid.DefaultConfig(): category 2 (shared) or 3 (shared+persistent).
   A key that leaves the shared space (0 = node-local runtime cache, 1 = persistent + local cache) would make the claim,
   the admission marker, the code record or the mapping invisible to the other nodes. *)
Definition required_ops : list nat :=
  [1; 2; 4; 5; 6; 7; 8; 9; 10; 11; 12; 13] ++ (if impl_use_claim then [3; 14] else []) ++ (if impl_use_adm then [16; 17] else []).
Lemma side_key_families_cluster_visible :
  forallb (fun p => Nat.eqb (snd p) 2 || Nat.eqb (snd p) 3) key_categories = true /\
  forallb (fun op => existsb (fun p => Nat.eqb (fst p) op) key_categories) required_ops = true.
Proof. vm_compute. split; reflexivity. Qed.

(* lifetimes the real calls ask for (regenerated, whole seconds, fresh 10-minute code) against the model's:
   - the claim marker outlives the code's remaining activation window at the moment it is taken (hypothesis of
     C06_claim_cannot_lapse_within_window / inv_dl; a capped lease breaks this line);
   - the model's `claim_ttl` (remaining window), `adm_ttl` and the code records' lifetime are the real ones. *)
Definition ttl_of (op : nat) : N :=
  match find (fun p => Nat.eqb (fst p) op) key_ttl_s with Some p => snd p | None => 0%N end.
Lemma side_claim_lifetime_covers_window :
  impl_use_claim = true -> claim_lifetime_covers_window = true /\ ttl_of 3 = code_window_s.
Proof. vm_compute. intros _. split; reflexivity. Qed.
Lemma side_marker_lifetimes_match_model :
  (impl_use_adm = true -> ttl_of 16 = adm_ttl) /\ ttl_of 8 = code_window_s /\ ttl_of 9 = code_window_s /\
  code_window_s = p_win P0.
Proof. vm_compute. repeat split; intros; reflexivity. Qed.

(* the stores the repositories are given in this tree (memory, hybrid over it) provide the atomic set-if-absent: the model's
   one-step SetNX is what Claim / AcquireAdmission execute; a non-atomic fallback for stores without it is outside the property *)
Lemma side_shipped_stores_have_cas : shipped_stores_have_cas = true.
Proof. vm_compute. reflexivity. Qed.

(* the quota defaults are positive (a zero quota would reject every activation) *)
Lemma side_quota_defaults_positive : 0 < DefaultMaxActiveCodesPerClient /\ 0 < DefaultMaxActiveMappingsPerClient.
Proof. unfold DefaultMaxActiveCodesPerClient, DefaultMaxActiveMappingsPerClient. lia. Qed.

(* which variant the tree is: the theorems of Properties/C06.v are about Current; on a tree where a flag is false the
   corresponding `known:` finding is expected and the check reports it *)
Definition tree_is_repaired : bool := impl_use_claim && impl_create_cleanup && impl_use_adm.

(* Proofs/Limits.v — C17: occupancy never exceeds the configured limit, for every schedule of any number of acceptters *)
From TX Require Import Model.Limits.
From Coq Require Import Lia ZArith ZifyNat ZifyBool.

(* ---------------------------------------------------------------- generic counting over the thread list *)
Lemma countb_upd_nth {A} (p : A -> bool) : forall (l : list A) i x x',
  nth_error l i = Some x ->
  countb p (upd_nth i x' l) + (if p x then 1 else 0) = countb p l + (if p x' then 1 else 0).
Proof.
  induction l as [|h t IH]; intros [|j] x x' H; cbn in *; try discriminate.
  - injection H as ->. lia.
  - specialize (IH j x x' H). lia.
Qed.

Lemma countb_le_length {A} (p : A -> bool) l : countb p l <= length l.
Proof. induction l as [|h t IH]; cbn; [lia|]. destruct (p h); lia. Qed.

Lemma countb_none {A} (p : A -> bool) l : (forall x, In x l -> p x = false) -> countb p l = 0.
Proof.
  induction l as [|h t IH]; intros H; cbn; [reflexivity|].
  rewrite (H h (or_introl eq_refl)). rewrite IH; [reflexivity|]. intros x Hx. apply H. now right.
Qed.

Lemma countb_imp {A} (p q : A -> bool) l : (forall x, p x = true -> q x = true) -> countb p l <= countb q l.
Proof.
  intros Hpq. induction l as [|h t IH]; cbn; [lia|].
  destruct (p h) eqn:Ep; [rewrite (Hpq h Ep); lia|]. destruct (q h); lia.
Qed.

Lemma Forall_upd_nth {A} (P : A -> Prop) : forall (l : list A) i x, Forall P l -> P x -> Forall P (upd_nth i x l).
Proof.
  induction l as [|h t IH]; intros [|j] x Hl Hx; cbn; auto.
  - inversion Hl; subst. constructor; assumption.
  - inversion Hl; subst. constructor; [assumption|]. apply IH; assumption.
Qed.

Lemma Forall_nth_error {A} (P : A -> Prop) (l : list A) i x : Forall P l -> nth_error l i = Some x -> P x.
Proof. intros Hl Hn. rewrite Forall_forall in Hl. apply Hl. eapply nth_error_In. exact Hn. Qed.

Lemma at_cap_true max n : at_cap max n = true -> 0 < max /\ max <= n.
Proof. unfold at_cap. intros H. apply andb_prop in H. destruct H as [H1 H2]. apply Nat.ltb_lt in H1. apply Nat.leb_le in H2. lia. Qed.
Lemma at_cap_false max n : at_cap max n = false -> max = 0 \/ n < max.
Proof.
  unfold at_cap. intros H. apply andb_false_iff in H. destruct H as [H|H].
  - apply Nat.ltb_ge in H. lia.
  - apply Nat.leb_gt in H. lia.
Qed.
Lemma at_cap_zero n : at_cap 0 n = false.
Proof. reflexivity. Qed.

(* ================================================================ 1. server-wide connection cap *)
Section Server.
  Variable max : nat.
  Variables base sbase : nat.    (* connections / streams that exist beforehand and are not touched by the callers *)

  Definition SCount (s : ssh * list sloc) : Prop :=
    conns (fst s) = base + countb (s_is SAccepted) (snd s) /\
    streams (fst s) = sbase + countb s_holds_stream (snd s).
  Definition SCap (s : ssh * list sloc) : Prop := 0 < max -> conns (fst s) <= max.

  (* bookkeeping, both variants: every entry of connMap beyond the pre-existing ones belongs to exactly one accepted,
     not yet closed caller; every stream to one caller that got that far and was not refused.  A refused caller
     (SRefused) is counted in neither: it has left nothing behind. *)
  Lemma s_count_step v s i : SCount s -> SCount (sys_step _ _ (sstep v max) s i).
  Proof.
    destruct s as [sh ls]. unfold SCount, sys_step. cbn [fst snd]. intros [Hc Hs].
    destruct (nth_error ls i) as [lo|] eqn:E; [|cbn [fst snd]; auto].
    pose proof (fun lo' => countb_upd_nth (s_is SAccepted) ls i lo lo' E) as HA.
    pose proof (fun lo' => countb_upd_nth s_holds_stream ls i lo lo' E) as HS.
    destruct lo as [pc cl]. unfold sstep. cbn [s_pc s_closes].
    destruct pc.
    - destruct (at_cap max (conns sh));
        match goal with |- context [upd_nth i ?x ls] => specialize (HA x); specialize (HS x) end;
        cbn in HA, HS |- *; lia.
    - match goal with |- context [upd_nth i ?x ls] => specialize (HA x); specialize (HS x) end; cbn in HA, HS |- *; lia.
    - match goal with |- context [upd_nth i ?x ls] => specialize (HA x); specialize (HS x) end; cbn in HA, HS |- *; lia.
    - destruct v; [|destruct (at_cap max (conns sh))];
        match goal with |- context [upd_nth i ?x ls] => specialize (HA x); specialize (HS x) end;
        cbn in HA, HS |- *; lia.
    - match goal with |- context [upd_nth i ?x ls] => specialize (HA x); specialize (HS x) end; cbn in HA, HS |- *; lia.
    - destruct cl;
        match goal with |- context [upd_nth i ?x ls] => specialize (HA x); specialize (HS x) end;
        cbn in HA, HS |- *; lia.
    - match goal with |- context [upd_nth i ?x ls] => specialize (HA x); specialize (HS x) end; cbn in HA, HS |- *; lia.
    - match goal with |- context [upd_nth i ?x ls] => specialize (HA x); specialize (HS x) end; cbn in HA, HS |- *; lia.
  Qed.

  (* the repaired code: the insert happens in the same critical section as a check *)
  Lemma s_cap_step s i : SCap s -> SCap (sys_step _ _ (sstep Current max) s i).
  Proof.
    destruct s as [sh ls]. unfold SCap, sys_step. cbn [fst snd]. intros Hc Hm.
    destruct (nth_error ls i) as [lo|] eqn:E; [|cbn [fst snd]; auto].
    destruct lo as [pc cl]. unfold sstep. cbn [s_pc s_closes].
    destruct pc; cbn [fst snd conns].
    - destruct (at_cap max (conns sh)); cbn [fst conns]; auto.
    - auto.
    - auto.
    - destruct (at_cap max (conns sh)) eqn:Ec; cbn [fst conns]; [auto|].
      apply at_cap_false in Ec. lia.
    - auto.
    - destruct cl; cbn [fst conns]; [|auto]. specialize (Hc Hm). lia.
    - auto.
    - auto.
  Qed.

  Lemma s_count_all v sh ts sched : SCount (sh, ts) -> SCount (srun v max sh ts sched).
  Proof. intros H. unfold srun. apply inv_all_schedules; [intros s i; apply s_count_step|exact H]. Qed.

  Lemma s_cap_all sh ts sched : SCap (sh, ts) -> SCap (srun Current max sh ts sched).
  Proof. intros H. unfold srun. apply inv_all_schedules; [intros s i; apply s_cap_step|exact H]. Qed.
End Server.

Lemma s_fresh_count (flags : list bool) :
  countb (s_is SAccepted) (map s_new flags) = 0 /\ countb s_holds_stream (map s_new flags) = 0.
Proof. induction flags as [|f t [IH1 IH2]]; cbn; auto. Qed.

(* any limit, any number of callers (each closing its connection later or not), any schedule *)
Theorem server_cap_never_exceeds max base sbase (flags : list bool) sched :
  (0 < max -> base <= max) ->
  let s := srun Current max {| conns := base; streams := sbase |} (map s_new flags) sched in
  (0 < max -> conns (fst s) <= max) /\
  conns (fst s) = base + countb (s_is SAccepted) (snd s) /\
  streams (fst s) = sbase + countb s_holds_stream (snd s).
Proof.
  intros Hb s. destruct (s_fresh_count flags) as [F1 F2]. split.
  - apply (s_cap_all max). unfold SCap. cbn. exact Hb.
  - apply (s_count_all max base sbase Current). unfold SCount. cbn [fst snd conns streams]. rewrite F1, F2. lia.
Qed.

(* the step that refuses at the first check changes no shared state; the refusal under the write lock is followed
   by exactly one step that takes the caller's stream out again (SUndo), after which it is counted nowhere *)
Lemma server_refusal_step v max lo sh lo' sh' :
  sstep v max lo sh = (lo', sh') -> s_pc lo' = SRefused -> s_pc lo <> SRefused ->
  (s_pc lo = SStart /\ sh' = sh) \/
  (s_pc lo = SUndo /\ conns sh' = conns sh /\ streams sh' = pred (streams sh)).
Proof.
  destruct lo as [pc cl]. unfold sstep. cbn [s_pc s_closes]. intros H Hr Hn.
  destruct pc; try (injection H as <- <-; cbn in Hr; discriminate).
  - destruct (at_cap max (conns sh)); injection H as <- <-; cbn in Hr; [left; auto|discriminate].
  - destruct v; [|destruct (at_cap max (conns sh))]; injection H as <- <-; cbn in Hr; discriminate.
  - injection H as <- <-. right. cbn. auto.
  - destruct cl; injection H as <- <-; cbn in Hr; discriminate.
  - contradiction.
Qed.

(* the code as found: two callers both pass the check before either inserts *)
Lemma server_cap_pinned_refuted :
  exists sched, conns (fst (srun Pinned 1 {| conns := 0; streams := 0 |} [s_new false; s_new false] sched)) = 2.
Proof. exists [0; 1; 0; 0; 0; 1; 1; 1]. vm_compute. reflexivity. Qed.

(* ... and the same schedule on the repaired code accepts one and refuses the other, leaving one stream *)
Lemma server_cap_current_witness :
  let s := srun Current 1 {| conns := 0; streams := 0 |} [s_new false; s_new false] [0; 1; 0; 0; 0; 1; 1; 1; 1] in
  fst s = {| conns := 1; streams := 1 |} /\ map s_pc (snd s) = [SAccepted; SRefused].
Proof. vm_compute. auto. Qed.

(* ================================================================ 2. one-step registries *)
Lemma del_length_le m k : length (del m k) <= length m.
Proof. unfold del. induction m as [|e t IH]; cbn; [lia|]. destruct (negb (fst e =? k)%N); cbn; lia. Qed.

Lemma has_true m k : has m k = true <-> In k (keys m).
Proof.
  unfold has, keys. rewrite existsb_exists. split.
  - intros (e & He & Hk). apply N.eqb_eq in Hk. subst. now apply in_map.
  - intros H. apply in_map_iff in H. destruct H as (e & Hk & He). exists e. split; [exact He|]. now apply N.eqb_eq.
Qed.

Lemma del_length_lt m k : In k (keys m) -> length (del m k) < length m.
Proof.
  unfold del, keys. induction m as [|e t IH]; cbn; [tauto|]. intros [H|H].
  - subst. rewrite N.eqb_refl. cbn. pose proof (del_length_le t (fst e)) as L. unfold del in L. lia.
  - specialize (IH H). destruct (negb (fst e =? k)%N); cbn; lia.
Qed.

Lemma keys_del m k x : In x (keys (del m k)) <-> In x (keys m) /\ x <> k.
Proof.
  unfold keys, del. rewrite !in_map_iff. split.
  - intros (e & Hx & He). apply filter_In in He. destruct He as [He Hk]. apply negb_true_iff in Hk. apply N.eqb_neq in Hk.
    subst. split; [exists e; auto|exact Hk].
  - intros [(e & Hx & He) Hne]. exists e. split; [exact Hx|]. apply filter_In. split; [exact He|].
    apply negb_true_iff. apply N.eqb_neq. now subst.
Qed.

Lemma NoDup_keys_del m k : NoDup (keys m) -> NoDup (keys (del m k)).
Proof.
  unfold keys, del. induction m as [|e t IH]; cbn; intros H; [constructor|].
  inversion H as [|? ? Hn Ht]; subst. destruct (negb (fst e =? k)%N); cbn; [|apply IH, Ht].
  constructor; [|apply IH, Ht]. intros Hin. apply Hn.
  pose proof (proj1 (keys_del t k (fst e))) as K. unfold keys, del in K. apply K in Hin. tauto.
Qed.

Lemma NoDup_keys_put m k t : NoDup (keys m) -> NoDup (keys ((k, t) :: del m k)).
Proof.
  intros H. cbn. constructor; [|apply NoDup_keys_del, H].
  intros Hin. apply keys_del in Hin. tauto.
Qed.

Lemma oldest_in m o : oldest m = Some o -> In o m.
Proof.
  revert o. induction m as [|e t IH]; cbn; intros o H; [discriminate|].
  destruct (oldest t) as [o'|]; [|injection H as <-; auto].
  destruct (N.leb (snd e) (snd o')); injection H as <-; auto.
Qed.
Lemma oldest_some m : m <> [] -> exists o, oldest m = Some o.
Proof.
  destruct m as [|e t]; [congruence|]. intros _. cbn. destruct (oldest t) as [o'|]; [|eauto].
  destruct (N.leb (snd e) (snd o')); eauto.
Qed.
Lemma oldest_min m o : oldest m = Some o -> forall e, In e m -> (snd o <= snd e)%N.
Proof.
  revert o. induction m as [|h t IH]; cbn; intros o H e He; [contradiction|].
  destruct (oldest t) as [o'|] eqn:Eo.
  - destruct (N.leb (snd h) (snd o')) eqn:El; injection H as <-.
    + apply N.leb_le in El. destruct He as [<-|He]; [lia|]. specialize (IH o' eq_refl e He). lia.
    + apply N.leb_gt in El. destruct He as [<-|He]; [lia|]. apply (IH o' eq_refl e He).
  - injection H as <-. destruct He as [<-|He]; [lia|]. destruct t; [contradiction|].
    destruct (oldest_some (p :: t)) as [x Hx]; [discriminate|]. congruence.
Qed.

Definition RInv (max : nat) (m : list (N * N)) : Prop := NoDup (keys m) /\ (0 < max -> length m <= max).

Lemma treg_inv max o m : RInv max m -> RInv max (snd (treg_apply max o m)).
Proof.
  intros [Hn Hc]. unfold treg_apply. destruct o as [id t|id|id cl].
  - destruct (N.eqb id 0); [split; assumption|].
    destruct (at_cap max (length m)) eqn:Ec; [split; assumption|]. cbn [snd]. split; [apply NoDup_keys_put, Hn|].
    intros Hm. apply at_cap_false in Ec. cbn [length]. pose proof (del_length_le m id). lia.
  - destruct (has m id); cbn [snd]; [|split; assumption]. split; [apply NoDup_keys_del, Hn|].
    intros Hm. pose proof (del_length_le m id). specialize (Hc Hm). lia.
  - destruct (has m id); cbn [snd]; split; assumption.
Qed.

Lemma treg_refused_unchanged max o m : fst (treg_apply max o m) = RRefused -> snd (treg_apply max o m) = m.
Proof.
  unfold treg_apply. destruct o as [id t|id|id cl].
  - destruct (N.eqb id 0); [reflexivity|]. destruct (at_cap max (length m)); [reflexivity|]. cbn. discriminate.
  - destruct (has m id); cbn; discriminate.
  - destruct (has m id); reflexivity.
Qed.

(* below the limit a valid registration is never refused, and afterwards the id is registered *)
Lemma treg_accepts_below max id t m : id <> 0%N -> at_cap max (length m) = false ->
  fst (treg_apply max (RReg id t) m) = ROk /\ In id (keys (snd (treg_apply max (RReg id t) m))).
Proof.
  intros Hid Hc. unfold treg_apply. apply N.eqb_neq in Hid. rewrite Hid, Hc. cbn. auto.
Qed.

Lemma del_absent m k : ~ In k (keys m) -> del m k = m.
Proof.
  unfold keys, del. induction m as [|e r IH]; cbn; intros H; [reflexivity|].
  destruct (N.eqb_spec (fst e) k) as [E|E]; cbn.
  - exfalso. apply H. left. exact E.
  - f_equal. apply IH. intros Hin. apply H. right. exact Hin.
Qed.

Lemma del_length_present m k : NoDup (keys m) -> In k (keys m) -> S (length (del m k)) = length m.
Proof.
  induction m as [|e r IH]; intros Hn Hin; [contradiction|].
  cbn in Hn. inversion Hn as [|? ? Hne Hr]; subst.
  unfold del. cbn [filter]. fold (del r k). destruct (N.eqb_spec (fst e) k) as [E|E]; cbn [negb length].
  - subst k. rewrite (del_absent r (fst e) Hne). reflexivity.
  - destruct Hin as [Hin|Hin]; [cbn in Hin; contradiction|]. rewrite <- (IH Hr Hin). reflexivity.
Qed.

Lemma has_false m k : has m k = false -> ~ In k (keys m).
Proof. intros H Hin. apply has_true in Hin. congruence. Qed.

(* the replacement-by-TunnelID shortcut: full registry, new ConnID, known TunnelID => one entry more than the limit;
   the code refuses the same registration *)
Lemma treg_tid_skip_refuted :
  length (snd (treg_tid_skip_apply 2 true 3 3 [(1, 1); (2, 2)]%N)) = 3 /\
  treg_apply 2 (RReg 3 3) [(1, 1); (2, 2)]%N = (RRefused, [(1, 1); (2, 2)]%N).
Proof. vm_compute. auto. Qed.

Lemma creg_inv max o m : RInv max m -> RInv max (snd (creg_apply max o m)).
Proof.
  intros [Hn Hc]. unfold creg_apply. destruct o as [id t|id|id cl].
  - destruct (N.eqb id 0); [split; assumption|].
    destruct (has m id) eqn:Eh.
    + (* replacement: the count does not grow *)
      cbn [snd]. split; [apply NoDup_keys_put, Hn|].
      intros Hm. cbn [length]. apply has_true in Eh. pose proof (del_length_lt m id Eh). specialize (Hc Hm). lia.
    + apply has_false in Eh. destruct (at_cap max (length m)) eqn:Ec.
      * destruct (oldest m) as [old|] eqn:Eo; [|split; assumption]. cbn [snd].
        split.
        -- cbn. constructor; [|apply NoDup_keys_del, Hn]. intros Hin. apply keys_del in Hin. tauto.
        -- intros Hm. cbn [length].
           assert (In (fst old) (keys m)) as Hin by (apply in_map, oldest_in, Eo).
           pose proof (del_length_lt m (fst old) Hin). specialize (Hc Hm). lia.
      * cbn [snd]. split; [cbn; constructor; assumption|].
        intros Hm. apply at_cap_false in Ec. cbn [length]. lia.
  - destruct (has m id); cbn [snd]; [|split; assumption]. split; [apply NoDup_keys_del, Hn|].
    intros Hm. pose proof (del_length_le m id). specialize (Hc Hm). lia.
  - destruct (has m id); cbn [snd]; split; assumption.
Qed.

(* the control cap never refuses a valid connection: a NEW id at the cap evicts an entry with the minimal CreatedAt *)
Lemma creg_evicts_oldest max id t m : id <> 0%N -> ~ In id (keys m) -> at_cap max (length m) = true ->
  exists old, In old m /\ (forall e, In e m -> (snd old <= snd e)%N) /\
              fst (creg_apply max (RReg id t) m) = REvicted (fst old) /\
              In id (keys (snd (creg_apply max (RReg id t) m))) /\
              ~ In (fst old) (keys (snd (creg_apply max (RReg id t) m))) /\
              length (snd (creg_apply max (RReg id t) m)) <= length m.
Proof.
  intros Hid Hnew Hc. unfold creg_apply. apply N.eqb_neq in Hid. rewrite Hid.
  assert (Eh : has m id = false) by (destruct (has m id) eqn:E; [apply has_true in E; contradiction|reflexivity]).
  rewrite Eh, Hc.
  apply at_cap_true in Hc. destruct (oldest_some m) as [old Eo]; [destruct m; cbn in *; [lia|discriminate]|].
  rewrite Eo. exists old. split; [apply oldest_in, Eo|]. split; [apply oldest_min, Eo|]. cbn [fst snd].
  assert (Hin : In (fst old) (keys m)) by (apply in_map, oldest_in, Eo).
  split; [reflexivity|]. split; [cbn; auto|]. split.
  - intros [H|H]; [cbn in H; subst; contradiction|]. apply keys_del in H. tauto.
  - cbn [length]. pose proof (del_length_lt m (fst old) Hin). lia.
Qed.

(* re-registering a ConnID that already has a record replaces it: accepted, nothing else is evicted, the count stays *)
Lemma creg_replace_keeps max id t m : id <> 0%N -> NoDup (keys m) -> In id (keys m) ->
  fst (creg_apply max (RReg id t) m) = ROk /\
  length (snd (creg_apply max (RReg id t) m)) = length m /\
  (forall k, In k (keys (snd (creg_apply max (RReg id t) m))) <-> In k (keys m)).
Proof.
  intros Hid Hn Hin. unfold creg_apply. apply N.eqb_neq in Hid. rewrite Hid.
  apply has_true in Hin. rewrite Hin. apply has_true in Hin. cbn [fst snd]. split; [reflexivity|]. split.
  - cbn [length]. apply del_length_present; assumption.
  - intros k. cbn. split.
    + intros [H|H]; [subst; exact Hin|]. apply keys_del in H. tauto.
    + intros H. destruct (N.eq_dec k id) as [->|Hne]; [left; reflexivity|right]. apply keys_del. tauto.
Qed.

Lemma creg_refused_unchanged max o m : fst (creg_apply max o m) = RRefused -> snd (creg_apply max o m) = m.
Proof.
  unfold creg_apply. destruct o as [id t|id|id cl].
  - destruct (N.eqb id 0); [reflexivity|]. destruct (has m id); [cbn; discriminate|].
    destruct (at_cap max (length m)).
    + destruct (oldest m); [cbn; discriminate|reflexivity].
    + cbn. discriminate.
  - destruct (has m id); cbn; discriminate.
  - destruct (has m id); reflexivity.
Qed.

(* removal always takes the connection out of the map — whatever the client index points to *)
Lemma del_not_in m id : ~ In id (keys (del m id)).
Proof. intros H. apply keys_del in H. tauto. Qed.

Lemma remove_conn_removes r id : ~ In id (keys (x_map (remove_conn false r id))) /\
                                 x_map (remove_conn false r id) = del (x_map r) id.
Proof.
  unfold remove_conn. rewrite andb_false_r. cbn [x_map]. split; [apply del_not_in|reflexivity].
Qed.

(* ... and never touches an index entry that points to another connection *)
Lemma remove_conn_keeps_foreign_index r id cl other :
  lookup2 (x_ident r) id = cl -> has (x_index r) cl = true -> lookup2 (x_index r) cl = other -> other <> id ->
  x_index (remove_conn false r id) = x_index r.
Proof.
  intros Hc Hh Ho Hne. unfold remove_conn. rewrite andb_false_r. cbn [x_index]. rewrite Hc, Hh, Ho.
  destruct (N.eqb_spec other id) as [E|E]; [contradiction|]. rewrite andb_false_r. reflexivity.
Qed.

(* the flattened guard: client 7 authenticated on connection 1, then indexed under connection 2 — removing 1 removes nothing *)
Lemma remove_conn_guarded_refuted :
  exists r id, In id (keys (x_map (remove_conn true r id))) /\ length (x_map (remove_conn true r id)) = length (x_map r).
Proof.
  exists {| x_map := [(1, 10); (2, 20)]%N; x_ident := [(1, 7); (2, 7)]%N; x_index := [(7, 2)]%N |}, 1%N.
  vm_compute. auto.
Qed.

(* ---- the control registry with identities (cregx_apply): the connMap component of Register / Remove is creg_apply's *)
Lemma cregx_map_transfer b max o r :
  (forall id cl, o <> XAuth id cl) ->
  fst (cregx_apply b max o r) = fst (creg_apply max (to_rop o) (x_map r)) /\
  x_map (snd (cregx_apply b max o r)) = snd (creg_apply max (to_rop o) (x_map r)).
Proof.
  intros Hna. destruct o as [id t cl|id|id cl]; [| |exfalso; apply (Hna id cl); reflexivity]; unfold cregx_apply, creg_apply, to_rop.
  - destruct (N.eqb id 0); [auto|]. destruct (has (x_map r) id).
    + cbn [fst snd x_insert x_map]. rewrite (proj2 (remove_conn_removes r id)). auto.
    + destruct (at_cap max (length (x_map r))); [|cbn; auto].
      destruct (oldest (x_map r)) as [old|]; [|auto]. cbn [fst snd x_insert x_map].
      rewrite (proj2 (remove_conn_removes r (fst old))). auto.
  - destruct (has (x_map r) id); [|auto]. cbn [fst snd]. rewrite (proj2 (remove_conn_removes r id)). auto.
Qed.

(* UpdateAuth: the key set is the old one, minus at most ONE other connection — the one the client id resolved to *)
Lemma cregx_auth_map b max id cl r :
  x_map (snd (cregx_apply b max (XAuth id cl) r)) = x_map r \/
  exists old, old <> id /\ x_map (snd (cregx_apply b max (XAuth id cl) r)) = del (x_map r) old.
Proof.
  unfold cregx_apply. destruct (has (x_map r) id); cbn [negb]; [|left; reflexivity].
  set (r1 := {| x_map := x_map r; x_ident := (id, cl) :: del (x_ident r) id;
                x_index := filter (fun e => negb (N.eqb (snd e) id) || N.eqb (fst e) cl) (x_index r) |}).
  destruct (b && has (x_index r1) cl && negb (N.eqb (lookup2 (x_index r1) cl) id)) eqn:E; cbn [snd x_map].
  - right. exists (lookup2 (x_index r1) cl). split.
    + apply andb_prop in E. destruct E as [_ E]. apply negb_true_iff in E. now apply N.eqb_neq in E.
    + rewrite (proj2 (remove_conn_removes r1 _)). reflexivity.
  - left. reflexivity.
Qed.

Lemma cregx_auth_without_eviction max id cl r : x_map (snd (cregx_apply false max (XAuth id cl) r)) = x_map r.
Proof. unfold cregx_apply. destruct (has (x_map r) id); reflexivity. Qed.

Lemma cregx_inv b max o r : RInv max (x_map r) -> RInv max (x_map (snd (cregx_apply b max o r))).
Proof.
  intros H. destruct o as [id t cl|id|id cl].
  - rewrite (proj2 (cregx_map_transfer b max (XReg id t cl) r ltac:(discriminate))). apply creg_inv, H.
  - rewrite (proj2 (cregx_map_transfer b max (XRem id) r ltac:(discriminate))). apply creg_inv, H.
  - destruct (cregx_auth_map b max id cl r) as [E|(old & _ & E)]; rewrite E; [exact H|].
    destruct H as [Hn Hc]. split; [apply NoDup_keys_del, Hn|]. intros Hm. pose proof (del_length_le (x_map r) old). specialize (Hc Hm). lia.
Qed.

Lemma cregx_refused_unchanged b max o r : fst (cregx_apply b max o r) = RRefused -> snd (cregx_apply b max o r) = r.
Proof.
  unfold cregx_apply. destruct o as [id t cl|id|id cl].
  - destruct (N.eqb id 0); [reflexivity|]. destruct (has (x_map r) id); [cbn; discriminate|].
    destruct (at_cap max (length (x_map r))); [|cbn; discriminate]. destruct (oldest (x_map r)); [cbn; discriminate|reflexivity].
  - destruct (has (x_map r) id); cbn; discriminate.
  - destruct (has (x_map r) id); cbn [negb]; [cbn; discriminate|reflexivity].
Qed.

Lemma x_step_inv b max s i : RInv max (x_map (fst s)) -> RInv max (x_map (fst (sys_step _ _ (xstep (cregx_apply b max)) s i))).
Proof.
  destruct s as [r ls]. unfold sys_step. cbn [fst snd]. intros H.
  destruct (nth_error ls i) as [lo|]; [|exact H]. unfold xstep.
  destruct (xl_todo lo) as [|o rest]; [exact H|].
  pose proof (cregx_inv b max o r H) as H'. destruct (cregx_apply b max o r) as [res r']. exact H'.
Qed.

Theorem control_registry_never_exceeds b max r ts sched :
  RInv max (x_map r) -> RInv max (x_map (fst (xrun (cregx_apply b max) r ts sched))).
Proof.
  intros H. unfold xrun.
  apply (inv_all_schedules _ _ (xstep (cregx_apply b max)) (fun s => RInv max (x_map (fst s)))); [intros s i; apply x_step_inv|exact H].
Qed.

Lemma cregx_evicts_oldest b max id t cl r : id <> 0%N -> ~ In id (keys (x_map r)) -> at_cap max (length (x_map r)) = true ->
  exists old, In old (x_map r) /\ (forall e, In e (x_map r) -> (snd old <= snd e)%N) /\
              fst (cregx_apply b max (XReg id t cl) r) = REvicted (fst old) /\
              In id (keys (x_map (snd (cregx_apply b max (XReg id t cl) r)))) /\
              ~ In (fst old) (keys (x_map (snd (cregx_apply b max (XReg id t cl) r)))) /\
              length (x_map (snd (cregx_apply b max (XReg id t cl) r))) <= length (x_map r).
Proof.
  intros Hid Hnew Hc. destruct (cregx_map_transfer b max (XReg id t cl) r ltac:(discriminate)) as [E1 E2].
  rewrite E1, E2. cbn [to_rop]. apply creg_evicts_oldest; assumption.
Qed.

Lemma cregx_replace_keeps b max id t cl r : id <> 0%N -> NoDup (keys (x_map r)) -> In id (keys (x_map r)) ->
  fst (cregx_apply b max (XReg id t cl) r) = ROk /\
  length (x_map (snd (cregx_apply b max (XReg id t cl) r))) = length (x_map r) /\
  (forall k, In k (keys (x_map (snd (cregx_apply b max (XReg id t cl) r)))) <-> In k (keys (x_map r))).
Proof.
  intros Hid Hn Hin. destruct (cregx_map_transfer b max (XReg id t cl) r ltac:(discriminate)) as [E1 E2].
  rewrite E1, E2. cbn [to_rop]. apply creg_replace_keeps; assumption.
Qed.

(* UpdateAuth never grows the registry, removes at most one connection, and never the one being authenticated *)
Lemma cregx_auth_shrinks b max id cl r : NoDup (keys (x_map r)) ->
  length (x_map (snd (cregx_apply b max (XAuth id cl) r))) <= length (x_map r) /\
  length (x_map r) <= S (length (x_map (snd (cregx_apply b max (XAuth id cl) r)))).
Proof.
  intros Hn. destruct (cregx_auth_map b max id cl r) as [E|(old & Hne & E)]; rewrite E; [lia|].
  destruct (in_dec N.eq_dec old (keys (x_map r))) as [Hin|Hnin].
  - pose proof (del_length_present (x_map r) old Hn Hin). lia.
  - rewrite (del_absent (x_map r) old Hnin). lia.
Qed.

Lemma cregx_auth_keeps_self b max id cl r :
  In id (keys (x_map r)) -> In id (keys (x_map (snd (cregx_apply b max (XAuth id cl) r)))).
Proof.
  intros Hin. destruct (cregx_auth_map b max id cl r) as [E|(old & Hne & E)]; rewrite E; [exact Hin|].
  apply keys_del. split; [exact Hin|congruence].
Qed.

(* two logins of one client: after the second UpdateAuth only the second connection is left (eb41b39); before that fix both stayed *)
Example cregx_relogin_witness :
  let ops := [XReg 1 10 0; XAuth 1 7; XReg 2 20 0; XAuth 2 7] in
  keys (x_map (fold_left (fun r o => snd (cregx_apply true 5 o r)) ops x_empty)) = [2%N] /\
  keys (x_map (fold_left (fun r o => snd (cregx_apply false 5 o r)) ops x_empty)) = [2%N; 1%N].
Proof. vm_compute. auto. Qed.

Section Reg.
  Variable max : nat.
  Variable apply : rop -> list (N * N) -> rres * list (N * N).
  Hypothesis apply_inv : forall o m, RInv max m -> RInv max (snd (apply o m)).

  Lemma r_step_inv s i : RInv max (fst s) -> RInv max (fst (sys_step _ _ (rstep apply) s i)).
  Proof.
    destruct s as [m ls]. unfold sys_step. cbn [fst snd]. intros H.
    destruct (nth_error ls i) as [lo|]; [|exact H]. unfold rstep.
    destruct (r_todo lo) as [|o rest]; [exact H|].
    specialize (apply_inv o m H). destruct (apply o m) as [r m']. exact apply_inv.
  Qed.

  Lemma r_all m ts sched : RInv max m -> RInv max (fst (rrun apply m ts sched)).
  Proof.
    intros H. unfold rrun.
    apply (inv_all_schedules _ _ (rstep apply) (fun s => RInv max (fst s))); [intros s i; apply r_step_inv|exact H].
  Qed.
End Reg.

Theorem tunnel_registry_never_exceeds max m ts sched :
  RInv max m -> RInv max (fst (rrun (treg_apply max) m ts sched)).
Proof. apply r_all. intros o m0. apply treg_inv. Qed.

Theorem client_registry_never_exceeds max m ts sched :
  RInv max m -> RInv max (fst (rrun (creg_apply max) m ts sched)).
Proof. apply r_all. intros o m0. apply creg_inv. Qed.

Example reg_nonvacuous :
  RInv 2 [(3, 10); (4, 11)]%N /\
  creg_apply 2 (RReg 5 12) [(4, 11); (3, 10)]%N = (REvicted 3%N, [(5, 12); (4, 11)]%N) /\
  treg_apply 2 (RReg 5 12) [(4, 11); (3, 10)]%N = (RRefused, [(4, 11); (3, 10)]%N).
Proof.
  split; [|split; vm_compute; reflexivity]. split; [|cbn; lia].
  cbn. constructor; [intros [H|[]]; discriminate|]. constructor; [intros []|constructor].
Qed.

(* ================================================================ 3. per-mapping connection limit (client side) *)
Section Mapping.
  Variable max : nat.

  Definition m_loaded_ok (pc : mpc) : Prop :=
    match pc with MLoaded _ cur => 0 < max -> (cur < Z.of_nat max)%Z | _ => True end.

  Definition MInv (s : msh * list mpc) : Prop :=
    counter (fst s) = Z.of_nat (countb m_holds (snd s)) /\
    live (fst s) = Z.of_nat (countb m_live (snd s)) /\
    Forall m_loaded_ok (snd s) /\
    (0 < max -> (counter (fst s) <= Z.of_nat max)%Z).

  Lemma m_step s i : MInv s -> MInv (sys_step _ _ (mstep Current max) s i).
  Proof.
    destruct s as [sh ls]. unfold MInv, sys_step. cbn [fst snd]. intros (Hc & Hl & Hf & Hm).
    destruct (nth_error ls i) as [pc|] eqn:E; [|cbn [fst snd]; auto].
    pose proof (fun x => countb_upd_nth m_holds ls i pc x E) as HA.
    pose proof (fun x => countb_upd_nth m_live ls i pc x E) as HL.
    pose proof (Forall_nth_error _ _ _ _ Hf E) as Hpc.
    assert (FU : forall x, m_loaded_ok x -> Forall m_loaded_ok (upd_nth i x ls)) by (intros x Hx; apply Forall_upd_nth; assumption).
    unfold mstep, mstep_gen. destruct pc as [e|e cur|e| | | | |].
    - destruct max as [|mx] eqn:Emax.
      + specialize (HA (MActive e)). specialize (HL (MActive e)). cbn in HA, HL |- *.
        split; [lia|]. split; [lia|]. split; [apply FU; exact I|]. intros Hx; lia.
      + rewrite <- Emax in *.
        destruct ((0 <? max) && (Z.of_nat max <=? counter sh)%Z) eqn:Ec.
        * specialize (HA MRefused). specialize (HL MRefused). cbn in HA, HL |- *.
          split; [lia|]. split; [lia|]. split; [apply FU; exact I|]. exact Hm.
        * specialize (HA (MLoaded e (counter sh))). specialize (HL (MLoaded e (counter sh))). cbn in HA, HL |- *.
          split; [lia|]. split; [lia|]. split; [|exact Hm]. apply FU. cbn. intros Hx.
          apply andb_false_iff in Ec. destruct Ec as [Ec|Ec]; [apply Nat.ltb_ge in Ec; lia|apply Z.leb_gt in Ec; lia].
    - cbn in Hpc. destruct (counter sh =? cur)%Z eqn:Ec.
      + apply Z.eqb_eq in Ec. specialize (HA (MActive e)). specialize (HL (MActive e)). cbn in HA, HL |- *.
        split; [lia|]. split; [lia|]. split; [apply FU; exact I|]. intros Hx. specialize (Hpc Hx). lia.
      + specialize (HA (MStart e)). specialize (HL (MStart e)). cbn in HA, HL |- *.
        split; [lia|]. split; [lia|]. split; [apply FU; exact I|]. exact Hm.
    - destruct e.
      + specialize (HA MEarlyClosed). specialize (HL MEarlyClosed). cbn in HA, HL |- *.
        split; [lia|]. split; [lia|]. split; [apply FU; exact I|]. intros Hx. specialize (Hm Hx). lia.
      + specialize (HA MLive). specialize (HL MLive). cbn in HA, HL |- *.
        split; [lia|]. split; [lia|]. split; [apply FU; exact I|]. intros Hx. specialize (Hm Hx). lia.
    - specialize (HA MClosing). specialize (HL MClosing). cbn in HA, HL |- *.
      split; [lia|]. split; [lia|]. split; [apply FU; exact I|]. exact Hm.
    - specialize (HA MDone). specialize (HL MDone). cbn in HA, HL |- *.
      split; [lia|]. split; [lia|]. split; [apply FU; exact I|]. intros Hx. specialize (Hm Hx). lia.
    - specialize (HA MDone). specialize (HL MDone). cbn in HA, HL |- *.
      split; [lia|]. split; [lia|]. split; [apply FU; exact I|]. exact Hm.
    - specialize (HA MDone). specialize (HL MDone). cbn in HA, HL |- *.
      split; [lia|]. split; [lia|]. split; [apply FU; exact I|]. exact Hm.
    - specialize (HA MRefused). specialize (HL MRefused). cbn in HA, HL |- *.
      split; [lia|]. split; [lia|]. split; [apply FU; exact I|]. exact Hm.
  Qed.

  Lemma m_all sh ts sched : MInv (sh, ts) -> MInv (mrun Current max sh ts sched).
  Proof. intros H. unfold mrun. apply inv_all_schedules; [intros s i; apply m_step|exact H]. Qed.
End Mapping.

Lemma m_fresh (earlies : list bool) :
  countb m_holds (map MStart earlies) = 0 /\ countb m_live (map MStart earlies) = 0 /\
  forall max, Forall (m_loaded_ok max) (map MStart earlies).
Proof.
  induction earlies as [|e k (I1 & I2 & I3)]; cbn; [auto|]. split; [exact I1|]. split; [exact I2|].
  intros max. constructor; [exact I|apply I3].
Qed.

(* any limit, any number of local connections arriving — each either carried through to a running tunnel or closed by
   its peer between RegisterTunnel and Start —, any schedule of their atomic actions:
   live tunnels <= slots held = activeConnCount <= limit, and the counter never goes below zero *)
Theorem mapping_cap_never_exceeds max (earlies : list bool) sched :
  let s := mrun Current max {| counter := 0; live := 0 |} (map MStart earlies) sched in
  (0 < max -> (counter (fst s) <= Z.of_nat max)%Z) /\
  counter (fst s) = Z.of_nat (countb m_holds (snd s)) /\
  live (fst s) = Z.of_nat (countb m_live (snd s)) /\
  (0 <= live (fst s) <= counter (fst s))%Z.
Proof.
  intros s. destruct (m_fresh earlies) as (F1 & F2 & F3).
  assert (H : MInv max s).
  { apply m_all. unfold MInv. cbn [fst snd counter live]. rewrite F1, F2. split; [reflexivity|]. split; [reflexivity|].
    split; [apply F3|]. intros; lia. }
  destruct H as (Hc & Hl & _ & Hm). split; [exact Hm|]. split; [exact Hc|]. split; [exact Hl|].
  pose proof (countb_imp m_live m_holds (snd s)) as Hi. rewrite Hc, Hl.
  assert (countb m_live (snd s) <= countb m_holds (snd s)) by (apply Hi; intros [?|? ?|?| | | | |]; cbn; congruence). lia.
Qed.

(* a refused arrival has written nothing (the CAS loop only writes on success) *)
Lemma mapping_refusal_step max pc sh pc' sh' :
  mstep Current max pc sh = (pc', sh') -> pc' = MRefused -> sh' = sh.
Proof.
  unfold mstep, mstep_gen. destruct pc as [e|e cur|e| | | | |]; intros H Hr; subst.
  - destruct max; [congruence|].
    destruct ((0 <? S max) && (Z.of_nat (S max) <=? counter sh)%Z); congruence.
  - destruct (counter sh =? cur)%Z; congruence.
  - destruct e; congruence.
  - congruence.
  - congruence.
  - congruence.
  - congruence.
  - congruence.
Qed.

(* the code as found: Load, Load, Add, Add *)
Lemma mapping_cap_pinned_refuted :
  exists sched, counter (fst (mrun Pinned 1 {| counter := 0; live := 0 |} [MStart false; MStart false] sched)) = 2%Z.
Proof. exists [0; 1; 0; 1]. vm_compute. reflexivity. Qed.

(* the code as found, even WITHOUT any overlap: the slot is given back when handleConnection returns, while the
   tunnel it started lives on — two live tunnels under limit 1 with a strictly sequential schedule *)
Lemma mapping_slot_lifetime_pinned_refuted :
  exists sched, let s := mrun Pinned 1 {| counter := 0; live := 0 |} [MStart false; MStart false] sched in
                live (fst s) = 2%Z /\ snd s = [MLive; MLive].
Proof. exists [0; 0; 0; 1; 1; 1]. vm_compute. auto. Qed.

(* the release WITHOUT the sync.Once: one connection closed by its peer between RegisterTunnel and Start is released
   twice (counter -1), after which two connections are live under limit 1 — strictly sequential *)
Lemma mapping_release_not_idempotent_refuted :
  exists sched,
    let s := run _ _ (mstep_gen false true Current 1) ({| counter := 0; live := 0 |}, [MStart true; MStart false; MStart false]) sched in
    live (fst s) = 2%Z /\ snd s = [MDone; MLive; MLive] /\
    counter (fst (run _ _ (mstep_gen false true Current 1) ({| counter := 0; live := 0 |}, [MStart true; MStart false; MStart false])
                      (firstn 4 sched))) = (-1)%Z.
Proof. exists [0; 0; 0; 0; 1; 1; 1; 2; 2; 2]. vm_compute. auto. Qed.

(* ... the same history with the Once: the third connection is refused *)
Lemma mapping_release_idempotent_witness :
  let s := mrun Current 1 {| counter := 0; live := 0 |} [MStart true; MStart false; MStart false] [0; 0; 0; 0; 1; 1; 1; 2; 2; 2] in
  fst s = {| counter := 1; live := 1 |} /\ snd s = [MDone; MLive; MRefused].
Proof. vm_compute. auto. Qed.

(* Tunnel.Close returning the slot BEFORE the local connection is closed (NOT the code): limit 1, the tunnel of the first
   connection is being closed from outside and its localConn.Close() has not returned; a second connection arrives and is let
   in — two OPEN connections *)
Lemma mapping_release_before_close_refuted :
  exists sched,
    let s := run _ _ (mstep_gen true false Current 1) ({| counter := 0; live := 0 |}, [MStart false; MStart false]) sched in
    live (fst s) = 2%Z /\ snd s = [MClosing; MLive].
Proof. exists [0; 0; 0; 0; 1; 1; 1]. vm_compute. auto. Qed.

Lemma mapping_close_first_witness :
  let s := mrun Current 1 {| counter := 0; live := 0 |} [MStart false; MStart false] [0; 0; 0; 0; 1; 1; 1] in
  fst s = {| counter := 1; live := 1 |} /\ snd s = [MClosing; MRefused].
Proof. vm_compute. auto. Qed.

(* ---------------------------------------------------------------- 3b. the slot as events: exact count, idempotent release *)
Lemma countb_split {A} (p q r : A -> bool) l :
  (forall x, p x = q x || r x) -> (forall x, q x && r x = false) -> countb p l = countb q l + countb r l.
Proof.
  intros Hp Hd. induction l as [|x t IH]; cbn; [reflexivity|]. rewrite IH, (Hp x). specialize (Hd x).
  destruct (q x), (r x); cbn in *; try discriminate; lia.
Qed.

Section Holder.
  Variable max : nat.

  Definition h_ok (lo : hloc) : Prop := h_holding lo = true -> h_acquired lo = true.
  (* counter = holders; the holders accepted against a KNOWN limit are within it *)
  Definition HInv (s : Z * list hloc) : Prop :=
    fst s = Z.of_nat (countb h_holding (snd s)) /\ Forall h_ok (snd s) /\
    (0 < max -> countb h_known_holding (snd s) <= max).

  Lemma h_split ls : countb h_holding ls = countb h_known_holding ls + countb h_fault_holding ls.
  Proof.
    apply countb_split; intros [t a h f]; unfold h_known_holding, h_fault_holding; cbn; destruct h, f; reflexivity.
  Qed.

  Lemma h_step s i : HInv s -> HInv (sys_step _ _ (hstep true true max) s i).
  Proof.
    destruct s as [c ls]. unfold HInv, sys_step. cbn [fst snd]. intros (Hc & Hf & Hm).
    destruct (nth_error ls i) as [lo|] eqn:E; [|cbn [fst snd]; auto].
    pose proof (fun x => countb_upd_nth h_holding ls i lo x E) as HA.
    pose proof (fun x => countb_upd_nth h_known_holding ls i lo x E) as HK.
    pose proof (h_split ls) as HS.
    pose proof (Forall_nth_error _ _ _ _ Hf E) as Hlo. unfold h_ok in Hlo.
    assert (FU : forall x, h_ok x -> Forall h_ok (upd_nth i x ls)) by (intros x Hx; apply Forall_upd_nth; assumption).
    destruct lo as [todo acq hold bf]. unfold hstep. cbn [h_todo h_acquired h_holding h_byfault] in *.
    destruct todo as [|[| |] r]; destruct acq, hold, bf; cbn [orb negb andb];
      try (exfalso; specialize (Hlo eq_refl); discriminate);
      try destruct ((0 <? max) && (Z.of_nat max <=? c)%Z) eqn:Ec;
      match goal with |- context [upd_nth i ?x ls] => specialize (HA x); specialize (HK x) end;
      cbn in HA, HK |- *;
      (split; [lia|]); (split; [apply FU; unfold h_ok; cbn; first [discriminate|auto]|]);
      intros Hx; specialize (Hm Hx);
      try (apply andb_false_iff in Ec; destruct Ec as [Ec|Ec]; [apply Nat.ltb_ge in Ec|apply Z.leb_gt in Ec]);
      lia.
  Qed.

  Lemma h_all c ts sched : HInv (c, ts) -> HInv (hrun true true max c ts sched).
  Proof. intros H. unfold hrun. apply inv_all_schedules; [intros s i; apply h_step|exact H]. Qed.
End Holder.

Lemma h_fresh (scripts : list (list hev)) :
  countb h_holding (map h_new scripts) = 0 /\ countb h_known_holding (map h_new scripts) = 0 /\ Forall h_ok (map h_new scripts).
Proof.
  induction scripts as [|x t (I1 & I2 & I3)]; cbn; [split; [reflexivity|split; [reflexivity|constructor]]|].
  split; [exact I1|]. split; [exact I2|]. constructor; [unfold h_ok; cbn; discriminate|exact I3].
Qed.

(* for EVERY sequence of acquire / acquire-during-a-quota-fault / release / release-again events of every connection, any
   number of connections and every schedule: the counter equals the number of connections that hold a slot (a connection
   let through during a quota fault IS counted; nothing is released twice) — so it never goes below zero — and the holders
   accepted against a known limit stay within it *)
Theorem slot_release_idempotent max (scripts : list (list hev)) sched :
  let s := hrun true true max 0%Z (map h_new scripts) sched in
  fst s = Z.of_nat (countb h_holding (snd s)) /\ (0 <= fst s)%Z /\ (0 < max -> countb h_known_holding (snd s) <= max).
Proof.
  intros s. destruct (h_fresh scripts) as (F1 & F2 & F3).
  assert (H : HInv max s).
  { apply h_all. unfold HInv. cbn [fst snd]. rewrite F1, F2. split; [reflexivity|]. split; [exact F3|]. intros; lia. }
  destruct H as (Hc & _ & Hm). split; [exact Hc|]. split; [lia|exact Hm].
Qed.

(* without any quota fault in the scripts the plain bound follows: counter <= limit *)
Lemma no_fault_known ls : Forall (fun lo => h_byfault lo = false) ls -> countb h_known_holding ls = countb h_holding ls.
Proof.
  induction 1 as [|lo t Hb _ IH]; cbn; [reflexivity|]. unfold h_known_holding at 1. rewrite Hb, IH.
  destruct (h_holding lo); reflexivity.
Qed.

Lemma slot_release_not_idempotent_refuted :
  exists sched, let s := hrun false true 1 0%Z (map h_new [[HAcq; HRel; HRel]; [HAcq]; [HAcq]]) sched in
                countb h_holding (snd s) = 2 /\ fst (hrun false true 1 0%Z (map h_new [[HAcq; HRel; HRel]; [HAcq]; [HAcq]]) (firstn 3 sched)) = (-1)%Z.
Proof. exists [0; 0; 0; 1; 2]. vm_compute. auto. Qed.

(* accept-without-count on a quota fault (NOT the code): while the connection is open the counter under-reports, after its
   release it is -1, and then three connections hold a slot against the known limit 2 *)
Lemma slot_fault_accept_uncounted_refuted :
  exists sched,
    let scripts := map h_new [[HAcqFault; HRel]; [HAcq]; [HAcq]; [HAcq]] in
    fst (hrun true false 2 0%Z scripts (firstn 1 sched)) = 0%Z /\
    countb h_holding (snd (hrun true false 2 0%Z scripts (firstn 1 sched))) = 1 /\
    fst (hrun true false 2 0%Z scripts (firstn 2 sched)) = (-1)%Z /\
    countb h_known_holding (snd (hrun true false 2 0%Z scripts sched)) = 3.
Proof. exists [0; 0; 1; 2; 3]. vm_compute. auto. Qed.

(* the code on the same history: the fourth connection is refused *)
Lemma slot_fault_accept_counted_witness :
  let s := hrun true true 2 0%Z (map h_new [[HAcqFault; HRel]; [HAcq]; [HAcq]; [HAcq]]) [0; 0; 1; 2; 3] in
  fst s = 2%Z /\ countb h_known_holding (snd s) = 2.
Proof. vm_compute. auto. Qed.

(* ---------------------------------------------------------------- 2b. Register split into evict ; insert *)
(* the lock released around the evicted stream's Close(): the second Register finds room, the first inserts afterwards *)
Lemma creg_split_refuted :
  exists sched, length (fst (run _ _ (creg_split_step 2) ([(1, 1); (2, 2)]%N, [PStart 3 3; PStart 4 4]) sched)) = 3.
Proof. exists [0; 1; 0]. vm_compute. reflexivity. Qed.

(* ... while the atomic Register on the same callers, under the same schedule and every other, stays at 2 *)
Lemma creg_atomic_witness :
  forall b sched, length (x_map (fst (xrun (cregx_apply b 2) {| x_map := [(1, 1); (2, 2)]%N; x_ident := []; x_index := [] |}
                                  [{| xl_todo := [XReg 3 3 0]; xl_log := [] |}; {| xl_todo := [XReg 4 4 0]; xl_log := [] |}] sched))) <= 2.
Proof.
  intros b sched.
  assert (H : RInv 2 (x_map (fst (xrun (cregx_apply b 2) {| x_map := [(1, 1); (2, 2)]%N; x_ident := []; x_index := [] |}
                                [{| xl_todo := [XReg 3 3 0]; xl_log := [] |}; {| xl_todo := [XReg 4 4 0]; xl_log := [] |}] sched)))).
  { apply control_registry_never_exceeds. split; [|cbn; lia].
    cbn. constructor; [intros [H|[]]; discriminate|]. constructor; [intros []|constructor]. }
  destruct H as [_ H]. apply H. lia.
Qed.

(* ================================================================ 4. storage-level per-client quotas *)
Section Quota.
  Variable max : nat.
  Variable base : nat.

  Definition QCount (s : nat * list qpc) : Prop := fst s = base + countb q_is_created (snd s).
  Definition QRoom (s : nat * list qpc) : Prop := fst s + countb q_is_counted (snd s) <= max.

  Lemma q_count_step s i : QCount s -> QCount (sys_step _ _ (qstep max) s i).
  Proof.
    destruct s as [n ls]. unfold QCount, sys_step. cbn [fst snd]. intros Hc.
    destruct (nth_error ls i) as [pc|] eqn:E; [|cbn [fst snd]; auto].
    pose proof (fun x => countb_upd_nth q_is_created ls i pc x E) as HA.
    unfold qstep. destruct pc.
    - destruct (max <=? n); match goal with |- context [upd_nth i ?x ls] => specialize (HA x) end; cbn in HA |- *; lia.
    - specialize (HA QCreated). cbn in HA |- *. lia.
    - specialize (HA QCreated). cbn in HA |- *. lia.
    - specialize (HA QRefused). cbn in HA |- *. lia.
  Qed.

  Lemma q_room_step s i : q_guard s i = true -> QRoom s -> QRoom (sys_step _ _ (qstep max) s i).
  Proof.
    destruct s as [n ls]. unfold QRoom, q_guard, sys_step. cbn [fst snd]. intros Hg Hr.
    destruct (nth_error ls i) as [pc|] eqn:E; [|cbn [fst snd]; auto].
    pose proof (fun x => countb_upd_nth q_is_counted ls i pc x E) as HA.
    unfold qstep. destruct pc.
    - apply Nat.eqb_eq in Hg. destruct (max <=? n) eqn:El.
      + specialize (HA QRefused). cbn in HA |- *. lia.
      + apply Nat.leb_gt in El. specialize (HA QCounted). cbn in HA |- *. lia.
    - specialize (HA QCreated). cbn in HA |- *. lia.
    - specialize (HA QCreated). cbn in HA |- *. lia.
    - specialize (HA QRefused). cbn in HA |- *. lia.
  Qed.

  Lemma q_count_all n ts sched : QCount (n, ts) -> QCount (qrun max n ts sched).
  Proof. intros H. unfold qrun. apply inv_all_schedules; [intros s i; apply q_count_step|exact H]. Qed.

  Lemma q_room_guarded sched : forall s, overlap_free max s sched = true -> QRoom s -> QRoom (run _ _ (qstep max) s sched).
  Proof.
    induction sched as [|i rest IH]; intros s Hg Hr; [exact Hr|].
    cbn in Hg. apply andb_prop in Hg. destruct Hg as [G1 G2]. cbn. apply IH; [exact G2|]. apply q_room_step; assumption.
  Qed.
End Quota.

Lemma q_fresh n : countb q_is_created (repeat QStart n) = 0 /\ countb q_is_counted (repeat QStart n) = 0.
Proof. induction n as [|k [I1 I2]]; cbn; auto. Qed.

(* bookkeeping for EVERY schedule: the stored count is the initial one plus the accepted creations; a refused request
   (QRefused) contributes nothing *)
Theorem quota_count_exact max base n sched :
  let s := qrun max base (repeat QStart n) sched in fst s = base + countb q_is_created (snd s).
Proof.
  intros s. destruct (q_fresh n) as [F1 F2]. apply (q_count_all max base). unfold QCount. cbn [fst snd]. rewrite F1. lia.
Qed.

(* the limit holds on the schedules in which no admission starts counting while another sits between count and create *)
Theorem quota_never_exceeds_guarded max base n sched :
  base <= max -> overlap_free max (base, repeat QStart n) sched = true ->
  fst (qrun max base (repeat QStart n) sched) <= max.
Proof.
  intros Hb Hg. destruct (q_fresh n) as [F1 F2].
  assert (H : QRoom max (qrun max base (repeat QStart n) sched)).
  { unfold qrun. apply q_room_guarded; [exact Hg|]. unfold QRoom. cbn [fst snd]. rewrite F2. lia. }
  unfold QRoom in H. lia.
Qed.

Lemma quota_step_refused_unchanged max pc n pc' n' : qstep max pc n = (pc', n') -> pc' = QRefused -> n' = n.
Proof.
  unfold qstep. destruct pc; intros H Hr; subst.
  - destruct (max <=? n); congruence.
  - congruence.
  - congruence.
  - congruence.
Qed.

(* the code as found: count, count, create, create at limit-1 occupancy — excluded by the guard, and over the limit *)
Lemma quota_refuted :
  exists sched, fst (qrun 10 9 [QStart; QStart] sched) = 11 /\ overlap_free 10 (9, [QStart; QStart]) sched = false.
Proof. exists [0; 1; 0; 1]. vm_compute. auto. Qed.

Example quota_guard_nonvacuous :
  overlap_free 10 (9, repeat QStart 3) [0; 0; 1; 2; 1] = true /\ fst (qrun 10 9 (repeat QStart 3) [0; 0; 1; 2; 1]) = 10.
Proof. vm_compute. auto. Qed.

(* ================================================================ 5. the count as a fold over fallible reads *)
Lemma count_reads_le p : forall recs f c, count_reads p recs f = Some c -> c <= active recs.
Proof.
  induction recs as [|a rs IH]; intros f c H; cbn in *.
  - injection H as <-. lia.
  - destruct (match f with [] => false | x :: _ => x end).
    + destruct p; [discriminate| |]; specialize (IH _ _ H); unfold active in *; destruct a; lia.
    + destruct (count_reads p rs (match f with [] => [] | _ :: fs => fs end)) as [c'|] eqn:E; [|discriminate].
      injection H as <-. specialize (IH _ _ E). unfold active in *. destruct a; lia.
Qed.

(* with the aborting listing a count that comes back at all is the true count, whatever reads were marked to fail *)
Lemma count_reads_abort_exact : forall recs f c, count_reads Abort recs f = Some c -> c = active recs.
Proof.
  induction recs as [|a rs IH]; intros f c H; cbn in *.
  - injection H as <-. reflexivity.
  - destruct (match f with [] => false | x :: _ => x end); [discriminate|].
    destruct (count_reads Abort rs (match f with [] => [] | _ :: fs => fs end)) as [c'|] eqn:E; [|discriminate].
    injection H as <-. rewrite (IH _ _ E). unfold active. destruct a; reflexivity.
Qed.

(* without a failing read every policy counts exactly *)
Lemma count_reads_no_fault p : forall recs, count_reads p recs [] = Some (active recs).
Proof.
  induction recs as [|a rs IH]; cbn; [reflexivity|]. rewrite IH. unfold active. destruct a; reflexivity.
Qed.

(* a request that is not accepted changes nothing — every policy *)
Lemma accept_not_created_unchanged p max recs i f :
  fst (accept_once p max recs i f) <> ACreated -> snd (accept_once p max recs i f) = recs.
Proof.
  unfold accept_once.
  destruct (if i then match p with Open => Some 0 | _ => None end else count_reads p recs f) as [c|]; [|reflexivity].
  destruct (max <=? c); cbn; [reflexivity|congruence].
Qed.

(* FAIL CLOSED: with the aborting listing, a request at (or over) the full quota is refused or fails and changes
   nothing, whichever reads fail (the index read, any subset of the by-id reads) *)
Theorem quota_fail_closed max recs i f :
  max <= active recs ->
  fst (accept_once Abort max recs i f) <> ACreated /\ snd (accept_once Abort max recs i f) = recs.
Proof.
  intros Hfull.
  assert (H : fst (accept_once Abort max recs i f) <> ACreated).
  { unfold accept_once. destruct i; [cbn; discriminate|].
    destruct (count_reads Abort recs f) as [c|] eqn:E; [|cbn; discriminate].
    apply count_reads_abort_exact in E. subst c.
    destruct (max <=? active recs) eqn:El; [cbn; discriminate|]. apply Nat.leb_gt in El. lia. }
  split; [exact H|]. apply accept_not_created_unchanged, H.
Qed.

(* ... and below the quota it never over-accepts either: the limit is preserved by one admission under any faults *)
Theorem quota_abort_preserves_limit max recs i f :
  active recs <= max -> active (snd (accept_once Abort max recs i f)) <= max.
Proof.
  intros Hb. unfold accept_once. destruct i; [cbn; exact Hb|].
  destruct (count_reads Abort recs f) as [c|] eqn:E; [|cbn; exact Hb].
  apply count_reads_abort_exact in E. subst c.
  destruct (max <=? active recs) eqn:El; cbn [snd]; [exact Hb|]. apply Nat.leb_gt in El. unfold active in *. cbn. lia.
Qed.

(* without a failing read the lenient listings refuse at the full quota as well (guard: no read fault) *)
Theorem quota_lenient_refuses_without_fault p max recs :
  max <= active recs -> accept_once p max recs false [] = (ARefused, recs).
Proof.
  intros Hfull. unfold accept_once. rewrite count_reads_no_fault.
  destruct (max <=? active recs) eqn:El; [reflexivity|]. apply Nat.leb_gt in El. lia.
Qed.

(* the skipping listing: ONE failed by-id read at a full quota accepts one more *)
Lemma quota_skip_refuted :
  exists recs f, active recs = 3 /\ countb (fun b => b) f = 1 /\
                 accept_once SkipRecord 3 recs false f = (ACreated, true :: recs).
Proof. exists [true; true; true], [false; true; false]. vm_compute. auto. Qed.

(* the activation's listing (documented choice of the code): a failed index read reads as an empty listing, a failed by-id read
   as an absent record — storage faults are outside C17's quantifier; recorded as a fact of the model, not as a defect *)
Lemma activation_count_failed_read_as_absent :
  accept_once Open 1 [true] true [] = (ACreated, [true; true]) /\
  accept_once Open 1 [true] false [true] = (ACreated, [true; true]).
Proof. vm_compute. auto. Qed.

(* ================================================================ 6. the repaired quota admission (per-client marker) *)
Section Locked.
  Variable max : nat.
  Variable base : nat.

  Definition LInv (s : lsh * list lloc) : Prop :=
    countb l_holds (snd s) + countb l_counted (snd s) = (if q_lock (fst s) then 1 else 0) /\
    q_n (fst s) = base + countb l_created (snd s) /\
    q_n (fst s) + countb l_counted (snd s) <= max.

  Lemma l_step s i : LInv s -> LInv (sys_step _ _ (lstep max) s i).
  Proof.
    destruct s as [sh ls]. unfold LInv, sys_step. cbn [fst snd]. intros (Hk & Hn & Hr).
    destruct (nth_error ls i) as [lo|] eqn:E; [|cbn [fst snd]; auto].
    pose proof (fun x => countb_upd_nth l_holds ls i lo x E) as HK.
    pose proof (fun x => countb_upd_nth l_counted ls i lo x E) as HC.
    pose proof (fun x => countb_upd_nth l_created ls i lo x E) as HD.
    destruct lo as [pc fl]. destruct sh as [n lk]. unfold lstep, lstep_gen. cbn [l_pc l_fault q_n q_lock andb] in *.
    destruct pc.
    - match goal with |- context [upd_nth i ?x ls] => specialize (HK x); specialize (HC x); specialize (HD x) end.
      cbn in HK, HC, HD |- *. lia.
    - destruct lk;
        match goal with |- context [upd_nth i ?x ls] => specialize (HK x); specialize (HC x); specialize (HD x) end;
        cbn in HK, HC, HD |- *; lia.
    - destruct fl; [|destruct (max <=? n) eqn:El];
        match goal with |- context [upd_nth i ?x ls] => specialize (HK x); specialize (HC x); specialize (HD x) end;
        cbn in HK, HC, HD |- *; try (apply Nat.leb_gt in El); destruct lk; lia.
    - match goal with |- context [upd_nth i ?x ls] => specialize (HK x); specialize (HC x); specialize (HD x) end.
      cbn in HK, HC, HD |- *. destruct lk; lia.
    - match goal with |- context [upd_nth i ?x ls] => specialize (HK x); specialize (HC x); specialize (HD x) end.
      cbn in HK, HC, HD |- *. destruct lk; lia.
    - match goal with |- context [upd_nth i ?x ls] => specialize (HK x); specialize (HC x); specialize (HD x) end.
      cbn in HK, HC, HD |- *. destruct lk; lia.
    - match goal with |- context [upd_nth i ?x ls] => specialize (HK x); specialize (HC x); specialize (HD x) end.
      cbn in HK, HC, HD |- *. destruct lk; lia.
    - match goal with |- context [upd_nth i ?x ls] => specialize (HK x); specialize (HC x); specialize (HD x) end.
      cbn in HK, HC, HD |- *. lia.
    - match goal with |- context [upd_nth i ?x ls] => specialize (HK x); specialize (HC x); specialize (HD x) end.
      cbn in HK, HC, HD |- *. lia.
    - match goal with |- context [upd_nth i ?x ls] => specialize (HK x); specialize (HC x); specialize (HD x) end.
      cbn in HK, HC, HD |- *. lia.
    - match goal with |- context [upd_nth i ?x ls] => specialize (HK x); specialize (HC x); specialize (HD x) end.
      cbn in HK, HC, HD |- *. lia.
    - match goal with |- context [upd_nth i ?x ls] => specialize (HK x); specialize (HC x); specialize (HD x) end.
      cbn in HK, HC, HD |- *. lia.
  Qed.

  Lemma l_all sh ts sched : LInv (sh, ts) -> LInv (lrun max sh ts sched).
  Proof. intros H. unfold lrun. apply inv_all_schedules; [intros s i; apply l_step|exact H]. Qed.
End Locked.

Lemma l_fresh (faults : list bool) :
  countb l_holds (map l_new faults) = 0 /\ countb l_counted (map l_new faults) = 0 /\ countb l_created (map l_new faults) = 0.
Proof. induction faults as [|f t (I1 & I2 & I3)]; cbn; auto. Qed.

(* any limit, any number of requests of one client, any of them hitting a failing read, any schedule of their storage-level
   steps: the active count never exceeds the limit, it is exact, and the marker is held by at most one request *)
Theorem quota_locked_never_exceeds max base (faults : list bool) sched :
  base <= max ->
  let s := lrun max {| q_n := base; q_lock := false |} (map l_new faults) sched in
  q_n (fst s) <= max /\
  q_n (fst s) = base + countb l_created (snd s) /\
  countb l_holds (snd s) + countb l_counted (snd s) = (if q_lock (fst s) then 1 else 0).
Proof.
  intros Hb s. destruct (l_fresh faults) as (F1 & F2 & F3).
  assert (H : LInv max base s).
  { apply l_all. unfold LInv. cbn [fst snd q_n q_lock]. rewrite F1, F2, F3. lia. }
  destruct H as (Hk & Hn & Hr). split; [lia|]. split; [exact Hn|exact Hk].
Qed.

(* a request that loses the SetNX, is refused at the limit, or hits a failing read never touches the count *)
Lemma quota_locked_step_count max lo sh lo' sh' :
  lstep max lo sh = (lo', sh') -> q_n sh' <> q_n sh -> l_pc lo = LCounted /\ l_pc lo' = LDoneHeld /\ q_n sh' = S (q_n sh).
Proof.
  destruct lo as [pc fl]. unfold lstep, lstep_gen. cbn [l_pc l_fault andb]. intros H Hn.
  destruct pc; try (injection H as <- <-; cbn in Hn; congruence).
  - destruct (q_lock sh); injection H as <- <-; cbn in Hn; congruence.
  - destruct fl; [|destruct (max <=? q_n sh)]; injection H as <- <-; cbn in Hn; congruence.
  - injection H as <- <-. cbn. auto.
Qed.

(* acquire = SetNX; on refusal Exists; gone => let in without the marker: three requests of one client at limit-2 occupancy,
   A holds the marker, B's SetNX is refused, A finishes and releases, B's Exists finds the marker gone, C's SetNX succeeds —
   B and C are both between count and create: 3 active entries under limit 2 *)
Lemma quota_recheck_refuted :
  exists sched,
    let s := run _ _ (lstep_gen true 2) ({| q_n := 0; q_lock := false |}, [l_new false; l_new false; l_new false]) sched in
    q_n (fst s) = 3 /\ map l_pc (snd s) = [LCreated; LDoneHeld; LDoneHeld].
Proof. exists [0; 0; 1; 1; 0; 0; 0; 1; 1; 2; 2; 2; 1; 2]. vm_compute. auto. Qed.

(* the code on the same schedule: B is answered Conflict and only A and C create *)
Lemma quota_no_recheck_witness :
  let s := lrun 2 {| q_n := 0; q_lock := false |} [l_new false; l_new false; l_new false] [0; 0; 1; 1; 0; 0; 0; 1; 1; 2; 2; 2; 1; 2; 2] in
  fst s = {| q_n := 2; q_lock := false |} /\ map l_pc (snd s) = [LCreated; LBusy; LCreated].
Proof. vm_compute. auto. Qed.

Example quota_locked_witness :
  let s := lrun 2 {| q_n := 1; q_lock := false |} [l_new false; l_new false; l_new true]
                [0; 1; 2; 0; 0; 1; 0; 0; 2; 2; 2; 2] in
  fst s = {| q_n := 2; q_lock := false |} /\ map l_pc (snd s) = [LCreated; LBusy; LFailed].
Proof. vm_compute. auto. Qed.

(* ================================================================ 7. the index tracks the records (count = existing codes) *)
Lemma filter_all {A} (f : A -> bool) l : (forall x, In x l -> f x = true) -> filter f l = l.
Proof.
  induction l as [|x t IH]; intros H; cbn; [reflexivity|]. rewrite (H x (or_introl eq_refl)). f_equal. apply IH.
  intros y Hy. apply H. now right.
Qed.
Lemma imem_In k l : imem k l = true <-> In k l.
Proof.
  unfold imem. rewrite existsb_exists. split.
  - intros (x & Hx & E). apply N.eqb_eq in E. now subst.
  - intros H. exists k. split; [exact H|apply N.eqb_refl].
Qed.

Definition i_thread_ok (sh : ish) (pc : ipc) : Prop :=
  match pc with
  | ICreate id 0 => True
  | ICreate id 1 => In id (i_stored sh)
  | ICreate id _ => In id (i_stored sh) /\ In id (i_index sh)
  | IList _ => True
  end.
Definition IInv (s : ish * list ipc) : Prop :=
  (forall k, In k (i_index (fst s)) -> In k (i_stored (fst s))) /\ Forall (i_thread_ok (fst s)) (snd s).

Lemma i_thread_ok_mono sh sh' pc :
  (forall k, In k (i_stored sh) -> In k (i_stored sh')) -> (forall k, In k (i_index sh) -> In k (i_index sh')) ->
  i_thread_ok sh pc -> i_thread_ok sh' pc.
Proof.
  intros Hs Hi. destruct pc as [id [|[|n]]|n]; cbn; auto. intros [A B]. split; auto.
Qed.

Lemma i_step s i : IInv s -> IInv (sys_step _ _ (istep RecordFirst) s i).
Proof.
  destruct s as [sh ls]. unfold IInv, sys_step. cbn [fst snd]. intros [Hsub Hf].
  destruct (nth_error ls i) as [pc|] eqn:E; [|cbn [fst snd]; auto].
  pose proof (Forall_nth_error _ _ _ _ Hf E) as Hpc.
  destruct pc as [id [|[|n]]|[|n]]; cbn [istep fst snd i_stored i_index].
  - split; [intros k Hk; cbn; right; apply Hsub, Hk|].
    apply Forall_upd_nth; [|cbn; left; reflexivity].
    eapply Forall_impl; [|exact Hf]. intros pc0. apply i_thread_ok_mono; cbn; auto.
  - cbn in Hpc. split; [intros k [<-|Hk]; [exact Hpc|apply Hsub, Hk]|].
    apply Forall_upd_nth; [|cbn; split; [exact Hpc|left; reflexivity]].
    eapply Forall_impl; [|exact Hf]. intros pc0. apply i_thread_ok_mono; cbn; auto.
  - split; [exact Hsub|]. apply Forall_upd_nth; [exact Hf|exact Hpc].
  - split; [exact Hsub|]. apply Forall_upd_nth; [exact Hf|exact I].
  - (* a list: every index entry has its record, so nothing is dropped *)
    rewrite (filter_all _ (i_index sh)) by (intros k Hk; apply imem_In, Hsub, Hk).
    split; [exact Hsub|]. apply Forall_upd_nth; [|exact I].
    eapply Forall_impl; [|exact Hf]. intros pc0. apply i_thread_ok_mono; cbn; auto.
Qed.

(* every code whose Create has returned is in the client's index and has its record — for any number of concurrent creates
   and of concurrent lists and every schedule of their storage calls: the quota's count misses nothing *)
Theorem index_tracks_records (ids : list N) (lists : list nat) sched :
  let s := irun RecordFirst {| i_stored := []; i_index := [] |} (map (fun id => ICreate id 0) ids ++ map IList lists) sched in
  (forall k, In k (i_index (fst s)) -> In k (i_stored (fst s))) /\
  (forall id n, In (ICreate id (S (S n))) (snd s) -> In id (i_stored (fst s)) /\ In id (i_index (fst s))) /\
  i_counted (fst s) = length (i_index (fst s)).
Proof.
  intros s.
  assert (H : IInv s).
  { unfold s, irun. apply inv_all_schedules; [intros s0 i; apply i_step|].
    split; [intros k []|]. cbn [fst snd]. apply Forall_app. split; apply Forall_forall; intros pc Hpc; apply in_map_iff in Hpc;
      destruct Hpc as (x & <- & _); exact I. }
  destruct H as [Hsub Hf]. split; [exact Hsub|]. split.
  - intros id n Hin. rewrite Forall_forall in Hf. exact (Hf _ Hin).
  - unfold i_counted. rewrite filter_all; [reflexivity|]. intros k Hk. apply imem_In, Hsub, Hk.
Qed.

(* the two writes swapped: append, LIST, record — the code exists, its Create has returned, and it is not counted *)
Lemma index_first_refuted :
  exists sched, let s := irun IndexFirst {| i_stored := []; i_index := [] |} [ICreate 7 0; IList 1] sched in
                snd s = [ICreate 7 2; IList 0] /\ i_stored (fst s) = [7%N] /\ i_counted (fst s) = 0.
Proof. exists [0; 1; 0]. vm_compute. auto. Qed.

(* ================================================================ 8. active codes and the claim marker *)
Section Claim.
  Variable max : nat.
  Definition KInv (s : ksh * list kpc) : Prop :=
    k_claimed (fst s) = countb k_is_claimed (snd s) /\ k_claimed (fst s) <= k_active (fst s) /\ k_active (fst s) <= max.

  Lemma k_step s i : KInv s -> KInv (sys_step _ _ (kstep true max) s i).
  Proof.
    destruct s as [sh ls]. unfold KInv, sys_step. cbn [fst snd]. intros (Hc & Hle & Hm).
    destruct (nth_error ls i) as [pc|] eqn:E; [|cbn [fst snd]; auto].
    pose proof (fun x => countb_upd_nth k_is_claimed ls i pc x E) as HA.
    destruct sh as [a c]. cbn [k_active k_claimed] in *. unfold kstep. cbn [k_active k_claimed].
    destruct pc.
    - destruct (max <=? a) eqn:El; match goal with |- context [upd_nth i ?x ls] => specialize (HA x) end; cbn in HA |- *;
        [|apply Nat.leb_gt in El]; lia.
    - specialize (HA KCreated). cbn in HA |- *. lia.
    - specialize (HA KRefusedK). cbn in HA |- *. lia.
    - destruct (c <? a) eqn:El; match goal with |- context [upd_nth i ?x ls] => specialize (HA x) end; cbn in HA |- *;
        [apply Nat.ltb_lt in El|]; lia.
    - specialize (HA KUsed). cbn in HA |- *. lia.
    - specialize (HA KUsed). cbn in HA |- *. lia.
    - specialize (HA KIdle). cbn in HA |- *. lia.
  Qed.
End Claim.

(* creates of the client and activations of its codes in any number and under any schedule: the ACTIVE codes (claimed ones
   included — a claim can be given back) never exceed the limit *)
Theorem claim_counted_never_exceeds max base (ts : list kpc) sched :
  base <= max -> countb k_is_claimed ts = 0 ->
  let s := krun true max {| k_active := base; k_claimed := 0 |} ts sched in
  k_active (fst s) <= max /\ k_claimed (fst s) <= k_active (fst s).
Proof.
  intros Hb Hz s.
  assert (H : KInv max s).
  { unfold s, krun. apply inv_all_schedules; [intros s0 i; apply k_step|]. unfold KInv. cbn [fst snd k_active k_claimed]. lia. }
  destruct H as (_ & H1 & H2). split; assumption.
Qed.

(* skipping claimed codes in the count: limit 1, one active code; its activation claims it, a create sees 0 and is let in —
   two active codes while the claim can still be given back *)
Lemma claim_skipped_refuted :
  exists sched, let s := krun false 1 {| k_active := 1; k_claimed := 0 |} [KActivate; KCreate] sched in
                k_active (fst s) = 2 /\ snd s = [KClaimed; KCreated].
Proof. exists [0; 1]. vm_compute. auto. Qed.

Lemma claim_counted_witness :
  let s := krun true 1 {| k_active := 1; k_claimed := 0 |} [KActivate; KCreate; KCreate] [0; 1; 0; 2] in
  fst s = {| k_active := 1; k_claimed := 0 |} /\ snd s = [KUsed; KRefusedK; KCreated].
Proof. vm_compute. auto. Qed.
